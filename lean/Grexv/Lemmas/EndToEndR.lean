import Grexv.Lemmas.RepInv
import Grexv.Lemmas.ExactR
import Grexv.Lemmas.SafeR
import Grexv.Lemmas.EndToEnd

/-
End to end with repetition conversion (any class options, with or without `-i`, capturing groups, `-e`; plain printing, at least one
anchor): the text `Display for RegExp` writes is accepted by the model of `Regex::new`, the compiled pattern matches a string in full iff an
accepting path of the minimised automaton spells it, and it matches every non-empty stored test case.
-/
set_option linter.unusedSimpArgs false
set_option linter.unusedVariables false
namespace Grexv
open Spec Dfa

theorem lit_ofStr (as : List Atom) (hne : as ≠ []) (hok : AtomsOK as) :
    GOK (Grapheme.ofStr (untok as)) ∧ GSem (Grapheme.ofStr (untok as)) := by
  constructor
  · simp only [Grapheme.ofStr, GOK]
    refine ⟨⟨[as], ⟨by simp, ?_⟩, rfl⟩, Nat.le_refl _, Or.inl ⟨(by first | rfl | trivial), (by first | rfl | trivial),
      (by first | rfl | trivial), (by first | rfl | trivial)⟩⟩
    intro x hx; simp at hx; subst hx; exact ⟨hne, hok⟩
  · simp only [Grapheme.ofStr, GSem]
    exact ⟨Nat.le_refl _, Or.inl (by first | rfl | trivial)⟩

/-- the widening merge keeps graphemes printable and consistent -/
theorem lit_widen (a g : Grapheme) (ha : GOK a ∧ GSem a) (hg : GOK g ∧ GSem g) (hc : a.chars = g.chars) (hm : a.max = g.max - 1) :
    GOK (Grapheme.mk g.chars [] (Nat.min a.min g.min) (Nat.max a.max g.max)) ∧
    GSem (Grapheme.mk g.chars [] (Nat.min a.min g.min) (Nat.max a.max g.max)) := by
  have hamin := GOK_min a ha.1
  have hgmin := GOK_min g hg.1
  obtain ⟨gc, gr, gmn, gmx⟩ := g
  obtain ⟨ac, ar, amn, amx⟩ := a
  simp only [Grapheme.chars, Grapheme.min, Grapheme.max] at hc hm hamin hgmin ⊢
  have hgsem := hg.2
  have hasem := ha.2
  simp only [GSem] at hgsem hasem
  have hgok := hg.1
  simp only [GOK] at hgok
  obtain ⟨⟨ass, hassok, hgc⟩, _, hgcase⟩ := hgok
  have hgb : gmx ≤ 1000 := by
    rcases hgcase with ⟨_, h, _, _⟩ | ⟨_, h, _⟩ <;> omega
  have hmx : Nat.max amx gmx = gmx := by
    apply Nat.max_eq_right; omega
  have h1 : 1 ≤ Nat.min amn gmn := Nat.le_min.mpr ⟨hamin, hgmin⟩
  have hmn : Nat.min amn gmn ≤ amn := Nat.min_le_left _ _
  have hlt : Nat.min amn gmn < Nat.max amx gmx := by
    rw [hmx]; have := hasem.1; have := hgsem.1; omega
  constructor
  · simp only [GOK]
    exact ⟨⟨ass, hassok, hgc⟩, h1, Or.inr ⟨Or.inl hlt, by rw [hmx]; exact hgb, Or.inl (by first | rfl | trivial)⟩⟩
  · simp only [GSem]
    exact ⟨Nat.le_of_lt hlt, Or.inl (by first | rfl | trivial)⟩

/-- the clusters before repetition conversion, for every combination of the class options -/
theorem preClusters_eq (cfg : Config) (env : Env) (ws : List Str) :
    preClusters cfg env ws = ws.map fun w => (subPieces (env.segOf w)).map (fun p => Grapheme.ofStr (p.flatMap (convChar cfg))) := by
  by_cases hf : cfg.charClassFeature = true
  · simp only [preClusters, List.map_map, hf, ite_true]
    apply List.map_congr_left
    intro w _
    simp only [Function.comp, clusterOfPieces_eq, convertClasses_map]
  · have hf' : cfg.charClassFeature = false := by simpa using hf
    simp only [preClusters, Bool.false_eq_true, ite_false, hf']
    apply List.map_congr_left
    intro w _
    simp only [clusterOfPieces_eq]
    have hflags : cfg.digit = false ∧ cfg.nonDigit = false ∧ cfg.space = false ∧ cfg.nonSpace = false ∧
        cfg.word = false ∧ cfg.nonWord = false := by
      simp only [Config.charClassFeature, Bool.or_eq_false_iff] at hf'
      obtain ⟨⟨⟨⟨⟨⟨⟨a, b⟩, c⟩, d⟩, e⟩, f⟩, _⟩, _⟩ := hf'
      exact ⟨a, b, c, d, e, f⟩
    apply List.map_congr_left
    intro p _
    rw [flatMap_convChar_noflags cfg (convChar_noflags cfg hflags) p]

/-- the values of the cluster of a test case -/
def valsOf (cfg : Config) (env : Env) (w : Str) : List Str := (subPieces (env.segOf w)).map fun p => p.flatMap (convChar cfg)

theorem preCluster_vals (cfg : Config) (env : Env) (w : Str) (hseg : SegOK env w) :
    (subPieces (env.segOf w)).map (fun p => Grapheme.ofStr (p.flatMap (convChar cfg))) = (valsOf cfg env w).map Grapheme.ofStr ∧
    ValsOK (valsOf cfg env w) := by
  refine ⟨by simp [valsOf, List.map_map, Function.comp_def], ?_⟩
  intro v hv
  simp only [valsOf, List.mem_map] at hv
  obtain ⟨p, hp, rfl⟩ := hv
  obtain ⟨a1, a2⟩ := piece_atomsOK cfg p ((subPieces_ok (env.segOf w) hseg.1).1 p hp)
  exact ⟨p.map (convAtom cfg), a1, a2, flatMap_convChar cfg p⟩

/-- **S4, the whole cluster** every grapheme of a converted cluster is printable and consistent -/
theorem convertRepetitions_lit (cfg : Config) (hmr : 1 ≤ cfg.minRep) (ss : List Str) (hv : ValsOK ss) (hlen : ss.length ≤ 1000) :
    LitS (convertRepetitions cfg (ss.map Grapheme.ofStr)) := by
  unfold convertRepetitions
  cases hc : convertRepsAux cfg ((ss.map Grapheme.ofStr).length + 1) (ss.map Grapheme.ofStr) with
  | none =>
    simp only [Option.getD_none]
    intro g hg
    obtain ⟨s, hs, rfl⟩ := List.mem_map.mp hg
    obtain ⟨as, hne, hok, rfl⟩ := hv s hs
    exact lit_ofStr as hne hok
  | some res =>
    simp only [Option.getD_some]
    exact fun g hg => ⟨(convertRepsAux_inv cfg hmr _ ss res hv hlen hc g hg).1, (convertRepsAux_inv cfg hmr _ ss res hv hlen hc g hg).2.1⟩

/-- the minimised automaton of `-r` with what the later stages need, for clusters of printable, consistent graphemes -/
theorem min_struct_lit (cfg : Config) (cls : List Cluster) (hcounts : ∀ cl ∈ cls, ∀ g ∈ cl, g.min = g.max)
    (hlit : ∀ cl ∈ cls, LitS cl) :
    ∃ m, minimize (trie cls) pickMin = some m ∧ (Expr.ofDfa cfg m).WFS := by
  obtain ⟨ht, _, _, hra⟩ := trie_r cls hcounts
  have hr := trie_rangeOK cls hcounts
  obtain ⟨p, hp, hst⟩ := minimizePartition_stableR ht
  let m := recreate (trie cls) pickMin p
  have hinit : m.init < m.nodes := by
    show classOf p (trie cls).init < p.length
    exact classOf_lt hst.pinv _ (by rw [ht.init0]; exact ht.pos)
  have hdst : ∀ e ∈ m.edges, e.dst < m.nodes := by
    intro q hqe
    obtain ⟨b, hb, e, he, rfl⟩ := (mem_recreate_edges _ pickMin p q).mp hqe
    have hee := ((mem_outEdges' _ _ e).mp he).1
    show classOf p e.dst < p.length
    exact classOf_lt hst.pinv _ (ht.lt e hee).2
  have hlabels : ∀ e ∈ (trie cls).edges, GOK e.label ∧ GSem e.label :=
    trie_labels_r (fun g => GOK g ∧ GSem g) lit_widen cls (fun cl hcl g hg => hlit cl hcl g hg)
  have hlab : LabelsS_S m := by
    intro q hqe g hg
    simp only [List.mem_singleton] at hg
    subst hg
    obtain ⟨b, hb, e, he, rfl⟩ := (mem_recreate_edges _ pickMin p q).mp hqe
    exact hlabels e ((mem_outEdges' _ _ e).mp he).1
  have hacyc : ∀ c w, Path m c w c → w = [] := fun c w pth => recreate_acyclic_r hst ht hr hra c w pth
  refine ⟨m, by show minimize (trie cls) pickMin = some m; simp only [minimize, hp, Option.map_some, m], ?_⟩
  have := ofDfa_wf_S cfg.cap cfg.esc m hlab (dfsOK_of_bounded m hinit hdst) hacyc
  rwa [ofDfa_congr (c1 := cfg) (c2 := cfgPlain cfg.cap cfg.esc) rfl m]

/-- the settings of the end-to-end theorems with repetition conversion: `-r` with positive thresholds, plain printing (no surrogate
pairs, not verbose, no colours), at least one anchor in place; class options, `-i`, capturing groups and `-e` are free -/
structure RepPrint (cfg : Config) : Prop where
  rep : cfg.rep = true
  minRep : 1 ≤ cfg.minRep
  sur : cfg.sur = false
  verb : cfg.verb = false
  color : cfg.color = false
  anch : (cfg.noStart && cfg.noEnd) = false

/-- the same without the requirement on the anchors -/
structure RepPrintNA (cfg : Config) : Prop where
  rep : cfg.rep = true
  minRep : 1 ≤ cfg.minRep
  sur : cfg.sur = false
  verb : cfg.verb = false
  color : cfg.color = false

theorem RepPrint.toNA {cfg : Config} (h : RepPrint cfg) : RepPrintNA cfg := ⟨h.rep, h.minRep, h.sur, h.verb, h.color⟩

theorem fmtRegExp_repPrint (cfg : Config) (h : RepPrintNA cfg) (e : Expr) :
    fmtRegExp cfg e = ciPrefix cfg.ci ++ fmtRegExp (cfgAnch cfg.cap cfg.esc cfg.noStart cfg.noEnd) e := by
  have hb : bodyText cfg e = bodyText (cfgAnch cfg.cap cfg.esc cfg.noStart cfg.noEnd) e :=
    bodyText_congr (c1 := cfg) (c2 := cfgAnch cfg.cap cfg.esc cfg.noStart cfg.noEnd) ⟨rfl, rfl, h.sur, h.verb, h.color⟩ e
  cases hci : cfg.ci with
  | false =>
    simp only [fmtRegExp, hci, h.verb, h.color, cfgAnch, hb, Bool.and_false, Bool.false_eq_true,
      ite_false, ciPrefix, List.nil_append, Bool.false_and]
    cases cfg.noStart <;> cases cfg.noEnd <;> rfl
  | true =>
    simp only [fmtRegExp, hci, h.verb, h.color, cfgAnch, hb, Bool.and_false, Bool.false_eq_true,
      ite_false, ite_true, ciPrefix, Bool.false_and, Comp.flagI, paint, Gen.strFlagI]
    have hR : ∀ t : Str, replaceChar 12 Gen.strFormFeed (replaceChar 11 Gen.strVerticalTab ([40, 63, 105, 41] ++ t)) =
        [40, 63, 105, 41] ++ replaceChar 12 Gen.strFormFeed (replaceChar 11 Gen.strVerticalTab t) := by
      intro t
      rw [replaceChar_append, replaceChar_append]
      rfl
    cases cfg.noStart <;> cases cfg.noEnd <;> simp only [Bool.false_eq_true, ite_false, ite_true, List.append_assoc, List.nil_append, List.append_nil] <;> exact hR _


/-- the clusters S4 hands to the trie: printable, consistent graphemes with a single count each -/
theorem rep_clusters_lit (cfg : Config) (hrep : cfg.rep = true) (hmr : 1 ≤ cfg.minRep) (env : Env) (ws : List Str) (st : Stages)
    (h : regExpFrom cfg env ws = .ok st) (hseg : ∀ w ∈ storedCases cfg env ws, SegOK env w)
    (hlen : ∀ w ∈ storedCases cfg env ws, (subPieces (env.segOf w)).length ≤ 1000) :
    ∀ cl ∈ st.clusters, LitS cl ∧ ∀ g ∈ cl, g.min = g.max := by
  obtain ⟨hsorted, hcl, htrie, hmin, hfirst⟩ := from_stages_shape cfg env ws st h
  change st.sorted = sortCases (storedCases cfg env ws) at hsorted
  rw [graphemeClusters_rep cfg env _ hrep] at hcl
  rw [preClusters_eq cfg] at hcl
  have hmem : ∀ w ∈ st.sorted, w ∈ storedCases cfg env ws := fun w hw => by rw [hsorted] at hw; exact (sortCases_mem' _ w).mp hw
  intro cl hc
  rw [hcl] at hc
  simp only [List.map_map, List.mem_map, Function.comp] at hc
  obtain ⟨w, hw, rfl⟩ := hc
  have hww := hmem w hw
  obtain ⟨hceq, hvals⟩ := preCluster_vals cfg env w (hseg w hww)
  have hl := hlen w hww
  rw [hceq]
  have hl' : (valsOf cfg env w).length ≤ 1000 := by simpa [valsOf] using hl
  refine ⟨convertRepetitions_lit cfg hmr _ hvals hl', ?_⟩
  apply convertRepetitions_counts
  intro g hg
  obtain ⟨s, _, rfl⟩ := List.mem_map.mp hg
  rfl

/-- **the expression `RegExp::from` keeps under `-r` is well-formed for printing** (an anchor in place: the first candidate) -/
theorem rep_final_wfs (cfg : Config) (hp : RepPrint cfg) (env : Env) (ws : List Str) (st : Stages)
    (h : regExpFrom cfg env ws = .ok st) (hseg : ∀ w ∈ storedCases cfg env ws, SegOK env w)
    (hlen : ∀ w ∈ storedCases cfg env ws, (subPieces (env.segOf w)).length ≤ 1000) : st.finalAst.WFS := by
  obtain ⟨hsorted, hcl, htrie, hmin, hfirst⟩ := from_stages_shape cfg env ws st h
  have hfinal := from_final_anchored cfg env ws st h hp.anch
  have hall := rep_clusters_lit cfg hp.rep hp.minRep env ws st h hseg hlen
  obtain ⟨m, hm, hwfs⟩ := min_struct_lit cfg st.clusters (fun cl hc => (hall cl hc).2) (fun cl hc => (hall cl hc).1)
  rw [← htrie, hmin] at hm
  cases hm
  rw [hfinal, hfirst]
  exact hwfs

/-- **whichever expression `RegExp::from` keeps under `-r` is well-formed for printing** (any anchors: the first candidate, the expression
of the unminimised trie, or the plain alternation of the converted clusters) -/
theorem rep_final_wfs_na (cfg : Config) (hrep : cfg.rep = true) (hmr : 1 ≤ cfg.minRep) (env : Env) (ws : List Str) (st : Stages)
    (h : regExpFrom cfg env ws = .ok st) (hseg : ∀ w ∈ storedCases cfg env ws, SegOK env w)
    (hlen : ∀ w ∈ storedCases cfg env ws, (subPieces (env.segOf w)).length ≤ 1000) (hws : ws ≠ []) : st.finalAst.WFS := by
  obtain ⟨hsorted, hcl, htrie, hmin, hfirst⟩ := from_stages_shape cfg env ws st h
  change st.sorted = sortCases (storedCases cfg env ws) at hsorted
  have hall := rep_clusters_lit cfg hrep hmr env ws st h hseg hlen
  rcases from_final_three cfg env ws st h with hf | hf | hf
  · obtain ⟨m, hm, hwfs⟩ := min_struct_lit cfg st.clusters (fun cl hc => (hall cl hc).2) (fun cl hc => (hall cl hc).1)
    rw [← htrie, hmin] at hm
    cases hm
    rw [hf]
    exact hwfs
  · obtain ⟨ht, _, _, _⟩ := Dfa.trie_r st.clusters (fun cl hc => (hall cl hc).2)
    have hlabels : ∀ e ∈ (Dfa.trie st.clusters).edges, GOK e.label ∧ GSem e.label :=
      Dfa.trie_labels_r (fun g => GOK g ∧ GSem g) lit_widen st.clusters (fun cl hcl g hg => (hall cl hcl).1 g hg)
    have hlab : LabelsS_S (Dfa.trie st.clusters) := by
      intro q hqe g hg
      simp only [List.mem_singleton] at hg
      subst hg
      exact hlabels q hqe
    have hdfs := dfsOK_of_bounded (Dfa.trie st.clusters) (by rw [ht.init0]; exact ht.pos) (fun e he => (ht.lt e he).2)
    have hacyc : ∀ c w, Dfa.Path (Dfa.trie st.clusters) c w c → w = [] := by
      intro c w pth
      apply Classical.byContradiction
      intro hw
      have := Dfa.Path.lt_of_ne_nil (fun e he => (ht.lt e he).1) pth hw
      omega
    have := ofDfa_wf_S cfg.cap cfg.esc (Dfa.trie st.clusters) hlab hdfs hacyc
    rw [hf, htrie, ofDfa_congr (c1 := cfg) (c2 := cfgPlain cfg.cap cfg.esc) rfl _]
    exact this
  · rw [hf]
    apply Expr.wf_newAlternation_S
    · intro e he
      obtain ⟨c, hc, rfl⟩ := List.mem_map.mp he
      exact (hall c hc).1
    · intro hc
      have hcn : st.clusters = [] := by simpa using hc
      rw [graphemeClusters_rep cfg env _ hrep, preClusters_eq cfg] at hcl
      rw [hcl] at hcn
      have hs0 : st.sorted = [] := by simpa using hcn
      rw [hsorted] at hs0
      have hws1 : storedCases cfg env ws ≠ [] := by
        unfold storedCases lowerCases
        split <;> simpa using hws
      cases hw : storedCases cfg env ws with
      | nil => exact hws1 hw
      | cons a r =>
        have : a ∈ sortCases (storedCases cfg env ws) := (sortCases_mem' _ a).mpr (by rw [hw]; exact List.mem_cons_self)
        rw [hs0] at this
        cases this

/-- a label sequence that carries a cluster spells whatever the cluster spells -/
theorem carriesL_spellsA (i : Bool) {ls : Word} {cl : Cluster} (h : CarriesL ls cl) : ∀ s, SpellsA i cl s → SpellsA i ls s := by
  induction h with
  | nil => intro s hs; exact hs
  | @cons l g w cl hcar _ ih =>
    intro s hs
    obtain ⟨k, u, v, h1, h2, h3, h4, h5⟩ := hs
    have hga : gAtoms l = gAtoms g := by simp only [gAtoms, hcar.1]
    exact ⟨k, u, v, Nat.le_trans hcar.2.1 h1, Nat.le_trans h2 hcar.2.2, h3, by rw [hga]; exact h4, ih v h5⟩

/-- the cluster of a stored test case, as atoms -/
theorem preCluster_tokens (cfg : Config) (env : Env) (w : Str) (hseg : SegOK env w) :
    (((subPieces (env.segOf w)).map (fun p => Grapheme.ofStr (p.flatMap (convChar cfg)))).map Grapheme.value).flatMap (fun s => tokens s) =
      w.map (convAtom cfg) := by
  have hok := subPieces_ok (env.segOf w) hseg.1
  have hw : w = (subPieces (env.segOf w)).flatten := by rw [hok.2]; exact hseg.2.symm
  have : ∀ (ps : List Str), (∀ p ∈ ps, PieceOK p) →
      ((ps.map (fun p => Grapheme.ofStr (p.flatMap (convChar cfg)))).map Grapheme.value).flatMap (fun s => tokens s) =
        ps.flatten.map (convAtom cfg) := by
    intro ps
    induction ps with
    | nil => intro _; rfl
    | cons p r ih =>
      intro hps
      simp only [List.map_cons, List.flatMap_cons, List.flatten_cons, List.map_append]
      rw [ih (fun q hq => hps q (List.mem_cons_of_mem _ hq))]
      congr 1
      have : (Grapheme.ofStr (p.flatMap (convChar cfg))).value = p.flatMap (convChar cfg) := by
        simp [Grapheme.ofStr, Grapheme.value, Grapheme.chars]
      rw [this, flatMap_convChar, tokens_untok _ (piece_atomsOK cfg p (hps p List.mem_cons_self)).2]
  rw [this _ hok.1, ← hw]

/-- the stored test case `t` is carried: whatever its atoms denote is spelled by a word of the kept expression -/
theorem rep_carried (cfg : Config) (hrep : cfg.rep = true) (hmr : 1 ≤ cfg.minRep) (env : Env) (ws : List Str) (st : Stages)
    (h : regExpFrom cfg env ws = .ok st) (hseg : ∀ w ∈ storedCases cfg env ws, SegOK env w)
    (t : Str) (ht : t ∈ storedCases cfg env ws) (hne : t ≠ []) (s : Str) (hs : atomsDen cfg.ci (t.map (convAtom cfg)) s) :
    st.finalAst.strLangR cfg.ci s := by
  obtain ⟨hsorted, _, _, _, hfirst⟩ := from_stages_shape cfg env ws st h
  change st.sorted = sortCases (storedCases cfg env ws) at hsorted
  have hts : t ∈ st.sorted := by rw [hsorted]; exact (sortCases_mem' _ t).mpr ht
  have hmem : ∀ w ∈ st.sorted, w ∈ storedCases cfg env ws := fun w hw => by rw [hsorted] at hw; exact (sortCases_mem' _ w).mp hw
  have hsegp : ∀ w ∈ st.sorted, ∀ p ∈ env.segOf w, p ≠ [] := fun w hw p hpp => ((hseg w (hmem w hw)).1 p hpp).1
  have hpc : (subPieces (env.segOf t)).map (fun p => Grapheme.ofStr (p.flatMap (convChar cfg))) ∈ preClusters cfg env st.sorted := by
    rw [preClusters_eq cfg]
    exact List.mem_map_of_mem (f := fun w => (subPieces (env.segOf w)).map (fun p => Grapheme.ofStr (p.flatMap (convChar cfg)))) hts
  obtain ⟨_, hexp, _, _⟩ := rep_pipeline_sound cfg env ws st h hrep hsegp _ hpc
  have hcounts : ∀ g ∈ convertRepetitions cfg ((subPieces (env.segOf t)).map (fun p => Grapheme.ofStr (p.flatMap (convChar cfg)))),
      g.min = g.max := by
    apply convertRepetitions_counts
    intro g hg
    obtain ⟨s, _, rfl⟩ := List.mem_map.mp hg
    rfl
  have hsp : SpellsA cfg.ci (convertRepetitions cfg ((subPieces (env.segOf t)).map
      (fun p => Grapheme.ofStr (p.flatMap (convChar cfg))))) s := by
    rw [spellsA_fixed cfg.ci _ hcounts, hexp, preCluster_tokens cfg env t (hseg t ht)]
    exact hs
  have hcne : convertRepetitions cfg ((subPieces (env.segOf t)).map (fun p => Grapheme.ofStr (p.flatMap (convChar cfg)))) ≠ [] := by
    intro hnil
    rw [hnil] at hsp
    simp only [SpellsA] at hsp
    subst hsp
    cases t with
    | nil => exact hne rfl
    | cons c r => simp [atomsDen] at hs
  obtain ⟨ls, hls, hcar⟩ := rep_final_expr cfg env ws st h hrep hsegp _ hpc hcne
  exact ⟨ls, hls, carriesL_spellsA cfg.ci hcar s hsp⟩

/-- **C01 with `-r`, end to end on the model, all inputs** (any class options, with or without `-i`): the returned text is accepted by
the model of `Regex::new`, and the compiled pattern matches in full every string that the atoms of a non-empty stored test case denote —
the stored test case is the test case itself, or its lower-cased form under `-i`; an atom is the character itself or the class that
replaced it -/
theorem rep_end_to_end (cfg : Config) (hp : RepPrint cfg) (env : Env) (ws : List Str) (st : Stages)
    (h : regExpFrom cfg env ws = .ok st) (hseg : ∀ w ∈ storedCases cfg env ws, SegOK env w)
    (hlen : ∀ w ∈ storedCases cfg env ws, (subPieces (env.segOf w)).length ≤ 1000)
    (t : Str) (ht : t ∈ storedCases cfg env ws) (hne : t ≠ []) (s : Str) (hsc : ∀ c ∈ s, Scalar c)
    (hs : atomsDen cfg.ci (t.map (convAtom cfg)) s) :
    ∃ P, Spec.parse (fmtRegExp cfg st.finalAst) = some (⟨cfg.ci, false⟩, P) ∧ Spec.fullMatch cfg.ci P s = true := by
  have hwfs := rep_final_wfs cfg hp env ws st h hseg hlen
  rw [fmtRegExp_repPrint cfg hp.toNA]
  obtain ⟨P, hP, hm⟩ := printed_exactAR cfg.ci cfg.cap cfg.esc cfg.noStart cfg.noEnd st.finalAst hwfs s hsc
  exact ⟨P, hP, hm.mpr (rep_carried cfg hp.rep hp.minRep env ws st h hseg t ht hne s hs)⟩

/-- **C01 with `-r`, any anchors**: the same when both anchors are disabled, whichever of its three candidates `RegExp::from` keeps -/
theorem rep_end_to_end_na (cfg : Config) (hp : RepPrintNA cfg) (env : Env) (ws : List Str) (st : Stages)
    (h : regExpFrom cfg env ws = .ok st) (hseg : ∀ w ∈ storedCases cfg env ws, SegOK env w)
    (hlen : ∀ w ∈ storedCases cfg env ws, (subPieces (env.segOf w)).length ≤ 1000)
    (t : Str) (ht : t ∈ storedCases cfg env ws) (hne : t ≠ []) (s : Str) (hsc : ∀ c ∈ s, Scalar c)
    (hs : atomsDen cfg.ci (t.map (convAtom cfg)) s) :
    ∃ P, Spec.parse (fmtRegExp cfg st.finalAst) = some (⟨cfg.ci, false⟩, P) ∧ Spec.fullMatch cfg.ci P s = true := by
  have hws : ws ≠ [] := by
    intro e
    rw [e] at ht
    unfold storedCases lowerCases at ht
    split at ht <;> simp at ht
  have hwfs := rep_final_wfs_na cfg hp.rep hp.minRep env ws st h hseg hlen hws
  rw [fmtRegExp_repPrint cfg hp]
  obtain ⟨P, hP, hm⟩ := printed_exactAR cfg.ci cfg.cap cfg.esc cfg.noStart cfg.noEnd st.finalAst hwfs s hsc
  exact ⟨P, hP, hm.mpr (rep_carried cfg hp.rep hp.minRep env ws st h hseg t ht hne s hs)⟩

/-- **validity with `-r`, any anchors**: the returned text is accepted by the model of `Regex::new` for every non-empty list of test cases -/
theorem rep_valid_na (cfg : Config) (hp : RepPrintNA cfg) (env : Env) (ws : List Str) (st : Stages)
    (h : regExpFrom cfg env ws = .ok st) (hseg : ∀ w ∈ storedCases cfg env ws, SegOK env w)
    (hlen : ∀ w ∈ storedCases cfg env ws, (subPieces (env.segOf w)).length ≤ 1000) (hws : ws ≠ []) :
    ∃ P, Spec.parse (fmtRegExp cfg st.finalAst) = some (⟨cfg.ci, false⟩, P) := by
  have hwfs := rep_final_wfs_na cfg hp.rep hp.minRep env ws st h hseg hlen hws
  rw [fmtRegExp_repPrint cfg hp]
  obtain ⟨P, hP, _⟩ := printed_exactAR cfg.ci cfg.cap cfg.esc cfg.noStart cfg.noEnd st.finalAst hwfs [] (by simp)
  exact ⟨P, hP⟩

/-- **the language of the `-r` pattern, exactly** (settings of `RepPrint`; at least one non-empty test case): the compiled pattern matches
a string of scalar values in full iff the minimised automaton has an accepting path whose labels spell it — every label `{m,n}` contributing
what its atoms denote `k` times, `m ≤ k ≤ n` -/
theorem rep_exact (cfg : Config) (hp : RepPrint cfg) (env : Env) (ws : List Str) (st : Stages)
    (h : regExpFrom cfg env ws = .ok st) (hseg : ∀ w ∈ storedCases cfg env ws, SegOK env w)
    (hlen : ∀ w ∈ storedCases cfg env ws, (subPieces (env.segOf w)).length ≤ 1000) (hne : ∃ t ∈ storedCases cfg env ws, t ≠ [])
    (s : Str) (hs : ∀ c ∈ s, Scalar c) :
    ∃ P, Spec.parse (fmtRegExp cfg st.finalAst) = some (⟨cfg.ci, false⟩, P) ∧
      (Spec.fullMatch cfg.ci P s = true ↔ ∃ ls, st.minimized.LangFrom st.minimized.init ls ∧ SpellsA cfg.ci ls s) := by
  have hwfs := rep_final_wfs cfg hp env ws st h hseg hlen
  obtain ⟨hsorted, _, _, _, hfirst⟩ := from_stages_shape cfg env ws st h
  change st.sorted = sortCases (storedCases cfg env ws) at hsorted
  have hfinal := from_final_anchored cfg env ws st h hp.anch
  have hmem : ∀ w ∈ st.sorted, w ∈ storedCases cfg env ws := fun w hw => by rw [hsorted] at hw; exact (sortCases_mem' _ w).mp hw
  have hsegp : ∀ w ∈ st.sorted, ∀ p ∈ env.segOf w, p ≠ [] := fun w hw p hpp => ((hseg w (hmem w hw)).1 p hpp).1
  obtain ⟨_, hlang, hcar⟩ := rep_first_candidate cfg env ws st h hp.rep hsegp
  -- `b[0]` is an expression: some non-empty test case is carried
  obtain ⟨t, ht, htne⟩ := hne
  have hts : t ∈ st.sorted := by rw [hsorted]; exact (sortCases_mem' _ t).mpr ht
  have hpc : (subPieces (env.segOf t)).map (fun p => Grapheme.ofStr (p.flatMap (convChar cfg))) ∈ preClusters cfg env st.sorted := by
    rw [preClusters_eq cfg]
    exact List.mem_map_of_mem (f := fun w => (subPieces (env.segOf w)).map (fun p => Grapheme.ofStr (p.flatMap (convChar cfg)))) hts
  obtain ⟨_, hexp, _, _⟩ := rep_pipeline_sound cfg env ws st h hp.rep hsegp _ hpc
  have hcne : convertRepetitions cfg ((subPieces (env.segOf t)).map (fun p => Grapheme.ofStr (p.flatMap (convChar cfg)))) ≠ [] := by
    intro hnil
    rw [hnil] at hexp
    have h2 := congrArg (fun l => l.flatMap (fun s => tokens s)) hexp
    rw [preCluster_tokens cfg env t (hseg t ht)] at h2
    cases t with
    | nil => exact htne rfl
    | cons c r => simp [expandAll] at h2
  obtain ⟨w0, hw0, _⟩ := hcar _ hpc hcne
  have hlangE : ∀ ls, st.finalAst.lang ls ↔ st.minimized.LangFrom st.minimized.init ls := by
    intro ls
    rw [hfinal, hfirst, ofDfa_eq, ← hlang ls]
    cases hb : ((List.range st.minimized.nodes).reverse.foldl (elimStep cfg) (elimInit cfg st.minimized st.minimized.dfs)).b.get 0 with
    | none => rw [hb] at hw0; exact absurd hw0 (by simp [olang])
    | some e => simp [olang]
  rw [fmtRegExp_repPrint cfg hp.toNA]
  obtain ⟨P, hP, hm⟩ := printed_exactAR cfg.ci cfg.cap cfg.esc cfg.noStart cfg.noEnd st.finalAst hwfs s hs
  refine ⟨P, hP, ?_⟩
  rw [hm]
  simp only [Expr.strLangR]
  constructor
  · rintro ⟨ls, h1, h2⟩; exact ⟨ls, (hlangE ls).mp h1, h2⟩
  · rintro ⟨ls, h1, h2⟩; exact ⟨ls, (hlangE ls).mpr h1, h2⟩

/-- `items $` on the fragment with counted repetition: the search from offset 0 succeeds at once and spans the whole subject -/
theorem find_items_eolC (i : Bool) (its : List Pat) (hf : ∀ p ∈ its, p.FragC) (s : Str) (h : denLC i its s) :
    Spec.find i (catList (its ++ [Pat.eol])) s = some (0, s.length) := by
  have hall : ∀ st ∈ matchP i (catList (its ++ [Pat.eol])) (0, s), st.1 = s.length := by
    intro st hst
    obtain ⟨h1, h2⟩ := (matchP_catList_eol i its 0 s st).mp hst
    obtain ⟨u, _, hs, hn⟩ := (matchP_exactC i _ (fragC_catList its hf) 0 s st).mp h1
    rw [h2] at hs
    simp only [List.append_nil] at hs
    rw [hn, hs]; simp
  have hmem : ((s.length, []) : Pos) ∈ matchP i (catList (its ++ [Pat.eol])) (0, s) := by
    apply (matchP_catList_eol i its 0 s _).mpr
    exact ⟨(matchP_exactC i _ (fragC_catList its hf) 0 s _).mpr ⟨s, (denC_catList i its s).mpr h, by simp, by simp⟩, rfl⟩
  cases hm : matchP i (catList (its ++ [Pat.eol])) (0, s) with
  | nil => rw [hm] at hmem; simp at hmem
  | cons st rest =>
    have hst := hall st (by rw [hm]; exact List.mem_cons_self)
    unfold Spec.find
    cases hl : s.length with
    | zero => simp only [findFrom, hm]; rw [hst, hl]
    | succ n => simp only [findFrom, hm]; rw [hst, hl]

/-- **C08, the search half, with `-r`** (start anchor disabled, end anchor in place; any class options, with or without `-i`):
`Regex::find` on every string that the atoms of a non-empty stored test case denote returns the whole string -/
theorem rep_find_eol (cfg : Config) (hp : RepPrint cfg) (hns : cfg.noStart = true) (hne' : cfg.noEnd = false)
    (env : Env) (ws : List Str) (st : Stages)
    (h : regExpFrom cfg env ws = .ok st) (hseg : ∀ w ∈ storedCases cfg env ws, SegOK env w)
    (hlen : ∀ w ∈ storedCases cfg env ws, (subPieces (env.segOf w)).length ≤ 1000)
    (t : Str) (ht : t ∈ storedCases cfg env ws) (hne : t ≠ []) (s : Str) (hsc : ∀ c ∈ s, Scalar c)
    (hs : atomsDen cfg.ci (t.map (convAtom cfg)) s) :
    ∃ P, Spec.parse (fmtRegExp cfg st.finalAst) = some (⟨cfg.ci, false⟩, P) ∧ Spec.find cfg.ci P s = some (0, s.length) := by
  have hwfs := rep_final_wfs cfg hp env ws st h hseg hlen
  have hwr := Expr.WFS.toWFR _ hwfs
  obtain ⟨P, hP, hm⟩ := rep_end_to_end cfg hp env ws st h hseg hlen t ht hne s hsc hs
  have hP2 := parse_ci_prefixG _ _ (flags_printedAR cfg.cap cfg.esc true false st.finalAst hwr)
    (parse_printedAR cfg.cap cfg.esc true false st.finalAst hwr) cfg.ci
  rw [fmtRegExp_repPrint cfg hp.toNA, hns, hne'] at hP
  rw [hP2] at hP
  simp only [Option.some.injEq, Prod.mk.injEq, true_and] at hP
  subst hP
  rw [fmtRegExp_repPrint cfg hp.toNA, hns, hne']
  refine ⟨_, hP2, ?_⟩
  have hfr := Expr.bothR_fragC cfg.cap cfg.esc st.finalAst hwr
  have hitems : ∀ p ∈ topItemsR cfg.cap cfg.esc st.finalAst, p.FragC := by
    unfold topItemsR
    split
    · intro p hp; simp only [List.mem_singleton] at hp; subst hp; exact hfr.2
    · exact hfr.1
  have hden : denLC cfg.ci (topItemsR cfg.cap cfg.esc st.finalAst) s :=
    (fullMatch_items_anchC cfg.ci true false _ hitems s).mp hm
  have := find_items_eolC cfg.ci _ hitems s hden
  simpa [preA, postA] using this

/-! ## the literal reading of `SpellsA`: labels without a backslash, case-sensitive -/

theorem tokens_plain : ∀ (s : Str), 92 ∉ s → tokens s = s.map Atom.chr := by
  intro s
  unfold tokens
  induction s with
  | nil => intro _; rfl
  | cons c r ih =>
    intro h
    have hc : c ≠ 92 := fun e => h (by simp [e])
    have hr : 92 ∉ r := fun e => h (List.mem_cons_of_mem _ e)
    simp only [tokensAux, hc, if_false, List.map_cons, ih hr]

theorem gAtoms_plain (l : Grapheme) (h : ∀ s ∈ l.chars, 92 ∉ s) : gAtoms l = l.chars.flatten.map Atom.chr := by
  unfold gAtoms
  generalize l.chars = cs at h
  induction cs with
  | nil => rfl
  | cons s r ih =>
    simp only [List.flatMap_cons, List.flatten_cons, List.map_append]
    rw [tokens_plain s (h s List.mem_cons_self), ih (fun x hx => h x (List.mem_cons_of_mem _ hx))]

theorem powL_literal (t : Str) : ∀ k u, powL (fun s => s = t) k u ↔ u = (List.replicate k t).flatten
  | 0, u => by simp [powL]
  | k + 1, u => by
    simp only [powL, List.replicate_succ, List.flatten_cons]
    constructor
    · rintro ⟨a, b, rfl, ha, hb⟩; rw [(powL_literal t k b).mp hb, ha]
    · rintro rfl; exact ⟨t, _, rfl, rfl, (powL_literal t k _).mpr rfl⟩

/-- case-sensitive and without a backslash in any label, `SpellsA` is the literal reading: every label `{m,n}` contributes its
characters `k` times, `m ≤ k ≤ n` -/
theorem spellsA_literal : ∀ (ls : Word) (s : Str), (∀ l ∈ ls, ∀ x ∈ l.chars, 92 ∉ x) → (SpellsA false ls s ↔ Dfa.Spells ls s)
  | [], s, _ => by simp [SpellsA, Dfa.Spells]
  | l :: ls, s, h => by
    have hl := gAtoms_plain l (h l List.mem_cons_self)
    have ih := fun v => spellsA_literal ls v (fun x hx => h x (List.mem_cons_of_mem _ hx))
    have hp : ∀ k u, powL (atomsDen false (gAtoms l)) k u ↔ u = (List.replicate k l.chars.flatten).flatten := by
      intro k u
      rw [← powL_literal]
      apply powL_congr
      intro s
      rw [hl]; exact atomsDen_chars _ s
    simp only [SpellsA, Dfa.Spells]
    constructor
    · rintro ⟨k, u, v, h1, h2, rfl, h4, h5⟩
      exact ⟨k, v, h1, h2, by rw [(hp k u).mp h4], (ih v).mp h5⟩
    · rintro ⟨k, v, h1, h2, rfl, h5⟩
      exact ⟨k, _, v, h1, h2, rfl, (hp k _).mpr rfl, (ih v).mpr h5⟩

end Grexv
