import Grexv.Lemmas.PrintLit
import Grexv.Lemmas.PrintCount

/-
When does `Display for Grapheme` put the quantifier of a counted grapheme directly behind its text, and when behind a group?
The text of a grapheme string made of atoms is a sequence of *blocks* — a raw code point, a two-character escape `\\y`, or
`\\u{hex}` — and `is_single_escape_sequence` / `char_count == 1` accept it exactly when it is one block (other than `\\\\`).
-/
set_option linter.unusedSimpArgs false
set_option linter.unusedVariables false
namespace Grexv
open Spec

/-- the text of one atom after `escape_regexp_symbols` (before the form-feed rewriting of the whole output) -/
def atext (esc : Bool) (a : Atom) : Str := E esc ((untok [a]).flatMap core1)

/-- the three shapes of a block -/
inductive Block : Str → Prop
  | raw (x : Nat) (h92 : x ≠ 92) (h125 : x ≠ 125) : Block [x]
  | esc2 (y : Nat) (h92 : y ≠ 92) (h117 : y ≠ 117) : Block [92, y]
  | hex (x : Nat) : Block ([92, 117, 123] ++ toHex x ++ [125])

theorem core1_ascii_block : (List.range 128).all (fun x => x == 92 ||
    (core1 x == [x] && x != 125) || (match core1 x with | [a, y] => a == 92 && y != 92 && y != 117 | _ => false)) = true := by
  decide +kernel

theorem block_chr (esc : Bool) (x : Nat) (hx : x ≠ 92) : Block (atext esc (.chr x)) := by
  unfold atext
  simp only [untok, List.flatMap_cons, List.flatMap_nil, List.append_nil]
  by_cases h : x < 128
  · have hcl : ∀ c ∈ core1 x, c < 128 := by
      have := List.all_eq_true.mp core1_ascii_closed x (List.mem_range.mpr h)
      simpa using this
    rw [E_ascii esc _ hcl]
    have := List.all_eq_true.mp core1_ascii_block x (List.mem_range.mpr h)
    simp only [Bool.or_eq_true, beq_iff_eq, Bool.and_eq_true, bne_iff_ne, ne_eq] at this
    rcases this with (h1 | ⟨h1, h2⟩) | h3
    · exact absurd h1 hx
    · rw [h1]; exact Block.raw x hx h2
    · match hc : core1 x with
      | [a, y] =>
        rw [hc] at h3
        simp only [Bool.and_eq_true, beq_iff_eq, bne_iff_ne, ne_eq] at h3
        obtain ⟨⟨rfl, h4⟩, h5⟩ := h3
        exact Block.esc2 y h4 h5
      | [] => rw [hc] at h3; simp at h3
      | [_] => rw [hc] at h3; simp at h3
      | _ :: _ :: _ :: _ => rw [hc] at h3; simp at h3
  · rw [core1_nonascii x (by omega)]
    cases esc
    · simp only [E, Bool.false_eq_true, ite_false]
      exact Block.raw x hx (by omega)
    · simp only [E, ite_true, List.flatMap_cons, List.flatMap_nil, List.append_nil, Expr.escapeChar]
      have : ¬ x < 128 := h
      simp only [this, ite_false, Bool.false_and, Bool.false_eq_true]
      exact Block.hex x

theorem letterOf_ne (k : ClassKind) (n : Bool) : letterOf k n ≠ 92 ∧ letterOf k n ≠ 117 ∧ letterOf k n < 128 := by
  cases k <;> cases n <;> decide

theorem block_cls (esc : Bool) (k : ClassKind) (n : Bool) : atext esc (.cls k n) = [92, letterOf k n] := by
  unfold atext
  simp only [untok, List.flatMap_cons, List.flatMap_nil, List.append_nil, core1_92, core1_letter]
  apply E_ascii
  intro c hc
  simp only [List.singleton_append, List.mem_cons, List.mem_nil_iff, or_false] at hc
  rcases hc with rfl | rfl
  · decide
  · exact (letterOf_ne k n).2.2

theorem block_atom (esc : Bool) (a : Atom) (h : AtomOK a) : Block (atext esc a) := by
  cases a with
  | chr x => exact block_chr esc x h.1
  | cls k n => rw [block_cls]; exact Block.esc2 _ (letterOf_ne k n).1 (letterOf_ne k n).2.1

theorem untok_flatMap (as : List Atom) : untok as = as.flatMap (fun a => untok [a]) := by
  induction as with
  | nil => rfl
  | cons a r ih =>
    cases a <;> simp [untok, ih]

/-- the text of a grapheme string is the concatenation of its blocks -/
theorem text_blocks (esc : Bool) (as : List Atom) : E esc ((untok as).flatMap core1) = as.flatMap (atext esc) := by
  rw [untok_flatMap, List.flatMap_assoc, E_flatMap]
  rfl

theorem hexDigit_ne_92 : ∀ d, d < 16 → hexDigit d ≠ 92 := by decide

theorem toHex_no_bs (x : Nat) : ∀ c ∈ toHex x, c ≠ 92 := by
  rw [toHex_eq]
  intro c hc
  obtain ⟨d, hd, rfl⟩ := List.mem_map.mp hc
  exact hexDigit_ne_92 d (hexDigs_lt 64 x d hd)

theorem countIf_append {α} (p : α → Bool) (a b : List α) : countIf p (a ++ b) = countIf p a + countIf p b := by
  simp [countIf]

theorem countIf_zero {α} (p : α → Bool) (l : List α) (h : ∀ x ∈ l, p x = false) : countIf p l = 0 := by
  simp only [countIf, List.length_eq_zero_iff, List.filter_eq_nil_iff]
  intro x hx; simp [h x hx]

/-- number of backslashes of a block, and the facts about its shape that `is_single_escape_sequence` looks at -/
theorem block_facts {t : Str} (h : Block t) :
    t ≠ [] ∧ (t.head? = some 92 → countIf (· = 92) t = 1 ∧ 2 ≤ t.length) ∧
    (t.head? ≠ some 92 → countIf (· = 92) t = 0 ∧ ∃ x, t = [x] ∧ x ≠ 125) ∧
    (([92, 117, 123] : Str).isPrefixOf t = true → ∃ x, t = [92, 117, 123] ++ toHex x ++ [125]) := by
  cases h with
  | raw x h92 h125 =>
    refine ⟨by simp, ?_, ?_, ?_⟩
    · intro hh; simp at hh; exact absurd hh h92
    · intro _; exact ⟨by simp [countIf, h92], x, rfl, h125⟩
    · intro hp; simp [List.isPrefixOf] at hp
  | esc2 y h92 h117 =>
    refine ⟨by simp, ?_, ?_, ?_⟩
    · intro _; exact ⟨by simp [countIf, h92], by simp⟩
    · intro hh; simp at hh
    · intro hp; simp [List.isPrefixOf, h117] at hp
  | hex x =>
    refine ⟨by simp, ?_, ?_, ?_⟩
    · intro _
      refine ⟨?_, by simp⟩
      have h0 : countIf (· = 92) (toHex x) = 0 := countIf_zero _ _ (fun c hc => by simp [toHex_no_bs x c hc])
      have hf : List.filter (fun x => decide (x = 92)) (toHex x) = [] := by
        simpa [countIf] using h0
      simp [countIf, List.filter_append, hf]
    · intro hh; simp at hh
    · intro _; exact ⟨x, rfl⟩

theorem getLast?_append_ne {α : Type} (a b : List α) (h : b ≠ []) : (a ++ b).getLast? = b.getLast? := by
  induction a with
  | nil => rfl
  | cons x a ih =>
    have : a ++ b ≠ [] := by simp [h]
    rw [List.cons_append, List.getLast?_cons_cons_of_ne this, ih]
where
  List.getLast?_cons_cons_of_ne {α : Type} {x : α} {l : List α} (h : l ≠ []) : (x :: l).getLast? = l.getLast? := by
    cases l with
    | nil => exact absurd rfl h
    | cons y t => simp [List.getLast?_cons_cons]

/-- **one block** is one character or one escape sequence -/
theorem block_single {t : Str} (h : Block t) : t.length = 1 ∨ isSingleEscape t = true := by
  cases h with
  | raw x _ _ => left; rfl
  | esc2 y h92 _ => right; simp [isSingleEscape, countIf, h92]
  | hex x =>
    right
    have hc := (block_facts (Block.hex x)).2.1 (by simp)
    simp only [isSingleEscape, hc.1, beq_self_eq_true, Bool.true_and, Bool.and_eq_true, Bool.or_eq_true, beq_iff_eq]
    refine ⟨by simp, Or.inr ⟨by simp [List.isPrefixOf], ?_⟩⟩
    rw [getLast?_append_ne _ [125] (by simp)]; rfl

theorem flatten_last_raw : ∀ (L : List Str), L ≠ [] → (∀ b ∈ L, Block b) → countIf (· = 92) L.flatten = 0 →
    ∃ x, L.flatten.getLast? = some x ∧ x ≠ 125
  | [], h, _, _ => absurd rfl h
  | [b], _, hb, hc => by
    simp only [List.flatten_cons, List.flatten_nil, List.append_nil] at hc ⊢
    have hf := block_facts (hb b List.mem_cons_self)
    have hh : b.head? ≠ some 92 := by
      intro hh
      have := (hf.2.1 hh).1
      omega
    obtain ⟨_, x, rfl, hx⟩ := hf.2.2.1 hh
    exact ⟨x, rfl, hx⟩
  | b :: b2 :: r, _, hb, hc => by
    simp only [List.flatten_cons, countIf_append] at hc
    have hc2 : countIf (· = 92) (b2 :: r).flatten = 0 := by simp only [List.flatten_cons, countIf_append]; omega
    obtain ⟨x, hx, hne⟩ := flatten_last_raw (b2 :: r) (by simp) (fun y hy => hb y (List.mem_cons_of_mem _ hy)) hc2
    refine ⟨x, ?_, hne⟩
    have hne2 : (b2 :: r).flatten ≠ [] := by
      have := (block_facts (hb b2 (by simp))).1
      simp only [List.flatten_cons]
      intro hcc
      exact this (List.append_eq_nil_iff.mp hcc).1
    rw [List.flatten_cons, getLast?_append_ne _ _ hne2]
    exact hx

/-- **two or more blocks** are neither one character nor one escape sequence -/
theorem blocks_not_single (b1 b2 : Str) (r : List Str) (h1 : Block b1) (h2 : Block b2) (hr : ∀ b ∈ r, Block b) :
    2 ≤ (b1 :: b2 :: r).flatten.length ∧ isSingleEscape (b1 :: b2 :: r).flatten = false := by
  have f1 := block_facts h1
  have f2 := block_facts h2
  have l1 : 1 ≤ b1.length := List.length_pos_iff.mpr f1.1
  have l2 : 1 ≤ b2.length := List.length_pos_iff.mpr f2.1
  refine ⟨by simp only [List.flatten_cons, List.length_append]; omega, ?_⟩
  apply Classical.byContradiction
  intro hcon
  have hse : isSingleEscape (b1 :: b2 :: r).flatten = true := by simpa using hcon
  simp only [isSingleEscape, Bool.and_eq_true, beq_iff_eq, Bool.or_eq_true] at hse
  obtain ⟨⟨hcount, hhead⟩, hshape⟩ := hse
  have hhead1 : b1.head? = some 92 := by
    cases hb : b1 with
    | nil => exact absurd hb f1.1
    | cons a t => rw [hb] at hhead; simpa using hhead
  obtain ⟨hc1, hl1⟩ := f1.2.1 hhead1
  have hrest0 : countIf (· = 92) (b2 :: r).flatten = 0 := by
    simp only [List.flatten_cons, countIf_append] at hcount ⊢
    omega
  rcases hshape with hlen | ⟨hpre, hlast⟩
  · simp only [List.flatten_cons, List.length_append] at hlen; omega
  · -- the text starts with \u{ : the first block is a \u{hex} block
    have hpre1 : ([92, 117, 123] : Str).isPrefixOf b1 = true := by
      cases h1 with
      | raw x h92 _ => simp at hhead1; exact absurd hhead1 h92
      | esc2 y _ h117 =>
        exfalso
        have f2' := f2.1
        cases hb2 : b2 with
        | nil => exact f2' hb2
        | cons c t => rw [hb2] at hpre; simp [List.isPrefixOf] at hpre; exact h117 hpre.1.symm
      | hex x => simp [List.isPrefixOf]
    obtain ⟨x, hx, hne⟩ := flatten_last_raw (b2 :: r) (by simp)
      (fun y hy => by
        simp only [List.mem_cons] at hy
        rcases hy with rfl | hy
        · exact h2
        · exact hr y hy) hrest0
    have hne2 : (b2 :: r).flatten ≠ [] := by
      simp only [List.flatten_cons]
      intro hcc
      exact f2.1 (List.append_eq_nil_iff.mp hcc).1
    rw [List.flatten_cons, getLast?_append_ne _ _ hne2, hx] at hlast
    simp only [Option.some.injEq] at hlast
    exact hne hlast

end Grexv
