import Grexv.Lemmas.HopcroftAcyclic
import Grexv.Lemmas.ElimNoSelf
import Grexv.Lemmas.DfsProof
import Grexv.Model.RegExp

/-
S2 … S7 composed with no per-input contract: for every configuration without repetition conversion,
every segmentation whose pieces are non-empty, and every list of test cases, the expression that
`Expression::from` computes from the minimised trie denotes exactly the non-empty converted test cases.
-/
set_option linter.unusedSimpArgs false
set_option linter.unusedVariables false
namespace Grexv
open Dfa

theorem convCharRules_ne (cfg : Config) (c : Nat) (rs : List Gen.ConvRule) (h : ∀ r ∈ rs, r.token ≠ []) :
    convCharRules cfg c rs ≠ [] := by
  induction rs with
  | nil => simp [convCharRules]
  | cons r rest ih =>
    simp only [convCharRules]
    split
    · exact h r List.mem_cons_self
    · exact ih fun x hx => h x (List.mem_cons_of_mem _ hx)

theorem convRules_tokens : ∀ r ∈ Gen.convRules, r.token ≠ [] := by decide

theorem convChar_ne (cfg : Config) (c : Nat) : convChar cfg c ≠ [] := convCharRules_ne cfg c _ convRules_tokens

theorem flatMap_ne {α β : Type} (f : α → List β) (l : List α) (hl : l ≠ []) (hf : ∀ a, f a ≠ []) : l.flatMap f ≠ [] := by
  cases l with
  | nil => exact absurd rfl hl
  | cons a as =>
    simp only [List.flatMap_cons]
    intro hc
    exact hf a (List.append_eq_nil_iff.mp hc).1

/-- without `-r`, every grapheme handed to the trie is `Grapheme::from(s)` for a non-empty `s` -/
theorem clusters_ofStr (cfg : Config) (env : Env) (ws : List Str) (hrep : cfg.rep = false)
    (hseg : ∀ w ∈ ws, ∀ p ∈ env.segOf w, p ≠ []) :
    ∀ cl ∈ graphemeClusters cfg env ws, ∀ g ∈ cl, ∃ s, s ≠ [] ∧ g = Grapheme.ofStr s := by
  intro cl hcl g hg
  simp only [graphemeClusters, hrep] at hcl
  have plain : ∀ w ∈ ws, ∀ g ∈ clusterOfPieces (env.segOf w), ∃ s, s ≠ [] ∧ g = Grapheme.ofStr s := by
    intro w hw g hg
    simp only [clusterOfPieces, List.mem_flatMap] at hg
    obtain ⟨it, hit, hg⟩ := hg
    split at hg
    · simp at hg; obtain ⟨c, _, rfl⟩ := hg; exact ⟨[c], by simp, rfl⟩
    · simp at hg; subst hg; exact ⟨it, hseg w hw it hit, rfl⟩
  by_cases hf : cfg.charClassFeature = true
  · simp only [hf, ite_true, List.map_map] at hcl
    obtain ⟨w, hw, rfl⟩ := List.mem_map.mp hcl
    simp only [Function.comp, convertClasses, List.mem_map] at hg
    obtain ⟨g0, hg0, rfl⟩ := hg
    obtain ⟨s, hs, rfl⟩ := plain w hw g0 hg0
    exact ⟨s.flatMap (convChar cfg), flatMap_ne _ s hs (convChar_ne cfg), rfl⟩
  · simp only [hf] at hcl
    obtain ⟨w, hw, rfl⟩ := List.mem_map.mp hcl
    exact plain w hw g hg

theorem ofStr_simple (s : Str) : (Grapheme.ofStr s).Simple := ⟨rfl, rfl, rfl⟩

/-! ### labels of the trie and of the minimised automaton -/

theorem step_labels (P : Grapheme → Prop) (d : Dfa) (cur : Nat) (g : Grapheme) (hg : g.Simple) (hd : d.AllSimple)
    (hP : ∀ e ∈ d.edges, P e.label) (hPg : P g) : ∀ e ∈ (step d cur g).1.edges, P e.label := by
  have hout : ∀ e ∈ d.outEdges cur, e.label.Simple := by
    intro e he
    simp only [outEdges, List.mem_reverse, List.mem_filter] at he
    exact hd e he.1
  simp only [step]
  rcases findNext_simple g hg (d.outEdges cur) hout with ⟨h1, _⟩ | ⟨e, he, h1, h2⟩
  · rw [h1]
    intro e he
    simp only [List.mem_append, List.mem_cons, List.mem_nil_iff, or_false] at he
    rcases he with he | rfl
    · exact hP e he
    · exact hPg
  · rw [h2]; exact hP

theorem foldl_labels (P : Grapheme → Prop) (cl : Cluster) (hcl : ∀ g ∈ cl, g.Simple) (hPcl : ∀ g ∈ cl, P g) :
    ∀ (d : Dfa) (cur : Nat), d.AllSimple → (∀ e ∈ d.edges, P e.label) →
      ∀ e ∈ (cl.foldl insertFold (d, cur)).1.edges, P e.label := by
  induction cl with
  | nil => intro d cur _ hP; exact hP
  | cons g rest ih =>
    intro d cur hd hP
    have hg := hcl g (List.mem_cons_self)
    have hrest : ∀ g ∈ rest, g.Simple := fun x hx => hcl x (List.mem_cons_of_mem _ hx)
    let d0 : Dfa := { d with alphabet := alphaInsert g d.alphabet }
    have hd0 : d0.AllSimple := hd
    have hs := step_labels P d0 cur g hg hd0 hP (hPcl g List.mem_cons_self)
    obtain ⟨_, _, hsimple, _⟩ := step_spec d0 cur g hg hd0
    have hfold : (g :: rest).foldl insertFold (d, cur) = rest.foldl insertFold (step d0 cur g) := rfl
    rw [hfold]
    exact ih hrest (fun x hx => hPcl x (List.mem_cons_of_mem _ hx)) _ _ hsimple hs

theorem trie_labels (P : Grapheme → Prop) (cls : List Cluster) (hcls : ∀ cl ∈ cls, ∀ g ∈ cl, g.Simple)
    (hP : ∀ cl ∈ cls, ∀ g ∈ cl, P g) : ∀ e ∈ (trie cls).edges, P e.label := by
  suffices h : ∀ (d : Dfa), d.AllSimple → (∀ e ∈ d.edges, P e.label) → ∀ e ∈ (cls.foldl insert d).edges, P e.label by
    exact h Dfa.empty empty_allSimple (by intro e he; simp [Dfa.empty] at he)
  induction cls with
  | nil => intro d _ h; exact h
  | cons cl rest ih =>
    intro d hd hPd
    have hcl := hcls cl List.mem_cons_self
    have h1 : ∀ e ∈ (insert d cl).edges, P e.label := by
      have := foldl_labels P cl hcl (hP cl List.mem_cons_self) d d.init hd hPd
      rw [insert_eq]; exact this
    have h2 : (insert d cl).AllSimple := (insert_spec d cl hcl hd).2.2.1
    exact ih (fun c hc => hcls c (List.mem_cons_of_mem _ hc)) (fun c hc => hP c (List.mem_cons_of_mem _ hc)) _ h2 h1

theorem classOf_lt {d : Dfa} {p : List Block} (hp : PInv d p) (s : Nat) (hs : s < d.nodes) : classOf p s < p.length := by
  obtain ⟨B, hB, hsB⟩ := hp.cover s hs
  obtain ⟨k, hk, hkB⟩ := List.getElem_of_mem hB
  have hk' : p[k]? = some B := by rw [List.getElem?_eq_getElem hk, hkB]
  rw [classOf_eq p hp.disj k B hk' s hsB]; exact hk

/-- the minimised trie of plain clusters with everything later stages need: its language, a property of all its
labels inherited from the clusters, a closed depth-first order, acyclicity -/
theorem min_struct (cls : List Cluster) (hcls : ∀ cl ∈ cls, ∀ g ∈ cl, g.Simple) (P : Grapheme → Prop)
    (hP : ∀ cl ∈ cls, ∀ g ∈ cl, P g) :
    ∃ m, minimize (trie cls) pickMin = some m ∧ (∀ w, m.Accepts w ↔ (w ∈ cls ∧ w ≠ [])) ∧
      (∀ e ∈ m.edges, P e.label) ∧ DfsOK m m.dfs ∧ 1 ≤ m.nodes ∧ (∀ c w, Path m c w c → w = []) := by
  obtain ⟨ht, ha⟩ := trie_tree_alpha cls hcls
  obtain ⟨p, hp, hst⟩ := minimizePartition_stable ht ha.covers ha.simple
  have hq := quotientOk_of_stable ht hst
  let m := recreate (trie cls) pickMin p
  have hacc : ∀ w, m.Accepts w ↔ (w ∈ cls ∧ w ≠ []) := by
    intro w
    rw [recreate_accepts hq w, trie_exact cls hcls w]
    have := init_never_final ht (trie_parents cls hcls) hst
    constructor
    · rintro ⟨h1, h2 | h2⟩
      · exact ⟨h1, h2⟩
      · exact absurd h2 this
    · rintro ⟨h1, h2⟩; exact ⟨h1, Or.inl h2⟩
  have hinit : m.init < m.nodes := by
    show classOf p (trie cls).init < p.length
    exact classOf_lt hst.pinv _ (by rw [ht.init0]; exact ht.pos)
  have hdst : ∀ e ∈ m.edges, e.dst < m.nodes := by
    intro q hqe
    obtain ⟨b, hb, e, he, rfl⟩ := (mem_recreate_edges _ pickMin p q).mp hqe
    have hee := ((mem_outEdges' _ _ e).mp he).1
    show classOf p e.dst < p.length
    exact classOf_lt hst.pinv _ (ht.lt e hee).2
  refine ⟨m, by show minimize (trie cls) pickMin = some m; simp only [minimize, hp, Option.map_some, m], hacc, ?_,
    dfsOK_of_bounded m hinit hdst, by omega, fun c w pth => recreate_acyclic ht hst c w pth⟩
  intro q hqe
  obtain ⟨b, hb, e, he, rfl⟩ := (mem_recreate_edges _ pickMin p q).mp hqe
  have hee := ((mem_outEdges' _ _ e).mp he).1
  exact trie_labels P cls hcls hP e hee

/-- **S2–S7, no per-input contract** -/
theorem pipeline_total (cfg : Config) (env : Env) (ws : List Str) (hrep : cfg.rep = false)
    (hseg : ∀ w ∈ ws, ∀ p ∈ env.segOf w, p ≠ []) :
    ∃ m, minimize (trie (graphemeClusters cfg env ws)) pickMin = some m ∧
      (∀ w, m.Accepts w ↔ (w ∈ graphemeClusters cfg env ws ∧ w ≠ [])) ∧
      ∀ w : Word, olang (((List.range m.nodes).reverse.foldl (elimStep cfg) (elimInit cfg m m.dfs)).b.get 0) w ↔
        (w ∈ graphemeClusters cfg env ws ∧ w ≠ []) := by
  let cls := graphemeClusters cfg env ws
  have hof := clusters_ofStr cfg env ws hrep hseg
  have hcls : ∀ cl ∈ cls, ∀ g ∈ cl, g.Simple := by
    intro cl hcl g hg
    obtain ⟨s, _, rfl⟩ := hof cl hcl g hg
    exact ofStr_simple s
  obtain ⟨ht, ha⟩ := trie_tree_alpha cls hcls
  obtain ⟨p, hp, hst⟩ := minimizePartition_stable ht ha.covers ha.simple
  have hq := quotientOk_of_stable ht hst
  let m := recreate (trie cls) pickMin p
  have hacc : ∀ w, m.Accepts w ↔ (w ∈ cls ∧ w ≠ []) := by
    intro w
    rw [recreate_accepts hq w, trie_exact cls hcls w]
    have := init_never_final ht (trie_parents cls hcls) hst
    constructor
    · rintro ⟨h1, h2 | h2⟩
      · exact ⟨h1, h2⟩
      · exact absurd h2 this
    · rintro ⟨h1, h2⟩; exact ⟨h1, Or.inl h2⟩
  refine ⟨m, by show minimize (trie cls) pickMin = some m; simp only [minimize, hp, Option.map_some, m], hacc, ?_⟩
  -- the contracts of S7 on `m`
  have hinit : m.init < m.nodes := by
    show classOf p (trie cls).init < p.length
    exact classOf_lt hst.pinv _ (by rw [ht.init0]; exact ht.pos)
  have hdst : ∀ e ∈ m.edges, e.dst < m.nodes := by
    intro q hqe
    obtain ⟨b, hb, e, he, rfl⟩ := (mem_recreate_edges _ pickMin p q).mp hqe
    have hee := ((mem_outEdges' _ _ e).mp he).1
    show classOf p e.dst < p.length
    exact classOf_lt hst.pinv _ (ht.lt e hee).2
  have hplain : m.PlainLabels := by
    intro q hqe
    obtain ⟨b, hb, e, he, rfl⟩ := (mem_recreate_edges _ pickMin p q).mp hqe
    have hee := ((mem_outEdges' _ _ e).mp he).1
    obtain ⟨s, hs, hl⟩ := trie_labels (fun g => ∃ s, s ≠ [] ∧ g = Grapheme.ofStr s) cls hcls hof e hee
    show e.label.Plainish
    rw [hl]; exact Expr.plainish_ofStr s hs
  have hN : 1 ≤ m.nodes := by omega
  have hdfs := dfsOK_of_bounded m hinit hdst
  have hacyc : ∀ c w, Path m c w c → w = [] := fun c w pth => recreate_acyclic ht hst c w pth
  intro w
  rw [elimination_lang_acyclic cfg m hplain hN hdfs hacyc w, ← hacc w]
  simp [Dfa.Accepts, Dfa.LangFrom, Dfa.isFinal, List.contains_iff_mem]

end Grexv
