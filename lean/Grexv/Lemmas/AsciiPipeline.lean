import Grexv.Lemmas.AsciiOut
import Grexv.Lemmas.ElimNoSelf
import Grexv.Lemmas.Pipeline

/-
C11, the pipeline side: with `-e`, `union` only merges expressions into a character class when each prints
as exactly one character *after* escaping — so every class member is ASCII; the invariant is kept by the
whole algebra and by the elimination loop.
-/
set_option linter.unusedSimpArgs false
set_option linter.unusedVariables false
namespace Grexv
namespace Expr

theorem clsAsciiL_iff (os : List Expr) : ClsAsciiL os ↔ ∀ o ∈ os, ClsAscii o := by
  induction os with
  | nil => simp [ClsAsciiL]
  | cons o os ih => simp [ClsAsciiL, ih]

mutual
theorem clsAscii_flatten : ∀ (e : Expr), ClsAscii e → ClsAsciiL (flatten e)
  | .alt os, h => by simp only [flatten]; exact clsAscii_flattenL os h
  | .cls cs, h => by simp only [flatten, ClsAsciiL]; exact ⟨h, trivial⟩
  | .cat a b, h => by simp only [flatten, ClsAsciiL]; exact ⟨h, trivial⟩
  | .lit c, h => by simp only [flatten, ClsAsciiL]; exact ⟨h, trivial⟩
  | .rep e q, h => by simp only [flatten, ClsAsciiL]; exact ⟨h, trivial⟩
theorem clsAscii_flattenL : ∀ (os : List Expr), ClsAsciiL os → ClsAsciiL (flattenL os)
  | [], _ => by simp [flattenL, ClsAsciiL]
  | o :: os, h => by
    simp only [flattenL]
    rw [clsAsciiL_iff]
    intro x hx
    simp only [List.mem_append] at hx
    rcases hx with hx | hx
    · exact (clsAsciiL_iff _).mp (clsAscii_flatten o h.1) x hx
    · exact (clsAsciiL_iff _).mp (clsAscii_flattenL os h.2) x hx
end

theorem clsAscii_newAlternation (es : List Expr) (h : ∀ e ∈ es, ClsAscii e) : ClsAscii (newAlternation es) := by
  simp only [newAlternation, ClsAscii]
  rw [clsAsciiL_iff]
  intro o ho
  rw [mem_sortBy] at ho
  exact (clsAsciiL_iff _).mp (clsAscii_flattenL es ((clsAsciiL_iff es).mpr h)) o ho

theorem clsAscii_concatCore (e1 e2 : Expr) (h1 : ClsAscii e1) (h2 : ClsAscii e2) : ClsAscii (concatCore e1 e2) := by
  unfold concatCore
  split
  · trivial
  · exact ⟨trivial, h2.2⟩
  · exact ⟨h1.1, trivial⟩
  · exact ⟨h1, h2⟩

def OCls : Option Expr → Prop
  | none => True
  | some e => ClsAscii e

theorem ocls_concatenate (a b : Option Expr) (ha : OCls a) (hb : OCls b) : OCls (concatenate a b) := by
  cases a with
  | none => simp [concatenate, OCls]
  | some e1 =>
    cases b with
    | none => simp [concatenate, OCls]
    | some e2 =>
      simp only [concatenate]
      split
      · exact hb
      · split
        · exact ha
        · exact clsAscii_concatCore e1 e2 ha hb

theorem clsAscii_removeSubstring (s : Side) (n : Nat) (e : Expr) (h : ClsAscii e) : ClsAscii (removeSubstring s n e) := by
  cases e with
  | lit c => trivial
  | cat a b =>
    cases s
    · simp only [removeSubstring]
      split
      · exact ⟨trivial, h.2⟩
      · exact h
    · simp only [removeSubstring]
      split
      · exact ⟨h.1, trivial⟩
      · exact h
  | alt _ => exact h
  | cls _ => exact h
  | rep _ _ => exact h

theorem clsAscii_removeCommon (s : Side) (a b : Expr) (ha : ClsAscii a) (hb : ClsAscii b) :
    ClsAscii (removeCommon s a b).1 ∧ ClsAscii (removeCommon s a b).2.1 := by
  unfold removeCommon
  cases findCommon s a b with
  | none => exact ⟨ha, hb⟩
  | some v => exact ⟨clsAscii_removeSubstring _ _ _ ha, clsAscii_removeSubstring _ _ _ hb⟩

/-! ### the class-merging case -/

theorem escapeChar_len (c : Nat) (h : 128 ≤ c) : 2 ≤ (escapeChar c false).length := by
  have : ¬ c < 128 := by omega
  simp [escapeChar, this]

theorem sum_ge_of_mem (l : List Nat) (x : Nat) (h : x ∈ l) : x ≤ l.sum := by
  induction l with
  | nil => simp at h
  | cons a as ih =>
    simp only [List.mem_cons] at h
    simp only [List.sum_cons]
    rcases h with rfl | h
    · omega
    · have := ih h; omega

/-- under `-e` a literal that counts as one code point starts with an ASCII character -/
theorem extractCharSet_ascii (cfg : Config) (hesc : cfg.esc = true) (e : Expr) (h : ClsAscii e)
    (hs : e.isSingleCodepoint cfg = true) : ∀ x ∈ extractCharSet e, x < 128 := by
  cases e with
  | cls cs => exact h
  | alt os => simp [isSingleCodepoint] at hs
  | cat a b => simp [isSingleCodepoint] at hs
  | rep e q => simp [isSingleCodepoint] at hs
  | lit c =>
    simp only [isSingleCodepoint, hesc, Bool.and_eq_true, beq_iff_eq] at hs
    have hcount := hs.1
    intro x hx
    simp only [extractCharSet] at hx
    cases c with
    | nil => simp at hx
    | cons g gs =>
      simp only [List.head?_cons] at hx
      cases hv : g.value with
      | nil => simp [hv] at hx
      | cons ch rest =>
        simp only [hv, List.head?_cons, List.mem_singleton] at hx
        subst hx
        apply Classical.byContradiction
        intro hnot
        have hge : 128 ≤ x := by omega
        -- `x` sits in one of the strings of `g.chars`
        have hmem : x ∈ g.chars.flatten := by
          have : g.chars.flatten = x :: rest := hv
          rw [this]; exact List.mem_cons_self
        obtain ⟨it, hit, hxit⟩ := List.mem_flatten.mp hmem
        have h1 : (escapeChar x false).length ≤ (it.flatMap fun c => escapeChar c false).length := by
          rw [List.length_flatMap]
          exact sum_ge_of_mem _ _ (List.mem_map.mpr ⟨x, hxit, rfl⟩)
        have h2 : (it.flatMap fun c => escapeChar c false).length ≤ graphemeCharCount g true := by
          simp only [graphemeCharCount, ite_true]
          exact sum_ge_of_mem _ _ (List.mem_map.mpr ⟨it, hit, rfl⟩)
        have h3 : graphemeCharCount g true ≤ clusterCharCount (g :: gs) true := by
          simp only [clusterCharCount, List.map_cons, List.sum_cons]; omega
        have := escapeChar_len x hge
        omega

theorem mem_fold_insertChar (a b : List Nat) (x : Nat) :
    x ∈ a.foldl (fun acc c => insertChar c acc) b → x ∈ a ∨ x ∈ b := by
  induction a generalizing b with
  | nil => intro h; exact Or.inr h
  | cons c cs ih =>
    intro h
    simp only [List.foldl_cons] at h
    rcases ih _ h with h | h
    · exact Or.inl (List.mem_cons_of_mem _ h)
    · rcases (mem_insertChar x c b).mp h with rfl | h
      · exact Or.inl List.mem_cons_self
      · exact Or.inr h

theorem clsAscii_unionMid (cfg : Config) (hesc : cfg.esc = true) (e1 e2 : Expr) (h1 : ClsAscii e1) (h2 : ClsAscii e2) :
    ClsAscii (unionMid cfg e1 e2) := by
  have two : ∀ x y : Expr, ClsAscii x → ClsAscii y → ClsAscii (newAlternation [x, y]) := by
    intro x y hx hy
    apply clsAscii_newAlternation
    intro z hz
    simp only [List.mem_cons, List.mem_nil_iff, or_false] at hz
    rcases hz with rfl | rfl
    · exact hx
    · exact hy
  unfold unionMid
  split
  · exact h2
  · split
    · exact h1
    · split
      · exact two _ _ h1 h2
      · split
        · exact two _ _ h1 h2
        · split
          · rename_i hs
            simp only [Bool.and_eq_true] at hs
            simp only [newCharacterClass, ClsAscii]
            intro x hx
            rcases mem_fold_insertChar _ _ x hx with h | h
            · exact extractCharSet_ascii cfg hesc e1 h1 hs.1 x h
            · exact extractCharSet_ascii cfg hesc e2 h2 hs.2 x h
          · exact two e1 e2 h1 h2

theorem clsAscii_unionCore (cfg : Config) (hesc : cfg.esc = true) (a b : Expr) (ha : ClsAscii a) (hb : ClsAscii b) :
    ClsAscii (unionCore cfg a b) := by
  unfold unionCore
  simp only []
  obtain ⟨p1, p2⟩ := clsAscii_removeCommon .pre a b ha hb
  obtain ⟨q1, q2⟩ := clsAscii_removeCommon .suf _ _ p1 p2
  have hm := clsAscii_unionMid cfg hesc _ _ q1 q2
  have hw : ClsAscii (wrapPre (removeCommon .pre a b).2.2 (unionMid cfg (removeCommon .suf (removeCommon .pre a b).1 (removeCommon .pre a b).2.1).1
      (removeCommon .suf (removeCommon .pre a b).1 (removeCommon .pre a b).2.1).2.1)) := by
    cases (removeCommon .pre a b).2.2 with
    | none => simpa [wrapPre] using hm
    | some p => exact ⟨trivial, hm⟩
  cases (removeCommon .suf (removeCommon .pre a b).1 (removeCommon .pre a b).2.1).2.2 with
  | none => simpa [wrapSuf] using hw
  | some s => exact ⟨hw, trivial⟩

theorem ocls_union (cfg : Config) (hesc : cfg.esc = true) (a b : Option Expr) (ha : OCls a) (hb : OCls b) :
    OCls (union cfg a b) := by
  cases a with
  | none => cases b <;> simp_all [union, OCls]
  | some e1 =>
    cases b with
    | none => simpa [union, OCls] using ha
    | some e2 =>
      simp only [union]
      split
      · exact ha
      · exact clsAscii_unionCore cfg hesc e1 e2 ha hb

end Expr

open Expr

/-! ### the elimination loop -/

def ClsSys (A : Nat → Nat → Option Expr) (B : Nat → Option Expr) : Prop := (∀ i j, OCls (A i j)) ∧ ∀ i, OCls (B i)

theorem clsSys_step (cfg : Config) (hesc : cfg.esc = true) (n : Nat) (A : Nat → Nat → Option Expr) (B : Nat → Option Expr)
    (h : ClsSys A B) : ClsSys (stepA cfg n A) (stepB cfg n A B) := by
  obtain ⟨hA, hB⟩ := h
  constructor
  · intro i j
    simp only [stepA]
    split
    · exact ocls_union cfg hesc _ _ (hA i j) (ocls_concatenate _ _ (hA i n) (hA n j))
    · exact hA i j
  · intro i
    simp only [stepB]
    split
    · exact ocls_union cfg hesc _ _ (hB i) (ocls_concatenate _ _ (hA i n) (hB n))
    · exact hB i

theorem elim_loop_cls (cfg : Config) (hesc : cfg.esc = true) (N : Nat) :
    ∀ (k : Nat), k ≤ N → ∀ (st : ElimState), StSq N st → ClsSys (absA st) (absB st) →
      NoSelfAlong cfg st (List.range k).reverse →
      ClsSys (absA ((List.range k).reverse.foldl (elimStep cfg) st)) (absB ((List.range k).reverse.foldl (elimStep cfg) st)) := by
  intro k
  induction k with
  | zero => intro _ st _ h _; simpa using h
  | succ k ih =>
    intro hk st hst hsys hno
    rw [range_succ_reverse] at hno ⊢
    simp only [List.foldl_cons]
    obtain ⟨hself, hno'⟩ := hno
    obtain ⟨hst', hA, hB⟩ := elimStep_abs cfg N k st hst (by omega) hself
    have hfunA : absA (elimStep cfg st k) = stepA cfg k (absA st) := by funext i j; exact hA i j
    have hfunB : absB (elimStep cfg st k) = stepB cfg k (absA st) (absB st) := by funext i; exact hB i
    apply ih (by omega) _ hst' _ hno'
    rw [hfunA, hfunB]
    exact clsSys_step cfg hesc k _ _ hsys

theorem initRow_cls (cfg : Config) (hesc : cfg.esc = true) (N : Nat) (states : List Nat) (i : Nat) (es : List Edge) :
    ∀ (a : Mat), a.Sq N → (∀ i j, OCls (a.get i j)) →
      (initRow cfg states i es a).Sq N ∧ ∀ i' j', OCls ((initRow cfg states i es a).get i' j') := by
  induction es with
  | nil => intro a hsq h; exact ⟨hsq, h⟩
  | cons e rest ih =>
    intro a hsq h
    have hstep : initRow cfg states i (e :: rest) a =
        initRow cfg states i rest (match indexOf? states e.dst with
          | some j => a.set i j (if (a.get i j).isSome then Expr.union cfg (a.get i j) (some (Expr.lit [e.label])) else some (Expr.lit [e.label]))
          | none => a) := by
      rfl
    rw [hstep]
    cases hidx : indexOf? states e.dst with
    | none => exact ih a hsq h
    | some j =>
      simp only []
      apply ih _ (Mat.sq_set hsq i j _)
      intro i' j'
      rw [Mat.get_set hsq]
      split
      · split
        · exact ocls_union cfg hesc _ _ (h i j) trivial
        · trivial
      · exact h i' j'

theorem initLoop_cls (cfg : Config) (hesc : cfg.esc = true) (d : Dfa) (N : Nat) (states : List Nat) :
    ∀ (rest : List Nat) (k : Nat) (st : ElimState), st.a.Sq N → ClsSys (absA st) (absB st) →
      ((rest.zipIdx k).foldl (initStep cfg d states) st).a.Sq N ∧
        ClsSys (absA ((rest.zipIdx k).foldl (initStep cfg d states) st)) (absB ((rest.zipIdx k).foldl (initStep cfg d states) st)) := by
  intro rest
  induction rest with
  | nil => intro k st hsq h; exact ⟨hsq, h⟩
  | cons s rest ih =>
    intro k st hsq h
    simp only [List.zipIdx_cons, List.foldl_cons]
    obtain ⟨r1, r2⟩ := initRow_cls cfg hesc N states k (d.outEdges s) st.a hsq h.1
    apply ih (k + 1) (initStep cfg d states st (s, k)) r1
    refine ⟨r2, ?_⟩
    intro i
    simp only [absB, initStep]
    split
    · rw [Vect.get_set]
      split
      · trivial
      · exact h.2 i
    · exact h.2 i

/-- **under `-e` every class member of the expression `Expression::from` returns is ASCII** (acyclic automaton with
plain labels and a closed depth-first order — what S6 delivers without `-r`) -/
theorem ofDfa_clsAscii (cfg : Config) (hesc : cfg.esc = true) (d : Dfa) (hd : d.PlainLabels) (hdfs : DfsOK d d.dfs)
    (hacyc : ∀ c w, Dfa.Path d c w c → w = []) : (Expr.ofDfa cfg d).ClsAscii := by
  obtain ⟨h1, _, _⟩ := init_system cfg d hd d.dfs hdfs
  have hno := noSelfAlong_of_acyclic cfg d d.dfs hacyc d.nodes d.nodes (Nat.le_refl _) _ h1 (init_edgeSys cfg d d.dfs)
  have h0 : ClsSys (absA { a := Array.replicate d.nodes (Array.replicate d.nodes none), b := Array.replicate d.nodes none })
      (absB { a := Array.replicate d.nodes (Array.replicate d.nodes none), b := Array.replicate d.nodes none }) := by
    constructor
    · intro i j; simp only [absA, Mat.get_replicate]; trivial
    · intro i; simp only [absB, vect_get_replicate]; trivial
  have hinit : ClsSys (absA (elimInit cfg d d.dfs)) (absB (elimInit cfg d d.dfs)) :=
    (initLoop_cls cfg hesc d d.nodes d.dfs d.dfs 0 _ (Mat.sq_replicate d.nodes) h0).2
  have hw := elim_loop_cls cfg hesc d.nodes d.nodes (Nat.le_refl _) _ h1 hinit hno
  rw [ofDfa_eq]
  have := hw.2 0
  simp only [absB] at this
  split
  · rename_i e he; rw [he] at this; exact this
  · trivial

/-- **C11 for the model, whole pattern, all inputs without `-r`** with `-e`, for every other setting, every
segmentation with non-empty pieces and every list of test cases, the text of the first candidate of `RegExp::from`
consists of ASCII characters only -/
theorem first_candidate_ascii (cfg : Config) (hesc : cfg.esc = true) (hrep : cfg.rep = false) (env : Env) (ws : List Str)
    (hseg : ∀ w ∈ ws, ∀ p ∈ env.segOf w, p ≠ []) :
    ∃ m, Dfa.minimize (Dfa.trie (graphemeClusters cfg env ws)) Dfa.pickMin = some m ∧
      Ascii (fmtRegExp cfg (Expr.ofDfa cfg m)) := by
  have hof := clusters_ofStr cfg env ws hrep hseg
  have hcls : ∀ cl ∈ graphemeClusters cfg env ws, ∀ g ∈ cl, g.Simple := by
    intro cl hcl g hg
    obtain ⟨s, _, rfl⟩ := hof cl hcl g hg
    exact ofStr_simple s
  obtain ⟨m, hm, _, hlab, hdfs, _, hacyc⟩ := min_struct _ hcls (fun g => ∃ s, s ≠ [] ∧ g = Grapheme.ofStr s) hof
  have hlab' : m.PlainLabels := by
    intro e he
    obtain ⟨s, hs, hl⟩ := hlab e he
    show e.label.Plainish
    rw [hl]; exact Expr.plainish_ofStr s hs
  exact ⟨m, hm, fmtRegExp_ascii cfg hesc _ (ofDfa_clsAscii cfg hesc m hlab' hdfs hacyc)⟩

end Grexv
