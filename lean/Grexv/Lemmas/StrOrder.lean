import Grexv.Lemmas.Sort

/- The order on test cases: `cmpStr` is a total order; so are the two `≤` tests `sortCases` uses. -/
namespace Grexv

theorem cmpStr_eq_iff (a b : Str) : cmpStr a b = .eq ↔ a = b := by
  induction a generalizing b with
  | nil => cases b <;> simp [cmpStr]
  | cons x xs ih =>
    cases b with
    | nil => simp [cmpStr]
    | cons y ys =>
      simp only [cmpStr, Ordering.then_eq_eq, List.cons.injEq, ih]
      constructor
      · rintro ⟨h1, h2⟩; exact ⟨by simpa [Nat.compare_eq_eq] using h1, h2⟩
      · rintro ⟨h1, h2⟩; exact ⟨by simpa [Nat.compare_eq_eq] using h1, h2⟩

theorem cmpStr_swap (a b : Str) : (cmpStr a b).swap = cmpStr b a := by
  induction a generalizing b with
  | nil => cases b <;> simp [cmpStr]
  | cons x xs ih =>
    cases b with
    | nil => simp [cmpStr]
    | cons y ys =>
      simp only [cmpStr, Ordering.swap_then, ih]
      rw [Nat.compare_swap]

theorem cmpStr_lt_trans (a b c : Str) : cmpStr a b = .lt → cmpStr b c = .lt → cmpStr a c = .lt := by
  induction a generalizing b c with
  | nil => cases b <;> cases c <;> simp [cmpStr]
  | cons x xs ih =>
    cases b with
    | nil => simp [cmpStr]
    | cons y ys =>
      cases c with
      | nil => simp [cmpStr]
      | cons z zs =>
        simp only [cmpStr]
        intro h1 h2
        rcases Nat.lt_trichotomy x y with hxy | hxy | hxy
        · rcases Nat.lt_trichotomy y z with hyz | hyz | hyz
          · have : x < z := by omega
            simp [Nat.compare_eq_lt.mpr this, Ordering.then]
          · subst hyz; simp [Nat.compare_eq_lt.mpr hxy, Ordering.then]
          · simp [Nat.compare_eq_gt.mpr hyz, Ordering.then] at h2
        · subst hxy
          rcases Nat.lt_trichotomy x z with hyz | hyz | hyz
          · simp [Nat.compare_eq_lt.mpr hyz, Ordering.then]
          · subst hyz
            simp only [Nat.compare_eq_eq.mpr rfl, Ordering.then] at h1 h2 ⊢
            exact ih ys zs h1 h2
          · simp [Nat.compare_eq_gt.mpr hyz, Ordering.then] at h2
        · simp [Nat.compare_eq_gt.mpr hxy, Ordering.then] at h1

theorem strLe_total (a b : Str) : strLe a b = true ∨ strLe b a = true := by
  unfold strLe
  have := cmpStr_swap a b
  cases h : cmpStr a b <;> simp [h] at this ⊢ <;> simp [← this]

theorem strLe_antisymm (a b : Str) (h1 : strLe a b = true) (h2 : strLe b a = true) : a = b := by
  unfold strLe at h1 h2
  have := cmpStr_swap a b
  cases h : cmpStr a b
  · simp [h] at this; simp [← this] at h2
  · exact (cmpStr_eq_iff a b).mp h
  · simp [h] at h1

theorem strLe_trans (a b c : Str) (h1 : strLe a b = true) (h2 : strLe b c = true) : strLe a c = true := by
  unfold strLe at *
  cases hab : cmpStr a b
  · cases hbc : cmpStr b c
    · simp [cmpStr_lt_trans a b c hab hbc]
    · have := (cmpStr_eq_iff b c).mp hbc; subst this; simp [hab]
    · simp [hbc] at h2
  · have := (cmpStr_eq_iff a b).mp hab; subst this; exact h2
  · simp [hab] at h1

theorem lenThenStrLe_total (a b : Str) : lenThenStrLe a b = true ∨ lenThenStrLe b a = true := by
  unfold lenThenStrLe
  rcases Nat.lt_trichotomy (utf8LenStr a) (utf8LenStr b) with h | h | h
  · left; simp [h]
  · rcases strLe_total a b with h' | h'
    · left; simp [h, h']
    · right; simp [h, h']
  · right; simp [h]

theorem lenThenStrLe_antisymm (a b : Str) (h1 : lenThenStrLe a b = true) (h2 : lenThenStrLe b a = true) : a = b := by
  unfold lenThenStrLe at h1 h2
  simp only [Bool.or_eq_true, decide_eq_true_eq, Bool.and_eq_true, beq_iff_eq] at h1 h2
  rcases h1 with h1 | ⟨_, h1⟩
  · rcases h2 with h2 | ⟨h2, _⟩ <;> omega
  · rcases h2 with h2 | ⟨_, h2⟩
    · omega
    · exact strLe_antisymm a b h1 h2

theorem lenThenStrLe_trans (a b c : Str) (h1 : lenThenStrLe a b = true) (h2 : lenThenStrLe b c = true) :
    lenThenStrLe a c = true := by
  unfold lenThenStrLe at *
  simp only [Bool.or_eq_true, decide_eq_true_eq, Bool.and_eq_true, beq_iff_eq] at *
  rcases h1 with h1 | ⟨e1, h1⟩
  · rcases h2 with h2 | ⟨e2, _⟩
    · left; omega
    · left; omega
  · rcases h2 with h2 | ⟨e2, h2⟩
    · left; omega
    · right; exact ⟨by omega, strLe_trans a b c h1 h2⟩

end Grexv
