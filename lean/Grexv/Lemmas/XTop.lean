import Grexv.Lemmas.XStruct

/-
Verbose mode end to end at the level of the text: the text `Display for RegExp` writes in verbose mode (flag line,
one lexeme group per line, indentation) is accepted by `Regex::new` under `(?x)` / `(?ix)` and read as exactly the
pattern the non-verbose text is read as.
-/
set_option linter.unusedSimpArgs false
set_option linter.unusedVariables false
namespace Grexv
open Spec

theorem XL.length_le {t u : Str} (h : XL t u) : u.length ≤ t.length := by
  induction h with
  | nil => exact Nat.le_refl _
  | ws c t u _ _ ih => simp; omega
  | raw c t u _ _ _ _ _ _ ih => simp; omega
  | esc pre t u _ _ ih => simp; omega
  | cls b t u _ _ _ _ ih => simp; omega
  | lpn t u _ ih => simp; omega
  | lpc t u _ _ ih => simp; omega
  | cnt q t u _ _ ih => simp; omega

/-- the first line is not indented -/
theorem indent_first (cfg : Config) (l rest : Str) (hl : 10 ∉ l) (hne : l ≠ []) (hcr : 13 ∉ l ++ 10 :: rest) :
    ∃ W, indentRegexp cfg (l ++ 10 :: rest) = l ++ W ∧ Ed (10 :: rest) W := by
  have hcr_l : 13 ∉ l := by intro e; exact hcr (by simp [e])
  have hcr_r : 13 ∉ rest := by intro e; exact hcr (by simp [e])
  have hline := splitLines_go_line [] l rest hl
  simp only [List.reverse_nil, List.nil_append] at hline
  have hlast : l.getLast? ≠ some 13 := by
    intro e
    exact hcr_l (List.mem_of_getLast? e)
  simp only [hlast, ite_false] at hline
  unfold indentRegexp splitLines
  rw [hline, indentLines]
  have he : l.isEmpty = false := by cases l <;> simp_all
  simp only [he, Bool.false_eq_true, ite_false]
  have h00 : ((0 : Nat) == 1 && cfg.noStart) = false := by simp
  simp only [h00, Bool.false_eq_true, ite_false, Nat.lt_irrefl, decide_false, Bool.false_and, Nat.mul_zero,
    List.replicate_zero, List.nil_append]
  generalize hos : indentLines cfg (splitLines.go rest []) (0 + 1) _ = os
  have hind : Ind (splitLines.go rest []) os := by rw [← hos]; exact indentLines_ind cfg _ _ _
  obtain ⟨k1, V1, hj, hed⟩ := lines_edit (rest.length + 1) rest (by omega) hcr_r os hind
  cases os with
  | nil =>
    have hV : blanks k1 ++ V1 = [] := by simpa [joinWith] using hj.symm
    have hV1 : V1 = [] := (List.append_eq_nil_iff.mp hV).2
    subst hV1
    refine ⟨[], by simp [joinWith], ?_⟩
    have := Ed.drop 0 rest [] hed
    simpa [blanks] using this
  | cons o os' =>
    refine ⟨10 :: (blanks k1 ++ V1), ?_, Ed.nl k1 rest V1 hed⟩
    simp only [joinWith]
    rw [hj]
    simp

/-- verbose settings: capturing groups, `-e`, `-i` and the anchors free; no colours, no surrogate pairs -/
def cfgVerb (cap esc i ns ne : Bool) : Config :=
  { cap := cap, esc := esc, ci := i, verb := true, noStart := ns, noEnd := ne }

def flagLine (i : Bool) : Str := if i then [40, 63, 105, 120, 41] else [40, 63, 120, 41]
def caretV (ns : Bool) : Str := if ns then [] else [94, 10]
def dollarV (ne : Bool) : Str := if ne then [] else [10, 36]

theorem bodyText_verb (cap esc i ns ne : Bool) (e : Expr) :
    bodyText (cfgVerb cap esc i ns ne) e = bodyText (cfgV cap esc) e :=
  bodyText_congr (c1 := cfgVerb cap esc i ns ne) (c2 := cfgV cap esc) ⟨rfl, rfl, rfl, rfl, rfl⟩ e

/-- the verbose output is the indented form of: flag line, caret line, body, dollar line -/
theorem fmtRegExp_verb (cap esc i ns ne : Bool) (e : Expr) :
    fmtRegExp (cfgVerb cap esc i ns ne) e =
      indentRegexp (cfgVerb cap esc i ns ne)
        (flagLine i ++ 10 :: RV true (caretV ns ++ (bodyText (cfgV cap esc) e ++ dollarV ne))) := by
  have hb := bodyText_verb cap esc i ns ne e
  have hfl : RV true (flagLine i ++ [10]) = flagLine i ++ [10] := by cases i <;> decide
  have e1 : flagLine i ++ 10 :: RV true (caretV ns ++ (bodyText (cfgV cap esc) e ++ dollarV ne)) =
      RV true ((flagLine i ++ [10]) ++ (caretV ns ++ (bodyText (cfgV cap esc) e ++ dollarV ne))) := by
    rw [RV_append true (flagLine i ++ [10]) _, hfl]; simp
  rw [e1]
  unfold fmtRegExp
  simp only [cfgVerb, Bool.and_true, ite_true] at hb ⊢
  rw [hb]
  cases i <;> cases ns <;> cases ne <;>
    simp only [Bool.false_eq_true, ite_false, ite_true, RV, R, flagLine, caretV, dollarV, Comp.flagIX, Comp.flagX,
      Comp.caret, Comp.dollar, paint, Gen.strFlagIX, Gen.strFlagX, Gen.strCaret, Gen.strDollar, List.append_assoc,
      List.nil_append, List.append_nil, List.cons_append, List.singleton_append] <;> rfl

theorem bodyText_verb_eq (cap esc : Bool) (e : Expr) :
    bodyText (cfgV cap esc) e =
      if e.isAlt then [10] ++ lp cap ++ [10] ++ fmtExpr (cfgV cap esc) e ++ [10] ++ [41] ++ (if false then [10] else [])
      else fmtExpr (cfgV cap esc) e := by
  cases e with
  | alt os =>
    simp only [bodyText, Expr.isAlt, ite_true]
    cases cap <;> simp [Comp.paren, Comp.leftParen, Comp.rightParen, cfgV, paint, lp, Gen.strCapturedLeftParen,
      Gen.strUncapturedLeftParen, Gen.strRightParen]
  | _ => simp [bodyText, Expr.isAlt]

/-- the body in verbose layout is the plain body with line feeds between lexemes -/
theorem body_rel (cap esc : Bool) (e : Expr) (hwf : e.WF) :
    Rel (RV true (bodyText (cfgV cap esc) e)) (RV true (bodyText (cfgPlain cap esc) e)) := by
  rw [bodyText_verb_eq, bodyText_eq]
  cases ha : e.isAlt with
  | false =>
    simp only [Bool.false_eq_true, ite_false]
    exact vx_expr cap esc e hwf
  | true =>
    simp only [ite_true, RV_append, RV_lp, RV_lf, RV_tail, show RV true [41] = [41] from by decide]
    apply paren_rel cap false _ _ (vx_expr cap esc e hwf)
    have hh := (Expr.pp true cap esc e hwf).head [41] (by simp)
    cases hx : RV true (fmtExpr (cfgPlain cap esc) e) ++ [41] with
    | nil => simp at hx
    | cons c r =>
      rw [hx] at hh
      exact ⟨c, r, rfl, by simpa using hh⟩

theorem text_rel (cap esc ns ne : Bool) (e : Expr) (hwf : e.WF) :
    Rel (RV true (caretV ns ++ (bodyText (cfgV cap esc) e ++ dollarV ne)))
      (preT ns ++ (RV true (bodyText (cfgPlain cap esc) e) ++ postT ne)) := by
  have hc : Rel (RV true (caretV ns)) (preT ns) := by
    cases ns
    · exact @Rel.append [94] [94] [10] [] (Rel.raw 94 (by decide)) Rel.lf
    · exact Rel.nil
  have hd : Rel (RV true (dollarV ne)) (postT ne) := by
    cases ne
    · exact @Rel.append [10] [] [36] [36] Rel.lf (Rel.raw 36 (by decide))
    · exact Rel.nil
  rw [RV_append, RV_append]
  exact Rel.append hc (Rel.append (body_rel cap esc e hwf) hd)

/-- **the verbose text is parsed, under its own `(?x)` flag, to the pattern of the non-verbose text** -/
theorem parse_verbose (cap esc i ns ne : Bool) (e : Expr) (hwf : e.WF) :
    Spec.parse (fmtRegExp (cfgVerb cap esc i ns ne) e) =
      some (⟨i, true⟩, catList (preA ns ++ (topItems cap esc e ++ postA ne))) := by
  rw [fmtRegExp_verb]
  have hrel := text_rel cap esc ns ne e hwf
  generalize hT : RV true (caretV ns ++ (bodyText (cfgV cap esc) e ++ dollarV ne)) = T at hrel
  have hl10 : 10 ∉ flagLine i := by cases i <;> decide
  have hlne : flagLine i ≠ [] := by cases i <;> decide
  have hcr : 13 ∉ flagLine i ++ 10 :: T := by
    have h1 : 13 ∉ flagLine i := by cases i <;> decide
    simp only [List.mem_append, List.mem_cons, not_or]
    exact ⟨h1, by decide, hrel.nocr⟩
  obtain ⟨W, hW, hed⟩ := indent_first (cfgVerb cap esc i ns ne) (flagLine i) T hl10 hlne hcr
  rw [hW]
  have hxl : XL W (preT ns ++ (RV true (bodyText (cfgPlain cap esc) e) ++ postT ne)) :=
    (XL.ws 10 _ _ (by decide) hrel.toXL).edit hed
  have hflags : parseFlags (flagLine i ++ W) = (⟨i, true⟩, W) := by
    cases i <;> simp [flagLine, parseFlags]
  simp only [Spec.parse, hflags]
  rw [parseLoop_x _ _ _ hxl]
  have hlen := hxl.length_le
  rw [loop_printedA true cap esc ns ne e hwf (2 * W.length + 4) (by
    simp only [List.length_append] at hlen
    omega)]
  rfl

/-- **print → parse → match in verbose mode** for every well-formed expression: the verbose text is accepted with the
flags `x` (and `i`) set and the compiled pattern matches a string in full iff the string is in the string-level
language of the expression — the same pattern as without verbose mode -/
theorem printed_accepts_verbose (i cap esc ns ne : Bool) (e : Expr) (hwf : e.WF) (s : Str) (hs : ∀ c ∈ s, Scalar c) :
    ∃ P, Spec.parse (fmtRegExp (cfgVerb cap esc i ns ne) e) = some (⟨i, true⟩, P) ∧
      (fullMatch i P s = true ↔ e.strLang i s) := by
  refine ⟨_, parse_verbose cap esc i ns ne e hwf, ?_⟩
  obtain ⟨P, hP, hm⟩ := printed_acceptsA i cap esc ns ne e hwf s hs
  have hPA := parse_ci_prefixG _ _ (flags_printedA cap esc ns ne e hwf) (parse_printedA cap esc ns ne e hwf) i
  rw [hPA] at hP
  simp only [Option.some.injEq, Prod.mk.injEq, true_and] at hP
  rw [hP]
  exact hm

end Grexv
