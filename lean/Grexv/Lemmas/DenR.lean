import Grexv.Lemmas.PrintParseTopR
import Grexv.Lemmas.RepElim

/-
Soundness of the printed `-r` pattern at the level of denotations: whatever label sequence of the expression's symbol-level language
spells a string (`Dfa.Spells`: every label `{m,n}` contributes its characters `k` times, `m ≤ k ≤ n`), the items the parser reads from
the printed text (`bothR`) denote that string.
-/
set_option linter.unusedSimpArgs false
set_option linter.unusedVariables false
namespace Grexv
open Spec

/-! ### denotation of item lists, counted repetition included -/

def denLC (i : Bool) : List Pat → Str → Prop
  | [], s => s = []
  | p :: ps, s => ∃ u v, s = u ++ v ∧ p.denC i u ∧ denLC i ps v

theorem denC_catList (i : Bool) (ps : List Pat) (s : Str) : (catList ps).denC i s ↔ denLC i ps s := by
  induction ps generalizing s with
  | nil => simp [catList, Pat.denC, denLC]
  | cons p ps ih =>
    cases ps with
    | nil =>
      simp only [catList, denLC]
      constructor
      · intro h; exact ⟨s, [], by simp, h, rfl⟩
      · rintro ⟨u, v, rfl, h, rfl⟩; simpa using h
    | cons q qs =>
      simp only [catList, Pat.denC, denLC] at ih ⊢
      constructor
      · rintro ⟨u, v, rfl, h1, h2⟩; exact ⟨u, v, rfl, h1, (ih v).mp h2⟩
      · rintro ⟨u, v, rfl, h1, h2⟩; exact ⟨u, v, rfl, h1, (ih v).mpr h2⟩

theorem denLC_append (i : Bool) (a b : List Pat) (s : Str) : denLC i (a ++ b) s ↔ ∃ u v, s = u ++ v ∧ denLC i a u ∧ denLC i b v := by
  induction a generalizing s with
  | nil =>
    simp only [List.nil_append, denLC]
    constructor
    · intro h; exact ⟨[], s, rfl, rfl, h⟩
    · rintro ⟨u, v, rfl, rfl, h⟩; simpa using h
  | cons p ps ih =>
    simp only [List.cons_append, denLC]
    constructor
    · rintro ⟨u, v, rfl, hp, h⟩
      obtain ⟨u2, v2, rfl, h1, h2⟩ := (ih v).mp h
      exact ⟨u ++ u2, v2, by simp, ⟨u, u2, rfl, hp, h1⟩, h2⟩
    · rintro ⟨w, v2, rfl, ⟨u, u2, rfl, hp, h1⟩, h2⟩
      exact ⟨u, u2 ++ v2, by simp, hp, (ih _).mpr ⟨u2, v2, rfl, h1, h2⟩⟩

theorem denC_altList (i : Bool) (ps : List Pat) (hne : ps ≠ []) (s : Str) : (altList ps).denC i s ↔ ∃ p ∈ ps, p.denC i s := by
  induction ps with
  | nil => exact absurd rfl hne
  | cons p ps ih =>
    cases ps with
    | nil => simp [altList]
    | cons q qs =>
      simp only [altList, Pat.denC]
      rw [ih (by simp)]
      simp

/-! ### what a grapheme must satisfy beyond its shape -/

mutual
/-- a non-empty count range; nested repetitions expand to the unit and carry one count each -/
def GSem : Grapheme → Prop
  | .mk chars reps mn mx =>
    mn ≤ mx ∧ (reps = [] ∨ (expandAll reps = chars ∧ GSemL reps ∧ ∀ r ∈ reps, r.min = r.max))
def GSemL : List Grapheme → Prop
  | [] => True
  | g :: gs => GSem g ∧ GSemL gs
end

theorem atoms_self (as : List Atom) (h : ∀ a ∈ as, ∃ c, a = Atom.chr c) : atomsDen false as (untok as) := by
  induction as with
  | nil => rfl
  | cons a r ih =>
    obtain ⟨c, rfl⟩ := h _ List.mem_cons_self
    exact ⟨c, untok r, rfl, by simp [atomDen, chrMatches], ih (fun x hx => h x (List.mem_cons_of_mem _ hx))⟩

theorem untok_flatten (ass : List (List Atom)) : untok ass.flatten = (ass.map untok).flatten := by
  induction ass with
  | nil => rfl
  | cons as r ih =>
    simp only [List.flatten_cons, List.map_cons]
    rw [← ih]
    clear ih
    induction as with
    | nil => rfl
    | cons a t iht => cases a <;> simp [untok, iht]

theorem powL_replicate (L : Str → Prop) (u : Str) (h : L u) : ∀ k, powL L k (List.replicate k u).flatten
  | 0 => rfl
  | k + 1 => ⟨u, (List.replicate k u).flatten, by simp [List.replicate_succ], h, powL_replicate L u h k⟩

theorem expandAll_flatten_cons (g : Grapheme) (gs : List Grapheme) :
    (expandAll (g :: gs)).flatten = (List.replicate g.min g.chars.flatten).flatten ++ (expandAll gs).flatten := by
  simp only [expandAll, List.flatMap_cons, List.flatten_append, Grapheme.expand]
  rw [Dfa.replicate_flatten_flatten]

theorem denLC_eq_denL (i : Bool) : ∀ (ps : List Pat), (∀ p ∈ ps, p.Frag) → ∀ s, denLC i ps s ↔ denL i ps s
  | [], _, s => by simp [denLC, denL]
  | p :: ps, h, s => by
    simp only [denLC, denL]
    constructor
    · rintro ⟨u, v, rfl, h1, h2⟩
      exact ⟨u, v, rfl, (Pat.denC_eq_den i p (h p List.mem_cons_self) u).mp h1,
        (denLC_eq_denL i ps (fun x hx => h x (List.mem_cons_of_mem _ hx)) v).mp h2⟩
    · rintro ⟨u, v, rfl, h1, h2⟩
      exact ⟨u, v, rfl, (Pat.denC_eq_den i p (h p List.mem_cons_self) u).mpr h1,
        (denLC_eq_denL i ps (fun x hx => h x (List.mem_cons_of_mem _ hx)) v).mpr h2⟩

theorem denLC_single (i : Bool) (p : Pat) (s : Str) : denLC i [p] s ↔ p.denC i s := by
  simp only [denLC]
  constructor
  · rintro ⟨u, v, rfl, h, rfl⟩; simpa using h
  · intro h; exact ⟨s, [], by simp, h, rfl⟩

end Grexv
