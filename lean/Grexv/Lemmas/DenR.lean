import Grexv.Lemmas.PrintParseTopR
import Grexv.Lemmas.RepElim

/-
Soundness of the printed `-r` pattern at the level of denotations: whatever label sequence of the expression's symbol-level language
spells a string (`Dfa.Spells`: every label `{m,n}` contributes its characters `k` times, `m ≤ k ≤ n`), the items the parser reads from
the printed text (`bothR`) denote that string.
-/
set_option linter.unusedSimpArgs false
set_option linter.unusedVariables false
namespace Grexv
open Spec

/-! ### denotation of item lists, counted repetition included -/

def denLC (i : Bool) : List Pat → Str → Prop
  | [], s => s = []
  | p :: ps, s => ∃ u v, s = u ++ v ∧ p.denC i u ∧ denLC i ps v

theorem denC_catList (i : Bool) (ps : List Pat) (s : Str) : (catList ps).denC i s ↔ denLC i ps s := by
  induction ps generalizing s with
  | nil => simp [catList, Pat.denC, denLC]
  | cons p ps ih =>
    cases ps with
    | nil =>
      simp only [catList, denLC]
      constructor
      · intro h; exact ⟨s, [], by simp, h, rfl⟩
      · rintro ⟨u, v, rfl, h, rfl⟩; simpa using h
    | cons q qs =>
      simp only [catList, Pat.denC, denLC] at ih ⊢
      constructor
      · rintro ⟨u, v, rfl, h1, h2⟩; exact ⟨u, v, rfl, h1, (ih v).mp h2⟩
      · rintro ⟨u, v, rfl, h1, h2⟩; exact ⟨u, v, rfl, h1, (ih v).mpr h2⟩

theorem denLC_append (i : Bool) (a b : List Pat) (s : Str) : denLC i (a ++ b) s ↔ ∃ u v, s = u ++ v ∧ denLC i a u ∧ denLC i b v := by
  induction a generalizing s with
  | nil =>
    simp only [List.nil_append, denLC]
    constructor
    · intro h; exact ⟨[], s, rfl, rfl, h⟩
    · rintro ⟨u, v, rfl, rfl, h⟩; simpa using h
  | cons p ps ih =>
    simp only [List.cons_append, denLC]
    constructor
    · rintro ⟨u, v, rfl, hp, h⟩
      obtain ⟨u2, v2, rfl, h1, h2⟩ := (ih v).mp h
      exact ⟨u ++ u2, v2, by simp, ⟨u, u2, rfl, hp, h1⟩, h2⟩
    · rintro ⟨w, v2, rfl, ⟨u, u2, rfl, hp, h1⟩, h2⟩
      exact ⟨u, u2 ++ v2, by simp, hp, (ih _).mpr ⟨u2, v2, rfl, h1, h2⟩⟩

theorem denC_altList (i : Bool) (ps : List Pat) (hne : ps ≠ []) (s : Str) : (altList ps).denC i s ↔ ∃ p ∈ ps, p.denC i s := by
  induction ps with
  | nil => exact absurd rfl hne
  | cons p ps ih =>
    cases ps with
    | nil => simp [altList]
    | cons q qs =>
      simp only [altList, Pat.denC]
      rw [ih (by simp)]
      simp

/-! ### what a grapheme must satisfy beyond its shape -/

mutual
/-- no shorthand-class tokens, a non-empty count range, nested repetitions that expand to the unit -/
def GSem : Grapheme → Prop
  | .mk chars reps mn mx =>
    (∀ s ∈ chars, ∀ a ∈ tokens s, ∃ c, a = Atom.chr c) ∧ mn ≤ mx ∧
    (reps = [] ∨ (expandAll reps = chars ∧ GSemL reps ∧ ∀ r ∈ reps, r.min = r.max))
def GSemL : List Grapheme → Prop
  | [] => True
  | g :: gs => GSem g ∧ GSemL gs
end

theorem atoms_self (as : List Atom) (h : ∀ a ∈ as, ∃ c, a = Atom.chr c) : atomsDen false as (untok as) := by
  induction as with
  | nil => rfl
  | cons a r ih =>
    obtain ⟨c, rfl⟩ := h _ List.mem_cons_self
    exact ⟨c, untok r, rfl, by simp [atomDen, chrMatches], ih (fun x hx => h x (List.mem_cons_of_mem _ hx))⟩

theorem untok_flatten (ass : List (List Atom)) : untok ass.flatten = (ass.map untok).flatten := by
  induction ass with
  | nil => rfl
  | cons as r ih =>
    simp only [List.flatten_cons, List.map_cons]
    rw [← ih]
    clear ih
    induction as with
    | nil => rfl
    | cons a t iht => cases a <;> simp [untok, iht]

theorem powL_replicate (L : Str → Prop) (u : Str) (h : L u) : ∀ k, powL L k (List.replicate k u).flatten
  | 0 => rfl
  | k + 1 => ⟨u, (List.replicate k u).flatten, by simp [List.replicate_succ], h, powL_replicate L u h k⟩

theorem expandAll_flatten_cons (g : Grapheme) (gs : List Grapheme) :
    (expandAll (g :: gs)).flatten = (List.replicate g.min g.chars.flatten).flatten ++ (expandAll gs).flatten := by
  simp only [expandAll, List.flatMap_cons, List.flatten_append, Grapheme.expand]
  rw [Dfa.replicate_flatten_flatten]

theorem denLC_eq_denL (i : Bool) : ∀ (ps : List Pat), (∀ p ∈ ps, p.Frag) → ∀ s, denLC i ps s ↔ denL i ps s
  | [], _, s => by simp [denLC, denL]
  | p :: ps, h, s => by
    simp only [denLC, denL]
    constructor
    · rintro ⟨u, v, rfl, h1, h2⟩
      exact ⟨u, v, rfl, (Pat.denC_eq_den i p (h p List.mem_cons_self) u).mp h1,
        (denLC_eq_denL i ps (fun x hx => h x (List.mem_cons_of_mem _ hx)) v).mp h2⟩
    · rintro ⟨u, v, rfl, h1, h2⟩
      exact ⟨u, v, rfl, (Pat.denC_eq_den i p (h p List.mem_cons_self) u).mpr h1,
        (denLC_eq_denL i ps (fun x hx => h x (List.mem_cons_of_mem _ hx)) v).mpr h2⟩

theorem denLC_atoms (as : List Atom) (h : ∀ a ∈ as, ∃ c, a = Atom.chr c) : denLC false (as.map atomPat) (untok as) := by
  rw [denLC_eq_denL false _ (by intro p hp; obtain ⟨a, _, rfl⟩ := List.mem_map.mp hp; exact frag_atomPat a), denL_atoms]
  exact atoms_self as h

theorem denLC_single (i : Bool) (p : Pat) (s : Str) : denLC i [p] s ↔ p.denC i s := by
  simp only [denLC]
  constructor
  · rintro ⟨u, v, rfl, h, rfl⟩; simpa using h
  · intro h; exact ⟨s, [], by simp, h, rfl⟩

/-- the items of a counted grapheme without nested repetitions -/
theorem gItems_flat (cap : Bool) (ass : List (List Atom)) (hok : AssOK ass) (mn mx : Nat) (hc : Counted mn mx) :
    ∃ body, gItems cap (Grapheme.mk (ass.map untok) [] mn mx) = [Pat.rep body mn (some mx) true] ∧
      ∀ s, atomsDen false ass.flatten s → body.denC false s := by
  have hcne : ¬ (mn = 1 ∧ mx = 1) := by rcases hc with h | ⟨h, h'⟩ <;> omega
  by_cases hs : SingleUnit ass
  · obtain ⟨a, rfl, hne92⟩ := hs
    have hsb : singleB ([[a]].map untok) = true := (singleB_iff [[a]] hok).mpr ⟨a, rfl, hne92⟩
    have hta : tokens (untok [a]) = [a] := tokens_untok [a] (hok.2 [a] List.mem_cons_self).2
    refine ⟨atomPat a, ?_, ?_⟩
    · simp only [gItems, hcne, ite_false, List.isEmpty_nil, ite_true, hsb]
      simp [hta]
    · intro s hs
      rw [Pat.denC_eq_den false _ (frag_atomPat a), den_atomPat]
      simp only [List.flatten_cons, List.flatten_nil, List.append_nil, atomsDen] at hs
      obtain ⟨x, r, rfl, hx, rfl⟩ := hs
      exact ⟨x, rfl, hx⟩
  · have hsb : singleB (ass.map untok) = false := by
      cases hb' : singleB (ass.map untok) with
      | false => rfl
      | true => exact absurd ((singleB_iff ass hok).mp hb') hs
    refine ⟨Pat.grp cap (catList (unitItems ass)), ?_, ?_⟩
    · simp only [gItems, hcne, ite_false, List.isEmpty_nil, ite_true, hsb, Bool.false_eq_true, tokens_flat ass hok.2, unitItems_eq]
    · intro s hs
      exact (unit_den cap ass false s).mpr hs

mutual
/-- **one grapheme** its items denote its characters repeated `k` times, for every admissible `k` -/
theorem gSound (cap : Bool) : (g : Grapheme) → GOK g → GSem g → ∀ k, g.min ≤ k → k ≤ g.max →
    denLC false (gItems cap g) (List.replicate k g.chars.flatten).flatten
  | .mk chars reps mn mx, hok, hsem, k, hk1, hk2 => by
    simp only [Grapheme.min, Grapheme.max, Grapheme.chars] at hk1 hk2 ⊢
    simp only [GSem] at hsem
    obtain ⟨hchr, hle, hnest⟩ := hsem
    rcases GOK_cases chars reps mn mx hok with ⟨as, hne, hasok, rfl, rfl, rfl, rfl⟩ | ⟨ass, hass, rfl, rfl, hc, hb⟩ |
      ⟨ass, hass, rfl, h2, hr, hl, hc, hb⟩
    · -- plain
      have hk : k = 1 := by omega
      subst hk
      have hi : gItems cap (Grapheme.mk [untok as] [] 1 1) = as.map atomPat := by simp [gItems, tokens_untok as hasok]
      rw [hi]
      simp only [List.flatten_cons, List.flatten_nil, List.append_nil, List.replicate_one]
      apply denLC_atoms
      intro a ha
      exact hchr (untok as) (by simp) a (by rw [tokens_untok as hasok]; exact ha)
    · -- counted, flat
      obtain ⟨body, hi, hbody⟩ := gItems_flat cap ass hass mn mx hc
      rw [hi, denLC_single]
      simp only [Pat.denC, rangeL]
      refine ⟨k, hk1, by omega, ?_⟩
      apply powL_replicate
      apply hbody
      rw [← untok_flatten]
      apply atoms_self
      intro a ha
      obtain ⟨as, has, haas⟩ := List.mem_flatten.mp ha
      exact hchr (untok as) (List.mem_map_of_mem has) a (by rw [tokens_untok as (hass.2 as has).2]; exact haas)
    · -- counted, nested
      have hcne : ¬ (mn = 1 ∧ mx = 1) := by rcases hc with h | ⟨h, h'⟩ <;> omega
      have hre : reps.isEmpty = false := by
        cases reps with
        | nil => exact absurd rfl hr
        | cons _ _ => rfl
      have hi : gItems cap (Grapheme.mk (ass.map untok) reps mn mx) =
          [Pat.rep (Pat.grp cap (catList (gItemsL cap reps))) mn (some mx) true] := by
        simp only [gItems, hcne, ite_false, hre, Bool.false_eq_true]
      rw [hi, denLC_single]
      simp only [Pat.denC, rangeL]
      refine ⟨k, hk1, by omega, ?_⟩
      apply powL_replicate
      rcases hnest with h0 | ⟨hexp, hsl, _⟩
      · exact absurd h0 hr
      · rw [denC_catList, ← hexp]
        exact gSoundL cap reps hl hsl
theorem gSoundL (cap : Bool) : (gs : List Grapheme) → GOKL gs → GSemL gs →
    denLC false (gItemsL cap gs) (expandAll gs).flatten
  | [], _, _ => by simp [gItemsL, expandAll, denLC]
  | g :: gs, hok, hsem => by
    simp only [GOKL, GSemL] at hok hsem
    rw [expandAll_flatten_cons]
    simp only [gItemsL]
    rw [denLC_append]
    have hmin : g.min ≤ g.max := by
      obtain ⟨c, r, a, b⟩ := g
      simp only [GSem] at hsem
      exact hsem.1.2.1
    exact ⟨_, _, rfl, gSound cap g hok.1 hsem.1 g.min (Nat.le_refl _) hmin, gSoundL cap gs hok.2 hsem.2⟩
end

/-- **one literal** whatever string the cluster spells, its items denote it -/
theorem litSound (cap : Bool) : ∀ (c : Cluster), GOKL c → GSemL c → ∀ s, Dfa.Spells c s → denLC false (gItemsL cap c) s
  | [], _, _, s, h => by simpa [Dfa.Spells, gItemsL, denLC] using h
  | g :: gs, hok, hsem, s, h => by
    simp only [GOKL, GSemL] at hok hsem
    obtain ⟨k, v, hk1, hk2, rfl, hv⟩ := h
    simp only [gItemsL]
    rw [denLC_append]
    exact ⟨_, v, rfl, gSound cap g hok.1 hsem.1 k hk1 hk2, litSound cap gs hok.2 hsem.2 v hv⟩

end Grexv
