import Grexv.Lemmas.HopcroftPart

/-
S6: the fuel `2 * nodes + 4` given to the model of the `while !w.is_empty()` loop is never used up.
Measure: (Σ over blocks of |b| - 1) + |w|.  A proper split lowers the first term by one and adds at most
one block to the work list; each round of the loop pops one block.
-/
set_option linter.unusedSimpArgs false
set_option linter.unusedVariables false
namespace Grexv
namespace Dfa

def slack (p : List Block) : Nat := (p.map fun b => b.length - 1).sum

theorem len_filter_split (f : Nat → Bool) (l : List Nat) :
    (l.filter f).length + (l.filter fun s => !f s).length = l.length := by
  induction l with
  | nil => rfl
  | cons a as ih =>
    cases hf : f a
    · rw [List.filter_cons_of_neg (by simp [hf]), List.filter_cons_of_pos (by simp [hf])]
      simp only [List.length_cons]; omega
    · rw [List.filter_cons_of_pos (by simp [hf]), List.filter_cons_of_neg (by simp [hf])]
      simp only [List.length_cons]; omega

theorem len_split (x y : Block) : (binter x y).length + (bdiff y x).length = y.length :=
  len_filter_split (fun s => x.contains s) y

theorem length_pos_of_not_isEmpty (l : Block) (h : ¬ l.isEmpty = true) : 1 ≤ l.length := by
  cases l with
  | nil => simp at h
  | cons a as => simp

theorem splitAll_measure (x : Block) (p : List Block) :
    slack (splitAll x p).1 + (splitAll x p).2.length = slack p := by
  induction p with
  | nil => simp [splitAll, slack]
  | cons y ys ih =>
    simp only [splitAll]
    by_cases hc : ((binter x y).isEmpty || (bdiff y x).isEmpty) = true
    · simp only [hc, ite_true]
      simp only [slack, List.map_cons, List.sum_cons] at ih ⊢
      omega
    · simp only [hc, Bool.false_eq_true, ite_false]
      have hc' : ¬ (binter x y).isEmpty = true ∧ ¬ (bdiff y x).isEmpty = true := by
        simpa [not_or] using hc
      have h1 := length_pos_of_not_isEmpty _ hc'.1
      have h2 := length_pos_of_not_isEmpty _ hc'.2
      have h3 := len_split x y
      simp only [slack, List.map_cons, List.sum_cons, List.length_cons] at ih ⊢
      omega

theorem length_removeFirst (y : Block) (w : List Block) (h : y ∈ w) : (removeFirst y w).length + 1 = w.length := by
  induction w with
  | nil => simp at h
  | cons z zs ih =>
    simp only [removeFirst]
    split
    · simp
    · rename_i hne
      simp only [List.mem_cons] at h
      rcases h with rfl | h
      · exact absurd rfl hne
      · simp only [List.length_cons]; have := ih h; omega

theorem updateW_len (rs : List (Block × Block × Block)) : ∀ (w : List Block), (updateW w rs).length ≤ w.length + 2 * rs.length := by
  induction rs with
  | nil => intro w; simp [updateW]
  | cons r rest ih =>
    intro w
    obtain ⟨y, i, dd⟩ := r
    simp only [updateW]
    split
    · rename_i hc
      have hmem : y ∈ w := by simpa [List.contains_iff_mem] using hc
      have := length_removeFirst y w hmem
      have := ih (removeFirst y w ++ [i, dd])
      simp only [List.length_append, List.length_cons, List.length_nil] at this ⊢
      omega
    · have := ih (w ++ [i, dd])
      simp only [List.length_append, List.length_cons, List.length_nil] at this ⊢
      omega

theorem refineByAlphabet_measure (d : Dfa) (a : Block) (ls : List Grapheme) :
    ∀ (p w : List Block),
      2 * slack (refineByAlphabet d a ls (p, w)).1 + (refineByAlphabet d a ls (p, w)).2.length ≤ 2 * slack p + w.length := by
  induction ls with
  | nil => intro p w; simp [refineByAlphabet]
  | cons l rest ih =>
    intro p w
    simp only [refineByAlphabet]
    have h1 := ih (splitAll (parentStates d a l) p).1 (updateW w (splitAll (parentStates d a l) p).2)
    have h2 := splitAll_measure (parentStates d a l) p
    have h3 := updateW_len (splitAll (parentStates d a l) p).2 w
    omega

/-- the loop ends before the fuel does -/
theorem refineLoop_some (d : Dfa) :
    ∀ (fuel : Nat) (p w : List Block), 2 * slack p + w.length ≤ fuel → ∃ p', refineLoop d fuel p w = some p' := by
  intro fuel
  induction fuel with
  | zero =>
    intro p w h
    cases w with
    | nil => exact ⟨p, by simp [refineLoop]⟩
    | cons a w => simp at h
  | succ fuel ih =>
    intro p w h
    cases w with
    | nil => exact ⟨p, by simp [refineLoop]⟩
    | cons a w =>
      simp only [refineLoop]
      apply ih
      have := refineByAlphabet_measure d a d.alphabet p w
      simp only [List.length_cons] at h
      omega

theorem slack_initial (d : Dfa) : 2 * slack (initialPartition d) + (initialPartition d).length ≤ minFuel d := by
  simp only [slack, initialPartition, List.map_cons, List.map_nil, List.sum_cons, List.sum_nil, List.length_cons,
    List.length_nil, minFuel]
  have h1 := List.length_filter_le (fun s => !d.isFinal s) (List.range d.nodes)
  have h2 := List.length_filter_le (fun s => d.isFinal s) (List.range d.nodes)
  have h3 := len_filter_split (fun s => d.isFinal s) (List.range d.nodes)
  simp only [List.length_range] at h1 h2 h3
  omega

/-- **termination** `minimizePartition` never runs out of fuel, for any automaton -/
theorem minimizePartition_some (d : Dfa) : ∃ p, minimizePartition d = some p := by
  obtain ⟨p', hp'⟩ := refineLoop_some d (minFuel d) (initialPartition d) (initialPartition d) (slack_initial d)
  exact ⟨p'.filter fun b => !b.isEmpty, by simp [minimizePartition, hp']⟩

end Dfa
end Grexv
