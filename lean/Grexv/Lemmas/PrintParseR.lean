import Grexv.Lemmas.LitR

/-
Print → parse for expressions whose literals contain counted graphemes (`-r`), plain settings (not verbose, no colours): a copy of the
induction of `PrintParse.lean` with the literal case replaced by `lex_literalR`.  Items, token counts and "ends with a quantifier" are
recomputed for these literals (`bothR`, `toksR`, `endsQR`); for literals of plain graphemes they coincide with `both`, `toks`, `endsQ`.
-/
set_option linter.unusedSimpArgs false
set_option linter.unusedVariables false
namespace Grexv
open Spec

mutual
/-- (the items the text of `e` contributes to the enclosing concatenation, the body of a group around `e`) -/
def Expr.bothR (cap esc : Bool) : Expr → List Pat × Pat
  | .lit c => let its := gItemsL cap c; (its, catList its)
  | .cls cs => let its := [Pat.set (classItems cs) false]; (its, catList its)
  | .cat a b =>
    let ra := Expr.bothR cap esc a
    let rb := Expr.bothR cap esc b
    let its := subOf cap esc 2 a ra.1 ra.2 ++ subOf cap esc 2 b rb.1 rb.2
    (its, catList its)
  | .rep e _ =>
    let r := Expr.bothR cap esc e
    let its := optOf (subOf cap esc 3 e r.1 r.2)
    (its, catList its)
  | .alt os => ([], altList (Expr.bothLR cap esc os))
def Expr.bothLR (cap esc : Bool) : List Expr → List Pat
  | [] => []
  | o :: os => catList (Expr.bothR cap esc o).1 :: Expr.bothLR cap esc os
end

mutual
/-- shapes the elimination produces: non-empty flat alternations, non-empty ascending scalar classes, plain
literals, only `?`, never directly on a `?` -/
def Expr.WFR : Expr → Prop
  | .alt os => os ≠ [] ∧ Expr.WFLR os
  | .cls cs => cs ≠ [] ∧ (∀ c ∈ cs, Scalar c) ∧ cs.Pairwise (· < ·)
  | .cat a b => Expr.WFR a ∧ Expr.WFR b
  | .lit c => GOKL c
  | .rep e q => q = .question ∧ e.isRep = false ∧ Expr.WFR e
def Expr.WFLR : List Expr → Prop
  | [] => True
  | o :: os => o.isAlt = false ∧ Expr.WFR o ∧ Expr.WFLR os
end

mutual
/-- rounds of the parser loop spent on the text of `e` (as items, as the body of a group) -/
def Expr.toksR (cap esc : Bool) : Expr → Nat × Nat
  | .lit c => (gToksL c, gToksL c)
  | .cls _ => (1, 1)
  | .cat a b =>
    let ra := Expr.toksR cap esc a
    let rb := Expr.toksR cap esc b
    let n := subTok cap esc 2 a ra.1 ra.2 + subTok cap esc 2 b rb.1 rb.2
    (n, n)
  | .rep e _ =>
    let r := Expr.toksR cap esc e
    let n := subTok cap esc 3 e r.1 r.2 + 1
    (n, n)
  | .alt os => (0, Expr.toksLR cap esc os)
def Expr.toksLR (cap esc : Bool) : List Expr → Nat
  | [] => 0
  | o :: os => (Expr.toksR cap esc o).1 + (if os.isEmpty then 0 else 1) + Expr.toksLR cap esc os
end

/-- does the text of `e` end with a quantifier (after which the parser looks ahead for a lazy marker)? -/
def Expr.endsQR (cap esc : Bool) : Expr → Bool
  | .lit c => anyCounted c
  | .rep _ _ => true
  | .cat a b => (!(parenQ cap esc 2 a) && Expr.endsQR cap esc a) || (!(parenQ cap esc 2 b) && Expr.endsQR cap esc b)
  | _ => false

/-! ### what the induction carries for one expression -/

structure PPR (cap esc : Bool) (e : Expr) : Prop where
  items : e.isAlt = false → ∀ (f : Nat) (rest : List Nat) (st : List Frame) (al co : List Pat),
    (e.endsQR cap esc = true → rest.head? ≠ some 63) →
    parseLoop false (f + (e.toksR cap esc).1) (R (fmtExpr (cfgPlain cap esc) e) ++ rest) st al co =
      parseLoop false f rest st al ((e.bothR cap esc).1.reverse ++ co)
  body : ∀ (f : Nat) (rest : List Nat) (fr : Frame) (st : List Frame),
    parseLoop false (f + ((e.toksR cap esc).2 + 1)) (R (fmtExpr (cfgPlain cap esc) e) ++ 41 :: rest) (fr :: st) [] [] =
      parseLoop false f rest st fr.alts (Pat.grp fr.capturing (e.bothR cap esc).2 :: fr.concat)
  head : HeadOK (R (fmtExpr (cfgPlain cap esc) e))
  len1 : e.isAlt = false → (e.toksR cap esc).1 ≤ (R (fmtExpr (cfgPlain cap esc) e)).length
  len2 : (e.toksR cap esc).2 ≤ (R (fmtExpr (cfgPlain cap esc) e)).length

/-- for an expression that is not an alternation the group body follows from the items -/
theorem body_of_itemsR (cap esc : Bool) (e : Expr) (hna : e.isAlt = false)
    (hb : (e.bothR cap esc).2 = catList (e.bothR cap esc).1) (ht : (e.toksR cap esc).2 = (e.toksR cap esc).1)
    (hi : ∀ (f : Nat) (rest : List Nat) (st : List Frame) (al co : List Pat),
      (e.endsQR cap esc = true → rest.head? ≠ some 63) →
      parseLoop false (f + (e.toksR cap esc).1) (R (fmtExpr (cfgPlain cap esc) e) ++ rest) st al co =
        parseLoop false f rest st al ((e.bothR cap esc).1.reverse ++ co))
    (f : Nat) (rest : List Nat) (fr : Frame) (st : List Frame) :
    parseLoop false (f + ((e.toksR cap esc).2 + 1)) (R (fmtExpr (cfgPlain cap esc) e) ++ 41 :: rest) (fr :: st) [] [] =
      parseLoop false f rest st fr.alts (Pat.grp fr.capturing (e.bothR cap esc).2 :: fr.concat) := by
  have : f + ((e.toksR cap esc).2 + 1) = (f + 1) + (e.toksR cap esc).1 := by rw [ht]; omega
  rw [this, hi (f + 1) (41 :: rest) (fr :: st) [] [] (by intro _; simp), step_rparen, List.append_nil, closeFrame_nil, hb]

/-! ### sub-expressions -/

theorem sub_parseR (cap esc : Bool) (outer : Nat) (fb : Bool) (e : Expr) (hP : PPR cap esc e)
    (halt : e.isAlt = true → parenQ cap esc outer e = true)
    (f : Nat) (rest : List Nat) (st : List Frame) (al co : List Pat)
    (hq : (!(parenQ cap esc outer e) && e.endsQR cap esc) = true → rest.head? ≠ some 63) :
    parseLoop false (f + subTok cap esc outer e (e.toksR cap esc).1 (e.toksR cap esc).2) (R (fmtSub (cfgPlain cap esc) outer fb e) ++ rest) st al co =
      parseLoop false f rest st al ((subOf cap esc outer e (e.bothR cap esc).1 (e.bothR cap esc).2).reverse ++ co) := by
  rw [fmtSub_eq, subOf_eq, subTok]
  by_cases hp : parenQ cap esc outer e = true
  · simp only [hp, ite_true, R_append, R_lp, List.append_assoc]
    have hR41 : R [41] = [41] := by decide
    rw [hR41]
    have hfuel : f + ((e.toksR cap esc).2 + 2) = (f + ((e.toksR cap esc).2 + 1)) + 1 := by omega
    rw [hfuel]
    cases cap with
    | true =>
      simp only [lp, ite_true, List.singleton_append, List.cons_append, List.nil_append]
      rw [step_lparen_cap _ _ (hP.head _ (by simp)), hP.body]
      simp
    | false =>
      simp only [lp, Bool.false_eq_true, ite_false, List.cons_append, List.nil_append, List.singleton_append]
      rw [step_lparen_noncap, hP.body]
      simp
  · have hp' : parenQ cap esc outer e = false := by simpa using hp
    simp only [hp', Bool.false_eq_true, ite_false]
    have hna : e.isAlt = false := by
      cases h : e.isAlt with
      | false => rfl
      | true => rw [halt h] at hp'; cases hp'
    exact hP.items hna f rest st al co (fun h => hq (by simp [hp', h]))

theorem sub_headR (cap esc : Bool) (outer : Nat) (fb : Bool) (e : Expr) (hP : PPR cap esc e) : HeadOK (R (fmtSub (cfgPlain cap esc) outer fb e)) := by
  rw [fmtSub_eq]
  split
  · apply HeadOK'.ok
    rw [R_append, R_lp]
    cases cap
    · exact ⟨40, [63, 58] ++ R (fmtExpr (cfgPlain false esc) e ++ [41]), rfl, by decide⟩
    · exact ⟨40, [] ++ R (fmtExpr (cfgPlain true esc) e ++ [41]), rfl, by decide⟩
  · exact hP.head

theorem sub_lenR (cap esc : Bool) (outer : Nat) (fb : Bool) (e : Expr) (hP : PPR cap esc e) (halt : e.isAlt = true → parenQ cap esc outer e = true) :
    subTok cap esc outer e (e.toksR cap esc).1 (e.toksR cap esc).2 ≤ (R (fmtSub (cfgPlain cap esc) outer fb e)).length := by
  rw [fmtSub_eq, subTok]
  by_cases hp : parenQ cap esc outer e = true
  · simp only [hp, ite_true, R_append, R_lp, List.length_append]
    have := hP.len2
    have h41 : (R [41]).length = 1 := by decide
    have hlp : 1 ≤ (lp cap).length := by cases cap <;> simp [lp]
    omega
  · have hp' : parenQ cap esc outer e = false := by simpa using hp
    simp only [hp', Bool.false_eq_true, ite_false]
    have hna : e.isAlt = false := by
      cases h : e.isAlt with
      | false => rfl
      | true => rw [halt h] at hp'; cases hp'
    exact hP.len1 hna


/-- the operand of `?` contributes exactly one quantifiable item -/
theorem subOf3_singleR (cap esc : Bool) (e : Expr) (hwf : e.WFR) (hnr : e.isRep = false) :
    ∃ p, subOf cap esc 3 e (e.bothR cap esc).1 (e.bothR cap esc).2 = [p] ∧ Quantifiable p := by
  rw [subOf_eq]
  by_cases hp : parenQ cap esc 3 e = true
  · exact ⟨Pat.grp cap (e.bothR cap esc).2, by simp [hp], by simp [Quantifiable]⟩
  · have hp' : parenQ cap esc 3 e = false := by simpa using hp
    simp only [hp', Bool.false_eq_true, ite_false]
    cases e with
    | alt os => simp [parenQ, Expr.precedence, Expr.isSingleCodepoint] at hp'
    | cls cs => exact ⟨Pat.set (classItems cs) false, by simp [Expr.bothR], by simp [Quantifiable]⟩
    | cat a b => simp [parenQ, Expr.precedence, Expr.isSingleCodepoint] at hp'
    | rep e q => simp [Expr.isRep] at hnr
    | lit c =>
      have hsc : (Expr.lit c).isSingleCodepoint (cfgPlain cap esc) = true := by
        cases hh : (Expr.lit c).isSingleCodepoint (cfgPlain cap esc) with
        | true => rfl
        | false => simp [parenQ, Expr.precedence, hh] at hp'
      obtain ⟨x, _, hat, _, _⟩ := single_literalR cap esc c hwf hsc
      exact ⟨Pat.chr x, by simp [Expr.bothR, hat], by simp [Quantifiable]⟩

theorem endsQS3_falseR (cap esc : Bool) (e : Expr) (hwf : e.WFR) (hnr : e.isRep = false) : (!(parenQ cap esc 3 e) && e.endsQR cap esc) = false := by
  cases e with
  | rep e q => simp [Expr.isRep] at hnr
  | cat a b => simp [parenQ, Expr.precedence, Expr.isSingleCodepoint]
  | alt os => simp [Expr.endsQR]
  | cls cs => simp [Expr.endsQR]
  | lit c =>
    cases hh : (Expr.lit c).isSingleCodepoint (cfgPlain cap esc) with
    | false => simp [parenQ, Expr.precedence, hh]
    | true =>
      obtain ⟨x, _, _, hac, _⟩ := single_literalR cap esc c hwf hh
      simp [Expr.endsQR, hac]


theorem sub3_headR (cap esc : Bool) (fb : Bool) (e : Expr) (hwf : e.WFR) (hnr : e.isRep = false) :
    HeadOK' (R (fmtSub (cfgPlain cap esc) 3 fb e)) := by
  rw [fmtSub_eq]
  by_cases hp : parenQ cap esc 3 e = true
  · simp only [hp, ite_true]
    rw [R_append, R_lp]
    cases cap
    · exact ⟨40, [63, 58] ++ R (fmtExpr (cfgPlain false esc) e ++ [41]), rfl, by decide⟩
    · exact ⟨40, [] ++ R (fmtExpr (cfgPlain true esc) e ++ [41]), rfl, by decide⟩
  · have hp' : parenQ cap esc 3 e = false := by simpa using hp
    simp only [hp', Bool.false_eq_true, ite_false]
    cases e with
    | alt os => simp [parenQ, Expr.precedence, Expr.isSingleCodepoint] at hp'
    | cat a b => simp [parenQ, Expr.precedence, Expr.isSingleCodepoint] at hp'
    | rep e q => simp [Expr.isRep] at hnr
    | cls cs =>
      simp only [fmtExpr]
      rw [← RV_false (fmtClass (cfgPlain cap esc) cs), fmtClass_text]
      exact ⟨91, _, rfl, by decide⟩
    | lit c =>
      have hsc : (Expr.lit c).isSingleCodepoint (cfgPlain cap esc) = true := by
        cases hh : (Expr.lit c).isSingleCodepoint (cfgPlain cap esc) with
        | true => rfl
        | false => simp [parenQ, Expr.precedence, hh] at hp'
      obtain ⟨x, rfl, _, _, hok⟩ := single_literalR cap esc c hwf hsc
      simp only [fmtExpr]
      have ht : fmtLiteral (cfgPlain cap esc) [Grapheme.ofStr [x]] = E esc (escapeSymbols (untok [Atom.chr x])) := by
        have := fmtLiteral_flat cap esc (Grapheme.ofStr [x]) rfl
        rw [this]
        exact nText_plain cap esc [Atom.chr x]
      rw [ht]
      have := R_escape_head false esc [Atom.chr x] (by simp) hok
      rwa [RV_false] at this

theorem both_snd_nonaltR (cap esc : Bool) (e : Expr) (h : e.isAlt = false) : (e.bothR cap esc).2 = catList (e.bothR cap esc).1 := by
  cases e with
  | alt os => simp [Expr.isAlt] at h
  | _ => simp [Expr.bothR]

theorem toks_snd_nonaltR (cap esc : Bool) (e : Expr) (h : e.isAlt = false) : (e.toksR cap esc).2 = (e.toksR cap esc).1 := by
  cases e with
  | alt os => simp [Expr.isAlt] at h
  | _ => simp [Expr.toksR]

mutual
/-- **print → parse, expression by expression** -/
theorem Expr.ppR (cap esc : Bool) : ∀ (e : Expr), e.WFR → PPR cap esc e
  | .lit c, h => by
    have hi : ∀ (f : Nat) (rest : List Nat) (st : List Frame) (al co : List Pat),
        ((Expr.lit c).endsQR cap esc = true → rest.head? ≠ some 63) →
        parseLoop false (f + ((Expr.lit c).toksR cap esc).1) (R (fmtExpr (cfgPlain cap esc) (.lit c)) ++ rest) st al co =
          parseLoop false f rest st al (((Expr.lit c).bothR cap esc).1.reverse ++ co) := by
      intro f rest st al co hq
      simp only [fmtExpr, Expr.toksR, Expr.bothR]
      exact lex_literalR cap esc c h f rest st al co (fun hc => hq (by simpa [Expr.endsQR] using hc))
    refine ⟨fun _ => hi, body_of_itemsR cap esc _ rfl (both_snd_nonaltR cap esc _ rfl) (toks_snd_nonaltR cap esc _ rfl) hi, ?_, ?_, ?_⟩
    · simp only [fmtExpr]; exact literal_headR cap esc c h
    · intro _; simp only [fmtExpr, Expr.toksR]; exact literal_lenR cap esc c h
    · simp only [fmtExpr, Expr.toksR]; exact literal_lenR cap esc c h
  | .cls cs, h => by
    have hi : ∀ (f : Nat) (rest : List Nat) (st : List Frame) (al co : List Pat),
        ((Expr.cls cs).endsQR cap esc = true → rest.head? ≠ some 63) →
        parseLoop false (f + ((Expr.cls cs).toksR cap esc).1) (R (fmtExpr (cfgPlain cap esc) (.cls cs)) ++ rest) st al co =
          parseLoop false f rest st al (((Expr.cls cs).bothR cap esc).1.reverse ++ co) := by
      intro f rest st al co _
      simp only [fmtExpr, Expr.toksR, Expr.bothR]
      exact lex_class false cap esc cs h.1 h.2.2 f rest st al co
    have hlen : 1 ≤ (R (fmtExpr (cfgPlain cap esc) (.cls cs))).length := by
      simp only [fmtExpr]; rw [← RV_false (fmtClass (cfgPlain cap esc) cs), fmtClass_text]; simp
    refine ⟨fun _ => hi, body_of_itemsR cap esc _ rfl (both_snd_nonaltR cap esc _ rfl) (toks_snd_nonaltR cap esc _ rfl) hi, ?_, ?_, ?_⟩
    · simp only [fmtExpr]; rw [← RV_false (fmtClass (cfgPlain cap esc) cs), fmtClass_text]; exact (show HeadOK' _ from ⟨91, _, rfl, by decide⟩).ok
    · intro _; simpa [Expr.toksR] using hlen
    · simpa [Expr.toksR] using hlen
  | .cat a b, h => by
    have pa := Expr.ppR cap esc a h.1
    have pb := Expr.ppR cap esc b h.2
    have ha2 := parenQ_of_alt cap esc 2 (Nat.le_refl _) a
    have hb2 := parenQ_of_alt cap esc 2 (Nat.le_refl _) b
    have htext : R (fmtExpr (cfgPlain cap esc) (.cat a b)) = R (fmtSub (cfgPlain cap esc) 2 true a) ++ R (fmtSub (cfgPlain cap esc) 2 true b) := by
      simp only [fmtExpr, R_append]
    have hi : ∀ (f : Nat) (rest : List Nat) (st : List Frame) (al co : List Pat),
        ((Expr.cat a b).endsQR cap esc = true → rest.head? ≠ some 63) →
        parseLoop false (f + ((Expr.cat a b).toksR cap esc).1) (R (fmtExpr (cfgPlain cap esc) (.cat a b)) ++ rest) st al co =
          parseLoop false f rest st al (((Expr.cat a b).bothR cap esc).1.reverse ++ co) := by
      intro f rest st al co hq
      rw [htext]
      simp only [Expr.toksR, Expr.bothR, List.append_assoc, List.reverse_append]
      have hfuel : f + (subTok cap esc 2 a (a.toksR cap esc).1 (a.toksR cap esc).2 + subTok cap esc 2 b (b.toksR cap esc).1 (b.toksR cap esc).2) =
          (f + subTok cap esc 2 b (b.toksR cap esc).1 (b.toksR cap esc).2) + subTok cap esc 2 a (a.toksR cap esc).1 (a.toksR cap esc).2 := by omega
      rw [hfuel, sub_parseR cap esc 2 true a pa ha2, sub_parseR cap esc 2 true b pb hb2]
      · intro hqb
        apply hq
        simp only [Expr.endsQR, Bool.or_eq_true]
        exact Or.inr hqb
      · intro hqa
        apply sub_headR cap esc 2 true b pb
        apply hq
        simp only [Expr.endsQR, Bool.or_eq_true]
        exact Or.inl hqa
    refine ⟨fun _ => hi, body_of_itemsR cap esc _ rfl (both_snd_nonaltR cap esc _ rfl) (toks_snd_nonaltR cap esc _ rfl) hi, ?_, ?_, ?_⟩
    · rw [htext]; exact headOK_append (sub_headR cap esc 2 true a pa) (sub_headR cap esc 2 true b pb)
    · intro _
      rw [htext]
      have := sub_lenR cap esc 2 true a pa ha2
      have := sub_lenR cap esc 2 true b pb hb2
      simp only [Expr.toksR, List.length_append]; omega
    · rw [htext]
      have := sub_lenR cap esc 2 true a pa ha2
      have := sub_lenR cap esc 2 true b pb hb2
      simp only [Expr.toksR, List.length_append]; omega
  | .rep e q, h => by
    obtain ⟨rfl, hnr, hwf⟩ := h
    have pe := Expr.ppR cap esc e hwf
    have he3 := parenQ_of_alt cap esc 3 (by omega) e
    have htext : R (fmtExpr (cfgPlain cap esc) (.rep e .question)) = R (fmtSub (cfgPlain cap esc) 3 false e) ++ [63] := by
      simp only [fmtExpr, R_append, Comp.quantifier, cfgPlain, paint, Gen.strQuestion, Bool.false_eq_true, ite_false,
        List.append_nil]
      have h63 : R [63] = [63] := by decide
      rw [h63]
    obtain ⟨p, hp, hpq⟩ := subOf3_singleR cap esc e hwf hnr
    have hi : ∀ (f : Nat) (rest : List Nat) (st : List Frame) (al co : List Pat),
        ((Expr.rep e .question).endsQR cap esc = true → rest.head? ≠ some 63) →
        parseLoop false (f + ((Expr.rep e .question).toksR cap esc).1) (R (fmtExpr (cfgPlain cap esc) (.rep e .question)) ++ rest) st al co =
          parseLoop false f rest st al (((Expr.rep e .question).bothR cap esc).1.reverse ++ co) := by
      intro f rest st al co hq
      rw [htext]
      simp only [Expr.toksR, Expr.bothR, List.append_assoc, List.singleton_append]
      have hfuel : f + (subTok cap esc 3 e (e.toksR cap esc).1 (e.toksR cap esc).2 + 1) =
          (f + 1) + subTok cap esc 3 e (e.toksR cap esc).1 (e.toksR cap esc).2 := by omega
      rw [hfuel, sub_parseR cap esc 3 false e pe he3 (f + 1) (63 :: rest) st al co
        (by rw [endsQS3_falseR cap esc e hwf hnr]; intro hc; cases hc)]
      rw [hp]
      simp only [List.reverse_cons, List.reverse_nil, List.nil_append, List.singleton_append, optOf]
      exact step_opt f rest (hq rfl) p hpq co st al
    have hsublen := sub_lenR cap esc 3 false e pe he3
    refine ⟨fun _ => hi, body_of_itemsR cap esc _ rfl (both_snd_nonaltR cap esc _ rfl) (toks_snd_nonaltR cap esc _ rfl) hi, ?_, ?_, ?_⟩
    · rw [htext]; exact (headOK'_append_left _ (sub3_headR cap esc false e hwf hnr)).ok
    · intro _; rw [htext]; simp only [Expr.toksR, List.length_append, List.length_singleton]; omega
    · rw [htext]; simp only [Expr.toksR, List.length_append, List.length_singleton]; omega
  | .alt os, h => by
    obtain ⟨hne, hwfl⟩ := h
    obtain ⟨hL, hH, hLen⟩ := Expr.ppLR cap esc os hwfl hne
    refine ⟨fun hc => by simp [Expr.isAlt] at hc, ?_, ?_, fun hc => by simp [Expr.isAlt] at hc, ?_⟩
    · intro f rest fr st
      simp only [fmtExpr, Expr.toksR, Expr.bothR]
      obtain ⟨al', co', hrun, hclose⟩ := hL (f + 1) (41 :: rest) (fr :: st) [] (by simp)
      have hfuel : f + (Expr.toksLR cap esc os + 1) = (f + 1) + Expr.toksLR cap esc os := by omega
      rw [hfuel, hrun, step_rparen]
      simp only [closeFrame, hclose, List.reverse_nil, List.nil_append]
    · simp only [fmtExpr]; exact hH
    · simp only [fmtExpr, Expr.toksR]; exact hLen
theorem Expr.ppLR (cap esc : Bool) : ∀ (os : List Expr), Expr.WFLR os → os ≠ [] →
    (∀ (f : Nat) (rest : List Nat) (st : List Frame) (al : List Pat), rest.head? ≠ some 63 →
      ∃ al' co', parseLoop false (f + Expr.toksLR cap esc os) (R (fmtAlt (cfgPlain cap esc) os) ++ rest) st al [] =
          parseLoop false f rest st al' co' ∧
        (catList co'.reverse :: al').reverse = al.reverse ++ Expr.bothLR cap esc os) ∧
    HeadOK (R (fmtAlt (cfgPlain cap esc) os)) ∧ Expr.toksLR cap esc os ≤ (R (fmtAlt (cfgPlain cap esc) os)).length
  | [], _, hne => absurd rfl hne
  | [o], h, _ => by
    have po := Expr.ppR cap esc o h.2.1
    have htext : fmtAlt (cfgPlain cap esc) [o] = fmtExpr (cfgPlain cap esc) o := by
      simp only [fmtAlt]; rw [fmtSub_eq, parenQ1_false]; simp
    refine ⟨?_, ?_, ?_⟩
    · intro f rest st al hr
      refine ⟨al, (o.bothR cap esc).1.reverse, ?_, by simp [Expr.bothLR]⟩
      rw [htext]
      have := po.items h.1 f rest st al [] (fun _ => hr)
      simpa [Expr.toksLR] using this
    · rw [htext]; exact po.head
    · rw [htext]; simpa [Expr.toksLR] using po.len1 h.1
  | o :: o2 :: os, h, _ => by
    have po := Expr.ppR cap esc o h.2.1
    obtain ⟨hL, hH, hLen⟩ := Expr.ppLR cap esc (o2 :: os) h.2.2 (by simp)
    have htext : R (fmtAlt (cfgPlain cap esc) (o :: o2 :: os)) =
        R (fmtExpr (cfgPlain cap esc) o) ++ ([124] ++ R (fmtAlt (cfgPlain cap esc) (o2 :: os))) := by
      simp only [fmtAlt]
      rw [fmtSub_eq, parenQ1_false]
      simp only [Bool.false_eq_true, ite_false, cfgPlain, Comp.pipe, paint, Gen.strPipe, R_append]
      simp [show R [124] = [124] from by decide]
    refine ⟨?_, ?_, ?_⟩
    · intro f rest st al hr
      obtain ⟨al', co', hrun, hclose⟩ := hL f rest st (catList (o.bothR cap esc).1 :: al) hr
      refine ⟨al', co', ?_, ?_⟩
      · rw [htext]
        have hfuel : f + Expr.toksLR cap esc (o :: o2 :: os) = ((f + Expr.toksLR cap esc (o2 :: os)) + 1) + (o.toksR cap esc).1 := by
          simp only [Expr.toksLR, List.isEmpty_cons, Bool.false_eq_true, ite_false]; omega
        rw [hfuel, List.append_assoc, po.items h.1 _ _ st al [] (by intro _; simp)]
        simp only [List.append_nil, List.singleton_append, List.cons_append, List.nil_append]
        rw [step_pipe, List.reverse_reverse]
        exact hrun
      · rw [hclose]
        simp [Expr.bothLR]
    · rw [htext]
      exact headOK_append po.head (show HeadOK' _ from ⟨124, _, rfl, by decide⟩).ok
    · rw [htext]
      have := po.len1 h.1
      have e : Expr.toksLR cap esc (o :: o2 :: os) = (o.toksR cap esc).1 + 1 + Expr.toksLR cap esc (o2 :: os) := by
        rw [Expr.toksLR]; simp
      rw [e]
      simp only [List.length_append, List.length_singleton]
      omega
end

end Grexv
