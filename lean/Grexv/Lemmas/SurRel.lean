import Grexv.Lemmas.ToPat
import Grexv.Lemmas.Presentation
import Grexv.Lemmas.PrintLit

/-
Surrogate pairs (`-e` with `use_surrogate_pairs`): the printed text is the `-e` text with every `\u{c}` of an astral code
point replaced by its pair of surrogate escapes, and nothing else changed (`SurRel`).  No `-r`, no colours, not verbose.
-/
set_option linter.unusedSimpArgs false
set_option linter.unusedVariables false
namespace Grexv

/-- `a` is `b` with some `\u{c}` (c astral) written as a pair of surrogate escapes -/
inductive SurRel : Str → Str → Prop where
  | nil : SurRel [] []
  | same (c : Nat) {a b : Str} : SurRel a b → SurRel (c :: a) (c :: b)
  | pair (c : Nat) (h : 0x10000 ≤ c ∧ c ≤ 0x10FFFF) {a b : Str} :
      SurRel a b → SurRel (Expr.escapeChar c true ++ a) (Expr.escapeChar c false ++ b)

theorem SurRel.refl : ∀ (t : Str), SurRel t t
  | [] => SurRel.nil
  | c :: r => SurRel.same c (SurRel.refl r)

theorem SurRel.append {a b : Str} (h1 : SurRel a b) {c d : Str} (h2 : SurRel c d) : SurRel (a ++ c) (b ++ d) := by
  induction h1 with
  | nil => simpa using h2
  | same x _ ih => exact SurRel.same x ih
  | pair x hx _ ih =>
    have := SurRel.pair x hx ih
    simpa [List.append_assoc] using this

theorem SurRel.flatMap {α : Type} (l : List α) (f g : α → Str) (h : ∀ x ∈ l, SurRel (f x) (g x)) :
    SurRel (l.flatMap f) (l.flatMap g) := by
  induction l with
  | nil => exact SurRel.nil
  | cons a as ih =>
    simp only [List.flatMap_cons]
    exact SurRel.append (h a List.mem_cons_self) (ih (fun x hx => h x (List.mem_cons_of_mem _ hx)))

theorem escapeChar_sur_same (c : Nat) (h : c < 0x10000 ∨ 0x10FFFF < c) : Expr.escapeChar c true = Expr.escapeChar c false := by
  unfold Expr.escapeChar
  split
  · rfl
  · have : (decide (Gen.surrogateLo ≤ c) && Gen.surrogateHiOk c) = false := by
      rcases h with h | h
      · have h1 : ¬ (Gen.surrogateLo ≤ c) := by unfold Gen.surrogateLo; omega
        simp [h1]
      · have h1 : ¬ (c ≤ Gen.surrogateHi) := by unfold Gen.surrogateHi; omega
        have : Gen.surrogateHiOk c = false := by
          simp [Gen.surrogateHiOk, Gen.surrogateHiInclusive, h1]
        simp [this]
    simp [this]

theorem surRel_char (c : Nat) : SurRel (Expr.escapeChar c true) (Expr.escapeChar c false) := by
  by_cases h : 0x10000 ≤ c ∧ c ≤ 0x10FFFF
  · have := SurRel.pair c h SurRel.nil
    simpa using this
  · rw [escapeChar_sur_same c (by omega)]
    exact SurRel.refl _

/-- the same settings with the surrogate-pair switch set / cleared -/
def withSur (cfg : Config) (b : Bool) : Config := { cfg with sur := b }

/-- the `-e` step with the surrogate switch -/
def ES (esc sur : Bool) (t : Str) : Str := if esc then t.flatMap (fun c => Expr.escapeChar c sur) else t

theorem surRel_ES (esc : Bool) (t : Str) : SurRel (ES esc true t) (ES esc false t) := by
  cases esc
  · exact SurRel.refl t
  · simp only [ES, ite_true]
    exact SurRel.flatMap t _ _ (fun c _ => surRel_char c)

theorem fmtGrapheme_sur (cfg : Config) (hc : cfg.color = false) (s : Str) :
    fmtGrapheme cfg (escapeGrapheme cfg (Grapheme.ofStr s)) = ES cfg.esc cfg.sur (escapeSymbols s) := by
  cases he : cfg.esc <;>
    simp [Grapheme.ofStr, escapeGrapheme, escapeGraphemes, fmtGrapheme, Comp.charClass, paint, ES, he, hc]

theorem fmtLiteral_sur (cfg : Config) (hc : cfg.color = false) (c : Cluster) (h : PlainBs c) :
    fmtLiteral cfg c = c.flatMap (fun g => ES cfg.esc cfg.sur (escapeSymbols g.value)) := by
  unfold fmtLiteral
  induction c with
  | nil => simp
  | cons g gs ih =>
    obtain ⟨as, _, _, rfl⟩ := h g List.mem_cons_self
    have : (Grapheme.ofStr (untok as)).reps.isEmpty = true := by simp [Grapheme.ofStr, Grapheme.reps]
    simp only [List.flatMap_cons, this, Bool.not_true, Bool.false_eq_true, ite_false, fmtGrapheme_sur cfg hc, value_ofStr]
    rw [ih (fun x hx => h x (List.mem_cons_of_mem _ hx))]

theorem surRel_literal (cfg : Config) (hc : cfg.color = false) (c : Cluster) (h : PlainBs c) :
    SurRel (fmtLiteral (withSur cfg true) c) (fmtLiteral (withSur cfg false) c) := by
  rw [fmtLiteral_sur (withSur cfg true) hc c h, fmtLiteral_sur (withSur cfg false) hc c h]
  exact SurRel.flatMap c _ _ (fun g _ => surRel_ES cfg.esc _)

theorem paren_surRel (cap color verb fb : Bool) (x y : Str) (h : SurRel x y) :
    SurRel (Comp.paren cap color verb fb x) (Comp.paren cap color verb fb y) := by
  unfold Comp.paren
  cases verb
  · simp only [Bool.false_eq_true, ite_false]
    exact SurRel.append (SurRel.append (SurRel.refl _) h) (SurRel.refl _)
  · simp only [ite_true]
    exact SurRel.append (SurRel.append (SurRel.append (SurRel.append (SurRel.append (SurRel.append
      (SurRel.refl _) (SurRel.refl _)) (SurRel.refl _)) h) (SurRel.refl _)) (SurRel.refl _)) (SurRel.refl _)

mutual
theorem surRel_expr (cfg : Config) (hc : cfg.color = false) : ∀ (e : Expr), e.WF →
    SurRel (fmtExpr (withSur cfg true) e) (fmtExpr (withSur cfg false) e)
  | .lit c, h => by simp only [fmtExpr]; exact surRel_literal cfg hc c h
  | .cls cs, _ => by
    simp only [fmtExpr]
    have : fmtClass (withSur cfg true) cs = fmtClass (withSur cfg false) cs := rfl
    rw [this]; exact SurRel.refl _
  | .cat a b, h => by
    simp only [fmtExpr]
    exact SurRel.append (surRel_sub cfg hc 2 true a h.1) (surRel_sub cfg hc 2 true b h.2)
  | .rep e q, h => by
    simp only [fmtExpr]
    exact SurRel.append (surRel_sub cfg hc 3 false e h.2.2) (SurRel.refl _)
  | .alt os, h => by
    simp only [fmtExpr]
    exact surRel_alt cfg hc os h.2
theorem surRel_sub (cfg : Config) (hc : cfg.color = false) (outer : Nat) (fb : Bool) : ∀ (e : Expr), e.WF →
    SurRel (fmtSub (withSur cfg true) outer fb e) (fmtSub (withSur cfg false) outer fb e)
  | e, h => by
    rw [fmtSub, fmtSub]
    have hsc : e.isSingleCodepoint (withSur cfg true) = e.isSingleCodepoint (withSur cfg false) :=
      isSingleCodepoint_congr (c1 := withSur cfg true) (c2 := withSur cfg false) rfl e
    rw [hsc]
    split
    · exact paren_surRel cfg.cap cfg.color cfg.verb fb _ _ (surRel_expr cfg hc e h)
    · exact surRel_expr cfg hc e h
theorem surRel_alt (cfg : Config) (hc : cfg.color = false) : ∀ (os : List Expr), Expr.WFL os →
    SurRel (fmtAlt (withSur cfg true) os) (fmtAlt (withSur cfg false) os)
  | [], _ => by simp only [fmtAlt]; exact SurRel.nil
  | [o], h => by simp only [fmtAlt]; exact surRel_sub cfg hc 1 true o h.2.1
  | o :: o2 :: os, h => by
    simp only [fmtAlt]
    exact SurRel.append (SurRel.append (surRel_sub cfg hc 1 true o h.2.1) (SurRel.refl _)) (surRel_alt cfg hc (o2 :: os) h.2.2)
end

theorem surRel_body (cfg : Config) (hc : cfg.color = false) (e : Expr) (h : e.WF) :
    SurRel (bodyText (withSur cfg true) e) (bodyText (withSur cfg false) e) := by
  cases e with
  | alt os =>
    simp only [bodyText]
    exact paren_surRel cfg.cap cfg.color cfg.verb false _ _ (surRel_expr cfg hc (.alt os) h)
  | lit c => simp only [bodyText]; exact surRel_expr cfg hc _ h
  | cls cs => simp only [bodyText]; exact surRel_expr cfg hc _ h
  | cat a b => simp only [bodyText]; exact surRel_expr cfg hc _ h
  | rep e q => simp only [bodyText]; exact surRel_expr cfg hc _ h

theorem hexDigit_range : ∀ d, d < 16 → 48 ≤ hexDigit d := by decide

theorem escapeChar_chars (x : Nat) (sur : Bool) (h : 128 ≤ x) : ∀ c ∈ Expr.escapeChar x sur, 48 ≤ c := by
  have hx : ¬ x < 128 := by omega
  intro c hc
  unfold Expr.escapeChar at hc
  rw [if_neg hx] at hc
  have hex : ∀ n : Nat, ∀ c ∈ toHex n, 48 ≤ c := by
    intro n c hc
    rw [toHex_eq] at hc
    obtain ⟨d, hd, rfl⟩ := List.mem_map.mp hc
    exact hexDigit_range d (hexDigs_lt 64 n d hd)
  split at hc
  · simp only [List.mem_append, List.mem_cons, List.mem_nil_iff, or_false] at hc
    rcases hc with ((((((h1 | h1 | h1) | h1) | h1) | (h1 | h1 | h1)) | h1) | h1)
    all_goals first | omega | exact hex _ c h1
  · simp only [List.mem_append, List.mem_cons, List.mem_nil_iff, or_false] at hc
    rcases hc with ((h1 | h1 | h1) | h1) | h1
    all_goals first | omega | exact hex _ c h1

theorem replaceChar_noop (c : Nat) (r t : Str) (h : c ∉ t) : replaceChar c r t = t := by
  induction t with
  | nil => rfl
  | cons d rest ih =>
    have hd : d ≠ c := by intro e; subst e; simp at h
    simp only [replaceChar, List.flatMap_cons, hd, ite_false]
    have := ih (fun e => h (List.mem_cons_of_mem _ e))
    simp only [replaceChar] at this
    rw [this]; rfl

/-- replacing a control character elsewhere does not touch the escapes -/
theorem SurRel.replace (c : Nat) (hc : c < 48) (r : Str) {a b : Str} (h : SurRel a b) :
    SurRel (replaceChar c r a) (replaceChar c r b) := by
  induction h with
  | nil => exact SurRel.nil
  | same d _ ih =>
    have e1 : ∀ t : Str, replaceChar c r (d :: t) = (if d = c then r else [d]) ++ replaceChar c r t := by
      intro t; simp [replaceChar]
    rw [e1 _, e1 _]
    exact SurRel.append (SurRel.refl _) ih
  | pair x hx _ ih =>
    have n1 : c ∉ Expr.escapeChar x true := fun e => by have := escapeChar_chars x true (by omega) c e; omega
    have n2 : c ∉ Expr.escapeChar x false := fun e => by have := escapeChar_chars x false (by omega) c e; omega
    have e1 : ∀ (p t : Str), replaceChar c r (p ++ t) = replaceChar c r p ++ replaceChar c r t := by
      intro p t; simp [replaceChar]
    rw [e1, e1, replaceChar_noop c r _ n1, replaceChar_noop c r _ n2]
    exact SurRel.pair x hx ih

/-- **the text printed with surrogate pairs is the `-e` text with the astral escapes written as pairs** (not verbose, no
colours; every well-formed expression) -/
theorem surRel_regexp (cfg : Config) (hc : cfg.color = false) (hv : cfg.verb = false) (e : Expr) (h : e.WF) :
    SurRel (fmtRegExp (withSur cfg true) e) (fmtRegExp (withSur cfg false) e) := by
  unfold fmtRegExp
  have hv1 : (withSur cfg true).verb = false := hv
  have hv2 : (withSur cfg false).verb = false := hv
  simp only [hv1, hv2, Bool.and_false, Bool.false_eq_true, ite_false]
  apply SurRel.replace 12 (by decide)
  apply SurRel.replace 11 (by decide)
  exact SurRel.append (SurRel.append (SurRel.append (SurRel.refl _) (SurRel.refl _)) (surRel_body cfg hc e h)) (SurRel.refl _)

end Grexv
