import Grexv.Lemmas.Matrix
import Grexv.Lemmas.Plain

/-
Brzozowski's algebraic method as implemented by `Expression::from` (S7): the elimination loop keeps
the equation system `L i = ⋃ j<k, ⟦a i j⟧ · L j ∪ ⟦b i⟧` true for the *true* languages `L`, as long
as the Kleene-star branch is not taken (`NoSelfAlong`, an executable condition the driver evaluates
per input: the automata here are acyclic).
-/
set_option linter.unusedSimpArgs false
set_option linter.unusedVariables false
namespace Grexv
open Expr

/-- the system restricted to the first `k` unknowns -/
def SysOK (L : Nat → Word → Prop) (k : Nat) (A : Nat → Nat → Option Expr) (B : Nat → Option Expr) : Prop :=
  ∀ i, i < k → ∀ w, L i w ↔
    ((∃ j, j < k ∧ ∃ u v, w = u ++ v ∧ olang (A i j) u ∧ L j v) ∨ olang (B i) w)

def PlainSys (A : Nat → Nat → Option Expr) (B : Nat → Option Expr) : Prop :=
  (∀ i j, OPlain (A i j)) ∧ ∀ i, OPlain (B i)

/-- one elimination step on the abstract system (no self loop at `n`) -/
def stepA (cfg : Config) (n : Nat) (A : Nat → Nat → Option Expr) (i j : Nat) : Option Expr :=
  if i < n ∧ j < n ∧ (A i n).isSome then union cfg (A i j) (concatenate (A i n) (A n j)) else A i j

def stepB (cfg : Config) (n : Nat) (A : Nat → Nat → Option Expr) (B : Nat → Option Expr) (i : Nat) : Option Expr :=
  if i < n ∧ (A i n).isSome then union cfg (B i) (concatenate (A i n) (B n)) else B i

theorem olang_none_of_not_isSome (e : Option Expr) (h : ¬ e.isSome = true) (w : Word) : ¬ olang e w := by
  cases e with
  | none => simp [olang]
  | some x => simp at h

/-- **substitution step** eliminating unknown `n` keeps the system true for the remaining unknowns -/
theorem sys_step (cfg : Config) (L : Nat → Word → Prop) (n : Nat) (A : Nat → Nat → Option Expr) (B : Nat → Option Expr)
    (hsys : SysOK L (n + 1) A B) (hself : A n n = none) (hplain : PlainSys A B) :
    SysOK L n (stepA cfg n A) (stepB cfg n A B) ∧ PlainSys (stepA cfg n A) (stepB cfg n A B) := by
  have hLn : ∀ w, L n w ↔ ((∃ j, j < n ∧ ∃ u v, w = u ++ v ∧ olang (A n j) u ∧ L j v) ∨ olang (B n) w) := by
    intro w
    rw [hsys n (by omega) w]
    constructor
    · rintro (⟨j, hj, u, v, rfl, hu, hv⟩ | h)
      · by_cases hjn : j = n
        · subst hjn; rw [hself] at hu; exact absurd hu (by simp [olang])
        · exact Or.inl ⟨j, by omega, u, v, rfl, hu, hv⟩
      · exact Or.inr h
    · rintro (⟨j, hj, u, v, rfl, hu, hv⟩ | h)
      · exact Or.inl ⟨j, by omega, u, v, rfl, hu, hv⟩
      · exact Or.inr h
  constructor
  · intro i hi w
    rw [hsys i (by omega) w]
    by_cases hin : (A i n).isSome = true
    · -- row `i` refers to the eliminated unknown
      have hA : ∀ j, j < n → ∀ u, olang (stepA cfg n A i j) u ↔
          (olang (A i j) u ∨ ∃ u1 u2, u = u1 ++ u2 ∧ olang (A i n) u1 ∧ olang (A n j) u2) := by
        intro j hj u
        simp only [stepA, hi, hj, hin, and_self, ite_true]
        rw [union_lang' cfg _ _ (hplain.1 i j) (oplain_concatenate _ _ (hplain.1 i n) (hplain.1 n j)), concatenate_lang]
      have hB : ∀ u, olang (stepB cfg n A B i) u ↔
          (olang (B i) u ∨ ∃ u1 u2, u = u1 ++ u2 ∧ olang (A i n) u1 ∧ olang (B n) u2) := by
        intro u
        simp only [stepB, hi, hin, and_self, ite_true]
        rw [union_lang' cfg _ _ (hplain.2 i) (oplain_concatenate _ _ (hplain.1 i n) (hplain.2 n)), concatenate_lang]
      constructor
      · rintro (⟨j, hj, u, v, rfl, hu, hv⟩ | h)
        · by_cases hjn : j = n
          · subst hjn
            -- expand L n
            rcases (hLn v).mp hv with ⟨j2, hj2, u2, v2, rfl, hu2, hv2⟩ | hb
            · left
              refine ⟨j2, hj2, u ++ u2, v2, by simp [List.append_assoc], ?_, hv2⟩
              exact (hA j2 hj2 _).mpr (Or.inr ⟨u, u2, rfl, hu, hu2⟩)
            · right
              exact (hB _).mpr (Or.inr ⟨u, v, rfl, hu, hb⟩)
          · left
            exact ⟨j, by omega, u, v, rfl, (hA j (by omega) u).mpr (Or.inl hu), hv⟩
        · right; exact (hB w).mpr (Or.inl h)
      · rintro (⟨j, hj, u, v, rfl, hu, hv⟩ | h)
        · rcases (hA j hj u).mp hu with h1 | ⟨u1, u2, rfl, h1, h2⟩
          · left; exact ⟨j, by omega, u, v, rfl, h1, hv⟩
          · left
            refine ⟨n, by omega, u1, u2 ++ v, by simp [List.append_assoc], h1, ?_⟩
            exact (hLn _).mpr (Or.inl ⟨j, hj, u2, v, rfl, h2, hv⟩)
        · rcases (hB w).mp h with h1 | ⟨u1, u2, rfl, h1, h2⟩
          · right; exact h1
          · left
            exact ⟨n, by omega, u1, u2, rfl, h1, (hLn _).mpr (Or.inr h2)⟩
    · -- row `i` does not mention `n`
      have hA : ∀ j, stepA cfg n A i j = A i j := by
        intro j; simp [stepA, hin]
      have hB : stepB cfg n A B i = B i := by simp [stepB, hin]
      simp only [hA, hB]
      constructor
      · rintro (⟨j, hj, u, v, rfl, hu, hv⟩ | h)
        · by_cases hjn : j = n
          · subst hjn; exact absurd hu (olang_none_of_not_isSome _ hin u)
          · exact Or.inl ⟨j, by omega, u, v, rfl, hu, hv⟩
        · exact Or.inr h
      · rintro (⟨j, hj, u, v, rfl, hu, hv⟩ | h)
        · exact Or.inl ⟨j, by omega, u, v, rfl, hu, hv⟩
        · exact Or.inr h
  · constructor
    · intro i j
      simp only [stepA]
      split
      · exact oplain_union cfg _ _ (hplain.1 i j) (oplain_concatenate _ _ (hplain.1 i n) (hplain.1 n j))
      · exact hplain.1 i j
    · intro i
      simp only [stepB]
      split
      · exact oplain_union cfg _ _ (hplain.2 i) (oplain_concatenate _ _ (hplain.1 i n) (hplain.2 n))
      · exact hplain.2 i

/-! ### the array program computes `stepA` / `stepB` -/

/-- the inner `for j in 0..n` loop for row `i` -/
def innerLoop (cfg : Config) (i n : Nat) (a : Mat) (m : Nat) : Mat :=
  (List.range m).foldl (fun (a : Mat) j =>
    a.set i j (union cfg (a.get i j) (concatenate (a.get i n) (a.get n j)))) a

theorem innerLoop_spec (cfg : Config) (N i n : Nat) (a : Mat) (hsq : a.Sq N) (hi : i < n) (hn : n < N) :
    ∀ m, m ≤ n → (innerLoop cfg i n a m).Sq N ∧ ∀ i' j',
      (innerLoop cfg i n a m).get i' j' =
        if i' = i ∧ j' < m then union cfg (a.get i j') (concatenate (a.get i n) (a.get n j')) else a.get i' j' := by
  intro m
  induction m with
  | zero => intro _; exact ⟨hsq, by intro i' j'; simp [innerLoop]⟩
  | succ m ih =>
    intro hm
    obtain ⟨hsq', hget⟩ := ih (by omega)
    have hstep : innerLoop cfg i n a (m + 1) =
        (innerLoop cfg i n a m).set i m (union cfg ((innerLoop cfg i n a m).get i m)
          (concatenate ((innerLoop cfg i n a m).get i n) ((innerLoop cfg i n a m).get n m))) := by
      simp [innerLoop, List.range_succ, List.foldl_append]
    rw [hstep]
    refine ⟨Mat.sq_set hsq' _ _ _, ?_⟩
    intro i' j'
    rw [Mat.get_set hsq']
    have e1 : (innerLoop cfg i n a m).get i m = a.get i m := by rw [hget]; simp
    have e2 : (innerLoop cfg i n a m).get i n = a.get i n := by
      rw [hget]; have : ¬ n < m := by omega
      simp [this]
    have e3 : (innerLoop cfg i n a m).get n m = a.get n m := by
      rw [hget]; have : ¬ n = i := by omega
      simp [this]
    rw [e1, e2, e3]
    by_cases hc : i' = i ∧ j' = m
    · obtain ⟨rfl, rfl⟩ := hc
      have : i' < N := by omega
      have : j' < N := by omega
      simp [*]
    · have : ¬ (i' = i ∧ j' = m ∧ i < N ∧ m < N) := fun h => hc ⟨h.1, h.2.1⟩
      simp only [this, ite_false]
      rw [hget]
      by_cases hi' : i' = i
      · subst hi'
        have hj' : j' ≠ m := fun e => hc ⟨rfl, e⟩
        by_cases hlt : j' < m
        · have : j' < m + 1 := by omega
          simp [hlt, this]
        · have : ¬ j' < m + 1 := by omega
          simp [hlt, this]
      · simp [hi']

structure StSq (N : Nat) (st : ElimState) : Prop where
  a : st.a.Sq N
  b : st.b.size = N

/-- the outer `for i in 0..n` loop -/
def outerLoop (cfg : Config) (n : Nat) (st : ElimState) (m : Nat) : ElimState :=
  (List.range m).foldl (fun (st : ElimState) i =>
    if (st.a.get i n).isSome then
      let b1 := st.b.setIfInBounds i (union cfg (st.b.get i) (concatenate (st.a.get i n) (st.b.get n)))
      let a1 := (List.range n).foldl (fun (a : Mat) j =>
        a.set i j (union cfg (a.get i j) (concatenate (a.get i n) (a.get n j)))) st.a
      { a := a1, b := b1 }
    else st) st

theorem outerLoop_spec (cfg : Config) (N n : Nat) (st : ElimState) (hst : StSq N st) (hn : n < N) :
    ∀ m, m ≤ n → StSq N (outerLoop cfg n st m) ∧
      (∀ i j, (outerLoop cfg n st m).a.get i j =
        if i < m ∧ j < n ∧ (st.a.get i n).isSome then union cfg (st.a.get i j) (concatenate (st.a.get i n) (st.a.get n j))
        else st.a.get i j) ∧
      (∀ i, (outerLoop cfg n st m).b.get i =
        if i < m ∧ (st.a.get i n).isSome then union cfg (st.b.get i) (concatenate (st.a.get i n) (st.b.get n))
        else st.b.get i) := by
  intro m
  induction m with
  | zero => intro _; exact ⟨hst, by intro i j; simp [outerLoop], by intro i; simp [outerLoop]⟩
  | succ m ih =>
    intro hm
    obtain ⟨hsq, hA, hB⟩ := ih (by omega)
    have hstep : outerLoop cfg n st (m + 1) =
        (let s := outerLoop cfg n st m
         if (s.a.get m n).isSome then
           { a := innerLoop cfg m n s.a n,
             b := s.b.setIfInBounds m (union cfg (s.b.get m) (concatenate (s.a.get m n) (s.b.get n))) }
         else s) := by
      simp [outerLoop, innerLoop, List.range_succ, List.foldl_append]
    rw [hstep]
    simp only []
    have emn : (outerLoop cfg n st m).a.get m n = st.a.get m n := by rw [hA]; simp
    rw [emn]
    by_cases hc : (st.a.get m n).isSome = true
    · simp only [hc, ite_true]
      obtain ⟨hsq2, hin⟩ := innerLoop_spec cfg N m n (outerLoop cfg n st m).a hsq.a (by omega) hn n (Nat.le_refl n)
      have emj : ∀ j, (outerLoop cfg n st m).a.get m j = st.a.get m j := by intro j; rw [hA]; simp
      have enj : ∀ j, (outerLoop cfg n st m).a.get n j = st.a.get n j := by
        intro j; rw [hA]; have : ¬ n < m := by omega
        simp [this]
      have ebm : (outerLoop cfg n st m).b.get m = st.b.get m := by rw [hB]; simp
      have ebn : (outerLoop cfg n st m).b.get n = st.b.get n := by
        rw [hB]; have : ¬ n < m := by omega
        simp [this]
      refine ⟨⟨hsq2, by simp [hsq.b]⟩, ?_, ?_⟩
      · intro i j
        rw [hin, emj, emn, enj]
        by_cases him : i = m
        · subst him
          by_cases hj : j < n
          · simp [hj, hc]
          · have : ¬ (i < i + 1 ∧ j < n ∧ (st.a.get i n).isSome = true) := fun h => hj h.2.1
            simp only [hj, and_false, ite_false, this]
            rw [hA]; simp
        · simp only [him, false_and, ite_false]
          rw [hA]
          by_cases hlt : i < m
          · have : i < m + 1 := by omega
            simp [hlt, this]
          · have : ¬ i < m + 1 := by omega
            simp [hlt, this]
      · intro i
        rw [Vect.get_set, ebm, ebn, hsq.b]
        by_cases him : i = m
        · subst him
          have : i < N := by omega
          simp [this, hc]
        · simp only [him, false_and, ite_false]
          rw [hB]
          by_cases hlt : i < m
          · have : i < m + 1 := by omega
            simp [hlt, this]
          · have : ¬ i < m + 1 := by omega
            simp [hlt, this]
    · simp only [hc, Bool.false_eq_true, ite_false]
      refine ⟨hsq, ?_, ?_⟩
      · intro i j
        rw [hA]
        by_cases him : i = m
        · subst him; simp [hc]
        · by_cases hlt : i < m
          · have : i < m + 1 := by omega
            simp [hlt, this]
          · have : ¬ i < m + 1 := by omega
            simp [hlt, this]
      · intro i
        rw [hB]
        by_cases him : i = m
        · subst him; simp [hc]
        · by_cases hlt : i < m
          · have : i < m + 1 := by omega
            simp [hlt, this]
          · have : ¬ i < m + 1 := by omega
            simp [hlt, this]

/-- `elimStep` without a self loop is `outerLoop` -/
theorem elimStep_eq (cfg : Config) (st : ElimState) (n : Nat) (hself : st.a.get n n = none) :
    elimStep cfg st n = outerLoop cfg n st n := by
  simp [elimStep, hself, outerLoop]

/-- **the array program of one iteration computes the abstract substitution step** -/
theorem elimStep_abs (cfg : Config) (N n : Nat) (st : ElimState) (hst : StSq N st) (hn : n < N)
    (hself : st.a.get n n = none) :
    StSq N (elimStep cfg st n) ∧
    (∀ i j, (elimStep cfg st n).a.get i j = stepA cfg n (fun i j => st.a.get i j) i j) ∧
    (∀ i, (elimStep cfg st n).b.get i = stepB cfg n (fun i j => st.a.get i j) (fun i => st.b.get i) i) := by
  rw [elimStep_eq cfg st n hself]
  obtain ⟨h1, h2, h3⟩ := outerLoop_spec cfg N n st hst hn n (Nat.le_refl n)
  exact ⟨h1, fun i j => by rw [h2]; rfl, fun i => by rw [h3]; rfl⟩

/-! ### the whole elimination loop -/

/-- the Kleene-star branch is never taken along the run (decidable; evaluated by the driver) -/
def NoSelfAlong (cfg : Config) : ElimState → List Nat → Prop
  | _, [] => True
  | st, n :: ns => st.a.get n n = none ∧ NoSelfAlong cfg (elimStep cfg st n) ns

def absA (st : ElimState) : Nat → Nat → Option Expr := fun i j => st.a.get i j
def absB (st : ElimState) : Nat → Option Expr := fun i => st.b.get i

theorem range_succ_reverse (k : Nat) : (List.range (k + 1)).reverse = k :: (List.range k).reverse := by
  simp [List.range_succ]

/-- **elimination loop** starting from a true system over the first `k ≥ 1` unknowns, eliminating
`k-1, …, 0` leaves in `b[0]` an expression for the language of unknown `0` -/
theorem elim_loop (cfg : Config) (L : Nat → Word → Prop) (N : Nat) :
    ∀ (k : Nat), 1 ≤ k → k ≤ N → ∀ (st : ElimState), StSq N st →
      SysOK L k (absA st) (absB st) → PlainSys (absA st) (absB st) →
      NoSelfAlong cfg st (List.range k).reverse →
      ∀ w, olang (((List.range k).reverse.foldl (elimStep cfg) st).b.get 0) w ↔ L 0 w := by
  intro k
  induction k with
  | zero => intro h; omega
  | succ k ih =>
    intro _ hkN st hst hsys hplain hno w
    rw [range_succ_reverse] at hno ⊢
    simp only [List.foldl_cons]
    obtain ⟨hself, hno'⟩ := hno
    obtain ⟨hst', hA, hB⟩ := elimStep_abs cfg N k st hst (by omega) hself
    have hfunA : absA (elimStep cfg st k) = stepA cfg k (absA st) := by
      funext i j; exact hA i j
    have hfunB : absB (elimStep cfg st k) = stepB cfg k (absA st) (absB st) := by
      funext i; exact hB i
    obtain ⟨hsys', hplain'⟩ := sys_step cfg L k (absA st) (absB st) hsys hself hplain
    by_cases hk : k = 0
    · subst hk
      -- nothing left to eliminate: the loop over `range 0` is empty
      simp only [List.range_zero, List.reverse_nil, List.foldl_nil]
      have hb : (elimStep cfg st 0).b.get 0 = st.b.get 0 := by
        rw [hB]; simp [stepB]
      rw [hb]
      have := hsys 0 (by omega) w
      rw [this]
      constructor
      · intro h; exact Or.inr h
      · rintro (⟨j, hj, u, v, rfl, hu, hv⟩ | h)
        · have : j = 0 := by omega
          subst this
          simp only [absA] at hu
          rw [hself] at hu
          exact absurd hu (by simp [olang])
        · exact h
    · apply ih (by omega) (by omega) (elimStep cfg st k) hst'
      · rw [hfunA, hfunB]; exact hsys'
      · rw [hfunA, hfunB]; exact hplain'
      · exact hno'

end Grexv
