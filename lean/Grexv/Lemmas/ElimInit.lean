import Grexv.Lemmas.Elim
import Grexv.Lemmas.Trie

/-
The initial equation system of `Expression::from` and the final theorem of S7:
the expression computed by state elimination denotes the symbol-level language of the automaton.
-/
set_option linter.unusedSimpArgs false
set_option linter.unusedVariables false
namespace Grexv
open Expr

/-- all edge labels are plain graphemes -/
def Dfa.PlainLabels (d : Dfa) : Prop := ∀ e ∈ d.edges, e.label.Plainish

theorem indexOf?_lt (l : List Nat) (x j : Nat) (h : indexOf? l x = some j) : j < l.length ∧ l[j]? = some x := by
  simp only [indexOf?] at h
  have := List.findIdx?_eq_some_iff_getElem.mp h
  obtain ⟨hj, hx, _⟩ := this
  exact ⟨hj, by simp [List.getElem?_eq_getElem hj]; simpa using hx⟩

/-- one row: afterwards the cells of row `i` contain, in addition, the labels of the given edges -/
theorem initRow_spec (cfg : Config) (N : Nat) (states : List Nat) (hlen : states.length ≤ N) (i : Nat) (hi : i < N)
    (es : List Edge) (hes : ∀ e ∈ es, e.label.Plainish) :
    ∀ (a : Mat), a.Sq N → (∀ i j, OPlain (a.get i j)) →
      (initRow cfg states i es a).Sq N ∧ (∀ i' j', OPlain ((initRow cfg states i es a).get i' j')) ∧
      ∀ i' j' u, olang ((initRow cfg states i es a).get i' j') u ↔
        (olang (a.get i' j') u ∨ (i' = i ∧ ∃ e ∈ es, indexOf? states e.dst = some j' ∧ u = [e.label])) := by
  induction es with
  | nil => intro a hsq hp; exact ⟨hsq, hp, by intro i' j' u; simp [initRow]⟩
  | cons e rest ih =>
    intro a hsq hp
    have hrest : ∀ e ∈ rest, e.label.Plainish := fun x hx => hes x (List.mem_cons_of_mem _ hx)
    have hlab := hes e (List.mem_cons_self)
    have hlitp : OPlain (some (Expr.lit [e.label])) := by
      intro g hg; simp at hg; subst hg; exact hlab
    -- one step
    have hstep : initRow cfg states i (e :: rest) a =
        initRow cfg states i rest (match indexOf? states e.dst with
          | some j => a.set i j (if (a.get i j).isSome then Expr.union cfg (a.get i j) (some (Expr.lit [e.label])) else some (Expr.lit [e.label]))
          | none => a) := by
      rfl
    rw [hstep]
    cases hidx : indexOf? states e.dst with
    | none =>
      simp only []
      obtain ⟨h1, h2, h3⟩ := ih hrest a hsq hp
      refine ⟨h1, h2, ?_⟩
      intro i' j' u
      rw [h3]
      constructor
      · rintro (h | ⟨rfl, x, hx, hxi, rfl⟩)
        · exact Or.inl h
        · exact Or.inr ⟨rfl, x, List.mem_cons_of_mem _ hx, hxi, rfl⟩
      · rintro (h | ⟨rfl, x, hx, hxi, rfl⟩)
        · exact Or.inl h
        · simp only [List.mem_cons] at hx
          rcases hx with rfl | hx
          · rw [hidx] at hxi; simp at hxi
          · exact Or.inr ⟨rfl, x, hx, hxi, rfl⟩
    | some j =>
      simp only []
      have hj : j < N := by have := (indexOf?_lt states e.dst j hidx).1; omega
      let v : Option Expr := if (a.get i j).isSome then Expr.union cfg (a.get i j) (some (Expr.lit [e.label])) else some (Expr.lit [e.label])
      have hv : ∀ u, olang v u ↔ (olang (a.get i j) u ∨ u = [e.label]) := by
        intro u
        simp only [v]
        split
        · rw [union_lang' cfg _ _ (hp i j) hlitp]; simp [olang, Expr.lang]
        · rename_i hnone
          have : a.get i j = none := by
            cases h : a.get i j with
            | none => rfl
            | some x => simp [h] at hnone
          simp [this, olang, Expr.lang]
      have hvp : OPlain v := by
        simp only [v]
        split
        · exact oplain_union cfg _ _ (hp i j) hlitp
        · exact hlitp
      have hsq' := Mat.sq_set hsq i j v
      have hp' : ∀ i' j', OPlain ((a.set i j v).get i' j') := by
        intro i' j'
        rw [Mat.get_set hsq]
        split
        · exact hvp
        · exact hp i' j'
      obtain ⟨h1, h2, h3⟩ := ih hrest (a.set i j v) hsq' hp'
      refine ⟨h1, h2, ?_⟩
      intro i' j' u
      rw [h3, Mat.get_set hsq]
      constructor
      · rintro (h | ⟨rfl, x, hx, hxi, rfl⟩)
        · split at h
          · rename_i hc
            obtain ⟨rfl, rfl, _, _⟩ := hc
            rcases (hv u).mp h with h' | rfl
            · exact Or.inl h'
            · exact Or.inr ⟨rfl, e, List.mem_cons_self, hidx, rfl⟩
          · exact Or.inl h
        · exact Or.inr ⟨rfl, x, List.mem_cons_of_mem _ hx, hxi, rfl⟩
      · rintro (h | ⟨rfl, x, hx, hxi, rfl⟩)
        · left
          split
          · rename_i hc
            obtain ⟨rfl, rfl, _, _⟩ := hc
            exact (hv u).mpr (Or.inl h)
          · exact h
        · simp only [List.mem_cons] at hx
          rcases hx with rfl | hx
          · left
            rw [hidx] at hxi
            simp only [Option.some.injEq] at hxi
            subst hxi
            simp only [hi, hj, and_self, ite_true]
            exact (hv _).mpr (Or.inr rfl)
          · exact Or.inr ⟨rfl, x, hx, hxi, rfl⟩

theorem mem_outEdges (d : Dfa) (s : Nat) (e : Edge) : e ∈ d.outEdges s ↔ e ∈ d.edges ∧ e.src = s := by
  simp [Dfa.outEdges]

theorem mem_zipIdx_ge {l : List Nat} {k s i : Nat} (h : (s, i) ∈ l.zipIdx k) : k ≤ i ∧ i < k + l.length := by
  induction l generalizing k with
  | nil => simp at h
  | cons x xs ih =>
    simp only [List.zipIdx_cons, List.mem_cons, Prod.mk.injEq] at h
    rcases h with ⟨_, rfl⟩ | h
    · simp
    · have := ih h
      simp only [List.length_cons]
      omega

/-- the loop over the states: rows `k ..` are filled with the out-edges of the listed states, `b` with the
empty literal for the final ones -/
theorem initLoop_spec (cfg : Config) (d : Dfa) (hd : d.PlainLabels) (N : Nat) (states : List Nat) (hlen : states.length ≤ N) :
    ∀ (rest : List Nat) (k : Nat), k + rest.length ≤ N → ∀ (st : ElimState), StSq N st → PlainSys (absA st) (absB st) →
      StSq N ((rest.zipIdx k).foldl (initStep cfg d states) st) ∧
      PlainSys (absA ((rest.zipIdx k).foldl (initStep cfg d states) st)) (absB ((rest.zipIdx k).foldl (initStep cfg d states) st)) ∧
      (∀ i j u, olang (((rest.zipIdx k).foldl (initStep cfg d states) st).a.get i j) u ↔ (olang (st.a.get i j) u ∨
        ∃ s, (s, i) ∈ rest.zipIdx k ∧ ∃ e ∈ d.outEdges s, indexOf? states e.dst = some j ∧ u = [e.label])) ∧
      (∀ i, (∃ s, (s, i) ∈ rest.zipIdx k ∧ d.isFinal s = true) →
        ((rest.zipIdx k).foldl (initStep cfg d states) st).b.get i = some (Expr.lit [])) ∧
      (∀ i, (¬ ∃ s, (s, i) ∈ rest.zipIdx k ∧ d.isFinal s = true) →
        ((rest.zipIdx k).foldl (initStep cfg d states) st).b.get i = st.b.get i) := by
  intro rest
  induction rest with
  | nil =>
    intro k _ st hst hp
    exact ⟨hst, hp, by intro i j u; simp, by intro i h; simp at h, by intro i _; rfl⟩
  | cons s rest ih =>
    intro k hk st hst hp
    simp only [List.zipIdx_cons, List.foldl_cons]
    have hkN : k < N := by simp at hk; omega
    have hes : ∀ e ∈ d.outEdges s, e.label.Plainish := by
      intro e he; exact hd e ((mem_outEdges d s e).mp he).1
    obtain ⟨r1, r2, r3⟩ := initRow_spec cfg N states hlen k hkN (d.outEdges s) hes st.a hst.a hp.1
    have hb1 : ∀ i, (initStep cfg d states st (s, k)).b.get i =
        if i = k ∧ d.isFinal s = true then some (Expr.lit []) else st.b.get i := by
      intro i
      simp only [initStep]
      by_cases hf : d.isFinal s = true
      · simp only [hf, ite_true, Vect.get_set, hst.b, hkN, and_true]
      · simp [hf]
    have hst1 : StSq N (initStep cfg d states st (s, k)) := by
      refine ⟨r1, ?_⟩
      simp only [initStep]
      split <;> simp [hst.b]
    have hp1 : PlainSys (absA (initStep cfg d states st (s, k))) (absB (initStep cfg d states st (s, k))) := by
      refine ⟨r2, ?_⟩
      intro i
      simp only [absB, hb1]
      split
      · intro g hg; simp at hg
      · exact hp.2 i
    obtain ⟨q1, q2, q3, q4, q5⟩ := ih (k + 1) (by simp at hk; omega) (initStep cfg d states st (s, k)) hst1 hp1
    refine ⟨q1, q2, ?_, ?_, ?_⟩
    · intro i j u
      rw [q3]
      have : (initStep cfg d states st (s, k)).a = initRow cfg states k (d.outEdges s) st.a := rfl
      rw [this, r3]
      constructor
      · rintro ((h | ⟨rfl, e, he, hi, rfl⟩) | ⟨s', hs', e, he, hi, rfl⟩)
        · exact Or.inl h
        · exact Or.inr ⟨s, by simp, e, he, hi, rfl⟩
        · exact Or.inr ⟨s', by simp [hs'], e, he, hi, rfl⟩
      · rintro (h | ⟨s', hs', e, he, hi, rfl⟩)
        · exact Or.inl (Or.inl h)
        · simp only [List.mem_cons, Prod.mk.injEq] at hs'
          rcases hs' with ⟨rfl, rfl⟩ | hs'
          · exact Or.inl (Or.inr ⟨rfl, e, he, hi, rfl⟩)
          · exact Or.inr ⟨s', hs', e, he, hi, rfl⟩
    · rintro i ⟨s', hs', hf⟩
      simp only [List.mem_cons, Prod.mk.injEq] at hs'
      rcases hs' with ⟨rfl, rfl⟩ | hs'
      · -- index k: written now, never again (later indices are ≥ k+1)
        rw [q5 i (by rintro ⟨s2, hs2, _⟩; have := (mem_zipIdx_ge hs2).1; omega), hb1]
        simp [hf]
      · exact q4 i ⟨s', hs', hf⟩
    · intro i hno
      have hno' : ¬ ∃ s', (s', i) ∈ rest.zipIdx (k + 1) ∧ d.isFinal s' = true := by
        rintro ⟨s', hs', hf⟩; exact hno ⟨s', by simp [hs'], hf⟩
      rw [q5 i hno', hb1]
      have : ¬ (i = k ∧ d.isFinal s = true) := by
        rintro ⟨rfl, hf⟩; exact hno ⟨s, by simp, hf⟩
      simp [this]

/-! ### the theorem of S7 -/

/-- words accepted from state `s` -/
def Dfa.LangFrom (d : Dfa) (s : Nat) (w : Word) : Prop := ∃ t, Dfa.Path d s w t ∧ d.isFinal t = true

/-- what is needed of `states_in_depth_first_order`: it starts with the initial state and is closed under
successors (evaluated by the driver per input; the traversal itself is not verified) -/
structure DfsOK (d : Dfa) (states : List Nat) : Prop where
  head : states.head? = some d.init
  closed : ∀ s ∈ states, ∀ e ∈ d.edges, e.src = s → e.dst ∈ states
  len : states.length ≤ d.nodes

theorem indexOf?_of_mem (l : List Nat) (x : Nat) (h : x ∈ l) : ∃ j, indexOf? l x = some j := by
  simp only [indexOf?]
  cases hf : l.findIdx? (fun y => decide (y = x)) with
  | some j => exact ⟨j, rfl⟩
  | none =>
    rw [List.findIdx?_eq_none_iff] at hf
    have := hf x h
    simp at this

theorem vect_get_replicate (n i : Nat) : Vect.get (Array.replicate n none) i = none := by
  simp only [Vect.get, Array.getElem?_replicate]
  split <;> simp

/-- the system set up by the initialisation loop is true of the path languages -/
theorem init_system (cfg : Config) (d : Dfa) (hd : d.PlainLabels) (states : List Nat) (hdfs : DfsOK d states) :
    let st0 := elimInit cfg d states
    let L : Nat → Word → Prop := fun i w => ∃ s, states[i]? = some s ∧ d.LangFrom s w
    StSq d.nodes st0 ∧ PlainSys (absA st0) (absB st0) ∧ SysOK L d.nodes (absA st0) (absB st0) := by
  simp only []
  have hst00 : StSq d.nodes { a := Array.replicate d.nodes (Array.replicate d.nodes none), b := Array.replicate d.nodes none } :=
    ⟨Mat.sq_replicate d.nodes, by simp⟩
  have hp00 : PlainSys (absA { a := Array.replicate d.nodes (Array.replicate d.nodes none), b := Array.replicate d.nodes none })
      (absB { a := Array.replicate d.nodes (Array.replicate d.nodes none), b := Array.replicate d.nodes none }) := by
    constructor
    · intro i j; simp only [absA, Mat.get_replicate]; trivial
    · intro i; simp only [absB, vect_get_replicate]; trivial
  obtain ⟨h1, h2, h3, h4, h5⟩ := initLoop_spec cfg d hd d.nodes states hdfs.len states 0 (by simpa using hdfs.len) _ hst00 hp00
  refine ⟨h1, h2, ?_⟩
  intro i hi w
  simp only [absA, absB, elimInit]
  constructor
  · rintro ⟨s, hs, t, hpath, hfin⟩
    cases hpath with
    | nil =>
      right
      rw [h4 i ⟨s, by simpa [List.mem_zipIdx_iff_getElem?] using hs, hfin⟩]
      simp [olang, Expr.lang]
    | cons e he hsrc rest =>
      left
      have hmem : s ∈ states := List.mem_of_getElem? hs
      have hdst : e.dst ∈ states := hdfs.closed s hmem e he hsrc
      obtain ⟨j, hj⟩ := indexOf?_of_mem states e.dst hdst
      obtain ⟨hjlt, hjget⟩ := indexOf?_lt states e.dst j hj
      refine ⟨j, by have := hdfs.len; omega, [e.label], _, rfl, ?_, ⟨e.dst, hjget, t, rest, hfin⟩⟩
      rw [h3]
      right
      exact ⟨s, by simpa [List.mem_zipIdx_iff_getElem?] using hs, e, (mem_outEdges d s e).mpr ⟨he, hsrc⟩, hj, rfl⟩
  · rintro (⟨j, hj, u, v, rfl, hu, ⟨s', hs', t, hpath, hfin⟩⟩ | hb)
    · rw [h3] at hu
      rcases hu with hu | ⟨s, hs, e, he, hidx, rfl⟩
      · simp [Mat.get_replicate, olang] at hu
      · have hs2 : states[i]? = some s := by simpa [List.mem_zipIdx_iff_getElem?] using hs
        obtain ⟨_, hjget⟩ := indexOf?_lt states e.dst j hidx
        rw [hjget] at hs'
        simp only [Option.some.injEq] at hs'
        subst hs'
        have he' := (mem_outEdges d s e).mp he
        exact ⟨s, hs2, t, Dfa.Path.cons e he'.1 he'.2 hpath, hfin⟩
    · by_cases hex : ∃ s, (s, i) ∈ states.zipIdx 0 ∧ d.isFinal s = true
      · obtain ⟨s, hs, hf⟩ := hex
        have hs2 : states[i]? = some s := by simpa [List.mem_zipIdx_iff_getElem?] using hs
        rw [h4 i ⟨s, hs, hf⟩] at hb
        simp only [olang, Expr.lang] at hb
        subst hb
        exact ⟨s, hs2, s, Dfa.Path.nil s, hf⟩
      · rw [h5 i hex] at hb
        simp [vect_get_replicate, olang] at hb

/-- **S7** for every automaton whose labels are plain graphemes: if the depth-first order is closed and the
elimination never meets a self loop (both evaluated per input by the driver), the expression in `b[0]`
after the elimination denotes exactly the words the automaton accepts from its initial state -/
theorem elimination_lang (cfg : Config) (d : Dfa) (hd : d.PlainLabels) (hN : 1 ≤ d.nodes) (hdfs : DfsOK d d.dfs)
    (hno : NoSelfAlong cfg (elimInit cfg d d.dfs) (List.range d.nodes).reverse) (w : Word) :
    olang (((List.range d.nodes).reverse.foldl (elimStep cfg) (elimInit cfg d d.dfs)).b.get 0) w ↔ d.LangFrom d.init w := by
  obtain ⟨h1, h2, h3⟩ := init_system cfg d hd d.dfs hdfs
  rw [elim_loop cfg _ d.nodes d.nodes hN (Nat.le_refl _) _ h1 h3 h2 hno w]
  have hhead := hdfs.head
  constructor
  · rintro ⟨s, hs, h⟩
    have : d.dfs[0]? = d.dfs.head? := by cases d.dfs <;> simp
    rw [this, hhead] at hs
    simp only [Option.some.injEq] at hs
    subst hs; exact h
  · intro h
    refine ⟨d.init, ?_, h⟩
    have : d.dfs[0]? = d.dfs.head? := by cases d.dfs <;> simp
    rw [this, hhead]

/-- `Expression::from` returns that expression, or the empty literal when `b[0]` is `None` -/
theorem ofDfa_eq (cfg : Config) (d : Dfa) :
    Expr.ofDfa cfg d =
      (match ((List.range d.nodes).reverse.foldl (elimStep cfg) (elimInit cfg d d.dfs)).b.get 0 with
       | some e => e
       | none => Expr.lit []) := rfl

end Grexv
