import Grexv.Lemmas.PrintHex

/-
`{n}` and `{m,n}` round trip: the decimal text `Repetition` / `RepetitionRange` write is read back by the parser as those counts.
-/
set_option linter.unusedSimpArgs false
set_option linter.unusedVariables false
namespace Grexv
open Spec

/-- decimal digit values of `n`, most significant first -/
def decDigs : Nat → Nat → List Nat
  | 0, _ => []
  | f + 1, n => if n < 10 then [n] else decDigs f (n / 10) ++ [n % 10]

theorem decDigits_eq : ∀ (f n : Nat) (acc : Str), decDigits f n acc = (decDigs f n).map (48 + ·) ++ acc
  | 0, n, acc => by simp [decDigits, decDigs]
  | f + 1, n, acc => by
    unfold decDigits decDigs
    split
    · simp
    · rw [decDigits_eq f (n / 10)]; simp

theorem toDec_eq (n : Nat) : toDec n = (decDigs 64 n).map (48 + ·) := by
  simp [toDec, decDigits_eq]

def decFold (acc : Nat) (ds : List Nat) : Nat := ds.foldl (fun a d => a * 10 + d) acc

theorem decFold_append (acc : Nat) (a b : List Nat) : decFold acc (a ++ b) = decFold (decFold acc a) b := by
  simp [decFold, List.foldl_append]

theorem decDigs_value : ∀ (f n : Nat), n < 10 ^ f → decFold 0 (decDigs f n) = n
  | 0, n, h => by simp at h; subst h; rfl
  | f + 1, n, h => by
    unfold decDigs
    split
    · simp [decFold]
    · have : n / 10 < 10 ^ f := by
        rw [Nat.div_lt_iff_lt_mul (by decide)]
        rw [Nat.pow_succ] at h; exact h
      rw [decFold_append, decDigs_value f (n / 10) this]
      simp only [decFold, List.foldl_cons, List.foldl_nil]
      omega

theorem decDigs_lt : ∀ (f n : Nat), ∀ d ∈ decDigs f n, d < 10
  | 0, n => by simp [decDigs]
  | f + 1, n => by
    unfold decDigs
    split
    · intro d hd; simp only [List.mem_singleton] at hd; omega
    · intro d hd
      simp only [List.mem_append, List.mem_singleton] at hd
      rcases hd with hd | hd
      · exact decDigs_lt f _ d hd
      · omega

theorem decDigs_ne_nil (f n : Nat) : decDigs (f + 1) n ≠ [] := by
  unfold decDigs
  split <;> simp

/-- the parser reads a run of decimal digits up to the first other character -/
theorem parseDecimal_digits (ds : List Nat) (hd : ∀ d ∈ ds, d < 10) (c : Nat) (hc : ¬ (48 ≤ c ∧ c ≤ 57)) (rest : List Nat) :
    ∀ (F : Nat) (acc : Option Nat), ds ≠ [] →
      parseDecimal (F + ds.length + 1) (ds.map (48 + ·) ++ c :: rest) acc = (some (decFold (acc.getD 0) ds), c :: rest) := by
  induction ds with
  | nil => intro F acc h; exact absurd rfl h
  | cons d r ih =>
    intro F acc _
    have hd10 : d < 10 := hd d List.mem_cons_self
    have hr : ∀ x ∈ r, x < 10 := fun x hx => hd x (List.mem_cons_of_mem _ hx)
    have hlen : F + (d :: r).length + 1 = (F + r.length + 1) + 1 := by simp only [List.length_cons]; omega
    rw [hlen]
    simp only [List.map_cons, List.cons_append]
    rw [parseDecimal]
    have hdig : (decide (48 ≤ 48 + d) && decide (48 + d ≤ 57)) = true := by simp; omega
    simp only [hdig, ite_true]
    have hsub : 48 + d - 48 = d := by omega
    rw [hsub]
    by_cases hrn : r = []
    · subst hrn
      simp only [List.map_nil, List.nil_append, List.length_nil, Nat.add_zero]
      rw [parseDecimal]
      have : (decide (48 ≤ c) && decide (c ≤ 57)) = false := by
        simp only [Bool.and_eq_false_iff, decide_eq_false_iff_not]
        by_cases h1 : 48 ≤ c
        · right; intro h2; exact hc ⟨h1, h2⟩
        · left; exact h1
      simp only [this, Bool.false_eq_true, ite_false]
      simp [decFold]
    · rw [ih hr F (some (acc.getD 0 * 10 + d)) hrn]
      simp [decFold]

theorem parseDecimal_toDec (n : Nat) (hn : n < 10 ^ 64) (c : Nat) (hc : ¬ (48 ≤ c ∧ c ≤ 57)) (rest : List Nat) (F : Nat)
    (hF : (toDec n).length + 1 ≤ F) : parseDecimal F (toDec n ++ c :: rest) none = (some n, c :: rest) := by
  rw [toDec_eq] at hF ⊢
  have hne := decDigs_ne_nil 63 n
  obtain ⟨F', rfl⟩ : ∃ F', F = F' + (decDigs 64 n).length + 1 := ⟨F - ((decDigs 64 n).length + 1), by simp at hF; omega⟩
  rw [parseDecimal_digits _ (decDigs_lt 64 n) c hc rest F' none hne]
  simp [decDigs_value 64 n hn]

/-- **`{n}` is read back as the count `n`** -/
theorem parseCounted_exact (n : Nat) (hn : n ≤ 1000) (rest : List Nat) :
    parseCounted false (toDec n ++ 125 :: rest) = some ((n, some n), rest) := by
  have hlt : n < 10 ^ 64 := by
    have : (1000 : Nat) < 10 ^ 64 := by decide
    omega
  unfold parseCounted
  simp only [skipSpace_false]
  rw [parseDecimal_toDec n hlt 125 (by omega) rest _ (by simp)]
  have : ¬ n > 1000 := by omega
  simp [this]

/-- **`{m,n}` is read back as the range `m..n`** -/
theorem parseCounted_range (m n : Nat) (hmn : m ≤ n) (hn : n < 10 ^ 64) (rest : List Nat) :
    parseCounted false (toDec m ++ 44 :: (toDec n ++ 125 :: rest)) = some ((m, some n), rest) := by
  have hm : m < 10 ^ 64 := by omega
  have e1 := parseDecimal_toDec m hm 44 (by omega) (toDec n ++ 125 :: rest)
    ((toDec m ++ 44 :: (toDec n ++ 125 :: rest)).length + 1) (by simp)
  have e2 := parseDecimal_toDec n hn 125 (by omega) rest ((toDec n ++ 125 :: rest).length + 1) (by simp)
  -- the text after the comma starts with a digit, not with the closing brace
  have hne := decDigs_ne_nil 63 n
  have hfirst : ∃ d tl, toDec n ++ 125 :: rest = (48 + d) :: tl ∧ d < 10 := by
    rw [toDec_eq]
    cases hc : decDigs 64 n with
    | nil => exact absurd hc hne
    | cons d tl =>
      refine ⟨d, tl.map (48 + ·) ++ 125 :: rest, by simp, ?_⟩
      exact decDigs_lt 64 n d (by rw [hc]; exact List.mem_cons_self)
  obtain ⟨d, tl, htl, hd⟩ := hfirst
  unfold parseCounted
  simp only [skipSpace_false, e1]
  split
  · rename_i r3 heq
    rw [htl] at heq
    simp only [List.cons.injEq] at heq
    omega
  · simp only [e2]
    have : ¬ n < m := by omega
    simp [this]

end Grexv
