import Grexv.Lemmas.XIndent
import Grexv.Lemmas.PrintParseTop

/-
The text verbose mode prints for an expression is, lexeme by lexeme, the text printed without verbose mode (with the
verbose character escapes) plus line feeds between lexemes: `XL (RV true (verbose text)) (RV true (plain text))`.
-/
set_option linter.unusedSimpArgs false
set_option linter.unusedVariables false
namespace Grexv
open Spec

theorem XL.ne_nil {v u : Str} (h : XL v u) (hu : u ≠ []) : v ≠ [] := by
  cases h <;> simp_all

theorem XL.append {a b : Str} (h1 : XL a b) {c d : Str} (h2 : XL c d) : XL (a ++ c) (b ++ d) := by
  induction h1 with
  | nil => simpa using h2
  | ws x t u hw _ ih => exact XL.ws x _ _ hw ih
  | raw x t u hx h92 h91 h40 h123 _ ih => exact XL.raw x _ _ hx h92 h91 h40 h123 ih
  | esc pre t u hp _ ih =>
    have := XL.esc pre _ _ hp ih
    simpa [List.append_assoc] using this
  | cls b t u hb h1 h2' _ ih =>
    have := XL.cls b _ _ hb h1 h2' ih
    simpa [List.append_assoc] using this
  | lpn t u _ ih => exact XL.lpn _ _ ih
  | lpc t u _ hu ih =>
    obtain ⟨h, r, rfl, hne⟩ := hu
    exact XL.lpc _ _ ih ⟨h, r ++ d, rfl, hne⟩
  | cnt q t u hq _ ih =>
    have := XL.cnt q _ _ hq ih
    simpa [List.append_assoc] using this

/-- a run of complete lexemes without white space: it can be put in front of both texts -/
def Solid (w : Str) : Prop := ∀ {t u : Str}, XL t u → XL (w ++ t) (w ++ u)

theorem Solid.nil : Solid [] := fun h => h
theorem Solid.append {a b : Str} (ha : Solid a) (hb : Solid b) : Solid (a ++ b) := by
  intro t u h
  simpa [List.append_assoc] using ha (hb h)
theorem Solid.flatMap {α : Type} (l : List α) (f : α → Str) (h : ∀ x ∈ l, Solid (f x)) : Solid (l.flatMap f) := by
  induction l with
  | nil => exact Solid.nil
  | cons a as ih =>
    simp only [List.flatMap_cons]
    exact Solid.append (h a List.mem_cons_self) (ih (fun x hx => h x (List.mem_cons_of_mem _ hx)))
theorem Solid.xl {w : Str} (h : Solid w) : XL w w := by simpa using h XL.nil

/-- one raw character or one backslash pair -/
def lexOKb (w : Str) : Bool :=
  match w with
  | [c] => !wsOrHash c && c != 92 && c != 91 && c != 40 && c != 123
  | [92, a] => a != 120 && a != 117 && a != 85 && a != 10
  | _ => false

theorem solid_of_lexOKb (w : Str) (h : lexOKb w = true) : Solid w := by
  unfold lexOKb at h
  split at h
  · rename_i c
    simp only [Bool.and_eq_true, Bool.not_eq_true', bne_iff_ne, ne_eq] at h
    obtain ⟨⟨⟨⟨h1, h2⟩, h3⟩, h4⟩, h5⟩ := h
    intro t u hx
    exact XL.raw c t u h1 h2 h3 h4 h5 hx
  · rename_i a
    simp only [Bool.and_eq_true, bne_iff_ne, ne_eq] at h
    obtain ⟨⟨⟨h1, h2⟩, h3⟩, h4⟩ := h
    intro t u hx
    exact XL.esc [a] t u (EscBody.one a ⟨h1, h2, h3⟩ h4) hx
  · cases h

theorem solid_hex (x : Nat) : Solid ([92, 117, 123] ++ toHex x ++ [125]) := by
  intro t u hx
  have := XL.esc _ t u (EscBody.hex (hexDigs 64 x) (hexDigs_lt 64 x)) hx
  rw [toHex_eq]
  simpa [List.append_assoc] using this

/-- every white-space character above ASCII is on the verbose-mode list -/
theorem ws_nonascii_listed : Gen.stdWhitespace.all (fun r => decide (r.2 < 128) ||
    (List.range' r.1 (r.2 - r.1 + 1)).all (fun c => Gen.verboseSpaces.contains c)) = true := by decide

theorem ws_listed (x : Nat) (hx : 128 ≤ x) (hw : isWs x = true) : Gen.verboseSpaces.contains x = true := by
  unfold isWs inRanges at hw
  obtain ⟨r, hr, hin⟩ := List.any_eq_true.mp hw
  have := List.all_eq_true.mp ws_nonascii_listed r hr
  simp only [Bool.and_eq_true, decide_eq_true_eq] at hin
  simp only [Bool.or_eq_true, decide_eq_true_eq] at this
  rcases this with h | h
  · omega
  · exact List.all_eq_true.mp h x (by rw [List.mem_range'_1]; omega)

theorem pcV_solid_tab : (List.range 128).all (fun x => x == 92 || lexOKb
    (if x = 35 then [92, 35] else if x = 32 then [92, 32] else pc x)) = true := by decide +kernel

theorem solid_pcV (esc : Bool) (x : Nat) (hx : x ≠ 92) : Solid (pcV true esc x) := by
  by_cases h : x < 128
  · rw [pcV_ascii esc x h]
    have := List.all_eq_true.mp pcV_solid_tab x (List.mem_range.mpr h)
    simp only [Bool.or_eq_true, beq_iff_eq] at this
    rcases this with h' | h'
    · exact absurd h' hx
    · exact solid_of_lexOKb _ h'
  · cases esc with
    | true => rw [pcV_nonascii_esc x (by omega)]; exact solid_hex x
    | false =>
      rw [pcV_nonascii_raw x (by omega)]
      split
      · exact solid_hex x
      · rename_i hv
        apply solid_of_lexOKb
        have hw : isWs x = false := by
          cases hws : isWs x with
          | false => rfl
          | true => exact absurd (ws_listed x (by omega) hws) hv
        have h35 : (x == 35) = false := by simp; omega
        simp only [lexOKb, wsOrHash, hw, h35, Bool.or_self, Bool.not_false, Bool.true_and, Bool.and_eq_true, bne_iff_ne, ne_eq]
        omega

/-! ### literals -/

theorem solid_atoms (esc : Bool) : ∀ (as : List Atom), (∀ a ∈ as, AtomOK a) → Solid ((untok as).flatMap (pcV true esc))
  | [], _ => by simpa [untok] using Solid.nil
  | Atom.chr c :: r, h => by
    have hc : c ≠ 92 := (h _ List.mem_cons_self).1
    simp only [untok, List.flatMap_cons]
    exact Solid.append (solid_pcV esc c hc) (solid_atoms esc r (fun a ha => h a (List.mem_cons_of_mem _ ha)))
  | Atom.cls k n :: r, h => by
    simp only [untok, List.flatMap_cons, pcV_92, pcV_letter, ← List.append_assoc]
    refine Solid.append ?_ (solid_atoms esc r (fun a ha => h a (List.mem_cons_of_mem _ ha)))
    apply solid_of_lexOKb
    cases k <;> cases n <;> decide

theorem solid_grapheme (esc : Bool) (as : List Atom) (h : AtomsOK as) :
    Solid (RV true (E esc (escapeSymbols (untok as)))) := by
  rw [R_escapeSymbols true esc as h]
  split
  · exact solid_of_lexOKb _ (by decide)
  · rename_i hs
    rcases h with h | h
    · exact absurd h hs
    · exact solid_atoms esc as h

theorem solid_literal (cap esc : Bool) (c : Cluster) (h : PlainBs c) :
    Solid (RV true (fmtLiteral (cfgPlain cap esc) c)) := by
  rw [R_fmtLiteral true cap esc c h]
  apply Solid.flatMap
  intro g hg
  obtain ⟨as, _, hb, rfl⟩ := h g hg
  rw [value_ofStr]
  exact solid_grapheme esc as hb

/-- the verbose settings that only differ from `cfgPlain` in the layout -/
def cfgV (cap esc : Bool) : Config := { cap := cap, esc := esc, verb := true }

theorem fmtGrapheme_verb (cap esc : Bool) (s : Str) :
    fmtGrapheme (cfgV cap esc) (escapeGrapheme (cfgV cap esc) (Grapheme.ofStr s)) = E esc (escapeSymbols s) := by
  cases esc <;> simp [Grapheme.ofStr, escapeGrapheme, escapeGraphemes, fmtGrapheme, cfgV, Comp.charClass, paint, E]

theorem fmtLiteral_verb (cap esc : Bool) (c : Cluster) (h : PlainBs c) :
    fmtLiteral (cfgV cap esc) c = fmtLiteral (cfgPlain cap esc) c := by
  rw [fmtLiteral_plain cap esc c h]
  unfold fmtLiteral
  induction c with
  | nil => simp
  | cons g gs ih =>
    obtain ⟨as, _, _, rfl⟩ := h g List.mem_cons_self
    have : (Grapheme.ofStr (untok as)).reps.isEmpty = true := by simp [Grapheme.ofStr, Grapheme.reps]
    simp only [List.flatMap_cons, this, Bool.not_true, Bool.false_eq_true, ite_false, fmtGrapheme_verb, value_ofStr]
    rw [ih (fun x hx => h x (List.mem_cons_of_mem _ hx))]

theorem fmtClass_verb (cap esc : Bool) (cs : List Nat) : fmtClass (cfgV cap esc) cs = fmtClass (cfgPlain cap esc) cs := rfl

/-! ### classes -/

def ClsSolid (w : Str) : Prop := ∀ {b : Str}, ClsBody b → ClsBody (w ++ b)

theorem ClsSolid.append {a b : Str} (ha : ClsSolid a) (hb : ClsSolid b) : ClsSolid (a ++ b) := by
  intro c hc
  simpa [List.append_assoc] using ha (hb hc)

def clsOKb (w : Str) : Bool :=
  match w with
  | [c] => !wsOrHash c && c != 93 && c != 92
  | [92, a] => a != 120 && a != 117 && a != 85 && a != 10
  | _ => false

theorem clsSolid_of_ok (w : Str) (h : clsOKb w = true) : ClsSolid w := by
  unfold clsOKb at h
  split at h
  · rename_i c
    simp only [Bool.and_eq_true, Bool.not_eq_true', bne_iff_ne, ne_eq] at h
    obtain ⟨⟨h1, h2⟩, h3⟩ := h
    intro b hb
    exact ClsBody.raw c b h1 h2 h3 hb
  · rename_i a
    simp only [Bool.and_eq_true, bne_iff_ne, ne_eq] at h
    obtain ⟨⟨⟨h1, h2⟩, h3⟩, h4⟩ := h
    intro b hb
    exact ClsBody.esc [a] b (EscBody.one a ⟨h1, h2, h3⟩ h4) hb
  · cases h

theorem clsSolid_hex (x : Nat) : ClsSolid ([92, 117, 123] ++ toHex x ++ [125]) := by
  intro b hb
  have := ClsBody.esc _ b (EscBody.hex (hexDigs 64 x) (hexDigs_lt 64 x)) hb
  rw [toHex_eq]
  simpa [List.append_assoc] using this

theorem pccV_cls_tab : (List.range 128).all (fun x => clsOKb
    (if x = 35 then [92, 35] else if x = 32 then [92, 32] else pcc x)) = true := by decide +kernel

theorem clsSolid_member (x : Nat) : ClsSolid (pccV true x) := by
  by_cases h : x < 128
  · have htab := List.all_eq_true.mp pccV_ascii_tab x (List.mem_range.mpr h)
    simp only [beq_iff_eq] at htab
    rw [htab]
    exact clsSolid_of_ok _ (List.all_eq_true.mp pccV_cls_tab x (List.mem_range.mpr h))
  · rw [pccV_nonascii x (by omega)]
    split
    · exact clsSolid_hex x
    · rename_i hv
      apply clsSolid_of_ok
      have hw : isWs x = false := by
        cases hws : isWs x with
        | false => rfl
        | true => exact absurd (ws_listed x (by omega) hws) hv
      have h35 : (x == 35) = false := by simp; omega
      simp only [clsOKb, wsOrHash, hw, h35, Bool.or_self, Bool.not_false, Bool.true_and, Bool.and_eq_true, bne_iff_ne, ne_eq]
      omega

theorem clsSolid_chunk (c : Chunk) : ClsSolid (chunkText true c) := by
  obtain ⟨lo, o⟩ := c
  cases o with
  | none => exact clsSolid_member lo
  | some hi =>
    simp only [chunkText]
    exact ClsSolid.append (clsSolid_member lo) (ClsSolid.append (clsSolid_of_ok [45] (by decide)) (clsSolid_member hi))

theorem clsBody_chunks : ∀ (cks : List Chunk), ClsBody (cks.flatMap (chunkText true) ++ [93])
  | [] => ClsBody.close
  | c :: cks => by
    simp only [List.flatMap_cons, List.append_assoc]
    exact clsSolid_chunk c (clsBody_chunks cks)

theorem solid_class (cap esc : Bool) (cs : List Nat) (hne : cs ≠ []) :
    Solid (RV true (fmtClass (cfgPlain cap esc) cs)) := by
  rw [fmtClass_text true]
  generalize hck : (runs cs).flatMap runChunks = cks
  have hcne : cks ≠ [] := by
    rw [← hck]
    obtain ⟨_, _, h3, h4⟩ := runs_spec cs
    cases cs with
    | nil => exact absurd rfl hne
    | cons c rest' =>
      obtain ⟨r, rs, hr⟩ := h4 c rest' rfl
      rw [hr]
      simp only [List.flatMap_cons, runChunks]
      split <;> simp
  obtain ⟨c0, cks', rfl⟩ : ∃ c0 cks', cks = c0 :: cks' := by
    cases cks with
    | nil => exact absurd rfl hcne
    | cons a b => exact ⟨a, b, rfl⟩
  have hhead : ∃ h t, (c0 :: cks').flatMap (chunkText true) ++ [93] = h :: t ∧ h ≠ 93 ∧ h ≠ 94 := by
    obtain ⟨lo, o⟩ := c0
    obtain ⟨h, t, m⟩ := memberText true lo
    cases o with
    | none => exact ⟨h, _, by simp only [List.flatMap_cons, chunkText, m.eq, List.cons_append]; rfl, m.h93, m.h94⟩
    | some hi => exact ⟨h, _, by simp only [List.flatMap_cons, chunkText, m.eq, List.cons_append]; rfl, m.h93, m.h94⟩
  obtain ⟨h, t, hht, h93, h94⟩ := hhead
  intro t' u' hx
  have hb := clsBody_chunks (c0 :: cks')
  have := XL.cls _ t' u' hb (by rw [hht]; simpa using h93) (by rw [hht]; simpa using h94) hx
  simpa [List.append_assoc] using this

/-! ### no raw carriage return in the printed text -/

theorem nocr_pcV_tab : (List.range 128).all (fun x => (RV true (core1 x)).all (· != 13)) = true := by decide +kernel

theorem hexDigit_ne_13 : ∀ d, d < 16 → hexDigit d ≠ 13 := by decide

theorem nocr_hex (x : Nat) : 13 ∉ [92, 117, 123] ++ toHex x ++ [125] := by
  intro hc
  simp only [List.mem_append, List.mem_cons, List.mem_nil_iff, or_false] at hc
  rcases hc with ((h | h | h) | hc) | h
  · cases h
  · cases h
  · cases h
  · rw [toHex_eq] at hc
    obtain ⟨d, hd, hd13⟩ := List.mem_map.mp hc
    have hlt : d < 16 := hexDigs_lt 64 x d hd
    exact hexDigit_ne_13 d hlt hd13
  · cases h

theorem nocr_pcV (esc : Bool) (x : Nat) : 13 ∉ pcV true esc x := by
  by_cases h : x < 128
  · unfold pcV
    rw [E_ascii]
    · have := List.all_eq_true.mp nocr_pcV_tab x (List.mem_range.mpr h)
      intro hc
      have := List.all_eq_true.mp this 13 hc
      simp at this
    · have := List.all_eq_true.mp core1_ascii_closed x (List.mem_range.mpr h)
      intro c hc
      simpa using List.all_eq_true.mp this c hc
  · cases esc with
    | true => rw [pcV_nonascii_esc x (by omega)]; exact nocr_hex x
    | false =>
      rw [pcV_nonascii_raw x (by omega)]
      split
      · exact nocr_hex x
      · simp; omega

theorem nocr_grapheme (esc : Bool) (as : List Atom) (h : AtomsOK as) : 13 ∉ RV true (E esc (escapeSymbols (untok as))) := by
  rw [R_escapeSymbols true esc as h]
  split
  · decide
  · intro hc
    obtain ⟨x, _, hx⟩ := List.mem_flatMap.mp hc
    exact nocr_pcV esc x hx

theorem nocr_literal (cap esc : Bool) (c : Cluster) (h : PlainBs c) : 13 ∉ RV true (fmtLiteral (cfgPlain cap esc) c) := by
  rw [R_fmtLiteral true cap esc c h]
  intro hc
  obtain ⟨g, hg, hx⟩ := List.mem_flatMap.mp hc
  obtain ⟨as, _, hb, rfl⟩ := h g hg
  rw [value_ofStr] at hx
  exact nocr_grapheme esc as hb hx

theorem nocr_pccV_tab : (List.range 128).all (fun x => (pccV true x).all (· != 13)) = true := by decide +kernel

theorem nocr_pccV (x : Nat) : 13 ∉ pccV true x := by
  by_cases h : x < 128
  · have := List.all_eq_true.mp nocr_pccV_tab x (List.mem_range.mpr h)
    intro hc
    have := List.all_eq_true.mp this 13 hc
    simp at this
  · rw [pccV_nonascii x (by omega)]
    split
    · exact nocr_hex x
    · simp; omega

theorem nocr_class (cap esc : Bool) (cs : List Nat) : 13 ∉ RV true (fmtClass (cfgPlain cap esc) cs) := by
  rw [fmtClass_text true]
  intro hc
  simp only [List.mem_cons, List.mem_append, List.mem_flatMap, List.mem_singleton] at hc
  rcases hc with h | ⟨ck, _, hck⟩ | h
  · cases h
  · obtain ⟨lo, o⟩ := ck
    cases o with
    | none => exact nocr_pccV lo hck
    | some hi =>
      simp only [chunkText, List.mem_append, List.mem_singleton] at hck
      rcases hck with h | h | h
      · exact nocr_pccV lo h
      · cases h
      · exact nocr_pccV hi h
  · rcases h with h | h
    · cases h
    · cases h

/-! ### expressions -/

/-- `a` is `b` with white space between lexemes, in front of any related continuation; `a` has no raw carriage return -/
structure Rel (a b : Str) : Prop where
  nocr : 13 ∉ a
  xl : ∀ {t u : Str}, XL t u → XL (a ++ t) (b ++ u)

theorem Rel.nil : Rel [] [] := ⟨by simp, fun h => h⟩
theorem Rel.append {a b c d : Str} (h1 : Rel a b) (h2 : Rel c d) : Rel (a ++ c) (b ++ d) :=
  ⟨by simp [h1.nocr, h2.nocr], fun h => by simpa [List.append_assoc] using h1.xl (h2.xl h)⟩
theorem Rel.of_solid {w : Str} (h : Solid w) (hc : 13 ∉ w) : Rel w w := ⟨hc, fun hx => h hx⟩
theorem Rel.lf : Rel [10] [] := ⟨by decide, fun hx => XL.ws 10 _ _ (by decide) hx⟩
theorem Rel.raw (c : Nat) (h : lexOKb [c] = true) : Rel [c] [c] :=
  Rel.of_solid (solid_of_lexOKb _ h) (by
    simp only [lexOKb, Bool.and_eq_true, Bool.not_eq_true'] at h
    intro hc
    simp only [List.mem_singleton] at hc
    subst hc
    revert h; decide)
theorem Rel.toXL {a b : Str} (h : Rel a b) : XL a b := by simpa using h.xl XL.nil

theorem fmtSub_verb_eq (cap esc : Bool) (outer : Nat) (fb : Bool) (e : Expr) :
    fmtSub (cfgV cap esc) outer fb e =
      if parenQ cap esc outer e then
        [10] ++ lp cap ++ [10] ++ fmtExpr (cfgV cap esc) e ++ [10] ++ [41] ++ (if fb then [10] else [])
      else fmtExpr (cfgV cap esc) e := by
  rw [fmtSub]
  have hsc : e.isSingleCodepoint (cfgV cap esc) = e.isSingleCodepoint (cfgPlain cap esc) :=
    isSingleCodepoint_congr (c1 := cfgV cap esc) (c2 := cfgPlain cap esc) rfl e
  rw [hsc]
  by_cases hc : parenQ cap esc outer e = true
  · have hc' : (decide (e.precedence < outer) && !e.isSingleCodepoint (cfgPlain cap esc)) = true := hc
    rw [if_pos hc, if_pos hc']
    cases cap <;> cases fb <;> simp [Comp.paren, Comp.leftParen, Comp.rightParen, cfgV, paint, lp, Gen.strCapturedLeftParen,
      Gen.strUncapturedLeftParen, Gen.strRightParen]
  · have hc' : ¬ (decide (e.precedence < outer) && !e.isSingleCodepoint (cfgPlain cap esc)) = true := hc
    rw [if_neg hc, if_neg hc']

theorem RV_lf : RV true [10] = [10] := by decide
theorem RV_tail (fb : Bool) : RV true (if fb then [10] else []) = (if fb then [10] else []) := by cases fb <;> decide

/-- a parenthesised sub-expression -/
theorem paren_rel (cap fb : Bool) (xv xp : Str) (h : Rel xv xp) (hh : ∃ c r, xp ++ [41] = c :: r ∧ c ≠ 63) :
    Rel ([10] ++ lp cap ++ [10] ++ xv ++ [10] ++ [41] ++ (if fb then [10] else [])) (lp cap ++ (xp ++ [41])) := by
  refine ⟨by cases cap <;> cases fb <;> simp [lp, h.nocr], ?_⟩
  intro t u hx
  have htail : XL ((if fb then [10] else []) ++ t) u := by
    cases fb
    · simpa using hx
    · exact XL.ws 10 _ _ (by decide) hx
  have h41 : XL ([10] ++ [41] ++ (if fb then [10] else []) ++ t) ([41] ++ u) := by
    have := XL.raw 41 _ _ (by decide) (by decide) (by decide) (by decide) (by decide) htail
    simpa using XL.ws 10 _ _ (by decide) this
  have hin : XL ([10] ++ xv ++ ([10] ++ [41] ++ (if fb then [10] else []) ++ t)) (xp ++ ([41] ++ u)) := by
    have := h.xl h41
    simpa using XL.ws 10 _ _ (by decide) this
  obtain ⟨c, r, hcr, hc63⟩ := hh
  have hu : ∃ c' r', xp ++ ([41] ++ u) = c' :: r' ∧ c' ≠ 63 := by
    refine ⟨c, r ++ u, ?_, hc63⟩
    rw [← List.append_assoc, hcr]; rfl
  cases cap with
  | false =>
    have := XL.lpn _ _ hin
    have := XL.ws 10 _ _ (by decide) this
    simpa [lp, List.append_assoc] using this
  | true =>
    have := XL.lpc _ _ hin hu
    have := XL.ws 10 _ _ (by decide) this
    simpa [lp, List.append_assoc] using this

theorem fmtExpr_verb_lit (cap esc : Bool) (c : Cluster) : fmtExpr (cfgV cap esc) (.lit c) = fmtLiteral (cfgV cap esc) c := by
  simp only [fmtExpr]
theorem fmtExpr_verb_cls (cap esc : Bool) (cs : List Nat) : fmtExpr (cfgV cap esc) (.cls cs) = fmtClass (cfgV cap esc) cs := by
  simp only [fmtExpr]

mutual
theorem vx_expr (cap esc : Bool) : ∀ (e : Expr), e.WF →
    Rel (RV true (fmtExpr (cfgV cap esc) e)) (RV true (fmtExpr (cfgPlain cap esc) e))
  | .lit c, h => by
    rw [fmtExpr_verb_lit, fmtLiteral_verb cap esc c h]
    simp only [fmtExpr]
    exact Rel.of_solid (solid_literal cap esc c h) (nocr_literal cap esc c h)
  | .cls cs, h => by
    rw [fmtExpr_verb_cls, fmtClass_verb]
    simp only [fmtExpr]
    exact Rel.of_solid (solid_class cap esc cs h.1) (nocr_class cap esc cs)
  | .cat a b, h => by
    simp only [fmtExpr, RV_append]
    exact Rel.append (vx_sub cap esc 2 true a h.1) (vx_sub cap esc 2 true b h.2)
  | .rep e q, h => by
    obtain ⟨rfl, hnr, hwf⟩ := h
    have hq1 : RV true (Comp.quantifier false true .question) = [63, 10] := by decide
    have hq2 : RV true (Comp.quantifier false false .question) = [63] := by decide
    simp only [fmtExpr, RV_append, cfgV, cfgPlain, hq1, hq2]
    refine Rel.append (vx_sub cap esc 3 false e hwf) ?_
    exact @Rel.append [63] [63] [10] [] (Rel.raw 63 (by decide)) Rel.lf
  | .alt os, h => by
    simp only [fmtExpr]
    exact vx_alt cap esc os h.2
theorem vx_sub (cap esc : Bool) (outer : Nat) (fb : Bool) : ∀ (e : Expr), e.WF →
    Rel (RV true (fmtSub (cfgV cap esc) outer fb e)) (RV true (fmtSub (cfgPlain cap esc) outer fb e))
  | e, h => by
    rw [fmtSub_verb_eq, fmtSub_eq]
    by_cases hp : parenQ cap esc outer e = true
    · simp only [hp, ite_true, RV_append, RV_lp, RV_lf, RV_tail, show RV true [41] = [41] from by decide]
      apply paren_rel cap fb _ _ (vx_expr cap esc e h)
      have hh := (Expr.pp true cap esc e h).head [41] (by simp)
      cases hx : RV true (fmtExpr (cfgPlain cap esc) e) ++ [41] with
      | nil => simp at hx
      | cons c r =>
        rw [hx] at hh
        exact ⟨c, r, rfl, by simpa using hh⟩
    · have hp' : parenQ cap esc outer e = false := by simpa using hp
      simp only [hp', Bool.false_eq_true, ite_false]
      exact vx_expr cap esc e h
theorem vx_alt (cap esc : Bool) : ∀ (os : List Expr), Expr.WFL os →
    Rel (RV true (fmtAlt (cfgV cap esc) os)) (RV true (fmtAlt (cfgPlain cap esc) os))
  | [], _ => by simp only [fmtAlt, RV_nil]; exact Rel.nil
  | [o], h => by
    simp only [fmtAlt]
    exact vx_sub cap esc 1 true o h.2.1
  | o :: o2 :: os, h => by
    have hp1 : RV true ([10] ++ Comp.pipe false ++ [10]) = [10, 124, 10] := by decide
    have hp2 : RV true (Comp.pipe false) = [124] := by decide
    simp only [fmtAlt, cfgV, cfgPlain, ite_true, Bool.false_eq_true, ite_false, RV_append, hp1, hp2]
    refine Rel.append (Rel.append (vx_sub cap esc 1 true o h.2.1) ?_) (vx_alt cap esc (o2 :: os) h.2.2)
    exact @Rel.append [10] [] [124, 10] [124] Rel.lf (@Rel.append [124] [124] [10] [] (Rel.raw 124 (by decide)) Rel.lf)
end

end Grexv
