import Grexv.Lemmas.Hopcroft

/-
S6: what the refinement loop keeps true of the partition itself (bounded, pairwise disjoint, covering,
homogeneous in finality), the initial invariant, and the fuel bound.
-/
set_option linter.unusedSimpArgs false
set_option linter.unusedVariables false
namespace Grexv
namespace Dfa

def Disj (a b : Block) : Prop := ∀ s, s ∈ a → s ∉ b

structure PInv (d : Dfa) (p : List Block) : Prop where
  bounded : ∀ B ∈ p, ∀ s ∈ B, s < d.nodes
  disj : p.Pairwise Disj
  homog : ∀ B ∈ p, ∀ s ∈ B, ∀ s' ∈ B, d.isFinal s = d.isFinal s'
  cover : ∀ s, s < d.nodes → ∃ B ∈ p, s ∈ B

/-- every new block is part of an old one -/
theorem splitAll_sub (x : Block) (p : List Block) (B' : Block) (h : B' ∈ (splitAll x p).1) :
    ∃ Y ∈ p, ∀ s ∈ B', s ∈ Y := by
  obtain ⟨Y, hY, h⟩ := (splitAll_blocks x p B').mp h
  refine ⟨Y, hY, ?_⟩
  rcases h with ⟨_, rfl⟩ | ⟨_, rfl | rfl⟩
  · intro s hs; exact hs
  · intro s hs; exact ((mem_binter x Y s).mp hs).1
  · intro s hs; exact ((mem_bdiff Y x s).mp hs).1

/-- every element of an old block is in a new one -/
theorem splitAll_cover (x : Block) (p : List Block) (Y : Block) (hY : Y ∈ p) (s : Nat) (hs : s ∈ Y) :
    ∃ B' ∈ (splitAll x p).1, s ∈ B' := by
  by_cases hc : (binter x Y).isEmpty = true ∨ (bdiff Y x).isEmpty = true
  · exact ⟨Y, (splitAll_blocks x p Y).mpr ⟨Y, hY, Or.inl ⟨hc, rfl⟩⟩, hs⟩
  · by_cases hx : s ∈ x
    · exact ⟨binter x Y, (splitAll_blocks x p _).mpr ⟨Y, hY, Or.inr ⟨hc, Or.inl rfl⟩⟩, (mem_binter x Y s).mpr ⟨hs, hx⟩⟩
    · exact ⟨bdiff Y x, (splitAll_blocks x p _).mpr ⟨Y, hY, Or.inr ⟨hc, Or.inr rfl⟩⟩, (mem_bdiff Y x s).mpr ⟨hs, hx⟩⟩

theorem splitAll_pairwise (x : Block) (p : List Block) (h : p.Pairwise Disj) : (splitAll x p).1.Pairwise Disj := by
  induction p with
  | nil => simp [splitAll]
  | cons y ys ih =>
    rw [List.pairwise_cons] at h
    obtain ⟨hy, hys⟩ := h
    have ih' := ih hys
    have hsub : ∀ B' ∈ (splitAll x ys).1, ∀ s, s ∈ y → s ∉ B' := by
      intro B' hB' s hs hc
      obtain ⟨Y, hY, hsub⟩ := splitAll_sub x ys B' hB'
      exact hy Y hY s hs (hsub s hc)
    simp only [splitAll]
    split
    · rw [List.pairwise_cons]
      exact ⟨fun B' hB' s hs => hsub B' hB' s hs, ih'⟩
    · rw [List.pairwise_cons, List.pairwise_cons]
      refine ⟨?_, ?_, ih'⟩
      · intro B' hB'
        simp only [List.mem_cons] at hB'
        rcases hB' with rfl | hB'
        · intro s hs hc
          exact ((mem_bdiff y x s).mp hc).2 ((mem_binter x y s).mp hs).2
        · intro s hs; exact hsub B' hB' s ((mem_binter x y s).mp hs).1
      · intro B' hB' s hs; exact hsub B' hB' s ((mem_bdiff y x s).mp hs).1

theorem splitAll_pinv (d : Dfa) (x : Block) (p : List Block) (h : PInv d p) : PInv d (splitAll x p).1 := by
  refine ⟨?_, splitAll_pairwise x p h.disj, ?_, ?_⟩
  · intro B' hB' s hs
    obtain ⟨Y, hY, hsub⟩ := splitAll_sub x p B' hB'
    exact h.bounded Y hY s (hsub s hs)
  · intro B' hB' s hs s' hs'
    obtain ⟨Y, hY, hsub⟩ := splitAll_sub x p B' hB'
    exact h.homog Y hY s (hsub s hs) s' (hsub s' hs')
  · intro s hs
    obtain ⟨Y, hY, hsY⟩ := h.cover s hs
    exact splitAll_cover x p Y hY s hsY

theorem refineByAlphabet_pinv (d : Dfa) (a : Block) (ls : List Grapheme) :
    ∀ (p w : List Block), PInv d p → PInv d (refineByAlphabet d a ls (p, w)).1 := by
  induction ls with
  | nil => intro p w h; exact h
  | cons l rest ih =>
    intro p w h
    simp only [refineByAlphabet]
    exact ih _ _ (splitAll_pinv d _ p h)

theorem refineLoop_pinv (d : Dfa) :
    ∀ (fuel : Nat) (p w : List Block), PInv d p → ∀ p', refineLoop d fuel p w = some p' → PInv d p' := by
  intro fuel
  induction fuel with
  | zero =>
    intro p w h p' hp'
    cases w with
    | nil => simp only [refineLoop, Option.some.injEq] at hp'; subst hp'; exact h
    | cons a w => simp [refineLoop] at hp'
  | succ fuel ih =>
    intro p w h p' hp'
    cases w with
    | nil => simp only [refineLoop, Option.some.injEq] at hp'; subst hp'; exact h
    | cons a w =>
      simp only [refineLoop] at hp'
      exact ih _ _ (refineByAlphabet_pinv d a d.alphabet p w h) p' hp'

theorem initial_pinv (d : Dfa) : PInv d (initialPartition d) := by
  refine ⟨?_, ?_, ?_, ?_⟩
  · intro B hB s hs
    simp only [initialPartition, List.mem_cons, List.mem_nil_iff, or_false] at hB
    rcases hB with rfl | rfl
    · exact List.mem_range.mp (List.mem_filter.mp hs).1
    · exact List.mem_range.mp (List.mem_filter.mp hs).1
  · simp only [initialPartition, List.pairwise_cons, List.mem_cons, List.mem_nil_iff, or_false, forall_eq,
      List.not_mem_nil, false_imp_iff, implies_true, List.Pairwise.nil, and_true]
    intro s hs hc
    have h1 := (List.mem_filter.mp hs).2
    have h2 := (List.mem_filter.mp hc).2
    simp [h2] at h1
  · intro B hB s hs s' hs'
    simp only [initialPartition, List.mem_cons, List.mem_nil_iff, or_false] at hB
    rcases hB with rfl | rfl
    · have h1 := (List.mem_filter.mp hs).2
      have h2 := (List.mem_filter.mp hs').2
      simp only [Bool.not_eq_true'] at h1 h2
      rw [h1, h2]
    · have h1 := (List.mem_filter.mp hs).2
      have h2 := (List.mem_filter.mp hs').2
      rw [h1, h2]
  · intro s hs
    by_cases hf : d.isFinal s = true
    · exact ⟨_, by simp [initialPartition], List.mem_filter.mpr ⟨List.mem_range.mpr hs, hf⟩⟩
    · refine ⟨(List.range d.nodes).filter (fun s => !d.isFinal s), by simp [initialPartition], ?_⟩
      exact List.mem_filter.mpr ⟨List.mem_range.mpr hs, by simpa using hf⟩

/-- with the whole partition as work list the invariant holds at the start -/
theorem inv_initial {d : Dfa} (h : TreeInv d) (p : List Block) (hp : PInv d p) : Inv d p p := by
  intro q q' l hsame hdis
  have tgt : ∀ q t, succ d q l = some t → ∃ B ∈ p, t ∈ B := by
    intro q t hs
    obtain ⟨e, he, _, _, rfl⟩ := (succ_eq_some h q l t).mp hs
    exact hp.cover _ (h.lt e he).2
  cases hs : succ d q l with
  | none =>
    cases hs' : succ d q' l with
    | none => simp [hs, hs', Disagree] at hdis
    | some t' =>
      obtain ⟨B, hB, ht⟩ := tgt q' t' hs'
      exact ⟨B, hB, by simpa [Dist] using ht⟩
  | some t =>
    obtain ⟨B, hB, ht⟩ := tgt q t hs
    cases hs' : succ d q' l with
    | none => exact ⟨B, hB, by simpa [Dist] using ht⟩
    | some t' =>
      simp only [hs, hs', Disagree] at hdis
      refine ⟨B, hB, ?_⟩
      simp only [Dist]
      left
      exact ⟨ht, fun hc => hdis ⟨B, hB, ht, hc⟩⟩

/-! ### removing the empty classes -/

theorem sameBlock_filter (p : List Block) (q q' : Nat) :
    SameBlock (p.filter fun b => !b.isEmpty) q q' ↔ SameBlock p q q' := by
  constructor
  · rintro ⟨B, hB, h1, h2⟩; exact ⟨B, (List.mem_filter.mp hB).1, h1, h2⟩
  · rintro ⟨B, hB, h1, h2⟩
    refine ⟨B, List.mem_filter.mpr ⟨hB, ?_⟩, h1, h2⟩
    cases B with
    | nil => simp at h1
    | cons a as => simp

theorem inv_filter {d : Dfa} {p : List Block} (h : Inv d p []) : Inv d (p.filter fun b => !b.isEmpty) [] := by
  intro q q' l hsame hdis
  apply h q q' l ((sameBlock_filter p q q').mp hsame)
  cases hs : succ d q l with
  | none =>
    cases hs' : succ d q' l with
    | none => simp [hs, hs', Disagree] at hdis
    | some t' => simp [Disagree]
  | some t =>
    cases hs' : succ d q' l with
    | none => simp [Disagree]
    | some t' =>
      simp only [hs, hs', Disagree] at hdis ⊢
      intro hc; exact hdis ((sameBlock_filter p t t').mpr hc)

theorem pinv_filter {d : Dfa} {p : List Block} (h : PInv d p) : PInv d (p.filter fun b => !b.isEmpty) := by
  refine ⟨?_, h.disj.filter _, ?_, ?_⟩
  · intro B hB; exact h.bounded B (List.mem_filter.mp hB).1
  · intro B hB; exact h.homog B (List.mem_filter.mp hB).1
  · intro s hs
    obtain ⟨B, hB, hsB⟩ := h.cover s hs
    refine ⟨B, List.mem_filter.mpr ⟨hB, ?_⟩, hsB⟩
    cases B with
    | nil => simp at hsB
    | cons a as => simp

end Dfa
end Grexv
