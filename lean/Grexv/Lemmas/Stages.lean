import Grexv.Model.RegExp

/-
Shape of a successful run of the model of `RegExp::from`: the stages are what the definitions say, and the
expression kept is one of three.
-/
set_option linter.unusedSimpArgs false
set_option linter.unusedVariables false
namespace Grexv

theorem from_stages_shape (cfg : Config) (env : Env) (ws : List Str) (st : Stages) (h : regExpFrom cfg env ws = .ok st) :
    st.sorted = sortCases (if cfg.ci then lowerCases env ws else ws) ∧
    st.clusters = graphemeClusters cfg env st.sorted ∧ st.trie = Dfa.trie st.clusters ∧
    Dfa.minimize st.trie Dfa.pickMin = some st.minimized ∧ st.firstAst = Expr.ofDfa cfg st.minimized := by
  simp only [regExpFrom] at h
  generalize (if cfg.ci = true then lowerCases env ws else ws) = ws1 at h ⊢
  split at h
  · cases h
  · rename_i dmin hm
    repeat' split at h
    all_goals first
      | (cases h; exact ⟨rfl, rfl, rfl, hm, rfl⟩)
      | cases h

/-- the expression kept is the first candidate, the expression of the unminimised trie, or the plain alternation -/
theorem from_final_three (cfg : Config) (env : Env) (ws : List Str) (st : Stages) (h : regExpFrom cfg env ws = .ok st) :
    st.finalAst = Expr.ofDfa cfg st.minimized ∨ st.finalAst = Expr.ofDfa cfg st.trie ∨
      st.finalAst = Expr.newAlternation (st.clusters.map Expr.lit) := by
  simp only [regExpFrom] at h
  generalize (if cfg.ci = true then lowerCases env ws else ws) = ws1 at h
  split at h
  · cases h
  · repeat' split at h
    all_goals first
      | (cases h; exact Or.inl rfl)
      | (cases h; exact Or.inr (Or.inl rfl))
      | (cases h; exact Or.inr (Or.inr rfl))
      | cases h

/-- with an anchor in place the first candidate is kept -/
theorem from_final_anchored (cfg : Config) (env : Env) (ws : List Str) (st : Stages) (h : regExpFrom cfg env ws = .ok st)
    (ha : (cfg.noStart && cfg.noEnd) = false) : st.finalAst = st.firstAst := by
  simp only [regExpFrom, ha, Bool.false_eq_true, ite_false] at h
  generalize (if cfg.ci = true then lowerCases env ws else ws) = ws1 at h
  split at h
  · cases h
  · cases h; rfl

end Grexv
