import Grexv.Model.Format
import Grexv.Lemmas.SpecSem

/-
Character level of print → parse, for every rest of the input and every parser state: what
`escape_regexp_symbols` (followed by the `\v`/`\f` replacements of `Display for RegExp`) writes for one
code point is read back by the parser as one `chr` item, in one round of its loop.
-/
set_option linter.unusedSimpArgs false
set_option linter.unusedVariables false
namespace Grexv
open Spec

@[simp] theorem skipSpace_false (n : Nat) (s : List Nat) : skipSpace false n s = s := by
  cases n <;> simp [skipSpace]

/-! ### `escape_regexp_symbols` works code point by code point -/

theorem replaceChar_append (c : Nat) (r a b : Str) : replaceChar c r (a ++ b) = replaceChar c r a ++ replaceChar c r b := by
  simp [replaceChar]

theorem replaceChar_flatMap {α : Type} (c : Nat) (r : Str) (l : List α) (f : α → Str) :
    replaceChar c r (l.flatMap f) = l.flatMap (fun x => replaceChar c r (f x)) := by
  induction l with
  | nil => rfl
  | cons a as ih => simp only [List.flatMap_cons, replaceChar_append, ih]

theorem replaceChar_eq_flatMap (c : Nat) (r s : Str) : replaceChar c r s = s.flatMap (fun x => replaceChar c r [x]) := by
  simp [replaceChar]

theorem foldl_replace_flatMap (cs : List Nat) (s : Str) :
    cs.foldl (fun acc c => replaceChar c [92, c] acc) s =
      s.flatMap (fun x => cs.foldl (fun acc c => replaceChar c [92, c] acc) [x]) := by
  induction cs generalizing s with
  | nil => simp
  | cons c cs ih =>
    simp only [List.foldl_cons]
    rw [ih (replaceChar c [92, c] s), replaceChar_eq_flatMap c [92, c] s, List.flatMap_assoc]
    congr 1
    funext x
    rw [ih (replaceChar c [92, c] [x])]

/-- the escaping of one code point (before the single-backslash special case) -/
def core1 (x : Nat) : Str :=
  replaceChar 9 [92, 116] (replaceChar 13 [92, 114] (replaceChar 10 [92, 110]
    (Gen.charsToEscape.foldl (fun acc c => replaceChar c [92, c] acc) [x])))

theorem escapeSymbols_eq (s : Str) :
    escapeSymbols s = if s.flatMap core1 = [92] then [92, 92] else s.flatMap core1 := by
  have : replaceChar 9 [92, 116] (replaceChar 13 [92, 114] (replaceChar 10 [92, 110]
      (Gen.charsToEscape.foldl (fun acc c => replaceChar c [92, c] acc) s))) = s.flatMap core1 := by
    rw [foldl_replace_flatMap, replaceChar_flatMap, replaceChar_flatMap, replaceChar_flatMap]
    rfl
  unfold escapeSymbols
  simp only [this]

/-- the two replacements `Display for RegExp` applies to the whole text when not verbose -/
def R (t : Str) : Str := replaceChar 12 Gen.strFormFeed (replaceChar 11 Gen.strVerticalTab t)

theorem R_append (a b : Str) : R (a ++ b) = R a ++ R b := by simp [R, replaceChar_append]
theorem R_nil : R [] = [] := rfl
theorem R_flatMap {α : Type} (l : List α) (f : α → Str) : R (l.flatMap f) = l.flatMap (fun x => R (f x)) := by
  simp [R, replaceChar_flatMap]

/-- verbose mode rewrites every other white-space character as `\u{…}` -/
def vsp (c : Nat) : Str := if Gen.verboseSpaces.contains c then [92, 117, 123] ++ toHex c ++ [125] else [c]

/-- the character-wise rewriting `Display for RegExp` applies to the whole text: always `\v`, `\f`; in verbose mode also
`#`, the other white space and the blank -/
def RV (v : Bool) (t : Str) : Str :=
  if v then replaceChar 32 Gen.strBlank ((replaceChar 35 Gen.strHash (R t)).flatMap vsp) else R t

theorem RV_false (t : Str) : RV false t = R t := rfl
theorem RV_append (v : Bool) (a b : Str) : RV v (a ++ b) = RV v a ++ RV v b := by
  cases v <;> simp [RV, R_append, replaceChar_append]
theorem RV_nil (v : Bool) : RV v [] = [] := by cases v <;> rfl
theorem RV_flatMap {α : Type} (v : Bool) (l : List α) (f : α → Str) : RV v (l.flatMap f) = l.flatMap (fun x => RV v (f x)) := by
  induction l with
  | nil => exact RV_nil v
  | cons a as ih => simp only [List.flatMap_cons, RV_append, ih]

/-- the final text of one code point -/
def pc (x : Nat) : Str := R (core1 x)

def specials : List Nat := Gen.charsToEscape ++ [9, 10, 13, 11, 12, 92]

theorem pc_ascii_raw : (List.range 128).all (fun x => specials.contains x || pc x == [x]) = true := by decide +kernel

theorem core1_nonascii (x : Nat) (h : 128 ≤ x) : core1 x = [x] := by
  have hne : ∀ d ∈ Gen.charsToEscape, x ≠ d := by
    intro d hd
    simp [Gen.charsToEscape] at hd
    omega
  have h1 : Gen.charsToEscape.foldl (fun acc d => replaceChar d [92, d] acc) [x] = [x] := by
    have : ∀ (l : List Nat), (∀ d ∈ l, x ≠ d) → l.foldl (fun acc d => replaceChar d [92, d] acc) [x] = [x] := by
      intro l
      induction l with
      | nil => intro _; rfl
      | cons d ds ih =>
        intro hl
        have hd : x ≠ d := hl d (List.mem_cons_self)
        simp only [List.foldl_cons]
        have : replaceChar d [92, d] [x] = [x] := by simp [replaceChar, hd]
        rw [this]
        exact ih (fun y hy => hl y (List.mem_cons_of_mem _ hy))
    exact this _ hne
  unfold core1
  rw [h1]
  have a1 : x ≠ 10 := by omega
  have a2 : x ≠ 13 := by omega
  have a3 : x ≠ 9 := by omega
  simp [replaceChar, a1, a2, a3]

theorem pc_raw (x : Nat) (h : x ∉ specials) : pc x = [x] := by
  by_cases hx : x < 128
  · have := List.all_eq_true.mp pc_ascii_raw x (List.mem_range.mpr hx)
    simp only [Bool.or_eq_true, List.contains_iff_mem, beq_iff_eq] at this
    rcases this with h' | h'
    · exact absurd h' h
    · exact h'
  · have hc := core1_nonascii x (by omega)
    have a1 : x ≠ 11 := by omega
    have a2 : x ≠ 12 := by omega
    simp [pc, R, hc, replaceChar, a1, a2]

/-! ### one round of the parser loop -/

theorem step_raw (x : Nat) (h : x ∉ specials) (f : Nat) (rest : List Nat) (st : List Frame) (al co : List Pat) :
    parseLoop false (f + 1) (x :: rest) st al co = parseLoop false f rest st al (Pat.chr x :: co) := by
  simp only [specials, Gen.charsToEscape, List.mem_append, List.mem_cons, List.mem_nil_iff, or_false, not_or] at h
  obtain ⟨⟨h40, h41, h91, h93, h123, h125, h43, h42, h45, h46, h63, h124, h94, h36⟩, h9, h10, h13, h11, h12, h92⟩ := h
  rw [parseLoop]
  simp [h40, h41, h91, h123, h43, h42, h46, h63, h124, h94, h36, h92]

/-- a backslash escape whose letter stands for the code point `v` -/
def escTable : List (Nat × Nat) :=
  [(40, 40), (41, 41), (91, 91), (93, 93), (123, 123), (125, 125), (43, 43), (42, 42), (45, 45), (46, 46), (63, 63),
   (124, 124), (94, 94), (36, 36), (116, 9), (110, 10), (114, 13), (118, 11), (102, 12), (92, 92)]

theorem step_esc (a v : Nat) (hav : (a, v) ∈ escTable) (f : Nat) (rest : List Nat) (st : List Frame) (al co : List Pat) :
    parseLoop false (f + 1) (92 :: a :: rest) st al co = parseLoop false f rest st al (Pat.chr v :: co) := by
  have hpe : parseEscape false (a :: rest) = some (.lit v, rest) := by
    simp only [escTable, List.mem_cons, Prod.mk.injEq, List.mem_nil_iff, or_false] at hav
    rcases hav with ⟨rfl, rfl⟩ | ⟨rfl, rfl⟩ | ⟨rfl, rfl⟩ | ⟨rfl, rfl⟩ | ⟨rfl, rfl⟩ | ⟨rfl, rfl⟩ | ⟨rfl, rfl⟩ | ⟨rfl, rfl⟩ |
      ⟨rfl, rfl⟩ | ⟨rfl, rfl⟩ | ⟨rfl, rfl⟩ | ⟨rfl, rfl⟩ | ⟨rfl, rfl⟩ | ⟨rfl, rfl⟩ | ⟨rfl, rfl⟩ | ⟨rfl, rfl⟩ | ⟨rfl, rfl⟩ |
      ⟨rfl, rfl⟩ | ⟨rfl, rfl⟩ | ⟨rfl, rfl⟩ <;>
    simp [parseEscape, isEscapeable, isMeta, isAlnum]
  rw [parseLoop]
  simp [hpe]

/-- what is printed for each special code point -/
theorem pc_special : (escTable.filter (fun av => av.2 != 92)).all (fun av => pc av.2 == [92, av.1]) = true := by decide +kernel

/-- **one printed code point is one `chr` item** (the backslash is handled at the level of graphemes) -/
theorem lex_char (x : Nat) (hx : x ≠ 92) (f : Nat) (rest : List Nat) (st : List Frame) (al co : List Pat) :
    parseLoop false (f + 1) (pc x ++ rest) st al co = parseLoop false f rest st al (Pat.chr x :: co) := by
  by_cases hs : x ∈ specials
  · simp only [specials, Gen.charsToEscape, List.mem_append, List.mem_cons, List.mem_nil_iff, or_false] at hs
    have key : ∀ a, (a, x) ∈ escTable → pc x = [92, a] →
        parseLoop false (f + 1) (pc x ++ rest) st al co = parseLoop false f rest st al (Pat.chr x :: co) := by
      intro a ha hp
      rw [hp]
      exact step_esc a x ha f rest st al co
    rcases hs with (rfl | rfl | rfl | rfl | rfl | rfl | rfl | rfl | rfl | rfl | rfl | rfl | rfl | rfl) | rfl | rfl | rfl | rfl | rfl | rfl
    · exact key 40 (by decide) (by decide +kernel)
    · exact key 41 (by decide) (by decide +kernel)
    · exact key 91 (by decide) (by decide +kernel)
    · exact key 93 (by decide) (by decide +kernel)
    · exact key 123 (by decide) (by decide +kernel)
    · exact key 125 (by decide) (by decide +kernel)
    · exact key 43 (by decide) (by decide +kernel)
    · exact key 42 (by decide) (by decide +kernel)
    · exact key 45 (by decide) (by decide +kernel)
    · exact key 46 (by decide) (by decide +kernel)
    · exact key 63 (by decide) (by decide +kernel)
    · exact key 124 (by decide) (by decide +kernel)
    · exact key 94 (by decide) (by decide +kernel)
    · exact key 36 (by decide) (by decide +kernel)
    · exact key 116 (by decide) (by decide +kernel)
    · exact key 110 (by decide) (by decide +kernel)
    · exact key 114 (by decide) (by decide +kernel)
    · exact key 118 (by decide) (by decide +kernel)
    · exact key 102 (by decide) (by decide +kernel)
    · exact absurd rfl hx
  · rw [pc_raw x hs]
    exact step_raw x hs f rest st al co

end Grexv
