import Grexv.Lemmas.HopcroftQuot
import Grexv.Lemmas.StrOrder

/-
S5 → S6 glue: the alphabet the trie collects covers every edge label and contains plain graphemes only,
so the unconditional S6 theorem applies to every trie built by S5.
-/
set_option linter.unusedSimpArgs false
set_option linter.unusedVariables false
namespace Grexv
namespace Dfa

theorem cmpStrList_eq (a b : List Str) (h : cmpStrList a b = .eq) : a = b := by
  induction a generalizing b with
  | nil => cases b <;> simp [cmpStrList] at h ⊢
  | cons x xs ih =>
    cases b with
    | nil => simp [cmpStrList] at h
    | cons y ys =>
      simp only [cmpStrList, Ordering.then_eq_eq] at h
      rw [(cmpStr_eq_iff x y).mp h.1, ih ys h.2]

theorem cmp_eq_simple (g h : Grapheme) (hg : g.Simple) (hh : h.Simple) (hc : Grapheme.cmp g h = .eq) : g = h := by
  apply Grapheme.Simple.eq_of_chars hg hh
  cases g with
  | mk c1 r1 a1 b1 =>
    cases h with
    | mk c2 r2 a2 b2 =>
      simp only [Grapheme.cmp, Ordering.then_eq_eq] at hc
      exact cmpStrList_eq _ _ hc.1

theorem alphaInsert_spec (g : Grapheme) (hg : g.Simple) (al : List Grapheme) (hal : ∀ l ∈ al, l.Simple) :
    g ∈ alphaInsert g al ∧ (∀ x ∈ al, x ∈ alphaInsert g al) ∧ (∀ x ∈ alphaInsert g al, x = g ∨ x ∈ al) := by
  induction al with
  | nil => simp [alphaInsert]
  | cons h t ih =>
    have hh := hal h List.mem_cons_self
    have ht : ∀ l ∈ t, l.Simple := fun l hl => hal l (List.mem_cons_of_mem _ hl)
    obtain ⟨i1, i2, i3⟩ := ih ht
    unfold alphaInsert
    cases hc : Grapheme.cmp g h with
    | lt => simp; intro a ha; exact Or.inr (Or.inr ha)
    | eq =>
      have := cmp_eq_simple g h hg hh hc
      subst this
      simp
    | gt =>
      simp only [List.mem_cons]
      refine ⟨Or.inr i1, ?_, ?_⟩
      · rintro x (rfl | hx)
        · exact Or.inl rfl
        · exact Or.inr (i2 x hx)
      · rintro x (rfl | hx)
        · exact Or.inr (Or.inl rfl)
        · rcases i3 x hx with h | h
          · exact Or.inl h
          · exact Or.inr (Or.inr h)

structure AlphaInv (d : Dfa) : Prop where
  covers : AlphabetCovers d
  simple : ∀ l ∈ d.alphabet, l.Simple

theorem step_alpha (d : Dfa) (cur : Nat) (g : Grapheme) (hg : g.Simple) (hd : d.AllSimple) (ha : AlphaInv d)
    (hmem : g ∈ d.alphabet) : AlphaInv (step d cur g).1 := by
  have hout : ∀ e ∈ d.outEdges cur, e.label.Simple := by
    intro e he
    simp only [outEdges, List.mem_reverse, List.mem_filter] at he
    exact hd e he.1
  simp only [step]
  rcases findNext_simple g hg (d.outEdges cur) hout with ⟨h1, _⟩ | ⟨e, he, h1, h2⟩
  · rw [h1]
    refine ⟨?_, ha.simple⟩
    intro e he
    simp only [List.mem_append, List.mem_cons, List.mem_nil_iff, or_false] at he
    rcases he with he | rfl
    · exact ha.covers e he
    · exact hmem
  · rw [h2]; exact ha

theorem foldl_alpha (cl : Cluster) (hcl : ∀ g ∈ cl, g.Simple) :
    ∀ (d : Dfa) (cur : Nat), d.AllSimple → AlphaInv d → AlphaInv (cl.foldl insertFold (d, cur)).1 := by
  induction cl with
  | nil => intro d cur _ ha; exact ha
  | cons g rest ih =>
    intro d cur hd ha
    have hg := hcl g (List.mem_cons_self)
    have hrest : ∀ g ∈ rest, g.Simple := fun x hx => hcl x (List.mem_cons_of_mem _ hx)
    let d0 : Dfa := { d with alphabet := alphaInsert g d.alphabet }
    have hd0 : d0.AllSimple := hd
    obtain ⟨i1, i2, i3⟩ := alphaInsert_spec g hg d.alphabet ha.simple
    have ha0 : AlphaInv d0 := by
      refine ⟨fun e he => i2 _ (ha.covers e he), ?_⟩
      intro l hl
      rcases i3 l hl with rfl | h
      · exact hg
      · exact ha.simple l h
    have hs := step_alpha d0 cur g hg hd0 ha0 i1
    obtain ⟨_, _, hsimple, _⟩ := step_spec d0 cur g hg hd0
    have hfold : (g :: rest).foldl insertFold (d, cur) = rest.foldl insertFold (step d0 cur g) := rfl
    rw [hfold]
    exact ih hrest _ _ hsimple hs

theorem insert_alpha (d : Dfa) (cl : Cluster) (hcl : ∀ g ∈ cl, g.Simple) (hd : d.AllSimple) (ha : AlphaInv d) :
    AlphaInv (insert d cl) := by
  have := foldl_alpha cl hcl d d.init hd ha
  rw [insert_eq]
  exact ⟨this.covers, this.simple⟩

/-- the trie of plain clusters is tree-shaped and its alphabet covers its labels -/
theorem trie_tree_alpha (cls : List Cluster) (hcls : ∀ cl ∈ cls, ∀ g ∈ cl, g.Simple) :
    TreeInv (trie cls) ∧ AlphaInv (trie cls) := by
  suffices h : ∀ (d : Dfa), TreeInv d → (∀ f ∈ d.finals, f < d.nodes) → AlphaInv d →
      TreeInv (cls.foldl insert d) ∧ AlphaInv (cls.foldl insert d) by
    exact h Dfa.empty empty_tree (by intro f hf; simp [Dfa.empty] at hf)
      ⟨by intro e he; simp [Dfa.empty] at he, by intro l hl; simp [Dfa.empty] at hl⟩
  induction cls with
  | nil => intro d hd _ ha; exact ⟨hd, ha⟩
  | cons cl rest ih =>
    intro d hd hfin ha
    have hcl := hcls cl List.mem_cons_self
    obtain ⟨ht, hf, _⟩ := insert_exact d cl hcl hd hfin
    have ha' := insert_alpha d cl hcl hd.simple ha
    exact ih (fun c hc => hcls c (List.mem_cons_of_mem _ hc)) _ ht hf ha'

/-- **S5+S6, no contract** for every list of plain clusters `minimize` succeeds on the trie, and the result
accepts a label sequence iff it is one of the clusters and it is non-empty or the start class was recorded as final -/
theorem minimize_trie (cls : List Cluster) (hcls : ∀ cl ∈ cls, ∀ g ∈ cl, g.Simple) :
    ∃ m, minimize (trie cls) pickMin = some m ∧
      ∀ w, m.Accepts w ↔ (w ∈ cls ∧ (w ≠ [] ∨ m.init ∈ m.finals)) := by
  obtain ⟨ht, ha⟩ := trie_tree_alpha cls hcls
  obtain ⟨m, hm, hacc⟩ := minimize_tree ht ha.covers ha.simple
  refine ⟨m, hm, fun w => ?_⟩
  rw [hacc w, trie_exact cls hcls w]

end Dfa
end Grexv
