import Grexv.Lemmas.SafeR
import Grexv.Lemmas.XStruct
import Grexv.Lemmas.PrintParseRV

/-
Generated from `PrintParseTopR.lean` by `tools/vify.py`: the theorems of the `-r` print → parse chain that mention the character rewriting
`R` of `Display for RegExp`, once more for `RV v` — with `v = true` the rewritings of verbose mode (`\\#`, `\\ `, `\\u{…}` of the other
white space).  The statements and proofs are those of the original file with `R` replaced; definitions are shared.
-/
set_option linter.unusedSimpArgs false
set_option linter.unusedVariables false
namespace Grexv
open Spec

theorem top_parseRV (v : Bool) (cap esc : Bool) (e : Expr) (hwf : e.WFR) (f : Nat) (rest : List Nat) (co : List Pat)
    (hrest : rest.head? ≠ some 63) :
    parseLoop false (f + topToksR cap esc e) (RV v (bodyText (cfgPlain cap esc) e) ++ rest) [] [] co =
      parseLoop false f rest [] [] ((topItemsR cap esc e).reverse ++ co) := by
  have pe := Expr.ppRV v cap esc e hwf
  rw [bodyText_eq, topToksR, topItemsR]
  cases ha : e.isAlt with
  | true =>
    simp only [ite_true, RV_append v, RV_lp v, List.append_assoc]
    have hR41 : RV v [41] = [41] := by cases v <;> decide
    rw [hR41]
    have hfuel : f + ((e.toksR cap esc).2 + 2) = (f + ((e.toksR cap esc).2 + 1)) + 1 := by omega
    rw [hfuel]
    cases cap with
    | true =>
      simp only [lp, ite_true, List.singleton_append, List.cons_append, List.nil_append]
      rw [step_lparen_cap _ _ (pe.head _ (by simp)), pe.body]
      simp
    | false =>
      simp only [lp, Bool.false_eq_true, ite_false, List.cons_append, List.nil_append, List.singleton_append]
      rw [step_lparen_noncap, pe.body]
      simp
  | false =>
    simp only [Bool.false_eq_true, ite_false]
    exact pe.items ha f rest [] [] co (fun _ => hrest)


theorem top_lenRV (v : Bool) (cap esc : Bool) (e : Expr) (hwf : e.WFR) : topToksR cap esc e ≤ (RV v (bodyText (cfgPlain cap esc) e)).length := by
  have pe := Expr.ppRV v cap esc e hwf
  rw [bodyText_eq, topToksR]
  cases ha : e.isAlt with
  | true =>
    simp only [ite_true, RV_append v, RV_lp v, List.length_append]
    have := pe.len2
    have h41 : (RV v [41]).length = 1 := by cases v <;> decide
    have hlp : 1 ≤ (lp cap).length := by cases cap <;> simp [lp]
    omega
  | false =>
    simp only [Bool.false_eq_true, ite_false]
    exact pe.len1 ha


end Grexv
