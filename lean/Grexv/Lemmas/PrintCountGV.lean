import Grexv.Lemmas.SafeR
import Grexv.Lemmas.XStruct

/-
Generated from `PrintCountG.lean` by `tools/vify.py`: the theorems of the `-r` print → parse chain that mention the character rewriting
`R` of `Display for RegExp`, once more for `RV v` — with `v = true` the rewritings of verbose mode (`\\#`, `\\ `, `\\u{…}` of the other
white space).  The statements and proofs are those of the original file with `R` replaced; definitions are shared.
-/
set_option linter.unusedSimpArgs false
set_option linter.unusedVariables false
namespace Grexv
open Spec

theorem RV_quantText (v : Bool) (mn mx : Nat) : RV v (quantText mn mx) = quantText mn mx := by
  have hd : ∀ c, 48 ≤ c ∧ c ≤ 57 → c ≠ 11 ∧ c ≠ 12 ∧ c ≠ 35 ∧ c ≠ 32 ∧ Gen.verboseSpaces.contains c = false := by
    intro c hc
    refine ⟨by omega, by omega, by omega, by omega, ?_⟩
    have : ∀ d, d < 10 → Gen.verboseSpaces.contains (48 + d) = false := by decide
    have := this (c - 48) (by omega)
    rwa [show 48 + (c - 48) = c by omega] at this
  cases v with
  | false => exact R_quantText mn mx
  | true =>
    apply RV_id
    intro c hc
    unfold quantText at hc
    split at hc
    · simp only [List.append_assoc, List.cons_append, List.nil_append, List.mem_cons, List.mem_append, List.mem_nil_iff, or_false] at hc
      rcases hc with rfl | hc | rfl | hc | rfl
      · decide
      · exact hd c (toDec_digits mn c hc)
      · decide
      · exact hd c (toDec_digits mx c hc)
      · decide
    · simp only [List.append_assoc, List.cons_append, List.nil_append, List.mem_cons, List.mem_append, List.mem_nil_iff, or_false] at hc
      rcases hc with rfl | hc | rfl
      · decide
      · exact hd c (toDec_digits mn c hc)
      · decide

theorem lex_unitV (v : Bool) (esc : Bool) : ∀ (ass : List (List Atom)), (∀ as ∈ ass, as ≠ [] ∧ AtomsOK as) →
    ∀ (f : Nat) (rest : List Nat) (st : List Frame) (al co : List Pat),
      parseLoop false (f + unitLen ass) (RV v (unitText esc ass) ++ rest) st al co =
        parseLoop false f rest st al ((unitItems ass).reverse ++ co)
  | [], _, f, rest, st, al, co => by simp [unitLen, unitText, unitItems, RV_nil v]
  | as :: r, h, f, rest, st, al, co => by
    have hr : ∀ x ∈ r, x ≠ [] ∧ AtomsOK x := fun x hx => h x (List.mem_cons_of_mem _ hx)
    have hlen : f + unitLen (as :: r) = (f + unitLen r) + as.length := by simp [unitLen]; omega
    rw [hlen]
    have e1 : RV v (unitText esc (as :: r)) ++ rest = RV v (E esc (escapeSymbols (untok as))) ++ (RV v (unitText esc r) ++ rest) := by
      simp only [unitText, List.flatMap_cons, RV_append v, List.append_assoc, strText]
    rw [e1]
    have := lex_grapheme v esc as (h as List.mem_cons_self).2 (f + unitLen r) (RV v (unitText esc r) ++ rest) st al co
    rw [this, lex_unitV v esc r hr f rest st al ((as.map atomPat).reverse ++ co)]
    simp [unitItems]


/-- **a counted single atom** `x{n}` / `x{m,n}` is read as the repetition of that atom -/
theorem lex_counted_singleV (v : Bool) (cap esc : Bool) (a : Atom) (ha : AtomOK a) (mn mx : Nat) (hc : Counted mn mx) (hb : mx ≤ 1000)
    (f : Nat) (rest : List Nat) (hrest : rest.head? ≠ some 63) (st : List Frame) (al co : List Pat) :
    parseLoop false (f + 2) (RV v (fmtLiteral (cfgPlain cap esc) [gOf [[a]] mn mx]) ++ rest) st al co =
      parseLoop false f rest st al (Pat.rep (atomPat a) mn (some mx) true :: co) := by
  have hok : AssOK [[a]] := ⟨by simp, by
    intro as has
    simp only [List.mem_cons, List.mem_nil_iff, or_false] at has
    subst has
    exact ⟨by simp, Or.inr (by intro x hx; simp at hx; subst hx; exact ha)⟩⟩
  have hne : a ≠ Atom.chr 92 := by
    intro h; rw [h] at ha; exact ha.1 rfl
  rw [fmt_counted cap esc [[a]] hok mn mx hc]
  rw [if_pos ((isSingleChar_iff esc [[a]] hok mn mx).mpr ⟨a, rfl, hne⟩)]
  rw [RV_append v, RV_quantText v, List.append_assoc]
  have h1 := lex_unitV v esc [[a]] hok.2 (f + 1) (quantText mn mx ++ rest) st al co
  simp only [unitLen, List.map_cons, List.map_nil, List.sum_cons, List.sum_nil, List.length_cons, List.length_nil] at h1
  rw [show f + 2 = f + 1 + (0 + 1 + 0) by omega, h1]
  simp only [unitItems, List.flatMap_cons, List.flatMap_nil, List.map_cons, List.map_nil, List.append_nil, List.reverse_cons,
    List.reverse_nil, List.nil_append, List.singleton_append]
  exact step_quant mn mx hc hb f rest hrest _ (quantifiable_atomPat a) co st al


theorem unitText_headV (v : Bool) (esc : Bool) (ass : List (List Atom)) (hok : AssOK ass) (rest : List Nat) :
    (RV v (unitText esc ass) ++ rest).head? ≠ some 63 := by
  obtain ⟨hne, hall⟩ := hok
  cases ass with
  | nil => exact absurd rfl hne
  | cons as r =>
    obtain ⟨h1, h2⟩ := hall as List.mem_cons_self
    obtain ⟨hd, tl, htl, hne63⟩ := R_escape_head v esc as h1 h2
    simp only [unitText, List.flatMap_cons, RV_append v, strText, htl, List.cons_append, List.head?_cons]
    intro hc
    exact hne63 (Option.some.inj hc)


/-- **a counted unit of several atoms** `(?:unit){n}` / `(?:unit){m,n}` (a capturing group when capturing groups are on) is read as the
repetition of the group of its atoms -/
theorem lex_counted_groupV (v : Bool) (cap esc : Bool) (ass : List (List Atom)) (hok : AssOK ass) (hns : ¬ SingleUnit ass) (mn mx : Nat)
    (hc : Counted mn mx) (hb : mx ≤ 1000) (f : Nat) (rest : List Nat) (hrest : rest.head? ≠ some 63) (st : List Frame) (al co : List Pat) :
    parseLoop false (f + unitLen ass + 3) (RV v (fmtLiteral (cfgPlain cap esc) [gOf ass mn mx]) ++ rest) st al co =
      parseLoop false f rest st al (Pat.rep (Pat.grp cap (catList (unitItems ass))) mn (some mx) true :: co) := by
  rw [fmt_counted cap esc ass hok mn mx hc]
  rw [if_neg (fun h => hns ((isSingleChar_iff esc ass hok mn mx).mp h))]
  simp only [RV_append v, RV_quantText v, RV_lp v, List.append_assoc]
  have h41 : RV v [41] = [41] := by cases v <;> decide
  rw [h41]
  have hstep1 : parseLoop false (f + unitLen ass + 3) (lp cap ++ (RV v (unitText esc ass) ++ ([41] ++ (quantText mn mx ++ rest)))) st al co =
      parseLoop false (f + 2 + unitLen ass) (RV v (unitText esc ass) ++ ([41] ++ (quantText mn mx ++ rest))) (⟨cap, al, co⟩ :: st) [] [] := by
    have e : f + unitLen ass + 3 = (f + 2 + unitLen ass) + 1 := by omega
    rw [e]
    cases cap with
    | false => exact step_lparen_noncap _ _ st al co
    | true => exact step_lparen_cap _ _ (unitText_headV v esc ass hok _) st al co
  rw [hstep1, lex_unitV v esc ass hok.2 (f + 2) _ (⟨cap, al, co⟩ :: st) [] []]
  simp only [List.append_nil, List.singleton_append]
  rw [show f + 2 = (f + 1) + 1 by omega, step_rparen, closeFrame_nil]
  exact step_quant mn mx hc hb f rest hrest _ (by simp [Quantifiable]) co st al


theorem unitLen_leV (v : Bool) (esc : Bool) : ∀ (ass : List (List Atom)), (∀ as ∈ ass, as ≠ [] ∧ AtomsOK as) →
    unitLen ass ≤ (RV v (unitText esc ass)).length
  | [], _ => by simp [unitLen]
  | as :: r, h => by
    have ih := unitLen_leV v esc r (fun x hx => h x (List.mem_cons_of_mem _ hx))
    have h1 := R_escape_len v esc as (h as List.mem_cons_self).2
    simp only [unitLen, List.map_cons, List.sum_cons, unitText, List.flatMap_cons, RV_append v, List.length_append, strText] at ih ⊢
    omega


end Grexv
