import Grexv.Lemmas.XStructR
import Grexv.Lemmas.RepPresent
import Grexv.Lemmas.ThreshR

/-
End to end with repetition conversion in verbose mode: the verbose text is accepted under `(?x)` / `(?ix)`, and the compiled pattern
matches exactly what the pattern of the non-verbose build matches.
-/
set_option linter.unusedSimpArgs false
set_option linter.unusedVariables false
namespace Grexv
open Spec

/-- the settings: `-r` with positive thresholds, verbose mode, no surrogate pairs, no colours; class options, `-i`, capturing groups,
`-e` and the anchors are free -/
structure RepVerbose (cfg : Config) : Prop where
  rep : cfg.rep = true
  minRep : 1 ≤ cfg.minRep
  sur : cfg.sur = false
  color : cfg.color = false
  verb : cfg.verb = true

theorem fmtRegExp_repVerbose (cfg : Config) (h : RepVerbose cfg) (e : Expr) :
    fmtRegExp cfg e = fmtRegExp (cfgVerb cfg.cap cfg.esc cfg.ci cfg.noStart cfg.noEnd) e := by
  have hb : bodyText cfg e = bodyText (cfgVerb cfg.cap cfg.esc cfg.ci cfg.noStart cfg.noEnd) e :=
    bodyText_congr (c1 := cfg) (c2 := cfgVerb cfg.cap cfg.esc cfg.ci cfg.noStart cfg.noEnd) ⟨rfl, rfl, h.sur, h.verb, h.color⟩ e
  have hi : ∀ s, indentRegexp cfg s = indentRegexp (cfgVerb cfg.cap cfg.esc cfg.ci cfg.noStart cfg.noEnd) s := by
    intro s
    unfold indentRegexp
    rw [indentLines_congr (c1 := cfg) (c2 := cfgVerb cfg.cap cfg.esc cfg.ci cfg.noStart cfg.noEnd) rfl]
  unfold fmtRegExp
  simp only [h.verb, h.color, hb, hi, cfgVerb, Bool.and_true, ite_true]
  try rfl

/-- **C01 with `-r` in verbose mode, all inputs, any anchors**: whenever `RegExp::from` returns, the verbose text is accepted by the model of
`Regex::new` with the `x` flag (and `i`) set, and the compiled pattern matches in full every string that the atoms of a non-empty
stored test case denote -/
theorem rep_end_to_end_verbose (cfg : Config) (hp : RepVerbose cfg) (env : Env) (ws : List Str) (st : Stages)
    (h : regExpFrom cfg env ws = .ok st) (hseg : ∀ w ∈ storedCases cfg env ws, SegOK env w)
    (hlen : ∀ w ∈ storedCases cfg env ws, (subPieces (env.segOf w)).length ≤ 1000)
    (t : Str) (ht : t ∈ storedCases cfg env ws) (hne : t ≠ []) (s : Str) (hsc : ∀ c ∈ s, Scalar c)
    (hs : atomsDen cfg.ci (t.map (convAtom cfg)) s) :
    ∃ P, Spec.parse (fmtRegExp cfg st.finalAst) = some (⟨cfg.ci, true⟩, P) ∧ Spec.fullMatch cfg.ci P s = true := by
  have hws : ws ≠ [] := by
    intro e
    rw [e] at ht
    unfold storedCases lowerCases at ht
    split at ht <;> simp at ht
  have hwfs := rep_final_wfs_na cfg hp.rep hp.minRep env ws st h hseg hlen hws
  rw [fmtRegExp_repVerbose cfg hp]
  obtain ⟨P, hP, hm⟩ := printed_exact_verboseR cfg.ci cfg.cap cfg.esc cfg.noStart cfg.noEnd st.finalAst hwfs s hsc
  exact ⟨P, hP, hm.mpr (rep_carried cfg hp.rep hp.minRep env ws st h hseg t ht hne s hs)⟩

/-- **validity with `-r` in verbose mode** -/
theorem rep_valid_verbose (cfg : Config) (hp : RepVerbose cfg) (env : Env) (ws : List Str) (st : Stages)
    (h : regExpFrom cfg env ws = .ok st) (hseg : ∀ w ∈ storedCases cfg env ws, SegOK env w)
    (hlen : ∀ w ∈ storedCases cfg env ws, (subPieces (env.segOf w)).length ≤ 1000) (hws : ws ≠ []) :
    ∃ P, Spec.parse (fmtRegExp cfg st.finalAst) = some (⟨cfg.ci, true⟩, P) := by
  have hwfs := rep_final_wfs_na cfg hp.rep hp.minRep env ws st h hseg hlen hws
  rw [fmtRegExp_repVerbose cfg hp]
  obtain ⟨P, hP, _⟩ := printed_exact_verboseR cfg.ci cfg.cap cfg.esc cfg.noStart cfg.noEnd st.finalAst hwfs [] (by simp)
  exact ⟨P, hP⟩

/-- the same settings with verbose mode switched on / off -/
def withVerbR (cfg : Config) (b : Bool) : Config := { cfg with verb := b }

/-- **verbose mode with `-r` is presentation only** (an anchor in place): the verbose build and the build without verbose mode return
texts the model of `Regex::new` accepts (under `(?x)` resp. without it), and the two compiled patterns match exactly the same strings
of scalar values in full -/
theorem rep_verbose_same_language (cfg : Config) (hp : RepPrint cfg) (env : Env) (ws : List Str) (stV st0 : Stages)
    (hV : regExpFrom (withVerbR cfg true) env ws = .ok stV) (h0 : regExpFrom (withVerbR cfg false) env ws = .ok st0)
    (hseg : ∀ w ∈ storedCases cfg env ws, SegOK env w)
    (hlen : ∀ w ∈ storedCases cfg env ws, (subPieces (env.segOf w)).length ≤ 1000) (hne : ∃ t ∈ storedCases cfg env ws, t ≠ [])
    (s : Str) (hs : ∀ c ∈ s, Scalar c) :
    ∃ PV P0, Spec.parse (fmtRegExp (withVerbR cfg true) stV.finalAst) = some (⟨cfg.ci, true⟩, PV) ∧
      Spec.parse (fmtRegExp (withVerbR cfg false) st0.finalAst) = some (⟨cfg.ci, false⟩, P0) ∧
      Spec.fullMatch cfg.ci PV s = Spec.fullMatch cfg.ci P0 s := by
  have hp0 : RepPrint (withVerbR cfg false) := ⟨hp.rep, hp.minRep, hp.sur, rfl, hp.color, hp.anch⟩
  have hpV : RepVerbose (withVerbR cfg true) := ⟨hp.rep, hp.minRep, hp.sur, hp.color, rfl⟩
  have hsame : SameClusterInputs (withVerbR cfg true) (withVerbR cfg false) := ⟨rfl, rfl, rfl, rfl, rfl, rfl, rfl, rfl, rfl, rfl⟩
  obtain ⟨_, _, _, hmin⟩ := minimized_independent hsame env ws stV st0 hV h0
  -- the plain build, exactly
  obtain ⟨P0, p0, m0⟩ := rep_exact (withVerbR cfg false) hp0 env ws st0 h0 hseg hlen hne s hs
  -- the verbose build prints the first candidate as well
  have hwfsV : stV.finalAst.WFS := by
    obtain ⟨t, ht, _⟩ := hne
    have hws : ws ≠ [] := by
      intro e
      rw [e] at ht
      unfold storedCases lowerCases at ht
      split at ht <;> simp at ht
    exact rep_final_wfs_na (withVerbR cfg true) hp.rep hp.minRep env ws stV hV hseg hlen hws
  obtain ⟨PV, pV, mV⟩ := printed_exact_verboseR cfg.ci cfg.cap cfg.esc cfg.noStart cfg.noEnd stV.finalAst hwfsV s hs
  have eV : fmtRegExp (withVerbR cfg true) stV.finalAst = fmtRegExp (cfgVerb cfg.cap cfg.esc cfg.ci cfg.noStart cfg.noEnd) stV.finalAst :=
    fmtRegExp_repVerbose (withVerbR cfg true) hpV stV.finalAst
  rw [← eV] at pV
  refine ⟨PV, P0, pV, p0, ?_⟩
  -- both final expressions are the first candidate of the same minimised automaton
  have hfV := from_final_anchored (withVerbR cfg true) env ws stV hV hp.anch
  have hf0 := from_final_anchored (withVerbR cfg false) env ws st0 h0 hp.anch
  obtain ⟨_, _, _, _, hfirstV⟩ := from_stages_shape (withVerbR cfg true) env ws stV hV
  obtain ⟨_, _, _, _, hfirst0⟩ := from_stages_shape (withVerbR cfg false) env ws st0 h0
  have hsameAst : stV.finalAst = st0.finalAst := by
    rw [hfV, hf0, hfirstV, hfirst0, hmin]
    exact ofDfa_congr (c1 := withVerbR cfg true) (c2 := withVerbR cfg false) rfl _
  -- the plain pattern matches exactly `strLangR` of that expression
  obtain ⟨P0', p0', m0'⟩ := printed_exactAR cfg.ci cfg.cap cfg.esc cfg.noStart cfg.noEnd st0.finalAst (hsameAst ▸ hwfsV) s hs
  have e0 : fmtRegExp (withVerbR cfg false) st0.finalAst =
      ciPrefix cfg.ci ++ fmtRegExp (cfgAnch cfg.cap cfg.esc cfg.noStart cfg.noEnd) st0.finalAst :=
    fmtRegExp_repPrint (withVerbR cfg false) hp0.toNA st0.finalAst
  rw [← e0] at p0'
  have hPP : P0 = P0' := by
    have := p0.symm.trans p0'
    simp only [Option.some.injEq, Prod.mk.injEq] at this
    exact this.2
  subst hPP
  rw [hsameAst] at mV
  have hiff : Spec.fullMatch cfg.ci PV s = true ↔ Spec.fullMatch cfg.ci P0 s = true := mV.trans m0'.symm
  cases h : Spec.fullMatch cfg.ci PV s <;> cases h' : Spec.fullMatch cfg.ci P0 s
  · rfl
  · exact absurd (hiff.mpr h') (by simp [h])
  · exact absurd (hiff.mp h) (by simp [h'])
  · rfl

/-- **C13 with `-r` in verbose mode**: the pattern the regex crate builds from the verbose text honours the thresholds (it is the pattern of
the non-verbose text) -/
theorem rep_thresholds_verbose (cfg : Config) (hp : RepVerbose cfg) (env : Env) (ws : List Str) (st : Stages)
    (h : regExpFrom cfg env ws = .ok st) (hseg : ∀ w ∈ storedCases cfg env ws, SegOK env w)
    (hlen : ∀ w ∈ storedCases cfg env ws, (subPieces (env.segOf w)).length ≤ 1000) (hws : ws ≠ []) :
    ∃ P, Spec.parse (fmtRegExp cfg st.finalAst) = some (⟨cfg.ci, true⟩, P) ∧ Pat.Thresh cfg.minRep cfg.minLen P := by
  have hw : st.finalAst.WFQ (okW cfg) := rep_final_wfq_na cfg hp.rep hp.minRep env ws st h hseg hlen hws
  have hwr := Expr.WFS.toWFR _ (Expr.WFQ.toWFS _ hw)
  rw [fmtRegExp_repVerbose cfg hp]
  refine ⟨_, parse_verboseR cfg.cap cfg.esc cfg.ci cfg.noStart cfg.noEnd st.finalAst hwr, ?_⟩
  obtain ⟨P, hP, hth⟩ := printed_thresh cfg cfg.ci cfg.cap cfg.esc cfg.noStart cfg.noEnd st.finalAst hw
  have hPA := parse_ci_prefixG _ _ (flags_printedAR cfg.cap cfg.esc cfg.noStart cfg.noEnd st.finalAst hwr)
    (parse_printedAR cfg.cap cfg.esc cfg.noStart cfg.noEnd st.finalAst hwr) cfg.ci
  rw [hPA] at hP
  simp only [Option.some.injEq, Prod.mk.injEq, true_and] at hP
  rw [hP]
  exact hth

end Grexv
