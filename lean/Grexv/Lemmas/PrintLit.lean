import Grexv.Lemmas.PrintLex
import Grexv.Lemmas.ToPat

/-
Literal level of print → parse: the text `format_literal` writes for a cluster of plain graphemes (code points
and shorthand-class tokens) is read back atom by atom: one `chr` or `perl` item each.
-/
set_option linter.unusedSimpArgs false
set_option linter.unusedVariables false
namespace Grexv
open Spec

theorem pc_92 : pc 92 = [92] := by decide +kernel

theorem pc_letter (k : ClassKind) (n : Bool) : pc (letterOf k n) = [letterOf k n] := by
  cases k <;> cases n <;> decide +kernel

theorem core1_92 : core1 92 = [92] := by decide +kernel

theorem core1_letter (k : ClassKind) (n : Bool) : core1 (letterOf k n) = [letterOf k n] := by
  cases k <;> cases n <;> decide +kernel

/-- a class token is one `perl` item -/
theorem step_perl (k : ClassKind) (n : Bool) (f : Nat) (rest : List Nat) (st : List Frame) (al co : List Pat) :
    parseLoop false (f + 1) (92 :: letterOf k n :: rest) st al co = parseLoop false f rest st al (Pat.perl k n :: co) := by
  have hpe : parseEscape false (letterOf k n :: rest) = some (.perl k n, rest) := by
    cases k <;> cases n <;> simp [letterOf, parseEscape]
  rw [parseLoop]
  simp [hpe]

theorem lex_atoms (as : List Atom) (h : ∀ a ∈ as, AtomOK a) :
    ∀ (f : Nat) (rest : List Nat) (st : List Frame) (al co : List Pat),
      parseLoop false (f + as.length) ((untok as).flatMap pc ++ rest) st al co =
        parseLoop false f rest st al ((as.map atomPat).reverse ++ co) := by
  induction as with
  | nil => intro f rest st al co; simp [untok]
  | cons a r ih =>
    intro f rest st al co
    have hr : ∀ a ∈ r, AtomOK a := fun x hx => h x (List.mem_cons_of_mem _ hx)
    have hlen : f + (a :: r).length = (f + r.length) + 1 := by simp; omega
    cases a with
    | chr c =>
      have hc : c ≠ 92 := (h _ List.mem_cons_self).1
      rw [hlen]
      simp only [untok, List.flatMap_cons, List.append_assoc]
      rw [lex_char c hc, ih hr]
      simp [atomPat]
    | cls k n =>
      rw [hlen]
      simp only [untok, List.flatMap_cons, List.append_assoc, pc_92, pc_letter, List.singleton_append, List.cons_append, List.nil_append]
      rw [step_perl, ih hr]
      simp [atomPat]

theorem core1_ascii : (List.range 128).all (fun x => x == 92 || (core1 x != [92] && core1 x != [])) = true := by decide +kernel

theorem core1_shape (x : Nat) (hx : x ≠ 92) : core1 x ≠ [92] ∧ core1 x ≠ [] := by
  by_cases h : x < 128
  · have := List.all_eq_true.mp core1_ascii x (List.mem_range.mpr h)
    simp only [Bool.or_eq_true, beq_iff_eq, Bool.and_eq_true, bne_iff_ne, ne_eq] at this
    rcases this with h' | h'
    · exact absurd h' hx
    · exact h'
  · rw [core1_nonascii x (by omega)]
    simp [hx]

theorem flatMap_core1_ne (as : List Atom) (h : ∀ a ∈ as, AtomOK a) : (untok as).flatMap core1 ≠ [92] := by
  cases as with
  | nil => simp [untok]
  | cons a r =>
    cases a with
    | chr x =>
      have hx : x ≠ 92 := (h _ List.mem_cons_self).1
      obtain ⟨h1, h2⟩ := core1_shape x hx
      simp only [untok, List.flatMap_cons]
      intro hc
      match hcx : core1 x with
      | [] => exact h2 hcx
      | [a] =>
        rw [hcx] at hc
        simp only [List.singleton_append, List.cons.injEq] at hc
        exact h1 (by rw [hcx, hc.1])
      | a :: b :: t => rw [hcx] at hc; simp at hc
    | cls k n =>
      simp only [untok, List.flatMap_cons, core1_92, core1_letter]
      intro hc
      simp at hc

theorem R_escapeSymbols (as : List Atom) (h : AtomsOK as) :
    R (escapeSymbols (untok as)) = if as = [Atom.chr 92] then [92, 92] else (untok as).flatMap pc := by
  rw [escapeSymbols_eq]
  rcases h with rfl | h
  · have : (untok [Atom.chr 92]).flatMap core1 = [92] := by decide +kernel
    simp only [this, ite_true]
    decide +kernel
  · have hne : as ≠ [Atom.chr 92] := by
      intro hc; subst hc
      have := (h _ List.mem_cons_self).1
      exact this rfl
    simp only [flatMap_core1_ne as h, hne, ite_false, R_flatMap]
    rfl

/-- **one grapheme** -/
theorem lex_grapheme (as : List Atom) (h : AtomsOK as) (f : Nat) (rest : List Nat) (st : List Frame) (al co : List Pat) :
    parseLoop false (f + as.length) (R (escapeSymbols (untok as)) ++ rest) st al co =
      parseLoop false f rest st al ((as.map atomPat).reverse ++ co) := by
  rw [R_escapeSymbols as h]
  split
  · rename_i hs
    subst hs
    exact step_esc 92 92 (by decide) f rest st al co
  · rename_i hs
    rcases h with h | h
    · exact absurd h hs
    · exact lex_atoms as h f rest st al co

theorem fmtGrapheme_plain (cap : Bool) (s : Str) :
    fmtGrapheme (cfgPlain cap) (escapeGrapheme (cfgPlain cap) (Grapheme.ofStr s)) = escapeSymbols s := by
  simp [Grapheme.ofStr, escapeGrapheme, escapeGraphemes, fmtGrapheme, cfgPlain, Comp.charClass, paint]

theorem fmtLiteral_plain (cap : Bool) (c : Cluster) (h : PlainBs c) :
    fmtLiteral (cfgPlain cap) c = c.flatMap (fun g => escapeSymbols g.value) := by
  unfold fmtLiteral
  induction c with
  | nil => simp
  | cons g gs ih =>
    obtain ⟨as, _, _, rfl⟩ := h g List.mem_cons_self
    have : (Grapheme.ofStr (untok as)).reps.isEmpty = true := by simp [Grapheme.ofStr, Grapheme.reps]
    simp only [List.flatMap_cons, this, Bool.not_true, Bool.false_eq_true, ite_false, fmtGrapheme_plain, value_ofStr]
    rw [ih (fun x hx => h x (List.mem_cons_of_mem _ hx))]

theorem atomsOf_cons (as : List Atom) (h : AtomsOK as) (gs : Cluster) :
    atomsOf (Grapheme.ofStr (untok as) :: gs) = as ++ atomsOf gs := by
  simp [atomsOf, value_ofStr, tokens_untok as h]

/-- **one literal** -/
theorem lex_literal (cap : Bool) (c : Cluster) (h : PlainBs c) :
    ∀ (f : Nat) (rest : List Nat) (st : List Frame) (al co : List Pat),
      parseLoop false (f + (atomsOf c).length) (R (fmtLiteral (cfgPlain cap) c) ++ rest) st al co =
        parseLoop false f rest st al (((atomsOf c).map atomPat).reverse ++ co) := by
  rw [fmtLiteral_plain cap c h]
  induction c with
  | nil => intro f rest st al co; simp [atomsOf, R_nil]
  | cons g gs ih =>
    intro f rest st al co
    obtain ⟨as, _, hok, rfl⟩ := h g List.mem_cons_self
    have hgs : PlainBs gs := fun x hx => h x (List.mem_cons_of_mem _ hx)
    rw [atomsOf_cons as hok gs]
    have hlen : f + (as ++ atomsOf gs).length = (f + (atomsOf gs).length) + as.length := by
      simp; omega
    rw [hlen, List.flatMap_cons, R_append, List.append_assoc, value_ofStr, lex_grapheme as hok, ih hgs]
    simp

end Grexv
