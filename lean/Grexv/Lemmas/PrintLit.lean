import Grexv.Lemmas.PrintLex
import Grexv.Lemmas.ToPat

/-
Literal level of print → parse: the text `format_literal` writes for a cluster of plain graphemes is read
back as the code points of the cluster, one `chr` item each.
-/
set_option linter.unusedSimpArgs false
set_option linter.unusedVariables false
namespace Grexv
open Spec

theorem lex_string (s : Str) (h : 92 ∉ s) :
    ∀ (f : Nat) (rest : List Nat) (st : List Frame) (al co : List Pat),
      parseLoop false (f + s.length) (s.flatMap pc ++ rest) st al co =
        parseLoop false f rest st al ((s.map Pat.chr).reverse ++ co) := by
  induction s with
  | nil => intro f rest st al co; simp
  | cons x xs ih =>
    intro f rest st al co
    have hx : x ≠ 92 := fun hc => h (by simp [hc])
    have hxs : 92 ∉ xs := fun hc => h (List.mem_cons_of_mem _ hc)
    have : f + (x :: xs).length = (f + xs.length) + 1 := by simp; omega
    rw [this, List.flatMap_cons, List.append_assoc, lex_char x hx, ih hxs]
    simp

theorem core1_ascii : (List.range 128).all (fun x => x == 92 || (core1 x != [92] && core1 x != [])) = true := by decide +kernel

theorem core1_shape (x : Nat) (hx : x ≠ 92) : core1 x ≠ [92] ∧ core1 x ≠ [] := by
  by_cases h : x < 128
  · have := List.all_eq_true.mp core1_ascii x (List.mem_range.mpr h)
    simp only [Bool.or_eq_true, beq_iff_eq, Bool.and_eq_true, bne_iff_ne, ne_eq] at this
    rcases this with h' | h'
    · exact absurd h' hx
    · exact h'
  · rw [core1_nonascii x (by omega)]
    simp [hx]

theorem flatMap_core1_ne (s : Str) (h : 92 ∉ s) : s.flatMap core1 ≠ [92] := by
  cases s with
  | nil => simp
  | cons x xs =>
    have hx : x ≠ 92 := fun hc => h (by simp [hc])
    obtain ⟨h1, h2⟩ := core1_shape x hx
    simp only [List.flatMap_cons]
    intro hc
    match hcx : core1 x with
    | [] => exact h2 hcx
    | [a] =>
      rw [hcx] at hc
      simp only [List.singleton_append, List.cons.injEq] at hc
      exact h1 (by rw [hcx, hc.1])
    | a :: b :: r => rw [hcx] at hc; simp at hc

theorem R_escapeSymbols (s : Str) (h : BsOK s) :
    R (escapeSymbols s) = if s = [92] then [92, 92] else s.flatMap pc := by
  rw [escapeSymbols_eq]
  rcases h with rfl | h
  · have : [92].flatMap core1 = [92] := by decide +kernel
    simp only [this, ite_true]
    decide +kernel
  · have hne : s ≠ [92] := by intro hc; subst hc; simp at h
    simp only [flatMap_core1_ne s h, hne, ite_false, R_flatMap]
    rfl

/-- **one grapheme** -/
theorem lex_grapheme (s : Str) (h : BsOK s) (f : Nat) (rest : List Nat) (st : List Frame) (al co : List Pat) :
    parseLoop false (f + s.length) (R (escapeSymbols s) ++ rest) st al co =
      parseLoop false f rest st al ((s.map Pat.chr).reverse ++ co) := by
  rw [R_escapeSymbols s h]
  split
  · rename_i hs
    subst hs
    exact step_esc 92 92 (by decide) f rest st al co
  · rename_i hs
    rcases h with h | h
    · exact absurd h hs
    · exact lex_string s h f rest st al co

theorem fmtGrapheme_plain (cap : Bool) (s : Str) :
    fmtGrapheme (cfgPlain cap) (escapeGrapheme (cfgPlain cap) (Grapheme.ofStr s)) = escapeSymbols s := by
  simp [Grapheme.ofStr, escapeGrapheme, escapeGraphemes, fmtGrapheme, cfgPlain, Comp.charClass, paint]

theorem fmtLiteral_plain (cap : Bool) (c : Cluster) (h : PlainBs c) :
    fmtLiteral (cfgPlain cap) c = c.flatMap (fun g => escapeSymbols g.value) := by
  unfold fmtLiteral
  induction c with
  | nil => simp
  | cons g gs ih =>
    obtain ⟨s, _, _, _, rfl⟩ := h g List.mem_cons_self
    have : (Grapheme.ofStr s).reps.isEmpty = true := by simp [Grapheme.ofStr, Grapheme.reps]
    simp only [List.flatMap_cons, this, Bool.not_true, Bool.false_eq_true, ite_false, fmtGrapheme_plain, value_ofStr]
    rw [ih (fun x hx => h x (List.mem_cons_of_mem _ hx))]

/-- **one literal** -/
theorem lex_literal (cap : Bool) (c : Cluster) (h : PlainBs c) :
    ∀ (f : Nat) (rest : List Nat) (st : List Frame) (al co : List Pat),
      parseLoop false (f + (flat c).length) (R (fmtLiteral (cfgPlain cap) c) ++ rest) st al co =
        parseLoop false f rest st al (((flat c).map Pat.chr).reverse ++ co) := by
  rw [fmtLiteral_plain cap c h]
  induction c with
  | nil => intro f rest st al co; simp [flat, R_nil]
  | cons g gs ih =>
    intro f rest st al co
    obtain ⟨s, _, hb, _, rfl⟩ := h g List.mem_cons_self
    have hgs : PlainBs gs := fun x hx => h x (List.mem_cons_of_mem _ hx)
    have hlen : f + (flat (Grapheme.ofStr s :: gs)).length = (f + (flat gs).length) + s.length := by
      simp [flat, value_ofStr]; omega
    rw [hlen, List.flatMap_cons, R_append, List.append_assoc, value_ofStr, lex_grapheme s hb, ih hgs]
    simp [flat, value_ofStr]

end Grexv
