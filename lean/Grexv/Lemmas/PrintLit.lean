import Grexv.Lemmas.PrintLex
import Grexv.Lemmas.PrintHex
import Grexv.Lemmas.ToPat

/-
Literal level of print → parse: the text `format_literal` writes for a cluster of plain graphemes (code points
and shorthand-class tokens) is read back atom by atom: one `chr` or `perl` item each.
-/
set_option linter.unusedSimpArgs false
set_option linter.unusedVariables false
namespace Grexv
open Spec

/-- the `-e` step of `escape_regexp_symbols` (without surrogate pairs) on a text -/
def E (esc : Bool) (t : Str) : Str := if esc then t.flatMap (fun c => Expr.escapeChar c false) else t

theorem E_append (esc : Bool) (a b : Str) : E esc (a ++ b) = E esc a ++ E esc b := by cases esc <;> simp [E]
theorem E_flatMap {α : Type} (esc : Bool) (l : List α) (f : α → Str) : E esc (l.flatMap f) = l.flatMap (fun x => E esc (f x)) := by
  cases esc
  · simp [E]
  · simp only [E, ite_true, List.flatMap_assoc]

/-- the final text of one code point with or without `-e` -/
def pcE (esc : Bool) (x : Nat) : Str := R (E esc (core1 x))

theorem pcE_false (x : Nat) : pcE false x = pc x := by
  unfold pcE pc E
  rw [if_neg (by decide)]

theorem core1_ascii_closed : (List.range 128).all (fun x => (core1 x).all (· < 128)) = true := by decide +kernel

theorem E_ascii (esc : Bool) (t : Str) (h : ∀ c ∈ t, c < 128) : E esc t = t := by
  cases esc
  · rfl
  · simp only [E, ite_true]
    induction t with
    | nil => rfl
    | cons c r ih =>
      have hc : c < 128 := h c List.mem_cons_self
      have he : Expr.escapeChar c false = [c] := by simp [Expr.escapeChar, hc]
      simp only [List.flatMap_cons, he]
      rw [ih (fun x hx => h x (List.mem_cons_of_mem _ hx))]
      rfl

theorem pcE_ascii (esc : Bool) (x : Nat) (h : x < 128) : pcE esc x = pc x := by
  unfold pcE pc
  rw [E_ascii]
  have := List.all_eq_true.mp core1_ascii_closed x (List.mem_range.mpr h)
  intro c hc
  simpa using List.all_eq_true.mp this c hc

theorem hexDigit_not_vt : ∀ d, d < 16 → hexDigit d ≠ 11 ∧ hexDigit d ≠ 12 := by decide

theorem R_id (t : Str) (h : ∀ c ∈ t, c ≠ 11 ∧ c ≠ 12) : R t = t := by
  induction t with
  | nil => rfl
  | cons c r ih =>
    have hc := h c List.mem_cons_self
    have : R [c] = [c] := by simp [R, replaceChar, hc.1, hc.2]
    have e : c :: r = [c] ++ r := rfl
    rw [e, R_append, this, ih (fun x hx => h x (List.mem_cons_of_mem _ hx))]

theorem pcE_nonascii (x : Nat) (h : 128 ≤ x) : pcE true x = [92, 117, 123] ++ toHex x ++ [125] := by
  have hx : ¬ x < 128 := by omega
  unfold pcE
  rw [core1_nonascii x h]
  simp only [E, ite_true, List.flatMap_cons, List.flatMap_nil, List.append_nil, Expr.escapeChar, hx, ite_false,
    Bool.false_and, Bool.false_eq_true]
  apply R_id
  intro c hc
  simp only [List.mem_append, List.mem_cons, List.mem_nil_iff, or_false] at hc
  rcases hc with ((rfl | rfl | rfl) | hc) | rfl
  · decide
  · decide
  · decide
  · rw [toHex_eq] at hc
    obtain ⟨d, hd, rfl⟩ := List.mem_map.mp hc
    exact hexDigit_not_vt d (hexDigs_lt 64 x d hd)
  · decide

/-- **one printed code point is one `chr` item**, raw, backslash-escaped or as `\u{…}` -/
theorem lex_charE (esc : Bool) (x : Nat) (hx : x ≠ 92) (hs : Scalar x) (f : Nat) (rest : List Nat) (st : List Frame) (al co : List Pat) :
    parseLoop false (f + 1) (pcE esc x ++ rest) st al co = parseLoop false f rest st al (Pat.chr x :: co) := by
  by_cases h : x < 128
  · rw [pcE_ascii esc x h]; exact lex_char x hx f rest st al co
  · cases esc with
    | false => rw [pcE_false]; exact lex_char x hx f rest st al co
    | true =>
      rw [pcE_nonascii x (by omega)]
      have := step_hex x ((scalar_iff x).mpr hs) f rest st al co
      simpa using this

/-! ### verbose mode -/

/-- the final text of one code point: raw, backslash-escaped or `\u{…}`; in verbose mode `#`, blank and other white
space are escaped as well -/
def pcV (v esc : Bool) (x : Nat) : Str := RV v (E esc (core1 x))

theorem pcV_false (esc : Bool) (x : Nat) : pcV false esc x = pcE esc x := rfl

theorem pcV_ascii_tab : (List.range 128).all (fun x => RV true (core1 x) ==
    (if x = 35 then [92, 35] else if x = 32 then [92, 32] else pc x)) = true := by decide +kernel

theorem pcV_ascii (esc : Bool) (x : Nat) (h : x < 128) :
    pcV true esc x = if x = 35 then [92, 35] else if x = 32 then [92, 32] else pc x := by
  unfold pcV
  rw [E_ascii]
  · have := List.all_eq_true.mp pcV_ascii_tab x (List.mem_range.mpr h)
    simpa using this
  · have := List.all_eq_true.mp core1_ascii_closed x (List.mem_range.mpr h)
    intro c hc
    simpa using List.all_eq_true.mp this c hc

theorem vsp_id (c : Nat) (h : Gen.verboseSpaces.contains c = false) : vsp c = [c] := by
  simp only [vsp, h, Bool.false_eq_true, ite_false]

theorem RV_id (t : Str) (h : ∀ c ∈ t, c ≠ 11 ∧ c ≠ 12 ∧ c ≠ 35 ∧ c ≠ 32 ∧ Gen.verboseSpaces.contains c = false) :
    RV true t = t := by
  induction t with
  | nil => rfl
  | cons c r ih =>
    obtain ⟨h11, h12, h35, h32, hv⟩ := h c List.mem_cons_self
    have hone : RV true [c] = [c] := by
      simp [RV, R, replaceChar, h11, h12, h35, h32, vsp_id c hv]
    have e : c :: r = [c] ++ r := rfl
    rw [e, RV_append, hone, ih (fun x hx => h x (List.mem_cons_of_mem _ hx))]

theorem hexDigit_plain : ∀ d, d < 16 → hexDigit d ≠ 11 ∧ hexDigit d ≠ 12 ∧ hexDigit d ≠ 35 ∧ hexDigit d ≠ 32 ∧
    Gen.verboseSpaces.contains (hexDigit d) = false := by decide

theorem hexText_plain (x : Nat) : ∀ c ∈ [92, 117, 123] ++ toHex x ++ [125],
    c ≠ 11 ∧ c ≠ 12 ∧ c ≠ 35 ∧ c ≠ 32 ∧ Gen.verboseSpaces.contains c = false := by
  intro c hc
  simp only [List.mem_append, List.mem_cons, List.mem_nil_iff, or_false] at hc
  rcases hc with ((rfl | rfl | rfl) | hc) | rfl
  · decide
  · decide
  · decide
  · rw [toHex_eq] at hc
    obtain ⟨d, hd, rfl⟩ := List.mem_map.mp hc
    exact hexDigit_plain d (hexDigs_lt 64 x d hd)
  · decide

theorem pcV_nonascii_esc (x : Nat) (h : 128 ≤ x) : pcV true true x = [92, 117, 123] ++ toHex x ++ [125] := by
  have hx : ¬ x < 128 := by omega
  unfold pcV
  rw [core1_nonascii x h]
  simp only [E, ite_true, List.flatMap_cons, List.flatMap_nil, List.append_nil, Expr.escapeChar, hx, ite_false,
    Bool.false_and, Bool.false_eq_true]
  exact RV_id _ (hexText_plain x)

theorem pcV_nonascii_raw (x : Nat) (h : 128 ≤ x) :
    pcV true false x = if Gen.verboseSpaces.contains x then [92, 117, 123] ++ toHex x ++ [125] else [x] := by
  unfold pcV
  rw [core1_nonascii x h]
  have a1 : x ≠ 11 := by omega
  have a2 : x ≠ 12 := by omega
  have a3 : x ≠ 35 := by omega
  have a4 : x ≠ 32 := by omega
  simp only [E, Bool.false_eq_true, ite_false, RV, ite_true, R, replaceChar, List.flatMap_cons, List.flatMap_nil,
    List.append_nil, a1, a2, a3]
  unfold vsp
  split
  · have := hexText_plain x
    have hid : ∀ t : Str, (∀ c ∈ t, c ≠ 32) → t.flatMap (fun c => if c = 32 then Gen.strBlank else [c]) = t := by
      intro t ht
      induction t with
      | nil => rfl
      | cons c r ih =>
        have hc := ht c List.mem_cons_self
        simp only [List.flatMap_cons, hc, ite_false]
        rw [ih (fun y hy => ht y (List.mem_cons_of_mem _ hy))]
        rfl
    exact hid _ (fun c hc => (this c hc).2.2.2.1)
  · simp [a4]

theorem verboseSpaces_not_special : Gen.verboseSpaces.all (fun c => !specials.contains c && decide (128 ≤ c)) = true := by decide

theorem step_esc_hash (f : Nat) (rest : List Nat) (st : List Frame) (al co : List Pat) :
    parseLoop false (f + 1) (92 :: 35 :: rest) st al co = parseLoop false f rest st al (Pat.chr 35 :: co) := by
  rw [parseLoop]; simp [parseEscape, isEscapeable, isMeta, isAlnum]

theorem step_esc_blank (f : Nat) (rest : List Nat) (st : List Frame) (al co : List Pat) :
    parseLoop false (f + 1) (92 :: 32 :: rest) st al co = parseLoop false f rest st al (Pat.chr 32 :: co) := by
  rw [parseLoop]; simp [parseEscape, isEscapeable, isMeta, isAlnum]

/-- **one printed code point is one `chr` item**, also with the verbose-mode escapes -/
theorem lex_charV (v esc : Bool) (x : Nat) (hx : x ≠ 92) (hs : Scalar x) (f : Nat) (rest : List Nat) (st : List Frame) (al co : List Pat) :
    parseLoop false (f + 1) (pcV v esc x ++ rest) st al co = parseLoop false f rest st al (Pat.chr x :: co) := by
  cases v with
  | false => exact lex_charE esc x hx hs f rest st al co
  | true =>
    by_cases h : x < 128
    · rw [pcV_ascii esc x h]
      by_cases h35 : x = 35
      · subst h35; exact step_esc_hash f rest st al co
      · by_cases h32 : x = 32
        · subst h32; exact step_esc_blank f rest st al co
        · simp only [h35, h32, ite_false]; exact lex_char x hx f rest st al co
    · cases esc with
      | true =>
        rw [pcV_nonascii_esc x (by omega)]
        have := step_hex x ((scalar_iff x).mpr hs) f rest st al co
        simpa using this
      | false =>
        rw [pcV_nonascii_raw x (by omega)]
        split
        · have := step_hex x ((scalar_iff x).mpr hs) f rest st al co
          simpa using this
        · have hsp : x ∉ specials := by
            simp only [specials, Gen.charsToEscape, List.mem_append, List.mem_cons, List.mem_nil_iff, or_false]
            omega
          exact step_raw x hsp f rest st al co

theorem pc_92 : pc 92 = [92] := by decide +kernel

theorem pcE_92 (esc : Bool) : pcE esc 92 = [92] := by rw [pcE_ascii esc 92 (by decide)]; exact pc_92

theorem pc_letter (k : ClassKind) (n : Bool) : pc (letterOf k n) = [letterOf k n] := by
  cases k <;> cases n <;> decide +kernel

theorem pcE_letter (esc : Bool) (k : ClassKind) (n : Bool) : pcE esc (letterOf k n) = [letterOf k n] := by
  rw [pcE_ascii esc _ (by cases k <;> cases n <;> decide)]; exact pc_letter k n

theorem pcV_92 (v esc : Bool) : pcV v esc 92 = [92] := by
  cases v
  · exact pcE_92 esc
  · rw [pcV_ascii esc 92 (by decide)]; simp; exact pc_92

theorem pcV_letter (v esc : Bool) (k : ClassKind) (n : Bool) : pcV v esc (letterOf k n) = [letterOf k n] := by
  cases v
  · exact pcE_letter esc k n
  · rw [pcV_ascii esc _ (by cases k <;> cases n <;> decide)]
    have h1 : letterOf k n ≠ 35 := by cases k <;> cases n <;> decide
    have h2 : letterOf k n ≠ 32 := by cases k <;> cases n <;> decide
    simp only [h1, h2, ite_false]
    exact pc_letter k n

theorem core1_92 : core1 92 = [92] := by decide +kernel

theorem core1_letter (k : ClassKind) (n : Bool) : core1 (letterOf k n) = [letterOf k n] := by
  cases k <;> cases n <;> decide +kernel

/-- a class token is one `perl` item -/
theorem step_perl (k : ClassKind) (n : Bool) (f : Nat) (rest : List Nat) (st : List Frame) (al co : List Pat) :
    parseLoop false (f + 1) (92 :: letterOf k n :: rest) st al co = parseLoop false f rest st al (Pat.perl k n :: co) := by
  have hpe : parseEscape false (letterOf k n :: rest) = some (.perl k n, rest) := by
    cases k <;> cases n <;> simp [letterOf, parseEscape]
  rw [parseLoop]
  simp [hpe]

theorem lex_atoms (v esc : Bool) (as : List Atom) (h : ∀ a ∈ as, AtomOK a) :
    ∀ (f : Nat) (rest : List Nat) (st : List Frame) (al co : List Pat),
      parseLoop false (f + as.length) ((untok as).flatMap (pcV v esc) ++ rest) st al co =
        parseLoop false f rest st al ((as.map atomPat).reverse ++ co) := by
  induction as with
  | nil => intro f rest st al co; simp [untok]
  | cons a r ih =>
    intro f rest st al co
    have hr : ∀ a ∈ r, AtomOK a := fun x hx => h x (List.mem_cons_of_mem _ hx)
    have hlen : f + (a :: r).length = (f + r.length) + 1 := by simp; omega
    cases a with
    | chr c =>
      have hc : c ≠ 92 := (h _ List.mem_cons_self).1
      have hsc : Scalar c := (h _ List.mem_cons_self).2
      rw [hlen]
      simp only [untok, List.flatMap_cons, List.append_assoc]
      rw [lex_charV v esc c hc hsc, ih hr]
      simp [atomPat]
    | cls k n =>
      rw [hlen]
      simp only [untok, List.flatMap_cons, List.append_assoc, pcV_92, pcV_letter, List.singleton_append, List.cons_append, List.nil_append]
      rw [step_perl, ih hr]
      simp [atomPat]

theorem core1_ascii : (List.range 128).all (fun x => x == 92 || (core1 x != [92] && core1 x != [])) = true := by decide +kernel

theorem core1_shape (x : Nat) (hx : x ≠ 92) : core1 x ≠ [92] ∧ core1 x ≠ [] := by
  by_cases h : x < 128
  · have := List.all_eq_true.mp core1_ascii x (List.mem_range.mpr h)
    simp only [Bool.or_eq_true, beq_iff_eq, Bool.and_eq_true, bne_iff_ne, ne_eq] at this
    rcases this with h' | h'
    · exact absurd h' hx
    · exact h'
  · rw [core1_nonascii x (by omega)]
    simp [hx]

theorem flatMap_core1_ne (as : List Atom) (h : ∀ a ∈ as, AtomOK a) : (untok as).flatMap core1 ≠ [92] := by
  cases as with
  | nil => simp [untok]
  | cons a r =>
    cases a with
    | chr x =>
      have hx : x ≠ 92 := (h _ List.mem_cons_self).1
      obtain ⟨h1, h2⟩ := core1_shape x hx
      simp only [untok, List.flatMap_cons]
      intro hc
      match hcx : core1 x with
      | [] => exact h2 hcx
      | [a] =>
        rw [hcx] at hc
        simp only [List.singleton_append, List.cons.injEq] at hc
        exact h1 (by rw [hcx, hc.1])
      | a :: b :: t => rw [hcx] at hc; simp at hc
    | cls k n =>
      simp only [untok, List.flatMap_cons, core1_92, core1_letter]
      intro hc
      simp at hc

theorem R_escapeSymbols (v esc : Bool) (as : List Atom) (h : AtomsOK as) :
    RV v (E esc (escapeSymbols (untok as))) = if as = [Atom.chr 92] then [92, 92] else (untok as).flatMap (pcV v esc) := by
  rw [escapeSymbols_eq]
  rcases h with rfl | h
  · have : (untok [Atom.chr 92]).flatMap core1 = [92] := by decide +kernel
    simp only [this, ite_true]
    rw [E_ascii esc _ (by decide)]
    cases v <;> decide +kernel
  · have hne : as ≠ [Atom.chr 92] := by
      intro hc; subst hc
      have := (h _ List.mem_cons_self).1
      exact this rfl
    simp only [flatMap_core1_ne as h, hne, ite_false, E_flatMap, RV_flatMap]
    rfl

/-- **one grapheme** -/
theorem lex_grapheme (v esc : Bool) (as : List Atom) (h : AtomsOK as) (f : Nat) (rest : List Nat) (st : List Frame) (al co : List Pat) :
    parseLoop false (f + as.length) (RV v (E esc (escapeSymbols (untok as))) ++ rest) st al co =
      parseLoop false f rest st al ((as.map atomPat).reverse ++ co) := by
  rw [R_escapeSymbols v esc as h]
  split
  · rename_i hs
    subst hs
    exact step_esc 92 92 (by decide) f rest st al co
  · rename_i hs
    rcases h with h | h
    · exact absurd h hs
    · exact lex_atoms v esc as h f rest st al co

theorem fmtGrapheme_plain (cap esc : Bool) (s : Str) :
    fmtGrapheme (cfgPlain cap esc) (escapeGrapheme (cfgPlain cap esc) (Grapheme.ofStr s)) = E esc (escapeSymbols s) := by
  cases esc <;> simp [Grapheme.ofStr, escapeGrapheme, escapeGraphemes, fmtGrapheme, cfgPlain, Comp.charClass, paint, E]

theorem fmtLiteral_plain (cap esc : Bool) (c : Cluster) (h : PlainBs c) :
    fmtLiteral (cfgPlain cap esc) c = c.flatMap (fun g => E esc (escapeSymbols g.value)) := by
  unfold fmtLiteral
  induction c with
  | nil => simp
  | cons g gs ih =>
    obtain ⟨as, _, _, rfl⟩ := h g List.mem_cons_self
    have : (Grapheme.ofStr (untok as)).reps.isEmpty = true := by simp [Grapheme.ofStr, Grapheme.reps]
    simp only [List.flatMap_cons, this, Bool.not_true, Bool.false_eq_true, ite_false, fmtGrapheme_plain, value_ofStr]
    rw [ih (fun x hx => h x (List.mem_cons_of_mem _ hx))]

theorem atomsOf_cons (as : List Atom) (h : AtomsOK as) (gs : Cluster) :
    atomsOf (Grapheme.ofStr (untok as) :: gs) = as ++ atomsOf gs := by
  simp [atomsOf, value_ofStr, tokens_untok as h]

/-- **one literal** -/
theorem lex_literal (v cap esc : Bool) (c : Cluster) (h : PlainBs c) :
    ∀ (f : Nat) (rest : List Nat) (st : List Frame) (al co : List Pat),
      parseLoop false (f + (atomsOf c).length) (RV v (fmtLiteral (cfgPlain cap esc) c) ++ rest) st al co =
        parseLoop false f rest st al (((atomsOf c).map atomPat).reverse ++ co) := by
  rw [fmtLiteral_plain cap esc c h]
  induction c with
  | nil => intro f rest st al co; simp [atomsOf, RV_nil]
  | cons g gs ih =>
    intro f rest st al co
    obtain ⟨as, _, hok, rfl⟩ := h g List.mem_cons_self
    have hgs : PlainBs gs := fun x hx => h x (List.mem_cons_of_mem _ hx)
    rw [atomsOf_cons as hok gs]
    have hlen : f + (as ++ atomsOf gs).length = (f + (atomsOf gs).length) + as.length := by
      simp; omega
    rw [hlen, List.flatMap_cons, RV_append, List.append_assoc, value_ofStr, lex_grapheme v esc as hok, ih hgs]
    simp

end Grexv
