import Grexv.Lemmas.PrintCountG

/-
Literals with counted graphemes (`-r`), printed and read back: graphemes as S2–S4 and the widening merge produce them — plain, counted,
counted with nested repetitions — are printed by `Display for Grapheme` as `text`, `x{m,n}`, `(?:unit){m,n}` (the unit possibly made of
counted graphemes again), and the parser reads the items `gItems` computes.
-/
set_option linter.unusedSimpArgs false
set_option linter.unusedVariables false
namespace Grexv
open Spec

/-- the strings of the unit are one string of one atom other than the lone backslash -/
def singleB (chars : List Str) : Bool :=
  match chars with
  | [s] => (match tokens s with | [a] => a != Atom.chr 92 | _ => false)
  | _ => false

mutual
/-- the items the parser reads from the text of a grapheme -/
def gItems (cap : Bool) : Grapheme → List Pat
  | .mk chars reps mn mx =>
    let atoms := chars.flatMap fun s => tokens s
    if mn = 1 ∧ mx = 1 then atoms.map atomPat
    else
      let body : Pat :=
        if reps.isEmpty then
          (if singleB chars then (match atoms with | [a] => atomPat a | _ => Pat.eps) else Pat.grp cap (catList (atoms.map atomPat)))
        else Pat.grp cap (catList (gItemsL cap reps))
      [Pat.rep body mn (some mx) true]
def gItemsL (cap : Bool) : List Grapheme → List Pat
  | [] => []
  | g :: gs => gItems cap g ++ gItemsL cap gs
end

mutual
/-- rounds of the parser loop spent on the text of a grapheme -/
def gToks : Grapheme → Nat
  | .mk chars reps mn mx =>
    let n := (chars.map fun s => (tokens s).length).sum
    if mn = 1 ∧ mx = 1 then n
    else if reps.isEmpty then (if singleB chars then n + 1 else n + 3)
    else gToksL reps + 3
def gToksL : List Grapheme → Nat
  | [] => 0
  | g :: gs => gToks g + gToksL gs
end

mutual
/-- graphemes as S2–S4 and the widening merge produce them, their strings spelled by atoms -/
def GOK : Grapheme → Prop
  | .mk chars reps mn mx =>
    (∃ ass, AssOK ass ∧ chars = ass.map untok) ∧ 1 ≤ mn ∧
    ((mn = 1 ∧ mx = 1 ∧ reps = [] ∧ chars.length = 1) ∨
     (Counted mn mx ∧ mx ≤ 1000 ∧ (reps = [] ∨ (2 ≤ chars.length ∧ reps ≠ [] ∧ GOKL reps))))
def GOKL : List Grapheme → Prop
  | [] => True
  | g :: gs => GOK g ∧ GOKL gs
end

/-- the grapheme is printed with a quantifier -/
def gCounted (g : Grapheme) : Bool := !(g.min == 1 && g.max == 1)

def anyCounted (gs : List Grapheme) : Bool := gs.any gCounted

/-- the text of a grapheme inside a unit: escaped, then displayed -/
def nText (cap esc : Bool) (g : Grapheme) : Str := fmtGrapheme (cfgPlain cap esc) (escapeGrapheme (cfgPlain cap esc) g)

theorem fmtGraphemes_escape (cap esc : Bool) : ∀ (gs : List Grapheme),
    fmtGraphemes (cfgPlain cap esc) (escapeGraphemes (cfgPlain cap esc) gs) = gs.flatMap (nText cap esc)
  | [] => by simp [escapeGraphemes, fmtGraphemes]
  | g :: gs => by
    simp only [escapeGraphemes, fmtGraphemes, List.flatMap_cons, nText]
    rw [fmtGraphemes_escape cap esc gs]

theorem escapeGraphemes_isEmpty (cfg : Config) (gs : List Grapheme) : (escapeGraphemes cfg gs).isEmpty = gs.isEmpty := by
  cases gs <;> simp [escapeGraphemes]

/-- a grapheme without nested repetitions: the displayed literal is the displayed escaped grapheme -/
theorem fmtLiteral_flat (cap esc : Bool) (g : Grapheme) (h : g.reps = []) : fmtLiteral (cfgPlain cap esc) [g] = nText cap esc g := by
  simp [fmtLiteral, h, nText]

theorem tokens_flat (ass : List (List Atom)) (h : ∀ as ∈ ass, as ≠ [] ∧ AtomsOK as) :
    (ass.map untok).flatMap (fun s => tokens s) = ass.flatten := by
  induction ass with
  | nil => rfl
  | cons as r ih =>
    simp only [List.map_cons, List.flatMap_cons, List.flatten_cons]
    rw [tokens_untok as (h as List.mem_cons_self).2, ih (fun x hx => h x (List.mem_cons_of_mem _ hx))]

theorem tokens_len (ass : List (List Atom)) (h : ∀ as ∈ ass, as ≠ [] ∧ AtomsOK as) :
    ((ass.map untok).map fun s => (tokens s).length).sum = unitLen ass := by
  induction ass with
  | nil => rfl
  | cons as r ih =>
    simp only [List.map_cons, List.sum_cons, unitLen]
    rw [tokens_untok as (h as List.mem_cons_self).2]
    have := ih (fun x hx => h x (List.mem_cons_of_mem _ hx))
    simp only [unitLen] at this
    rw [this]

theorem singleB_iff (ass : List (List Atom)) (hok : AssOK ass) : singleB (ass.map untok) = true ↔ SingleUnit ass := by
  obtain ⟨hne, hall⟩ := hok
  cases ass with
  | nil => exact absurd rfl hne
  | cons as r =>
    cases r with
    | cons as2 r2 =>
      simp only [List.map_cons, singleB]
      constructor
      · intro h; cases h
      · rintro ⟨a, ha, _⟩; simp at ha
    | nil =>
      simp only [List.map_cons, List.map_nil, singleB, tokens_untok as (hall as List.mem_cons_self).2]
      constructor
      · intro h
        match as, h with
        | [a], h => exact ⟨a, rfl, by simpa using h⟩
      · rintro ⟨a, ha, hne92⟩
        simp only [List.cons.injEq, and_true] at ha
        subst ha
        simpa using hne92

theorem graphemeCharCount_reps (chars : List Str) (reps : List Grapheme) (mn mx : Nat) (b : Bool) :
    Expr.graphemeCharCount (Grapheme.mk chars reps mn mx) b = Expr.graphemeCharCount (Grapheme.mk chars [] mn mx) b := by
  simp [Expr.graphemeCharCount, Grapheme.chars]

/-- the text of a counted grapheme with nested repetitions: always a group around the texts of the nested graphemes -/
theorem nText_nested (cap esc : Bool) (ass : List (List Atom)) (hok : AssOK ass) (h2 : 2 ≤ ass.length) (reps : List Grapheme)
    (hr : reps ≠ []) (mn mx : Nat) (hc : Counted mn mx) :
    nText cap esc (Grapheme.mk (ass.map untok) reps mn mx) =
      lp cap ++ reps.flatMap (nText cap esc) ++ [41] ++ quantText mn mx := by
  have hns : ¬ SingleUnit ass := by
    rintro ⟨a, ha, _⟩; rw [ha] at h2; simp at h2
  have hsingle : (Expr.graphemeCharCount (Grapheme.mk (ass.map (strText esc)) (escapeGraphemes (cfgPlain cap esc) reps) mn mx) false == 1 ||
      ((ass.map (strText esc)).length == 1 && isSingleEscape ((ass.map (strText esc)).headD []))) = false := by
    rw [graphemeCharCount_reps]
    have := isSingleChar_iff esc ass hok mn mx
    cases hb : (Expr.graphemeCharCount (Grapheme.mk (ass.map (strText esc)) [] mn mx) false == 1 ||
      ((ass.map (strText esc)).length == 1 && isSingleEscape ((ass.map (strText esc)).headD []))) with
    | false => rfl
    | true => exact absurd (this.mp hb) hns
  have hesc : escapeGrapheme (cfgPlain cap esc) (Grapheme.mk (ass.map untok) reps mn mx) =
      Grapheme.mk (ass.map (strText esc)) (escapeGraphemes (cfgPlain cap esc) reps) mn mx := by
    cases esc <;> simp [escapeGrapheme, cfgPlain, strText, E, Function.comp_def]
  have hre : (escapeGraphemes (cfgPlain cap esc) reps).isEmpty = false := by
    rw [escapeGraphemes_isEmpty]; cases reps with
    | nil => exact absurd rfl hr
    | cons _ _ => rfl
  have hne' : escapeGraphemes (cfgPlain cap esc) reps ≠ [] := by
    intro hc; rw [hc] at hre; simp at hre
  have hfe := fmtGraphemes_escape cap esc reps
  unfold nText at hfe ⊢
  rw [hesc]
  simp only [cfgPlain] at hne' hfe
  simp only [fmtGrapheme, hre, Bool.false_eq_true, ite_false, fmtGraphemes_escape, Comp.charClass, cfgPlain, Bool.false_and, paint]
  unfold quantText
  rcases hc with hlt | ⟨rfl, h1⟩
  · have hnr : ¬ (mn = 0 ∧ mx = 0) := by omega
    simp only [hlt, decide_true, Bool.not_true, Bool.false_and, Bool.false_eq_true, ite_false, Bool.true_and, ite_true]
    simp only [cfgPlain] at hsingle
    simp only [hsingle]
    simp [Comp.repetitionRange, Comp.paren, Comp.leftParen, Comp.rightParen, paint, hnr, lp, Gen.strCapturedLeftParen,
      Gen.strUncapturedLeftParen, Gen.strRightParen, hne', hfe]
  · have hnl : ¬ mn < mn := Nat.lt_irrefl _
    have hn0 : mn ≠ 0 := by omega
    simp only [hnl, decide_false, Bool.not_false, Bool.true_and, h1, decide_true, ite_false, Bool.false_and, Bool.false_eq_true]
    simp only [cfgPlain] at hsingle
    simp only [hsingle]
    simp [Comp.repetition, Comp.paren, Comp.leftParen, Comp.rightParen, paint, hn0, lp, Gen.strCapturedLeftParen,
      Gen.strUncapturedLeftParen, Gen.strRightParen, hne', hfe]

theorem lp_head (cap : Bool) (t : Str) : (lp cap ++ t).head? ≠ some 63 := by cases cap <;> simp [lp]

/-- the three shapes of a well-formed grapheme -/
theorem GOK_cases (chars : List Str) (reps : List Grapheme) (mn mx : Nat) (h : GOK (Grapheme.mk chars reps mn mx)) :
    (∃ as, as ≠ [] ∧ AtomsOK as ∧ chars = [untok as] ∧ reps = [] ∧ mn = 1 ∧ mx = 1) ∨
    (∃ ass, AssOK ass ∧ chars = ass.map untok ∧ reps = [] ∧ Counted mn mx ∧ mx ≤ 1000) ∨
    (∃ ass, AssOK ass ∧ chars = ass.map untok ∧ 2 ≤ ass.length ∧ reps ≠ [] ∧ GOKL reps ∧ Counted mn mx ∧ mx ≤ 1000) := by
  simp only [GOK] at h
  obtain ⟨⟨ass, hok, rfl⟩, _, hcase⟩ := h
  rcases hcase with ⟨rfl, rfl, rfl, hlen⟩ | ⟨hc, hb, hr⟩
  · left
    match ass, hok, hlen with
    | [as], hok, _ => exact ⟨as, (hok.2 as List.mem_cons_self).1, (hok.2 as List.mem_cons_self).2, rfl, rfl, rfl, rfl⟩
  · rcases hr with rfl | ⟨h2, hne, hl⟩
    · exact Or.inr (Or.inl ⟨ass, hok, rfl, rfl, hc, hb⟩)
    · exact Or.inr (Or.inr ⟨ass, hok, rfl, by simpa using h2, hne, hl, hc, hb⟩)

theorem GOK_min (g : Grapheme) (h : GOK g) : 1 ≤ g.min := by
  obtain ⟨chars, reps, mn, mx⟩ := g
  simp only [GOK] at h
  exact h.2.1

theorem nText_plain (cap esc : Bool) (as : List Atom) :
    nText cap esc (Grapheme.mk [untok as] [] 1 1) = E esc (escapeSymbols (untok as)) :=
  fmtGrapheme_plain cap esc (untok as)

theorem nText_flat (cap esc : Bool) (ass : List (List Atom)) (mn mx : Nat) :
    nText cap esc (Grapheme.mk (ass.map untok) [] mn mx) = fmtLiteral (cfgPlain cap esc) [gOf ass mn mx] :=
  (fmtLiteral_flat cap esc (gOf ass mn mx) rfl).symm

/-- the text of a well-formed grapheme never starts with a question mark -/
theorem nText_head (cap esc : Bool) (g : Grapheme) (h : GOK g) (rest : List Nat) : (R (nText cap esc g) ++ rest).head? ≠ some 63 := by
  obtain ⟨chars, reps, mn, mx⟩ := g
  rcases GOK_cases chars reps mn mx h with ⟨as, hne, hok, rfl, rfl, rfl, rfl⟩ | ⟨ass, hok, rfl, rfl, hc, hb⟩ |
    ⟨ass, hok, rfl, h2, hr, hl, hc, hb⟩
  · rw [nText_plain]
    obtain ⟨hd, tl, htl, hne63⟩ := R_escape_head false esc as hne hok
    rw [RV_false] at htl
    rw [htl]; simp; exact fun hc => hne63 hc
  · rw [nText_flat, fmt_counted cap esc ass hok mn mx hc]
    split
    · rw [R_append, List.append_assoc]; exact unitText_head esc ass hok _
    · simp only [R_append, R_lp, List.append_assoc]; exact lp_head cap _
  · rw [nText_nested cap esc ass hok h2 reps hr mn mx hc]
    simp only [R_append, R_lp, List.append_assoc]; exact lp_head cap _

theorem flatMap_head (cap esc : Bool) (gs : List Grapheme) (h : GOKL gs) (rest : List Nat) (hrest : rest.head? ≠ some 63) :
    (R (gs.flatMap (nText cap esc)) ++ rest).head? ≠ some 63 := by
  cases gs with
  | nil => simpa [R_nil] using hrest
  | cons g r =>
    simp only [GOKL] at h
    simp only [List.flatMap_cons, R_append, List.append_assoc]
    exact nText_head cap esc g h.1 _

mutual
/-- **one grapheme, any shape** the parser reads the items `gItems` from the text of a well-formed grapheme -/
theorem lexN (cap esc : Bool) : (g : Grapheme) → GOK g → ∀ (f : Nat) (rest : List Nat) (st : List Frame) (al co : List Pat),
    (gCounted g = true → rest.head? ≠ some 63) →
    parseLoop false (f + gToks g) (R (nText cap esc g) ++ rest) st al co =
      parseLoop false f rest st al ((gItems cap g).reverse ++ co)
  | .mk chars reps mn mx, h, f, rest, st, al, co, hrest0 => by
    have hrest : ¬ (mn = 1 ∧ mx = 1) → rest.head? ≠ some 63 := by
      intro hne
      apply hrest0
      simp only [gCounted, Grapheme.min, Grapheme.max, Bool.not_eq_true', Bool.and_eq_false_iff, beq_eq_false_iff_ne, ne_eq]
      by_cases h1 : mn = 1
      · right; intro h2; exact hne ⟨h1, h2⟩
      · left; exact h1
    rcases GOK_cases chars reps mn mx h with ⟨as, hne, hok, rfl, rfl, rfl, rfl⟩ | ⟨ass, hok, rfl, rfl, hc, hb⟩ |
      ⟨ass, hok, rfl, h2, hr, hl, hc, hb⟩
    · -- plain
      rw [nText_plain]
      have hi : gItems cap (Grapheme.mk [untok as] [] 1 1) = as.map atomPat := by
        simp [gItems, tokens_untok as hok]
      have ht : gToks (Grapheme.mk [untok as] [] 1 1) = as.length := by
        simp [gToks, tokens_untok as hok]
      rw [hi, ht]
      have := lex_grapheme false esc as hok f rest st al co
      rw [RV_false] at this
      exact this
    · -- counted, flat
      have hcne : ¬ (mn = 1 ∧ mx = 1) := by
        rcases hc with h | ⟨h, h'⟩ <;> omega
      rw [nText_flat]
      by_cases hs : SingleUnit ass
      · obtain ⟨a, rfl, hne92⟩ := hs
        have ha : AtomOK a := by
          rcases (hok.2 [a] List.mem_cons_self).2 with h | h
          · simp only [List.cons.injEq, and_true] at h; exact absurd h hne92
          · exact h a List.mem_cons_self
        have hsb : singleB ([[a]].map untok) = true := (singleB_iff [[a]] hok).mpr ⟨a, rfl, hne92⟩
        have hta : tokens (untok [a]) = [a] := tokens_untok [a] (hok.2 [a] List.mem_cons_self).2
        have hi : gItems cap (Grapheme.mk ([[a]].map untok) [] mn mx) = [Pat.rep (atomPat a) mn (some mx) true] := by
          simp only [gItems, hcne, ite_false, List.isEmpty_nil, ite_true, hsb]
          simp [hta]
        have ht : gToks (Grapheme.mk ([[a]].map untok) [] mn mx) = 2 := by
          simp only [gToks, hcne, ite_false, List.isEmpty_nil, ite_true, hsb]
          simp [hta]
        rw [hi, ht]
        exact lex_counted_single cap esc a ha mn mx hc hb f rest (hrest hcne) st al co
      · have hsb : singleB (ass.map untok) = false := by
          cases hb' : singleB (ass.map untok) with
          | false => rfl
          | true => exact absurd ((singleB_iff ass hok).mp hb') hs
        have hi : gItems cap (Grapheme.mk (ass.map untok) [] mn mx) =
            [Pat.rep (Pat.grp cap (catList (unitItems ass))) mn (some mx) true] := by
          simp only [gItems, hcne, ite_false, List.isEmpty_nil, ite_true, hsb, Bool.false_eq_true, tokens_flat ass hok.2, unitItems_eq]
        have ht : gToks (Grapheme.mk (ass.map untok) [] mn mx) = unitLen ass + 3 := by
          simp only [gToks, hcne, ite_false, List.isEmpty_nil, ite_true, hsb, Bool.false_eq_true, tokens_len ass hok.2]
        rw [hi, ht, ← Nat.add_assoc]
        exact lex_counted_group cap esc ass hok hs mn mx hc hb f rest (hrest hcne) st al co
    · -- counted, nested
      have hcne : ¬ (mn = 1 ∧ mx = 1) := by
        rcases hc with h | ⟨h, h'⟩ <;> omega
      have hre : reps.isEmpty = false := by
        cases reps with
        | nil => exact absurd rfl hr
        | cons _ _ => rfl
      have hi : gItems cap (Grapheme.mk (ass.map untok) reps mn mx) =
          [Pat.rep (Pat.grp cap (catList (gItemsL cap reps))) mn (some mx) true] := by
        simp only [gItems, hcne, ite_false, hre, Bool.false_eq_true]
      have ht : gToks (Grapheme.mk (ass.map untok) reps mn mx) = gToksL reps + 3 := by
        simp only [gToks, hcne, ite_false, hre, Bool.false_eq_true]
      rw [hi, ht, nText_nested cap esc ass hok h2 reps hr mn mx hc]
      simp only [R_append, R_quantText, R_lp, List.append_assoc]
      have h41 : R [41] = [41] := by decide
      rw [h41]
      have hstep1 : parseLoop false (f + (gToksL reps + 3)) (lp cap ++ (R (reps.flatMap (nText cap esc)) ++ ([41] ++ (quantText mn mx ++ rest)))) st al co =
          parseLoop false (f + 2 + gToksL reps) (R (reps.flatMap (nText cap esc)) ++ ([41] ++ (quantText mn mx ++ rest))) (⟨cap, al, co⟩ :: st) [] [] := by
        have e : f + (gToksL reps + 3) = (f + 2 + gToksL reps) + 1 := by omega
        rw [e]
        cases cap with
        | false => exact step_lparen_noncap _ _ st al co
        | true => exact step_lparen_cap _ _ (flatMap_head true esc reps hl _ (by simp)) st al co
      rw [hstep1, lexNL cap esc reps hl (f + 2) _ (⟨cap, al, co⟩ :: st) [] [] (by intro _; simp)]
      simp only [List.append_nil, List.singleton_append]
      rw [show f + 2 = (f + 1) + 1 by omega, step_rparen, closeFrame_nil]
      exact step_quant mn mx hc hb f rest (hrest hcne) _ (by simp [Quantifiable]) co st al
theorem lexNL (cap esc : Bool) : (gs : List Grapheme) → GOKL gs → ∀ (f : Nat) (rest : List Nat) (st : List Frame) (al co : List Pat),
    (anyCounted gs = true → rest.head? ≠ some 63) →
    parseLoop false (f + gToksL gs) (R (gs.flatMap (nText cap esc)) ++ rest) st al co =
      parseLoop false f rest st al ((gItemsL cap gs).reverse ++ co)
  | [], _, f, rest, st, al, co, _ => by simp [gToksL, gItemsL, R_nil]
  | g :: gs, h, f, rest, st, al, co, hrest => by
    simp only [GOKL] at h
    have hlen : f + gToksL (g :: gs) = (f + gToksL gs) + gToks g := by simp only [gToksL]; omega
    rw [hlen]
    simp only [List.flatMap_cons, R_append, List.append_assoc]
    have hg : gCounted g = true → (R (gs.flatMap (nText cap esc)) ++ rest).head? ≠ some 63 := by
      intro hcg
      cases gs with
      | nil => simp only [List.flatMap_nil, R_nil, List.nil_append]; exact hrest (by simp [anyCounted, hcg])
      | cons g2 r2 =>
        simp only [GOKL] at h
        simp only [List.flatMap_cons, R_append, List.append_assoc]
        exact nText_head cap esc g2 h.2.1 _
    rw [lexN cap esc g h.1 (f + gToksL gs) _ st al co hg,
      lexNL cap esc gs h.2 f rest st al _ (fun hc => hrest (by simp only [anyCounted, List.any_cons, Bool.or_eq_true] at hc ⊢; exact Or.inr hc))]
    simp [gItemsL]
end

theorem sum_ge_two (l : List Nat) (h : ∀ x ∈ l, 1 ≤ x) (h2 : 2 ≤ l.length) : 2 ≤ l.sum := by
  match l, h2 with
  | a :: b :: r, _ =>
    have := h a (by simp)
    have := h b (by simp)
    simp only [List.sum_cons]; omega

/-- a literal grapheme with nested repetitions is displayed as it is inside a unit -/
theorem fmtLiteral_nested (cap esc : Bool) (ass : List (List Atom)) (hok : AssOK ass) (h2 : 2 ≤ ass.length) (reps : List Grapheme)
    (hr : reps ≠ []) (mn mx : Nat) (hc : Counted mn mx) :
    fmtLiteral (cfgPlain cap esc) [Grapheme.mk (ass.map untok) reps mn mx] = nText cap esc (Grapheme.mk (ass.map untok) reps mn mx) := by
  rw [nText_nested cap esc ass hok h2 reps hr mn mx hc]
  have hre0 : reps.isEmpty = false := by
    cases reps with
    | nil => exact absurd rfl hr
    | cons _ _ => rfl
  have hre : (escapeGraphemes (cfgPlain cap esc) reps).isEmpty = false := by rw [escapeGraphemes_isEmpty]; exact hre0
  have hne' : escapeGraphemes (cfgPlain cap esc) reps ≠ [] := by
    intro hc'; rw [hc'] at hre; simp at hre
  have hfe := fmtGraphemes_escape cap esc reps
  have hsingle : (Expr.graphemeCharCount (Grapheme.mk (ass.map untok) (escapeGraphemes (cfgPlain cap esc) reps) mn mx) false == 1 ||
      ((ass.map untok).length == 1 && isSingleEscape ((ass.map untok).headD []))) = false := by
    have hsum : 2 ≤ ((ass.map untok).map List.length).sum := by
      apply sum_ge_two
      · intro x hx
        obtain ⟨s, hs, rfl⟩ := List.mem_map.mp hx
        obtain ⟨as, has, rfl⟩ := List.mem_map.mp hs
        exact untok_length_pos as (hok.2 as has).1
      · simpa using h2
    have hcnt : Expr.graphemeCharCount (Grapheme.mk (ass.map untok) (escapeGraphemes (cfgPlain cap esc) reps) mn mx) false =
        ((ass.map untok).map List.length).sum := by simp [Expr.graphemeCharCount, Grapheme.chars]
    rw [hcnt]
    have hl : (ass.map untok).length ≠ 1 := by simp; omega
    simp only [Bool.or_eq_false_iff, beq_eq_false_iff_ne, ne_eq, Bool.and_eq_false_iff]
    exact ⟨by omega, Or.inl hl⟩
  unfold nText at hfe
  simp only [fmtLiteral, List.flatMap_cons, List.flatMap_nil, List.append_nil, Grapheme.reps, hre0, Bool.not_false, ite_true,
    Grapheme.chars, Grapheme.min, Grapheme.max]
  simp only [cfgPlain] at hne' hfe hsingle hre
  simp only [fmtGrapheme, hre, Bool.false_eq_true, ite_false, Comp.charClass, cfgPlain, Bool.false_and, paint]
  unfold quantText
  rcases hc with hlt | ⟨rfl, h1⟩
  · have hnr : ¬ (mn = 0 ∧ mx = 0) := by omega
    simp only [hlt, decide_true, Bool.not_true, Bool.false_and, Bool.false_eq_true, ite_false, Bool.true_and, ite_true]
    simp only [hsingle]
    simp [Comp.repetitionRange, Comp.paren, Comp.leftParen, Comp.rightParen, paint, hnr, lp, Gen.strCapturedLeftParen,
      Gen.strUncapturedLeftParen, Gen.strRightParen, hne', hfe]
    rfl
  · have hnl : ¬ mn < mn := Nat.lt_irrefl _
    have hn0 : mn ≠ 0 := by omega
    simp only [hnl, decide_false, Bool.not_false, Bool.true_and, h1, decide_true, ite_false, Bool.false_and, Bool.false_eq_true]
    simp only [hsingle]
    simp [Comp.repetition, Comp.paren, Comp.leftParen, Comp.rightParen, paint, hn0, lp, Gen.strCapturedLeftParen,
      Gen.strUncapturedLeftParen, Gen.strRightParen, hne', hfe]
    rfl

/-- every grapheme of a literal is displayed as inside a unit -/
theorem fmtLiteral_one (cap esc : Bool) (g : Grapheme) (h : GOK g) : fmtLiteral (cfgPlain cap esc) [g] = nText cap esc g := by
  obtain ⟨chars, reps, mn, mx⟩ := g
  rcases GOK_cases chars reps mn mx h with ⟨as, hne, hok, rfl, rfl, rfl, rfl⟩ | ⟨ass, hok, rfl, rfl, hc, hb⟩ |
    ⟨ass, hok, rfl, h2, hr, hl, hc, hb⟩
  · exact fmtLiteral_flat cap esc _ rfl
  · exact fmtLiteral_flat cap esc _ rfl
  · exact fmtLiteral_nested cap esc ass hok h2 reps hr mn mx hc

theorem fmtLiteral_text (cap esc : Bool) : ∀ (c : Cluster), GOKL c → fmtLiteral (cfgPlain cap esc) c = c.flatMap (nText cap esc)
  | [], _ => by simp [fmtLiteral]
  | g :: gs, h => by
    simp only [GOKL] at h
    have h1 := fmtLiteral_one cap esc g h.1
    have h2 := fmtLiteral_text cap esc gs h.2
    simp only [fmtLiteral, List.flatMap_cons, List.flatMap_nil, List.append_nil] at h1 h2 ⊢
    rw [h1, h2]

/-- **one literal with counted graphemes** -/
theorem lex_literalR (cap esc : Bool) (c : Cluster) (h : GOKL c) (f : Nat) (rest : List Nat) (st : List Frame) (al co : List Pat)
    (hrest : anyCounted c = true → rest.head? ≠ some 63) :
    parseLoop false (f + gToksL c) (R (fmtLiteral (cfgPlain cap esc) c) ++ rest) st al co =
      parseLoop false f rest st al ((gItemsL cap c).reverse ++ co) := by
  rw [fmtLiteral_text cap esc c h]
  exact lexNL cap esc c h f rest st al co hrest

theorem literal_headR (cap esc : Bool) (c : Cluster) (h : GOKL c) : HeadOK (R (fmtLiteral (cfgPlain cap esc) c)) := by
  intro rest hrest
  rw [fmtLiteral_text cap esc c h]
  exact flatMap_head cap esc c h rest hrest

theorem quantText_len (mn mx : Nat) : 3 ≤ (quantText mn mx).length := by
  have h1 : 1 ≤ (toDec mn).length := by
    rw [toDec_eq]; simp only [List.length_map]; exact List.length_pos_iff.mpr (decDigs_ne_nil 63 mn)
  unfold quantText; split <;> simp <;> omega

mutual
theorem gToks_le (cap esc : Bool) : (g : Grapheme) → GOK g → gToks g ≤ (R (nText cap esc g)).length
  | .mk chars reps mn mx, h => by
    rcases GOK_cases chars reps mn mx h with ⟨as, hne, hok, rfl, rfl, rfl, rfl⟩ | ⟨ass, hok, rfl, rfl, hc, hb⟩ |
      ⟨ass, hok, rfl, h2, hr, hl, hc, hb⟩
    · rw [nText_plain]
      have ht : gToks (Grapheme.mk [untok as] [] 1 1) = as.length := by simp [gToks, tokens_untok as hok]
      rw [ht]
      have := R_escape_len false esc as hok
      rwa [RV_false] at this
    · have hcne : ¬ (mn = 1 ∧ mx = 1) := by rcases hc with h | ⟨h, h'⟩ <;> omega
      have hq := quantText_len mn mx
      have hu := unitLen_le esc ass hok.2
      rw [nText_flat, fmt_counted cap esc ass hok mn mx hc]
      by_cases hs : SingleUnit ass
      · have hsb : singleB (ass.map untok) = true := (singleB_iff ass hok).mpr hs
        rw [if_pos ((isSingleChar_iff esc ass hok mn mx).mpr hs)]
        have ht : gToks (Grapheme.mk (ass.map untok) [] mn mx) = unitLen ass + 1 := by
          simp only [gToks, hcne, ite_false, List.isEmpty_nil, ite_true, hsb, tokens_len ass hok.2]
        rw [ht, R_append, R_quantText, List.length_append]; omega
      · have hsb : singleB (ass.map untok) = false := by
          cases hb' : singleB (ass.map untok) with
          | false => rfl
          | true => exact absurd ((singleB_iff ass hok).mp hb') hs
        rw [if_neg (fun h => hs ((isSingleChar_iff esc ass hok mn mx).mp h))]
        have ht : gToks (Grapheme.mk (ass.map untok) [] mn mx) = unitLen ass + 3 := by
          simp only [gToks, hcne, ite_false, List.isEmpty_nil, ite_true, hsb, Bool.false_eq_true, tokens_len ass hok.2]
        rw [ht]
        simp only [R_append, R_quantText, R_lp, List.length_append]
        have h3 : 1 ≤ (lp cap).length := by cases cap <;> simp [lp]
        omega
    · have hcne : ¬ (mn = 1 ∧ mx = 1) := by rcases hc with h | ⟨h, h'⟩ <;> omega
      have hre : reps.isEmpty = false := by
        cases reps with
        | nil => exact absurd rfl hr
        | cons _ _ => rfl
      have ht : gToks (Grapheme.mk (ass.map untok) reps mn mx) = gToksL reps + 3 := by
        simp only [gToks, hcne, ite_false, hre, Bool.false_eq_true]
      rw [ht, nText_nested cap esc ass hok h2 reps hr mn mx hc]
      simp only [R_append, R_quantText, R_lp, List.length_append]
      have hq := quantText_len mn mx
      have h3 : 1 ≤ (lp cap).length := by cases cap <;> simp [lp]
      have := gToksL_le cap esc reps hl
      omega
theorem gToksL_le (cap esc : Bool) : (gs : List Grapheme) → GOKL gs → gToksL gs ≤ (R (gs.flatMap (nText cap esc))).length
  | [], _ => by simp [gToksL]
  | g :: gs, h => by
    simp only [GOKL] at h
    have h1 := gToks_le cap esc g h.1
    have h2 := gToksL_le cap esc gs h.2
    simp only [gToksL, List.flatMap_cons, R_append, List.length_append]
    omega
end

theorem literal_lenR (cap esc : Bool) (c : Cluster) (h : GOKL c) : gToksL c ≤ (R (fmtLiteral (cfgPlain cap esc) c)).length := by
  rw [fmtLiteral_text cap esc c h]
  exact gToksL_le cap esc c h

/-- a literal that `is_single_codepoint` accepts is one plain grapheme of one code point -/
theorem single_literalR (cap esc : Bool) (c : Cluster) (h : GOKL c) (hsc : (Expr.lit c).isSingleCodepoint (cfgPlain cap esc) = true) :
    ∃ x, c = [Grapheme.ofStr [x]] ∧ gItemsL cap c = [Pat.chr x] ∧ anyCounted c = false ∧ AtomsOK [Atom.chr x] := by
  simp only [Expr.isSingleCodepoint, Bool.and_eq_true, beq_iff_eq, cfgPlain] at hsc
  obtain ⟨hcount, hmax⟩ := hsc
  have hpos : ∀ g, GOK g → 1 ≤ Expr.graphemeCharCount g esc := by
    intro g hg
    obtain ⟨chars, reps, mn, mx⟩ := g
    simp only [GOK] at hg
    obtain ⟨⟨ass, hok, rfl⟩, _, _⟩ := hg
    rw [Expr.graphemeCharCount_eq]
    simp only [Grapheme.chars]
    obtain ⟨hne, hall⟩ := hok
    cases ass with
    | nil => exact absurd rfl hne
    | cons as r =>
      simp only [List.map_cons, List.sum_cons]
      have := Expr.strCount_pos esc (untok as) (untok_ne_nil as (hall as List.mem_cons_self).1)
      omega
  cases c with
  | nil => simp [Expr.clusterCharCount] at hcount
  | cons g gs =>
    simp only [GOKL] at h
    have hg1 := hpos g h.1
    cases gs with
    | cons g2 gs2 =>
      exfalso
      simp only [GOKL] at h
      have hg2 := hpos g2 h.2.1
      simp only [Expr.clusterCharCount, List.map_cons, List.sum_cons] at hcount
      omega
    | nil =>
      simp only [Expr.clusterCharCount, List.map_cons, List.map_nil, List.sum_cons, List.sum_nil, Nat.add_zero] at hcount
      simp only [List.head?_cons, Option.map_some, Option.some.injEq] at hmax
      obtain ⟨chars, reps, mn, mx⟩ := g
      simp only [Grapheme.max] at hmax
      subst hmax
      have hmin := GOK_min _ h.1
      simp only [Grapheme.min] at hmin
      rcases GOK_cases chars reps mn 1 h.1 with ⟨as, hne, hok, rfl, rfl, rfl, _⟩ | ⟨ass, hok, rfl, rfl, hc, hb⟩ |
        ⟨ass, hok, rfl, h2, hr, hl, hc, hb⟩
      · -- plain: one string of one character
        rw [Expr.graphemeCharCount_eq] at hcount
        simp only [Grapheme.chars, List.map_cons, List.map_nil, List.sum_cons, List.sum_nil, Nat.add_zero] at hcount
        obtain ⟨ch, hch⟩ := Expr.strCount_one esc (untok as) hcount (untok_ne_nil as hne)
        have has : as = [Atom.chr ch] := by
          have := tokens_untok as hok
          rw [hch, tokens_single] at this
          exact this.symm
        subst has
        refine ⟨ch, rfl, ?_, ?_, hok⟩
        · simp [gItemsL, gItems, tokens_single, atomPat, untok]
        · simp [anyCounted, gCounted, Grapheme.min, Grapheme.max]
      · exfalso; rcases hc with h | ⟨h, h'⟩ <;> omega
      · exfalso; rcases hc with h | ⟨h, h'⟩ <;> omega

/-- a well-formed grapheme is well-shaped in the sense of the S7 theorems -/
theorem gok_plainish (g : Grapheme) (h : GOK g) : g.Plainish := by
  obtain ⟨chars, reps, mn, mx⟩ := g
  have hmin := GOK_min _ h
  simp only [Grapheme.min] at hmin
  have hass : ∃ ass, AssOK ass ∧ chars = ass.map untok := by simp only [GOK] at h; exact h.1
  obtain ⟨ass, hok, rfl⟩ := hass
  have hne : ass.map untok ≠ [] := by simpa using hok.1
  have hstr : ∀ s ∈ ass.map untok, s ≠ [] := by
    intro s hs
    obtain ⟨as, has, rfl⟩ := List.mem_map.mp hs
    exact untok_ne_nil as (hok.2 as has).1
  rcases GOK_cases _ reps mn mx h with ⟨as, _, _, _, rfl, rfl, rfl⟩ | ⟨ass', _, _, rfl, hc, _⟩ | ⟨ass', _, hch, h2, _, _, hc, _⟩
  · exact ⟨hne, hstr, Nat.le_refl _, Nat.le_refl _, fun _ => rfl⟩
  · exact ⟨hne, hstr, hmin, by show mn ≤ mx; rcases hc with h | ⟨h, _⟩ <;> omega, fun _ => rfl⟩
  · refine ⟨hne, hstr, hmin, by show mn ≤ mx; rcases hc with h | ⟨h, _⟩ <;> omega, ?_⟩
    intro hlen
    simp only [Grapheme.chars] at hlen
    rw [hch] at hlen
    simp at hlen; omega

end Grexv
