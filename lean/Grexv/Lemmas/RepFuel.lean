import Grexv.Lemmas.RepExpand

/-
S4, `convert_repetitions`: the fuel of the model's recursion is never what ends it.

The Rust function recurses into the unit of every counted grapheme it has created; the model `convertRepsAux`
carries a fuel argument for that recursion and answers `none` — "no repetition found, the output vector stays
empty" — when the fuel is used up. That default would make the model differ from the code on an input whose
recursion is deeper than the fuel. This file shows that this cannot happen: a unit is at most half as long as the
cluster it was found in (the keys `collect_repeated_substrings` records have at most `n / 2` elements), a cluster
of at most one grapheme has no repeated substring, so for a cluster of plain graphemes any two amounts of fuel
above its length give the same result — the model computes the function the unbounded recursion defines.
-/
set_option linter.unusedSimpArgs false
set_option linter.unusedVariables false
namespace Grexv

/-- every key of the map has at most `B` elements -/
def KeysLe (B : Nat) (m : SubMap) : Prop := ∀ kv ∈ m, kv.1.length ≤ B

theorem push_keysLe (B : Nat) (m : SubMap) (k : List Str) (i : Nat) (hm : KeysLe B m) (hk : k.length ≤ B) :
    KeysLe B (SubMap.push m k i) := by
  induction m with
  | nil =>
    intro kv hkv
    simp only [SubMap.push, List.mem_singleton] at hkv
    subst hkv; exact hk
  | cons e rest ih =>
    obtain ⟨k', is⟩ := e
    simp only [SubMap.push]
    split
    · intro kv hkv
      simp only [List.mem_cons] at hkv
      rcases hkv with rfl | hkv
      · exact hm (k', is) List.mem_cons_self
      · exact hm kv (List.mem_cons_of_mem _ hkv)
    · intro kv hkv
      simp only [List.mem_cons] at hkv
      rcases hkv with rfl | hkv
      · exact hm (k', is) List.mem_cons_self
      · exact ih (fun x hx => hm x (List.mem_cons_of_mem _ hx)) kv hkv

/-- `collect_repeated_substrings` only records substrings of at most half the length of the cluster -/
theorem collectRepeated_keysLe (vals : List Str) : KeysLe (vals.length / 2) (collectRepeated vals) := by
  unfold collectRepeated
  have inner : ∀ (i : Nat) (js : List Nat) (m : SubMap), (∀ j ∈ js, j < vals.length / 2) → KeysLe (vals.length / 2) m →
      KeysLe (vals.length / 2) (js.foldl (fun m j0 =>
        if (vals.drop i).length ≥ j0 + 1 then SubMap.push m ((vals.drop i).take (j0 + 1)) i else m) m) := by
    intro i js
    induction js with
    | nil => intro m _ hm; exact hm
    | cons j0 rest ih =>
      intro m hjs hm
      simp only [List.foldl_cons]
      apply ih _ (fun j hj => hjs j (List.mem_cons_of_mem _ hj))
      split
      · apply push_keysLe _ m _ i hm
        have := hjs j0 List.mem_cons_self
        rw [List.length_take]
        omega
      · exact hm
  have outer : ∀ (is : List Nat) (m : SubMap), KeysLe (vals.length / 2) m →
      KeysLe (vals.length / 2) (is.foldl (fun m i =>
        (List.range (vals.length / 2)).foldl (fun m j0 =>
          if (vals.drop i).length ≥ j0 + 1 then SubMap.push m ((vals.drop i).take (j0 + 1)) i else m) m) m) := by
    intro is
    induction is with
    | nil => intro m hm; exact hm
    | cons i rest ih =>
      intro m hm
      simp only [List.foldl_cons]
      exact ih _ (inner i _ m (fun j hj => List.mem_range.mp hj) hm)
  exact outer _ [] (fun kv hkv => by simp at hkv)

/-- the unit of every range `create_ranges_of_repetitions` builds is a key of the map -/
theorem createRanges_unit (cfg : Config) (B : Nat) (m : SubMap) (hm : KeysLe B m) :
    ∀ rp ∈ createRanges cfg m, rp.2.length ≤ B := by
  intro rp hrp
  simp only [createRanges, List.mem_flatMap, List.mem_map, List.mem_filter] at hrp
  obtain ⟨kv, hkv, r, ⟨hr, _⟩, rfl⟩ := hrp
  have hkvm : kv ∈ m := by
    have := (mem_sortBy _ kv _).mp hkv
    exact (List.mem_filter.mp this).1
  exact hm kv hkvm

/-- a cluster of at most one grapheme has no repeated substring -/
theorem collectRepeated_short (vals : List Str) (h : vals.length ≤ 1) : collectRepeated vals = [] := by
  have h2 : vals.length / 2 = 0 := by omega
  unfold collectRepeated
  simp only [h2, List.range_zero, List.foldl_nil]
  generalize List.range vals.length = is
  induction is with
  | nil => rfl
  | cons i rest ih => simpa using ih

theorem coalesced_short (cfg : Config) (vals : List Str) (h : vals.length ≤ 1) :
    coalesceRepetitions (createRanges cfg (collectRepeated vals)) = [] := by
  rw [collectRepeated_short vals h]
  rfl

/-- the splice loop only adds graphemes whose unit is the unit of one of the ranges -/
theorem spliceLoop_chars (cfg : Config) (B : Nat) : ∀ (rs : List RepRange) (acc : Cluster),
    (∀ rp ∈ rs, rp.2.length ≤ B) → (∀ g ∈ acc, g.chars.length ≤ B) →
    ∀ g ∈ spliceLoop cfg rs acc, g.chars.length ≤ B := by
  intro rs
  induction rs with
  | nil => intro acc _ h; simpa [spliceLoop] using h
  | cons rp rest ih =>
    intro acc hrs h
    obtain ⟨r, substr⟩ := rp
    have hrest : ∀ rp ∈ rest, rp.2.length ≤ B := fun x hx => hrs x (List.mem_cons_of_mem _ hx)
    simp only [spliceLoop]
    split
    · exact h
    · split
      · exact ih acc hrest h
      · apply ih _ hrest
        intro g hg
        simp only [splice, List.mem_append, List.mem_cons, List.mem_nil_iff, or_false] at hg
        rcases hg with (hg | hg) | hg
        · exact h g (List.mem_of_mem_take hg)
        · subst hg; exact hrs (r, substr) List.mem_cons_self
        · exact h g (List.mem_of_mem_drop hg)

theorem nestWith_congr (f g : Cluster → Option Cluster) (gs : Cluster)
    (h : ∀ x ∈ gs, f (x.chars.map Grapheme.ofStr) = g (x.chars.map Grapheme.ofStr)) : nestWith f gs = nestWith g gs := by
  unfold nestWith
  apply List.map_congr_left
  intro x hx
  rw [h x hx]

/-- **the fuel is never what ends the recursion** for a cluster of plain graphemes, any two amounts of fuel above its
length give the same result -/
theorem convertRepsAux_fuel (cfg : Config) : ∀ (f1 f2 : Nat) (ss : List Str), ss.length < f1 → ss.length < f2 →
    convertRepsAux cfg f1 (ss.map Grapheme.ofStr) = convertRepsAux cfg f2 (ss.map Grapheme.ofStr) := by
  intro f1
  induction f1 with
  | zero => intro f2 ss h; omega
  | succ f1 ih =>
    intro f2 ss h1 h2
    cases f2 with
    | zero => omega
    | succ f2 =>
      simp only [convertRepsAux]
      rw [map_value_plain]
      by_cases hshort : ss.length ≤ 1
      · rw [coalesced_short cfg ss hshort]; rfl
      · split
        · rfl
        · congr 1
          apply nestWith_congr
          intro g hg
          have hsub : ∀ rp ∈ coalesceRepetitions (createRanges cfg (collectRepeated ss)), rp.2.length ≤ ss.length / 2 := by
            intro rp hrp
            have hok := collectRepeated_ok ss
            have htiles := createRanges_tiles cfg ss _ hok
            have hne : ∀ r ∈ createRanges cfg (collectRepeated ss), r.1.1 < r.1.2 :=
              fun r hr => (tiles_nonempty ss _ _ _ (htiles r hr)).1
            exact createRanges_unit cfg _ _ (collectRepeated_keysLe ss) rp ((coalesceRepetitions_spec _ hne).2 rp hrp)
          have hB : g.chars.length ≤ ss.length / 2 := by
            apply spliceLoop_chars cfg (ss.length / 2) _ _ hsub _ g hg
            intro x hx
            obtain ⟨s, _, rfl⟩ := List.mem_map.mp hx
            show 1 ≤ ss.length / 2
            omega
          apply ih
          · omega
          · omega

/-- `GraphemeCluster::convert_repetitions` with any larger amount of fuel is the same function -/
theorem convertRepetitions_fuel (cfg : Config) (ss : List Str) (k : Nat) :
    (convertRepsAux cfg ((ss.map Grapheme.ofStr).length + 1 + k) (ss.map Grapheme.ofStr)).getD (ss.map Grapheme.ofStr) =
      convertRepetitions cfg (ss.map Grapheme.ofStr) := by
  unfold convertRepetitions
  rw [convertRepsAux_fuel cfg _ ((ss.map Grapheme.ofStr).length + 1) ss (by simp; omega) (by simp)]

end Grexv

namespace Grexv

/-- every entry of the map has at least one index (the `headD 0` in the sort key of `createRanges` never takes its default) -/
def IdxNe (m : SubMap) : Prop := ∀ kv ∈ m, kv.2 ≠ []

theorem push_idxNe (m : SubMap) (k : List Str) (i : Nat) (hm : IdxNe m) : IdxNe (SubMap.push m k i) := by
  induction m with
  | nil =>
    intro kv hkv
    simp only [SubMap.push, List.mem_singleton] at hkv
    subst hkv; simp
  | cons e rest ih =>
    obtain ⟨k', is⟩ := e
    simp only [SubMap.push]
    split
    · intro kv hkv
      simp only [List.mem_cons] at hkv
      rcases hkv with rfl | hkv
      · simp
      · exact hm kv (List.mem_cons_of_mem _ hkv)
    · intro kv hkv
      simp only [List.mem_cons] at hkv
      rcases hkv with rfl | hkv
      · exact hm (k', is) List.mem_cons_self
      · exact ih (fun x hx => hm x (List.mem_cons_of_mem _ hx)) kv hkv

theorem collectRepeated_idxNe (vals : List Str) : IdxNe (collectRepeated vals) := by
  unfold collectRepeated
  have inner : ∀ (i : Nat) (js : List Nat) (m : SubMap), IdxNe m →
      IdxNe (js.foldl (fun m j0 =>
        if (vals.drop i).length ≥ j0 + 1 then SubMap.push m ((vals.drop i).take (j0 + 1)) i else m) m) := by
    intro i js
    induction js with
    | nil => intro m hm; exact hm
    | cons j0 rest ih =>
      intro m hm
      simp only [List.foldl_cons]
      apply ih
      split
      · exact push_idxNe m _ i hm
      · exact hm
  have outer : ∀ (is : List Nat) (m : SubMap), IdxNe m →
      IdxNe (is.foldl (fun m i =>
        (List.range (vals.length / 2)).foldl (fun m j0 =>
          if (vals.drop i).length ≥ j0 + 1 then SubMap.push m ((vals.drop i).take (j0 + 1)) i else m) m) m) := by
    intro is
    induction is with
    | nil => intro m hm; exact hm
    | cons i rest ih =>
      intro m hm
      simp only [List.foldl_cons]
      exact ih _ (inner i _ m hm)
  exact outer _ [] (fun kv hkv => by simp at hkv)

end Grexv
