import Grexv.Lemmas.WFExprQ
import Grexv.Lemmas.EndToEndR
import Grexv.Lemmas.ThreshS4

/-
C13 at the level of the pattern the regex crate builds, with `-r`: every counted quantifier `{n}` / `{m,n}` of the parsed pattern has an
upper count above `minimum_repetitions`, and its operand matches no string shorter than `minimum_substring_length`.
S4 establishes the contract per grapheme (`Props.C13.ok`), the widening merge of the trie keeps its weaker form (`okW`), the state
elimination only rearranges graphemes (`WFExprQ.lean`), and the parser reads each counted grapheme as one repetition node (`gItems`).
-/
set_option linter.unusedSimpArgs false
set_option linter.unusedVariables false
namespace Grexv
open Spec Props.C13 Dfa

/-- the threshold contract of a label: as `ok`, but a range `{m,n}` is allowed (the widening merge makes them) -/
def okW (cfg : Config) : Grapheme → Prop
  | .mk chars reps mn mx => ((mn = 1 ∧ mx = 1) ∨ (cfg.minRep < mx ∧ cfg.minLen ≤ chars.length)) ∧ okL cfg reps = true

theorem ok_okW (cfg : Config) (g : Grapheme) (h : ok cfg g = true) : okW cfg g := by
  obtain ⟨chars, reps, mn, mx⟩ := g
  simp only [ok, Bool.and_eq_true, Bool.or_eq_true, beq_iff_eq, decide_eq_true_eq] at h
  refine ⟨?_, h.2⟩
  rcases h.1 with h1 | h1
  · exact Or.inl h1
  · exact Or.inr ⟨h1.1.1, h1.1.2⟩

/-- the widening merge keeps the contract -/
theorem okW_widen (cfg : Config) (a g : Grapheme) (ha : (GOK a ∧ GSem a) ∧ okW cfg a) (hg : (GOK g ∧ GSem g) ∧ okW cfg g)
    (hc : a.chars = g.chars) (hm : a.max = g.max - 1) :
    (GOK (Grapheme.mk g.chars [] (Nat.min a.min g.min) (Nat.max a.max g.max)) ∧
      GSem (Grapheme.mk g.chars [] (Nat.min a.min g.min) (Nat.max a.max g.max))) ∧
    okW cfg (Grapheme.mk g.chars [] (Nat.min a.min g.min) (Nat.max a.max g.max)) := by
  refine ⟨lit_widen a g ha.1 hg.1 hc hm, ?_⟩
  have hamin := GOK_min a ha.1.1
  have hasem := ha.1.2
  obtain ⟨gc, gr, gmn, gmx⟩ := g
  obtain ⟨ac, ar, amn, amx⟩ := a
  simp only [Grapheme.chars, Grapheme.min, Grapheme.max] at hc hm hamin ⊢
  simp only [GSem] at hasem
  have hgw := hg.2
  simp only [okW] at hgw ⊢
  refine ⟨Or.inr ?_, by simp [okL]⟩
  have h2 : 2 ≤ gmx := by have := hasem.1; omega
  rcases hgw.1 with ⟨_, h1⟩ | ⟨h1, h2'⟩
  · omega
  · exact ⟨Nat.lt_of_lt_of_le h1 (Nat.le_max_right _ _), h2'⟩

/-! ### the pattern side -/

/-- a lower bound on the length of what a pattern matches -/
def Pat.minLen : Pat → Nat
  | .eps | .bol | .eol => 0
  | .chr _ | .perl _ _ | .set _ _ => 1
  | .cat a b => Pat.minLen a + Pat.minLen b
  | .alt a b => Nat.min (Pat.minLen a) (Pat.minLen b)
  | .rep p mn _ _ => mn * Pat.minLen p
  | .grp _ p => Pat.minLen p

theorem powL_minLen (L : List Nat → Prop) (m : Nat) (h : ∀ s, L s → m ≤ s.length) : ∀ k s, powL L k s → k * m ≤ s.length
  | 0, s, _ => by simp
  | k + 1, s, hs => by
    obtain ⟨u, v, rfl, hu, hv⟩ := hs
    have := powL_minLen L m h k v hv
    have := h u hu
    simp only [List.length_append, Nat.add_mul, Nat.one_mul]
    omega

/-- `minLen` is a lower bound: no string the pattern denotes is shorter -/
theorem Pat.minLen_le (i : Bool) : ∀ (p : Pat) (s : List Nat), Pat.denC i p s → Pat.minLen p ≤ s.length
  | .eps, s, h => by simp [Pat.minLen]
  | .chr c, s, h => by obtain ⟨x, rfl, _⟩ := h; simp [Pat.minLen]
  | .perl k n, s, h => by obtain ⟨x, rfl, _⟩ := h; simp [Pat.minLen]
  | .set it n, s, h => by obtain ⟨x, rfl, _⟩ := h; simp [Pat.minLen]
  | .bol, s, h => by simp [Pat.denC] at h
  | .eol, s, h => by simp [Pat.denC] at h
  | .cat a b, s, h => by
    obtain ⟨u, v, rfl, hu, hv⟩ := h
    have := Pat.minLen_le i a u hu
    have := Pat.minLen_le i b v hv
    simp only [Pat.minLen, List.length_append]; omega
  | .alt a b, s, h => by
    simp only [Pat.minLen]
    rcases h with h | h
    · exact Nat.le_trans (Nat.min_le_left _ _) (Pat.minLen_le i a s h)
    · exact Nat.le_trans (Nat.min_le_right _ _) (Pat.minLen_le i b s h)
  | .rep p mn mx g, s, h => by
    simp only [Pat.minLen]
    cases mx with
    | none =>
      obtain ⟨k, hk, hp⟩ := h
      have := powL_minLen _ _ (Pat.minLen_le i p) k s hp
      exact Nat.le_trans (Nat.mul_le_mul_right _ hk) this
    | some n =>
      obtain ⟨k, hk, _, hp⟩ := h
      have := powL_minLen _ _ (Pat.minLen_le i p) k s hp
      exact Nat.le_trans (Nat.mul_le_mul_right _ hk) this
  | .grp c p, s, h => by
    simp only [Pat.minLen]
    exact Pat.minLen_le i p s h

/-- **the threshold contract of a pattern**: every repetition node is `?`, or a counted repetition whose upper count exceeds `r` and whose
operand matches nothing shorter than `l` -/
def Pat.Thresh (r l : Nat) : Pat → Prop
  | .rep p mn mx _ => ((mn = 0 ∧ mx = some 1) ∨ ∃ n, mx = some n ∧ r < n ∧ l ≤ Pat.minLen p) ∧ Pat.Thresh r l p
  | .cat a b | .alt a b => Pat.Thresh r l a ∧ Pat.Thresh r l b
  | .grp _ p => Pat.Thresh r l p
  | _ => True

theorem minLen_catList : ∀ (ps : List Pat), Pat.minLen (catList ps) = (ps.map Pat.minLen).sum
  | [] => rfl
  | [p] => by simp [catList]
  | p :: q :: ps => by
    have := minLen_catList (q :: ps)
    simp only [catList, Pat.minLen, List.map_cons, List.sum_cons] at this ⊢
    omega

theorem thresh_catList (r l : Nat) : ∀ (ps : List Pat), (∀ p ∈ ps, Pat.Thresh r l p) → Pat.Thresh r l (catList ps)
  | [], _ => trivial
  | [p], h => h p List.mem_cons_self
  | p :: q :: ps, h => ⟨h p List.mem_cons_self, thresh_catList r l (q :: ps) (fun x hx => h x (List.mem_cons_of_mem _ hx))⟩

theorem thresh_altList (r l : Nat) : ∀ (ps : List Pat), (∀ p ∈ ps, Pat.Thresh r l p) → Pat.Thresh r l (altList ps)
  | [], _ => trivial
  | [p], h => h p List.mem_cons_self
  | p :: q :: ps, h => ⟨h p List.mem_cons_self, thresh_altList r l (q :: ps) (fun x hx => h x (List.mem_cons_of_mem _ hx))⟩

theorem thresh_atoms (r l : Nat) (as : List Atom) : ∀ p ∈ as.map atomPat, Pat.Thresh r l p := by
  intro p hp
  obtain ⟨a, _, rfl⟩ := List.mem_map.mp hp
  cases a <;> trivial

theorem minLen_atoms (as : List Atom) : ((as.map atomPat).map Pat.minLen).sum = as.length := by
  induction as with
  | nil => rfl
  | cons a r ih =>
    simp only [List.map_cons, List.sum_cons, List.length_cons, ih]
    cases a <;> simp [atomPat, Pat.minLen] <;> omega

/-- a unit of `n` strings is spelled by at least `n` atoms -/
theorem atoms_length_ge (ass : List (List Atom)) (h : ∀ as ∈ ass, as ≠ [] ∧ AtomsOK as) :
    ass.length ≤ ((ass.map untok).flatMap fun s => tokens s).length := by
  induction ass with
  | nil => simp
  | cons a r ih =>
    have h1 := h a List.mem_cons_self
    have := ih (fun x hx => h x (List.mem_cons_of_mem _ hx))
    simp only [List.map_cons, List.flatMap_cons, List.length_append, List.length_cons, tokens_untok a h1.2]
    have : 1 ≤ a.length := by
      cases a with
      | nil => exact absurd rfl h1.1
      | cons _ _ => simp
    omega

theorem flatten_length_ge (ass : List (List Atom)) (h : ∀ as ∈ ass, as ≠ [] ∧ AtomsOK as) : ass.length ≤ ass.flatten.length := by
  induction ass with
  | nil => simp
  | cons a r ih =>
    have h1 := h a List.mem_cons_self
    have := ih (fun x hx => h x (List.mem_cons_of_mem _ hx))
    have : 1 ≤ a.length := by
      cases a with
      | nil => exact absurd rfl h1.1
      | cons _ _ => simp
    simp only [List.flatten_cons, List.length_append, List.length_cons]
    omega

/-- the unit pattern of a counted grapheme without nested repetitions: its shape -/
theorem gItems_flat_struct (r l : Nat) (cap : Bool) (ass : List (List Atom)) (hok : AssOK ass) (mn mx : Nat) (hc : Counted mn mx) :
    ∃ body, gItems cap (Grapheme.mk (ass.map untok) [] mn mx) = [Pat.rep body mn (some mx) true] ∧
      ass.length ≤ Pat.minLen body ∧ Pat.Thresh r l body := by
  have hcne : ¬ (mn = 1 ∧ mx = 1) := by rcases hc with h | ⟨h, h'⟩ <;> omega
  by_cases hs : SingleUnit ass
  · obtain ⟨a, rfl, hne92⟩ := hs
    have hsb : singleB ([[a]].map untok) = true := (singleB_iff [[a]] hok).mpr ⟨a, rfl, hne92⟩
    have hta : tokens (untok [a]) = [a] := tokens_untok [a] (hok.2 [a] List.mem_cons_self).2
    refine ⟨atomPat a, ?_, ?_, ?_⟩
    · simp only [gItems, hcne, ite_false, List.isEmpty_nil, ite_true, hsb]
      simp [hta]
    · cases a <;> simp [atomPat, Pat.minLen]
    · cases a <;> trivial
  · have hsb : singleB (ass.map untok) = false := by
      cases hb' : singleB (ass.map untok) with
      | false => rfl
      | true => exact absurd ((singleB_iff ass hok).mp hb') hs
    refine ⟨Pat.grp cap (catList (unitItems ass)), ?_, ?_, ?_⟩
    · simp only [gItems, hcne, ite_false, List.isEmpty_nil, ite_true, hsb, Bool.false_eq_true, tokens_flat ass hok.2, unitItems_eq]
    · simp only [Pat.minLen, minLen_catList, unitItems_eq, minLen_atoms]
      exact flatten_length_ge ass hok.2
    · simp only [Pat.Thresh, unitItems_eq]
      exact thresh_catList r l _ (thresh_atoms r l _)

theorem expand_length (g : Grapheme) : g.expand.length = g.min * g.chars.length := by
  unfold Grapheme.expand
  generalize g.min = n
  induction n with
  | zero => simp
  | succ k ih => simp only [List.replicate_succ, List.flatten_cons, List.length_append, ih, Nat.succ_mul]; omega

mutual
/-- **one grapheme**: its items honour the thresholds, and they match nothing shorter than the grapheme's expansion -/
theorem gThresh (cfg : Config) (cap : Bool) : (g : Grapheme) → GOK g → GSem g → okW cfg g →
    (∀ p ∈ gItems cap g, Pat.Thresh cfg.minRep cfg.minLen p) ∧ g.min * g.chars.length ≤ ((gItems cap g).map Pat.minLen).sum
  | .mk chars reps mn mx, hok, hsem, hw => by
    simp only [Grapheme.min, Grapheme.chars]
    simp only [GSem] at hsem
    obtain ⟨hle, hnest⟩ := hsem
    simp only [okW] at hw
    rcases GOK_cases chars reps mn mx hok with ⟨as, hne, hasok, rfl, rfl, rfl, rfl⟩ | ⟨ass, hass, rfl, rfl, hc, hb⟩ |
      ⟨ass, hass, rfl, h2, hr, hl, hc, hb⟩
    · -- plain
      have hi : gItems cap (Grapheme.mk [untok as] [] 1 1) = as.map atomPat := by simp [gItems, tokens_untok as hasok]
      rw [hi]
      refine ⟨thresh_atoms _ _ as, ?_⟩
      rw [minLen_atoms]
      have : 1 ≤ as.length := by
        cases as with
        | nil => exact absurd rfl hne
        | cons _ _ => simp
      simpa using this
    · -- counted, flat
      have hcne : ¬ (mn = 1 ∧ mx = 1) := by rcases hc with h | ⟨h, h'⟩ <;> omega
      obtain ⟨body, hi, hlen, hth⟩ := gItems_flat_struct cfg.minRep cfg.minLen cap ass hass mn mx hc
      rw [hi]
      have hcnt : cfg.minRep < mx ∧ cfg.minLen ≤ (ass.map untok).length := by
        rcases hw.1 with h | h
        · exact absurd h hcne
        · exact h
      simp only [List.length_map] at hcnt ⊢
      constructor
      · intro p hp
        simp only [List.mem_singleton] at hp
        subst hp
        exact ⟨Or.inr ⟨mx, rfl, hcnt.1, Nat.le_trans hcnt.2 hlen⟩, hth⟩
      · simp only [List.map_cons, List.map_nil, List.sum_cons, List.sum_nil, Pat.minLen, Nat.add_zero]
        exact Nat.mul_le_mul_left _ hlen
    · -- counted, nested
      have hcne : ¬ (mn = 1 ∧ mx = 1) := by rcases hc with h | ⟨h, h'⟩ <;> omega
      have hre : reps.isEmpty = false := by
        cases reps with
        | nil => exact absurd rfl hr
        | cons _ _ => rfl
      have hi : gItems cap (Grapheme.mk (ass.map untok) reps mn mx) =
          [Pat.rep (Pat.grp cap (catList (gItemsL cap reps))) mn (some mx) true] := by
        simp only [gItems, hcne, ite_false, hre, Bool.false_eq_true]
      rcases hnest with h0 | ⟨hexp, hsl, hfix⟩
      · exact absurd h0 hr
      · have hcnt : cfg.minRep < mx ∧ cfg.minLen ≤ (ass.map untok).length := by
          rcases hw.1 with h | h
          · exact absurd h hcne
          · exact h
        obtain ⟨ih1, ih2⟩ := gThreshL cfg cap reps hl hsl ((okL_iff cfg reps).mp hw.2)
        rw [hexp] at ih2
        have hbody : (ass.map untok).length ≤ Pat.minLen (Pat.grp cap (catList (gItemsL cap reps))) := by
          simp only [Pat.minLen, minLen_catList]; exact ih2
        rw [hi]
        constructor
        · intro p hp
          simp only [List.mem_singleton] at hp
          subst hp
          exact ⟨Or.inr ⟨mx, rfl, hcnt.1, Nat.le_trans hcnt.2 hbody⟩, thresh_catList _ _ _ ih1⟩
        · simp only [List.map_cons, List.map_nil, List.sum_cons, List.sum_nil, Pat.minLen, Nat.add_zero] at hbody ⊢
          exact Nat.mul_le_mul_left _ hbody
/-- **one literal** -/
theorem gThreshL (cfg : Config) (cap : Bool) : (gs : List Grapheme) → GOKL gs → GSemL gs → (∀ g ∈ gs, ok cfg g = true) →
    (∀ p ∈ gItemsL cap gs, Pat.Thresh cfg.minRep cfg.minLen p) ∧ (expandAll gs).length ≤ ((gItemsL cap gs).map Pat.minLen).sum
  | [], _, _, _ => by simp [gItemsL, expandAll]
  | g :: gs, hok, hsem, hw => by
    simp only [GOKL, GSemL] at hok hsem
    obtain ⟨a1, a2⟩ := gThresh cfg cap g hok.1 hsem.1 (ok_okW cfg g (hw g List.mem_cons_self))
    obtain ⟨b1, b2⟩ := gThreshL cfg cap gs hok.2 hsem.2 (fun x hx => hw x (List.mem_cons_of_mem _ hx))
    simp only [gItemsL, expandAll, List.flatMap_cons, List.length_append, List.map_append, List.sum_append]
    constructor
    · intro p hp
      rcases List.mem_append.mp hp with hp | hp
      · exact a1 p hp
      · exact b1 p hp
    · rw [expand_length]
      simp only [expandAll] at b2
      omega
end

/-- a literal whose graphemes honour the (label) contract -/
theorem gThreshLW (cfg : Config) (cap : Bool) : (gs : List Grapheme) → (∀ g ∈ gs, (GOK g ∧ GSem g) ∧ okW cfg g) →
    ∀ p ∈ gItemsL cap gs, Pat.Thresh cfg.minRep cfg.minLen p
  | [], _ => by simp [gItemsL]
  | g :: gs, h => by
    intro p hp
    simp only [gItemsL] at hp
    rcases List.mem_append.mp hp with hp | hp
    · have hg := h g List.mem_cons_self
      exact (gThresh cfg cap g hg.1.1 hg.1.2 hg.2).1 p hp
    · exact gThreshLW cfg cap gs (fun x hx => h x (List.mem_cons_of_mem _ hx)) p hp

/-! ### expressions -/

theorem thresh_subOf (r l : Nat) (cap esc : Bool) (outer : Nat) (e : Expr) (its : List Pat) (bd : Pat)
    (h1 : ∀ p ∈ its, Pat.Thresh r l p) (h2 : Pat.Thresh r l bd) : ∀ p ∈ subOf cap esc outer e its bd, Pat.Thresh r l p := by
  unfold subOf
  split
  · intro p hp; simp only [List.mem_singleton] at hp; subst hp; exact h2
  · exact h1

theorem thresh_optOf (r l : Nat) (its : List Pat) (h : ∀ p ∈ its, Pat.Thresh r l p) : ∀ p ∈ optOf its, Pat.Thresh r l p := by
  unfold optOf
  split
  · rename_i p
    intro q hq
    simp only [List.mem_singleton] at hq
    subst hq
    exact ⟨Or.inl ⟨rfl, rfl⟩, h p (by simp)⟩
  · exact h

mutual
theorem bothR_thresh (cfg : Config) (cap esc : Bool) : ∀ (e : Expr), e.WFQ (okW cfg) →
    (∀ p ∈ (e.bothR cap esc).1, Pat.Thresh cfg.minRep cfg.minLen p) ∧ Pat.Thresh cfg.minRep cfg.minLen (e.bothR cap esc).2
  | .lit c, hw => by
    have h := gThreshLW cfg cap c hw
    simp only [Expr.bothR]
    exact ⟨h, thresh_catList _ _ _ h⟩
  | .cls cs, _ => by
    have h : ∀ p ∈ [Spec.Pat.set (classItems cs) false], Pat.Thresh cfg.minRep cfg.minLen p := by
      intro p hp; simp only [List.mem_singleton] at hp; subst hp; trivial
    simp only [Expr.bothR]
    exact ⟨h, thresh_catList _ _ _ h⟩
  | .cat a b, hw => by
    have ia := bothR_thresh cfg cap esc a hw.1
    have ib := bothR_thresh cfg cap esc b hw.2
    have h : ∀ p ∈ subOf cap esc 2 a (a.bothR cap esc).1 (a.bothR cap esc).2 ++ subOf cap esc 2 b (b.bothR cap esc).1 (b.bothR cap esc).2,
        Pat.Thresh cfg.minRep cfg.minLen p := by
      intro p hp
      simp only [List.mem_append] at hp
      rcases hp with hp | hp
      · exact thresh_subOf _ _ cap esc 2 a _ _ ia.1 ia.2 p hp
      · exact thresh_subOf _ _ cap esc 2 b _ _ ib.1 ib.2 p hp
    simp only [Expr.bothR]
    exact ⟨h, thresh_catList _ _ _ h⟩
  | .rep e q, hw => by
    have ie := bothR_thresh cfg cap esc e hw.2.2
    have h := thresh_optOf _ _ _ (thresh_subOf _ _ cap esc 3 e _ _ ie.1 ie.2)
    simp only [Expr.bothR]
    exact ⟨h, thresh_catList _ _ _ h⟩
  | .alt os, hw => by
    simp only [Expr.bothR]
    exact ⟨by simp, thresh_altList _ _ _ (bothLR_thresh cfg cap esc os hw.2)⟩
theorem bothLR_thresh (cfg : Config) (cap esc : Bool) : ∀ (os : List Expr), Expr.WFLQ (okW cfg) os →
    ∀ p ∈ Expr.bothLR cap esc os, Pat.Thresh cfg.minRep cfg.minLen p
  | [], _ => by simp [Expr.bothLR]
  | o :: os, hw => by
    intro p hp
    simp only [Expr.bothLR, List.mem_cons] at hp
    rcases hp with rfl | hp
    · exact thresh_catList _ _ _ (bothR_thresh cfg cap esc o hw.2.1).1
    · exact bothLR_thresh cfg cap esc os hw.2.2 p hp
end

/-- **the printed pattern honours the thresholds**: for every expression whose literals are printable, consistent graphemes that
satisfy the label contract, printed with any anchors (with or without capturing groups, `-e`, `-i`) -/
theorem printed_thresh (cfg : Config) (i cap esc ns ne : Bool) (e : Expr) (hw : e.WFQ (okW cfg)) :
    ∃ P, Spec.parse (ciPrefix i ++ fmtRegExp (cfgAnch cap esc ns ne) e) = some (⟨i, false⟩, P) ∧
      Pat.Thresh cfg.minRep cfg.minLen P := by
  have hwr := Expr.WFS.toWFR e (Expr.WFQ.toWFS e hw)
  refine ⟨_, parse_ci_prefixG _ _ (flags_printedAR cap esc ns ne e hwr) (parse_printedAR cap esc ns ne e hwr) i, ?_⟩
  apply thresh_catList
  intro p hp
  simp only [List.mem_append] at hp
  rcases hp with hp | hp | hp
  · unfold preA at hp; split at hp
    · simp at hp
    · simp only [List.mem_singleton] at hp; subst hp; trivial
  · unfold topItemsR at hp
    split at hp
    · simp only [List.mem_singleton] at hp; subst hp; exact (bothR_thresh cfg cap esc e hw).2
    · exact (bothR_thresh cfg cap esc e hw).1 p hp
  · unfold postA at hp; split at hp
    · simp at hp
    · simp only [List.mem_singleton] at hp; subst hp; trivial

/-! ### the run -/

/-- what the label contract needs of a grapheme -/
def LabelOK (cfg : Config) (g : Grapheme) : Prop := (GOK g ∧ GSem g) ∧ okW cfg g

/-- the clusters S4 hands to the trie honour the thresholds -/
theorem rep_clusters_ok (cfg : Config) (hrep : cfg.rep = true) (hmr : 1 ≤ cfg.minRep) (env : Env) (ws : List Str) (st : Stages)
    (h : regExpFrom cfg env ws = .ok st) (hseg : ∀ w ∈ storedCases cfg env ws, SegOK env w)
    (hlen : ∀ w ∈ storedCases cfg env ws, (subPieces (env.segOf w)).length ≤ 1000) :
    ∀ cl ∈ st.clusters, (∀ g ∈ cl, LabelOK cfg g) ∧ ∀ g ∈ cl, g.min = g.max := by
  have hlit := rep_clusters_lit cfg hrep hmr env ws st h hseg hlen
  obtain ⟨hsorted, hcl, _, _, _⟩ := from_stages_shape cfg env ws st h
  rw [graphemeClusters_rep cfg env _ hrep, preClusters_eq cfg] at hcl
  intro cl hc
  refine ⟨?_, (hlit cl hc).2⟩
  have hc' := hc
  rw [hcl] at hc'
  simp only [List.map_map, List.mem_map, Function.comp] at hc'
  obtain ⟨w, _, rfl⟩ := hc'
  intro g hg
  refine ⟨(hlit _ hc).1 g hg, ok_okW cfg g ?_⟩
  apply convertRepetitions_ok' cfg _ _ g hg
  intro x hx
  obtain ⟨p, _, rfl⟩ := List.mem_map.mp hx
  exact ⟨[p.flatMap (convChar cfg)], rfl⟩

/-- **whichever expression `RegExp::from` keeps under `-r`**: every grapheme of every literal is printable, consistent and honours the
thresholds -/
theorem rep_final_wfq_na (cfg : Config) (hrep : cfg.rep = true) (hmr : 1 ≤ cfg.minRep) (env : Env) (ws : List Str) (st : Stages)
    (h : regExpFrom cfg env ws = .ok st) (hseg : ∀ w ∈ storedCases cfg env ws, SegOK env w)
    (hlen : ∀ w ∈ storedCases cfg env ws, (subPieces (env.segOf w)).length ≤ 1000) (hws : ws ≠ []) :
    st.finalAst.WFQ (okW cfg) := by
  obtain ⟨hsorted, hcl, htrie, hmin, hfirst⟩ := from_stages_shape cfg env ws st h
  change st.sorted = sortCases (storedCases cfg env ws) at hsorted
  have hall := rep_clusters_ok cfg hrep hmr env ws st h hseg hlen
  have hcounts : ∀ cl ∈ st.clusters, ∀ g ∈ cl, g.min = g.max := fun cl hc => (hall cl hc).2
  obtain ⟨ht, _, _, hra⟩ := Dfa.trie_r st.clusters hcounts
  have hr := Dfa.trie_rangeOK st.clusters hcounts
  have hlabels : ∀ e ∈ (Dfa.trie st.clusters).edges, LabelOK cfg e.label :=
    Dfa.trie_labels_r (LabelOK cfg) (fun a g ha hg hc hm => okW_widen cfg a g ha hg hc hm) st.clusters
      (fun cl hcl g hg => (hall cl hcl).1 g hg)
  have hlabT : LabelsS_Q (okW cfg) (Dfa.trie st.clusters) := by
    intro q hqe g hg
    simp only [List.mem_singleton] at hg
    subst hg
    exact hlabels q hqe
  rcases from_final_three cfg env ws st h with hf | hf | hf
  · -- the first candidate
    obtain ⟨p, hpp, hst⟩ := Dfa.minimizePartition_stableR ht
    have hm : Dfa.minimize (Dfa.trie st.clusters) Dfa.pickMin = some (Dfa.recreate (Dfa.trie st.clusters) Dfa.pickMin p) := by
      simp only [Dfa.minimize, hpp, Option.map_some]
    rw [htrie] at hmin
    rw [hmin] at hm
    have hme : st.minimized = Dfa.recreate (Dfa.trie st.clusters) Dfa.pickMin p := Option.some.inj hm
    have hinit : st.minimized.init < st.minimized.nodes := by
      rw [hme]
      show Dfa.classOf p (Dfa.trie st.clusters).init < p.length
      exact classOf_lt hst.pinv _ (by rw [ht.init0]; exact ht.pos)
    have hdst : ∀ e ∈ st.minimized.edges, e.dst < st.minimized.nodes := by
      rw [hme]
      intro q hqe
      obtain ⟨b, hb, e, he, rfl⟩ := (Dfa.mem_recreate_edges _ Dfa.pickMin p q).mp hqe
      have hee := ((Dfa.mem_outEdges' _ _ e).mp he).1
      show Dfa.classOf p e.dst < p.length
      exact classOf_lt hst.pinv _ (ht.lt e hee).2
    have hlab : LabelsS_Q (okW cfg) st.minimized := by
      rw [hme]
      intro q hqe g hg
      simp only [List.mem_singleton] at hg
      subst hg
      obtain ⟨b, hb, e, he, rfl⟩ := (Dfa.mem_recreate_edges _ Dfa.pickMin p q).mp hqe
      exact hlabels e ((Dfa.mem_outEdges' _ _ e).mp he).1
    have hacyc : ∀ c w, Dfa.Path st.minimized c w c → w = [] := by
      rw [hme]; exact fun c w pth => Dfa.recreate_acyclic_r hst ht hr hra c w pth
    have := ofDfa_wf_Q cfg.cap cfg.esc st.minimized hlab (dfsOK_of_bounded _ hinit hdst) hacyc
    rw [hf, ofDfa_congr (c1 := cfg) (c2 := cfgPlain cfg.cap cfg.esc) rfl _]
    exact this
  · have hdfs := dfsOK_of_bounded (Dfa.trie st.clusters) (by rw [ht.init0]; exact ht.pos) (fun e he => (ht.lt e he).2)
    have hacyc : ∀ c w, Dfa.Path (Dfa.trie st.clusters) c w c → w = [] := by
      intro c w pth
      apply Classical.byContradiction
      intro hw
      have := Dfa.Path.lt_of_ne_nil (fun e he => (ht.lt e he).1) pth hw
      omega
    have := ofDfa_wf_Q cfg.cap cfg.esc (Dfa.trie st.clusters) hlabT hdfs hacyc
    rw [hf, htrie, ofDfa_congr (c1 := cfg) (c2 := cfgPlain cfg.cap cfg.esc) rfl _]
    exact this
  · rw [hf]
    apply Expr.wf_newAlternation_Q
    · intro e he
      obtain ⟨c, hc, rfl⟩ := List.mem_map.mp he
      exact (hall c hc).1
    · intro hc
      have hcn : st.clusters = [] := by simpa using hc
      rw [graphemeClusters_rep cfg env _ hrep, preClusters_eq cfg] at hcl
      rw [hcl] at hcn
      have hs0 : st.sorted = [] := by simpa using hcn
      rw [hsorted] at hs0
      have hws1 : storedCases cfg env ws ≠ [] := by
        unfold storedCases lowerCases
        split <;> simpa using hws
      cases hw : storedCases cfg env ws with
      | nil => exact hws1 hw
      | cons a r =>
        have : a ∈ sortCases (storedCases cfg env ws) := (sortCases_mem' _ a).mpr (by rw [hw]; exact List.mem_cons_self)
        rw [hs0] at this
        cases this

/-- **C13 with `-r`, at the level of the pattern the regex crate builds, all inputs** (any class options, `-i`, capturing groups, `-e`,
any anchors; plain printing): the returned text is accepted by the model of `Regex::new`, and in the compiled pattern every
repetition operator is `?` or a counted repetition whose upper count exceeds `minimum_repetitions` and whose operand matches no
string shorter than `minimum_substring_length` -/
theorem rep_thresholds (cfg : Config) (hp : RepPrintNA cfg) (env : Env) (ws : List Str) (st : Stages)
    (h : regExpFrom cfg env ws = .ok st) (hseg : ∀ w ∈ storedCases cfg env ws, SegOK env w)
    (hlen : ∀ w ∈ storedCases cfg env ws, (subPieces (env.segOf w)).length ≤ 1000) (hws : ws ≠ []) :
    ∃ P, Spec.parse (fmtRegExp cfg st.finalAst) = some (⟨cfg.ci, false⟩, P) ∧ Pat.Thresh cfg.minRep cfg.minLen P := by
  have hw := rep_final_wfq_na cfg hp.rep hp.minRep env ws st h hseg hlen hws
  rw [fmtRegExp_repPrint cfg hp]
  exact printed_thresh cfg cfg.ci cfg.cap cfg.esc cfg.noStart cfg.noEnd st.finalAst hw

end Grexv
