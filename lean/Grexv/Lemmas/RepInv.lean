import Grexv.Lemmas.WFExprS

/-
What S4 (`convert_repetitions`) and the widening merge of S5 guarantee about every grapheme under `-r` (no class option): it is
well-formed for printing (`GOK`: its strings are spelled by atoms, it is plain or counted with a count range that is printed as a
quantifier, nested repetitions only in a unit of several graphemes) and semantically consistent (`GSem`: no class tokens, nested
repetitions expand to the unit).
-/
set_option linter.unusedSimpArgs false
set_option linter.unusedVariables false
namespace Grexv
open Spec

/-- every value is spelled by atoms -/
def ValsOK (vals : List Str) : Prop :=
  ∀ v ∈ vals, ∃ as, as ≠ [] ∧ AtomsOK as ∧ v = untok as

theorem valsOK_ass (vals : List Str) (h : ValsOK vals) (hne : vals ≠ []) :
    ∃ ass, AssOK ass ∧ vals = ass.map untok := by
  induction vals with
  | nil => exact absurd rfl hne
  | cons v r ih =>
    obtain ⟨as, hasne, hasok, rfl⟩ := h v List.mem_cons_self
    by_cases hr : r = []
    · subst hr
      refine ⟨[as], ⟨by simp, ?_⟩, rfl⟩
      intro x hx; simp at hx; subst hx; exact ⟨hasne, hasok⟩
    · obtain ⟨ass, hok, hr'⟩ := ih (fun x hx => h x (List.mem_cons_of_mem _ hx)) hr
      refine ⟨as :: ass, ⟨by simp, ?_⟩, by rw [hr']; rfl⟩
      intro x hx
      simp only [List.mem_cons] at hx
      rcases hx with rfl | hx
      · exact ⟨hasne, hasok⟩
      · exact hok.2 x hx

/-- the filter of `create_ranges_of_repetitions` -/
theorem createRanges_count (cfg : Config) (m : SubMap) : ∀ rp ∈ createRanges cfg m, (rp.1.2 - rp.1.1) / rp.2.length > cfg.minRep := by
  intro rp hrp
  simp only [createRanges, List.mem_flatMap, List.mem_map, List.mem_filter, decide_eq_true_eq] at hrp
  obtain ⟨kv, _, r, ⟨_, hr⟩, rfl⟩ := hrp
  exact hr

/-- what the splice loop leaves: original graphemes, or counted ones cut out of the values -/
def Spliced (cfg : Config) (vals : List Str) (g : Grapheme) : Prop :=
  (∃ s ∈ vals, g = Grapheme.ofStr s) ∨
  (∃ sub : List Str, sub ≠ [] ∧ (∀ s ∈ sub, s ∈ vals) ∧ sub.length ≤ vals.length ∧ ∃ n, cfg.minRep < n ∧ n ≤ vals.length ∧ g = Grapheme.mk sub [] n n)

theorem spliceLoop_spliced (cfg : Config) (vals : List Str) :
    ∀ (rs : List RepRange) (acc : Cluster), (∀ rp ∈ rs, Tiles vals rp.2 rp.1.1 rp.1.2 ∧ (rp.1.2 - rp.1.1) / rp.2.length > cfg.minRep) →
      (∀ g ∈ acc, Spliced cfg vals g) → ∀ g ∈ spliceLoop cfg rs acc, Spliced cfg vals g := by
  intro rs
  induction rs with
  | nil => intro acc _ h; simpa [spliceLoop] using h
  | cons rp rest ih =>
    intro acc ht h
    obtain ⟨r, substr⟩ := rp
    have hrest := fun x hx => ht x (List.mem_cons_of_mem _ hx)
    simp only [spliceLoop]
    split
    · exact h
    · split
      · exact ih acc hrest h
      · apply ih _ hrest
        intro g hg
        simp only [splice, List.mem_append, List.mem_cons, List.mem_nil_iff, or_false] at hg
        rcases hg with (hg | hg) | hg
        · exact h g (List.mem_of_mem_take hg)
        · subst hg
          obtain ⟨⟨n, hn, hb, hlen, hocc⟩, hcnt⟩ := ht (r, substr) List.mem_cons_self
          simp only at hb hlen hocc hcnt
          have hcount : (r.2 - r.1) / substr.length = n := by
            rw [hb, Nat.add_sub_cancel_left]
            exact Nat.mul_div_cancel n (by omega)
          have hbound := (tiles_nonempty vals substr r.1 r.2 ⟨n, hn, hb, hlen, hocc⟩).2
          right
          have h0 := hocc 0 (by omega)
          simp only [Nat.zero_mul, Nat.add_zero] at h0
          refine ⟨substr, ?_, ?_, ?_, (r.2 - r.1) / substr.length, hcnt, ?_, rfl⟩
          · intro hc; rw [hc] at hlen; simp at hlen
          · intro s hs
            exact occ_mem vals substr r.1 h0 s hs
          · have := occ_bound vals substr r.1 h0; omega
          · rw [hcount]
            have : n ≤ n * substr.length := Nat.le_mul_of_pos_right n (by omega)
            omega
        · exact h g (List.mem_of_mem_drop hg)

theorem valsOK_sub (vals sub : List Str) (h : ValsOK vals) (hs : ∀ s ∈ sub, s ∈ vals) : ValsOK sub :=
  fun v hv => h v (hs v hv)

/-- **S4 at every recursion depth** every grapheme it produces is well-formed for printing and semantically consistent -/
theorem convertRepsAux_inv (cfg : Config) (hmr : 1 ≤ cfg.minRep) : ∀ (fuel : Nat) (ss : List Str) (res : Cluster),
    ValsOK ss → ss.length ≤ 1000 → convertRepsAux cfg fuel (ss.map Grapheme.ofStr) = some res → ∀ g ∈ res, GOK g ∧ GSem g ∧ g.min = g.max := by
  intro fuel
  induction fuel with
  | zero => intro ss res _ _ h; simp [convertRepsAux] at h
  | succ f ih =>
    intro ss res hv hlen h
    simp only [convertRepsAux] at h
    split at h
    · simp at h
    · simp only [Option.some.injEq] at h
      subst h
      rw [map_value_plain]
      have hok := collectRepeated_ok ss
      have htiles := createRanges_tiles cfg ss _ hok
      have hne : ∀ r ∈ createRanges cfg (collectRepeated ss), r.1.1 < r.1.2 :=
        fun r hr => (tiles_nonempty ss _ _ _ (htiles r hr)).1
      obtain ⟨_, hsub⟩ := coalesceRepetitions_spec _ hne
      have ht2 : ∀ rp ∈ coalesceRepetitions (createRanges cfg (collectRepeated ss)),
          Tiles ss rp.2 rp.1.1 rp.1.2 ∧ (rp.1.2 - rp.1.1) / rp.2.length > cfg.minRep :=
        fun rp hrp => ⟨htiles rp (hsub rp hrp), createRanges_count cfg _ rp (hsub rp hrp)⟩
      have hsp := spliceLoop_spliced cfg ss _ (ss.map Grapheme.ofStr) ht2 (by
        intro g hg
        obtain ⟨s, hs, rfl⟩ := List.mem_map.mp hg
        exact Or.inl ⟨s, hs, rfl⟩)
      intro g hg
      simp only [nestWith, List.mem_map] at hg
      obtain ⟨g0, hg0, rfl⟩ := hg
      rcases hsp g0 hg0 with ⟨s, hs, rfl⟩ | ⟨sub, hsubne, hsubmem, hsl0, n, hn1, hn2, rfl⟩
      · -- an original grapheme
        obtain ⟨as, hasne, hasok, rfl⟩ := hv s hs
        simp only [Grapheme.ofStr, Grapheme.chars, Grapheme.reps, Grapheme.min, Grapheme.max, List.map_cons, List.map_nil,
          convertRepsAux_single, Option.getD_none]
        refine ⟨?_, ?_, (by first | rfl | trivial)⟩
        · simp only [GOK]
          refine ⟨⟨[as], ⟨by simp, ?_⟩, rfl⟩, Nat.le_refl _, Or.inl ⟨(by first | rfl | trivial), (by first | rfl | trivial), (by first | rfl | trivial), (by first | rfl | trivial)⟩⟩
          intro x hx; simp at hx; subst hx; exact ⟨hasne, hasok⟩
        · simp only [GSem]
          exact ⟨Nat.le_refl _, Or.inl (by first | rfl | trivial)⟩
      · -- a counted grapheme cut out of the values
        have hvsub := valsOK_sub ss sub hv hsubmem
        obtain ⟨ass, hassok, hsubeq⟩ := valsOK_ass sub hvsub hsubne
        have hcounted : Counted n n := Or.inr ⟨rfl, by omega⟩
        have hn1000 : n ≤ 1000 := by omega
        have hsublen : sub.length ≤ 1000 := by omega
        simp only [Grapheme.chars, Grapheme.reps, Grapheme.min, Grapheme.max]
        cases hf : convertRepsAux cfg f (sub.map Grapheme.ofStr) with
        | none =>
          simp only [Option.getD_none]
          refine ⟨?_, ?_, (by first | rfl | trivial)⟩
          · simp only [GOK]
            exact ⟨⟨ass, hassok, hsubeq⟩, by omega, Or.inr ⟨hcounted, hn1000, Or.inl (by first | rfl | trivial)⟩⟩
          · simp only [GSem]
            exact ⟨Nat.le_refl _, Or.inl (by first | rfl | trivial)⟩
        | some reps =>
          simp only [Option.getD_some]
          have hrec := ih sub reps hvsub hsublen hf
          have hspec := convertRepsAux_spec cfg f sub reps hf
          have hrne : reps ≠ [] := by
            intro hc
            rw [hc] at hspec
            simp only [expandAll, List.flatMap_nil] at hspec
            exact hsubne hspec.1.symm
          have h2 : 2 ≤ sub.length := by
            have h1 : 1 ≤ sub.length := List.length_pos_iff.mpr hsubne
            by_cases h : sub.length = 1
            · exfalso
              match sub, h with
              | [x], _ => simp [convertRepsAux_single] at hf
            · omega
          have hgokl : ∀ (l : List Grapheme), (∀ r ∈ l, GOK r ∧ GSem r) → GOKL l ∧ GSemL l := by
            intro l
            induction l with
            | nil => intro _; exact ⟨trivial, trivial⟩
            | cons a t iht =>
              intro hl
              have := iht (fun r hr => hl r (List.mem_cons_of_mem _ hr))
              exact ⟨⟨(hl a List.mem_cons_self).1, this.1⟩, ⟨(hl a List.mem_cons_self).2, this.2⟩⟩
          obtain ⟨hrl, hsl⟩ := hgokl reps (fun r hr => ⟨(hrec r hr).1, (hrec r hr).2.1⟩)
          refine ⟨?_, ?_, (by first | rfl | trivial)⟩
          · simp only [GOK]
            refine ⟨⟨ass, hassok, hsubeq⟩, by omega, Or.inr ⟨hcounted, hn1000, Or.inr ⟨h2, hrne, hrl⟩⟩⟩
          · simp only [GSem]
            exact ⟨Nat.le_refl _, Or.inr ⟨hspec.1, hsl, fun r hr => (hrec r hr).2.2⟩⟩

end Grexv
