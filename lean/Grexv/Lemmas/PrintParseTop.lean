import Grexv.Lemmas.PrintParse

/-
Top level of print → parse: the whole text `Display for RegExp` writes with plain settings (`^ body $`)
is accepted by `Regex::new` (the Spec parser) and the resulting pattern, matched against a whole string,
decides membership in the string-level language of the expression.
-/
set_option linter.unusedSimpArgs false
set_option linter.unusedVariables false
namespace Grexv
open Spec

/-- the items of the top-level concatenation between the anchors -/
def topItems (cap esc : Bool) (e : Expr) : List Pat :=
  if e.isAlt then [Pat.grp cap (e.both cap esc).2] else (e.both cap esc).1

def topToks (cap esc : Bool) (e : Expr) : Nat := if e.isAlt then (e.toks cap esc).2 + 2 else (e.toks cap esc).1

theorem bodyText_eq (cap esc : Bool) (e : Expr) :
    bodyText (cfgPlain cap esc) e = if e.isAlt then lp cap ++ (fmtExpr (cfgPlain cap esc) e ++ [41]) else fmtExpr (cfgPlain cap esc) e := by
  cases e with
  | alt os =>
    simp only [bodyText, Expr.isAlt, ite_true]
    cases cap <;> simp [Comp.paren, Comp.leftParen, Comp.rightParen, cfgPlain, paint, lp, Gen.strCapturedLeftParen,
      Gen.strUncapturedLeftParen, Gen.strRightParen]
  | _ => simp [bodyText, Expr.isAlt]

theorem fmtRegExp_plain (cap esc : Bool) (e : Expr) :
    fmtRegExp (cfgPlain cap esc) e = 94 :: (R (bodyText (cfgPlain cap esc) e) ++ [36]) := by
  simp only [fmtRegExp, cfgPlain, Bool.false_and, Bool.false_eq_true, ite_false, Comp.caret, Comp.dollar, paint,
    Gen.strCaret, Gen.strDollar, List.append_nil, List.nil_append]
  show R ([94] ++ (bodyText _ e ++ [36])) = _
  rw [R_append, R_append]
  rfl

theorem top_parse (cap esc : Bool) (e : Expr) (hwf : e.WF) (f : Nat) :
    parseLoop false (f + topToks cap esc e) (R (bodyText (cfgPlain cap esc) e) ++ [36]) [] [] [Pat.bol] =
      parseLoop false f [36] [] [] ((topItems cap esc e).reverse ++ [Pat.bol]) := by
  have pe := Expr.pp cap esc e hwf
  rw [bodyText_eq, topToks, topItems]
  cases ha : e.isAlt with
  | true =>
    simp only [ite_true, R_append, R_lp, List.append_assoc]
    have hR41 : R [41] = [41] := by decide
    rw [hR41]
    have hfuel : f + ((e.toks cap esc).2 + 2) = (f + ((e.toks cap esc).2 + 1)) + 1 := by omega
    rw [hfuel]
    cases cap with
    | true =>
      simp only [lp, ite_true, List.singleton_append, List.cons_append, List.nil_append]
      rw [step_lparen_cap _ _ (pe.head _ (by simp)), pe.body]
      simp
    | false =>
      simp only [lp, Bool.false_eq_true, ite_false, List.cons_append, List.nil_append, List.singleton_append]
      rw [step_lparen_noncap, pe.body]
      simp
  | false =>
    simp only [Bool.false_eq_true, ite_false]
    exact pe.items ha f [36] [] [] [Pat.bol] (by intro _; simp)

theorem top_len (cap esc : Bool) (e : Expr) (hwf : e.WF) : topToks cap esc e ≤ (R (bodyText (cfgPlain cap esc) e)).length := by
  have pe := Expr.pp cap esc e hwf
  rw [bodyText_eq, topToks]
  cases ha : e.isAlt with
  | true =>
    simp only [ite_true, R_append, R_lp, List.length_append]
    have := pe.len2
    have h41 : (R [41]).length = 1 := by decide
    have hlp : 1 ≤ (lp cap).length := by cases cap <;> simp [lp]
    omega
  | false =>
    simp only [Bool.false_eq_true, ite_false]
    exact pe.len1 ha

/-- **`Regex::new` accepts the printed text and reads it as `^ items $`** -/
theorem parse_printed (cap esc : Bool) (e : Expr) (hwf : e.WF) :
    Spec.parse (fmtRegExp (cfgPlain cap esc) e) =
      some (⟨false, false⟩, catList (Pat.bol :: (topItems cap esc e ++ [Pat.eol]))) := by
  rw [fmtRegExp_plain]
  have hflags : parseFlags (94 :: (R (bodyText (cfgPlain cap esc) e) ++ [36])) =
      (⟨false, false⟩, 94 :: (R (bodyText (cfgPlain cap esc) e) ++ [36])) := by
    simp [parseFlags]
  simp only [Spec.parse, hflags]
  have hlen := top_len cap esc e hwf
  generalize hT : topToks cap esc e = T at hlen
  generalize hB : R (bodyText (cfgPlain cap esc) e) = B at hlen
  have hfuel : 2 * (94 :: (B ++ [36])).length + 4 = (((2 * B.length + 5 - T) + 1 + 1) + T) + 1 := by
    simp only [List.length_cons, List.length_append, List.length_nil]; omega
  rw [hfuel, step_caret, ← hT, ← hB, top_parse cap esc e hwf, step_dollar, step_end]
  simp [closeFrame, altList]

/-! ### what the parsed pattern accepts -/

theorem matchP_catList_eol (i : Bool) (its : List Pat) : ∀ (n : Nat) (s : List Nat) (st : Pos),
    st ∈ matchP i (catList (its ++ [Pat.eol])) (n, s) ↔ (st ∈ matchP i (catList its) (n, s) ∧ st.2 = []) := by
  induction its with
  | nil =>
    intro n s st
    simp only [List.nil_append, catList, matchP, List.mem_singleton]
    constructor
    · intro h
      split at h
      · rename_i he
        simp only [List.mem_singleton] at h
        subst h
        exact ⟨rfl, by simpa using he⟩
      · simp at h
    · rintro ⟨rfl, he⟩
      simp only at he
      simp [he]
  | cons p ps ih =>
    intro n s st
    have hne : ps ++ [Pat.eol] ≠ [] := by simp
    have hL : catList (p :: (ps ++ [Pat.eol])) = Pat.cat p (catList (ps ++ [Pat.eol])) := by
      cases h : ps ++ [Pat.eol] with
      | nil => exact absurd h hne
      | cons a as => rfl
    simp only [List.cons_append, hL, matchP, List.mem_flatMap]
    cases ps with
    | nil =>
      simp only [List.nil_append, catList]
      constructor
      · rintro ⟨st1, h1, h2⟩
        obtain ⟨a, b⟩ := st1
        simp only [matchP] at h2
        split at h2
        · rename_i he
          simp only [List.mem_singleton] at h2
          subst h2
          exact ⟨h1, by simpa using he⟩
        · simp at h2
      · rintro ⟨h1, he⟩
        refine ⟨st, h1, ?_⟩
        obtain ⟨a, b⟩ := st
        simp only at he
        subst he
        simp [matchP]
    | cons q qs =>
      simp only [catList, matchP, List.mem_flatMap]
      constructor
      · rintro ⟨st1, h1, h2⟩
        obtain ⟨a, b⟩ := st1
        obtain ⟨h3, h4⟩ := (ih a b st).mp h2
        exact ⟨⟨(a, b), h1, h3⟩, h4⟩
      · rintro ⟨⟨st1, h1, h3⟩, h4⟩
        obtain ⟨a, b⟩ := st1
        exact ⟨(a, b), h1, (ih a b st).mpr ⟨h3, h4⟩⟩

theorem fullMatch_anchored_items (i : Bool) (its : List Pat) (hf : ∀ p ∈ its, p.Frag) (s : List Nat) :
    fullMatch i (catList (Pat.bol :: (its ++ [Pat.eol]))) s = true ↔ denL i its s := by
  have hne : its ++ [Pat.eol] ≠ [] := by simp
  have hL : catList (Pat.bol :: (its ++ [Pat.eol])) = Pat.cat Pat.bol (catList (its ++ [Pat.eol])) := by
    cases h : its ++ [Pat.eol] with
    | nil => exact absurd h hne
    | cons a as => rfl
  simp only [fullMatch, hL, matchP, ite_true, List.flatMap_cons, List.flatMap_nil, List.append_nil, List.any_eq_true,
    List.isEmpty_iff]
  rw [← den_catList i]
  constructor
  · rintro ⟨st, hst, he⟩
    obtain ⟨h1, _⟩ := (matchP_catList_eol i its 0 s st).mp hst
    obtain ⟨u, hu, hs, _⟩ := (matchP_exact i _ (frag_catList its hf) 0 s st).mp h1
    rw [he] at hs
    simp at hs; subst hs; exact hu
  · intro h
    refine ⟨(s.length, []), ?_, rfl⟩
    apply (matchP_catList_eol i its 0 s _).mpr
    exact ⟨(matchP_exact i _ (frag_catList its hf) 0 s _).mpr ⟨s, h, by simp, by simp⟩, rfl⟩

/-- the text of the case-insensitivity flag -/
def ciPrefix (i : Bool) : Str := if i then [40, 63, 105, 41] else []

/-- a leading `(?i)` only sets the flag -/
theorem parse_ci_prefix (r : Str) (P : Pat) (h : Spec.parse (94 :: r) = some (⟨false, false⟩, P)) (i : Bool) :
    Spec.parse (ciPrefix i ++ 94 :: r) = some (⟨i, false⟩, P) := by
  cases i with
  | false => exact h
  | true =>
    have h0 : parseFlags (94 :: r) = (⟨false, false⟩, 94 :: r) := by simp [parseFlags]
    have h1 : parseFlags (ciPrefix true ++ 94 :: r) = (⟨true, false⟩, 94 :: r) := by simp [parseFlags, ciPrefix]
    simp only [Spec.parse, h0, h1] at h ⊢
    cases hl : parseLoop false (2 * (94 :: r).length + 4) (94 :: r) [] [] [] with
    | none => rw [hl] at h; simp at h
    | some p =>
      rw [hl] at h
      simp only [Option.map_some, Option.some.injEq, Prod.mk.injEq, true_and] at h
      simp [h]

/-- **print → parse → match** for every well-formed expression and every scalar string, with or without `(?i)`: the
pattern the regex crate builds from the printed text accepts the string iff it is in the string-level language of
the expression (under `(?i)`: up to simple case folding, position by position) -/
theorem printed_accepts_ci (i : Bool) (cap esc : Bool) (e : Expr) (hwf : e.WF) (s : Str) (hs : ∀ c ∈ s, Scalar c) :
    ∃ P, Spec.parse (ciPrefix i ++ fmtRegExp (cfgPlain cap esc) e) = some (⟨i, false⟩, P) ∧
      (fullMatch i P s = true ↔ e.strLang i s) := by
  have hpp := parse_printed cap esc e hwf
  rw [fmtRegExp_plain] at hpp
  refine ⟨_, by rw [fmtRegExp_plain]; exact parse_ci_prefix _ _ hpp i, ?_⟩
  have hd := Expr.both_den i cap esc e hwf s hs
  have hfr := Expr.both_frag cap esc e
  rw [fullMatch_anchored_items]
  · unfold topItems
    cases ha : e.isAlt with
    | true =>
      simp only [ite_true, denL, Pat.den]
      constructor
      · rintro ⟨u, v, rfl, h, rfl⟩; simpa using hd.2.mp (by simpa using h)
      · intro h; exact ⟨s, [], by simp, hd.2.mpr h, rfl⟩
    | false =>
      simp only [Bool.false_eq_true, ite_false]
      exact hd.1 ha
  · unfold topItems
    split
    · intro p hp; simp only [List.mem_singleton] at hp; subst hp; exact hfr.2
    · exact hfr.1

theorem printed_accepts (cap esc : Bool) (e : Expr) (hwf : e.WF) (s : Str) (hs : ∀ c ∈ s, Scalar c) :
    ∃ P, Spec.parse (fmtRegExp (cfgPlain cap esc) e) = some (⟨false, false⟩, P) ∧
      (fullMatch false P s = true ↔ e.strLang false s) :=
  printed_accepts_ci false cap esc e hwf s hs

end Grexv
