import Grexv.Lemmas.PrintParse
import Grexv.Lemmas.PrintSafe
import Grexv.Lemmas.Presentation

/-
Top level of print → parse: the whole text `Display for RegExp` writes with plain settings (`^ body $`)
is accepted by `Regex::new` (the Spec parser) and the resulting pattern, matched against a whole string,
decides membership in the string-level language of the expression.
-/
set_option linter.unusedSimpArgs false
set_option linter.unusedVariables false
namespace Grexv
open Spec

/-- the items of the top-level concatenation between the anchors -/
def topItems (cap esc : Bool) (e : Expr) : List Pat :=
  if e.isAlt then [Pat.grp cap (e.both cap esc).2] else (e.both cap esc).1

def topToks (cap esc : Bool) (e : Expr) : Nat := if e.isAlt then (e.toks cap esc).2 + 2 else (e.toks cap esc).1

theorem bodyText_eq (cap esc : Bool) (e : Expr) :
    bodyText (cfgPlain cap esc) e = if e.isAlt then lp cap ++ (fmtExpr (cfgPlain cap esc) e ++ [41]) else fmtExpr (cfgPlain cap esc) e := by
  cases e with
  | alt os =>
    simp only [bodyText, Expr.isAlt, ite_true]
    cases cap <;> simp [Comp.paren, Comp.leftParen, Comp.rightParen, cfgPlain, paint, lp, Gen.strCapturedLeftParen,
      Gen.strUncapturedLeftParen, Gen.strRightParen]
  | _ => simp [bodyText, Expr.isAlt]

theorem fmtRegExp_plain (cap esc : Bool) (e : Expr) :
    fmtRegExp (cfgPlain cap esc) e = 94 :: (R (bodyText (cfgPlain cap esc) e) ++ [36]) := by
  simp only [fmtRegExp, cfgPlain, Bool.false_and, Bool.false_eq_true, ite_false, Comp.caret, Comp.dollar, paint,
    Gen.strCaret, Gen.strDollar, List.append_nil, List.nil_append]
  show R ([94] ++ (bodyText _ e ++ [36])) = _
  rw [R_append, R_append]
  rfl

theorem top_parse (v cap esc : Bool) (e : Expr) (hwf : e.WF) (f : Nat) :
    parseLoop false (f + topToks cap esc e) (RV v (bodyText (cfgPlain cap esc) e) ++ [36]) [] [] [Pat.bol] =
      parseLoop false f [36] [] [] ((topItems cap esc e).reverse ++ [Pat.bol]) := by
  have pe := Expr.pp v cap esc e hwf
  rw [bodyText_eq, topToks, topItems]
  cases ha : e.isAlt with
  | true =>
    simp only [ite_true, RV_append, RV_lp, List.append_assoc]
    have hR41 : RV v [41] = [41] := by cases v <;> decide
    rw [hR41]
    have hfuel : f + ((e.toks cap esc).2 + 2) = (f + ((e.toks cap esc).2 + 1)) + 1 := by omega
    rw [hfuel]
    cases cap with
    | true =>
      simp only [lp, ite_true, List.singleton_append, List.cons_append, List.nil_append]
      rw [step_lparen_cap _ _ (pe.head _ (by simp)), pe.body]
      simp
    | false =>
      simp only [lp, Bool.false_eq_true, ite_false, List.cons_append, List.nil_append, List.singleton_append]
      rw [step_lparen_noncap, pe.body]
      simp
  | false =>
    simp only [Bool.false_eq_true, ite_false]
    exact pe.items ha f [36] [] [] [Pat.bol] (by intro _; simp)

theorem top_len (v cap esc : Bool) (e : Expr) (hwf : e.WF) : topToks cap esc e ≤ (RV v (bodyText (cfgPlain cap esc) e)).length := by
  have pe := Expr.pp v cap esc e hwf
  rw [bodyText_eq, topToks]
  cases ha : e.isAlt with
  | true =>
    simp only [ite_true, RV_append, RV_lp, List.length_append]
    have := pe.len2
    have h41 : (RV v [41]).length = 1 := by cases v <;> decide
    have hlp : 1 ≤ (lp cap).length := by cases cap <;> simp [lp]
    omega
  | false =>
    simp only [Bool.false_eq_true, ite_false]
    exact pe.len1 ha

/-! ### any combination of the two anchors -/

theorem top_parseG (v cap esc : Bool) (e : Expr) (hwf : e.WF) (f : Nat) (rest : List Nat) (co : List Pat)
    (hrest : rest.head? ≠ some 63) :
    parseLoop false (f + topToks cap esc e) (RV v (bodyText (cfgPlain cap esc) e) ++ rest) [] [] co =
      parseLoop false f rest [] [] ((topItems cap esc e).reverse ++ co) := by
  have pe := Expr.pp v cap esc e hwf
  rw [bodyText_eq, topToks, topItems]
  cases ha : e.isAlt with
  | true =>
    simp only [ite_true, RV_append, RV_lp, List.append_assoc]
    have hR41 : RV v [41] = [41] := by cases v <;> decide
    rw [hR41]
    have hfuel : f + ((e.toks cap esc).2 + 2) = (f + ((e.toks cap esc).2 + 1)) + 1 := by omega
    rw [hfuel]
    cases cap with
    | true =>
      simp only [lp, ite_true, List.singleton_append, List.cons_append, List.nil_append]
      rw [step_lparen_cap _ _ (pe.head _ (by simp)), pe.body]
      simp
    | false =>
      simp only [lp, Bool.false_eq_true, ite_false, List.cons_append, List.nil_append, List.singleton_append]
      rw [step_lparen_noncap, pe.body]
      simp
  | false =>
    simp only [Bool.false_eq_true, ite_false]
    exact pe.items ha f rest [] [] co (fun _ => hrest)

theorem body_safe (v cap esc : Bool) (e : Expr) (hwf : e.WF) : Safe (RV v (bodyText (cfgPlain cap esc) e)) := by
  rw [bodyText_eq]
  cases ha : e.isAlt with
  | false => simp only [Bool.false_eq_true, ite_false]; exact Expr.safe v cap esc e hwf
  | true =>
    simp only [ite_true]
    rw [RV_append, RV_lp]
    cases cap with
    | false => exact Or.inr ⟨40, _, rfl, Or.inr ⟨63, _, rfl, Or.inr rfl⟩⟩
    | true =>
      have hh := (Expr.pp v true esc e hwf).head [41] (by simp)
      rw [RV_append]
      have h41 : RV v [41] = [41] := by cases v <;> decide
      rw [h41]
      cases ht : RV v (fmtExpr (cfgPlain true esc) e) ++ [41] with
      | nil => simp at ht
      | cons a r =>
        rw [ht] at hh
        simp only [List.head?_cons, ne_eq, Option.some.injEq] at hh
        exact Or.inr ⟨40, _, rfl, Or.inr ⟨a, r, rfl, Or.inl hh⟩⟩

/-- plain settings with the two anchor switches -/
def cfgAnch (cap esc ns ne : Bool) : Config := { cap := cap, esc := esc, noStart := ns, noEnd := ne }

def preA (ns : Bool) : List Pat := if ns then [] else [Pat.bol]
def postA (ne : Bool) : List Pat := if ne then [] else [Pat.eol]
def preT (ns : Bool) : Str := if ns then [] else [94]
def postT (ne : Bool) : Str := if ne then [] else [36]

theorem bodyText_anch (cap esc ns ne : Bool) (e : Expr) :
    bodyText (cfgAnch cap esc ns ne) e = bodyText (cfgPlain cap esc) e :=
  bodyText_congr (c1 := cfgAnch cap esc ns ne) (c2 := cfgPlain cap esc) ⟨rfl, rfl, rfl, rfl, rfl⟩ e

theorem fmtRegExp_anch (cap esc ns ne : Bool) (e : Expr) :
    fmtRegExp (cfgAnch cap esc ns ne) e = preT ns ++ (R (bodyText (cfgPlain cap esc) e) ++ postT ne) := by
  have hb := bodyText_anch cap esc ns ne e
  have h94 : R [94] = [94] := by decide
  have h36 : R [36] = [36] := by decide
  simp only [fmtRegExp, cfgAnch, Bool.false_and, Bool.false_eq_true, ite_false, Comp.caret, Comp.dollar, paint,
    Gen.strCaret, Gen.strDollar, List.append_nil, List.nil_append] at hb ⊢
  rw [hb]
  show R _ = _
  cases ns <;> cases ne <;> simp only [Bool.false_eq_true, ite_false, ite_true, preT, postT, List.nil_append, List.append_nil]
  · show R ([94] ++ (_ ++ [36])) = _
    rw [R_append, R_append, h94, h36]; rfl
  · show R ([94] ++ _) = _
    rw [R_append, h94]
  · rw [R_append, h36]

/-- **the parser loop reads the printed text as the items between the requested anchors** — for the plain characters
(`v = false`: this is the text `Display for RegExp` writes) and for the characters as verbose mode escapes them; any
sufficient amount of fuel -/
theorem loop_printedA (v cap esc ns ne : Bool) (e : Expr) (hwf : e.WF) (F : Nat)
    (hF : (RV v (bodyText (cfgPlain cap esc) e)).length + 3 ≤ F) :
    parseLoop false F (preT ns ++ (RV v (bodyText (cfgPlain cap esc) e) ++ postT ne)) [] [] [] =
      some (catList (preA ns ++ (topItems cap esc e ++ postA ne))) := by
  have hlen := top_len v cap esc e hwf
  have hbody := fun f rest co h => top_parseG v cap esc e hwf f rest co h
  generalize topToks cap esc e = T at hlen hbody
  generalize RV v (bodyText (cfgPlain cap esc) e) = B at hlen hbody hF
  cases ns <;> cases ne
  · -- ^ body $
    have hfuel : F = ((((F - T - 3)) + 1 + 1) + T) + 1 := by omega
    rw [hfuel]
    simp only [preT, postT, Bool.false_eq_true, ite_false, List.singleton_append]
    rw [step_caret, hbody _ _ _ (by simp), step_dollar, step_end]
    simp [closeFrame, altList, preA, postA]
  · -- ^ body
    have hfuel : F = (((F - T - 2) + 1) + T) + 1 := by omega
    rw [hfuel]
    simp only [preT, postT, Bool.false_eq_true, ite_false, ite_true, List.singleton_append, List.append_nil]
    have := hbody ((F - T - 2) + 1) [] [Pat.bol] (by simp)
    rw [List.append_nil] at this
    rw [step_caret, this, step_end]
    simp [closeFrame, altList, preA, postA]
  · -- body $
    have hfuel : F = (((F - T - 2) + 1) + 1) + T := by omega
    rw [hfuel]
    simp only [preT, postT, Bool.false_eq_true, ite_false, ite_true, List.nil_append]
    rw [hbody _ _ _ (by simp), step_dollar, step_end]
    simp [closeFrame, altList, preA, postA]
  · -- body
    have hfuel : F = ((F - T - 1) + 1) + T := by omega
    rw [hfuel]
    simp only [preT, postT, ite_true, List.nil_append, List.append_nil]
    have := hbody ((F - T - 1) + 1) [] [] (by simp)
    rw [List.append_nil] at this
    rw [this, step_end]
    simp [closeFrame, altList, preA, postA]

/-- **`Regex::new` accepts the printed text and reads it as the items between the requested anchors** -/
theorem parse_printedA (cap esc ns ne : Bool) (e : Expr) (hwf : e.WF) :
    Spec.parse (fmtRegExp (cfgAnch cap esc ns ne) e) =
      some (⟨false, false⟩, catList (preA ns ++ (topItems cap esc e ++ postA ne))) := by
  rw [fmtRegExp_anch]
  have hsafe := body_safe false cap esc e hwf
  have hflags : parseFlags (preT ns ++ (R (bodyText (cfgPlain cap esc) e) ++ postT ne)) =
      (⟨false, false⟩, preT ns ++ (R (bodyText (cfgPlain cap esc) e) ++ postT ne)) := by
    cases ns with
    | false => simp [preT, parseFlags]
    | true =>
      simp only [preT, ite_true, List.nil_append]
      apply parseFlags_safe _ hsafe
      cases ne <;> simp [postT]
  simp only [Spec.parse, hflags]
  have := loop_printedA false cap esc ns ne e hwf
    (2 * (preT ns ++ (R (bodyText (cfgPlain cap esc) e) ++ postT ne)).length + 4)
    (by simp only [List.length_append, RV_false]; omega)
  rw [RV_false] at this
  rw [this]
  rfl

theorem cfgAnch_plain (cap esc : Bool) : cfgAnch cap esc false false = cfgPlain cap esc := rfl

/-- **`Regex::new` accepts the printed text and reads it as `^ items $`** -/
theorem parse_printed (cap esc : Bool) (e : Expr) (hwf : e.WF) :
    Spec.parse (fmtRegExp (cfgPlain cap esc) e) =
      some (⟨false, false⟩, catList (Pat.bol :: (topItems cap esc e ++ [Pat.eol]))) := by
  have := parse_printedA cap esc false false e hwf
  rw [cfgAnch_plain] at this
  rw [this]
  rfl

/-! ### what the parsed pattern accepts -/

theorem matchP_catList_eol (i : Bool) (its : List Pat) : ∀ (n : Nat) (s : List Nat) (st : Pos),
    st ∈ matchP i (catList (its ++ [Pat.eol])) (n, s) ↔ (st ∈ matchP i (catList its) (n, s) ∧ st.2 = []) := by
  induction its with
  | nil =>
    intro n s st
    simp only [List.nil_append, catList, matchP, List.mem_singleton]
    constructor
    · intro h
      split at h
      · rename_i he
        simp only [List.mem_singleton] at h
        subst h
        exact ⟨rfl, by simpa using he⟩
      · simp at h
    · rintro ⟨rfl, he⟩
      simp only at he
      simp [he]
  | cons p ps ih =>
    intro n s st
    have hne : ps ++ [Pat.eol] ≠ [] := by simp
    have hL : catList (p :: (ps ++ [Pat.eol])) = Pat.cat p (catList (ps ++ [Pat.eol])) := by
      cases h : ps ++ [Pat.eol] with
      | nil => exact absurd h hne
      | cons a as => rfl
    simp only [List.cons_append, hL, matchP, List.mem_flatMap]
    cases ps with
    | nil =>
      simp only [List.nil_append, catList]
      constructor
      · rintro ⟨st1, h1, h2⟩
        obtain ⟨a, b⟩ := st1
        simp only [matchP] at h2
        split at h2
        · rename_i he
          simp only [List.mem_singleton] at h2
          subst h2
          exact ⟨h1, by simpa using he⟩
        · simp at h2
      · rintro ⟨h1, he⟩
        refine ⟨st, h1, ?_⟩
        obtain ⟨a, b⟩ := st
        simp only at he
        subst he
        simp [matchP]
    | cons q qs =>
      simp only [catList, matchP, List.mem_flatMap]
      constructor
      · rintro ⟨st1, h1, h2⟩
        obtain ⟨a, b⟩ := st1
        obtain ⟨h3, h4⟩ := (ih a b st).mp h2
        exact ⟨⟨(a, b), h1, h3⟩, h4⟩
      · rintro ⟨⟨st1, h1, h3⟩, h4⟩
        obtain ⟨a, b⟩ := st1
        exact ⟨(a, b), h1, (ih a b st).mpr ⟨h3, h4⟩⟩

theorem fullMatch_anchored_items (i : Bool) (its : List Pat) (hf : ∀ p ∈ its, p.Frag) (s : List Nat) :
    fullMatch i (catList (Pat.bol :: (its ++ [Pat.eol]))) s = true ↔ denL i its s := by
  have hne : its ++ [Pat.eol] ≠ [] := by simp
  have hL : catList (Pat.bol :: (its ++ [Pat.eol])) = Pat.cat Pat.bol (catList (its ++ [Pat.eol])) := by
    cases h : its ++ [Pat.eol] with
    | nil => exact absurd h hne
    | cons a as => rfl
  simp only [fullMatch, hL, matchP, ite_true, List.flatMap_cons, List.flatMap_nil, List.append_nil, List.any_eq_true,
    List.isEmpty_iff]
  rw [← den_catList i]
  constructor
  · rintro ⟨st, hst, he⟩
    obtain ⟨h1, _⟩ := (matchP_catList_eol i its 0 s st).mp hst
    obtain ⟨u, hu, hs, _⟩ := (matchP_exact i _ (frag_catList its hf) 0 s st).mp h1
    rw [he] at hs
    simp at hs; subst hs; exact hu
  · intro h
    refine ⟨(s.length, []), ?_, rfl⟩
    apply (matchP_catList_eol i its 0 s _).mpr
    exact ⟨(matchP_exact i _ (frag_catList its hf) 0 s _).mpr ⟨s, h, by simp, by simp⟩, rfl⟩

/-- the text of the case-insensitivity flag -/
def ciPrefix (i : Bool) : Str := if i then [40, 63, 105, 41] else []

/-- a leading `(?i)` only sets the flag -/
theorem parse_ci_prefix (r : Str) (P : Pat) (h : Spec.parse (94 :: r) = some (⟨false, false⟩, P)) (i : Bool) :
    Spec.parse (ciPrefix i ++ 94 :: r) = some (⟨i, false⟩, P) := by
  cases i with
  | false => exact h
  | true =>
    have h0 : parseFlags (94 :: r) = (⟨false, false⟩, 94 :: r) := by simp [parseFlags]
    have h1 : parseFlags (ciPrefix true ++ 94 :: r) = (⟨true, false⟩, 94 :: r) := by simp [parseFlags, ciPrefix]
    simp only [Spec.parse, h0, h1] at h ⊢
    cases hl : parseLoop false (2 * (94 :: r).length + 4) (94 :: r) [] [] [] with
    | none => rw [hl] at h; simp at h
    | some p =>
      rw [hl] at h
      simp only [Option.map_some, Option.some.injEq, Prod.mk.injEq, true_and] at h
      simp [h]

theorem flags_printedA (cap esc ns ne : Bool) (e : Expr) (hwf : e.WF) :
    parseFlags (fmtRegExp (cfgAnch cap esc ns ne) e) = (⟨false, false⟩, fmtRegExp (cfgAnch cap esc ns ne) e) := by
  rw [fmtRegExp_anch]
  cases ns with
  | false => simp [preT, parseFlags]
  | true =>
    simp only [preT, ite_true, List.nil_append]
    apply parseFlags_safe _ (body_safe false cap esc e hwf)
    cases ne <;> simp [postT]

/-- a leading `(?i)` only sets the flag (any text that does not itself start with a flag group) -/
theorem parse_ci_prefixG (t : Str) (P : Pat) (hfl : parseFlags t = (⟨false, false⟩, t))
    (h : Spec.parse t = some (⟨false, false⟩, P)) (i : Bool) :
    Spec.parse (ciPrefix i ++ t) = some (⟨i, false⟩, P) := by
  cases i with
  | false => exact h
  | true =>
    have h1 : parseFlags (ciPrefix true ++ t) = (⟨true, false⟩, t) := by simp [parseFlags, ciPrefix]
    simp only [Spec.parse, hfl, h1] at h ⊢
    cases hl : parseLoop false (2 * t.length + 4) t [] [] [] with
    | none => rw [hl] at h; simp at h
    | some p =>
      rw [hl] at h
      simp only [Option.map_some, Option.some.injEq, Prod.mk.injEq, true_and] at h
      simp [h]

theorem fullMatch_items_anch (i ns ne : Bool) (its : List Pat) (hf : ∀ p ∈ its, p.Frag) (s : List Nat) :
    fullMatch i (catList (preA ns ++ (its ++ postA ne))) s = true ↔ denL i its s := by
  cases ns <;> cases ne
  · exact fullMatch_anchored_items i its hf s
  · -- ^ items
    simp only [preA, postA, Bool.false_eq_true, ite_false, ite_true, List.append_nil, List.singleton_append]
    cases its with
    | nil =>
      simp only [catList, fullMatch, matchP, ite_true, List.any_cons, List.any_nil, Bool.or_false, denL, List.isEmpty_iff]
    | cons p ps =>
      have hL : catList (Pat.bol :: p :: ps) = Pat.cat Pat.bol (catList (p :: ps)) := rfl
      rw [hL, ← den_catList i]
      have := fullMatch_iff i (catList (p :: ps)) (frag_catList _ hf) s
      rw [← this]
      simp only [fullMatch, matchP, ite_true, List.flatMap_cons, List.flatMap_nil, List.append_nil]
  · -- items $
    simp only [preA, postA, Bool.false_eq_true, ite_false, ite_true, List.nil_append]
    simp only [fullMatch, List.any_eq_true, List.isEmpty_iff]
    rw [← den_catList i]
    constructor
    · rintro ⟨st, hst, he⟩
      obtain ⟨h1, _⟩ := (matchP_catList_eol i its 0 s st).mp hst
      obtain ⟨u, hu, hs, _⟩ := (matchP_exact i _ (frag_catList its hf) 0 s st).mp h1
      rw [he] at hs
      simp at hs; subst hs; exact hu
    · intro h
      refine ⟨(s.length, []), ?_, rfl⟩
      apply (matchP_catList_eol i its 0 s _).mpr
      exact ⟨(matchP_exact i _ (frag_catList its hf) 0 s _).mpr ⟨s, h, by simp, by simp⟩, rfl⟩
  · -- items
    simp only [preA, postA, ite_true, List.nil_append, List.append_nil]
    rw [← den_catList i]
    exact fullMatch_iff i (catList its) (frag_catList _ hf) s

/-- **print → parse → match, any combination of the anchors and `(?i)`** "matched in full" does not depend on which
anchors are printed -/
theorem printed_acceptsA (i cap esc ns ne : Bool) (e : Expr) (hwf : e.WF) (s : Str) (hs : ∀ c ∈ s, Scalar c) :
    ∃ P, Spec.parse (ciPrefix i ++ fmtRegExp (cfgAnch cap esc ns ne) e) = some (⟨i, false⟩, P) ∧
      (fullMatch i P s = true ↔ e.strLang i s) := by
  refine ⟨_, parse_ci_prefixG _ _ (flags_printedA cap esc ns ne e hwf) (parse_printedA cap esc ns ne e hwf) i, ?_⟩
  have hd := Expr.both_den i cap esc e hwf s hs
  have hfr := Expr.both_frag cap esc e
  rw [fullMatch_items_anch]
  · unfold topItems
    cases ha : e.isAlt with
    | true =>
      simp only [ite_true, denL, Pat.den]
      constructor
      · rintro ⟨u, v, rfl, h, rfl⟩; simpa using hd.2.mp (by simpa using h)
      · intro h; exact ⟨s, [], by simp, hd.2.mpr h, rfl⟩
    | false =>
      simp only [Bool.false_eq_true, ite_false]
      exact hd.1 ha
  · unfold topItems
    split
    · intro p hp; simp only [List.mem_singleton] at hp; subst hp; exact hfr.2
    · exact hfr.1

/-- **print → parse → match** for every well-formed expression and every scalar string, with or without `(?i)`: the
pattern the regex crate builds from the printed text accepts the string iff it is in the string-level language of
the expression (under `(?i)`: up to simple case folding, position by position) -/
theorem printed_accepts_ci (i : Bool) (cap esc : Bool) (e : Expr) (hwf : e.WF) (s : Str) (hs : ∀ c ∈ s, Scalar c) :
    ∃ P, Spec.parse (ciPrefix i ++ fmtRegExp (cfgPlain cap esc) e) = some (⟨i, false⟩, P) ∧
      (fullMatch i P s = true ↔ e.strLang i s) := by
  have hpp := parse_printed cap esc e hwf
  rw [fmtRegExp_plain] at hpp
  refine ⟨_, by rw [fmtRegExp_plain]; exact parse_ci_prefix _ _ hpp i, ?_⟩
  have hd := Expr.both_den i cap esc e hwf s hs
  have hfr := Expr.both_frag cap esc e
  rw [fullMatch_anchored_items]
  · unfold topItems
    cases ha : e.isAlt with
    | true =>
      simp only [ite_true, denL, Pat.den]
      constructor
      · rintro ⟨u, v, rfl, h, rfl⟩; simpa using hd.2.mp (by simpa using h)
      · intro h; exact ⟨s, [], by simp, hd.2.mpr h, rfl⟩
    | false =>
      simp only [Bool.false_eq_true, ite_false]
      exact hd.1 ha
  · unfold topItems
    split
    · intro p hp; simp only [List.mem_singleton] at hp; subst hp; exact hfr.2
    · exact hfr.1

theorem printed_accepts (cap esc : Bool) (e : Expr) (hwf : e.WF) (s : Str) (hs : ∀ c ∈ s, Scalar c) :
    ∃ P, Spec.parse (fmtRegExp (cfgPlain cap esc) e) = some (⟨false, false⟩, P) ∧
      (fullMatch false P s = true ↔ e.strLang false s) :=
  printed_accepts_ci false cap esc e hwf s hs

end Grexv
