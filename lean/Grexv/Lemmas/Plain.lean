import Grexv.Lemmas.ExprLang

/-
`AllPlain`: every literal anywhere inside an expression consists of plain graphemes.  The invariant is
preserved by all constructors used during state elimination, and it implies the `PlainTop`
hypotheses of `union_lang`.
-/
set_option linter.unusedSimpArgs false
namespace Grexv
namespace Expr

mutual
def AllPlain : Expr → Prop
  | .alt os => AllPlainL os
  | .cls _ => True
  | .cat a b => AllPlain a ∧ AllPlain b
  | .lit c => PlainCluster c
  | .rep e _ => AllPlain e
def AllPlainL : List Expr → Prop
  | [] => True
  | o :: os => AllPlain o ∧ AllPlainL os
end

theorem allPlainL_iff (os : List Expr) : AllPlainL os ↔ ∀ o ∈ os, AllPlain o := by
  induction os with
  | nil => simp [AllPlainL]
  | cons o os ih => simp [AllPlainL, ih]

theorem AllPlain.plainTop {e : Expr} (h : AllPlain e) : PlainTop e := by
  intro c hc; subst hc; exact h

mutual
theorem allPlain_flatten : ∀ (e : Expr), AllPlain e → AllPlainL (flatten e)
  | .alt os, h => by simp only [flatten]; exact allPlain_flattenL os h
  | .cls cs, _ => by simp [flatten, AllPlainL, AllPlain]
  | .cat a b, h => by simp only [flatten, AllPlainL]; exact ⟨h, trivial⟩
  | .lit c, h => by simp only [flatten, AllPlainL]; exact ⟨h, trivial⟩
  | .rep e q, h => by simp only [flatten, AllPlainL]; exact ⟨h, trivial⟩
theorem allPlain_flattenL : ∀ (os : List Expr), AllPlainL os → AllPlainL (flattenL os)
  | [], _ => by simp [flattenL, AllPlainL]
  | o :: os, h => by
    simp only [flattenL]
    rw [allPlainL_iff]
    intro x hx
    simp only [List.mem_append] at hx
    rcases hx with hx | hx
    · exact (allPlainL_iff _).mp (allPlain_flatten o h.1) x hx
    · exact (allPlainL_iff _).mp (allPlain_flattenL os h.2) x hx
end

theorem allPlain_newAlternation (es : List Expr) (h : ∀ e ∈ es, AllPlain e) : AllPlain (newAlternation es) := by
  simp only [newAlternation, AllPlain]
  rw [allPlainL_iff]
  intro o ho
  rw [mem_sortBy] at ho
  exact (allPlainL_iff _).mp (allPlain_flattenL es ((allPlainL_iff es).mpr h)) o ho

theorem plainCluster_append {a b : Cluster} (ha : PlainCluster a) (hb : PlainCluster b) : PlainCluster (a ++ b) := by
  intro g hg
  simp only [List.mem_append] at hg
  rcases hg with hg | hg
  · exact ha g hg
  · exact hb g hg

theorem allPlain_concatCore (e1 e2 : Expr) (h1 : AllPlain e1) (h2 : AllPlain e2) : AllPlain (concatCore e1 e2) := by
  unfold concatCore
  split
  · exact plainCluster_append h1 h2
  · exact ⟨plainCluster_append h1 h2.1, h2.2⟩
  · exact ⟨h1.1, plainCluster_append h1.2 h2⟩
  · exact ⟨h1, h2⟩

/-- `AllPlain` lifted to optional expressions -/
def OPlain : Option Expr → Prop
  | none => True
  | some e => AllPlain e

theorem oplain_concatenate (a b : Option Expr) (ha : OPlain a) (hb : OPlain b) : OPlain (concatenate a b) := by
  cases a with
  | none => simp [concatenate, OPlain]
  | some e1 =>
    cases b with
    | none => simp [concatenate, OPlain]
    | some e2 =>
      simp only [concatenate]
      split
      · exact hb
      · split
        · exact ha
        · exact allPlain_concatCore e1 e2 ha hb

theorem allPlain_removeSubstring (s : Side) (n : Nat) (e : Expr) (h : AllPlain e) : AllPlain (removeSubstring s n e) := by
  cases e with
  | lit c =>
    simp only [removeSubstring, AllPlain]
    cases s
    · exact plainCluster_drop c h n
    · exact plainCluster_take c h _
  | cat a b =>
    cases s
    · simp only [removeSubstring]
      split
      · rename_i c; exact ⟨plainCluster_drop c h.1 n, h.2⟩
      · exact h
    · simp only [removeSubstring]
      split
      · rename_i c; exact ⟨h.1, plainCluster_take c h.2 _⟩
      · exact h
  | alt _ => exact h
  | cls _ => exact h
  | rep _ _ => exact h

theorem sideValue_plain (s : Side) (e : Expr) (h : AllPlain e) (c : Cluster) (hc : sideValue s e = some c) : PlainCluster c := by
  cases e with
  | lit c' => simp only [sideValue, Option.some.injEq] at hc; subst hc; exact h
  | cat a b =>
    cases s
    · cases a with
      | lit c' => simp only [sideValue, Option.some.injEq] at hc; subst hc; exact h.1
      | _ => simp [sideValue] at hc
    · cases b with
      | lit c' => simp only [sideValue, Option.some.injEq] at hc; subst hc; exact h.2
      | _ => simp [sideValue] at hc
  | alt _ => simp [sideValue] at hc
  | cls _ => simp [sideValue] at hc
  | rep _ _ => simp [sideValue] at hc

theorem commonPrefix_plain (a b : Cluster) (ha : PlainCluster a) : PlainCluster (commonPrefix a b) := by
  obtain ⟨r, hr⟩ := commonPrefix_left a b
  intro g hg
  exact ha g (by rw [hr]; exact List.mem_append_left _ hg)

theorem findCommon_plain (s : Side) (a b : Expr) (ha : AllPlain a) (v : Cluster) (h : findCommon s a b = some v) :
    PlainCluster v := by
  have hga : PlainCluster ((sideValue s a).getD []) := by
    cases hs : sideValue s a with
    | none => intro g hg; simp [Option.getD] at hg
    | some c => exact sideValue_plain s a ha c hs
  cases s with
  | pre =>
    simp only [findCommon] at h
    split at h
    · simp at h
    · simp only [Option.some.injEq] at h
      subst h
      exact commonPrefix_plain _ _ hga
  | suf =>
    simp only [findCommon] at h
    split at h
    · simp at h
    · simp only [Option.some.injEq] at h
      subst h
      intro g hg
      simp only [List.mem_reverse] at hg
      have hrev : PlainCluster ((sideValue Side.suf a).getD []).reverse := fun x hx => hga x (List.mem_reverse.mp hx)
      exact commonPrefix_plain _ _ hrev g hg

theorem allPlain_removeCommon (s : Side) (a b : Expr) (ha : AllPlain a) (hb : AllPlain b) :
    AllPlain (removeCommon s a b).1 ∧ AllPlain (removeCommon s a b).2.1 ∧
      (∀ v, (removeCommon s a b).2.2 = some v → PlainCluster v) := by
  unfold removeCommon
  cases hf : findCommon s a b with
  | none => exact ⟨ha, hb, by simp⟩
  | some v =>
    refine ⟨allPlain_removeSubstring _ _ _ ha, allPlain_removeSubstring _ _ _ hb, ?_⟩
    intro v' hv'
    simp only [Option.some.injEq] at hv'
    subst hv'
    exact findCommon_plain s a b ha v hf

theorem allPlain_unionMid (cfg : Config) (e1 e2 : Expr) (h1 : AllPlain e1) (h2 : AllPlain e2) :
    AllPlain (unionMid cfg e1 e2) := by
  unfold unionMid
  split
  · exact h2
  · split
    · exact h1
    · split
      · rename_i e
        apply allPlain_newAlternation
        intro x hx
        simp only [List.mem_cons, List.mem_nil_iff, or_false] at hx
        rcases hx with rfl | rfl
        · exact h1
        · exact h2
      · split
        · rename_i e
          apply allPlain_newAlternation
          intro x hx
          simp only [List.mem_cons, List.mem_nil_iff, or_false] at hx
          rcases hx with rfl | rfl
          · exact h1
          · exact h2
        · split
          · simp [newCharacterClass, AllPlain]
          · apply allPlain_newAlternation
            intro x hx
            simp only [List.mem_cons, List.mem_nil_iff, or_false] at hx
            rcases hx with rfl | rfl
            · exact h1
            · exact h2

theorem allPlain_unionCore (cfg : Config) (a b : Expr) (ha : AllPlain a) (hb : AllPlain b) : AllPlain (unionCore cfg a b) := by
  unfold unionCore
  simp only []
  obtain ⟨p1, p2, p3⟩ := allPlain_removeCommon .pre a b ha hb
  obtain ⟨q1, q2, q3⟩ := allPlain_removeCommon .suf _ _ p1 p2
  have hm := allPlain_unionMid cfg _ _ q1 q2
  have hw : AllPlain (wrapPre (removeCommon .pre a b).2.2 (unionMid cfg (removeCommon .suf (removeCommon .pre a b).1 (removeCommon .pre a b).2.1).1
      (removeCommon .suf (removeCommon .pre a b).1 (removeCommon .pre a b).2.1).2.1)) := by
    cases hpre : (removeCommon .pre a b).2.2 with
    | none => simpa [wrapPre] using hm
    | some p => exact ⟨p3 p hpre, hm⟩
  cases hsuf : (removeCommon .suf (removeCommon .pre a b).1 (removeCommon .pre a b).2.1).2.2 with
  | none => simpa [wrapSuf] using hw
  | some s => exact ⟨hw, q3 s hsuf⟩

theorem oplain_union (cfg : Config) (a b : Option Expr) (ha : OPlain a) (hb : OPlain b) : OPlain (union cfg a b) := by
  cases a with
  | none => cases b <;> simp_all [union, OPlain]
  | some e1 =>
    cases b with
    | none => simpa [union, OPlain] using ha
    | some e2 =>
      simp only [union]
      split
      · exact ha
      · exact allPlain_unionCore cfg e1 e2 ha hb

/-- `union_lang` with the invariant as hypothesis -/
theorem union_lang' (cfg : Config) (a b : Option Expr) (ha : OPlain a) (hb : OPlain b) (w : Word) :
    olang (union cfg a b) w ↔ olang a w ∨ olang b w := by
  apply union_lang
  · intro e he; subst he; exact AllPlain.plainTop ha
  · intro e he; subst he; exact AllPlain.plainTop hb

end Expr
end Grexv
