import Grexv.Lemmas.PrintParse

/-
The printed body never starts with something `Regex::new` would read as a flag group: if it starts with `(` at all,
the parenthesis opens `(?:` or is followed by a character other than `?`.  Needed when the start anchor is disabled and
the body is the very beginning of the text.
-/
set_option linter.unusedSimpArgs false
set_option linter.unusedVariables false
namespace Grexv
open Spec

def Safe (t : Str) : Prop :=
  t = [] ∨ ∃ h tl, t = h :: tl ∧ (h ≠ 40 ∨ ∃ h2 tl2, tl = h2 :: tl2 ∧ (h2 ≠ 63 ∨ tl2.head? = some 58))

theorem safe_append {a b : Str} (ha : Safe a) (hb : Safe b) : Safe (a ++ b) := by
  rcases ha with rfl | ⟨h, tl, rfl, hh⟩
  · simpa using hb
  · refine Or.inr ⟨h, tl ++ b, rfl, ?_⟩
    rcases hh with hh | ⟨h2, tl2, rfl, hh⟩
    · exact Or.inl hh
    · refine Or.inr ⟨h2, tl2 ++ b, rfl, ?_⟩
      rcases hh with hh | hh
      · exact Or.inl hh
      · right
        cases tl2 with
        | nil => simp at hh
        | cons x r => simpa using hh

theorem safe_of_head {t : Str} (x : Nat) (tl : Str) (ht : t = x :: tl) (hx : x ≠ 40) : Safe t :=
  Or.inr ⟨x, tl, ht, Or.inl hx⟩

/-- flags are only read from `(?i)`, `(?x)`, `(?ix)` -/
theorem parseFlags_safe (t : Str) (h : Safe t) (rest : Str) (hr : rest.head? ≠ some 40) :
    parseFlags (t ++ rest) = (⟨false, false⟩, t ++ rest) := by
  unfold parseFlags
  rcases h with rfl | ⟨h, tl, rfl, hh⟩
  · simp only [List.nil_append]
    split <;> first | rfl | (simp at hr)
  · rcases hh with hh | ⟨h2, tl2, rfl, hh⟩
    · split <;> first | rfl | (simp at *; omega)
    · rcases hh with hh | hh
      · split <;> first | rfl | (simp at *; omega)
      · cases tl2 with
        | nil => simp at hh
        | cons x r =>
          simp only [List.head?_cons, Option.some.injEq] at hh
          subst hh
          split <;> first | rfl | (simp at *)

theorem pc_head_ascii40 : (List.range 128).all (fun x => x == 92 || (match pc x with | h :: _ => h != 40 | [] => false)) = true := by
  decide +kernel

theorem pcE_head40 (esc : Bool) (x : Nat) (hx : x ≠ 92) : ∃ h tl, pcE esc x = h :: tl ∧ h ≠ 40 := by
  have hpc : ∃ h tl, pc x = h :: tl ∧ h ≠ 40 := by
    by_cases h : x < 128
    · have := List.all_eq_true.mp pc_head_ascii40 x (List.mem_range.mpr h)
      simp only [Bool.or_eq_true, beq_iff_eq] at this
      rcases this with h' | h'
      · exact absurd h' hx
      · cases hp : pc x with
        | nil => rw [hp] at h'; cases h'
        | cons a t => rw [hp] at h'; exact ⟨a, t, rfl, by simpa using h'⟩
    · have hs : x ∉ specials := by
        simp only [specials, Gen.charsToEscape, List.mem_append, List.mem_cons, List.mem_nil_iff, or_false]
        omega
      rw [pc_raw x hs]
      exact ⟨x, [], rfl, by omega⟩
  by_cases h : x < 128
  · rw [pcE_ascii esc x h]; exact hpc
  · cases esc with
    | false => rw [pcE_false]; exact hpc
    | true => rw [pcE_nonascii x (by omega)]; exact ⟨92, _, rfl, by decide⟩

theorem pcV_head40 (v esc : Bool) (x : Nat) (hx : x ≠ 92) : ∃ h tl, pcV v esc x = h :: tl ∧ h ≠ 40 := by
  cases v with
  | false => exact pcE_head40 esc x hx
  | true =>
    by_cases h : x < 128
    · rw [pcV_ascii esc x h]
      by_cases h35 : x = 35
      · simp only [h35, ite_true]; exact ⟨92, _, rfl, by decide⟩
      · by_cases h32 : x = 32
        · simp only [h32]; exact ⟨92, _, rfl, by decide⟩
        · simp only [h35, h32, ite_false]
          have := pcE_head40 false x hx
          rwa [pcE_false] at this
    · cases esc with
      | true => rw [pcV_nonascii_esc x (by omega)]; exact ⟨92, _, rfl, by decide⟩
      | false =>
        rw [pcV_nonascii_raw x (by omega)]
        split
        · exact ⟨92, _, rfl, by decide⟩
        · exact ⟨x, [], rfl, by omega⟩

theorem R_escape_head40 (v esc : Bool) (as : List Atom) (hne : as ≠ []) (hb : AtomsOK as) :
    ∃ h tl, RV v (E esc (escapeSymbols (untok as))) = h :: tl ∧ h ≠ 40 := by
  rw [R_escapeSymbols v esc as hb]
  split
  · exact ⟨92, [92], rfl, by decide⟩
  · rename_i hs
    rcases hb with hb | hb
    · exact absurd hb hs
    · cases as with
      | nil => exact absurd rfl hne
      | cons a r =>
        cases a with
        | chr x =>
          have hx : x ≠ 92 := (hb _ List.mem_cons_self).1
          obtain ⟨h, tl, hp, hh⟩ := pcV_head40 v esc x hx
          simp only [untok, List.flatMap_cons, hp]
          exact ⟨h, _, rfl, hh⟩
        | cls k n =>
          simp only [untok, List.flatMap_cons, pcV_92]
          exact ⟨92, _, rfl, by decide⟩

theorem literal_safe (v cap esc : Bool) (c : Cluster) (h : PlainBs c) : Safe (RV v (fmtLiteral (cfgPlain cap esc) c)) := by
  rw [R_fmtLiteral v cap esc c h]
  cases c with
  | nil => exact Or.inl rfl
  | cons g gs =>
    obtain ⟨as, hne, hb, rfl⟩ := h _ List.mem_cons_self
    obtain ⟨x, tl, hp, hx⟩ := R_escape_head40 v esc as hne hb
    simp only [List.flatMap_cons, value_ofStr, hp]
    exact safe_of_head x _ rfl hx

theorem sub_safe (v cap esc : Bool) (outer : Nat) (fb : Bool) (e : Expr) (hP : PP v cap esc e)
    (hs : Safe (RV v (fmtExpr (cfgPlain cap esc) e))) : Safe (RV v (fmtSub (cfgPlain cap esc) outer fb e)) := by
  rw [fmtSub_eq]
  split
  · rw [RV_append, RV_lp]
    cases cap with
    | false => exact Or.inr ⟨40, _, rfl, Or.inr ⟨63, _, rfl, Or.inr rfl⟩⟩
    | true =>
      have hh := hP.head [41] (by simp)
      rw [RV_append]
      have h41 : RV v [41] = [41] := by cases v <;> decide
      rw [h41]
      cases ht : RV v (fmtExpr (cfgPlain true esc) e) ++ [41] with
      | nil => simp at ht
      | cons a r =>
        rw [ht] at hh
        simp only [List.head?_cons, ne_eq, Option.some.injEq] at hh
        exact Or.inr ⟨40, _, rfl, Or.inr ⟨a, r, rfl, Or.inl hh⟩⟩
  · exact hs

mutual
theorem Expr.safe (v cap esc : Bool) : ∀ (e : Expr), e.WF → Safe (RV v (fmtExpr (cfgPlain cap esc) e))
  | .lit c, h => by simp only [fmtExpr]; exact literal_safe v cap esc c h
  | .cls cs, h => by
    simp only [fmtExpr]; rw [fmtClass_text v]; exact safe_of_head 91 _ rfl (by decide)
  | .cat a b, h => by
    have htext : RV v (fmtExpr (cfgPlain cap esc) (.cat a b)) = RV v (fmtSub (cfgPlain cap esc) 2 true a) ++ RV v (fmtSub (cfgPlain cap esc) 2 true b) := by
      simp only [fmtExpr, RV_append]
    rw [htext]
    exact safe_append (sub_safe v cap esc 2 true a (Expr.pp v cap esc a h.1) (Expr.safe v cap esc a h.1))
      (sub_safe v cap esc 2 true b (Expr.pp v cap esc b h.2) (Expr.safe v cap esc b h.2))
  | .rep e q, h => by
    obtain ⟨rfl, hnr, hwf⟩ := h
    have htext : RV v (fmtExpr (cfgPlain cap esc) (.rep e .question)) = RV v (fmtSub (cfgPlain cap esc) 3 false e) ++ [63] := by
      simp only [fmtExpr, RV_append, Comp.quantifier, cfgPlain, paint, Gen.strQuestion, Bool.false_eq_true, ite_false,
        List.append_nil]
      have h63 : RV v [63] = [63] := by cases v <;> decide
      rw [h63]
    rw [htext]
    exact safe_append (sub_safe v cap esc 3 false e (Expr.pp v cap esc e hwf) (Expr.safe v cap esc e hwf))
      (safe_of_head 63 [] rfl (by decide))
  | .alt os, h => by
    simp only [fmtExpr]
    exact Expr.safeL v cap esc os h.2
theorem Expr.safeL (v cap esc : Bool) : ∀ (os : List Expr), Expr.WFL os → Safe (RV v (fmtAlt (cfgPlain cap esc) os))
  | [], _ => Or.inl (by simp [fmtAlt, RV_nil])
  | [o], h => by
    have htext : fmtAlt (cfgPlain cap esc) [o] = fmtExpr (cfgPlain cap esc) o := by
      simp only [fmtAlt]; rw [fmtSub_eq, parenQ1_false]; simp
    rw [htext]
    exact Expr.safe v cap esc o h.2.1
  | o :: o2 :: os, h => by
    have htext : RV v (fmtAlt (cfgPlain cap esc) (o :: o2 :: os)) =
        RV v (fmtExpr (cfgPlain cap esc) o) ++ ([124] ++ RV v (fmtAlt (cfgPlain cap esc) (o2 :: os))) := by
      simp only [fmtAlt]
      rw [fmtSub_eq, parenQ1_false]
      simp only [Bool.false_eq_true, ite_false, cfgPlain, Comp.pipe, paint, Gen.strPipe, RV_append]
      simp [show RV v [124] = [124] from by cases v <;> decide]
    rw [htext]
    exact safe_append (Expr.safe v cap esc o h.2.1) (safe_of_head 124 _ rfl (by decide))
end

end Grexv
