import Grexv.Model.Expr

/- `Mat` / `Vect` (the ndarray `Array2` / `Array1` of `Expression::from`) as functions. -/
set_option linter.unusedSimpArgs false
namespace Grexv

/-- an `n × n` matrix -/
def Mat.Sq (a : Mat) (n : Nat) : Prop :=
  a.size = n ∧ ∀ (i : Nat) (r : Array (Option Expr)), a[i]? = some r → r.size = n

theorem Mat.row_some {a : Mat} {n : Nat} (h : a.Sq n) (i : Nat) (hi : i < n) : ∃ r, a[i]? = some r ∧ r.size = n := by
  have : i < a.size := by rw [h.1]; exact hi
  exact ⟨a[i], Array.getElem?_eq_getElem this, h.2 i _ (Array.getElem?_eq_getElem this)⟩

theorem Mat.row_none {a : Mat} {n : Nat} (h : a.Sq n) (i : Nat) (hi : ¬ i < n) : a[i]? = none := by
  apply Array.getElem?_eq_none
  rw [h.1]; omega

theorem Mat.sq_set {a : Mat} {n : Nat} (h : a.Sq n) (i j : Nat) (v : Option Expr) : (a.set i j v).Sq n := by
  refine ⟨by simp [Mat.set, h.1], ?_⟩
  intro i' r hr
  simp only [Mat.set, Array.getElem?_modify] at hr
  split at hr
  · rename_i hi
    subst hi
    cases hai : a[i]? with
    | none => simp [hai] at hr
    | some r0 =>
      simp only [hai, Option.map_some, Option.some.injEq] at hr
      subst hr
      simp [h.2 i r0 hai]
  · exact h.2 i' r hr

theorem Mat.get_set {a : Mat} {n : Nat} (h : a.Sq n) (i j i' j' : Nat) (v : Option Expr) :
    (a.set i j v).get i' j' = if i' = i ∧ j' = j ∧ i < n ∧ j < n then v else a.get i' j' := by
  simp only [Mat.get, Mat.set, Array.getElem?_modify]
  by_cases hi : i = i'
  · subst hi
    simp only [ite_true, true_and]
    by_cases hin : i < n
    · obtain ⟨r, hr, hsz⟩ := Mat.row_some h i hin
      simp only [hr, Option.map_some, Option.bind_some, Array.getElem?_setIfInBounds, hsz, hin, true_and]
      by_cases hj : j = j'
      · subst hj
        by_cases hjn : j < n
        · simp [hjn]
        · have hnone : r[j]? = none := Array.getElem?_eq_none (by omega)
          simp [hjn, hnone]
      · have hj' : ¬ j' = j := fun e => hj e.symm
        simp [hj, hj']
    · have hnone := Mat.row_none h i hin
      simp [hnone, hin]
  · have hi' : ¬ i' = i := fun e => hi e.symm
    simp [hi, hi']

theorem Mat.get_set_same {a : Mat} {n : Nat} (h : a.Sq n) (i j : Nat) (hi : i < n) (hj : j < n) (v : Option Expr) :
    (a.set i j v).get i j = v := by
  rw [Mat.get_set h]; simp [hi, hj]

theorem Mat.get_set_other {a : Mat} {n : Nat} (h : a.Sq n) (i j i' j' : Nat) (hne : ¬ (i' = i ∧ j' = j)) (v : Option Expr) :
    (a.set i j v).get i' j' = a.get i' j' := by
  rw [Mat.get_set h]
  split
  · rename_i hc; exact absurd ⟨hc.1, hc.2.1⟩ hne
  · rfl

theorem Vect.get_set (b : Vect) (i i' : Nat) (v : Option Expr) :
    Vect.get (b.setIfInBounds i v) i' = if i' = i ∧ i < b.size then v else Vect.get b i' := by
  simp only [Vect.get, Array.getElem?_setIfInBounds]
  by_cases hi : i = i'
  · subst hi
    by_cases hs : i < b.size
    · simp [hs]
    · have hnone : b[i]? = none := Array.getElem?_eq_none (by omega)
      simp [hs, hnone]
  · have hi' : ¬ i' = i := fun e => hi e.symm
    simp [hi, hi']

theorem Mat.sq_replicate (n : Nat) : Mat.Sq (Array.replicate n (Array.replicate n none)) n := by
  refine ⟨by simp, ?_⟩
  intro i r hr
  simp only [Array.getElem?_replicate] at hr
  split at hr
  · simp only [Option.some.injEq] at hr; subst hr; simp
  · simp at hr

theorem Mat.get_replicate (n i j : Nat) : Mat.get (Array.replicate n (Array.replicate n none)) i j = none := by
  simp only [Mat.get, Array.getElem?_replicate]
  by_cases hi : i < n
  · by_cases hj : j < n <;> simp [hi, hj]
  · simp [hi]

end Grexv
