import Grexv.Lemmas.DenR

/-
Soundness of the printed `-r` pattern, expression level: for a well-formed expression whose literals are well-shaped, class-token free
and consistent, every string spelled by a label sequence of the symbol-level language is denoted by the items the parser reads.
-/
set_option linter.unusedSimpArgs false
set_option linter.unusedVariables false
namespace Grexv
open Spec

/-- every grapheme of the literal is well-shaped, free of class tokens, with consistent nested repetitions -/
def LitS (c : Cluster) : Prop := ∀ g ∈ c, GOK g ∧ GSem g

mutual
/-- the shapes the elimination produces, with `-r` literals -/
def Expr.WFS : Expr → Prop
  | .alt os => os ≠ [] ∧ Expr.WFLS os
  | .cls cs => cs ≠ [] ∧ (∀ c ∈ cs, Scalar c) ∧ cs.Pairwise (· < ·)
  | .cat a b => Expr.WFS a ∧ Expr.WFS b
  | .lit c => LitS c
  | .rep e q => q = .question ∧ e.isRep = false ∧ Expr.WFS e
def Expr.WFLS : List Expr → Prop
  | [] => True
  | o :: os => o.isAlt = false ∧ Expr.WFS o ∧ Expr.WFLS os
end

theorem litS_gokl : ∀ (c : Cluster), LitS c → GOKL c ∧ GSemL c
  | [], _ => ⟨trivial, trivial⟩
  | g :: gs, h => by
    have h1 := h g List.mem_cons_self
    have h2 := litS_gokl gs (fun x hx => h x (List.mem_cons_of_mem _ hx))
    exact ⟨⟨h1.1, h2.1⟩, ⟨h1.2, h2.2⟩⟩

mutual
theorem Expr.WFS.toWFR : ∀ (e : Expr), e.WFS → e.WFR
  | .alt os, h => ⟨h.1, Expr.WFLS.toWFLR os h.2⟩
  | .cls cs, h => h
  | .cat a b, h => ⟨Expr.WFS.toWFR a h.1, Expr.WFS.toWFR b h.2⟩
  | .lit c, h => (litS_gokl c h).1
  | .rep e q, h => ⟨h.1, h.2.1, Expr.WFS.toWFR e h.2.2⟩
theorem Expr.WFLS.toWFLR : ∀ (os : List Expr), Expr.WFLS os → Expr.WFLR os
  | [], _ => trivial
  | o :: os, h => ⟨h.1, Expr.WFS.toWFR o h.2.1, Expr.WFLS.toWFLR os h.2.2⟩
end

theorem spells_append : ∀ (u v : Word) (s : Str), Dfa.Spells (u ++ v) s → ∃ s1 s2, s = s1 ++ s2 ∧ Dfa.Spells u s1 ∧ Dfa.Spells v s2
  | [], v, s, h => ⟨[], s, rfl, rfl, h⟩
  | l :: u, v, s, h => by
    obtain ⟨k, w, hk1, hk2, rfl, hw⟩ := h
    obtain ⟨s1, s2, rfl, h1, h2⟩ := spells_append u v w hw
    exact ⟨(List.replicate k l.chars.flatten).flatten ++ s1, s2, by simp, ⟨k, s1, hk1, hk2, rfl, h1⟩, h2⟩

/-- a sub-expression in its context: the items or the group around the body -/
theorem denLC_subOfR (cap esc : Bool) (outer : Nat) (e : Expr) (s : Str)
    (h1 : e.isAlt = false → denLC false (e.bothR cap esc).1 s) (h2 : (e.bothR cap esc).2.denC false s)
    (halt : e.isAlt = true → outer ≥ 2) :
    denLC false (subOf cap esc outer e (e.bothR cap esc).1 (e.bothR cap esc).2) s := by
  unfold subOf
  split
  · rw [denLC_single]; simpa [Pat.denC] using h2
  · rename_i hc
    apply h1
    cases e with
    | alt os =>
      have := halt rfl
      simp only [Expr.precedence, Expr.isSingleCodepoint, Bool.not_false, Bool.and_true, decide_eq_true_eq] at hc
      have : ¬ (1 < outer) := fun h' => hc (decide_eq_true h')
      omega
    | _ => rfl

mutual
/-- **the printed pattern denotes every string the expression's label sequences spell** -/
theorem Expr.soundR (cap esc : Bool) : ∀ (e : Expr), e.WFS → ∀ (ls : Word) (s : Str), e.lang ls → Dfa.Spells ls s →
    (e.isAlt = false → denLC false (e.bothR cap esc).1 s) ∧ (e.bothR cap esc).2.denC false s
  | .lit c, h, ls, s, hl, hs => by
    simp only [Expr.lang] at hl
    subst hl
    obtain ⟨h1, h2⟩ := litS_gokl ls h
    have := litSound cap ls h1 h2 s hs
    simp only [Expr.bothR, denC_catList]
    exact ⟨fun _ => this, this⟩
  | .cls cs, h, ls, s, hl, hs => by
    simp only [Expr.lang] at hl
    obtain ⟨c, hc, rfl⟩ := hl
    obtain ⟨k, v, hk1, hk2, rfl, hv⟩ := hs
    simp only [Dfa.Spells] at hv
    subst hv
    have hk : k = 1 := by simp [Grapheme.ofStr, Grapheme.min, Grapheme.max] at hk1 hk2; omega
    subst hk
    have key : denLC false [Pat.set (classItems cs) false] [c] := by
      rw [denLC_single]
      simp only [Pat.denC]
      exact ⟨c, rfl, (classItems_match false cs h.1 h.2.1 c (h.2.1 c hc)).mpr ⟨c, hc, by simp [chrMatches]⟩⟩
    have hs' : (List.replicate 1 (Grapheme.ofStr [c]).chars.flatten).flatten ++ [] = [c] := by
      simp [Grapheme.ofStr, Grapheme.chars]
    rw [hs']
    simp only [Expr.bothR, denC_catList]
    exact ⟨fun _ => key, key⟩
  | .cat a b, h, ls, s, hl, hs => by
    simp only [Expr.lang] at hl
    obtain ⟨u, v, rfl, hu, hv⟩ := hl
    obtain ⟨s1, s2, rfl, hs1, hs2⟩ := spells_append u v s hs
    have ia := Expr.soundR cap esc a h.1 u s1 hu hs1
    have ib := Expr.soundR cap esc b h.2 v s2 hv hs2
    have key : denLC false (subOf cap esc 2 a (a.bothR cap esc).1 (a.bothR cap esc).2 ++
        subOf cap esc 2 b (b.bothR cap esc).1 (b.bothR cap esc).2) (s1 ++ s2) := by
      rw [denLC_append]
      exact ⟨s1, s2, rfl, denLC_subOfR cap esc 2 a s1 ia.1 ia.2 (fun _ => Nat.le_refl _),
        denLC_subOfR cap esc 2 b s2 ib.1 ib.2 (fun _ => Nat.le_refl _)⟩
    simp only [Expr.bothR, denC_catList]
    exact ⟨fun _ => key, key⟩
  | .rep e q, h, ls, s, hl, hs => by
    obtain ⟨rfl, hnr, hwf⟩ := h
    obtain ⟨p, hp, _⟩ := subOf3_singleR cap esc e (Expr.WFS.toWFR e hwf) hnr
    have key : denLC false (optOf (subOf cap esc 3 e (e.bothR cap esc).1 (e.bothR cap esc).2)) s := by
      rw [hp]
      simp only [optOf, denLC_single, Pat.denC, rangeL]
      simp only [Expr.lang] at hl
      rcases hl with rfl | hl
      · simp only [Dfa.Spells] at hs
        subst hs
        exact ⟨0, by omega, by omega, rfl⟩
      · have ie := Expr.soundR cap esc e hwf ls s hl hs
        have hsub := denLC_subOfR cap esc 3 e s ie.1 ie.2 (fun _ => by omega)
        rw [hp, denLC_single] at hsub
        exact ⟨1, by omega, by omega, s, [], by simp, hsub, rfl⟩
    simp only [Expr.bothR, denC_catList]
    exact ⟨fun _ => key, key⟩
  | .alt os, h, ls, s, hl, hs => by
    refine ⟨fun hc => by simp [Expr.isAlt] at hc, ?_⟩
    simp only [Expr.bothR]
    have hne : Expr.bothLR cap esc os ≠ [] := by
      cases os with
      | nil => exact absurd rfl h.1
      | cons o os => simp [Expr.bothLR]
    rw [denC_altList false _ hne]
    simp only [Expr.lang] at hl
    exact Expr.soundLR cap esc os h.2 ls s hl hs
theorem Expr.soundLR (cap esc : Bool) : ∀ (os : List Expr), Expr.WFLS os → ∀ (ls : Word) (s : Str), Expr.langAny os ls → Dfa.Spells ls s →
    ∃ p ∈ Expr.bothLR cap esc os, p.denC false s
  | [], _, ls, s, hl, _ => by simp [Expr.langAny] at hl
  | o :: os, h, ls, s, hl, hs => by
    simp only [Expr.langAny] at hl
    rcases hl with hl | hl
    · have io := Expr.soundR cap esc o h.2.1 ls s hl hs
      exact ⟨catList (o.bothR cap esc).1, by simp [Expr.bothLR], (denC_catList false _ s).mpr (io.1 h.1)⟩
    · obtain ⟨p, hp, hd⟩ := Expr.soundLR cap esc os h.2.2 ls s hl hs
      exact ⟨p, by simp [Expr.bothLR, hp], hd⟩
end

end Grexv
