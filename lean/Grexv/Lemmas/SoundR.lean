import Grexv.Lemmas.DenR

/-
Soundness of the printed `-r` pattern, expression level: for a well-formed expression whose literals are well-shaped, class-token free
and consistent, every string spelled by a label sequence of the symbol-level language is denoted by the items the parser reads.
-/
set_option linter.unusedSimpArgs false
set_option linter.unusedVariables false
namespace Grexv
open Spec

/-- every grapheme of the literal is well-shaped, with consistent nested repetitions -/
def LitS (c : Cluster) : Prop := ∀ g ∈ c, GOK g ∧ GSem g

mutual
/-- the shapes the elimination produces, with `-r` literals -/
def Expr.WFS : Expr → Prop
  | .alt os => os ≠ [] ∧ Expr.WFLS os
  | .cls cs => cs ≠ [] ∧ (∀ c ∈ cs, Scalar c) ∧ cs.Pairwise (· < ·)
  | .cat a b => Expr.WFS a ∧ Expr.WFS b
  | .lit c => LitS c
  | .rep e q => q = .question ∧ e.isRep = false ∧ Expr.WFS e
def Expr.WFLS : List Expr → Prop
  | [] => True
  | o :: os => o.isAlt = false ∧ Expr.WFS o ∧ Expr.WFLS os
end

theorem litS_gokl : ∀ (c : Cluster), LitS c → GOKL c ∧ GSemL c
  | [], _ => ⟨trivial, trivial⟩
  | g :: gs, h => by
    have h1 := h g List.mem_cons_self
    have h2 := litS_gokl gs (fun x hx => h x (List.mem_cons_of_mem _ hx))
    exact ⟨⟨h1.1, h2.1⟩, ⟨h1.2, h2.2⟩⟩

mutual
theorem Expr.WFS.toWFR : ∀ (e : Expr), e.WFS → e.WFR
  | .alt os, h => ⟨h.1, Expr.WFLS.toWFLR os h.2⟩
  | .cls cs, h => h
  | .cat a b, h => ⟨Expr.WFS.toWFR a h.1, Expr.WFS.toWFR b h.2⟩
  | .lit c, h => (litS_gokl c h).1
  | .rep e q, h => ⟨h.1, h.2.1, Expr.WFS.toWFR e h.2.2⟩
theorem Expr.WFLS.toWFLR : ∀ (os : List Expr), Expr.WFLS os → Expr.WFLR os
  | [], _ => trivial
  | o :: os, h => ⟨h.1, Expr.WFS.toWFR o h.2.1, Expr.WFLS.toWFLR os h.2.2⟩
end

theorem spells_append : ∀ (u v : Word) (s : Str), Dfa.Spells (u ++ v) s → ∃ s1 s2, s = s1 ++ s2 ∧ Dfa.Spells u s1 ∧ Dfa.Spells v s2
  | [], v, s, h => ⟨[], s, rfl, rfl, h⟩
  | l :: u, v, s, h => by
    obtain ⟨k, w, hk1, hk2, rfl, hw⟩ := h
    obtain ⟨s1, s2, rfl, h1, h2⟩ := spells_append u v w hw
    exact ⟨(List.replicate k l.chars.flatten).flatten ++ s1, s2, by simp, ⟨k, s1, hk1, hk2, rfl, h1⟩, h2⟩

end Grexv
