import Grexv.Lemmas.DefaultExact
import Grexv.Lemmas.Sort

/-
S1 … S9 and matching composed for plain settings (`default_exact`).
-/
set_option linter.unusedSimpArgs false
set_option linter.unusedVariables false
namespace Grexv
open Dfa Expr

theorem sortCases_mem' (ws : List Str) (w : Str) : w ∈ sortCases ws ↔ w ∈ ws := by
  simp [sortCases, mem_sortBy, mem_dedupAdj]

theorem accepts_iff_langFrom' (d : Dfa) (w : Word) : d.Accepts w ↔ d.LangFrom d.init w := by
  simp [Dfa.Accepts, Dfa.LangFrom, Dfa.isFinal, List.contains_iff_mem]


theorem plainBs_flat_ne (w : Word) (h : PlainBs w) (hne : w ≠ []) : flat w ≠ [] := by
  cases w with
  | nil => exact absurd rfl hne
  | cons g gs =>
    obtain ⟨s, hs, _, _, rfl⟩ := h _ List.mem_cons_self
    simp only [flat, List.flatMap_cons, value_ofStr]
    intro hc
    exact hs (List.append_eq_nil_iff.mp hc).1

/-- **C02 for the model, all inputs** with default settings (and with or without capturing groups), for every
non-empty list of test cases of which at least one is not the empty string, every segmentation meeting its
contract, and every string `s` of scalar values: `RegExp::from` succeeds, the text `Display for RegExp`
writes is accepted by `Regex::new`, and the compiled pattern matches `s` in full **iff `s` is one of the
test cases and `s ≠ ""`** — nothing else is accepted, and exactly the empty test case is lost (known finding D1) -/
theorem default_exact (cap : Bool) (env : Env) (ws : List Str) (st : Stages)
    (h : regExpFrom (cfgPlain cap) env ws = .ok st) (hseg : ∀ w ∈ ws, SegOK env w) (hne : ∃ t ∈ ws, t ≠ [])
    (s : Str) (hs : ∀ c ∈ s, Scalar c) :
    ∃ P, Spec.parse (fmtRegExp (cfgPlain cap) st.finalAst) = some (⟨false, false⟩, P) ∧
      (Spec.fullMatch false P s = true ↔ (s ∈ ws ∧ s ≠ [])) := by
  -- the stages of this run
  have hci : (cfgPlain cap).ci = false := rfl
  have hanch : ((cfgPlain cap).noStart && (cfgPlain cap).noEnd) = false := rfl
  simp only [regExpFrom, hci, hanch, Bool.false_eq_true, ite_false] at h
  have hseg' : ∀ w ∈ sortCases ws, SegOK env w := fun w hw => hseg w ((sortCases_mem' ws w).mp hw)
  obtain ⟨hcl, hpl⟩ := clusters_plainBs cap env (sortCases ws) hseg'
  generalize hcls : graphemeClusters (cfgPlain cap) env (sortCases ws) = cls at h hcl
  have hclP : ∀ cl ∈ cls, PlainBs cl := by
    intro cl hc
    rw [hcl] at hc
    obtain ⟨w, hw, rfl⟩ := List.mem_map.mp hc
    exact (hpl w hw).1
  have hsimple : ∀ cl ∈ cls, ∀ g ∈ cl, g.Simple := by
    intro cl hc g hg
    obtain ⟨x, _, _, _, rfl⟩ := hclP cl hc g hg
    exact ofStr_simple x
  obtain ⟨m, hm, hacc, hlab, hdfs, hN, hacyc⟩ := Grexv.min_struct cls hsimple (fun g => PlainBs [g])
    (fun cl hc g hg => by
      intro g' hg'
      simp only [List.mem_singleton] at hg'
      subst hg'
      exact hclP cl hc g' hg)
  rw [hm] at h
  simp only [] at h
  injection h with h
  subst h
  simp only []
  -- the expression computed from the minimised automaton
  have hwf := ofDfa_wf cap m hlab hdfs hacyc
  have hlang := elimination_lang_acyclic (cfgPlain cap) m (labelsBs_plain m hlab) hN hdfs hacyc
  obtain ⟨t0, ht0, ht0ne⟩ := hne
  have hwitness : clusterOfPieces (env.segOf t0) ∈ cls ∧ clusterOfPieces (env.segOf t0) ≠ [] := by
    have hmem : t0 ∈ sortCases ws := (sortCases_mem' ws t0).mpr ht0
    refine ⟨by rw [hcl]; exact List.mem_map.mpr ⟨t0, hmem, rfl⟩, ?_⟩
    intro hc
    have := (hpl t0 hmem).2
    rw [hc] at this
    exact ht0ne this.symm
  have hlangE : ∀ w : Word, (Expr.ofDfa (cfgPlain cap) m).lang w ↔ (w ∈ cls ∧ w ≠ []) := by
    intro w
    rw [ofDfa_eq]
    have hl := hlang w
    rw [← accepts_iff_langFrom', hacc w] at hl
    split
    · rename_i e he
      rw [he] at hl
      exact hl
    · rename_i he
      exfalso
      have := (hlang (clusterOfPieces (env.segOf t0)))
      rw [← accepts_iff_langFrom', hacc, he] at this
      exact this.mpr hwitness
  obtain ⟨P, hparse, hmatch⟩ := printed_accepts cap _ hwf s hs
  refine ⟨P, hparse, ?_⟩
  rw [hmatch]
  simp only [Expr.strLang, hlangE]
  constructor
  · rintro ⟨w, ⟨hw, hwne⟩, rfl⟩
    rw [hcl] at hw
    obtain ⟨t, ht, rfl⟩ := List.mem_map.mp hw
    have hp := hpl t ht
    refine ⟨by rw [hp.2]; exact (sortCases_mem' ws t).mp ht, plainBs_flat_ne _ hp.1 hwne⟩
  · rintro ⟨hsw, hsne⟩
    have hmem : s ∈ sortCases ws := (sortCases_mem' ws s).mpr hsw
    have hp := hpl s hmem
    refine ⟨clusterOfPieces (env.segOf s), ⟨by rw [hcl]; exact List.mem_map.mpr ⟨s, hmem, rfl⟩, ?_⟩, hp.2.symm⟩
    intro hc
    rw [hc] at hp
    exact hsne hp.2.symm


/-- with plain settings the returned text is always accepted by the regex parser (no hypothesis on the test cases
beyond the segmentation contract) -/
theorem default_valid (cap : Bool) (env : Env) (ws : List Str) (st : Stages)
    (h : regExpFrom (cfgPlain cap) env ws = .ok st) (hseg : ∀ w ∈ ws, SegOK env w) :
    ∃ P, Spec.parse (fmtRegExp (cfgPlain cap) st.finalAst) = some (⟨false, false⟩, P) := by
  have hci : (cfgPlain cap).ci = false := rfl
  have hanch : ((cfgPlain cap).noStart && (cfgPlain cap).noEnd) = false := rfl
  simp only [regExpFrom, hci, hanch, Bool.false_eq_true, ite_false] at h
  have hseg' : ∀ w ∈ sortCases ws, SegOK env w := fun w hw => hseg w ((sortCases_mem' ws w).mp hw)
  obtain ⟨hcl, hpl⟩ := clusters_plainBs cap env (sortCases ws) hseg'
  generalize hcls : graphemeClusters (cfgPlain cap) env (sortCases ws) = cls at h hcl
  have hclP : ∀ cl ∈ cls, PlainBs cl := by
    intro cl hc
    rw [hcl] at hc
    obtain ⟨w, hw, rfl⟩ := List.mem_map.mp hc
    exact (hpl w hw).1
  have hsimple : ∀ cl ∈ cls, ∀ g ∈ cl, g.Simple := by
    intro cl hc g hg
    obtain ⟨x, _, _, _, rfl⟩ := hclP cl hc g hg
    exact ofStr_simple x
  obtain ⟨m, hm, hacc, hlab, hdfs, hN, hacyc⟩ := Grexv.min_struct cls hsimple (fun g => PlainBs [g])
    (fun cl hc g hg => by
      intro g' hg'
      simp only [List.mem_singleton] at hg'
      subst hg'
      exact hclP cl hc g' hg)
  rw [hm] at h
  simp only [] at h
  injection h with h
  subst h
  exact ⟨_, parse_printed cap _ (ofDfa_wf cap m hlab hdfs hacyc)⟩

end Grexv
