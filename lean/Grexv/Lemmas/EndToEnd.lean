import Grexv.Lemmas.DefaultExact
import Grexv.Lemmas.Presentation
import Grexv.Lemmas.Sort

/-
S1 … S9 and matching composed, for every combination of the six shorthand-class options and capturing groups
(`classes_exact`); the default settings are the special case without class options (`default_exact`).
-/
set_option linter.unusedSimpArgs false
set_option linter.unusedVariables false
namespace Grexv
open Dfa Expr Spec

theorem sortCases_mem' (ws : List Str) (w : Str) : w ∈ sortCases ws ↔ w ∈ ws := by
  simp [sortCases, mem_sortBy, mem_dedupAdj]

theorem accepts_iff_langFrom' (d : Dfa) (w : Word) : d.Accepts w ↔ d.LangFrom d.init w := by
  simp [Dfa.Accepts, Dfa.LangFrom, Dfa.isFinal, List.contains_iff_mem]

/-- everything that changes the *text* of the pattern beyond the class options, capturing groups and the
case-insensitivity flag is off -/
structure PlainPrintCI (cfg : Config) : Prop where
  rep : cfg.rep = false
  sur : cfg.sur = false
  verb : cfg.verb = false
  noStart : cfg.noStart = false
  noEnd : cfg.noEnd = false
  color : cfg.color = false

/-- … and case-sensitive, without `-e` -/
structure PlainPrint (cfg : Config) : Prop extends PlainPrintCI cfg where
  ci : cfg.ci = false
  esc : cfg.esc = false

theorem plainPrint_cfgPlain (cap : Bool) : PlainPrint (cfgPlain cap false) := ⟨⟨rfl, rfl, rfl, rfl, rfl, rfl⟩, rfl, rfl⟩

theorem fmtRegExp_plainCI_eq (cfg : Config) (h : PlainPrintCI cfg) (e : Expr) :
    fmtRegExp cfg e = ciPrefix cfg.ci ++ fmtRegExp (cfgPlain cfg.cap cfg.esc) e := by
  have hb : bodyText cfg e = bodyText (cfgPlain cfg.cap cfg.esc) e :=
    bodyText_congr (c1 := cfg) (c2 := cfgPlain cfg.cap cfg.esc) ⟨rfl, rfl, h.sur, h.verb, h.color⟩ e
  cases hci : cfg.ci with
  | false =>
    simp only [fmtRegExp, hci, h.verb, h.noStart, h.noEnd, h.color, cfgPlain, hb, Bool.and_false, Bool.false_eq_true,
      ite_false, ciPrefix, List.nil_append, Bool.false_and]
  | true =>
    simp only [fmtRegExp, hci, h.verb, h.noStart, h.noEnd, h.color, cfgPlain, hb, Bool.and_false, Bool.false_eq_true,
      ite_false, ite_true, ciPrefix, List.nil_append, Bool.false_and, Comp.flagI, paint, Gen.strFlagI, List.append_assoc]
    have hR : ∀ x : Str, R ([40, 63, 105, 41] ++ x) = [40, 63, 105, 41] ++ R x := by
      intro x; rw [R_append]; rfl
    exact hR _

theorem fmtRegExp_plain_eq (cfg : Config) (h : PlainPrint cfg) (e : Expr) :
    fmtRegExp cfg e = fmtRegExp (cfgPlain cfg.cap cfg.esc) e := by
  rw [fmtRegExp_plainCI_eq cfg h.toPlainPrintCI, h.ci]; rfl

theorem plainBs_atoms_nil (c : Cluster) (h : PlainBs c) (ha : atomsOf c = []) : c = [] := by
  cases c with
  | nil => rfl
  | cons g gs =>
    obtain ⟨as, hne, hok, rfl⟩ := h _ List.mem_cons_self
    rw [atomsOf_cons as hok gs] at ha
    exact absurd (List.append_eq_nil_iff.mp ha).1 hne

/-- the test cases `RegExp::from` stores: with the case-insensitive option each one is replaced by its lower-cased
form where that keeps the number of code points and still matches it -/
def storedCases (cfg : Config) (env : Env) (ws : List Str) : List Str := if cfg.ci then lowerCases env ws else ws

/-- **C03, C02 and C04 for the model, all inputs** for every combination of the six class options, with or without
capturing groups, with or without the case-insensitive option, everything else at its default: for every list of test
cases containing a non-empty one, every segmentation meeting its contract and every string `s` of scalar values,
`RegExp::from` succeeds, the printed text is accepted by `Regex::new`, and the compiled pattern matches `s` in full
**iff `s` is obtained from some non-empty stored test case by replacing each code point independently by a member of
what it was converted to** (the code point itself — under `(?i)` any member of its simple-case-folding orbit — if it
was not converted, any member of the shorthand class otherwise) -/
theorem classes_exact_ci (cfg : Config) (hp : PlainPrintCI cfg) (env : Env) (ws : List Str) (st : Stages)
    (h : regExpFrom cfg env ws = .ok st) (hseg : ∀ w ∈ storedCases cfg env ws, SegOK env w)
    (hne : ∃ t ∈ storedCases cfg env ws, t ≠ [])
    (s : Str) (hs : ∀ c ∈ s, Scalar c) :
    ∃ P, Spec.parse (fmtRegExp cfg st.finalAst) = some (⟨cfg.ci, false⟩, P) ∧
      (Spec.fullMatch cfg.ci P s = true ↔
        ∃ t ∈ storedCases cfg env ws, t ≠ [] ∧ atomsDen cfg.ci (t.map (convAtom cfg)) s) := by
  have hanch : (cfg.noStart && cfg.noEnd) = false := by simp [hp.noStart]
  simp only [regExpFrom, hanch, Bool.false_eq_true, ite_false] at h
  change (match Dfa.minimize (Dfa.trie (graphemeClusters cfg env (sortCases (storedCases cfg env ws)))) Dfa.pickMin with
    | none => _ | some dmin => _) = _ at h
  generalize storedCases cfg env ws = ws1 at h hseg hne ⊢
  have hseg' : ∀ w ∈ sortCases ws1, SegOK env w := fun w hw => hseg w ((sortCases_mem' ws1 w).mp hw)
  obtain ⟨f, hcl, hpl⟩ := clusters_atoms cfg hp.rep env (sortCases ws1) hseg'
  generalize hcls : graphemeClusters cfg env (sortCases ws1) = cls at h hcl
  have hclP : ∀ cl ∈ cls, PlainBs cl := by
    intro cl hc
    rw [hcl] at hc
    obtain ⟨w, hw, rfl⟩ := List.mem_map.mp hc
    exact (hpl w hw).1
  have hsimple : ∀ cl ∈ cls, ∀ g ∈ cl, g.Simple := by
    intro cl hc g hg
    obtain ⟨x, _, _, rfl⟩ := hclP cl hc g hg
    exact ofStr_simple _
  obtain ⟨m, hm, hacc, hlab, hdfs, hN, hacyc⟩ := Grexv.min_struct cls hsimple (fun g => PlainBs [g])
    (fun cl hc g hg => by
      intro g' hg'
      simp only [List.mem_singleton] at hg'
      subst hg'
      exact hclP cl hc g' hg)
  rw [hm] at h
  simp only [] at h
  injection h with h
  subst h
  simp only []
  -- the expression computed from the minimised automaton
  have hof : Expr.ofDfa cfg m = Expr.ofDfa (cfgPlain cfg.cap cfg.esc) m := ofDfa_congr (c1 := cfg) (c2 := cfgPlain cfg.cap cfg.esc) rfl m
  have hwf := ofDfa_wf cfg.cap cfg.esc m hlab hdfs hacyc
  have hlang := elimination_lang_acyclic cfg m (labelsBs_plain m hlab) hN hdfs hacyc
  obtain ⟨t0, ht0, ht0ne⟩ := hne
  have hmem0 : t0 ∈ sortCases ws1 := (sortCases_mem' ws1 t0).mpr ht0
  have hwitness : f t0 ∈ cls ∧ f t0 ≠ [] := by
    refine ⟨by rw [hcl]; exact List.mem_map.mpr ⟨t0, hmem0, rfl⟩, ?_⟩
    intro hc
    have := (hpl t0 hmem0).2
    rw [hc] at this
    cases t0 with
    | nil => exact ht0ne rfl
    | cons a r => simp [atomsOf] at this
  have hlangE : ∀ w : Word, (Expr.ofDfa cfg m).lang w ↔ (w ∈ cls ∧ w ≠ []) := by
    intro w
    rw [ofDfa_eq]
    have hl := hlang w
    rw [← accepts_iff_langFrom', hacc w] at hl
    split
    · rename_i e he
      rw [he] at hl
      exact hl
    · rename_i he
      exfalso
      have := (hlang (f t0))
      rw [← accepts_iff_langFrom', hacc, he] at this
      exact this.mpr hwitness
  rw [fmtRegExp_plainCI_eq cfg hp, hof]
  obtain ⟨P, hparse, hmatch⟩ := printed_accepts_ci cfg.ci cfg.cap cfg.esc _ hwf s hs
  refine ⟨P, hparse, ?_⟩
  rw [hmatch]
  simp only [Expr.strLang, ← hof, hlangE]
  constructor
  · rintro ⟨w, ⟨hw, hwne⟩, hd⟩
    rw [hcl] at hw
    obtain ⟨t, ht, rfl⟩ := List.mem_map.mp hw
    have hpt := hpl t ht
    refine ⟨t, (sortCases_mem' ws1 t).mp ht, ?_, by rw [← hpt.2]; exact hd⟩
    intro hc
    subst hc
    exact hwne (plainBs_atoms_nil _ hpt.1 (by rw [hpt.2]; rfl))
  · rintro ⟨t, htw, htne, hd⟩
    have hmem : t ∈ sortCases ws1 := (sortCases_mem' ws1 t).mpr htw
    have hpt := hpl t hmem
    refine ⟨f t, ⟨by rw [hcl]; exact List.mem_map.mpr ⟨t, hmem, rfl⟩, ?_⟩, by rw [hpt.2]; exact hd⟩
    intro hc
    have := hpt.2
    rw [hc] at this
    cases t with
    | nil => exact htne rfl
    | cons a r => simp [atomsOf] at this

/-- the case-sensitive special case -/
theorem classes_exact (cfg : Config) (hp : PlainPrint cfg) (env : Env) (ws : List Str) (st : Stages)
    (h : regExpFrom cfg env ws = .ok st) (hseg : ∀ w ∈ ws, SegOK env w) (hne : ∃ t ∈ ws, t ≠ [])
    (s : Str) (hs : ∀ c ∈ s, Scalar c) :
    ∃ P, Spec.parse (fmtRegExp cfg st.finalAst) = some (⟨false, false⟩, P) ∧
      (Spec.fullMatch false P s = true ↔ ∃ t ∈ ws, t ≠ [] ∧ atomsDen false (t.map (convAtom cfg)) s) := by
  have hst : storedCases cfg env ws = ws := by simp [storedCases, hp.ci]
  have := classes_exact_ci cfg hp.toPlainPrintCI env ws st h (by rw [hst]; exact hseg) (by rw [hst]; exact hne) s hs
  rw [hst, hp.ci] at this
  exact this

/-- the same settings with `-e` switched on / off -/
def withEsc (cfg : Config) (b : Bool) : Config := { cfg with esc := b }

theorem plainPrintCI_withEsc (cfg : Config) (h : PlainPrintCI cfg) (b : Bool) : PlainPrintCI (withEsc cfg b) :=
  ⟨h.rep, h.sur, h.verb, h.noStart, h.noEnd, h.color⟩

/-- **C11 / C06 for the model, all inputs: `-e` is notation only.** For every subset of the class options, with or
without capturing groups and the case-insensitive option, everything else at its default: the build with `\u{…}`
escapes and the build without are both accepted by the model of `Regex::new`, and the two compiled patterns match
exactly the same strings of scalar values in full — decoding the escapes gives back the language -/
theorem esc_same_language (cfg : Config) (hp : PlainPrintCI cfg) (env : Env) (ws : List Str) (stE st0 : Stages)
    (hE : regExpFrom (withEsc cfg true) env ws = .ok stE) (h0 : regExpFrom (withEsc cfg false) env ws = .ok st0)
    (hseg : ∀ w ∈ storedCases cfg env ws, SegOK env w) (hne : ∃ t ∈ storedCases cfg env ws, t ≠ [])
    (s : Str) (hs : ∀ c ∈ s, Scalar c) :
    ∃ PE P0, Spec.parse (fmtRegExp (withEsc cfg true) stE.finalAst) = some (⟨cfg.ci, false⟩, PE) ∧
      Spec.parse (fmtRegExp (withEsc cfg false) st0.finalAst) = some (⟨cfg.ci, false⟩, P0) ∧
      Spec.fullMatch cfg.ci PE s = Spec.fullMatch cfg.ci P0 s := by
  obtain ⟨PE, pE, mE⟩ := classes_exact_ci (withEsc cfg true) (plainPrintCI_withEsc cfg hp true) env ws stE hE hseg hne s hs
  obtain ⟨P0, p0, m0⟩ := classes_exact_ci (withEsc cfg false) (plainPrintCI_withEsc cfg hp false) env ws st0 h0 hseg hne s hs
  refine ⟨PE, P0, pE, p0, ?_⟩
  have hiff : Spec.fullMatch cfg.ci PE s = true ↔ Spec.fullMatch cfg.ci P0 s = true := mE.trans m0.symm
  cases h : Spec.fullMatch cfg.ci PE s <;> cases h' : Spec.fullMatch cfg.ci P0 s
  · rfl
  · exact absurd (hiff.mpr h') (by simp [h])
  · exact absurd (hiff.mp h) (by simp [h'])
  · rfl

/-- without class options every code point stays itself -/
theorem convAtom_plain (cap : Bool) (c : Nat) : convAtom (cfgPlain cap false) c = Atom.chr c := by
  have : convChar (cfgPlain cap false) c = [c] := convChar_noflags (cfgPlain cap false) ⟨rfl, rfl, rfl, rfl, rfl, rfl⟩ c
  simp [convAtom, this]

theorem atomsDen_chars (t s : Str) : atomsDen false (t.map Atom.chr) s ↔ s = t := by
  induction t generalizing s with
  | nil => simp [atomsDen]
  | cons c r ih =>
    simp only [List.map_cons, atomsDen, atomDen, chrMatches_false]
    constructor
    · rintro ⟨x, r', rfl, rfl, h⟩; rw [(ih r').mp h]
    · rintro rfl; exact ⟨c, r, rfl, rfl, (ih r).mpr rfl⟩

/-- **C02 for the model, all inputs** (the case of `classes_exact` without class options) -/
theorem default_exact (cap : Bool) (env : Env) (ws : List Str) (st : Stages)
    (h : regExpFrom (cfgPlain cap false) env ws = .ok st) (hseg : ∀ w ∈ ws, SegOK env w) (hne : ∃ t ∈ ws, t ≠ [])
    (s : Str) (hs : ∀ c ∈ s, Scalar c) :
    ∃ P, Spec.parse (fmtRegExp (cfgPlain cap false) st.finalAst) = some (⟨false, false⟩, P) ∧
      (Spec.fullMatch false P s = true ↔ (s ∈ ws ∧ s ≠ [])) := by
  obtain ⟨P, hP, hm⟩ := classes_exact (cfgPlain cap false) (plainPrint_cfgPlain cap) env ws st h hseg hne s hs
  refine ⟨P, hP, ?_⟩
  rw [hm]
  have hmap : ∀ t : Str, t.map (convAtom (cfgPlain cap false)) = t.map Atom.chr :=
    fun t => List.map_congr_left (fun c _ => convAtom_plain cap c)
  constructor
  · rintro ⟨t, ht, htne, hd⟩
    rw [hmap, atomsDen_chars] at hd
    subst hd
    exact ⟨ht, htne⟩
  · rintro ⟨hsw, hsne⟩
    exact ⟨s, hsw, hsne, by rw [hmap, atomsDen_chars]⟩

/-- with plain settings the returned text is always accepted by the regex parser (no hypothesis on the test cases
beyond the segmentation contract) -/
theorem classes_valid (cfg : Config) (hp : PlainPrint cfg) (env : Env) (ws : List Str) (st : Stages)
    (h : regExpFrom cfg env ws = .ok st) (hseg : ∀ w ∈ ws, SegOK env w) :
    ∃ P, Spec.parse (fmtRegExp cfg st.finalAst) = some (⟨false, false⟩, P) := by
  have hanch : (cfg.noStart && cfg.noEnd) = false := by simp [hp.noStart]
  simp only [regExpFrom, hp.ci, hanch, Bool.false_eq_true, ite_false] at h
  have hseg' : ∀ w ∈ sortCases ws, SegOK env w := fun w hw => hseg w ((sortCases_mem' ws w).mp hw)
  obtain ⟨f, hcl, hpl⟩ := clusters_atoms cfg hp.rep env (sortCases ws) hseg'
  generalize hcls : graphemeClusters cfg env (sortCases ws) = cls at h hcl
  have hclP : ∀ cl ∈ cls, PlainBs cl := by
    intro cl hc
    rw [hcl] at hc
    obtain ⟨w, hw, rfl⟩ := List.mem_map.mp hc
    exact (hpl w hw).1
  have hsimple : ∀ cl ∈ cls, ∀ g ∈ cl, g.Simple := by
    intro cl hc g hg
    obtain ⟨x, _, _, rfl⟩ := hclP cl hc g hg
    exact ofStr_simple _
  obtain ⟨m, hm, hacc, hlab, hdfs, hN, hacyc⟩ := Grexv.min_struct cls hsimple (fun g => PlainBs [g])
    (fun cl hc g hg => by
      intro g' hg'
      simp only [List.mem_singleton] at hg'
      subst hg'
      exact hclP cl hc g' hg)
  rw [hm] at h
  simp only [] at h
  injection h with h
  subst h
  have hof : Expr.ofDfa cfg m = Expr.ofDfa (cfgPlain cfg.cap cfg.esc) m := ofDfa_congr (c1 := cfg) (c2 := cfgPlain cfg.cap cfg.esc) rfl m
  simp only []
  rw [fmtRegExp_plain_eq cfg hp, hof]
  exact ⟨_, parse_printed cfg.cap cfg.esc _ (ofDfa_wf cfg.cap cfg.esc m hlab hdfs hacyc)⟩

theorem default_valid (cap : Bool) (env : Env) (ws : List Str) (st : Stages)
    (h : regExpFrom (cfgPlain cap false) env ws = .ok st) (hseg : ∀ w ∈ ws, SegOK env w) :
    ∃ P, Spec.parse (fmtRegExp (cfgPlain cap false) st.finalAst) = some (⟨false, false⟩, P) :=
  classes_valid (cfgPlain cap false) (plainPrint_cfgPlain cap) env ws st h hseg

end Grexv
