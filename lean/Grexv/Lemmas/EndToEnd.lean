import Grexv.Lemmas.DefaultExact
import Grexv.Lemmas.Presentation
import Grexv.Lemmas.Sort
import Grexv.Lemmas.Stages
import Grexv.Lemmas.XTop

/-
S1 … S9 and matching composed, for every combination of the six shorthand-class options and capturing groups
(`classes_exact`); the default settings are the special case without class options (`default_exact`).
-/
set_option linter.unusedSimpArgs false
set_option linter.unusedVariables false
namespace Grexv
open Dfa Expr Spec

theorem sortCases_mem' (ws : List Str) (w : Str) : w ∈ sortCases ws ↔ w ∈ ws := by
  simp [sortCases, mem_sortBy, mem_dedupAdj]

theorem accepts_iff_langFrom' (d : Dfa) (w : Word) : d.Accepts w ↔ d.LangFrom d.init w := by
  simp [Dfa.Accepts, Dfa.LangFrom, Dfa.isFinal, List.contains_iff_mem]

/-- everything that changes the *text* of the pattern beyond the class options, capturing groups, `-e`, the
case-insensitivity flag and a single disabled anchor is off (with both anchors disabled `RegExp::from` runs its
self-check and may keep another expression) -/
structure PlainPrintCI (cfg : Config) : Prop where
  rep : cfg.rep = false
  sur : cfg.sur = false
  verb : cfg.verb = false
  color : cfg.color = false
  anch : (cfg.noStart && cfg.noEnd) = false

/-- … and case-sensitive, without `-e`, both anchors -/
structure PlainPrint (cfg : Config) : Prop extends PlainPrintCI cfg where
  ci : cfg.ci = false
  esc : cfg.esc = false
  noStart : cfg.noStart = false
  noEnd : cfg.noEnd = false

theorem plainPrint_cfgPlain (cap : Bool) : PlainPrint (cfgPlain cap false) := ⟨⟨rfl, rfl, rfl, rfl, rfl⟩, rfl, rfl, rfl, rfl⟩

theorem fmtRegExp_plainCI_eq (cfg : Config) (h : PlainPrintCI cfg) (e : Expr) :
    fmtRegExp cfg e = ciPrefix cfg.ci ++ fmtRegExp (cfgAnch cfg.cap cfg.esc cfg.noStart cfg.noEnd) e := by
  have hb : bodyText cfg e = bodyText (cfgAnch cfg.cap cfg.esc cfg.noStart cfg.noEnd) e :=
    bodyText_congr (c1 := cfg) (c2 := cfgAnch cfg.cap cfg.esc cfg.noStart cfg.noEnd) ⟨rfl, rfl, h.sur, h.verb, h.color⟩ e
  cases hci : cfg.ci with
  | false =>
    simp only [fmtRegExp, hci, h.verb, h.color, cfgAnch, hb, Bool.and_false, Bool.false_eq_true,
      ite_false, ciPrefix, List.nil_append, Bool.false_and]
    try rfl
  | true =>
    simp only [fmtRegExp, hci, h.verb, h.color, cfgAnch, hb, Bool.and_false, Bool.false_eq_true,
      ite_false, ite_true, ciPrefix, List.nil_append, Bool.false_and, Comp.flagI, paint, Gen.strFlagI, List.append_assoc]
    have hR : ∀ x : Str, R ([40, 63, 105, 41] ++ x) = [40, 63, 105, 41] ++ R x := by
      intro x; rw [R_append]; rfl
    exact hR _

theorem fmtRegExp_plain_eq (cfg : Config) (h : PlainPrint cfg) (e : Expr) :
    fmtRegExp cfg e = fmtRegExp (cfgPlain cfg.cap cfg.esc) e := by
  rw [fmtRegExp_plainCI_eq cfg h.toPlainPrintCI, h.ci, h.noStart, h.noEnd]; rfl

theorem plainBs_atoms_nil (c : Cluster) (h : PlainBs c) (ha : atomsOf c = []) : c = [] := by
  cases c with
  | nil => rfl
  | cons g gs =>
    obtain ⟨as, hne, hok, rfl⟩ := h _ List.mem_cons_self
    rw [atomsOf_cons as hok gs] at ha
    exact absurd (List.append_eq_nil_iff.mp ha).1 hne

/-- the test cases `RegExp::from` stores: with the case-insensitive option each one is replaced by its lower-cased
form where that keeps the number of code points and still matches it -/
def storedCases (cfg : Config) (env : Env) (ws : List Str) : List Str := if cfg.ci then lowerCases env ws else ws

/-- the expression kept when an anchor is in place: well-formed, and its string-level language is the set of generalised
non-empty stored test cases -/
theorem final_expr_exact (cfg : Config) (hrep : cfg.rep = false) (hanch : (cfg.noStart && cfg.noEnd) = false)
    (env : Env) (ws : List Str) (st : Stages)
    (h : regExpFrom cfg env ws = .ok st) (hseg : ∀ w ∈ storedCases cfg env ws, SegOK env w)
    (hne : ∃ t ∈ storedCases cfg env ws, t ≠ []) :
    st.finalAst.WF ∧ ∀ (i : Bool) (s : Str), (st.finalAst.strLang i s ↔
        ∃ t ∈ storedCases cfg env ws, t ≠ [] ∧ atomsDen i (t.map (convAtom cfg)) s) := by
  simp only [regExpFrom, hanch, Bool.false_eq_true, ite_false] at h
  change (match Dfa.minimize (Dfa.trie (graphemeClusters cfg env (sortCases (storedCases cfg env ws)))) Dfa.pickMin with
    | none => _ | some dmin => _) = _ at h
  generalize storedCases cfg env ws = ws1 at h hseg hne ⊢
  have hseg' : ∀ w ∈ sortCases ws1, SegOK env w := fun w hw => hseg w ((sortCases_mem' ws1 w).mp hw)
  obtain ⟨f, hcl, hpl⟩ := clusters_atoms cfg hrep env (sortCases ws1) hseg'
  generalize hcls : graphemeClusters cfg env (sortCases ws1) = cls at h hcl
  have hclP : ∀ cl ∈ cls, PlainBs cl := by
    intro cl hc
    rw [hcl] at hc
    obtain ⟨w, hw, rfl⟩ := List.mem_map.mp hc
    exact (hpl w hw).1
  have hsimple : ∀ cl ∈ cls, ∀ g ∈ cl, g.Simple := by
    intro cl hc g hg
    obtain ⟨x, _, _, rfl⟩ := hclP cl hc g hg
    exact ofStr_simple _
  obtain ⟨m, hm, hacc, hlab, hdfs, hN, hacyc⟩ := Grexv.min_struct cls hsimple (fun g => PlainBs [g])
    (fun cl hc g hg => by
      intro g' hg'
      simp only [List.mem_singleton] at hg'
      subst hg'
      exact hclP cl hc g' hg)
  rw [hm] at h
  simp only [] at h
  injection h with h
  subst h
  simp only []
  -- the expression computed from the minimised automaton
  have hof : Expr.ofDfa cfg m = Expr.ofDfa (cfgPlain cfg.cap cfg.esc) m := ofDfa_congr (c1 := cfg) (c2 := cfgPlain cfg.cap cfg.esc) rfl m
  have hwf := ofDfa_wf cfg.cap cfg.esc m hlab hdfs hacyc
  have hlang := elimination_lang_acyclic cfg m (labelsBs_plain m hlab) hN hdfs hacyc
  obtain ⟨t0, ht0, ht0ne⟩ := hne
  have hmem0 : t0 ∈ sortCases ws1 := (sortCases_mem' ws1 t0).mpr ht0
  have hwitness : f t0 ∈ cls ∧ f t0 ≠ [] := by
    refine ⟨by rw [hcl]; exact List.mem_map.mpr ⟨t0, hmem0, rfl⟩, ?_⟩
    intro hc
    have := (hpl t0 hmem0).2
    rw [hc] at this
    cases t0 with
    | nil => exact ht0ne rfl
    | cons a r => simp [atomsOf] at this
  have hlangE : ∀ w : Word, (Expr.ofDfa cfg m).lang w ↔ (w ∈ cls ∧ w ≠ []) := by
    intro w
    rw [ofDfa_eq]
    have hl := hlang w
    rw [← accepts_iff_langFrom', hacc w] at hl
    split
    · rename_i e he
      rw [he] at hl
      exact hl
    · rename_i he
      exfalso
      have := (hlang (f t0))
      rw [← accepts_iff_langFrom', hacc, he] at this
      exact this.mpr hwitness
  refine ⟨by rw [hof]; exact hwf, ?_⟩
  intro i s
  simp only [Expr.strLang, hlangE]
  constructor
  · rintro ⟨w, ⟨hw, hwne⟩, hd⟩
    rw [hcl] at hw
    obtain ⟨t, ht, rfl⟩ := List.mem_map.mp hw
    have hpt := hpl t ht
    refine ⟨t, (sortCases_mem' ws1 t).mp ht, ?_, by rw [← hpt.2]; exact hd⟩
    intro hc
    subst hc
    exact hwne (plainBs_atoms_nil _ hpt.1 (by rw [hpt.2]; rfl))
  · rintro ⟨t, htw, htne, hd⟩
    have hmem : t ∈ sortCases ws1 := (sortCases_mem' ws1 t).mpr htw
    have hpt := hpl t hmem
    refine ⟨f t, ⟨by rw [hcl]; exact List.mem_map.mpr ⟨t, hmem, rfl⟩, ?_⟩, by rw [hpt.2]; exact hd⟩
    intro hc
    have := hpt.2
    rw [hc] at this
    cases t with
    | nil => exact htne rfl
    | cons a r => simp [atomsOf] at this

/-- **C03, C02 and C04 for the model, all inputs** for every combination of the six class options, with or without
capturing groups, with or without the case-insensitive option, everything else at its default: for every list of test
cases containing a non-empty one, every segmentation meeting its contract and every string `s` of scalar values,
`RegExp::from` succeeds, the printed text is accepted by `Regex::new`, and the compiled pattern matches `s` in full
**iff `s` is obtained from some non-empty stored test case by replacing each code point independently by a member of
what it was converted to** (the code point itself — under `(?i)` any member of its simple-case-folding orbit — if it
was not converted, any member of the shorthand class otherwise) -/
theorem classes_exact_ci (cfg : Config) (hp : PlainPrintCI cfg) (env : Env) (ws : List Str) (st : Stages)
    (h : regExpFrom cfg env ws = .ok st) (hseg : ∀ w ∈ storedCases cfg env ws, SegOK env w)
    (hne : ∃ t ∈ storedCases cfg env ws, t ≠ [])
    (s : Str) (hs : ∀ c ∈ s, Scalar c) :
    ∃ P, Spec.parse (fmtRegExp cfg st.finalAst) = some (⟨cfg.ci, false⟩, P) ∧
      (Spec.fullMatch cfg.ci P s = true ↔
        ∃ t ∈ storedCases cfg env ws, t ≠ [] ∧ atomsDen cfg.ci (t.map (convAtom cfg)) s) := by
  obtain ⟨hwf, hlang⟩ := final_expr_exact cfg hp.rep hp.anch env ws st h hseg hne
  rw [fmtRegExp_plainCI_eq cfg hp]
  obtain ⟨P, hparse, hmatch⟩ := printed_acceptsA cfg.ci cfg.cap cfg.esc cfg.noStart cfg.noEnd _ hwf s hs
  exact ⟨P, hparse, hmatch.trans (hlang cfg.ci s)⟩

/-! ### verbose mode -/

/-- verbose settings covered end to end: no `-r`, no surrogate pairs, no colours, at least one anchor (with both
anchors disabled `RegExp::from` re-compiles the verbose candidate without its line breaks: C07) -/
structure VerbosePrint (cfg : Config) : Prop where
  rep : cfg.rep = false
  sur : cfg.sur = false
  color : cfg.color = false
  verb : cfg.verb = true
  anch : (cfg.noStart && cfg.noEnd) = false

theorem indentLines_congr {c1 c2 : Config} (h : c1.noStart = c2.noStart) : ∀ (ls : List Str) (i l : Nat),
    indentLines c1 ls i l = indentLines c2 ls i l
  | [], _, _ => by simp only [indentLines]
  | line :: rest, i, l => by
    rw [indentLines, indentLines, h]
    simp only []
    split
    · exact indentLines_congr h rest _ _
    · rw [indentLines_congr h rest]

theorem fmtRegExp_verbose_eq (cfg : Config) (h : VerbosePrint cfg) (e : Expr) :
    fmtRegExp cfg e = fmtRegExp (cfgVerb cfg.cap cfg.esc cfg.ci cfg.noStart cfg.noEnd) e := by
  have hb : bodyText cfg e = bodyText (cfgVerb cfg.cap cfg.esc cfg.ci cfg.noStart cfg.noEnd) e :=
    bodyText_congr (c1 := cfg) (c2 := cfgVerb cfg.cap cfg.esc cfg.ci cfg.noStart cfg.noEnd) ⟨rfl, rfl, h.sur, h.verb, h.color⟩ e
  have hi : ∀ s, indentRegexp cfg s = indentRegexp (cfgVerb cfg.cap cfg.esc cfg.ci cfg.noStart cfg.noEnd) s := by
    intro s
    unfold indentRegexp
    rw [indentLines_congr (c1 := cfg) (c2 := cfgVerb cfg.cap cfg.esc cfg.ci cfg.noStart cfg.noEnd) rfl]
  unfold fmtRegExp
  simp only [h.verb, h.color, hb, hi, cfgVerb, Bool.and_true, ite_true]
  try rfl

/-- verbose settings without the condition on the anchors -/
structure VerbosePrintNA (cfg : Config) : Prop where
  rep : cfg.rep = false
  sur : cfg.sur = false
  color : cfg.color = false
  verb : cfg.verb = true

theorem fmtRegExp_verboseNA_eq (cfg : Config) (h : VerbosePrintNA cfg) (e : Expr) :
    fmtRegExp cfg e = fmtRegExp (cfgVerb cfg.cap cfg.esc cfg.ci cfg.noStart cfg.noEnd) e := by
  have hb : bodyText cfg e = bodyText (cfgVerb cfg.cap cfg.esc cfg.ci cfg.noStart cfg.noEnd) e :=
    bodyText_congr (c1 := cfg) (c2 := cfgVerb cfg.cap cfg.esc cfg.ci cfg.noStart cfg.noEnd) ⟨rfl, rfl, h.sur, h.verb, h.color⟩ e
  have hi : ∀ s, indentRegexp cfg s = indentRegexp (cfgVerb cfg.cap cfg.esc cfg.ci cfg.noStart cfg.noEnd) s := by
    intro s
    unfold indentRegexp
    rw [indentLines_congr (c1 := cfg) (c2 := cfgVerb cfg.cap cfg.esc cfg.ci cfg.noStart cfg.noEnd) rfl]
  unfold fmtRegExp
  simp only [h.verb, h.color, hb, hi, cfgVerb, Bool.and_true, ite_true]
  try rfl

theorem VerbosePrint.toNA {cfg : Config} (h : VerbosePrint cfg) : VerbosePrintNA cfg := ⟨h.rep, h.sur, h.color, h.verb⟩

/-- **verbose mode, end to end (C06, C01–C04, C07, C08 in verbose mode)** for every subset of the class options, with
or without capturing groups, `-e`, `-i`, with at least one anchor: the verbose text — flag line, one lexeme group per
line, indentation, `#`, blank and other white space escaped — is accepted by the model of `Regex::new` with the flags
`x` (and `i`) set, and the compiled pattern matches a string in full iff it is a generalised non-empty stored test case:
exactly the language of the build without verbose mode -/
theorem classes_exact_verbose (cfg : Config) (hp : VerbosePrint cfg) (env : Env) (ws : List Str) (st : Stages)
    (h : regExpFrom cfg env ws = .ok st) (hseg : ∀ w ∈ storedCases cfg env ws, SegOK env w)
    (hne : ∃ t ∈ storedCases cfg env ws, t ≠ [])
    (s : Str) (hs : ∀ c ∈ s, Scalar c) :
    ∃ P, Spec.parse (fmtRegExp cfg st.finalAst) = some (⟨cfg.ci, true⟩, P) ∧
      (Spec.fullMatch cfg.ci P s = true ↔
        ∃ t ∈ storedCases cfg env ws, t ≠ [] ∧ atomsDen cfg.ci (t.map (convAtom cfg)) s) := by
  obtain ⟨hwf, hlang⟩ := final_expr_exact cfg hp.rep hp.anch env ws st h hseg hne
  rw [fmtRegExp_verbose_eq cfg hp]
  obtain ⟨P, hparse, hmatch⟩ := printed_accepts_verbose cfg.ci cfg.cap cfg.esc cfg.noStart cfg.noEnd _ hwf s hs
  exact ⟨P, hparse, hmatch.trans (hlang cfg.ci s)⟩

/-- the case-sensitive special case -/
theorem classes_exact (cfg : Config) (hp : PlainPrint cfg) (env : Env) (ws : List Str) (st : Stages)
    (h : regExpFrom cfg env ws = .ok st) (hseg : ∀ w ∈ ws, SegOK env w) (hne : ∃ t ∈ ws, t ≠ [])
    (s : Str) (hs : ∀ c ∈ s, Scalar c) :
    ∃ P, Spec.parse (fmtRegExp cfg st.finalAst) = some (⟨false, false⟩, P) ∧
      (Spec.fullMatch false P s = true ↔ ∃ t ∈ ws, t ≠ [] ∧ atomsDen false (t.map (convAtom cfg)) s) := by
  have hst : storedCases cfg env ws = ws := by simp [storedCases, hp.ci]
  have := classes_exact_ci cfg hp.toPlainPrintCI env ws st h (by rw [hst]; exact hseg) (by rw [hst]; exact hne) s hs
  rw [hst, hp.ci] at this
  exact this

theorem trie_acyclic_paths (cls : List Cluster) (hcls : ∀ cl ∈ cls, ∀ g ∈ cl, g.Simple) :
    ∀ c w, Dfa.Path (Dfa.trie cls) c w c → w = [] := by
  intro c w pth
  have ht := (Dfa.trie_tree_alpha cls hcls).1
  apply Classical.byContradiction
  intro hw
  have := Dfa.Path.lt_of_ne_nil (fun e he => (ht.lt e he).1) pth hw
  omega

/-- the presentation conditions of `classes_exact_ci` without the one on the anchors -/
structure PlainPrintNA (cfg : Config) : Prop where
  rep : cfg.rep = false
  sur : cfg.sur = false
  verb : cfg.verb = false
  color : cfg.color = false

theorem fmtRegExp_plainNA_eq (cfg : Config) (h : PlainPrintNA cfg) (e : Expr) :
    fmtRegExp cfg e = ciPrefix cfg.ci ++ fmtRegExp (cfgAnch cfg.cap cfg.esc cfg.noStart cfg.noEnd) e := by
  have hb : bodyText cfg e = bodyText (cfgAnch cfg.cap cfg.esc cfg.noStart cfg.noEnd) e :=
    bodyText_congr (c1 := cfg) (c2 := cfgAnch cfg.cap cfg.esc cfg.noStart cfg.noEnd) ⟨rfl, rfl, h.sur, h.verb, h.color⟩ e
  cases hci : cfg.ci with
  | false =>
    simp only [fmtRegExp, hci, h.verb, h.color, cfgAnch, hb, Bool.and_false, Bool.false_eq_true,
      ite_false, ciPrefix, List.nil_append, Bool.false_and]
    try rfl
  | true =>
    simp only [fmtRegExp, hci, h.verb, h.color, cfgAnch, hb, Bool.and_false, Bool.false_eq_true,
      ite_false, ite_true, ciPrefix, List.nil_append, Bool.false_and, Comp.flagI, paint, Gen.strFlagI, List.append_assoc]
    have hR : ∀ x : Str, R ([40, 63, 105, 41] ++ x) = [40, 63, 105, 41] ++ R x := by
      intro x; rw [R_append]; rfl
    exact hR _

/-- whichever of the three expressions `RegExp::from` keeps: well-formed, and its string-level language lies between the
non-empty generalised test cases and the generalised test cases -/
theorem final_expr_bounds (cfg : Config) (hrep : cfg.rep = false) (env : Env) (ws : List Str) (st : Stages)
    (h : regExpFrom cfg env ws = .ok st) (hseg : ∀ w ∈ storedCases cfg env ws, SegOK env w)
    (hne : ∃ t ∈ storedCases cfg env ws, t ≠ []) :
    st.finalAst.WF ∧ ∀ (i : Bool) (s : Str),
      (st.finalAst.strLang i s → ∃ t ∈ storedCases cfg env ws, atomsDen i (t.map (convAtom cfg)) s) ∧
      (∀ t ∈ storedCases cfg env ws, t ≠ [] → atomsDen i (t.map (convAtom cfg)) s → st.finalAst.strLang i s) := by
  have hthree := from_final_three cfg env ws st h
  obtain ⟨h1, h2, h3, h4, h5⟩ := from_stages_shape cfg env ws st h
  change st.sorted = sortCases (storedCases cfg env ws) at h1
  generalize storedCases cfg env ws = ws1 at h1 hseg hne ⊢
  have hseg' : ∀ w ∈ sortCases ws1, SegOK env w := fun w hw => hseg w ((sortCases_mem' ws1 w).mp hw)
  obtain ⟨f, hcl, hpl⟩ := clusters_atoms cfg hrep env (sortCases ws1) hseg'
  rw [← h1, ← h2] at hcl
  generalize hcls : st.clusters = cls at *
  have hclP : ∀ cl ∈ cls, PlainBs cl := by
    intro cl hc
    rw [hcl] at hc
    obtain ⟨w, hw, rfl⟩ := List.mem_map.mp hc
    exact (hpl w (by rw [← h1]; exact hw)).1
  have hsimple : ∀ cl ∈ cls, ∀ g ∈ cl, g.Simple := by
    intro cl hc g hg
    obtain ⟨x, _, _, rfl⟩ := hclP cl hc g hg
    exact ofStr_simple _
  have hPl : ∀ cl ∈ cls, ∀ g ∈ cl, (fun g => PlainBs [g]) g := by
    intro cl hc g hg g' hg'
    simp only [List.mem_singleton] at hg'
    subst hg'
    exact hclP cl hc g' hg
  obtain ⟨t0, ht0, ht0ne⟩ := hne
  have hmem0 : t0 ∈ sortCases ws1 := (sortCases_mem' ws1 t0).mpr ht0
  have hwitness : f t0 ∈ cls ∧ f t0 ≠ [] := by
    refine ⟨by rw [hcl, h1]; exact List.mem_map.mpr ⟨t0, hmem0, rfl⟩, ?_⟩
    intro hc
    have := (hpl t0 hmem0).2
    rw [hc] at this
    cases t0 with
    | nil => exact ht0ne rfl
    | cons a r => simp [atomsOf] at this
  -- each of the three candidates is well-formed and denotes a language between the non-empty clusters and the clusters
  have hcand : st.finalAst.WF ∧ (∀ w : Word, st.finalAst.lang w → w ∈ cls) ∧
      (∀ w : Word, w ∈ cls → w ≠ [] → st.finalAst.lang w) := by
    rcases hthree with hf | hf | hf
    · -- the expression of the minimised automaton
      obtain ⟨m, hm, hacc, hlab, hdfs, hN, hacyc⟩ := Grexv.min_struct cls hsimple (fun g => PlainBs [g]) hPl
      rw [← h3, h4] at hm
      simp only [Option.some.injEq] at hm
      subst hm
      have hof : Expr.ofDfa cfg st.minimized = Expr.ofDfa (cfgPlain cfg.cap cfg.esc) st.minimized :=
        ofDfa_congr (c1 := cfg) (c2 := cfgPlain cfg.cap cfg.esc) rfl _
      have hwf := ofDfa_wf cfg.cap cfg.esc st.minimized hlab hdfs hacyc
      have hlang := elimination_lang_acyclic cfg st.minimized (labelsBs_plain _ hlab) hN hdfs hacyc
      have hlangE : ∀ w : Word, (Expr.ofDfa cfg st.minimized).lang w ↔ (w ∈ cls ∧ w ≠ []) := by
        intro w
        rw [ofDfa_eq]
        have hl := hlang w
        rw [← accepts_iff_langFrom', hacc w] at hl
        split
        · rename_i e he
          rw [he] at hl
          exact hl
        · rename_i he
          exfalso
          have := (hlang (f t0))
          rw [← accepts_iff_langFrom', hacc, he] at this
          exact this.mpr hwitness
      rw [hf]
      exact ⟨by rw [hof]; exact hwf, fun w hw => ((hlangE w).mp hw).1, fun w h1 h2 => (hlangE w).mpr ⟨h1, h2⟩⟩
    · -- the expression of the unminimised trie
      have ht := (Dfa.trie_tree_alpha cls hsimple).1
      have hlab : LabelsBs (Dfa.trie cls) := trie_labels (fun g => PlainBs [g]) cls hsimple hPl
      have hdfs := dfsOK_of_bounded (Dfa.trie cls) (by rw [ht.init0]; exact ht.pos) (fun e he => (ht.lt e he).2)
      have hacyc := trie_acyclic_paths cls hsimple
      have hof : Expr.ofDfa cfg (Dfa.trie cls) = Expr.ofDfa (cfgPlain cfg.cap cfg.esc) (Dfa.trie cls) :=
        ofDfa_congr (c1 := cfg) (c2 := cfgPlain cfg.cap cfg.esc) rfl _
      have hwf := ofDfa_wf cfg.cap cfg.esc (Dfa.trie cls) hlab hdfs hacyc
      have hlang := elimination_lang_acyclic cfg (Dfa.trie cls) (labelsBs_plain _ hlab) ht.pos hdfs hacyc
      have hlangE : ∀ w : Word, (Expr.ofDfa cfg (Dfa.trie cls)).lang w ↔ w ∈ cls := by
        intro w
        rw [ofDfa_eq]
        have hl := hlang w
        rw [← accepts_iff_langFrom', Dfa.trie_exact cls hsimple w] at hl
        split
        · rename_i e he
          rw [he] at hl
          exact hl
        · rename_i he
          exfalso
          have := (hlang (f t0))
          rw [← accepts_iff_langFrom', Dfa.trie_exact cls hsimple, he] at this
          exact this.mpr hwitness.1
      rw [hf, h3]
      exact ⟨by rw [hof]; exact hwf, fun w hw => (hlangE w).mp hw, fun w h1 _ => (hlangE w).mpr h1⟩
    · -- the plain alternation of the clusters
      have hne' : cls.map Expr.lit ≠ [] := by
        intro hc
        have := hwitness.1
        cases cls with
        | nil => simp at this
        | cons a r => simp at hc
      have hlangE : ∀ w : Word, (Expr.newAlternation (cls.map Expr.lit)).lang w ↔ w ∈ cls := by
        intro w
        rw [newAlternation_lang, langAny_iff]
        constructor
        · rintro ⟨e, he, hw⟩
          obtain ⟨c, hc, rfl⟩ := List.mem_map.mp he
          simp only [Expr.lang] at hw
          subst hw; exact hc
        · intro hw
          exact ⟨Expr.lit w, List.mem_map.mpr ⟨w, hw, rfl⟩, rfl⟩
      rw [hf]
      refine ⟨wf_newAlternation _ ?_ hne', fun w hw => (hlangE w).mp hw, fun w h1 _ => (hlangE w).mpr h1⟩
      intro e he
      obtain ⟨c, hc, rfl⟩ := List.mem_map.mp he
      exact hclP c hc
  obtain ⟨hwf, hsub, hsup⟩ := hcand
  refine ⟨hwf, ?_⟩
  intro i s
  refine ⟨?_, ?_⟩
  · rintro ⟨w, hw, hd⟩
    have hwc := hsub w hw
    rw [hcl] at hwc
    obtain ⟨t, ht, rfl⟩ := List.mem_map.mp hwc
    rw [h1] at ht
    have hpt := hpl t ht
    exact ⟨t, (sortCases_mem' ws1 t).mp ht, by rw [← hpt.2]; exact hd⟩
  · intro t htw htne hd
    have hmem : t ∈ sortCases ws1 := (sortCases_mem' ws1 t).mpr htw
    have hpt := hpl t hmem
    refine ⟨f t, hsup (f t) (by rw [hcl, h1]; exact List.mem_map.mpr ⟨t, hmem, rfl⟩) ?_, by rw [hpt.2]; exact hd⟩
    intro hc
    have := hpt.2
    rw [hc] at this
    cases t with
    | nil => exact htne rfl
    | cons a r => simp [atomsOf] at this

/-- **every anchor setting, including both anchors disabled (where `RegExp::from` runs its self-check and keeps one of
three expressions): the returned pattern accepts no more than the test cases and no less than the non-empty ones.**
For every subset of the class options, with or without capturing groups, `-e`, `-i`; all inputs.  (With both anchors
disabled the fall-back expressions keep the empty test case, the first candidate loses it: known finding D1.) -/
theorem classes_bounds_any_anchor (cfg : Config) (hp : PlainPrintNA cfg) (env : Env) (ws : List Str) (st : Stages)
    (h : regExpFrom cfg env ws = .ok st) (hseg : ∀ w ∈ storedCases cfg env ws, SegOK env w)
    (hne : ∃ t ∈ storedCases cfg env ws, t ≠ [])
    (s : Str) (hs : ∀ c ∈ s, Scalar c) :
    ∃ P, Spec.parse (fmtRegExp cfg st.finalAst) = some (⟨cfg.ci, false⟩, P) ∧
      (Spec.fullMatch cfg.ci P s = true → ∃ t ∈ storedCases cfg env ws, atomsDen cfg.ci (t.map (convAtom cfg)) s) ∧
      (∀ t ∈ storedCases cfg env ws, t ≠ [] → atomsDen cfg.ci (t.map (convAtom cfg)) s →
        Spec.fullMatch cfg.ci P s = true) := by
  obtain ⟨hwf, hb⟩ := final_expr_bounds cfg hp.rep env ws st h hseg hne
  rw [fmtRegExp_plainNA_eq cfg hp]
  obtain ⟨P, hparse, hmatch⟩ := printed_acceptsA cfg.ci cfg.cap cfg.esc cfg.noStart cfg.noEnd _ hwf s hs
  exact ⟨P, hparse, fun hm => (hb cfg.ci s).1 (hmatch.mp hm), fun t ht hne' hd => hmatch.mpr ((hb cfg.ci s).2 t ht hne' hd)⟩

/-- whatever expression `RegExp::from` keeps is well-formed (no `-r`, any other setting) -/
theorem final_expr_wf (cfg : Config) (hrep : cfg.rep = false) (env : Env) (ws : List Str) (st : Stages)
    (h : regExpFrom cfg env ws = .ok st) (hseg : ∀ w ∈ storedCases cfg env ws, SegOK env w) (hws : ws ≠ []) :
    st.finalAst.WF := by
  have hthree := from_final_three cfg env ws st h
  obtain ⟨h1, h2, h3, h4, h5⟩ := from_stages_shape cfg env ws st h
  change st.sorted = sortCases (storedCases cfg env ws) at h1
  have hws1 : storedCases cfg env ws ≠ [] := by
    unfold storedCases lowerCases
    split <;> simpa using hws
  generalize storedCases cfg env ws = ws1 at h1 hseg hws1
  have hseg' : ∀ w ∈ sortCases ws1, SegOK env w := fun w hw => hseg w ((sortCases_mem' ws1 w).mp hw)
  obtain ⟨f, hcl, hpl⟩ := clusters_atoms cfg hrep env (sortCases ws1) hseg'
  rw [← h1, ← h2] at hcl
  generalize hcls : st.clusters = cls at *
  have hclP : ∀ cl ∈ cls, PlainBs cl := by
    intro cl hc
    rw [hcl] at hc
    obtain ⟨w, hw, rfl⟩ := List.mem_map.mp hc
    exact (hpl w (by rw [← h1]; exact hw)).1
  have hsimple : ∀ cl ∈ cls, ∀ g ∈ cl, g.Simple := by
    intro cl hc g hg
    obtain ⟨x, _, _, rfl⟩ := hclP cl hc g hg
    exact ofStr_simple _
  have hPl : ∀ cl ∈ cls, ∀ g ∈ cl, (fun g => PlainBs [g]) g := by
    intro cl hc g hg g' hg'
    simp only [List.mem_singleton] at hg'
    subst hg'
    exact hclP cl hc g' hg
  have hwf : st.finalAst.WF := by
    rcases hthree with hf | hf | hf
    · obtain ⟨m, hm, hacc, hlab, hdfs, hN, hacyc⟩ := Grexv.min_struct cls hsimple (fun g => PlainBs [g]) hPl
      rw [← h3, h4] at hm
      simp only [Option.some.injEq] at hm
      subst hm
      rw [hf, ofDfa_congr (c1 := cfg) (c2 := cfgPlain cfg.cap cfg.esc) rfl _]
      exact ofDfa_wf cfg.cap cfg.esc st.minimized hlab hdfs hacyc
    · have ht := (Dfa.trie_tree_alpha cls hsimple).1
      have hlab : LabelsBs (Dfa.trie cls) := trie_labels (fun g => PlainBs [g]) cls hsimple hPl
      have hdfs := dfsOK_of_bounded (Dfa.trie cls) (by rw [ht.init0]; exact ht.pos) (fun e he => (ht.lt e he).2)
      rw [hf, h3, ofDfa_congr (c1 := cfg) (c2 := cfgPlain cfg.cap cfg.esc) rfl _]
      exact ofDfa_wf cfg.cap cfg.esc (Dfa.trie cls) hlab hdfs (trie_acyclic_paths cls hsimple)
    · rw [hf]
      apply wf_newAlternation
      · intro e he
        obtain ⟨c, hc, rfl⟩ := List.mem_map.mp he
        exact hclP c hc
      · intro hc
        have hcn : cls = [] := by simpa using hc
        rw [hcn] at hcl
        have hs0 : st.sorted = [] := by simpa using hcl.symm
        rw [h1] at hs0
        cases hw : ws1 with
        | nil => exact hws1 hw
        | cons a r =>
          have : a ∈ sortCases ws1 := (sortCases_mem' ws1 a).mpr (by rw [hw]; exact List.mem_cons_self)
          rw [hs0] at this
          cases this
  exact hwf

/-- **validity for every anchor setting**: whatever expression `RegExp::from` keeps, the text it returns is accepted by
the model of `Regex::new` — for every non-empty list of test cases (no other hypothesis on them than the segmentation
contract), every subset of the class options, with or without capturing groups, `-e`, `-i`, any anchors -/
theorem classes_valid_any_anchor (cfg : Config) (hp : PlainPrintNA cfg) (env : Env) (ws : List Str) (st : Stages)
    (h : regExpFrom cfg env ws = .ok st) (hseg : ∀ w ∈ storedCases cfg env ws, SegOK env w) (hws : ws ≠ []) :
    ∃ P, Spec.parse (fmtRegExp cfg st.finalAst) = some (⟨cfg.ci, false⟩, P) := by
  have hwf := final_expr_wf cfg hp.rep env ws st h hseg hws
  rw [fmtRegExp_plainNA_eq cfg hp]
  exact ⟨_, parse_ci_prefixG _ _ (flags_printedA cfg.cap cfg.esc cfg.noStart cfg.noEnd _ hwf)
    (parse_printedA cfg.cap cfg.esc cfg.noStart cfg.noEnd _ hwf) cfg.ci⟩

/-- the same settings with `-e` switched on / off -/
def withEsc (cfg : Config) (b : Bool) : Config := { cfg with esc := b }

theorem plainPrintCI_withEsc (cfg : Config) (h : PlainPrintCI cfg) (b : Bool) : PlainPrintCI (withEsc cfg b) :=
  ⟨h.rep, h.sur, h.verb, h.color, h.anch⟩

/-- **C11 / C06 for the model, all inputs: `-e` is notation only.** For every subset of the class options, with or
without capturing groups and the case-insensitive option, everything else at its default: the build with `\u{…}`
escapes and the build without are both accepted by the model of `Regex::new`, and the two compiled patterns match
exactly the same strings of scalar values in full — decoding the escapes gives back the language -/
theorem esc_same_language (cfg : Config) (hp : PlainPrintCI cfg) (env : Env) (ws : List Str) (stE st0 : Stages)
    (hE : regExpFrom (withEsc cfg true) env ws = .ok stE) (h0 : regExpFrom (withEsc cfg false) env ws = .ok st0)
    (hseg : ∀ w ∈ storedCases cfg env ws, SegOK env w) (hne : ∃ t ∈ storedCases cfg env ws, t ≠ [])
    (s : Str) (hs : ∀ c ∈ s, Scalar c) :
    ∃ PE P0, Spec.parse (fmtRegExp (withEsc cfg true) stE.finalAst) = some (⟨cfg.ci, false⟩, PE) ∧
      Spec.parse (fmtRegExp (withEsc cfg false) st0.finalAst) = some (⟨cfg.ci, false⟩, P0) ∧
      Spec.fullMatch cfg.ci PE s = Spec.fullMatch cfg.ci P0 s := by
  obtain ⟨PE, pE, mE⟩ := classes_exact_ci (withEsc cfg true) (plainPrintCI_withEsc cfg hp true) env ws stE hE hseg hne s hs
  obtain ⟨P0, p0, m0⟩ := classes_exact_ci (withEsc cfg false) (plainPrintCI_withEsc cfg hp false) env ws st0 h0 hseg hne s hs
  refine ⟨PE, P0, pE, p0, ?_⟩
  have hiff : Spec.fullMatch cfg.ci PE s = true ↔ Spec.fullMatch cfg.ci P0 s = true := mE.trans m0.symm
  cases h : Spec.fullMatch cfg.ci PE s <;> cases h' : Spec.fullMatch cfg.ci P0 s
  · rfl
  · exact absurd (hiff.mpr h') (by simp [h])
  · exact absurd (hiff.mp h) (by simp [h'])
  · rfl

/-- the same settings with the given anchor switches -/
def withAnchors (cfg : Config) (ns ne : Bool) : Config := { cfg with noStart := ns, noEnd := ne }

/-- **C08 for the model, all inputs: disabling one anchor does not change which strings are matched in full.** For
every subset of the class options, with or without capturing groups, `-e` and `-i`: the build with both anchors and the
build with the start anchor or the end anchor disabled are both accepted by the model of `Regex::new`, and the two compiled
patterns match exactly the same strings of scalar values in full -/
theorem anchors_same_language (cfg : Config) (hp : PlainPrintCI cfg) (ns ne : Bool) (hns : (ns && ne) = false)
    (env : Env) (ws : List Str) (stA st0 : Stages)
    (hA : regExpFrom (withAnchors cfg ns ne) env ws = .ok stA) (h0 : regExpFrom (withAnchors cfg false false) env ws = .ok st0)
    (hseg : ∀ w ∈ storedCases cfg env ws, SegOK env w) (hne : ∃ t ∈ storedCases cfg env ws, t ≠ [])
    (s : Str) (hs : ∀ c ∈ s, Scalar c) :
    ∃ PA P0, Spec.parse (fmtRegExp (withAnchors cfg ns ne) stA.finalAst) = some (⟨cfg.ci, false⟩, PA) ∧
      Spec.parse (fmtRegExp (withAnchors cfg false false) st0.finalAst) = some (⟨cfg.ci, false⟩, P0) ∧
      Spec.fullMatch cfg.ci PA s = Spec.fullMatch cfg.ci P0 s := by
  have hpA : PlainPrintCI (withAnchors cfg ns ne) := ⟨hp.rep, hp.sur, hp.verb, hp.color, hns⟩
  have hp0 : PlainPrintCI (withAnchors cfg false false) := ⟨hp.rep, hp.sur, hp.verb, hp.color, rfl⟩
  obtain ⟨PA, pA, mA⟩ := classes_exact_ci (withAnchors cfg ns ne) hpA env ws stA hA hseg hne s hs
  obtain ⟨P0, p0, m0⟩ := classes_exact_ci (withAnchors cfg false false) hp0 env ws st0 h0 hseg hne s hs
  refine ⟨PA, P0, pA, p0, ?_⟩
  have hiff : Spec.fullMatch cfg.ci PA s = true ↔ Spec.fullMatch cfg.ci P0 s = true := mA.trans m0.symm
  cases h : Spec.fullMatch cfg.ci PA s <;> cases h' : Spec.fullMatch cfg.ci P0 s
  · rfl
  · exact absurd (hiff.mpr h') (by simp [h])
  · exact absurd (hiff.mp h) (by simp [h'])
  · rfl

/-- without class options every code point stays itself -/
theorem convAtom_plain (cap : Bool) (c : Nat) : convAtom (cfgPlain cap false) c = Atom.chr c := by
  have : convChar (cfgPlain cap false) c = [c] := convChar_noflags (cfgPlain cap false) ⟨rfl, rfl, rfl, rfl, rfl, rfl⟩ c
  simp [convAtom, this]

theorem atomsDen_chars (t s : Str) : atomsDen false (t.map Atom.chr) s ↔ s = t := by
  induction t generalizing s with
  | nil => simp [atomsDen]
  | cons c r ih =>
    simp only [List.map_cons, atomsDen, atomDen, chrMatches_false]
    constructor
    · rintro ⟨x, r', rfl, rfl, h⟩; rw [(ih r').mp h]
    · rintro rfl; exact ⟨c, r, rfl, rfl, (ih r).mpr rfl⟩

/-- **C02 for the model, all inputs** (the case of `classes_exact` without class options) -/
theorem default_exact (cap : Bool) (env : Env) (ws : List Str) (st : Stages)
    (h : regExpFrom (cfgPlain cap false) env ws = .ok st) (hseg : ∀ w ∈ ws, SegOK env w) (hne : ∃ t ∈ ws, t ≠ [])
    (s : Str) (hs : ∀ c ∈ s, Scalar c) :
    ∃ P, Spec.parse (fmtRegExp (cfgPlain cap false) st.finalAst) = some (⟨false, false⟩, P) ∧
      (Spec.fullMatch false P s = true ↔ (s ∈ ws ∧ s ≠ [])) := by
  obtain ⟨P, hP, hm⟩ := classes_exact (cfgPlain cap false) (plainPrint_cfgPlain cap) env ws st h hseg hne s hs
  refine ⟨P, hP, ?_⟩
  rw [hm]
  have hmap : ∀ t : Str, t.map (convAtom (cfgPlain cap false)) = t.map Atom.chr :=
    fun t => List.map_congr_left (fun c _ => convAtom_plain cap c)
  constructor
  · rintro ⟨t, ht, htne, hd⟩
    rw [hmap, atomsDen_chars] at hd
    subst hd
    exact ⟨ht, htne⟩
  · rintro ⟨hsw, hsne⟩
    exact ⟨s, hsw, hsne, by rw [hmap, atomsDen_chars]⟩

/-- with plain settings the returned text is always accepted by the regex parser (no hypothesis on the test cases
beyond the segmentation contract) -/
theorem classes_valid (cfg : Config) (hp : PlainPrint cfg) (env : Env) (ws : List Str) (st : Stages)
    (h : regExpFrom cfg env ws = .ok st) (hseg : ∀ w ∈ ws, SegOK env w) :
    ∃ P, Spec.parse (fmtRegExp cfg st.finalAst) = some (⟨false, false⟩, P) := by
  have hanch : (cfg.noStart && cfg.noEnd) = false := by simp [hp.noStart]
  simp only [regExpFrom, hp.ci, hanch, Bool.false_eq_true, ite_false] at h
  have hseg' : ∀ w ∈ sortCases ws, SegOK env w := fun w hw => hseg w ((sortCases_mem' ws w).mp hw)
  obtain ⟨f, hcl, hpl⟩ := clusters_atoms cfg hp.rep env (sortCases ws) hseg'
  generalize hcls : graphemeClusters cfg env (sortCases ws) = cls at h hcl
  have hclP : ∀ cl ∈ cls, PlainBs cl := by
    intro cl hc
    rw [hcl] at hc
    obtain ⟨w, hw, rfl⟩ := List.mem_map.mp hc
    exact (hpl w hw).1
  have hsimple : ∀ cl ∈ cls, ∀ g ∈ cl, g.Simple := by
    intro cl hc g hg
    obtain ⟨x, _, _, rfl⟩ := hclP cl hc g hg
    exact ofStr_simple _
  obtain ⟨m, hm, hacc, hlab, hdfs, hN, hacyc⟩ := Grexv.min_struct cls hsimple (fun g => PlainBs [g])
    (fun cl hc g hg => by
      intro g' hg'
      simp only [List.mem_singleton] at hg'
      subst hg'
      exact hclP cl hc g' hg)
  rw [hm] at h
  simp only [] at h
  injection h with h
  subst h
  have hof : Expr.ofDfa cfg m = Expr.ofDfa (cfgPlain cfg.cap cfg.esc) m := ofDfa_congr (c1 := cfg) (c2 := cfgPlain cfg.cap cfg.esc) rfl m
  simp only []
  rw [fmtRegExp_plain_eq cfg hp, hof]
  exact ⟨_, parse_printed cfg.cap cfg.esc _ (ofDfa_wf cfg.cap cfg.esc m hlab hdfs hacyc)⟩

theorem default_valid (cap : Bool) (env : Env) (ws : List Str) (st : Stages)
    (h : regExpFrom (cfgPlain cap false) env ws = .ok st) (hseg : ∀ w ∈ ws, SegOK env w) :
    ∃ P, Spec.parse (fmtRegExp (cfgPlain cap false) st.finalAst) = some (⟨false, false⟩, P) :=
  classes_valid (cfgPlain cap false) (plainPrint_cfgPlain cap) env ws st h hseg

/-! ### verbose mode: validity, and the language is that of the build without it -/

/-- the same settings with verbose mode switched on / off -/
def withVerb (cfg : Config) (b : Bool) : Config := { cfg with verb := b }

/-- **C07 in verbose mode** (any anchors; whenever `RegExp::from` returns): the returned verbose text is accepted under its `(?x)` / `(?ix)` flag
— for every non-empty list of test cases, every subset of the class options, capturing groups, `-e`, `-i` -/
theorem classes_valid_verbose (cfg : Config) (hp : VerbosePrintNA cfg) (env : Env) (ws : List Str) (st : Stages)
    (h : regExpFrom cfg env ws = .ok st) (hseg : ∀ w ∈ storedCases cfg env ws, SegOK env w) (hws : ws ≠ []) :
    ∃ P, Spec.parse (fmtRegExp cfg st.finalAst) = some (⟨cfg.ci, true⟩, P) := by
  have hwf := final_expr_wf cfg hp.rep env ws st h hseg hws
  rw [fmtRegExp_verboseNA_eq cfg hp]
  exact ⟨_, parse_verbose cfg.cap cfg.esc cfg.ci cfg.noStart cfg.noEnd _ hwf⟩

/-- **C06: verbose mode is presentation only (language level, all inputs)** for every subset of the class options, with or
without capturing groups, `-e`, `-i`, with at least one anchor: the verbose build and the build without verbose mode are
both accepted by the model of `Regex::new` (the former with the `x` flag set) and match exactly the same strings in full -/
theorem verbose_same_language (cfg : Config) (hp : PlainPrintCI cfg) (env : Env) (ws : List Str) (stV st0 : Stages)
    (hV : regExpFrom (withVerb cfg true) env ws = .ok stV) (h0 : regExpFrom (withVerb cfg false) env ws = .ok st0)
    (hseg : ∀ w ∈ storedCases cfg env ws, SegOK env w) (hne : ∃ t ∈ storedCases cfg env ws, t ≠ [])
    (s : Str) (hs : ∀ c ∈ s, Scalar c) :
    ∃ PV P0, Spec.parse (fmtRegExp (withVerb cfg true) stV.finalAst) = some (⟨cfg.ci, true⟩, PV) ∧
      Spec.parse (fmtRegExp (withVerb cfg false) st0.finalAst) = some (⟨cfg.ci, false⟩, P0) ∧
      Spec.fullMatch cfg.ci PV s = Spec.fullMatch cfg.ci P0 s := by
  have hpV : VerbosePrint (withVerb cfg true) := ⟨hp.rep, hp.sur, hp.color, rfl, hp.anch⟩
  have hp0 : PlainPrintCI (withVerb cfg false) := ⟨hp.rep, hp.sur, rfl, hp.color, hp.anch⟩
  obtain ⟨PV, pV, mV⟩ := classes_exact_verbose (withVerb cfg true) hpV env ws stV hV hseg hne s hs
  obtain ⟨P0, p0, m0⟩ := classes_exact_ci (withVerb cfg false) hp0 env ws st0 h0 hseg hne s hs
  refine ⟨PV, P0, pV, p0, ?_⟩
  have hiff : Spec.fullMatch cfg.ci PV s = true ↔ Spec.fullMatch cfg.ci P0 s = true := mV.trans m0.symm
  cases h : Spec.fullMatch cfg.ci PV s <;> cases h' : Spec.fullMatch cfg.ci P0 s
  · rfl
  · exact absurd (hiff.mpr h') (by simp [h])
  · exact absurd (hiff.mp h) (by simp [h'])
  · rfl

/-- **verbose mode with any anchors, including none**: whenever `RegExp::from` returns (with both anchors disabled it
re-compiles the verbose candidate without its line breaks and can only fail there: C07), the verbose text it returns is
accepted under its `(?x)` flag, matches in full nothing but generalised test cases and matches every non-empty one -/
theorem classes_bounds_verbose (cfg : Config) (hp : VerbosePrintNA cfg) (env : Env) (ws : List Str) (st : Stages)
    (h : regExpFrom cfg env ws = .ok st) (hseg : ∀ w ∈ storedCases cfg env ws, SegOK env w)
    (hne : ∃ t ∈ storedCases cfg env ws, t ≠ [])
    (s : Str) (hs : ∀ c ∈ s, Scalar c) :
    ∃ P, Spec.parse (fmtRegExp cfg st.finalAst) = some (⟨cfg.ci, true⟩, P) ∧
      (Spec.fullMatch cfg.ci P s = true → ∃ t ∈ storedCases cfg env ws, atomsDen cfg.ci (t.map (convAtom cfg)) s) ∧
      (∀ t ∈ storedCases cfg env ws, t ≠ [] → atomsDen cfg.ci (t.map (convAtom cfg)) s →
        Spec.fullMatch cfg.ci P s = true) := by
  obtain ⟨hwf, hb⟩ := final_expr_bounds cfg hp.rep env ws st h hseg hne
  rw [fmtRegExp_verboseNA_eq cfg hp]
  obtain ⟨P, hparse, hmatch⟩ := printed_accepts_verbose cfg.ci cfg.cap cfg.esc cfg.noStart cfg.noEnd _ hwf s hs
  exact ⟨P, hparse, fun hm => (hb cfg.ci s).1 (hmatch.mp hm), fun t ht hne' hd => hmatch.mpr ((hb cfg.ci s).2 t ht hne' hd)⟩

end Grexv
