import Grexv.Model.Dfa

/-
Path semantics of `Dfa` at the symbol level (an edge label is one symbol) and the soundness half of
S5: after inserting a cluster, the trie has an accepting path spelling it, and nothing that was
accepted before is lost.  For plain graphemes (no repetition conversion).
-/
namespace Grexv

/-- plain grapheme: what `GraphemeCluster::from` and the class conversion produce -/
def Grapheme.Simple (g : Grapheme) : Prop := g.reps = [] ∧ g.min = 1 ∧ g.max = 1

theorem Grapheme.Simple.eq_of_chars {a b : Grapheme} (ha : a.Simple) (hb : b.Simple) (h : a.chars = b.chars) : a = b := by
  cases a; cases b
  simp only [Grapheme.Simple, Grapheme.reps, Grapheme.min, Grapheme.max, Grapheme.chars] at *
  obtain ⟨rfl, rfl, rfl⟩ := ha
  obtain ⟨rfl, rfl, rfl⟩ := hb
  subst h; rfl

namespace Dfa

/-- a path from `s` to `t` spelling the label sequence `w` -/
inductive Path (d : Dfa) : Nat → List Grapheme → Nat → Prop
  | nil (s : Nat) : Path d s [] s
  | cons {s t : Nat} {w : List Grapheme} (e : Edge) (he : e ∈ d.edges) (hs : e.src = s)
      (rest : Path d e.dst w t) : Path d s (e.label :: w) t

/-- symbol-level language: label sequences of accepting paths -/
def Accepts (d : Dfa) (w : List Grapheme) : Prop := ∃ t, Path d d.init w t ∧ t ∈ d.finals

def AllSimple (d : Dfa) : Prop := ∀ e ∈ d.edges, e.label.Simple

theorem Path.mono {d d' : Dfa} (h : ∀ e ∈ d.edges, e ∈ d'.edges) {s t : Nat} {w : List Grapheme}
    (p : Path d s w t) : Path d' s w t := by
  induction p with
  | nil s => exact Path.nil s
  | cons e he hs _ ih => exact Path.cons e (h e he) hs ih

theorem Path.append {d : Dfa} {s t u : Nat} {w1 w2 : List Grapheme}
    (p : Path d s w1 t) (q : Path d t w2 u) : Path d s (w1 ++ w2) u := by
  induction p with
  | nil s => simpa using q
  | cons e he hs _ ih => exact Path.cons e he hs (ih q)

/-- on plain labels `find_next_state` never takes its widening branch and, when it finds an edge,
that edge carries exactly the searched grapheme -/
theorem findNext_simple (g : Grapheme) (hg : g.Simple) (es : List Edge) (hes : ∀ e ∈ es, e.label.Simple) :
    (findNext g es = none ∧ ∀ e ∈ es, e.label ≠ g) ∨
    (∃ e ∈ es, e.label = g ∧ findNext g es = some (e.dst, none)) := by
  induction es with
  | nil => left; simp [findNext]
  | cons e rest ih =>
    have he := hes e (List.mem_cons_self)
    have hrest : ∀ e ∈ rest, e.label.Simple := fun x hx => hes x (List.mem_cons_of_mem _ hx)
    unfold findNext
    by_cases hc : e.label.chars = g.chars
    · have heq : e.label = g := Grapheme.Simple.eq_of_chars he hg hc
      right
      refine ⟨e, List.mem_cons_self, heq, ?_⟩
      have h1 : e.label.max = 1 := he.2.2
      have h2 : g.max = 1 := hg.2.2
      simp [hc, h1, h2]
    · have hne : e.label ≠ g := fun h => hc (by rw [h])
      simp only [ne_eq, hc, not_false_eq_true, ite_true]
      rcases ih hrest with ⟨h1, h2⟩ | ⟨e', he', h1, h2⟩
      · left
        refine ⟨h1, ?_⟩
        intro x hx
        simp only [List.mem_cons] at hx
        rcases hx with rfl | hx
        · exact hne
        · exact h2 x hx
      · right; exact ⟨e', List.mem_cons_of_mem _ he', h1, h2⟩

/-- one step of `insert`: afterwards there is an edge `cur → nxt` labelled `g`; no edge is lost;
labels stay plain; the start state and the final states are untouched -/
theorem step_spec (d : Dfa) (cur : Nat) (g : Grapheme) (hg : g.Simple) (hd : d.AllSimple) :
    let r := step d cur g
    (∃ e ∈ r.1.edges, e.src = cur ∧ e.dst = r.2 ∧ e.label = g) ∧ (∀ e ∈ d.edges, e ∈ r.1.edges) ∧
      r.1.AllSimple ∧ r.1.init = d.init ∧ r.1.finals = d.finals ∧ r.1.alphabet = d.alphabet := by
  have hout : ∀ e ∈ d.outEdges cur, e.label.Simple := by
    intro e he
    simp only [outEdges, List.mem_reverse, List.mem_filter] at he
    exact hd e he.1
  simp only [step]
  rcases findNext_simple g hg (d.outEdges cur) hout with ⟨h1, _⟩ | ⟨e, he, h1, h2⟩
  · rw [h1]
    refine ⟨⟨⟨cur, d.nodes, g⟩, by simp, rfl, rfl, rfl⟩, ?_, ?_, rfl, rfl, rfl⟩
    · intro e he; simp [he]
    · intro e he
      simp only [List.mem_append, List.mem_cons, List.mem_nil_iff, or_false] at he
      rcases he with he | rfl
      · exact hd e he
      · exact hg
  · rw [h2]
    simp only [outEdges, List.mem_reverse, List.mem_filter, decide_eq_true_eq] at he
    exact ⟨⟨e, he.1, he.2, rfl, h1⟩, fun _ h => h, hd, rfl, rfl, rfl⟩

/-- the fold of `insert` over the graphemes of a cluster -/
def insertFold (acc : Dfa × Nat) (g : Grapheme) : Dfa × Nat :=
  step { acc.1 with alphabet := alphaInsert g acc.1.alphabet } acc.2 g

theorem insert_eq (d : Dfa) (cl : Cluster) :
    insert d cl =
      (let r := cl.foldl insertFold (d, d.init)
       { r.1 with finals := if r.1.finals.contains r.2 then r.1.finals else r.1.finals ++ [r.2] }) := rfl

theorem foldl_spec (cl : Cluster) (hcl : ∀ g ∈ cl, g.Simple) :
    ∀ (d : Dfa) (cur : Nat), d.AllSimple →
      let r := cl.foldl insertFold (d, cur)
      Path r.1 cur cl r.2 ∧ (∀ e ∈ d.edges, e ∈ r.1.edges) ∧ r.1.AllSimple ∧ r.1.init = d.init ∧ r.1.finals = d.finals := by
  induction cl with
  | nil => intro d cur hd; exact ⟨Path.nil cur, fun _ h => h, hd, rfl, rfl⟩
  | cons g rest ih =>
    intro d cur hd
    have hg := hcl g (List.mem_cons_self)
    have hrest : ∀ g ∈ rest, g.Simple := fun x hx => hcl x (List.mem_cons_of_mem _ hx)
    let d0 : Dfa := { d with alphabet := alphaInsert g d.alphabet }
    have hd0 : d0.AllSimple := hd
    obtain ⟨⟨e, he, hsrc, hdst, hlab⟩, hmono, hsimple, hinit, hfin, _⟩ := step_spec d0 cur g hg hd0
    obtain ⟨hp, hmono2, hs2, hinit2, hfin2⟩ := ih hrest (step d0 cur g).1 (step d0 cur g).2 hsimple
    have hfold : (g :: rest).foldl insertFold (d, cur) = rest.foldl insertFold (step d0 cur g) := rfl
    rw [hfold]
    refine ⟨?_, fun x hx => hmono2 x (hmono x hx), hs2, by rw [hinit2, hinit], by rw [hfin2, hfin]⟩
    have he' := hmono2 e he
    have hp' : Path (rest.foldl insertFold (step d0 cur g)).1 e.dst rest (rest.foldl insertFold (step d0 cur g)).2 := by
      rw [hdst]; exact hp
    have := Path.cons e he' hsrc hp'
    rw [hlab] at this
    exact this

/-- **S5 soundness, one insertion** -/
theorem insert_spec (d : Dfa) (cl : Cluster) (hcl : ∀ g ∈ cl, g.Simple) (hd : d.AllSimple) :
    (insert d cl).Accepts cl ∧ (∀ w, d.Accepts w → (insert d cl).Accepts w) ∧ (insert d cl).AllSimple
      ∧ (insert d cl).init = d.init := by
  obtain ⟨hp, hmono, hs, hinit, hfin⟩ := foldl_spec cl hcl d d.init hd
  rw [insert_eq]
  simp only []
  refine ⟨?_, ?_, hs, hinit⟩
  · refine ⟨(cl.foldl insertFold (d, d.init)).2, ?_, ?_⟩
    · simp only [hinit]; refine Path.mono (d := (cl.foldl insertFold (d, d.init)).1) ?_ hp; intro e he; exact he
    · simp only []
      split
      · rename_i h; simpa [List.contains_iff_mem] using h
      · simp
  · rintro w ⟨t, hpath, ht⟩
    refine ⟨t, ?_, ?_⟩
    · simp only [hinit]; refine Path.mono (d := d) ?_ hpath; intro e he; exact hmono e he
    · simp only []
      rw [hfin]
      split
      · exact ht
      · exact List.mem_append_left _ ht

theorem empty_allSimple : Dfa.empty.AllSimple := by intro e he; simp [Dfa.empty] at he

/-- **S5 soundness** the trie accepts every inserted cluster -/
theorem trie_accepts (cls : List Cluster) (hcls : ∀ cl ∈ cls, ∀ g ∈ cl, g.Simple) :
    ∀ cl ∈ cls, (trie cls).Accepts cl := by
  suffices h : ∀ (d : Dfa), d.AllSimple →
      (∀ cl ∈ cls, (cls.foldl insert d).Accepts cl) ∧ (∀ w, d.Accepts w → (cls.foldl insert d).Accepts w) by
    exact (h Dfa.empty empty_allSimple).1
  induction cls with
  | nil => intro d _; exact ⟨by simp, fun _ h => h⟩
  | cons c rest ih =>
    intro d hd
    obtain ⟨hacc, hmono, hs, _⟩ := insert_spec d c (hcls c (List.mem_cons_self)) hd
    obtain ⟨h1, h2⟩ := ih (fun cl hcl => hcls cl (List.mem_cons_of_mem _ hcl)) (insert d c) hs
    simp only [List.foldl_cons]
    refine ⟨?_, fun w hw => h2 w (hmono w hw)⟩
    intro cl hcl
    simp only [List.mem_cons] at hcl
    rcases hcl with rfl | hcl
    · exact h2 _ hacc
    · exact h1 cl hcl

end Dfa
end Grexv
