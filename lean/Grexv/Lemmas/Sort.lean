import Grexv.Model.Basic

/- Facts about the stable insertion sort `sortBy` and `dedupAdj`. -/
namespace Grexv

theorem mem_insertBy {α} (le : α → α → Bool) (x y : α) (l : List α) :
    y ∈ insertBy le x l ↔ y = x ∨ y ∈ l := by
  induction l with
  | nil => simp [insertBy]
  | cons z zs ih =>
    unfold insertBy
    split
    · simp
    · simp [ih]; constructor
      · rintro (h | h | h) <;> simp [h]
      · rintro (h | h | h) <;> simp [h]

theorem mem_sortBy {α} (le : α → α → Bool) (y : α) (l : List α) : y ∈ sortBy le l ↔ y ∈ l := by
  induction l with
  | nil => simp [sortBy]
  | cons x xs ih =>
    have : sortBy le (x :: xs) = insertBy le x (sortBy le xs) := rfl
    rw [this, mem_insertBy, ih]; simp

theorem insertBy_perm {α} (le : α → α → Bool) (x : α) (l : List α) : (insertBy le x l).Perm (x :: l) := by
  induction l with
  | nil => simp [insertBy]
  | cons z zs ih =>
    unfold insertBy
    split
    · exact List.Perm.refl _
    · exact (List.Perm.cons z ih).trans (List.Perm.swap x z zs)

theorem sortBy_perm {α} (le : α → α → Bool) (l : List α) : (sortBy le l).Perm l := by
  induction l with
  | nil => exact List.Perm.refl _
  | cons x xs ih =>
    have : sortBy le (x :: xs) = insertBy le x (sortBy le xs) := rfl
    rw [this]
    exact (insertBy_perm le x _).trans (List.Perm.cons x ih)

theorem length_sortBy {α} (le : α → α → Bool) (l : List α) : (sortBy le l).length = l.length :=
  (sortBy_perm le l).length_eq

/-- inserting into a sorted list keeps it sorted, for a total and transitive test -/
theorem insertBy_sorted {α} (le : α → α → Bool)
    (total : ∀ a b, le a b = true ∨ le b a = true)
    (trans : ∀ a b c, le a b = true → le b c = true → le a c = true)
    (x : α) (l : List α) (h : l.Pairwise (fun a b => le a b = true)) :
    (insertBy le x l).Pairwise (fun a b => le a b = true) := by
  induction l with
  | nil => simp [insertBy]
  | cons z zs ih =>
    unfold insertBy
    split
    · rename_i hxz
      rw [List.pairwise_cons] at h ⊢
      refine ⟨?_, List.pairwise_cons.mpr h⟩
      intro y hy
      simp at hy
      rcases hy with rfl | hy
      · exact hxz
      · exact trans _ _ _ hxz (h.1 y hy)
    · rename_i hxz
      have hzx : le z x = true := by
        rcases total x z with h1 | h1
        · exact absurd h1 hxz
        · exact h1
      rw [List.pairwise_cons] at h ⊢
      refine ⟨?_, ih h.2⟩
      intro y hy
      rw [mem_insertBy] at hy
      rcases hy with rfl | hy
      · exact hzx
      · exact h.1 y hy

theorem sortBy_sorted {α} (le : α → α → Bool)
    (total : ∀ a b, le a b = true ∨ le b a = true)
    (trans : ∀ a b c, le a b = true → le b c = true → le a c = true)
    (l : List α) : (sortBy le l).Pairwise (fun a b => le a b = true) := by
  induction l with
  | nil => simp [sortBy]
  | cons x xs ih =>
    have : sortBy le (x :: xs) = insertBy le x (sortBy le xs) := rfl
    rw [this]
    exact insertBy_sorted le total trans x _ ih

theorem mem_dedupAdj {α} [DecidableEq α] (y : α) (l : List α) : y ∈ dedupAdj l ↔ y ∈ l := by
  induction l using dedupAdj.induct with
  | case1 => simp [dedupAdj]
  | case2 x => simp [dedupAdj]
  | case3 x rest ih => simp [dedupAdj, ih]
  | case4 x y' rest hne ih => simp [dedupAdj, hne, ih]

end Grexv
