import Grexv.Lemmas.Trie
import Grexv.Model.Contracts

/-
S6, the quotient step (`recreate_graph`): for a partition that is *stable* — an executable condition,
evaluated by the driver on the partition the refinement loop actually produced — the rebuilt automaton
accepts exactly the non-empty words the original accepts, and the empty word iff the start class was
made final, which `recreate_graph` only does for classes that are the target of an edge.
-/
set_option linter.unusedSimpArgs false
set_option linter.unusedVariables false
namespace Grexv
namespace Dfa

structure QuotientOk (d : Dfa) (pick : Block → Nat) (p : List Block) : Prop where
  initLt : d.init < d.nodes
  edgesLt : ∀ e ∈ d.edges, e.src < d.nodes ∧ e.dst < d.nodes
  covered : ∀ s, s < d.nodes → s ∈ p.getD (classOf p s) []
  repClass : ∀ b k, (b, k) ∈ p.zipIdx → classOf p (pick b) = k ∧ pick b < d.nodes
  fwd : ∀ s, s < d.nodes → ∀ e ∈ d.outEdges s, ∃ e' ∈ d.outEdges (repOf p pick s), e'.label = e.label ∧ classOf p e'.dst = classOf p e.dst
  bwd : ∀ s, s < d.nodes → ∀ e' ∈ d.outEdges (repOf p pick s), ∃ e ∈ d.outEdges s, e.label = e'.label ∧ classOf p e.dst = classOf p e'.dst
  fin : ∀ s, s < d.nodes → d.isFinal s = d.isFinal (repOf p pick s)

theorem quotientOkB_sound (d : Dfa) (pick : Block → Nat) (p : List Block) (h : quotientOkB d pick p = true) :
    QuotientOk d pick p := by
  simp only [quotientOkB, Bool.and_eq_true, decide_eq_true_eq, List.all_eq_true, List.mem_range, List.any_eq_true,
    beq_iff_eq, List.contains_iff_mem] at h
  obtain ⟨⟨⟨⟨h1, h2⟩, h3⟩, h4⟩, h5⟩ := h
  refine ⟨h1, h2, h3, ?_, ?_, ?_, ?_⟩
  · intro b k hbk; exact h4 (b, k) hbk
  · intro s hs e he
    obtain ⟨e', he', hl, hc⟩ := (h5 s hs).1.1 e he
    exact ⟨e', he', hl, hc⟩
  · intro s hs e' he'
    obtain ⟨e, he, hl, hc⟩ := (h5 s hs).1.2 e' he'
    exact ⟨e, he, hl, hc⟩
  · intro s hs; exact (h5 s hs).2

theorem mem_outEdges' (d : Dfa) (s : Nat) (e : Edge) : e ∈ d.outEdges s ↔ e ∈ d.edges ∧ e.src = s := by
  simp [outEdges]

/-- the edges `recreate_graph` adds -/
theorem mem_recreate_edges (d : Dfa) (pick : Block → Nat) (p : List Block) (q : Edge) :
    q ∈ (recreate d pick p).edges ↔
      ∃ b ∈ p, ∃ e ∈ d.outEdges (pick b), q = ⟨classOf p (pick b), classOf p e.dst, e.label⟩ := by
  simp only [recreate, classOf, List.mem_flatMap, List.mem_map]
  constructor
  · rintro ⟨b, hb, e, he, rfl⟩; exact ⟨b, hb, e, he, rfl⟩
  · rintro ⟨b, hb, e, he, rfl⟩; exact ⟨b, hb, e, he, rfl⟩

theorem mem_insertSorted (x y : Nat) (l : List Nat) : y ∈ insertSorted x l ↔ y = x ∨ y ∈ l := by
  induction l with
  | nil => simp [insertSorted]
  | cons z zs ih =>
    unfold insertSorted
    split
    · simp
    · split
      · rename_i h; subst h; simp
      · simp [ih]; constructor
        · rintro (h | h | h) <;> simp [h]
        · rintro (h | h | h) <;> simp [h]

theorem mem_foldl_insertSorted (xs : List Nat) (acc : List Nat) (y : Nat) :
    y ∈ xs.foldl (fun fs s => insertSorted s fs) acc ↔ y ∈ xs ∨ y ∈ acc := by
  induction xs generalizing acc with
  | nil => simp
  | cons x xs ih =>
    simp only [List.foldl_cons, ih, mem_insertSorted, List.mem_cons]
    constructor
    · rintro (h | h | h)
      · exact Or.inl (Or.inr h)
      · exact Or.inl (Or.inl h)
      · exact Or.inr h
    · rintro ((h | h) | h)
      · exact Or.inr (Or.inl h)
      · exact Or.inl h
      · exact Or.inr (Or.inr h)

/-- the final states `recreate_graph` records: classes of final *targets* of representatives' edges -/
theorem mem_recreate_finals (d : Dfa) (pick : Block → Nat) (p : List Block) (c : Nat) :
    c ∈ (recreate d pick p).finals ↔
      ∃ b ∈ p, ∃ e ∈ d.outEdges (pick b), d.isFinal e.dst = true ∧ c = classOf p e.dst := by
  simp only [recreate, classOf, mem_foldl_insertSorted, List.mem_flatMap, List.mem_filterMap, List.not_mem_nil, or_false]
  constructor
  · rintro ⟨b, hb, e, he, h⟩
    split at h
    · rename_i hf; simp only [Option.some.injEq] at h; exact ⟨b, hb, e, he, hf, h.symm⟩
    · simp at h
  · rintro ⟨b, hb, e, he, hf, rfl⟩
    exact ⟨b, hb, e, he, by simp [hf]⟩

theorem recreate_init (d : Dfa) (pick : Block → Nat) (p : List Block) : (recreate d pick p).init = classOf p d.init := rfl

section
variable {d : Dfa} {pick : Block → Nat} {p : List Block}

theorem block_mem_of_state (h : QuotientOk d pick p) (s : Nat) (hs : s < d.nodes) :
    (p.getD (classOf p s) [], classOf p s) ∈ p.zipIdx := by
  have hc := h.covered s hs
  have hlt : classOf p s < p.length := by
    cases hg : p[classOf p s]? with
    | none => simp [List.getD, hg] at hc
    | some b => exact (List.getElem?_eq_some_iff.mp hg).1
  rw [List.mem_zipIdx_iff_getElem?]
  simp [List.getD, List.getElem?_eq_getElem hlt]

theorem rep_class (h : QuotientOk d pick p) (s : Nat) (hs : s < d.nodes) :
    classOf p (repOf p pick s) = classOf p s ∧ repOf p pick s < d.nodes ∧ p.getD (classOf p s) [] ∈ p := by
  have hm := block_mem_of_state h s hs
  have := h.repClass _ _ hm
  refine ⟨this.1, this.2, ?_⟩
  have := List.mem_zipIdx_iff_getElem?.mp hm
  exact List.mem_of_getElem? this

/-- every transition of the original is simulated by the quotient -/
theorem path_to_quotient (h : QuotientOk d pick p) {s t : Nat} {w : List Grapheme} (hs : s < d.nodes)
    (pth : Path d s w t) : Path (recreate d pick p) (classOf p s) w (classOf p t) ∧ t < d.nodes := by
  induction pth with
  | nil s => exact ⟨Path.nil _, hs⟩
  | @cons s t w e he hsrc rest ih =>
    have hdst := (h.edgesLt e he).2
    obtain ⟨ih1, ih2⟩ := ih hdst
    refine ⟨?_, ih2⟩
    obtain ⟨e', he', hl, hc⟩ := h.fwd s hs e ((mem_outEdges' d s e).mpr ⟨he, hsrc⟩)
    obtain ⟨r1, r2, r3⟩ := rep_class h s hs
    have hq : (⟨classOf p (repOf p pick s), classOf p e'.dst, e'.label⟩ : Edge) ∈ (recreate d pick p).edges :=
      (mem_recreate_edges d pick p _).mpr ⟨_, r3, e', he', rfl⟩
    have := Path.cons (d := recreate d pick p) _ hq (by simpa using r1) (by simpa [hc] using ih1)
    simpa [hl] using this

/-- every path of the quotient from the class of `s` is the image of a path of the original from `s` -/
theorem path_from_quotient (h : QuotientOk d pick p) {w : List Grapheme} :
    ∀ {c c' : Nat}, Path (recreate d pick p) c w c' → ∀ s, s < d.nodes → classOf p s = c →
      ∃ t, Path d s w t ∧ t < d.nodes ∧ classOf p t = c' := by
  intro c c' pth
  induction pth with
  | nil c => intro s hs hc; exact ⟨s, Path.nil s, hs, hc⟩
  | @cons c c' w q hq hsrc rest ih =>
    intro s hs hc
    obtain ⟨b, hb, e', he', rfl⟩ := (mem_recreate_edges d pick p q).mp hq
    simp only at hsrc ih ⊢
    -- the representative `pick b` lies in the class of `s`
    obtain ⟨r1, r2, r3⟩ := rep_class h s hs
    have hbk : ∃ k, (b, k) ∈ p.zipIdx := by
      obtain ⟨k, hk, hbk⟩ := List.getElem_of_mem hb
      exact ⟨k, by rw [List.mem_zipIdx_iff_getElem?]; simp [List.getElem?_eq_getElem hk, hbk]⟩
    obtain ⟨k, hk⟩ := hbk
    have hrk := (h.repClass b k hk).1
    -- both `b` and the block of `s` sit at index `classOf p s`
    have hkc : k = classOf p s := by rw [← hrk, hsrc, hc]
    have hsame : b = p.getD (classOf p s) [] := by
      have h1 := List.mem_zipIdx_iff_getElem?.mp hk
      simp only at h1
      rw [hkc] at h1
      simp [List.getD, h1]
    have hrep : pick b = repOf p pick s := by simp [repOf, hsame]
    rw [hrep] at he'
    obtain ⟨e, he, hl, hcl⟩ := h.bwd s hs e' he'
    have he2 := (mem_outEdges' d s e).mp he
    have hdst := (h.edgesLt e he2.1).2
    obtain ⟨t, pt, ht, hct⟩ := ih e.dst hdst hcl
    exact ⟨t, by rw [← hl]; exact Path.cons e he2.1 he2.2 pt, ht, hct⟩

theorem last_edge (h : QuotientOk d pick p) {s t : Nat} {w : List Grapheme} (pt : Path d s w t) (hnil : w ≠ []) :
    ∃ u e, e ∈ d.edges ∧ e.src = u ∧ e.dst = t ∧ u < d.nodes := by
  induction pt with
  | nil s => exact absurd rfl hnil
  | @cons s t w0 e he hsrc rest ih =>
    by_cases hw0 : w0 = []
    · subst hw0
      cases rest
      exact ⟨e.src, e, he, rfl, rfl, (h.edgesLt e he).1⟩
    · exact ih hw0

/-- **S6, quotient step** for a stable partition the rebuilt automaton accepts a word iff the original does
and the word is non-empty or the start class was recorded as final -/
theorem recreate_accepts (h : QuotientOk d pick p) (w : List Grapheme) :
    (recreate d pick p).Accepts w ↔
      (d.Accepts w ∧ (w ≠ [] ∨ classOf p d.init ∈ (recreate d pick p).finals)) := by
  constructor
  · rintro ⟨c, pth, hfin⟩
    rw [recreate_init] at pth
    obtain ⟨t, pt, ht, hct⟩ := path_from_quotient h pth d.init h.initLt rfl
    obtain ⟨b, hb, e, he, hf, hce⟩ := (mem_recreate_finals d pick p c).mp hfin
    -- `t` is in the same class as the final state `e.dst`, hence final
    have he2 := (mem_outEdges' d _ e).mp he
    have hdst := (h.edgesLt e he2.1).2
    have hft : d.isFinal t = true := by
      have e1 := h.fin t ht
      have e2 := h.fin e.dst hdst
      have hsame : repOf p pick t = repOf p pick e.dst := by simp [repOf, hct, hce]
      rw [e1, hsame, ← e2]; exact hf
    refine ⟨⟨t, pt, by simpa [isFinal, List.contains_iff_mem] using hft⟩, ?_⟩
    by_cases hw : w = []
    · right
      subst hw
      cases pth
      exact hfin
    · exact Or.inl hw
  · rintro ⟨⟨t, pt, htf⟩, hw⟩
    obtain ⟨pq, ht⟩ := path_to_quotient h h.initLt pt
    refine ⟨classOf p t, by rw [recreate_init]; exact pq, ?_⟩
    by_cases hnil : w = []
    · subst hnil
      cases pt
      rcases hw with hw | hw
      · exact absurd rfl hw
      · exact hw
    · -- the last edge into `t` is simulated by an edge of the representative into a final state of the class of `t`
      have hlast := last_edge h pt hnil
      obtain ⟨u, e, he, hsrc, hdst, hu⟩ := hlast
      obtain ⟨e', he', hl, hc⟩ := h.fwd u hu e ((mem_outEdges' d u e).mpr ⟨he, hsrc⟩)
      obtain ⟨r1, r2, r3⟩ := rep_class h u hu
      have he2 := (mem_outEdges' d _ e').mp he'
      have hdst' := (h.edgesLt e' he2.1).2
      have hfe' : d.isFinal e'.dst = true := by
        have e1 := h.fin e'.dst hdst'
        have e2 := h.fin t ht
        have hsame : repOf p pick e'.dst = repOf p pick t := by simp [repOf, hc, hdst]
        rw [e1, hsame, ← e2]
        simpa [isFinal, List.contains_iff_mem] using htf
      exact (mem_recreate_finals d pick p _).mpr ⟨_, r3, e', he', hfe', by rw [hc, hdst]⟩

end
/-- **S6 (`minimize`)** if the stability check holds on the partition produced by the refinement loop, the
minimised automaton accepts a word iff the input automaton does and the word is non-empty or the start
class was recorded as final -/
theorem minimize_accepts (d : Dfa) (pick : Block → Nat) (m : Dfa) (hm : minimize d pick = some m)
    (hc : minimizeContractB d pick = true) (w : List Grapheme) :
    m.Accepts w ↔ (d.Accepts w ∧ (w ≠ [] ∨ m.init ∈ m.finals)) := by
  simp only [minimize] at hm
  simp only [minimizeContractB] at hc
  cases hp : minimizePartition d with
  | none => simp [hp] at hm
  | some p =>
    simp only [hp, Option.map_some, Option.some.injEq] at hm hc
    subst hm
    exact recreate_accepts (quotientOkB_sound d pick p hc) w

end Dfa
end Grexv
