import Grexv.Lemmas.RepElim
import Grexv.Lemmas.AsciiPipeline

/-
C11 with repetition conversion: with `-e` the returned text is ASCII for every input, all thresholds, every other setting.
-/
set_option linter.unusedSimpArgs false
set_option linter.unusedVariables false
namespace Grexv
open Dfa

/-- **C11 with `-r`, whole pattern, all inputs** with `-e` and repetition conversion, for every other setting (thresholds, class
options, `-i`, verbose mode, colours, capturing groups, anchors): whichever expression `RegExp::from` keeps, the returned text consists
of ASCII characters only -/
theorem output_ascii_rep (cfg : Config) (hesc : cfg.esc = true) (hrep : cfg.rep = true) (env : Env) (ws : List Str) (st : Stages)
    (h : regExpFrom cfg env ws = .ok st) (hseg : ∀ w ∈ st.sorted, ∀ p ∈ env.segOf w, p ≠ []) :
    ∀ x ∈ fmtRegExp cfg st.finalAst, x < 128 := by
  have hthree := from_final_three cfg env ws st h
  obtain ⟨_, hcl, htrie, hmin, _⟩ := from_stages_shape cfg env ws st h
  rw [graphemeClusters_rep cfg env _ hrep] at hcl
  have hcounts : ∀ cl ∈ st.clusters, ∀ g ∈ cl, g.min = g.max := by
    intro cl hc
    rw [hcl] at hc
    obtain ⟨pc', hpc', rfl⟩ := List.mem_map.mp hc
    apply convertRepetitions_counts
    intro g hg
    obtain ⟨s, _, rfl⟩ := preClusters_plain cfg env st.sorted hseg pc' hpc' g hg
    rfl
  have hshape : ∀ cl ∈ st.clusters, ∀ g ∈ cl, g.Plainish := by
    intro cl hc
    rw [hcl] at hc
    obtain ⟨pc', hpc', rfl⟩ := List.mem_map.mp hc
    have hpl := preClusters_plain cfg env st.sorted hseg pc' hpc'
    rw [plain_eq_map pc' hpl]
    apply convertRepetitions_plainish
    intro s hs
    obtain ⟨g, hg, rfl⟩ := List.mem_map.mp hs
    obtain ⟨s', hs', rfl⟩ := hpl g hg
    show [s'].flatten ≠ []
    simpa using hs'
  obtain ⟨ht, _, _, hra⟩ := trie_r st.clusters hcounts
  have hr := trie_rangeOK st.clusters hcounts
  have hplainT : (trie st.clusters).PlainLabels :=
    trie_labels_r Grapheme.Plainish (fun a g ha hg hc _ => plainish_widen a g ha hg hc) st.clusters hshape
  apply fmtRegExp_ascii cfg hesc
  rcases hthree with hf | hf | hf
  · obtain ⟨p, hp, hst⟩ := minimizePartition_stableR ht
    have hm : minimize (trie st.clusters) pickMin = some (recreate (trie st.clusters) pickMin p) := by
      simp only [minimize, hp, Option.map_some]
    rw [htrie] at hmin
    rw [hmin] at hm
    have hme : st.minimized = recreate (trie st.clusters) pickMin p := Option.some.inj hm
    have hinit : st.minimized.init < st.minimized.nodes := by
      rw [hme]
      show classOf p (trie st.clusters).init < p.length
      exact classOf_lt hst.pinv _ (by rw [ht.init0]; exact ht.pos)
    have hdst : ∀ e ∈ st.minimized.edges, e.dst < st.minimized.nodes := by
      rw [hme]
      intro q hqe
      obtain ⟨b, hb, e, he, rfl⟩ := (mem_recreate_edges _ pickMin p q).mp hqe
      have hee := ((mem_outEdges' _ _ e).mp he).1
      show classOf p e.dst < p.length
      exact classOf_lt hst.pinv _ (ht.lt e hee).2
    have hplain : st.minimized.PlainLabels := by
      rw [hme]
      intro q hqe
      obtain ⟨b, hb, e, he, rfl⟩ := (mem_recreate_edges _ pickMin p q).mp hqe
      exact hplainT e ((mem_outEdges' _ _ e).mp he).1
    have hacyc : ∀ c w, Path st.minimized c w c → w = [] := by
      rw [hme]; exact fun c w pth => recreate_acyclic_r hst ht hr hra c w pth
    rw [hf]
    exact ofDfa_clsAscii cfg hesc _ hplain (dfsOK_of_bounded _ hinit hdst) hacyc
  · have hdfs := dfsOK_of_bounded (trie st.clusters) (by rw [ht.init0]; exact ht.pos) (fun e he => (ht.lt e he).2)
    have hacyc : ∀ c w, Path (trie st.clusters) c w c → w = [] := by
      intro c w pth
      apply Classical.byContradiction
      intro hw
      have := Path.lt_of_ne_nil (fun e he => (ht.lt e he).1) pth hw
      omega
    rw [hf, htrie]
    exact ofDfa_clsAscii cfg hesc _ hplainT hdfs hacyc
  · rw [hf]
    apply Expr.clsAscii_newAlternation
    intro e he
    obtain ⟨c, _, rfl⟩ := List.mem_map.mp he
    trivial

end Grexv
