import Grexv.Spec.Pat

/-
Simple case folding of the regex crate (generated table `Gen.rxFold`: code point ↦ the other members of its orbit) is an equivalence:
`c` matches `x` under `(?i)` iff they are equal or in the same orbit, and that relation is symmetric and transitive.  The table is
checked by the kernel in one pass over its rows with a two-level look-up (piece by first key, then linear), proved equal to the
look-up `Spec.foldOthers` performs.
-/
set_option linter.unusedSimpArgs false
set_option linter.unusedVariables false
namespace Grexv
open Spec

abbrev FoldTab := List (Nat × List Nat)

def findB : FoldTab → Nat → List Nat
  | [], _ => []
  | r :: rs, d => if Nat.beq r.1 d then r.2 else findB rs d

theorem findB_eq_find (tab : FoldTab) (d : Nat) :
    findB tab d = (match tab.find? (fun r => r.1 = d) with | some r => r.2 | none => []) := by
  induction tab with
  | nil => rfl
  | cons r rs ih =>
    simp only [findB, List.find?_cons]
    by_cases h : r.1 = d
    · simp [h]
    · have : Nat.beq r.1 d = false := by
        cases hb : Nat.beq r.1 d with
        | false => rfl
        | true => exact absurd (Nat.eq_of_beq_eq_true hb) h
      simp [h, this, ih]

theorem foldOthers_eq (c : Nat) : foldOthers c = findB Gen.rxFold c := by
  rw [findB_eq_find]; rfl

/-- keys strictly increasing -/
def sortedKeys : FoldTab → Bool
  | [] => true
  | [_] => true
  | a :: b :: rest => Nat.blt a.1 b.1 && sortedKeys (b :: rest)

def firstKey (ch : FoldTab) : Nat := match ch with | [] => 0 | r :: _ => r.1

def findChunks : List FoldTab → Nat → List Nat
  | [], _ => []
  | [ch], d => findB ch d
  | ch :: ch2 :: rest, d => if Nat.blt d (firstKey ch2) then findB ch d else findChunks (ch2 :: rest) d

theorem findB_append_found (a b : FoldTab) (d : Nat) (h : ∃ r ∈ a, r.1 = d) : findB (a ++ b) d = findB a d := by
  induction a with
  | nil => obtain ⟨r, hr, _⟩ := h; cases hr
  | cons x xs ih =>
    simp only [List.cons_append, findB]
    split
    · rfl
    · rename_i hx
      obtain ⟨r, hr, hrd⟩ := h
      rcases List.mem_cons.mp hr with rfl | hr'
      · rw [hrd] at hx; simp at hx
      · exact ih ⟨r, hr', hrd⟩

theorem findB_append_missing (a b : FoldTab) (d : Nat) (h : ∀ r ∈ a, r.1 ≠ d) : findB (a ++ b) d = findB b d := by
  induction a with
  | nil => rfl
  | cons x xs ih =>
    simp only [List.cons_append, findB]
    have hx : Nat.beq x.1 d = false := by
      cases hb : Nat.beq x.1 d with
      | false => rfl
      | true => exact absurd (Nat.eq_of_beq_eq_true hb) (h x List.mem_cons_self)
    rw [hx]
    exact ih (fun r hr => h r (List.mem_cons_of_mem _ hr))

theorem findB_missing (a : FoldTab) (d : Nat) (h : ∀ r ∈ a, r.1 ≠ d) : findB a d = [] := by
  have := findB_append_missing a [] d h
  simpa [findB] using this

theorem sortedKeys_tail (a : Nat × List Nat) (t : FoldTab) (h : sortedKeys (a :: t) = true) : sortedKeys t = true := by
  cases t with
  | nil => rfl
  | cons b r => simp only [sortedKeys, Bool.and_eq_true] at h; exact h.2

/-- in a table with increasing keys every later key is larger than the first -/
theorem sortedKeys_head_lt (a : Nat × List Nat) (t : FoldTab) (h : sortedKeys (a :: t) = true) : ∀ r ∈ t, a.1 < r.1 := by
  induction t generalizing a with
  | nil => intro r hr; cases hr
  | cons b rest ih =>
    simp only [sortedKeys, Bool.and_eq_true] at h
    have hab : a.1 < b.1 := by simpa [Nat.blt_eq] using h.1
    intro r hr
    rcases List.mem_cons.mp hr with rfl | hr'
    · exact hab
    · exact Nat.lt_trans hab (ih b h.2 r hr')

theorem sortedKeys_append_right (a b : FoldTab) (h : sortedKeys (a ++ b) = true) : sortedKeys b = true := by
  induction a with
  | nil => exact h
  | cons x xs ih => exact ih (sortedKeys_tail x _ h)

/-- every key of the front part is below every key of the rest -/
theorem sortedKeys_split (a b : FoldTab) (h : sortedKeys (a ++ b) = true) : ∀ x ∈ a, ∀ y ∈ b, x.1 < y.1 := by
  induction a with
  | nil => intro x hx; cases hx
  | cons x0 xs ih =>
    intro x hx y hy
    rcases List.mem_cons.mp hx with rfl | hx'
    · exact sortedKeys_head_lt x (xs ++ b) h y (List.mem_append_right _ hy)
    · exact ih (sortedKeys_tail x0 _ h) x hx' y hy

def nonEmptyAll : List FoldTab → Bool
  | [] => true
  | ch :: rest => !ch.isEmpty && nonEmptyAll rest

theorem findChunks_eq : ∀ (chunks : List FoldTab) (d : Nat), sortedKeys chunks.flatten = true → nonEmptyAll chunks = true →
    findChunks chunks d = findB chunks.flatten d
  | [], _, _, _ => rfl
  | [ch], d, _, _ => by simp [findChunks]
  | ch :: ch2 :: rest, d, hs, hne => by
    have hfl : (ch :: ch2 :: rest).flatten = ch ++ (ch2 :: rest).flatten := by simp
    rw [hfl] at hs ⊢
    have hs2 : sortedKeys (ch2 :: rest).flatten = true := sortedKeys_append_right ch _ hs
    have hne2 : nonEmptyAll (ch2 :: rest) = true := by
      simp only [nonEmptyAll, Bool.and_eq_true] at hne ⊢; exact hne.2
    have hch2 : ch2 ≠ [] := by
      simp only [nonEmptyAll, Bool.and_eq_true, Bool.not_eq_true', List.isEmpty_eq_false_iff] at hne
      exact hne.2.1
    obtain ⟨f, ftl, rfl⟩ := List.exists_cons_of_ne_nil hch2
    have hsplit := sortedKeys_split ch _ hs
    have hfmem : f ∈ ((f :: ftl) :: rest).flatten := by simp
    simp only [findChunks]
    by_cases hd : d < f.1
    · have hb : Nat.blt d (firstKey (f :: ftl)) = true := by simpa [Nat.blt_eq, firstKey] using hd
      rw [if_pos hb]
      -- `d` is not a key of the rest
      have hrest : ∀ r ∈ ((f :: ftl) :: rest).flatten, r.1 ≠ d := by
        intro r hr
        have hfr : f.1 ≤ r.1 := by
          have hfl2 : ((f :: ftl) :: rest).flatten = f :: (ftl ++ rest.flatten) := by simp
          rw [hfl2] at hr hs2
          rcases List.mem_cons.mp hr with rfl | hr'
          · exact Nat.le_refl _
          · exact Nat.le_of_lt (sortedKeys_head_lt f _ hs2 r hr')
        omega
      by_cases hin : ∃ r ∈ ch, r.1 = d
      · rw [findB_append_found ch _ d hin]
      · have hmiss : ∀ r ∈ ch, r.1 ≠ d := fun r hr e => hin ⟨r, hr, e⟩
        rw [findB_append_missing ch _ d hmiss, findB_missing _ d hrest, findB_missing ch d hmiss]
    · have hb : ¬ (Nat.blt d (firstKey (f :: ftl)) = true) := by
        intro hbb
        exact hd (by simpa [Nat.blt_eq, firstKey] using hbb)
      rw [if_neg hb]
      have hmiss : ∀ r ∈ ch, r.1 ≠ d := by
        intro r hr
        have := hsplit r hr f hfmem
        omega
      rw [findB_append_missing ch _ d hmiss]
      exact findChunks_eq ((f :: ftl) :: rest) d hs2 hne2

/-! ### the check -/

def memB : List Nat → Nat → Bool
  | [], _ => false
  | x :: xs, d => Nat.beq x d || memB xs d

theorem memB_iff (l : List Nat) (d : Nat) : memB l d = true ↔ d ∈ l := by
  induction l with
  | nil => simp [memB]
  | cons x xs ih =>
    simp only [memB, Bool.or_eq_true, ih, List.mem_cons]
    constructor
    · rintro (h | h)
      · exact Or.inl (Nat.eq_of_beq_eq_true h).symm
      · exact Or.inr h
    · rintro (h | h)
      · left; rw [h]; exact Nat.beq_refl x
      · exact Or.inr h

def subB : List Nat → List Nat → Bool
  | [], _ => true
  | x :: xs, b => memB b x && subB xs b

theorem subB_iff (a b : List Nat) : subB a b = true ↔ ∀ x ∈ a, x ∈ b := by
  induction a with
  | nil => simp [subB]
  | cons x xs ih => simp [subB, memB_iff, ih]

/-- every other member `d` of the orbit of `c` lists `c`, and the two rows describe the same orbit -/
def orbitRow (chunks : List FoldTab) (c : Nat) (os : List Nat) : List Nat → Bool
  | [] => true
  | d :: ds =>
    (match findChunks chunks d with
      | od => memB od c && subB od (c :: os) && subB os (d :: od)) && orbitRow chunks c os ds

def orbitAll (chunks : List FoldTab) : FoldTab → Bool
  | [] => true
  | r :: rs => orbitRow chunks r.1 r.2 r.2 && orbitAll chunks rs

/-- what the check establishes for one row -/
def RowOK (look : Nat → List Nat) (c : Nat) (os : List Nat) (d : Nat) : Prop :=
  c ∈ look d ∧ (∀ e ∈ look d, e = c ∨ e ∈ os) ∧ (∀ e ∈ os, e = d ∨ e ∈ look d)

theorem orbitRow_sound (chunks : List FoldTab) (c : Nat) (os : List Nat) :
    ∀ (ds : List Nat), orbitRow chunks c os ds = true → ∀ d ∈ ds, RowOK (findChunks chunks) c os d
  | [], _, d, hd => by cases hd
  | d0 :: ds, h, d, hd => by
    simp only [orbitRow, Bool.and_eq_true] at h
    rcases List.mem_cons.mp hd with rfl | hd'
    · obtain ⟨⟨⟨h1, h2⟩, h3⟩, _⟩ := h
      refine ⟨(memB_iff _ _).mp h1, ?_, ?_⟩
      · intro e he
        have := (subB_iff _ _).mp h2 e he
        simpa using this
      · intro e he
        have := (subB_iff _ _).mp h3 e he
        simpa using this
    · exact orbitRow_sound chunks c os ds h.2 d hd'

theorem orbitAll_sound (chunks : List FoldTab) :
    ∀ (tab : FoldTab), orbitAll chunks tab = true → ∀ r ∈ tab, ∀ d ∈ r.2, RowOK (findChunks chunks) r.1 r.2 d
  | [], _, r, hr => by cases hr
  | r0 :: rs, h, r, hr => by
    simp only [orbitAll, Bool.and_eq_true] at h
    rcases List.mem_cons.mp hr with rfl | hr'
    · exact orbitRow_sound chunks r.1 r.2 r.2 h.1
    · exact orbitAll_sound chunks rs h.2 r hr'

theorem findB_mem (tab : FoldTab) (c : Nat) (h : findB tab c ≠ []) : ∃ r ∈ tab, r.1 = c ∧ r.2 = findB tab c := by
  induction tab with
  | nil => simp [findB] at h
  | cons x xs ih =>
    simp only [findB] at h ⊢
    split at h
    · rename_i hx
      rw [if_pos hx]
      exact ⟨x, List.mem_cons_self, Nat.eq_of_beq_eq_true hx, rfl⟩
    · rename_i hx
      rw [if_neg hx]
      obtain ⟨r, hr, h1, h2⟩ := ih h
      exact ⟨r, List.mem_cons_of_mem _ hr, h1, h2⟩

/-! ### the generated table -/

theorem rxFold_flatten : Gen.rxFold = Gen.rxFoldChunks.flatten := by decide +kernel

theorem rxFold_sorted : sortedKeys Gen.rxFoldChunks.flatten = true := by decide +kernel

theorem rxFold_nonempty : nonEmptyAll Gen.rxFoldChunks = true := by decide +kernel

/-- the pass over the whole table (about half a million look-up steps in the kernel) -/
theorem rxFold_orbits : orbitAll Gen.rxFoldChunks Gen.rxFoldChunks.flatten = true := by decide +kernel

theorem foldOthers_chunks (c : Nat) : foldOthers c = findChunks Gen.rxFoldChunks c := by
  rw [foldOthers_eq, rxFold_flatten, findChunks_eq _ _ rxFold_sorted rxFold_nonempty]

/-- **the rows of the table describe orbits**: another member `d` of the orbit of `c` lists `c`, and the two rows have the same members -/
theorem fold_row (c d : Nat) (h : d ∈ foldOthers c) :
    c ∈ foldOthers d ∧ (∀ e ∈ foldOthers d, e = c ∨ e ∈ foldOthers c) ∧ (∀ e ∈ foldOthers c, e = d ∨ e ∈ foldOthers d) := by
  have hne : findB Gen.rxFoldChunks.flatten c ≠ [] := by
    rw [← rxFold_flatten, ← foldOthers_eq]
    intro e; rw [e] at h; cases h
  obtain ⟨r, hr, hr1, hr2⟩ := findB_mem _ c hne
  have hr2' : r.2 = foldOthers c := by rw [hr2, ← rxFold_flatten, ← foldOthers_eq]
  have hd : d ∈ r.2 := by rw [hr2']; exact h
  have := orbitAll_sound Gen.rxFoldChunks _ rxFold_orbits r hr d hd
  unfold RowOK at this
  rw [hr1, hr2'] at this
  simp only [← foldOthers_chunks] at this
  exact this

theorem chrMatches_orbit_iff (c x : Nat) : chrMatches true c x = true ↔ x = c ∨ c ∈ foldOthers x := by
  simp [chrMatches]

/-- **matching under `(?i)` is symmetric** -/
theorem chrMatches_symm (c x : Nat) (h : chrMatches true c x = true) : chrMatches true x c = true := by
  rw [chrMatches_orbit_iff] at h ⊢
  rcases h with h | h
  · exact Or.inl h.symm
  · exact Or.inr (fold_row x c h).1

/-- **… and transitive** -/
theorem chrMatches_trans (a b c : Nat) (h1 : chrMatches true a b = true) (h2 : chrMatches true b c = true) :
    chrMatches true a c = true := by
  rw [chrMatches_orbit_iff] at h1 h2 ⊢
  rcases h1 with rfl | h1
  · exact h2
  · rcases h2 with rfl | h2
    · exact Or.inr h1
    · -- a ∈ orbit-others of b, b ∈ others of c
      rcases (fold_row c b h2).2.1 a h1 with h | h
      · exact Or.inl h.symm
      · exact Or.inr h

end Grexv
