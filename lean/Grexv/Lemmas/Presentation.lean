import Grexv.Model.RegExp

/-
Which settings the printer and the pipeline stages read.  The anchors are read by `Display for RegExp`
(the two anchor components, the indentation) and by the self-check switch in `RegExp::from` — and by
nothing else.
-/
set_option linter.unusedSimpArgs false
set_option linter.unusedVariables false
namespace Grexv

/-- same configuration except for the two anchor switches -/
def SameButAnchors (c1 c2 : Config) : Prop :=
  c1.minRep = c2.minRep ∧ c1.minLen = c2.minLen ∧ c1.digit = c2.digit ∧ c1.nonDigit = c2.nonDigit ∧
  c1.space = c2.space ∧ c1.nonSpace = c2.nonSpace ∧ c1.word = c2.word ∧ c1.nonWord = c2.nonWord ∧
  c1.rep = c2.rep ∧ c1.ci = c2.ci ∧ c1.cap = c2.cap ∧ c1.esc = c2.esc ∧ c1.sur = c2.sur ∧
  c1.verb = c2.verb ∧ c1.color = c2.color

/-- same configuration in everything the stages before printing read: all but capturing groups, verbose
mode, colour and the anchors -/
def SameStageInputs (c1 c2 : Config) : Prop :=
  c1.minRep = c2.minRep ∧ c1.minLen = c2.minLen ∧ c1.digit = c2.digit ∧ c1.nonDigit = c2.nonDigit ∧
  c1.space = c2.space ∧ c1.nonSpace = c2.nonSpace ∧ c1.word = c2.word ∧ c1.nonWord = c2.nonWord ∧
  c1.rep = c2.rep ∧ c1.ci = c2.ci ∧ c1.esc = c2.esc

theorem SameButAnchors.stage {c1 c2 : Config} (h : SameButAnchors c1 c2) : SameStageInputs c1 c2 := by
  obtain ⟨a1, a2, a3, a4, a5, a6, a7, a8, a9, a10, _, a12, _⟩ := h
  exact ⟨a1, a2, a3, a4, a5, a6, a7, a8, a9, a10, a12⟩

/-- the settings the expression printer reads -/
def SamePrint (c1 c2 : Config) : Prop :=
  c1.cap = c2.cap ∧ c1.esc = c2.esc ∧ c1.sur = c2.sur ∧ c1.verb = c2.verb ∧ c1.color = c2.color

theorem SameButAnchors.print {c1 c2 : Config} (h : SameButAnchors c1 c2) : SamePrint c1 c2 := by
  obtain ⟨_, _, _, _, _, _, _, _, _, _, h1, h2, h3, h4, h5⟩ := h
  exact ⟨h1, h2, h3, h4, h5⟩

mutual
theorem escapeGrapheme_congr {c1 c2 : Config} (h : SamePrint c1 c2) : ∀ g, escapeGrapheme c1 g = escapeGrapheme c2 g
  | .mk chars reps mn mx => by
    obtain ⟨_, he, hs, _, _⟩ := h
    simp only [escapeGrapheme, he, hs]
    rw [escapeGraphemes_congr ⟨by assumption, he, hs, by assumption, by assumption⟩ reps]
theorem escapeGraphemes_congr {c1 c2 : Config} (h : SamePrint c1 c2) : ∀ gs, escapeGraphemes c1 gs = escapeGraphemes c2 gs
  | [] => rfl
  | g :: gs => by
    simp only [escapeGraphemes]
    rw [escapeGrapheme_congr h g, escapeGraphemes_congr h gs]
end

mutual
theorem fmtGrapheme_congr {c1 c2 : Config} (h : SamePrint c1 c2) : ∀ g, fmtGrapheme c1 g = fmtGrapheme c2 g
  | .mk chars reps mn mx => by
    obtain ⟨hc, he, hs, hv, hco⟩ := h
    simp only [fmtGrapheme, hc, hv, hco]
    rw [fmtGraphemes_congr ⟨hc, he, hs, hv, hco⟩ reps]
theorem fmtGraphemes_congr {c1 c2 : Config} (h : SamePrint c1 c2) : ∀ gs, fmtGraphemes c1 gs = fmtGraphemes c2 gs
  | [] => rfl
  | g :: gs => by
    simp only [fmtGraphemes]
    rw [fmtGrapheme_congr h g, fmtGraphemes_congr h gs]
end

theorem fmtLiteral_congr {c1 c2 : Config} (h : SamePrint c1 c2) (c : Cluster) : fmtLiteral c1 c = fmtLiteral c2 c := by
  simp only [fmtLiteral]
  congr 1
  funext g
  simp only [escapeGrapheme_congr h, escapeGraphemes_congr h, fmtGrapheme_congr h]

theorem fmtClass_congr {c1 c2 : Config} (h : SamePrint c1 c2) (cs : List Nat) : fmtClass c1 cs = fmtClass c2 cs := by
  simp only [fmtClass, h.2.2.2.2]

theorem isSingleCodepoint_congr {c1 c2 : Config} (h : c1.esc = c2.esc) (e : Expr) :
    e.isSingleCodepoint c1 = e.isSingleCodepoint c2 := by
  cases e <;> simp [Expr.isSingleCodepoint, h]

mutual
theorem fmtExpr_congr {c1 c2 : Config} (h : SamePrint c1 c2) : ∀ e, fmtExpr c1 e = fmtExpr c2 e
  | .alt os => by simp only [fmtExpr]; exact fmtAlt_congr h os
  | .cls cs => by simp only [fmtExpr]; exact fmtClass_congr h cs
  | .cat a b => by simp only [fmtExpr]; rw [fmtSub_congr h 2 true a, fmtSub_congr h 2 true b]
  | .lit c => by simp only [fmtExpr]; exact fmtLiteral_congr h c
  | .rep e q => by
    simp only [fmtExpr]
    rw [fmtSub_congr h 3 false e, h.2.2.2.1, h.2.2.2.2]
theorem fmtSub_congr {c1 c2 : Config} (h : SamePrint c1 c2) (outer : Nat) (fb : Bool) : ∀ e, fmtSub c1 outer fb e = fmtSub c2 outer fb e
  | e => by
    simp only [fmtSub]
    rw [isSingleCodepoint_congr h.2.1 e, fmtExpr_congr h e, h.1, h.2.2.2.1, h.2.2.2.2]
theorem fmtAlt_congr {c1 c2 : Config} (h : SamePrint c1 c2) : ∀ os, fmtAlt c1 os = fmtAlt c2 os
  | [] => by simp only [fmtAlt]
  | [o] => by simp only [fmtAlt]; exact fmtSub_congr h 1 true o
  | o :: o2 :: os => by
    simp only [fmtAlt]
    rw [fmtSub_congr h 1 true o, fmtAlt_congr h (o2 :: os), h.2.2.2.1, h.2.2.2.2]
end

theorem bodyText_congr {c1 c2 : Config} (h : SamePrint c1 c2) (e : Expr) : bodyText c1 e = bodyText c2 e := by
  cases e <;> simp only [bodyText, fmtExpr_congr h, h.1, h.2.2.2.1, h.2.2.2.2]

/-! ### the stages before printing -/

theorem unionMid_congr {c1 c2 : Config} (h : c1.esc = c2.esc) (e1 e2 : Expr) :
    Expr.unionMid c1 e1 e2 = Expr.unionMid c2 e1 e2 := by
  simp only [Expr.unionMid, isSingleCodepoint_congr h]

theorem union_congr {c1 c2 : Config} (h : c1.esc = c2.esc) : Expr.union c1 = Expr.union c2 := by
  funext a b
  cases a <;> cases b <;> simp only [Expr.union, Expr.unionCore, unionMid_congr h]

theorem ofDfa_congr {c1 c2 : Config} (h : c1.esc = c2.esc) (d : Dfa) : Expr.ofDfa c1 d = Expr.ofDfa c2 d := by
  have hu := union_congr h
  have h1 : ∀ states i es a, initRow c1 states i es a = initRow c2 states i es a := by
    intro states i es a; simp only [initRow, hu]
  have h2 : ∀ states st si, initStep c1 d states st si = initStep c2 d states st si := by
    intro states st si; simp only [initStep, h1]
  have h3 : ∀ states, elimInit c1 d states = elimInit c2 d states := by
    intro states
    simp only [elimInit]
    congr 1
    funext st si
    exact h2 states st si
  have h4 : ∀ st n, elimStep c1 st n = elimStep c2 st n := by
    intro st n; simp only [elimStep, hu]
  have hfun : elimStep c1 = elimStep c2 := by funext st n; exact h4 st n
  simp only [Expr.ofDfa, h3, hfun]

/-- same configuration in everything S1–S6 read: all but capturing groups, `-e`, verbose mode, colour and the anchors -/
def SameClusterInputs (c1 c2 : Config) : Prop :=
  c1.minRep = c2.minRep ∧ c1.minLen = c2.minLen ∧ c1.digit = c2.digit ∧ c1.nonDigit = c2.nonDigit ∧
  c1.space = c2.space ∧ c1.nonSpace = c2.nonSpace ∧ c1.word = c2.word ∧ c1.nonWord = c2.nonWord ∧
  c1.rep = c2.rep ∧ c1.ci = c2.ci

theorem SameStageInputs.cluster {c1 c2 : Config} (h : SameStageInputs c1 c2) : SameClusterInputs c1 c2 := by
  obtain ⟨a1, a2, a3, a4, a5, a6, a7, a8, a9, a10, _⟩ := h
  exact ⟨a1, a2, a3, a4, a5, a6, a7, a8, a9, a10⟩

theorem convChar_congr' {c1 c2 : Config} (h : SameClusterInputs c1 c2) (c : Nat) : convChar c1 c = convChar c2 c := by
  obtain ⟨_, _, hd, hnd, hs, hns, hw, hnw, _⟩ := h
  have hf : flagOf c1 = flagOf c2 := by
    funext f; cases f <;> simp [flagOf, hd, hnd, hs, hns, hw, hnw]
  simp only [convChar]
  generalize Gen.convRules = rules
  induction rules with
  | nil => rfl
  | cons r rs ih => simp only [convCharRules, hf, ih]

theorem convChar_congr {c1 c2 : Config} (h : SameStageInputs c1 c2) (c : Nat) : convChar c1 c = convChar c2 c := by
  obtain ⟨_, _, hd, hnd, hs, hns, hw, hnw, _⟩ := h
  have hf : flagOf c1 = flagOf c2 := by
    funext f; cases f <;> simp [flagOf, hd, hnd, hs, hns, hw, hnw]
  simp only [convChar]
  generalize Gen.convRules = rules
  induction rules with
  | nil => rfl
  | cons r rs ih => simp only [convCharRules, hf, ih]

/-- with none of the six class options the conversion is the identity (so running it because capturing
groups or case-insensitivity switched the "char class feature" on changes nothing) -/
theorem convChar_id (c : Config) (h : c.digit = false ∧ c.nonDigit = false ∧ c.space = false ∧ c.nonSpace = false ∧
    c.word = false ∧ c.nonWord = false) (x : Nat) : convChar c x = [x] := by
  obtain ⟨a, b, d, e, f, g⟩ := h
  have hf : ∀ fl, flagOf c fl = false := by intro fl; cases fl <;> simp [flagOf, a, b, d, e, f, g]
  simp only [convChar]
  generalize Gen.convRules = rules
  induction rules with
  | nil => rfl
  | cons r rs ih => simp [convCharRules, hf, ih]

theorem convertClasses_id (c : Config) (h : c.digit = false ∧ c.nonDigit = false ∧ c.space = false ∧ c.nonSpace = false ∧
    c.word = false ∧ c.nonWord = false) (cl : Cluster) : convertClasses c cl = cl := by
  have hid : ∀ it : Str, it.flatMap (convChar c) = it := by
    intro it
    induction it with
    | nil => rfl
    | cons x xs ih => simp [List.flatMap_cons, convChar_id c h x, ih]
  simp only [convertClasses]
  induction cl with
  | nil => rfl
  | cons g gs ih =>
    cases g with
    | mk chars reps mn mx =>
      simp only [List.map_cons, ih, Grapheme.chars, Grapheme.reps, Grapheme.min, Grapheme.max]
      congr 2
      induction chars with
      | nil => rfl
      | cons ch chs ihc => simp [hid ch, ihc]

/-- `grapheme_clusters` with the class conversion applied unconditionally -/
theorem graphemeClusters_uncond (c : Config) (env : Env) (ws : List Str) :
    graphemeClusters c env ws =
      (let cs := (ws.map fun w => clusterOfPieces (env.segOf w)).map (convertClasses c)
       if c.rep then cs.map (convertRepetitions c) else cs) := by
  simp only [graphemeClusters]
  by_cases hf : c.charClassFeature = true
  · simp [hf]
  · have hall : c.digit = false ∧ c.nonDigit = false ∧ c.space = false ∧ c.nonSpace = false ∧ c.word = false ∧ c.nonWord = false := by
      simp only [Config.charClassFeature, Bool.or_eq_true, not_or, Bool.not_eq_true] at hf
      obtain ⟨⟨⟨⟨⟨⟨⟨a, b⟩, d⟩, e⟩, f⟩, g⟩, _⟩, _⟩ := hf
      exact ⟨a, b, d, e, f, g⟩
    have : (ws.map fun w => clusterOfPieces (env.segOf w)).map (convertClasses c) = ws.map fun w => clusterOfPieces (env.segOf w) := by
      simp [List.map_map, Function.comp, convertClasses_id c hall]
    simp only [hf, Bool.false_eq_true, ite_false, this]

theorem graphemeClusters_congr' {c1 c2 : Config} (h : SameClusterInputs c1 c2) (env : Env) (ws : List Str) :
    graphemeClusters c1 env ws = graphemeClusters c2 env ws := by
  have hconv : convChar c1 = convChar c2 := funext (convChar_congr' h)
  obtain ⟨hmr, hml, hd, hnd, hs, hns, hw, hnw, hrep, hci⟩ := h
  have hcc : convertClasses c1 = convertClasses c2 := by
    funext cl; simp only [convertClasses, hconv]
  have hcr : createRanges c1 = createRanges c2 := by
    funext m; simp only [createRanges, hmr]
  have hsl : spliceLoop c1 = spliceLoop c2 := by
    funext rs acc
    induction rs generalizing acc with
    | nil => rfl
    | cons r rest ih => obtain ⟨rng, sub⟩ := r; simp only [spliceLoop, hml, ih]
  have haux : ∀ fuel, convertRepsAux c1 fuel = convertRepsAux c2 fuel := by
    intro fuel
    induction fuel with
    | zero => funext gs; rfl
    | succ f ih => funext gs; simp only [convertRepsAux, hcr, hsl, ih]
  have hrp : convertRepetitions c1 = convertRepetitions c2 := by
    funext cl; simp only [convertRepetitions, haux]
  rw [graphemeClusters_uncond, graphemeClusters_uncond]
  simp only [hcc, hrep, hrp]

theorem graphemeClusters_congr {c1 c2 : Config} (h : SameStageInputs c1 c2) (env : Env) (ws : List Str) :
    graphemeClusters c1 env ws = graphemeClusters c2 env ws := graphemeClusters_congr' h.cluster env ws

/-- **the expression obtained from the minimised automaton does not depend on the anchor settings** -/
theorem firstAst_independent {c1 c2 : Config} (h : SameStageInputs c1 c2) (env : Env) (ws : List Str)
    (st1 st2 : Stages) (h1 : regExpFrom c1 env ws = .ok st1) (h2 : regExpFrom c2 env ws = .ok st2) :
    st1.sorted = st2.sorted ∧ st1.clusters = st2.clusters ∧ st1.trie = st2.trie ∧ st1.minimized = st2.minimized ∧
      st1.firstAst = st2.firstAst := by
  have hci : c1.ci = c2.ci := h.2.2.2.2.2.2.2.2.2.1
  have hesc : c1.esc = c2.esc := h.2.2.2.2.2.2.2.2.2.2
  have hcl := fun ws => graphemeClusters_congr h env ws
  have hod := fun d => ofDfa_congr hesc d
  have key : ∀ (c : Config) (st : Stages), regExpFrom c env ws = .ok st →
      st.sorted = sortCases (if c.ci = true then lowerCases env ws else ws) ∧
      st.clusters = graphemeClusters c env st.sorted ∧ st.trie = Dfa.trie st.clusters ∧
      Dfa.minimize st.trie Dfa.pickMin = some st.minimized ∧ st.firstAst = Expr.ofDfa c st.minimized := by
    intro c st hst
    unfold regExpFrom at hst
    simp only [] at hst
    generalize hS : sortCases (if c.ci = true then lowerCases env ws else ws) = S at hst
    cases hm : Dfa.minimize (Dfa.trie (graphemeClusters c env S)) Dfa.pickMin with
    | none => simp [hm] at hst
    | some dmin =>
      simp only [hm] at hst
      repeat' (split at hst)
      all_goals (first
        | (simp at hst; done)
        | (simp only [Except.ok.injEq] at hst; subst hst; exact ⟨rfl, rfl, rfl, hm, rfl⟩))
  obtain ⟨a1, a2, a3, a4, a5⟩ := key c1 st1 h1
  obtain ⟨b1, b2, b3, b4, b5⟩ := key c2 st2 h2
  have e1 : st1.sorted = st2.sorted := by rw [a1, b1, hci]
  have e2 : st1.clusters = st2.clusters := by rw [a2, b2, e1, hcl]
  have e3 : st1.trie = st2.trie := by rw [a3, b3, e2]
  have e4 : st1.minimized = st2.minimized := by
    rw [e3, b4] at a4; exact (Option.some.inj a4).symm
  exact ⟨e1, e2, e3, e4, by rw [a5, b5, e4, hod]⟩

theorem firstAst_anchor_independent {c1 c2 : Config} (h : SameButAnchors c1 c2) (env : Env) (ws : List Str)
    (st1 st2 : Stages) (h1 : regExpFrom c1 env ws = .ok st1) (h2 : regExpFrom c2 env ws = .ok st2) :
    st1.sorted = st2.sorted ∧ st1.clusters = st2.clusters ∧ st1.trie = st2.trie ∧ st1.minimized = st2.minimized ∧
      st1.firstAst = st2.firstAst := firstAst_independent h.stage env ws st1 st2 h1 h2

end Grexv
