import Grexv.Lemmas.Search
import Grexv.Lemmas.EndToEndRV

/-
C08, the search half, in verbose mode: the verbose text is parsed under `(?x)` to the very pattern of the non-verbose text, so
`Regex::find` behaves the same.
-/
set_option linter.unusedSimpArgs false
set_option linter.unusedVariables false
namespace Grexv
open Spec

/-- the printed pattern in verbose mode, start anchor disabled: `find` on a string of the expression's language returns the whole string -/
theorem printed_find_eol_verbose (i cap esc : Bool) (e : Expr) (hwf : e.WF) (s : Str) (hs : ∀ c ∈ s, Scalar c) (h : e.strLang i s) :
    ∃ P, Spec.parse (fmtRegExp (cfgVerb cap esc i true false) e) = some (⟨i, true⟩, P) ∧
      Spec.find i P s = some (0, s.length) := by
  obtain ⟨P, hparse, hfind⟩ := printed_find_eol i cap esc e hwf s hs h
  have hP := parse_ci_prefixG _ _ (flags_printedA cap esc true false e hwf) (parse_printedA cap esc true false e hwf) i
  rw [hP] at hparse
  simp only [Option.some.injEq, Prod.mk.injEq, true_and] at hparse
  subst hparse
  exact ⟨_, parse_verbose cap esc i true false e hwf, hfind⟩

/-- the same with counted repetitions -/
theorem printed_find_eol_verboseR (i cap esc : Bool) (e : Expr) (hwf : e.WFS) (s : Str) (hs : ∀ c ∈ s, Scalar c)
    (h : e.strLangR i s) :
    ∃ P, Spec.parse (fmtRegExp (cfgVerb cap esc i true false) e) = some (⟨i, true⟩, P) ∧
      Spec.find i P s = some (0, s.length) := by
  have hwr := Expr.WFS.toWFR e hwf
  obtain ⟨P, hP, hm⟩ := printed_exact_verboseR i cap esc true false e hwf s hs
  have hP2 := parse_verboseR cap esc i true false e hwr
  rw [hP2] at hP
  simp only [Option.some.injEq, Prod.mk.injEq, true_and] at hP
  subst hP
  refine ⟨_, hP2, ?_⟩
  have hfr := Expr.bothR_fragC cap esc e hwr
  have hitems : ∀ p ∈ topItemsR cap esc e, p.FragC := by
    unfold topItemsR
    split
    · intro p hp; simp only [List.mem_singleton] at hp; subst hp; exact hfr.2
    · exact hfr.1
  have hden : denLC i (topItemsR cap esc e) s :=
    (fullMatch_items_anchC i true false _ hitems s).mp (hm.mpr h)
  have := find_items_eolC i _ hitems s hden
  simpa [preA, postA] using this

/-- **C08, the search half, with `-r` in verbose mode** (start anchor disabled, end anchor in place) -/
theorem rep_find_eol_verbose (cfg : Config) (hp : RepVerbose cfg) (hns : cfg.noStart = true) (hne' : cfg.noEnd = false)
    (env : Env) (ws : List Str) (st : Stages)
    (h : regExpFrom cfg env ws = .ok st) (hseg : ∀ w ∈ storedCases cfg env ws, SegOK env w)
    (hlen : ∀ w ∈ storedCases cfg env ws, (subPieces (env.segOf w)).length ≤ 1000)
    (t : Str) (ht : t ∈ storedCases cfg env ws) (hne : t ≠ []) (s : Str) (hsc : ∀ c ∈ s, Scalar c)
    (hs : atomsDen cfg.ci (t.map (convAtom cfg)) s) :
    ∃ P, Spec.parse (fmtRegExp cfg st.finalAst) = some (⟨cfg.ci, true⟩, P) ∧ Spec.find cfg.ci P s = some (0, s.length) := by
  have hws : ws ≠ [] := by
    intro e
    rw [e] at ht
    unfold storedCases lowerCases at ht
    split at ht <;> simp at ht
  have hwfs := rep_final_wfs_na cfg hp.rep hp.minRep env ws st h hseg hlen hws
  rw [fmtRegExp_repVerbose cfg hp, hns, hne']
  exact printed_find_eol_verboseR cfg.ci cfg.cap cfg.esc st.finalAst hwfs s hsc
    (rep_carried cfg hp.rep hp.minRep env ws st h hseg t ht hne s hs)

end Grexv
