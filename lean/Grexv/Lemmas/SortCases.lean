import Grexv.Model.RegExp
import Grexv.Lemmas.StrOrder

/-
S1 facts used by several properties (moved out of `Props/C10.lean`, which imports the API model; the namespace is kept).
-/
set_option linter.unusedSimpArgs false
set_option linter.unusedVariables false
namespace Grexv.Props.C10
open Grexv

theorem dedupAdj_nodup_of_sorted (l : List Str) (h : l.Pairwise (fun a b => strLe a b = true)) :
    (dedupAdj l).Nodup := by
  induction l using dedupAdj.induct with
  | case1 => simp [dedupAdj]
  | case2 x => simp [dedupAdj]
  | case3 x rest ih =>
    simp only [dedupAdj, ite_true]
    exact ih (List.pairwise_cons.mp h).2
  | case4 x y rest hne ih =>
    simp only [dedupAdj, hne, ite_false]
    have h' := List.pairwise_cons.mp h
    refine List.nodup_cons.mpr ⟨?_, ih h'.2⟩
    intro hx
    have hx' : x ∈ y :: rest := (mem_dedupAdj x _).mp hx
    have hxy : strLe x y = true := h'.1 y (List.mem_cons_self)
    have hyx : strLe y x = true := by
      simp only [List.mem_cons] at hx'
      rcases hx' with rfl | hx'
      · exact hxy
      · exact (List.pairwise_cons.mp h'.2).1 x hx'
    exact hne (strLe_antisymm x y hxy hyx)

theorem sortCases_mem (ws : List Str) (w : Str) : w ∈ sortCases ws ↔ w ∈ ws := by
  simp [sortCases, mem_sortBy, mem_dedupAdj]

theorem sortCases_nodup (ws : List Str) : (sortCases ws).Nodup := by
  unfold sortCases
  exact (sortBy_perm _ _).nodup_iff.mpr
    (dedupAdj_nodup_of_sorted _ (sortBy_sorted strLe strLe_total strLe_trans ws))

end Grexv.Props.C10
