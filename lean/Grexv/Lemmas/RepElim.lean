import Grexv.Lemmas.RepPipeline
import Grexv.Lemmas.ElimNoSelf
import Grexv.Lemmas.DfsProof

/-
S7 with repetition conversion: the labels of the minimised automaton of `-r` are well-shaped graphemes (`Plainish`), the
automaton is acyclic, so the expression `Expression::from` computes from it denotes exactly its label sequences
(`elimination_lang_acyclic`, proved for every acyclic automaton with well-shaped labels).
-/
set_option linter.unusedSimpArgs false
set_option linter.unusedVariables false
namespace Grexv

/-! ### S4 produces well-shaped graphemes -/

/-- well-shaped, and no nested repetitions yet -/
def Grapheme.P0 (g : Grapheme) : Prop :=
  g.chars ≠ [] ∧ (∀ s ∈ g.chars, s ≠ []) ∧ 1 ≤ g.min ∧ g.min ≤ g.max ∧ g.reps = []

theorem occ_mem (vals p : List Str) (i : Nat) (h : Occ vals p i) : ∀ s ∈ p, s ∈ vals := by
  intro s hs
  rw [← h.1] at hs
  exact List.mem_of_mem_drop (List.mem_of_mem_take hs)

theorem spliceLoop_p0 (cfg : Config) (vals : List Str) (hv : ∀ s ∈ vals, s ≠ []) :
    ∀ (rs : List RepRange) (acc : Cluster), (∀ rp ∈ rs, Tiles vals rp.2 rp.1.1 rp.1.2) → (∀ g ∈ acc, g.P0) →
      ∀ g ∈ spliceLoop cfg rs acc, g.P0 := by
  intro rs
  induction rs with
  | nil => intro acc _ h; simpa [spliceLoop] using h
  | cons rp rest ih =>
    intro acc ht h
    obtain ⟨r, substr⟩ := rp
    have hrest : ∀ x ∈ rest, Tiles vals x.2 x.1.1 x.1.2 := fun x hx => ht x (List.mem_cons_of_mem _ hx)
    simp only [spliceLoop]
    split
    · exact h
    · split
      · exact ih acc hrest h
      · apply ih _ hrest
        intro g hg
        simp only [splice, List.mem_append, List.mem_cons, List.mem_nil_iff, or_false] at hg
        rcases hg with (hg | hg) | hg
        · exact h g (List.mem_of_mem_take hg)
        · subst hg
          obtain ⟨n, hn, hb, hlen, hocc⟩ := ht (r, substr) List.mem_cons_self
          simp only at hb hlen hocc
          have hcount : (r.2 - r.1) / substr.length = n := by
            rw [hb, Nat.add_sub_cancel_left]
            exact Nat.mul_div_cancel n (by omega)
          refine ⟨?_, ?_, ?_, Nat.le_refl _, rfl⟩
          · show substr ≠ []
            intro hc; rw [hc] at hlen; simp at hlen
          · intro s hs
            have h0 := hocc 0 (by omega)
            simp only [Nat.zero_mul, Nat.add_zero] at h0
            exact hv s (occ_mem vals substr r.1 h0 s hs)
          · show 1 ≤ (r.2 - r.1) / substr.length
            rw [hcount]; exact hn
        · exact h g (List.mem_of_mem_drop hg)

theorem convertRepsAux_single (cfg : Config) (fuel : Nat) (x : Grapheme) : convertRepsAux cfg fuel [x] = none := by
  cases fuel with
  | zero => rfl
  | succ f =>
    simp [convertRepsAux, collectRepeated, createRanges, coalesceRepetitions, sortBy, coalesceOverlap]

theorem p0_ofStr (s : Str) (hs : s ≠ []) : (Grapheme.ofStr s).P0 := by
  refine ⟨by simp [Grapheme.ofStr, Grapheme.chars], ?_, Nat.le_refl _, Nat.le_refl _, rfl⟩
  intro x hx
  simp only [Grapheme.ofStr, Grapheme.chars, List.mem_cons, List.mem_nil_iff, or_false] at hx
  subst hx; exact hs

theorem nestWith_plainish (cfg : Config) (fuel : Nat) (gs : Cluster) (h : ∀ g ∈ gs, g.P0) :
    ∀ g ∈ nestWith (convertRepsAux cfg fuel) gs, g.Plainish := by
  intro g hg
  simp only [nestWith, List.mem_map] at hg
  obtain ⟨g0, hg0, rfl⟩ := hg
  obtain ⟨h1, h2, h3, h4, h5⟩ := h g0 hg0
  refine ⟨h1, h2, h3, h4, ?_⟩
  intro hlen
  show (convertRepsAux cfg fuel (g0.chars.map Grapheme.ofStr)).getD g0.reps = []
  have : ∃ v, g0.chars = [v] := by
    have hl : g0.chars.length = 1 := hlen
    cases hc : g0.chars with
    | nil => rw [hc] at hl; simp at hl
    | cons v rest =>
      cases rest with
      | nil => exact ⟨v, rfl⟩
      | cons _ _ => rw [hc] at hl; simp at hl
  obtain ⟨v, hv⟩ := this
  rw [hv]
  simp only [List.map_cons, List.map_nil, convertRepsAux_single, Option.getD_none]
  exact h5

/-- **every grapheme S4 produces is well-shaped** non-empty characters, a count ≥ 1, nested repetitions only in a unit of several
graphemes -/
theorem convertRepetitions_plainish (cfg : Config) (ss : List Str) (hss : ∀ s ∈ ss, s ≠ []) :
    ∀ g ∈ convertRepetitions cfg (ss.map Grapheme.ofStr), g.Plainish := by
  unfold convertRepetitions
  cases hc : convertRepsAux cfg ((ss.map Grapheme.ofStr).length + 1) (ss.map Grapheme.ofStr) with
  | none =>
    simp only [Option.getD_none]
    intro g hg
    obtain ⟨s, hs, rfl⟩ := List.mem_map.mp hg
    exact Expr.plainish_ofStr s (hss s hs)
  | some res =>
    simp only [Option.getD_some]
    simp only [convertRepsAux] at hc
    split at hc
    · simp at hc
    · simp only [Option.some.injEq] at hc
      subst hc
      rw [map_value_plain]
      have hok := collectRepeated_ok ss
      have htiles := createRanges_tiles cfg ss _ hok
      have hne : ∀ r ∈ createRanges cfg (collectRepeated ss), r.1.1 < r.1.2 :=
        fun r hr => (tiles_nonempty ss _ _ _ (htiles r hr)).1
      obtain ⟨_, hsub⟩ := coalesceRepetitions_spec _ hne
      have ht2 : ∀ rp ∈ coalesceRepetitions (createRanges cfg (collectRepeated ss)), Tiles ss rp.2 rp.1.1 rp.1.2 :=
        fun rp hrp => htiles rp (hsub rp hrp)
      apply nestWith_plainish
      apply spliceLoop_p0 cfg ss hss _ _ ht2
      intro g hg
      obtain ⟨s, hs, rfl⟩ := List.mem_map.mp hg
      exact p0_ofStr s (hss s hs)

namespace Dfa

/-! ### the minimised automaton of `-r` is acyclic -/

/-- the grapheme with the smallest count a label stands for -/
def lowOf (l : Grapheme) : Grapheme := Grapheme.mk l.chars [] l.min l.min

theorem Path.toCPath {d : Dfa} (hr : RangeOK d) {s t : Nat} {w : List Grapheme} (pth : Path d s w t) :
    CPath d s (w.map lowOf) t := by
  induction pth with
  | nil s => exact CPath.nil s
  | cons e he hs _ ih => exact CPath.cons e he hs ⟨rfl, Nat.le_refl _, hr e he⟩ ih

theorem CPath.le {d : Dfa} (ht : TreeR d) {s t : Nat} {cl : Cluster} (pth : CPath d s cl t) : s ≤ t := by
  induction pth with
  | nil s => exact Nat.le_refl s
  | cons e he hs _ _ ih => have := (ht.lt e he).1; omega

theorem CPath.lt_of_ne_nil {d : Dfa} (ht : TreeR d) {s t : Nat} {cl : Cluster} (pth : CPath d s cl t) (h : cl ≠ []) : s < t := by
  cases pth with
  | nil s => exact absurd rfl h
  | cons e he hs _ rest => have := (ht.lt e he).1; have := CPath.le ht rest; omega

/-- states of one class of a stable partition are bisimilar on carried paths -/
theorem bisim_r {d : Dfa} {p : List Block} (hs : StableR d p) (ht : TreeR d) {s t : Nat} {cl : Cluster} (pth : CPath d s cl t)
    (hkeys : ∀ g ∈ cl, ∃ l ∈ d.alphabet, SameKey l g) :
    ∀ s', SameBlock p s s' → ∃ t', CPath d s' cl t' ∧ SameBlock p t t' := by
  induction pth with
  | nil s => intro s' h; exact ⟨s', CPath.nil s', h⟩
  | @cons s t g cl e he hsrc hc rest ih =>
    intro s' hsame
    obtain ⟨l, hl, hk⟩ := hkeys g List.mem_cons_self
    obtain ⟨kA, A, hkA, htA, _⟩ := stableR_class hs e.dst (ht.lt e he).2
    have hAm : A ∈ p := List.mem_of_getElem? hkA
    have hinto : Into d s l A := ⟨e, he, hsrc, htA, (carries_of_sameKey hk).mpr hc⟩
    obtain ⟨e', he', hs', hd', hc'⟩ := (hs.stable s s' l hl hsame A hAm).mp hinto
    obtain ⟨t', pt', hst'⟩ := ih (fun x hx => hkeys x (List.mem_cons_of_mem _ hx)) e'.dst ⟨A, hAm, htA, hd'⟩
    exact ⟨t', CPath.cons e' he' hs' ((carries_of_sameKey hk).mp hc') pt', hst'⟩

/-- **no class contains a state and one of its proper descendants** -/
theorem no_descendant_r {d : Dfa} {p : List Block} (hs : StableR d p) (ht : TreeR d) (cl : Cluster) (hne : cl ≠ [])
    (hkeys : ∀ g ∈ cl, ∃ l ∈ d.alphabet, SameKey l g) :
    ∀ s t, CPath d s cl t → ¬ SameBlock p s t := by
  have key : ∀ n s t, CPath d s cl t → SameBlock p s t → s + n < d.nodes := by
    intro n
    induction n with
    | zero =>
      intro s t pth hsame
      have h1 := CPath.lt_of_ne_nil ht pth hne
      obtain ⟨B, hB, _, htB⟩ := hsame
      have := hs.pinv.bounded B hB t htB
      omega
    | succ n ih =>
      intro s t pth hsame
      obtain ⟨t2, pt2, hs2⟩ := bisim_r hs ht pth hkeys t hsame
      have := ih t t2 pt2 hs2
      have := CPath.lt_of_ne_nil ht pth hne
      omega
  intro s t pth hsame
  have := key d.nodes s t pth hsame
  omega

theorem rangeOK_recreate {d : Dfa} (hr : RangeOK d) (p : List Block) : RangeOK (recreate d pickMin p) := by
  intro q hq
  obtain ⟨b, hb, e', he', rfl⟩ := (mem_recreate_edges d pickMin p q).mp hq
  exact hr e' ((mem_outEdges' d _ e').mp he').1

/-- **the minimised automaton of `-r` is acyclic** -/
theorem recreate_acyclic_r {d : Dfa} {p : List Block} (hs : StableR d p) (ht : TreeR d) (hr : RangeOK d) (hra : RangeAlpha d)
    (c : Nat) (w : List Grapheme) (pth : Path (recreate d pickMin p) c w c) : w = [] := by
  apply Classical.byContradiction
  intro hw
  have cp := Path.toCPath (rangeOK_recreate hr p) pth
  have hkeys : ∀ g ∈ w.map lowOf, ∃ l ∈ d.alphabet, SameKey l g :=
    CPath.keys (rangeAlpha_recreate hra p) cp (by intro g hg; obtain ⟨l, _, rfl⟩ := List.mem_map.mp hg; rfl)
  have hne : w.map lowOf ≠ [] := by simpa using hw
  cases pth with
  | nil => exact hw rfl
  | @cons _ _ w0 q hqe hsrc rest =>
    obtain ⟨b, hb, e', he', rfl⟩ := (mem_recreate_edges d pickMin p q).mp hqe
    simp only at hsrc
    have hm := pickMin_mem b (hs.nonempty b hb)
    have hlt := hs.pinv.bounded b hb _ hm
    obtain ⟨t, htlt, pt, hct⟩ := quotient_cpath_back hs ht cp hkeys (pickMin b) hlt hsrc
    have hsame := classOf_sameBlock hs hlt htlt (by rw [hct, hsrc])
    exact no_descendant_r hs ht _ hne hkeys _ _ pt hsame

theorem plainish_widen (a g : Grapheme) (ha : a.Plainish) (hg : g.Plainish) (hc : a.chars = g.chars) :
    (Grapheme.mk g.chars [] (Nat.min a.min g.min) (Nat.max a.max g.max)).Plainish := by
  obtain ⟨_, _, a3, a4, _⟩ := ha
  obtain ⟨g1, g2, g3, g4, _⟩ := hg
  refine ⟨g1, g2, ?_, ?_, fun _ => rfl⟩
  · show 1 ≤ Nat.min a.min g.min
    exact Nat.le_min.mpr ⟨a3, g3⟩
  · show Nat.min a.min g.min ≤ Nat.max a.max g.max
    exact Nat.le_trans (Nat.min_le_left _ _) (Nat.le_trans a4 (Nat.le_max_left _ _))

/-- **S5–S7 with `-r`, all inputs** for any clusters of well-shaped graphemes that carry one count each: `minimize` applied to
their trie returns an automaton that stands for every non-empty one of the clusters, is acyclic, has well-shaped labels and a
closed depth-first order — and the expression the state elimination leaves in `b[0]` denotes exactly the label sequences of its
accepting paths -/
theorem min_struct_r (cfg : Config) (cls : List Cluster) (hcounts : ∀ cl ∈ cls, ∀ g ∈ cl, g.min = g.max)
    (hshape : ∀ cl ∈ cls, ∀ g ∈ cl, g.Plainish) :
    ∃ m, minimize (trie cls) pickMin = some m ∧ (∀ cl ∈ cls, cl ≠ [] → m.CAccepts cl) ∧
      (∀ c w, Path m c w c → w = []) ∧
      ∀ w : Word, olang (((List.range m.nodes).reverse.foldl (elimStep cfg) (elimInit cfg m m.dfs)).b.get 0) w ↔ m.LangFrom m.init w := by
  obtain ⟨ht, hacc, hkeys, hra⟩ := trie_r cls hcounts
  have hr := trie_rangeOK cls hcounts
  obtain ⟨p, hp, hst⟩ := minimizePartition_stableR ht
  let m := recreate (trie cls) pickMin p
  have hinit : m.init < m.nodes := by
    show classOf p (trie cls).init < p.length
    exact classOf_lt hst.pinv _ (by rw [ht.init0]; exact ht.pos)
  have hdst : ∀ e ∈ m.edges, e.dst < m.nodes := by
    intro q hqe
    obtain ⟨b, hb, e, he, rfl⟩ := (mem_recreate_edges _ pickMin p q).mp hqe
    have hee := ((mem_outEdges' _ _ e).mp he).1
    show classOf p e.dst < p.length
    exact classOf_lt hst.pinv _ (ht.lt e hee).2
  have hplain : m.PlainLabels := by
    intro q hqe
    obtain ⟨b, hb, e, he, rfl⟩ := (mem_recreate_edges _ pickMin p q).mp hqe
    have hee := ((mem_outEdges' _ _ e).mp he).1
    exact trie_labels_r Grapheme.Plainish (fun a g ha hg hc _ => plainish_widen a g ha hg hc) cls hshape e hee
  have hacyc : ∀ c w, Path m c w c → w = [] := fun c w pth => recreate_acyclic_r hst ht hr hra c w pth
  have hN : 1 ≤ m.nodes := by omega
  refine ⟨m, by show minimize (trie cls) pickMin = some m; simp only [minimize, hp, Option.map_some, m], ?_, hacyc, ?_⟩
  · intro cl hcl hne
    exact quotient_caccepts hst ht cl hne (hkeys cl hcl) (hacc cl hcl)
  · intro w
    exact elimination_lang_acyclic cfg m hplain hN (dfsOK_of_bounded m hinit hdst) hacyc w

/-- the same for the trie itself (the second candidate of the self-check): a tree has no cycle -/
theorem trie_struct_r (cfg : Config) (cls : List Cluster) (hcounts : ∀ cl ∈ cls, ∀ g ∈ cl, g.min = g.max)
    (hshape : ∀ cl ∈ cls, ∀ g ∈ cl, g.Plainish) :
    (∀ cl ∈ cls, (trie cls).CAccepts cl) ∧
      ∀ w : Word, olang (((List.range (trie cls).nodes).reverse.foldl (elimStep cfg) (elimInit cfg (trie cls) (trie cls).dfs)).b.get 0) w ↔
        (trie cls).LangFrom (trie cls).init w := by
  obtain ⟨ht, hacc, _, _⟩ := trie_r cls hcounts
  refine ⟨hacc, ?_⟩
  have hplain : (trie cls).PlainLabels := trie_labels_r Grapheme.Plainish (fun a g ha hg hc _ => plainish_widen a g ha hg hc) cls hshape
  have hdfs := dfsOK_of_bounded (trie cls) (by rw [ht.init0]; exact ht.pos) (fun e he => (ht.lt e he).2)
  have hacyc : ∀ c w, Path (trie cls) c w c → w = [] := by
    intro c w pth
    apply Classical.byContradiction
    intro hw
    have := Path.lt_of_ne_nil (fun e he => (ht.lt e he).1) pth hw
    omega
  intro w
  exact elimination_lang_acyclic cfg (trie cls) hplain ht.pos hdfs hacyc w

/-- label by label, the word carries the cluster -/
inductive CarriesL : Word → Cluster → Prop
  | nil : CarriesL [] []
  | cons {l g : Grapheme} {w : Word} {cl : Cluster} (h : Carries l g) (t : CarriesL w cl) : CarriesL (l :: w) (g :: cl)

theorem CPath.toPath {d : Dfa} {s t : Nat} {cl : Cluster} (pth : CPath d s cl t) : ∃ w, Path d s w t ∧ CarriesL w cl := by
  induction pth with
  | nil s => exact ⟨[], Path.nil s, CarriesL.nil⟩
  | cons e he hs hc _ ih =>
    obtain ⟨w, pw, cw⟩ := ih
    exact ⟨e.label :: w, Path.cons e he hs pw, CarriesL.cons hc cw⟩

theorem CAccepts.langFrom {d : Dfa} {cl : Cluster} (h : d.CAccepts cl) : ∃ w, d.LangFrom d.init w ∧ CarriesL w cl := by
  obtain ⟨t, pth, hf⟩ := h
  obtain ⟨w, pw, cw⟩ := pth.toPath
  exact ⟨w, ⟨t, pw, by simpa [isFinal, List.contains_iff_mem] using hf⟩, cw⟩

/-- the strings a sequence of counted labels stands for: every label `{m,n}` contributes its characters `k` times, `m ≤ k ≤ n` -/
def Spells : Word → Str → Prop
  | [], s => s = []
  | l :: ls, s => ∃ k v, l.min ≤ k ∧ k ≤ l.max ∧ s = (List.replicate k l.chars.flatten).flatten ++ v ∧ Spells ls v

theorem replicate_flatten_flatten (k : Nat) (c : List Str) :
    ((List.replicate k c).flatten).flatten = (List.replicate k c.flatten).flatten := by
  induction k with
  | zero => rfl
  | succ n ih => simp only [List.replicate_succ, List.flatten_cons, List.flatten_append, ih]

/-- a label sequence that carries a cluster spells what the cluster expands to -/
theorem carriesL_spells {ls : Word} {cl : Cluster} (h : CarriesL ls cl) (hc : ∀ g ∈ cl, g.min = g.max) :
    Spells ls (expandAll cl).flatten := by
  induction h with
  | nil => simp [Spells, expandAll]
  | @cons l g w cl hcar _ ih =>
    have hg := hc g List.mem_cons_self
    refine ⟨g.min, (expandAll cl).flatten, hcar.2.1, by have := hcar.2.2; omega, ?_, ih (fun x hx => hc x (List.mem_cons_of_mem _ hx))⟩
    simp only [expandAll, List.flatMap_cons, List.flatten_append, Grapheme.expand]
    rw [replicate_flatten_flatten, hcar.1]

theorem carries_refl (g : Grapheme) : Carries g g := ⟨rfl, Nat.le_refl _, Nat.le_refl _⟩

theorem carriesL_refl (cl : Cluster) : CarriesL cl cl := by
  induction cl with
  | nil => exact CarriesL.nil
  | cons g rest ih => exact CarriesL.cons (carries_refl g) ih

end Dfa

open Dfa in
/-- **the first candidate of `RegExp::from` with `-r`, all inputs** (any class options, any thresholds): the minimised automaton is
acyclic, the expression the state elimination leaves in `b[0]` (what `Expression::from` returns) denotes exactly the label sequences
of its accepting paths, and for every stored test case whose converted cluster is not empty one of those label sequences carries the
cluster: label by label the grapheme's characters and a range of counts that contains the grapheme's count -/
theorem rep_first_candidate (cfg : Config) (env : Env) (ws : List Str) (st : Stages) (h : regExpFrom cfg env ws = .ok st)
    (hrep : cfg.rep = true) (hseg : ∀ w ∈ st.sorted, ∀ p ∈ env.segOf w, p ≠ []) :
    (∀ c w, Path st.minimized c w c → w = []) ∧
    (∀ w : Word, olang (((List.range st.minimized.nodes).reverse.foldl (elimStep cfg)
        (elimInit cfg st.minimized st.minimized.dfs)).b.get 0) w ↔ st.minimized.LangFrom st.minimized.init w) ∧
    ∀ pc ∈ preClusters cfg env st.sorted, convertRepetitions cfg pc ≠ [] →
      ∃ w, olang (((List.range st.minimized.nodes).reverse.foldl (elimStep cfg)
        (elimInit cfg st.minimized st.minimized.dfs)).b.get 0) w ∧ CarriesL w (convertRepetitions cfg pc) := by
  obtain ⟨_, hcl, htrie, hmin, _⟩ := from_stages_shape cfg env ws st h
  rw [graphemeClusters_rep cfg env _ hrep] at hcl
  have hcounts : ∀ cl ∈ st.clusters, ∀ g ∈ cl, g.min = g.max := by
    intro cl hc
    rw [hcl] at hc
    obtain ⟨pc', hpc', rfl⟩ := List.mem_map.mp hc
    apply convertRepetitions_counts
    intro g hg
    obtain ⟨s, _, rfl⟩ := preClusters_plain cfg env st.sorted hseg pc' hpc' g hg
    rfl
  have hshape : ∀ cl ∈ st.clusters, ∀ g ∈ cl, g.Plainish := by
    intro cl hc
    rw [hcl] at hc
    obtain ⟨pc', hpc', rfl⟩ := List.mem_map.mp hc
    have hpl := preClusters_plain cfg env st.sorted hseg pc' hpc'
    rw [plain_eq_map pc' hpl]
    apply convertRepetitions_plainish
    intro s hs
    obtain ⟨g, hg, rfl⟩ := List.mem_map.mp hs
    obtain ⟨s', hs', rfl⟩ := hpl g hg
    show [s'].flatten ≠ []
    simpa using hs'
  obtain ⟨m, hm, hacc, hacyc, hlang⟩ := min_struct_r cfg st.clusters hcounts hshape
  rw [← htrie, hmin] at hm
  cases hm
  refine ⟨hacyc, hlang, ?_⟩
  intro pc hpc hne
  have hmem : convertRepetitions cfg pc ∈ st.clusters := by rw [hcl]; exact List.mem_map_of_mem hpc
  obtain ⟨w, hw, cw⟩ := (hacc _ hmem hne).langFrom
  exact ⟨w, (hlang w).mpr hw, cw⟩

open Dfa in
/-- **whichever expression `RegExp::from` keeps with `-r`** (with both anchors disabled the self-check may replace the first candidate
by the expression of the unminimised trie or by the plain alternation of the converted clusters): for every stored test case whose
converted cluster is not empty, the symbol-level language of the expression kept has a label sequence that carries the cluster -/
theorem rep_final_expr (cfg : Config) (env : Env) (ws : List Str) (st : Stages) (h : regExpFrom cfg env ws = .ok st)
    (hrep : cfg.rep = true) (hseg : ∀ w ∈ st.sorted, ∀ p ∈ env.segOf w, p ≠ []) :
    ∀ pc ∈ preClusters cfg env st.sorted, convertRepetitions cfg pc ≠ [] →
      ∃ w, st.finalAst.lang w ∧ CarriesL w (convertRepetitions cfg pc) := by
  obtain ⟨_, hcl, htrie, hmin, h5⟩ := from_stages_shape cfg env ws st h
  have hcl' := hcl
  rw [graphemeClusters_rep cfg env _ hrep] at hcl
  intro pc hpc hne
  have hmem : convertRepetitions cfg pc ∈ st.clusters := by rw [hcl]; exact List.mem_map_of_mem hpc
  have ofB0 : ∀ (d : Dfa) (w : Word), olang (((List.range d.nodes).reverse.foldl (elimStep cfg) (elimInit cfg d d.dfs)).b.get 0) w →
      (Expr.ofDfa cfg d).lang w := by
    intro d w hw
    rw [ofDfa_eq]
    cases hb : ((List.range d.nodes).reverse.foldl (elimStep cfg) (elimInit cfg d d.dfs)).b.get 0 with
    | none => rw [hb] at hw; exact absurd hw (by simp [olang])
    | some e => rw [hb] at hw; simpa [olang] using hw
  rcases from_final_three cfg env ws st h with hf | hf | hf
  · obtain ⟨_, _, h3⟩ := rep_first_candidate cfg env ws st h hrep hseg
    obtain ⟨w, hw, cw⟩ := h3 pc hpc hne
    exact ⟨w, by rw [hf]; exact ofB0 _ w hw, cw⟩
  · have hcounts : ∀ cl ∈ st.clusters, ∀ g ∈ cl, g.min = g.max := by
      intro cl hc
      rw [hcl] at hc
      obtain ⟨pc', hpc', rfl⟩ := List.mem_map.mp hc
      apply convertRepetitions_counts
      intro g hg
      obtain ⟨s, _, rfl⟩ := preClusters_plain cfg env st.sorted hseg pc' hpc' g hg
      rfl
    have hshape : ∀ cl ∈ st.clusters, ∀ g ∈ cl, g.Plainish := by
      intro cl hc
      rw [hcl] at hc
      obtain ⟨pc', hpc', rfl⟩ := List.mem_map.mp hc
      have hpl := preClusters_plain cfg env st.sorted hseg pc' hpc'
      rw [plain_eq_map pc' hpl]
      apply convertRepetitions_plainish
      intro s hs
      obtain ⟨g, hg, rfl⟩ := List.mem_map.mp hs
      obtain ⟨s', hs', rfl⟩ := hpl g hg
      show [s'].flatten ≠ []
      simpa using hs'
    obtain ⟨hacc, hlang⟩ := trie_struct_r cfg st.clusters hcounts hshape
    obtain ⟨w, hw, cw⟩ := (hacc _ hmem).langFrom
    refine ⟨w, ?_, cw⟩
    rw [hf, htrie]
    exact ofB0 _ w ((hlang w).mpr hw)
  · refine ⟨convertRepetitions cfg pc, ?_, carriesL_refl _⟩
    rw [hf, Expr.newAlternation_lang, Expr.langAny_iff]
    exact ⟨Expr.lit (convertRepetitions cfg pc), List.mem_map_of_mem hmem, by simp [Expr.lang]⟩

end Grexv
