import Grexv.Lemmas.WFExpr
import Grexv.Lemmas.ElimNoSelf

/-
The elimination loop of `Expression::from` only ever builds well-formed expressions (`Expr.WF`), given
plain edge labels: cells of the matrix are additionally "solid" (never a `?` expression, never the empty
literal), which is what keeps `union` from nesting `?`.
-/
set_option linter.unusedSimpArgs false
set_option linter.unusedVariables false
namespace Grexv
open Expr

def WFSys (A : Nat → Nat → Option Expr) (B : Nat → Option Expr) : Prop :=
  (∀ i j, OWF (A i j) ∧ OSolid (A i j)) ∧ ∀ i, OWF (B i)

theorem wfSys_step (cap esc : Bool) (n : Nat) (A : Nat → Nat → Option Expr) (B : Nat → Option Expr) (h : WFSys A B) :
    WFSys (stepA (cfgPlain cap esc) n A) (stepB (cfgPlain cap esc) n A B) := by
  obtain ⟨hA, hB⟩ := h
  constructor
  · intro i j
    simp only [stepA]
    split
    · have hc := owf_concatenate (A i n) (A n j) (hA i n).1 (hA n j).1
      have hs := osolid_concatenate (A i n) (A n j) (hA i n).2
      obtain ⟨u1, u2⟩ := owf_union cap esc (A i j) _ (hA i j).1 hc hs
      exact ⟨u1, u2 (hA i j).2⟩
    · exact hA i j
  · intro i
    simp only [stepB]
    split
    · have hc := owf_concatenate (A i n) (B n) (hA i n).1 (hB n)
      have hs := osolid_concatenate (A i n) (B n) (hA i n).2
      exact (owf_union cap esc (B i) _ (hB i) hc hs).1
    · exact hB i

theorem elim_loop_wf (cap esc : Bool) (N : Nat) :
    ∀ (k : Nat), k ≤ N → ∀ (st : ElimState), StSq N st → WFSys (absA st) (absB st) →
      NoSelfAlong (cfgPlain cap esc) st (List.range k).reverse →
      WFSys (absA ((List.range k).reverse.foldl (elimStep (cfgPlain cap esc)) st))
        (absB ((List.range k).reverse.foldl (elimStep (cfgPlain cap esc)) st)) := by
  intro k
  induction k with
  | zero => intro _ st _ h _; simpa using h
  | succ k ih =>
    intro hk st hst hsys hno
    rw [range_succ_reverse] at hno ⊢
    simp only [List.foldl_cons]
    obtain ⟨hself, hno'⟩ := hno
    obtain ⟨hst', hA, hB⟩ := elimStep_abs (cfgPlain cap esc) N k st hst (by omega) hself
    have hfunA : absA (elimStep (cfgPlain cap esc) st k) = stepA (cfgPlain cap esc) k (absA st) := by
      funext i j; exact hA i j
    have hfunB : absB (elimStep (cfgPlain cap esc) st k) = stepB (cfgPlain cap esc) k (absA st) (absB st) := by
      funext i; exact hB i
    apply ih (by omega) _ hst' _ hno'
    rw [hfunA, hfunB]
    exact wfSys_step cap esc k _ _ hsys

/-! ### the initial system -/

def LabelsBs (d : Dfa) : Prop := ∀ e ∈ d.edges, PlainBs [e.label]

theorem labelsBs_plain (d : Dfa) (h : LabelsBs d) : d.PlainLabels := by
  intro e he
  obtain ⟨as, hne, _, hs⟩ := h e he _ List.mem_cons_self
  rw [hs]; exact plainish_ofStr _ (untok_ne_nil as hne)

theorem initRow_wf (cap esc : Bool) (N : Nat) (states : List Nat) (i : Nat) (es : List Edge) (hes : ∀ e ∈ es, PlainBs [e.label]) :
    ∀ (a : Mat), a.Sq N → (∀ i j, OWF (a.get i j) ∧ OSolid (a.get i j)) →
      (initRow (cfgPlain cap esc) states i es a).Sq N ∧
        ∀ i' j', OWF ((initRow (cfgPlain cap esc) states i es a).get i' j') ∧ OSolid ((initRow (cfgPlain cap esc) states i es a).get i' j') := by
  induction es with
  | nil => intro a hsq h; exact ⟨hsq, h⟩
  | cons e rest ih =>
    intro a hsq h
    have hstep : initRow (cfgPlain cap esc) states i (e :: rest) a =
        initRow (cfgPlain cap esc) states i rest (match indexOf? states e.dst with
          | some j => a.set i j (if (a.get i j).isSome then Expr.union (cfgPlain cap esc) (a.get i j) (some (Expr.lit [e.label])) else some (Expr.lit [e.label]))
          | none => a) := by
      rfl
    rw [hstep]
    have hrest : ∀ e ∈ rest, PlainBs [e.label] := fun x hx => hes x (List.mem_cons_of_mem _ hx)
    have hlit : OWF (some (Expr.lit [e.label])) ∧ OSolid (some (Expr.lit [e.label])) :=
      ⟨hes e List.mem_cons_self, ⟨rfl, rfl⟩⟩
    cases hidx : indexOf? states e.dst with
    | none => exact ih hrest a hsq h
    | some j =>
      simp only []
      apply ih hrest _ (Mat.sq_set hsq i j _)
      intro i' j'
      rw [Mat.get_set hsq]
      split
      · split
        · obtain ⟨u1, u2⟩ := owf_union cap esc (a.get i j) _ (h i j).1 hlit.1 hlit.2
          exact ⟨u1, u2 (h i j).2⟩
        · exact hlit
      · exact h i' j'

theorem initLoop_wf (cap esc : Bool) (d : Dfa) (hd : LabelsBs d) (N : Nat) (states : List Nat) :
    ∀ (rest : List Nat) (k : Nat) (st : ElimState), st.a.Sq N → WFSys (absA st) (absB st) →
      ((rest.zipIdx k).foldl (initStep (cfgPlain cap esc) d states) st).a.Sq N ∧
        WFSys (absA ((rest.zipIdx k).foldl (initStep (cfgPlain cap esc) d states) st))
          (absB ((rest.zipIdx k).foldl (initStep (cfgPlain cap esc) d states) st)) := by
  intro rest
  induction rest with
  | nil => intro k st hsq h; exact ⟨hsq, h⟩
  | cons s rest ih =>
    intro k st hsq h
    simp only [List.zipIdx_cons, List.foldl_cons]
    have hes : ∀ e ∈ d.outEdges s, PlainBs [e.label] := fun e he => hd e ((mem_outEdges d s e).mp he).1
    obtain ⟨r1, r2⟩ := initRow_wf cap esc N states k (d.outEdges s) hes st.a hsq h.1
    apply ih (k + 1) (initStep (cfgPlain cap esc) d states st (s, k)) r1
    refine ⟨r2, ?_⟩
    intro i
    simp only [absB, initStep]
    split
    · rw [Vect.get_set]
      split
      · exact plainBs_nil
      · exact h.2 i
    · exact h.2 i

theorem init_wfSys (cap esc : Bool) (d : Dfa) (hd : LabelsBs d) (states : List Nat) :
    WFSys (absA (elimInit (cfgPlain cap esc) d states)) (absB (elimInit (cfgPlain cap esc) d states)) := by
  have h0 : WFSys (absA { a := Array.replicate d.nodes (Array.replicate d.nodes none), b := Array.replicate d.nodes none })
      (absB { a := Array.replicate d.nodes (Array.replicate d.nodes none), b := Array.replicate d.nodes none }) := by
    constructor
    · intro i j; simp only [absA, Mat.get_replicate]; exact ⟨trivial, trivial⟩
    · intro i; simp only [absB, vect_get_replicate]; trivial
  exact (initLoop_wf cap esc d hd d.nodes states states 0 _ (Mat.sq_replicate d.nodes) h0).2

/-- **`Expression::from` returns a well-formed expression** for an acyclic automaton with plain labels -/
theorem ofDfa_wf (cap esc : Bool) (d : Dfa) (hd : LabelsBs d) (hdfs : DfsOK d d.dfs)
    (hacyc : ∀ c w, Dfa.Path d c w c → w = []) : (Expr.ofDfa (cfgPlain cap esc) d).WF := by
  obtain ⟨h1, _, _⟩ := init_system (cfgPlain cap esc) d (labelsBs_plain d hd) d.dfs hdfs
  have hno := noSelfAlong_of_acyclic (cfgPlain cap esc) d d.dfs hacyc d.nodes d.nodes (Nat.le_refl _) _ h1 (init_edgeSys (cfgPlain cap esc) d d.dfs)
  have hw := elim_loop_wf cap esc d.nodes d.nodes (Nat.le_refl _) _ h1 (init_wfSys cap esc d hd d.dfs) hno
  rw [ofDfa_eq]
  have := hw.2 0
  simp only [absB] at this
  split
  · rename_i e he; rw [he] at this; exact this
  · exact plainBs_nil

end Grexv
