import Grexv.Lemmas.RepTrie

/-
S6 with repetition conversion, the quotient step: for a stable partition (`StableR`) of a tree-shaped automaton,
`recreate_graph` with the smallest state of every class as representative keeps every carried path — so the minimised
automaton stands for every cluster the trie stands for.
-/
set_option linter.unusedSimpArgs false
set_option linter.unusedVariables false
namespace Grexv
namespace Dfa

section
variable {d : Dfa} {p : List Block}

theorem stableR_class (hs : StableR d p) (s : Nat) (hlt : s < d.nodes) :
    ∃ k B, p[k]? = some B ∧ s ∈ B ∧ classOf p s = k := by
  obtain ⟨B, hB, hsB⟩ := hs.pinv.cover s hlt
  obtain ⟨k, hk, hkB⟩ := List.getElem_of_mem hB
  have hk' : p[k]? = some B := by rw [List.getElem?_eq_getElem hk, hkB]
  exact ⟨k, B, hk', hsB, classOf_eq p hs.pinv.disj k B hk' s hsB⟩

theorem stableR_sameclass (hs : StableR d p) (t t' : Nat) (h : SameBlock p t t') : classOf p t = classOf p t' := by
  obtain ⟨B, hB, h1, h2⟩ := h
  obtain ⟨k, hk, hkB⟩ := List.getElem_of_mem hB
  have hk' : p[k]? = some B := by rw [List.getElem?_eq_getElem hk, hkB]
  rw [classOf_eq p hs.pinv.disj k B hk' t h1, classOf_eq p hs.pinv.disj k B hk' t' h2]

theorem carries_of_sameKey {lab l g : Grapheme} (hk : SameKey l g) : Carries lab l ↔ Carries lab g := by
  obtain ⟨k1, k2, k3⟩ := hk
  simp only [Carries, k1, k2, k3]

/-- **one edge** an edge of the automaton that carries `g` has a counterpart out of the class of its source -/
theorem quotient_edge (hs : StableR d p) (ht : TreeR d) (e : Edge) (he : e ∈ d.edges) (g : Grapheme) (hc : Carries e.label g)
    (l : Grapheme) (hl : l ∈ d.alphabet) (hk : SameKey l g) :
    ∃ q ∈ (recreate d pickMin p).edges, q.src = classOf p e.src ∧ q.dst = classOf p e.dst ∧ Carries q.label g ∧
      (d.isFinal e.dst = true → classOf p e.dst ∈ (recreate d pickMin p).finals) := by
  have hlt := ht.lt e he
  have hsrc_lt : e.src < d.nodes := by omega
  obtain ⟨k, B, hkB, hsB, _⟩ := stableR_class hs e.src hsrc_lt
  have hBm : B ∈ p := List.mem_of_getElem? hkB
  have hr : pickMin B ∈ B := pickMin_mem B (hs.nonempty B hBm)
  obtain ⟨k', A, hkA, htA, _⟩ := stableR_class hs e.dst hlt.2
  have hAm : A ∈ p := List.mem_of_getElem? hkA
  have hinto : Into d e.src l A := ⟨e, he, rfl, htA, (carries_of_sameKey hk).mpr hc⟩
  have hinto' : Into d (pickMin B) l A := (hs.stable e.src (pickMin B) l hl ⟨B, hBm, hsB, hr⟩ A hAm).mp hinto
  obtain ⟨e', he', hsrc', hdst', hc'⟩ := hinto'
  have hcl_src : classOf p (pickMin B) = classOf p e.src := stableR_sameclass hs _ _ ⟨B, hBm, hr, hsB⟩
  have hcl_dst : classOf p e'.dst = classOf p e.dst := stableR_sameclass hs _ _ ⟨A, hAm, hdst', htA⟩
  have hout : e' ∈ d.outEdges (pickMin B) := (mem_outEdges' d _ e').mpr ⟨he', hsrc'⟩
  refine ⟨⟨classOf p (pickMin B), classOf p e'.dst, e'.label⟩,
    (mem_recreate_edges d pickMin p _).mpr ⟨B, hBm, e', hout, rfl⟩, hcl_src, hcl_dst, (carries_of_sameKey hk).mp hc', ?_⟩
  intro hfin
  have hfin' : d.isFinal e'.dst = true := by rw [hs.pinv.homog A hAm e'.dst hdst' e.dst htA]; exact hfin
  exact (mem_recreate_finals d pickMin p _).mpr ⟨B, hBm, e', hout, hfin', hcl_dst.symm⟩

/-- **paths** every carried path of the automaton has a counterpart between the classes of its end points -/
theorem quotient_cpath (hs : StableR d p) (ht : TreeR d) {s t : Nat} {cl : Cluster} (path : CPath d s cl t)
    (hkeys : ∀ g ∈ cl, ∃ l ∈ d.alphabet, SameKey l g) :
    CPath (recreate d pickMin p) (classOf p s) cl (classOf p t) := by
  induction path with
  | nil s => exact CPath.nil _
  | @cons s t g cl e he hsrc hc rest ih =>
    obtain ⟨l, hl, hk⟩ := hkeys g List.mem_cons_self
    obtain ⟨q, hq, q1, q2, q3, _⟩ := quotient_edge hs ht e he g hc l hl hk
    refine CPath.cons q hq (by rw [q1, hsrc]) q3 ?_
    rw [q2]
    exact ih (fun x hx => hkeys x (List.mem_cons_of_mem _ hx))

/-- **the quotient stands for every non-empty cluster the automaton stands for** -/
theorem quotient_caccepts (hs : StableR d p) (ht : TreeR d) (cl : Cluster) (hne : cl ≠ [])
    (hkeys : ∀ g ∈ cl, ∃ l ∈ d.alphabet, SameKey l g) (h : d.CAccepts cl) : (recreate d pickMin p).CAccepts cl := by
  obtain ⟨t, path, hfin⟩ := h
  obtain ⟨cl', g, rfl⟩ : ∃ cl' g, cl = cl' ++ [g] := by
    rcases List.eq_nil_or_concat cl with h | ⟨a, b, h⟩
    · exact absurd h hne
    · exact ⟨a, b, by simpa using h⟩
  obtain ⟨e, he, hp, hdst, hc⟩ := CPath.snoc_inv path
  obtain ⟨l, hl, hk⟩ := hkeys g (by simp)
  obtain ⟨q, hq, q1, q2, q3, q4⟩ := quotient_edge hs ht e he g hc l hl hk
  have hp' := quotient_cpath hs ht hp (fun x hx => hkeys x (by simp [hx]))
  have := CPath.snoc hp' q hq q1 g q3
  refine ⟨q.dst, ?_, ?_⟩
  · rw [recreate_init]; exact this
  · rw [q2]
    apply q4
    rw [hdst]
    simpa [isFinal, List.contains_iff_mem] using hfin

theorem classOf_sameBlock (hs : StableR d p) {s s' : Nat} (h1 : s < d.nodes) (h2 : s' < d.nodes)
    (h : classOf p s = classOf p s') : SameBlock p s s' := by
  obtain ⟨k, B, hkB, hsB, hc⟩ := stableR_class hs s h1
  obtain ⟨k', B', hkB', hsB', hc'⟩ := stableR_class hs s' h2
  have : k = k' := by rw [← hc, ← hc', h]
  subst this
  rw [hkB] at hkB'
  cases hkB'
  exact ⟨B, List.mem_of_getElem? hkB, hsB, hsB'⟩

/-- **paths, backwards** every carried path of the quotient has a counterpart from any state of its first class -/
theorem quotient_cpath_back (hs : StableR d p) (ht : TreeR d) {k k' : Nat} {cl : Cluster}
    (path : CPath (recreate d pickMin p) k cl k') (hkeys : ∀ g ∈ cl, ∃ l ∈ d.alphabet, SameKey l g) :
    ∀ s, s < d.nodes → classOf p s = k → ∃ t, t < d.nodes ∧ CPath d s cl t ∧ classOf p t = k' := by
  induction path with
  | nil k => intro s hlt hc; exact ⟨s, hlt, CPath.nil s, hc⟩
  | @cons k k' g cl q hq hsrc hc rest ih =>
    intro s hlt hcs
    obtain ⟨l, hl, hk⟩ := hkeys g List.mem_cons_self
    obtain ⟨b, hb, e', he', rfl⟩ := (mem_recreate_edges d pickMin p q).mp hq
    obtain ⟨hee', hsrc'⟩ := (mem_outEdges' d _ e').mp he'
    have hr : pickMin b ∈ b := pickMin_mem b (hs.nonempty b hb)
    have hrlt : pickMin b < d.nodes := hs.pinv.bounded b hb _ hr
    have hsame : SameBlock p (pickMin b) s := classOf_sameBlock hs hrlt hlt (by simp only at hsrc; rw [hsrc, hcs])
    have hdlt := (ht.lt e' hee').2
    obtain ⟨kA, A, hkA, htA, _⟩ := stableR_class hs e'.dst hdlt
    have hAm : A ∈ p := List.mem_of_getElem? hkA
    have hinto : Into d (pickMin b) l A := ⟨e', hee', hsrc', htA, (carries_of_sameKey hk).mpr hc⟩
    obtain ⟨e, he, hes, hed, hec⟩ := (hs.stable _ _ l hl hsame A hAm).mp hinto
    have hcl_dst : classOf p e.dst = classOf p e'.dst := stableR_sameclass hs _ _ ⟨A, hAm, hed, htA⟩
    obtain ⟨t, htlt, hp, hct⟩ := ih (fun x hx => hkeys x (List.mem_cons_of_mem _ hx)) e.dst (ht.lt e he).2 hcl_dst
    exact ⟨t, htlt, CPath.cons e he hes ((carries_of_sameKey hk).mp hec) hp, hct⟩

/-- **the quotient stands for nothing the automaton does not stand for** -/
theorem quotient_caccepts_back (hs : StableR d p) (ht : TreeR d) (cl : Cluster)
    (hkeys : ∀ g ∈ cl, ∃ l ∈ d.alphabet, SameKey l g) (h : (recreate d pickMin p).CAccepts cl) : d.CAccepts cl := by
  obtain ⟨c, path, hfin⟩ := h
  rw [recreate_init] at path
  have hinit : d.init < d.nodes := by rw [ht.init0]; exact ht.pos
  obtain ⟨t, htlt, hp, hct⟩ := quotient_cpath_back hs ht path hkeys d.init hinit rfl
  obtain ⟨b, hb, e'', he'', hf, hc⟩ := (mem_recreate_finals d pickMin p c).mp hfin
  obtain ⟨hee'', _⟩ := (mem_outEdges' d _ e'').mp he''
  have hsame : SameBlock p t e''.dst := classOf_sameBlock hs htlt (ht.lt e'' hee'').2 (by rw [hct, hc])
  obtain ⟨B, hB, h1, h2⟩ := hsame
  refine ⟨t, hp, ?_⟩
  have : d.isFinal t = true := by rw [hs.pinv.homog B hB t h1 e''.dst h2]; exact hf
  simpa [isFinal, List.contains_iff_mem] using this

end

/-- the graphemes of a carried path have their symbols in the alphabet -/
theorem CPath.keys {d : Dfa} (hra : RangeAlpha d) {s t : Nat} {cl : Cluster} (path : CPath d s cl t)
    (hcl : ∀ g ∈ cl, g.min = g.max) : ∀ g ∈ cl, ∃ l ∈ d.alphabet, SameKey l g := by
  induction path with
  | nil s => intro g hg; simp at hg
  | @cons s t g0 cl e he hs hc rest ih =>
    intro g hg
    simp only [List.mem_cons] at hg
    rcases hg with rfl | hg
    · have hg := hcl g List.mem_cons_self
      obtain ⟨l, hl, q1, q2, q3⟩ := hra e he g.min hc.2.1 (by have := hc.2.2; omega)
      exact ⟨l, hl, q1.trans hc.1, q2, by rw [q3]; exact hg⟩
    · exact ih (fun x hx => hcl x (List.mem_cons_of_mem _ hx)) g hg

theorem rangeAlpha_recreate {d : Dfa} (hra : RangeAlpha d) (p : List Block) : RangeAlpha (recreate d pickMin p) := by
  intro q hq k h1 h2
  obtain ⟨b, hb, e', he', rfl⟩ := (mem_recreate_edges d pickMin p q).mp hq
  obtain ⟨hee', _⟩ := (mem_outEdges' d _ e').mp he'
  exact hra e' hee' k h1 h2

/-- **S5 + S6 with `-r`, all inputs** for any clusters whose graphemes carry one count each: `minimize` applied to their
trie returns an automaton, and it stands for every non-empty one of the clusters: along some accepting path, label by label,
the characters are the grapheme's and the range of counts contains the grapheme's count -/
theorem minimize_trie_r (cls : List Cluster) (hcls : ∀ cl ∈ cls, ∀ g ∈ cl, g.min = g.max) :
    ∃ m, minimize (trie cls) pickMin = some m ∧ ∀ cl ∈ cls, cl ≠ [] → m.CAccepts cl := by
  obtain ⟨htree, hacc, hkeys, _⟩ := trie_r cls hcls
  obtain ⟨p, hp, hst⟩ := minimizePartition_stableR htree
  refine ⟨recreate (trie cls) pickMin p, by simp [minimize, hp], ?_⟩
  intro cl hcl hne
  exact quotient_caccepts hst htree cl hne (hkeys cl hcl) (hacc cl hcl)

/-- **S6 with `-r` is exact on count sequences** the minimised automaton stands for a non-empty sequence of counted graphemes
iff the trie does -/
theorem minimize_trie_r_exact (cls : List Cluster) (hcls : ∀ cl ∈ cls, ∀ g ∈ cl, g.min = g.max) :
    ∃ m, minimize (trie cls) pickMin = some m ∧
      ∀ cl : Cluster, (∀ g ∈ cl, g.min = g.max) → cl ≠ [] → (m.CAccepts cl ↔ (trie cls).CAccepts cl) := by
  obtain ⟨htree, _, _, hra⟩ := trie_r cls hcls
  obtain ⟨p, hp, hst⟩ := minimizePartition_stableR htree
  refine ⟨recreate (trie cls) pickMin p, by simp [minimize, hp], ?_⟩
  intro cl hcl hne
  constructor
  · intro h
    have hk : ∀ g ∈ cl, ∃ l ∈ (trie cls).alphabet, SameKey l g := by
      obtain ⟨c, path, _⟩ := h
      exact CPath.keys (rangeAlpha_recreate hra p) path hcl
    exact quotient_caccepts_back hst htree cl hk h
  · intro h
    have hk : ∀ g ∈ cl, ∃ l ∈ (trie cls).alphabet, SameKey l g := by
      obtain ⟨t, path, _⟩ := h
      exact CPath.keys hra path hcl
    exact quotient_caccepts hst htree cl hne hk h

end Dfa
end Grexv
