import Grexv.Lemmas.TrieAlphabet

/-
S6 for tries, continued: two states of one class of a stable partition are never joined by a non-empty
path (a tree has no cycles and stability makes equal-class states bisimilar).  Consequences: the start
class is never recorded as final — known finding D1 as a theorem, in its exact form — and the minimised
automaton is acyclic.
-/
set_option linter.unusedSimpArgs false
set_option linter.unusedVariables false
namespace Grexv
namespace Dfa

theorem SameBlock.symm {p : List Block} {q q' : Nat} (h : SameBlock p q q') : SameBlock p q' q := by
  obtain ⟨B, hB, h1, h2⟩ := h; exact ⟨B, hB, h2, h1⟩

/-- states of one class of a stable partition are bisimilar -/
theorem bisim {d : Dfa} (h : TreeInv d) {p : List Block} (hinv : Inv d p []) {q t : Nat} {w : List Grapheme}
    (pth : Path d q w t) : ∀ q', SameBlock p q q' → ∃ t', Path d q' w t' ∧ SameBlock p t t' := by
  induction pth with
  | nil s => intro q' hs; exact ⟨q', Path.nil q', hs⟩
  | @cons s t w e he hsrc rest ih =>
    intro q' hs
    have hsq : succ d s e.label = some e.dst := (succ_eq_some h s e.label e.dst).mpr ⟨e, he, hsrc, rfl, rfl⟩
    have hnd := stable_of_inv_nil hinv s q' e.label hs
    rw [hsq] at hnd
    cases hs' : succ d q' e.label with
    | none => rw [hs'] at hnd; exact absurd trivial hnd
    | some t1 =>
      rw [hs'] at hnd
      simp only [Disagree, Classical.not_not] at hnd
      obtain ⟨e', he', hsrc', hl', hdst'⟩ := (succ_eq_some h q' e.label t1).mp hs'
      obtain ⟨t', pt', hst'⟩ := ih t1 hnd
      refine ⟨t', ?_, hst'⟩
      rw [← hl']
      exact Path.cons e' he' hsrc' (by rw [hdst']; exact pt')

theorem path_end_lt {d : Dfa} (h : TreeInv d) {s t : Nat} {w : List Grapheme} (pth : Path d s w t) (hw : w ≠ []) :
    t < d.nodes := by
  obtain ⟨w', e, _, _, he, hd⟩ := Path.snoc_inv pth hw
  rw [← hd]; exact (h.lt e he).2

/-- **no class contains a state and one of its proper descendants** -/
theorem no_descendant_in_block {d : Dfa} (h : TreeInv d) {p : List Block} (hinv : Inv d p []) (w : List Grapheme) (hw : w ≠ []) :
    ∀ s t, Path d s w t → ¬ SameBlock p s t := by
  have hlt : ∀ e ∈ d.edges, e.src < e.dst := fun e he => (h.lt e he).1
  have key : ∀ n s t, Path d s w t → SameBlock p s t → s + n < d.nodes := by
    intro n
    induction n with
    | zero =>
      intro s t pth _
      have := Path.lt_of_ne_nil hlt pth hw
      have := path_end_lt h pth hw
      omega
    | succ n ih =>
      intro s t pth hs
      obtain ⟨t2, pt2, hs2⟩ := bisim h hinv pth t hs
      have := ih t t2 pt2 hs2
      have := Path.lt_of_ne_nil hlt pth hw
      omega
  intro s t pth hs
  have := key d.nodes s t pth hs
  omega

/-- every state but the root has a parent -/
def Parents (d : Dfa) : Prop := ∀ t, 0 < t → t < d.nodes → ∃ e ∈ d.edges, e.dst = t

theorem reach_from_root {d : Dfa} (h : TreeInv d) (hp : Parents d) : ∀ (n t : Nat), t ≤ n → t < d.nodes → ∃ w, Path d 0 w t := by
  intro n
  induction n with
  | zero => intro t ht _; have : t = 0 := by omega
            subst this; exact ⟨[], Path.nil 0⟩
  | succ n ih =>
    intro t ht hlt
    by_cases h0 : t = 0
    · subst h0; exact ⟨[], Path.nil 0⟩
    · obtain ⟨e, he, hdst⟩ := hp t (by omega) hlt
      have hl := h.lt e he
      obtain ⟨w, pw⟩ := ih e.src (by omega) (by omega)
      refine ⟨w ++ [e.label], Path.append pw ?_⟩
      exact Path.cons e he rfl (by rw [hdst]; exact Path.nil t)

theorem sameBlock_of_classOf {d : Dfa} {p : List Block} (hp : PInv d p) (s t : Nat) (hs : s < d.nodes) (ht : t < d.nodes)
    (hc : classOf p s = classOf p t) : SameBlock p s t := by
  obtain ⟨B, hB, hsB⟩ := hp.cover s hs
  obtain ⟨k, hk, hkB⟩ := List.getElem_of_mem hB
  have hk' : p[k]? = some B := by rw [List.getElem?_eq_getElem hk, hkB]
  have c1 := classOf_eq p hp.disj k B hk' s hsB
  obtain ⟨B2, hB2, htB2⟩ := hp.cover t ht
  obtain ⟨k2, hk2, hkB2⟩ := List.getElem_of_mem hB2
  have hk2' : p[k2]? = some B2 := by rw [List.getElem?_eq_getElem hk2, hkB2]
  have c2 := classOf_eq p hp.disj k2 B2 hk2' t htB2
  have : k = k2 := by rw [← c1, ← c2, hc]
  subst this
  rw [hk'] at hk2'
  simp only [Option.some.injEq] at hk2'
  subst hk2'
  exact ⟨B, hB, hsB, htB2⟩

/-- **D1, exactly** for a rooted tree the start class is never recorded as final -/
theorem init_never_final {d : Dfa} (h : TreeInv d) (hpar : Parents d) {p : List Block} (hs : Stable d p) :
    classOf p d.init ∉ (recreate d pickMin p).finals := by
  intro hc
  obtain ⟨b, hb, e, he, hf, hce⟩ := (mem_recreate_finals d pickMin p _).mp hc
  obtain ⟨hee, hsrc⟩ := (mem_outEdges' d _ e).mp he
  have hl := h.lt e hee
  have hsame := sameBlock_of_classOf hs.pinv d.init e.dst (by rw [h.init0]; exact h.pos) hl.2 hce
  obtain ⟨w, pw⟩ := reach_from_root h hpar e.src e.src (Nat.le_refl _) (by omega)
  have pth : Path d 0 (w ++ [e.label]) e.dst := Path.append pw (Path.cons e hee rfl (Path.nil _))
  rw [h.init0] at hsame
  exact no_descendant_in_block h hs.stable _ (by simp) 0 e.dst pth hsame

/-- **the minimised automaton is acyclic** -/
theorem recreate_acyclic {d : Dfa} (h : TreeInv d) {p : List Block} (hs : Stable d p) (c : Nat) (w : List Grapheme)
    (pth : Path (recreate d pickMin p) c w c) : w = [] := by
  apply Classical.byContradiction
  intro hw
  have hq := quotientOk_of_stable h hs
  -- the first edge of the path leaves the class of a representative
  cases pth with
  | nil => exact hw rfl
  | @cons _ _ w0 q hqe hsrc rest =>
    obtain ⟨b, hb, e', he', rfl⟩ := (mem_recreate_edges d pickMin p q).mp hqe
    simp only at hsrc rest
    have hbne := hs.nonempty b hb
    have hm := pickMin_mem b hbne
    have hlt := hs.pinv.bounded b hb _ hm
    have pth' : Path (recreate d pickMin p) c (e'.label :: w0) c :=
      Path.cons (d := recreate d pickMin p) ⟨classOf p (pickMin b), classOf p e'.dst, e'.label⟩ hqe hsrc rest
    obtain ⟨t, pt, ht, hct⟩ := path_from_quotient hq pth' (pickMin b) hlt hsrc
    have hsame := sameBlock_of_classOf hs.pinv (pickMin b) t hlt ht (by rw [hct, hsrc])
    exact no_descendant_in_block h hs.stable _ (by simp) _ _ pt hsame

/-! ### the trie is rooted -/

theorem step_parents (d : Dfa) (cur : Nat) (g : Grapheme) (hg : g.Simple) (hd : d.AllSimple) (hp : Parents d) :
    Parents (step d cur g).1 := by
  have hout : ∀ e ∈ d.outEdges cur, e.label.Simple := by
    intro e he
    simp only [outEdges, List.mem_reverse, List.mem_filter] at he
    exact hd e he.1
  simp only [step]
  rcases findNext_simple g hg (d.outEdges cur) hout with ⟨h1, _⟩ | ⟨e, he, h1, h2⟩
  · rw [h1]
    intro t ht hlt
    simp only at hlt
    by_cases htn : t = d.nodes
    · exact ⟨⟨cur, d.nodes, g⟩, by simp, htn.symm⟩
    · obtain ⟨e, he, hdst⟩ := hp t ht (by omega)
      exact ⟨e, by simp [he], hdst⟩
  · rw [h2]; exact hp

theorem foldl_parents (cl : Cluster) (hcl : ∀ g ∈ cl, g.Simple) :
    ∀ (d : Dfa) (cur : Nat), d.AllSimple → Parents d → Parents (cl.foldl insertFold (d, cur)).1 := by
  induction cl with
  | nil => intro d cur _ hp; exact hp
  | cons g rest ih =>
    intro d cur hd hp
    have hg := hcl g (List.mem_cons_self)
    have hrest : ∀ g ∈ rest, g.Simple := fun x hx => hcl x (List.mem_cons_of_mem _ hx)
    let d0 : Dfa := { d with alphabet := alphaInsert g d.alphabet }
    have hd0 : d0.AllSimple := hd
    have hp0 : Parents d0 := hp
    have hs := step_parents d0 cur g hg hd0 hp0
    obtain ⟨_, _, hsimple, _⟩ := step_spec d0 cur g hg hd0
    have hfold : (g :: rest).foldl insertFold (d, cur) = rest.foldl insertFold (step d0 cur g) := rfl
    rw [hfold]
    exact ih hrest _ _ hsimple hs

theorem trie_parents (cls : List Cluster) (hcls : ∀ cl ∈ cls, ∀ g ∈ cl, g.Simple) : Parents (trie cls) := by
  suffices h : ∀ (d : Dfa), d.AllSimple → Parents d → Parents (cls.foldl insert d) by
    exact h Dfa.empty empty_allSimple (by intro t ht hlt; simp [Dfa.empty] at hlt; omega)
  induction cls with
  | nil => intro d _ hp; exact hp
  | cons cl rest ih =>
    intro d hd hp
    have hcl := hcls cl List.mem_cons_self
    have h1 : Parents (insert d cl) := by
      have := foldl_parents cl hcl d d.init hd hp
      rw [insert_eq]; exact this
    have h2 : (insert d cl).AllSimple := (insert_spec d cl hcl hd).2.2.1
    exact ih (fun c hc => hcls c (List.mem_cons_of_mem _ hc)) _ h2 h1

/-- **S5+S6, exact** for every list of plain clusters `minimize` succeeds on the trie and the result accepts
exactly the non-empty clusters: the empty test case is always lost (known finding D1) and nothing else is -/
theorem minimize_trie_exact (cls : List Cluster) (hcls : ∀ cl ∈ cls, ∀ g ∈ cl, g.Simple) :
    ∃ m, minimize (trie cls) pickMin = some m ∧ (∀ w, m.Accepts w ↔ (w ∈ cls ∧ w ≠ [])) ∧
      (∀ c w, Path m c w c → w = []) := by
  obtain ⟨ht, ha⟩ := trie_tree_alpha cls hcls
  obtain ⟨p, hp, hst⟩ := minimizePartition_stable ht ha.covers ha.simple
  refine ⟨recreate (trie cls) pickMin p, by simp [minimize, hp], ?_, ?_⟩
  · intro w
    rw [recreate_accepts (quotientOk_of_stable ht hst) w, trie_exact cls hcls w]
    have := init_never_final ht (trie_parents cls hcls) hst
    constructor
    · rintro ⟨h1, h2 | h2⟩
      · exact ⟨h1, h2⟩
      · exact absurd h2 this
    · rintro ⟨h1, h2⟩; exact ⟨h1, Or.inl h2⟩
  · intro c w pth; exact recreate_acyclic ht hst c w pth

end Dfa
end Grexv
