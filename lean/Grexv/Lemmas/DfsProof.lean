import Grexv.Lemmas.ElimInit

/-
S7: `states_in_depth_first_order` (petgraph `Dfs` with its stack and discovered set) visits the initial
state first, returns a list closed under successors, no longer than the number of states — for every
automaton whose edges stay inside `0 .. nodes`.  Fuel: stack length + number of edges leaving
undiscovered states decreases in every round.
-/
set_option linter.unusedSimpArgs false
set_option linter.unusedVariables false
namespace Grexv

def unseenEdges (es : List Edge) (seen : List Nat) : Nat := (es.filter fun e => !seen.contains e.src).length

theorem filter_len_add {α : Type} (p q r : α → Bool)
    (h : ∀ e, (if p e then 1 else 0) + (if q e then 1 else 0) = (if r e then 1 else (0 : Nat))) (l : List α) :
    (l.filter p).length + (l.filter q).length = (l.filter r).length := by
  induction l with
  | nil => rfl
  | cons e rest ih =>
    have := h e
    simp only [List.filter_cons]
    cases hp : p e <;> cases hq : q e <;> cases hr : r e <;> simp [hp, hq, hr] at this ⊢ <;> omega

theorem unseen_cons (es : List Edge) (seen : List Nat) (n : Nat) (hn : n ∉ seen) :
    unseenEdges es (n :: seen) + (es.filter fun e => e.src = n).length = unseenEdges es seen := by
  apply filter_len_add
  intro e
  by_cases h1 : e.src = n
  · have : e.src ∉ seen := by rw [h1]; exact hn
    simp [h1, hn]
  · by_cases h2 : e.src ∈ seen <;> simp [h1, h2]

structure DfsInv (d : Dfa) (stack seen : List Nat) : Prop where
  nodup : seen.Nodup
  seenLt : ∀ s ∈ seen, s < d.nodes
  stackLt : ∀ s ∈ stack, s < d.nodes
  closed : ∀ s ∈ seen, ∀ e ∈ d.edges, e.src = s → e.dst ∈ seen ∨ e.dst ∈ stack
  first : (seen = [] ∧ stack = [d.init]) ∨ seen.getLast? = some d.init

theorem dfsOrder_spec (d : Dfa) (hlt : ∀ e ∈ d.edges, e.dst < d.nodes) :
    ∀ (fuel : Nat) (stack seen : List Nat), DfsInv d stack seen → stack.length + unseenEdges d.edges seen ≤ fuel →
      (dfsOrder d fuel stack seen).head? = some d.init ∧
      (∀ s ∈ dfsOrder d fuel stack seen, ∀ e ∈ d.edges, e.src = s → e.dst ∈ dfsOrder d fuel stack seen) ∧
      (dfsOrder d fuel stack seen).length ≤ d.nodes := by
  have fin : ∀ seen, DfsInv d [] seen →
      (seen.reverse).head? = some d.init ∧
      (∀ s ∈ seen.reverse, ∀ e ∈ d.edges, e.src = s → e.dst ∈ seen.reverse) ∧ seen.reverse.length ≤ d.nodes := by
    intro seen hinv
    refine ⟨?_, ?_, ?_⟩
    · rcases hinv.first with ⟨_, h⟩ | h
      · simp at h
      · rw [List.head?_reverse]; exact h
    · intro s hs e he hsrc
      rcases hinv.closed s (List.mem_reverse.mp hs) e he hsrc with h | h
      · exact List.mem_reverse.mpr h
      · simp at h
    · rw [List.length_reverse]
      have := List.Nodup.length_le_of_subset (l₂ := List.range d.nodes) hinv.nodup
        (fun s hs => List.mem_range.mpr (hinv.seenLt s hs))
      simpa using this
  intro fuel
  induction fuel with
  | zero =>
    intro stack seen hinv hm
    have : stack = [] := by
      cases stack with
      | nil => rfl
      | cons a as => simp at hm
    subst this
    simp only [dfsOrder]
    exact fin seen hinv
  | succ fuel ih =>
    intro stack seen hinv hm
    cases stack with
    | nil => simp only [dfsOrder]; exact fin seen hinv
    | cons n stack =>
      simp only [dfsOrder]
      split
      · rename_i hc
        have hmem : n ∈ seen := by simpa [List.contains_iff_mem] using hc
        apply ih
        · refine ⟨hinv.nodup, hinv.seenLt, fun s hs => hinv.stackLt s (List.mem_cons_of_mem _ hs), ?_, ?_⟩
          · intro s hs e he hsrc
            rcases hinv.closed s hs e he hsrc with h | h
            · exact Or.inl h
            · simp only [List.mem_cons] at h
              rcases h with h | h
              · left; rw [h]; exact hmem
              · exact Or.inr h
          · rcases hinv.first with ⟨h1, _⟩ | h
            · subst h1; simp at hmem
            · exact Or.inr h
        · simp only [List.length_cons] at hm; omega
      · rename_i hc
        have hnmem : n ∉ seen := by simpa [List.contains_iff_mem] using hc
        apply ih
        · refine ⟨List.nodup_cons.mpr ⟨hnmem, hinv.nodup⟩, ?_, ?_, ?_, ?_⟩
          · intro s hs
            simp only [List.mem_cons] at hs
            rcases hs with rfl | hs
            · exact hinv.stackLt _ List.mem_cons_self
            · exact hinv.seenLt s hs
          · intro s hs
            simp only [List.mem_append, List.mem_reverse, List.mem_filter, List.mem_map] at hs
            rcases hs with ⟨⟨e, he, rfl⟩, _⟩ | hs
            · exact hlt e ((mem_outEdges d n e).mp he).1
            · exact hinv.stackLt s (List.mem_cons_of_mem _ hs)
          · intro s hs e he hsrc
            by_cases hin : e.dst ∈ n :: seen
            · exact Or.inl hin
            · right
              simp only [List.mem_cons] at hs
              rcases hs with rfl | hs
              · simp only [List.mem_append, List.mem_reverse, List.mem_filter, List.mem_map]
                left
                exact ⟨⟨e, (mem_outEdges d _ e).mpr ⟨he, hsrc⟩, rfl⟩, by simpa [List.contains_iff_mem] using hin⟩
              · rcases hinv.closed s hs e he hsrc with h | h
                · exact absurd (List.mem_cons_of_mem _ h) hin
                · simp only [List.mem_cons] at h
                  rcases h with h | h
                  · exact absurd (by rw [h]; exact List.mem_cons_self) hin
                  · exact List.mem_append_right _ h
          · right
            rcases hinv.first with ⟨h1, h2⟩ | h
            · subst h1
              simp only [List.cons.injEq] at h2
              simp [h2.1]
            · cases seen with
              | nil => simp at h
              | cons a as => rw [List.getLast?_cons_cons]; exact h
        · have h1 := unseen_cons d.edges seen n hnmem
          have h2 : (((d.outEdges n).map Edge.dst).filter fun s => !(n :: seen).contains s).reverse.length ≤
              (d.edges.filter fun e => e.src = n).length := by
            rw [List.length_reverse]
            refine Nat.le_trans (List.length_filter_le _ _) ?_
            simp [Dfa.outEdges]
          simp only [List.length_append, List.length_cons] at hm ⊢
          omega

/-- **`states_in_depth_first_order` is what `Expression::from` needs** -/
theorem dfsOK_of_bounded (d : Dfa) (hinit : d.init < d.nodes) (hlt : ∀ e ∈ d.edges, e.dst < d.nodes) : DfsOK d d.dfs := by
  have hinv : DfsInv d [d.init] [] :=
    ⟨List.nodup_nil, by simp, by simp [hinit], by simp, Or.inl ⟨rfl, rfl⟩⟩
  have hm : [d.init].length + unseenEdges d.edges [] ≤ d.nodes + d.edges.length + 2 := by
    have : unseenEdges d.edges [] ≤ d.edges.length := List.length_filter_le _ _
    simp only [List.length_cons, List.length_nil]; omega
  obtain ⟨h1, h2, h3⟩ := dfsOrder_spec d hlt _ _ _ hinv hm
  exact ⟨h1, h2, h3⟩

end Grexv
