import Grexv.Lemmas.HopcroftQuot

/-
S6 with repetition conversion.  The trie of `-r` carries labels `{m,n}` (the widening merge of
`find_next_state`), one state can have several edges for one alphabet symbol, so the transition structure is a
*relation*.  The refinement loop — an edge carries a symbol when its range of counts contains the symbol's, both halves of
every split block go to the work list — is proved stable for such relations, for every tree-shaped automaton.
-/
set_option linter.unusedSimpArgs false
set_option linter.unusedVariables false
namespace Grexv
namespace Dfa

/-- the label `lab` of an edge carries the alphabet symbol `l`: same characters, and the range of counts of the edge
contains the symbol's (the test of `get_parent_states`) -/
def Carries (lab l : Grapheme) : Prop := lab.chars = l.chars ∧ lab.min ≤ l.min ∧ l.max ≤ lab.max

instance (lab l : Grapheme) : Decidable (Carries lab l) := by unfold Carries; exact inferInstance

/-- `q` has an edge that carries `l` into the block `A` -/
def Into (d : Dfa) (q : Nat) (l : Grapheme) (A : Block) : Prop :=
  ∃ e ∈ d.edges, e.src = q ∧ e.dst ∈ A ∧ Carries e.label l

/-- tree shape without any condition on the labels -/
structure TreeR (d : Dfa) : Prop where
  init0 : d.init = 0
  pos : 0 < d.nodes
  lt : ∀ e ∈ d.edges, e.src < e.dst ∧ e.dst < d.nodes
  inj : ∀ e1 ∈ d.edges, ∀ e2 ∈ d.edges, e1.dst = e2.dst → e1 = e2

theorem TreeInv.toTreeR {d : Dfa} (h : TreeInv d) : TreeR d := ⟨h.init0, h.pos, h.lt, h.inj⟩

/-- `get_parent_states` on a tree: the states with an edge that carries `l` into `a` -/
theorem mem_parentStates_r {d : Dfa} (h : TreeR d) (a : Block) (l : Grapheme) (q : Nat) :
    q ∈ parentStates d a l ↔ Into d q l a := by
  rw [mem_parentStates_gen]
  simp only [Option.map_eq_some_iff]
  constructor
  · rintro ⟨s, hs, e, he, rfl⟩
    have h1 := List.mem_of_find?_eq_some he
    have h2 := List.find?_some he
    simp only [inEdges, List.mem_reverse, List.mem_filter, decide_eq_true_eq] at h1
    simp only [Bool.and_eq_true, decide_eq_true_eq] at h2
    exact ⟨e, h1.1, rfl, by rw [h1.2]; exact hs, h2.1.1, h2.1.2, h2.2⟩
  · rintro ⟨e, he, hsrc, hdst, hc1, hc2, hc3⟩
    refine ⟨e.dst, hdst, ?_⟩
    cases hf : (d.inEdges e.dst).find? (fun e => e.label.chars = l.chars && decide (e.label.min ≤ l.min) && decide (l.max ≤ e.label.max)) with
    | none =>
      rw [List.find?_eq_none] at hf
      have hmem : e ∈ d.inEdges e.dst := by simp [inEdges, he]
      have := hf e hmem
      simp [hc1, hc2, hc3] at this
    | some e' =>
      have h1 := List.mem_of_find?_eq_some hf
      simp only [inEdges, List.mem_reverse, List.mem_filter, decide_eq_true_eq] at h1
      have : e' = e := h.inj e' h1.1 e he h1.2
      exact ⟨e', rfl, by rw [this, hsrc]⟩

/-- the block `A` separates `q` from `q'` under the symbol `l` -/
def Sep (d : Dfa) (A : Block) (l : Grapheme) (q q' : Nat) : Prop := ¬ (Into d q l A ↔ Into d q' l A)

theorem into_pieces (d : Dfa) (x Y i dd : Block) (hi : i = binter x Y) (hd : dd = bdiff Y x) (q : Nat) (l : Grapheme) :
    Into d q l Y ↔ (Into d q l i ∨ Into d q l dd) := by
  subst hi hd
  constructor
  · rintro ⟨e, he, hs, hdst, hc⟩
    by_cases hx : e.dst ∈ x
    · exact Or.inl ⟨e, he, hs, (mem_binter x Y _).mpr ⟨hdst, hx⟩, hc⟩
    · exact Or.inr ⟨e, he, hs, (mem_bdiff Y x _).mpr ⟨hdst, hx⟩, hc⟩
  · rintro (⟨e, he, hs, hdst, hc⟩ | ⟨e, he, hs, hdst, hc⟩)
    · exact ⟨e, he, hs, ((mem_binter x Y _).mp hdst).1, hc⟩
    · exact ⟨e, he, hs, ((mem_bdiff Y x _).mp hdst).1, hc⟩

/-- the two pieces of a split block separate whatever the block did -/
theorem sep_pieces (d : Dfa) (x Y i dd : Block) (hi : i = binter x Y) (hd : dd = bdiff Y x) (l : Grapheme) (q q' : Nat)
    (h : Sep d Y l q q') : Sep d i l q q' ∨ Sep d dd l q q' := by
  by_cases h1 : Sep d i l q q'
  · exact Or.inl h1
  · by_cases h2 : Sep d dd l q q'
    · exact Or.inr h2
    · exfalso
      simp only [Sep, Classical.not_not] at h1 h2
      apply h
      rw [into_pieces d x Y i dd hi hd q l, into_pieces d x Y i dd hi hd q' l, h1, h2]

/-- whatever a member of the work list separated is still separated by a member afterwards -/
theorem updateW_keeps_r (d : Dfa) (x : Block) (rs : List (Block × Block × Block)) (hrs : ReplOf x rs) (l : Grapheme) (q q' : Nat) :
    ∀ (w : List Block), (∃ B ∈ w, Sep d B l q q') → ∃ B ∈ updateW w rs, Sep d B l q q' := by
  induction rs with
  | nil => intro w h; exact h
  | cons r rest ih =>
    intro w hw
    obtain ⟨y, i, dd⟩ := r
    have hr := hrs (y, i, dd) (List.mem_cons_self)
    simp only at hr
    have hrest : ReplOf x rest := fun r hr => hrs r (List.mem_cons_of_mem _ hr)
    obtain ⟨B, hB, hd⟩ := hw
    simp only [updateW]
    split
    · apply ih hrest
      rcases mem_removeFirst_or y w B hB with rfl | h
      · rcases sep_pieces d x B i dd hr.1 hr.2 l q q' hd with h1 | h1
        · exact ⟨i, by simp, h1⟩
        · exact ⟨dd, by simp, h1⟩
      · exact ⟨B, List.mem_append_left _ h, hd⟩
    · exact ih hrest _ ⟨B, List.mem_append_left _ hB, hd⟩

/-- both pieces of every block that was split are represented in the new work list -/
theorem updateW_new_r (d : Dfa) (x : Block) (rs : List (Block × Block × Block)) (hrs : ReplOf x rs) (l : Grapheme) (q q' : Nat) :
    ∀ (w : List Block) (r : Block × Block × Block), r ∈ rs → (Sep d r.2.1 l q q' ∨ Sep d r.2.2 l q q') →
      ∃ B ∈ updateW w rs, Sep d B l q q' := by
  induction rs with
  | nil => intro w r hr; simp at hr
  | cons r0 rest ih =>
    intro w r hr hsep
    obtain ⟨y, i, dd⟩ := r0
    have hrest : ReplOf x rest := fun r hr => hrs r (List.mem_cons_of_mem _ hr)
    simp only [List.mem_cons] at hr
    rcases hr with rfl | hr
    · simp only at hsep
      simp only [updateW]
      split
      · rcases hsep with h1 | h1
        · exact updateW_keeps_r d x rest hrest l q q' _ ⟨i, by simp, h1⟩
        · exact updateW_keeps_r d x rest hrest l q q' _ ⟨dd, by simp, h1⟩
      · rcases hsep with h1 | h1
        · exact updateW_keeps_r d x rest hrest l q q' _ ⟨i, by simp, h1⟩
        · exact updateW_keeps_r d x rest hrest l q q' _ ⟨dd, by simp, h1⟩
    · simp only [updateW]
      split
      · exact ih hrest _ r hr hsep
      · exact ih hrest _ r hr hsep

/-! ### the invariant of the refinement loop, for relations -/

/-- every separation inside a block (by a block of the partition, under a symbol of the alphabet) is witnessed by a
splitter in the work list -/
def InvR (d : Dfa) (p w : List Block) : Prop :=
  ∀ q q' l, l ∈ d.alphabet → SameBlock p q q' → (∃ A ∈ p, Sep d A l q q') → ∃ S ∈ w, Sep d S l q q'

/-- … or by the block `a` being processed, for the symbols still to come -/
def InvRA (d : Dfa) (p w : List Block) (a : Block) (todo : List Grapheme) : Prop :=
  ∀ q q' l, l ∈ d.alphabet → SameBlock p q q' → (∃ A ∈ p, Sep d A l q q') →
    (∃ S ∈ w, Sep d S l q q') ∨ (l ∈ todo ∧ Sep d a l q q')

theorem invRA_step {d : Dfa} (h : TreeR d) (p w : List Block) (a : Block) (l0 : Grapheme)
    (rest : List Grapheme) (hinv : InvRA d p w a (l0 :: rest)) :
    InvRA d (splitAll (parentStates d a l0) p).1 (updateW w (splitAll (parentStates d a l0) p).2) a rest := by
  intro q q' l hl hsame hdis
  have hx := splitAll_replOf (parentStates d a l0) p
  obtain ⟨hsame0, hxq⟩ := (splitAll_sameBlock _ p q q').mp hsame
  obtain ⟨A', hA', hsepA'⟩ := hdis
  obtain ⟨Y, hY, hform⟩ := (splitAll_blocks _ p A').mp hA'
  by_cases hold : Sep d Y l q q'
  · rcases hinv q q' l hl hsame0 ⟨Y, hY, hold⟩ with hw | ⟨hl', hda⟩
    · exact Or.inl (updateW_keeps_r d _ _ hx l q q' w hw)
    · simp only [List.mem_cons] at hl'
      rcases hl' with rfl | hl'
      · exfalso
        apply hda
        rw [← mem_parentStates_r h a l q, ← mem_parentStates_r h a l q']
        exact hxq
      · exact Or.inr ⟨hl', hda⟩
  · left
    rcases hform with ⟨_, rfl⟩ | ⟨hne, hpiece⟩
    · exact absurd hsepA' hold
    · have hr : (Y, binter (parentStates d a l0) Y, bdiff Y (parentStates d a l0)) ∈ (splitAll (parentStates d a l0) p).2 :=
        (splitAll_repl _ p _).mpr ⟨Y, hY, hne, rfl⟩
      apply updateW_new_r d _ _ hx l q q' w _ hr
      rcases hpiece with rfl | rfl
      · exact Or.inl hsepA'
      · exact Or.inr hsepA'

theorem refineByAlphabet_invR {d : Dfa} (h : TreeR d) (a : Block) (ls : List Grapheme) :
    ∀ (p w : List Block), InvRA d p w a ls →
      InvR d (refineByAlphabet d a ls (p, w)).1 (refineByAlphabet d a ls (p, w)).2 := by
  induction ls with
  | nil =>
    intro p w hinv q q' l hl hsame hdis
    rcases hinv q q' l hl hsame hdis with hw | ⟨hl', _⟩
    · exact hw
    · simp at hl'
  | cons l0 rest ih =>
    intro p w hinv
    simp only [refineByAlphabet]
    exact ih _ _ (invRA_step h p w a l0 rest hinv)

/-- **the refinement loop keeps the invariant; when the work list is empty no block separates two states of one block** -/
theorem refineLoop_invR {d : Dfa} (h : TreeR d) :
    ∀ (fuel : Nat) (p w : List Block), InvR d p w → ∀ p', refineLoop d fuel p w = some p' → InvR d p' [] := by
  intro fuel
  induction fuel with
  | zero =>
    intro p w hinv p' hp'
    cases w with
    | nil => simp only [refineLoop, Option.some.injEq] at hp'; subst hp'; exact hinv
    | cons a w => simp [refineLoop] at hp'
  | succ fuel ih =>
    intro p w hinv p' hp'
    cases w with
    | nil => simp only [refineLoop, Option.some.injEq] at hp'; subst hp'; exact hinv
    | cons a w =>
      simp only [refineLoop] at hp'
      apply ih _ _ _ p' hp'
      apply refineByAlphabet_invR h a d.alphabet
      intro q q' l hl hsame hdis
      obtain ⟨B, hB, hd⟩ := hinv q q' l hl hsame hdis
      simp only [List.mem_cons] at hB
      rcases hB with rfl | hB
      · exact Or.inr ⟨hl, hd⟩
      · exact Or.inl ⟨B, hB, hd⟩

theorem invR_initial (d : Dfa) (p : List Block) : InvR d p p := by
  intro q q' l _ _ hdis
  exact hdis

theorem invR_filter {d : Dfa} {p : List Block} (h : InvR d p []) : InvR d (p.filter fun b => !b.isEmpty) [] := by
  intro q q' l hl hsame hdis
  apply h q q' l hl ((sameBlock_filter p q q').mp hsame)
  obtain ⟨A, hA, hs⟩ := hdis
  exact ⟨A, (List.mem_filter.mp hA).1, hs⟩

/-- what `minimize` hands to `recreate_graph`, for relations -/
structure StableR (d : Dfa) (p : List Block) : Prop where
  pinv : PInv d p
  nonempty : ∀ B ∈ p, B ≠ []
  stable : ∀ q q' l, l ∈ d.alphabet → SameBlock p q q' → ∀ A ∈ p, (Into d q l A ↔ Into d q' l A)

/-- **the partition `minimize` computes is stable, for every tree-shaped automaton, whatever its labels** -/
theorem minimizePartition_stableR {d : Dfa} (h : TreeR d) : ∃ p, minimizePartition d = some p ∧ StableR d p := by
  obtain ⟨p', hp'⟩ := refineLoop_some d (minFuel d) (initialPartition d) (initialPartition d) (slack_initial d)
  have hpinv := refineLoop_pinv d _ _ _ (initial_pinv d) p' hp'
  have hinv := refineLoop_invR h _ _ _ (invR_initial d _) p' hp'
  refine ⟨p'.filter fun b => !b.isEmpty, by simp [minimizePartition, hp'], pinv_filter hpinv, ?_, ?_⟩
  · intro B hB
    have := (List.mem_filter.mp hB).2
    intro hc; subst hc; simp at this
  · intro q q' l hl hsame A hA
    have := invR_filter hinv q q' l hl hsame
    apply Classical.byContradiction
    intro hc
    obtain ⟨S, hS, _⟩ := this ⟨A, hA, hc⟩
    simp at hS

end Dfa
end Grexv
