import Grexv.Model.Format

/-!
# C15 — syntax highlighting only adds colour codes (component level)

`Gen.col*` are the SGR parameters generated from src/component.rs.  `stripColor` is the model of
the stripping regex `ESC \[ (?: \d+;\d+ | 0 ) m` that the code itself uses; the harness strips
with its own independent stripper.
-/
set_option linter.unusedSimpArgs false
set_option linter.unusedVariables false
namespace Grexv.ColorBasic
open Grexv

def genCodes : List Str :=
  [Gen.colBlackOnBrightYellow, Gen.colBrightYellowOnBlack, Gen.colCyanBold, Gen.colGreenBold,
   Gen.colPurpleBold, Gen.colRedBold, Gen.colWhiteOnBrightBlue, Gen.colYellowBold]

def isAsciiDigit (c : Nat) : Bool := 48 ≤ c && c ≤ 57

/-- `digits ; digits` -/
def sgrShape (code : Str) : Bool :=
  let d1 := code.takeWhile isAsciiDigit
  let r := code.dropWhile isAsciiDigit
  !d1.isEmpty && r.head? == some 59 && !(r.drop 1).isEmpty && (r.drop 1).all isAsciiDigit

/-- every colour the printer can emit is a two-parameter SGR sequence: exactly what the stripping
regex (and any SGR stripper) removes -/
theorem codes_shape : genCodes.all sgrShape = true := by decide

/-- without highlighting a component is its plain text -/
theorem paint_plain (code text : Str) : paint false code text = text := rfl

/-- with highlighting it is the text between one opening code and the reset code -/
theorem paint_colored (code text : Str) :
    paint true code text = [27, 91] ++ code ++ [109] ++ text ++ [27, 91, 48, 109] := rfl

theorem digit_member (c : Nat) (h : 48 ≤ c ∧ c ≤ 57) : Spec.perlMember .digit c = true := by
  obtain ⟨h1, h2⟩ := h
  have : c = 48 ∨ c = 49 ∨ c = 50 ∨ c = 51 ∨ c = 52 ∨ c = 53 ∨ c = 54 ∨ c = 55 ∨ c = 56 ∨ c = 57 := by omega
  rcases this with rfl | rfl | rfl | rfl | rfl | rfl | rfl | rfl | rfl | rfl <;> decide +kernel

theorem not_digit_59 : Spec.perlMember .digit 59 = false := by decide +kernel
theorem not_digit_109 : Spec.perlMember .digit 109 = false := by decide +kernel

/-- **C15 (reset code)** the stripper removes `ESC[0m` -/
theorem strip_reset (fuel : Nat) (s : Str) : stripColor (fuel + 1) (27 :: 91 :: 48 :: 109 :: s) = stripColor fuel s := by
  have h48 : Spec.perlMember .digit 48 = true := digit_member 48 (by omega)
  simp [stripColor, List.takeWhile, List.dropWhile, h48, not_digit_109]

/-- **C15 (opening codes)** the stripper removes the opening sequence of every generated colour -/
theorem strip_open (fuel : Nat) (s : Str) (code : Str) (h : code ∈ genCodes) :
    stripColor (fuel + 1) ([27, 91] ++ code ++ 109 :: s) = stripColor fuel s := by
  have d := fun c h => digit_member c h
  simp only [genCodes, List.mem_cons, List.mem_nil_iff, or_false] at h
  rcases h with rfl | rfl | rfl | rfl | rfl | rfl | rfl | rfl <;>
    simp [stripColor, List.takeWhile, List.dropWhile, Gen.colBlackOnBrightYellow, Gen.colBrightYellowOnBlack,
      Gen.colCyanBold, Gen.colGreenBold, Gen.colPurpleBold, Gen.colRedBold, Gen.colWhiteOnBrightBlue,
      Gen.colYellowBold, d 48 (by omega), d 49 (by omega), d 50 (by omega), d 51 (by omega), d 52 (by omega),
      d 53 (by omega), d 54 (by omega), d 55 (by omega), d 57 (by omega), not_digit_59, not_digit_109]

/-- text that is not an escape character is kept -/
theorem strip_other (fuel c : Nat) (s : Str) (h : c ≠ 27) : stripColor (fuel + 1) (c :: s) = c :: stripColor fuel s := by
  rw [stripColor]
  intro r hc _
  exact absurd hc h

/-- `[` is among the characters the literal printer escapes (generated `CHARS_TO_ESCAPE`) and among
those the class printer escapes, so text can never complete `ESC [` on its own -/
theorem bracket_always_escaped : Gen.charsToEscape.contains 91 = true ∧ Gen.classEscapeChars.contains 91 = true := by decide

/-! non-vacuity: a coloured caret strips to the caret -/
example : stripColor 40 (Comp.caret true false) = [94] := by decide +kernel
example : stripColor 40 (Comp.paren false true false false [97]) = strOf "(?:a)" := by decide +kernel

end Grexv.ColorBasic
