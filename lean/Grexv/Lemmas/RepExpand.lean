import Grexv.Model.Grapheme
import Grexv.Lemmas.Sort

/-
S4, `convert_repetitions`: whatever the thresholds, the converted cluster stands for the same sequence of
grapheme values as the cluster it was made from — every counted grapheme `(unit, n, n)` replaces exactly `n`
consecutive copies of its unit, and its nested repetitions, when present, are a converted form of that same unit.
-/
set_option linter.unusedSimpArgs false
set_option linter.unusedVariables false
namespace Grexv

/-- the values a grapheme stands for: its unit, `min` times (S4 only builds `min = max`) -/
def Grapheme.expand (g : Grapheme) : List Str := (List.replicate g.min g.chars).flatten

def expandAll (gs : Cluster) : List Str := gs.flatMap Grapheme.expand

theorem expand_ofStr (s : Str) : (Grapheme.ofStr s).expand = [s] := by
  simp [Grapheme.expand, Grapheme.ofStr, Grapheme.min, Grapheme.chars]

theorem expandAll_plain (ss : List Str) : expandAll (ss.map Grapheme.ofStr) = ss := by
  induction ss with
  | nil => rfl
  | cons s r ih =>
    simp only [expandAll, List.map_cons, List.flatMap_cons, expand_ofStr] at ih ⊢
    rw [ih]; rfl

theorem expandAll_append (a b : Cluster) : expandAll (a ++ b) = expandAll a ++ expandAll b := by
  simp [expandAll]

/-! ### A. the occurrences `collect_repeated_substrings` records are occurrences -/

/-- `p` occurs in `vals` at position `i` -/
def Occ (vals : List Str) (p : List Str) (i : Nat) : Prop := (vals.drop i).take p.length = p ∧ 1 ≤ p.length

def MapOK (vals : List Str) (m : SubMap) : Prop := ∀ kv ∈ m, ∀ i ∈ kv.2, Occ vals kv.1 i

theorem push_ok (vals : List Str) (m : SubMap) (k : List Str) (i : Nat) (hm : MapOK vals m) (hk : Occ vals k i) :
    MapOK vals (SubMap.push m k i) := by
  induction m with
  | nil =>
    intro kv hkv j hj
    simp only [SubMap.push, List.mem_singleton] at hkv
    subst hkv
    simp only [List.mem_singleton] at hj
    subst hj; exact hk
  | cons e rest ih =>
    obtain ⟨k', is⟩ := e
    simp only [SubMap.push]
    split
    · rename_i heq
      subst heq
      intro kv hkv j hj
      simp only [List.mem_cons] at hkv
      rcases hkv with rfl | hkv
      · simp only [List.mem_append, List.mem_singleton] at hj
        rcases hj with hj | rfl
        · exact hm (k', is) List.mem_cons_self j hj
        · exact hk
      · exact hm kv (List.mem_cons_of_mem _ hkv) j hj
    · intro kv hkv j hj
      simp only [List.mem_cons] at hkv
      rcases hkv with rfl | hkv
      · exact hm (k', is) List.mem_cons_self j hj
      · exact ih (fun x hx => hm x (List.mem_cons_of_mem _ hx)) kv hkv j hj

theorem collectRepeated_ok (vals : List Str) : MapOK vals (collectRepeated vals) := by
  unfold collectRepeated
  have inner : ∀ (i : Nat) (js : List Nat) (m : SubMap), MapOK vals m →
      MapOK vals (js.foldl (fun m j0 =>
        if (vals.drop i).length ≥ j0 + 1 then SubMap.push m ((vals.drop i).take (j0 + 1)) i else m) m) := by
    intro i js
    induction js with
    | nil => intro m hm; exact hm
    | cons j0 rest ih =>
      intro m hm
      simp only [List.foldl_cons]
      apply ih
      split
      · rename_i hlen
        apply push_ok vals m _ i hm
        refine ⟨?_, ?_⟩
        · simp [List.length_take, Nat.min_eq_left hlen]
        · rw [List.length_take, Nat.min_eq_left hlen]; omega
      · exact hm
  have outer : ∀ (is : List Nat) (m : SubMap), MapOK vals m →
      MapOK vals (is.foldl (fun m i =>
        (List.range (vals.length / 2)).foldl (fun m j0 =>
          if (vals.drop i).length ≥ j0 + 1 then SubMap.push m ((vals.drop i).take (j0 + 1)) i else m) m) m) := by
    intro is
    induction is with
    | nil => intro m hm; exact hm
    | cons i rest ih =>
      intro m hm
      simp only [List.foldl_cons]
      exact ih _ (inner i _ m hm)
  exact outer _ [] (fun kv hkv => by simp at hkv)

/-! ### B. the ranges `create_ranges_of_repetitions` builds are tiled by their unit -/

/-- `[a, b)` consists of `n ≥ 1` consecutive occurrences of `p` -/
def Tiles (vals : List Str) (p : List Str) (a b : Nat) : Prop :=
  ∃ n, 1 ≤ n ∧ b = a + n * p.length ∧ 1 ≤ p.length ∧ ∀ t, t < n → Occ vals p (a + t * p.length)

theorem occ_bound (vals p : List Str) (i : Nat) (h : Occ vals p i) : i + p.length ≤ vals.length := by
  obtain ⟨h1, _⟩ := h
  have := congrArg List.length h1
  simp only [List.length_take, List.length_drop] at this
  omega

theorem tiles_take (vals p : List Str) : ∀ (n a : Nat), (∀ t, t < n → Occ vals p (a + t * p.length)) →
    (vals.drop a).take (n * p.length) = (List.replicate n p).flatten := by
  intro n
  induction n with
  | zero => intro a _; simp
  | succ n ih =>
    intro a h
    have h0 := h 0 (by omega)
    simp only [Nat.zero_mul, Nat.add_zero] at h0
    have hrest := ih (a + p.length) (fun t ht => by
      have := h (t + 1) (by omega)
      have e : a + (t + 1) * p.length = a + p.length + t * p.length := by rw [Nat.add_mul]; omega
      rw [e] at this; exact this)
    have e1 : (n + 1) * p.length = p.length + n * p.length := by rw [Nat.add_mul]; omega
    rw [e1, List.take_add, h0.1, List.drop_drop, hrest, List.replicate_succ, List.flatten_cons]

theorem tiles_merge (vals p : List Str) (a b c : Nat) (h1 : Tiles vals p a b) (h2 : Tiles vals p b c) : Tiles vals p a c := by
  obtain ⟨n1, hn1, hb, hl, ho1⟩ := h1
  obtain ⟨n2, hn2, hc, _, ho2⟩ := h2
  refine ⟨n1 + n2, by omega, by rw [hc, hb, Nat.add_mul]; omega, hl, ?_⟩
  intro t ht
  by_cases h : t < n1
  · exact ho1 t h
  · have := ho2 (t - n1) (by omega)
    have e : b + (t - n1) * p.length = a + t * p.length := by
      rw [hb]
      have : t = n1 + (t - n1) := by omega
      conv => rhs; rw [this, Nat.add_mul]
      omega
    rw [e] at this; exact this

theorem coalesceAdjAux_tiles (vals p : List Str) : ∀ (rest : List (Nat × Nat)) (cur : Nat × Nat),
    Tiles vals p cur.1 cur.2 → (∀ y ∈ rest, Tiles vals p y.1 y.2) →
    ∀ r ∈ coalesceAdjAux cur rest, Tiles vals p r.1 r.2 := by
  intro rest
  induction rest with
  | nil => intro cur hc _ r hr; simp only [coalesceAdjAux, List.mem_singleton] at hr; subst hr; exact hc
  | cons y rest ih =>
    intro cur hc hrest r hr
    simp only [coalesceAdjAux] at hr
    have hy := hrest y List.mem_cons_self
    have hr' : ∀ z ∈ rest, Tiles vals p z.1 z.2 := fun z hz => hrest z (List.mem_cons_of_mem _ hz)
    split at hr
    · rename_i heq
      apply ih (cur.1, y.2) _ hr' r hr
      simp only []
      rw [← heq] at hy
      exact tiles_merge vals p _ _ _ hc hy
    · simp only [List.mem_cons] at hr
      rcases hr with rfl | hr
      · exact hc
      · exact ih y hy hr' r hr

theorem coalesceAdj_tiles (vals p : List Str) (l : List (Nat × Nat)) (h : ∀ y ∈ l, Tiles vals p y.1 y.2) :
    ∀ r ∈ coalesceAdj l, Tiles vals p r.1 r.2 := by
  cases l with
  | nil => intro r hr; simp [coalesceAdj] at hr
  | cons x xs =>
    simp only [coalesceAdj]
    exact coalesceAdjAux_tiles vals p xs x (h x List.mem_cons_self) (fun y hy => h y (List.mem_cons_of_mem _ hy))

theorem createRanges_tiles (cfg : Config) (vals : List Str) (m : SubMap) (hm : MapOK vals m) :
    ∀ rp ∈ createRanges cfg m, Tiles vals rp.2 rp.1.1 rp.1.2 := by
  intro rp hrp
  simp only [createRanges, List.mem_flatMap, List.mem_map, List.mem_filter] at hrp
  obtain ⟨kv, hkv, r, ⟨hr, _⟩, rfl⟩ := hrp
  have hkvm : kv ∈ m := by
    have := (mem_sortBy _ kv _).mp hkv
    exact (List.mem_filter.mp this).1
  obtain ⟨p, is⟩ := kv
  simp only at hr ⊢
  apply coalesceAdj_tiles vals p _ _ r hr
  intro y hy
  obtain ⟨i, hi, rfl⟩ := List.mem_map.mp hy
  have ho := hm (p, is) hkvm i hi
  exact ⟨1, Nat.le_refl _, by simp, ho.2, fun t ht => by
    have : t = 0 := by omega
    subst this; simpa using ho⟩

/-! ### C. `coalesce_repetitions` keeps a chain of ranges, each to the left of the one before -/

def repLe (a b : RepRange) : Bool := decide (a.1.2 > b.1.2) || (a.1.2 == b.1.2 && decide (a.1.1 ≤ b.1.1))

theorem repLe_total (a b : RepRange) : repLe a b = true ∨ repLe b a = true := by
  simp only [repLe, Bool.or_eq_true, decide_eq_true_eq, Bool.and_eq_true, beq_iff_eq]
  omega

theorem repLe_trans (a b c : RepRange) (h1 : repLe a b = true) (h2 : repLe b c = true) : repLe a c = true := by
  simp only [repLe, Bool.or_eq_true, decide_eq_true_eq, Bool.and_eq_true, beq_iff_eq] at *
  omega

def Chain : List RepRange → Prop
  | [] => True
  | [_] => True
  | x :: y :: r => y.1.2 ≤ x.1.1 ∧ Chain (y :: r)

theorem coalesceOverlapAux_head (cur : RepRange) (rest : List RepRange) : ∃ t, coalesceOverlapAux cur rest = cur :: t := by
  induction rest generalizing cur with
  | nil => exact ⟨[], rfl⟩
  | cons y rest ih =>
    simp only [coalesceOverlapAux]
    split
    · exact ih cur
    · exact ⟨_, rfl⟩

theorem coalesceOverlapAux_mem (cur : RepRange) (rest : List RepRange) :
    ∀ r ∈ coalesceOverlapAux cur rest, r = cur ∨ r ∈ rest := by
  induction rest generalizing cur with
  | nil => intro r hr; simp only [coalesceOverlapAux, List.mem_singleton] at hr; exact Or.inl hr
  | cons y rest ih =>
    intro r hr
    simp only [coalesceOverlapAux] at hr
    split at hr
    · rcases ih cur r hr with h | h
      · exact Or.inl h
      · exact Or.inr (List.mem_cons_of_mem _ h)
    · simp only [List.mem_cons] at hr
      rcases hr with rfl | hr
      · exact Or.inl rfl
      · rcases ih y r hr with h | h
        · exact Or.inr (by rw [h]; exact List.mem_cons_self)
        · exact Or.inr (List.mem_cons_of_mem _ h)

theorem coalesceOverlapAux_chain : ∀ (rest : List RepRange) (cur : RepRange),
    cur.1.1 < cur.1.2 → (∀ y ∈ rest, y.1.1 < y.1.2) → (∀ y ∈ rest, repLe cur y = true) →
    rest.Pairwise (fun a b => repLe a b = true) → Chain (coalesceOverlapAux cur rest) := by
  intro rest
  induction rest with
  | nil => intro cur _ _ _ _; simp [coalesceOverlapAux, Chain]
  | cons y rest ih =>
    intro cur hc hne hle hpw
    rw [List.pairwise_cons] at hpw
    have hy := hne y List.mem_cons_self
    have hne' : ∀ z ∈ rest, z.1.1 < z.1.2 := fun z hz => hne z (List.mem_cons_of_mem _ hz)
    simp only [coalesceOverlapAux]
    split
    · exact ih cur hc hne' (fun z hz => hle z (List.mem_cons_of_mem _ hz)) hpw.2
    · rename_i hno
      obtain ⟨t, ht⟩ := coalesceOverlapAux_head y rest
      have hch := ih y hy hne' hpw.1 hpw.2
      rw [ht] at hch ⊢
      refine ⟨?_, hch⟩
      -- `y` does not overlap `cur` and comes after it in the order: it lies to its left
      have hlecy := hle y List.mem_cons_self
      simp only [repLe, rangeContains, Bool.or_eq_true, decide_eq_true_eq, Bool.and_eq_true, beq_iff_eq, bne_iff_ne, ne_eq,
        not_and, Decidable.not_not, not_or] at hno hlecy
      by_cases he : y.1.2 = cur.1.1
      · omega
      · have := hno
        by_cases h1 : cur.1.1 ≤ y.1.1 ∧ y.1.1 < cur.1.2
        · exact absurd (this (Or.inl h1)) he
        · by_cases h2 : cur.1.1 ≤ y.1.2 ∧ y.1.2 < cur.1.2
          · exact absurd (this (Or.inr h2)) he
          · omega

theorem coalesceRepetitions_spec (rs : List RepRange) (hne : ∀ r ∈ rs, r.1.1 < r.1.2) :
    Chain (coalesceRepetitions rs) ∧ ∀ r ∈ coalesceRepetitions rs, r ∈ rs := by
  unfold coalesceRepetitions
  have hs := sortBy_sorted repLe repLe_total repLe_trans rs
  have hmem : ∀ r, r ∈ sortBy repLe rs ↔ r ∈ rs := fun r => mem_sortBy repLe r rs
  have hfun : (fun (a b : RepRange) => decide (a.1.2 > b.1.2) || (a.1.2 == b.1.2 && decide (a.1.1 ≤ b.1.1))) = repLe := rfl
  rw [hfun]
  generalize sortBy repLe rs = l at hs hmem
  cases l with
  | nil => exact ⟨by simp [coalesceOverlap, Chain], by intro r hr; simp [coalesceOverlap] at hr⟩
  | cons x xs =>
    rw [List.pairwise_cons] at hs
    simp only [coalesceOverlap]
    refine ⟨coalesceOverlapAux_chain xs x (hne x ((hmem x).mp List.mem_cons_self))
      (fun y hy => hne y ((hmem y).mp (List.mem_cons_of_mem _ hy))) hs.1 hs.2, ?_⟩
    intro r hr
    rcases coalesceOverlapAux_mem x xs r hr with rfl | h
    · exact (hmem _).mp List.mem_cons_self
    · exact (hmem r).mp (List.mem_cons_of_mem _ h)

/-! ### D. the splice loop keeps the expansion -/

theorem take_eq_of_le {α : Type} (acc P : List α) (B a : Nat) (h : acc.take B = P.take B) (ha : a ≤ B) : acc.take a = P.take a := by
  have h1 : (acc.take B).take a = acc.take a := by rw [List.take_take, Nat.min_eq_left ha]
  have h2 : (P.take B).take a = P.take a := by rw [List.take_take, Nat.min_eq_left ha]
  rw [← h1, ← h2, h]

theorem slice_eq {α : Type} (acc P : List α) (B a b : Nat) (h : acc.take B = P.take B) (hb : b ≤ B) :
    (acc.drop a).take (b - a) = (P.drop a).take (b - a) := by
  rw [← List.drop_take, ← List.drop_take, take_eq_of_le acc P B b h hb]

theorem chain_all_left : ∀ (rest : List RepRange) (x : RepRange), Chain (x :: rest) → (∀ y ∈ rest, y.1.1 < y.1.2) →
    ∀ y ∈ rest, y.1.2 ≤ x.1.1 := by
  intro rest
  induction rest with
  | nil => intro x _ _ y hy; simp at hy
  | cons z rest ih =>
    intro x hc hne y hy
    obtain ⟨h1, h2⟩ := hc
    simp only [List.mem_cons] at hy
    rcases hy with rfl | hy
    · exact h1
    · have := ih z h2 (fun w hw => hne w (List.mem_cons_of_mem _ hw)) y hy
      have := hne z List.mem_cons_self
      omega

theorem chain_tail (x : RepRange) (rest : List RepRange) (h : Chain (x :: rest)) : Chain rest := by
  cases rest with
  | nil => trivial
  | cons y r => exact h.2

theorem tiles_nonempty (vals p : List Str) (a b : Nat) (h : Tiles vals p a b) : a < b ∧ b ≤ vals.length := by
  obtain ⟨n, hn, hb, hl, ho⟩ := h
  have hlast := occ_bound vals p _ (ho (n - 1) (by omega))
  have : 1 ≤ n * p.length := Nat.mul_le_mul hn hl
  refine ⟨by omega, ?_⟩
  have e : a + (n - 1) * p.length + p.length = a + n * p.length := by
    have : n = (n - 1) + 1 := by omega
    conv => rhs; rw [this, Nat.add_mul]
    omega
  omega

theorem spliceLoop_expand (cfg : Config) (ss : List Str) :
    ∀ (rs : List RepRange) (acc : Cluster) (B : Nat),
      Chain rs → (∀ rp ∈ rs, Tiles ss rp.2 rp.1.1 rp.1.2) → (∀ rp ∈ rs, rp.1.2 ≤ B) →
      acc.take B = (ss.map Grapheme.ofStr).take B → expandAll acc = ss →
      expandAll (spliceLoop cfg rs acc) = ss := by
  intro rs
  induction rs with
  | nil => intro acc B _ _ _ _ he; simpa [spliceLoop] using he
  | cons rp rest ih =>
    intro acc B hch ht hB hpre he
    obtain ⟨r, substr⟩ := rp
    have htile := ht (r, substr) List.mem_cons_self
    have hrest_t : ∀ x ∈ rest, Tiles ss x.2 x.1.1 x.1.2 := fun x hx => ht x (List.mem_cons_of_mem _ hx)
    have hrest_ne : ∀ x ∈ rest, x.1.1 < x.1.2 := fun x hx => (tiles_nonempty ss _ _ _ (hrest_t x hx)).1
    have hleft := chain_all_left rest (r, substr) hch hrest_ne
    simp only [spliceLoop]
    split
    · exact he
    · rename_i hlen
      split
      · exact ih acc B (chain_tail _ _ hch) hrest_t (fun x hx => hB x (List.mem_cons_of_mem _ hx)) hpre he
      · -- the splice
        have hrB : r.2 ≤ B := hB (r, substr) List.mem_cons_self
        obtain ⟨hlt, _⟩ := tiles_nonempty ss substr r.1 r.2 htile
        obtain ⟨n, hn, hb, hl, ho⟩ := htile
        simp only at hb hlt hleft
        have hdiff : r.2 - r.1 = n * substr.length := by rw [hb]; exact Nat.add_sub_cancel_left _ _
        have hcount : (r.2 - r.1) / substr.length = n := by
          rw [hdiff, Nat.mul_div_cancel _ (Nat.lt_of_lt_of_le Nat.zero_lt_one hl)]
        have hr2 : r.2 ≤ acc.length := by omega
        apply ih _ r.1 (chain_tail _ _ hch) hrest_t (fun x hx => hleft x hx)
        · -- the prefix before the splice is untouched
          simp only [splice, List.append_assoc]
          rw [List.take_append_of_le_length (by rw [List.length_take]; omega), List.take_take, Nat.min_self]
          exact take_eq_of_le acc _ B r.1 hpre (by omega)
        · -- the expansion is unchanged
          have hsplit : acc = acc.take r.1 ++ ((acc.drop r.1).take (r.2 - r.1) ++ acc.drop r.2) := by
            have h1 : acc = acc.take r.1 ++ acc.drop r.1 := (List.take_append_drop r.1 acc).symm
            have h2 : acc.drop r.1 = (acc.drop r.1).take (r.2 - r.1) ++ (acc.drop r.1).drop (r.2 - r.1) :=
              (List.take_append_drop _ _).symm
            have h3 : (acc.drop r.1).drop (r.2 - r.1) = acc.drop r.2 := by
              rw [List.drop_drop]; congr 1; omega
            rw [h3] at h2
            conv => lhs; rw [h1, h2]
          have hmid : (acc.drop r.1).take (r.2 - r.1) = ((ss.drop r.1).take (r.2 - r.1)).map Grapheme.ofStr := by
            rw [slice_eq acc (ss.map Grapheme.ofStr) B r.1 r.2 hpre hrB, ← List.map_drop, ← List.map_take]
          have hvals : (ss.drop r.1).take (r.2 - r.1) = (List.replicate n substr).flatten := by
            rw [hdiff]
            exact tiles_take ss substr n r.1 ho
          have hE : expandAll ((acc.drop r.1).take (r.2 - r.1)) = (List.replicate n substr).flatten := by
            rw [hmid, expandAll_plain, hvals]
          have hG : (Grapheme.mk substr [] ((r.2 - r.1) / substr.length) ((r.2 - r.1) / substr.length)).expand =
              (List.replicate n substr).flatten := by
            simp [Grapheme.expand, Grapheme.min, Grapheme.chars, hcount]
          rw [hsplit] at he
          simp only [expandAll_append] at he
          simp only [splice, expandAll_append, List.append_assoc]
          rw [hE] at he
          have : expandAll [Grapheme.mk substr [] ((r.2 - r.1) / substr.length) ((r.2 - r.1) / substr.length)] =
              (List.replicate n substr).flatten := by
            simp only [expandAll, List.flatMap_cons, List.flatMap_nil, List.append_nil, hG]
          rw [this]
          exact he

/-! ### E. nesting, recursion, and the theorem -/

theorem nestWith_expand (f : Cluster → Option Cluster) (gs : Cluster) : expandAll (nestWith f gs) = expandAll gs := by
  induction gs with
  | nil => rfl
  | cons g rest ih =>
    simp only [nestWith, List.map_cons, expandAll, List.flatMap_cons] at ih ⊢
    rw [ih]
    rfl

mutual
/-- the nested repetitions of a grapheme, when present, are a converted form of its own unit -/
def Grapheme.Consistent : Grapheme → Prop
  | .mk chars reps _ _ => reps = [] ∨ (expandAll reps = chars ∧ ConsistentL reps)
def ConsistentL : List Grapheme → Prop
  | [] => True
  | g :: gs => Grapheme.Consistent g ∧ ConsistentL gs
end

theorem consistentL_iff (gs : List Grapheme) : ConsistentL gs ↔ ∀ g ∈ gs, g.Consistent := by
  induction gs with
  | nil => simp [ConsistentL]
  | cons g rest ih => simp [ConsistentL, ih]

theorem spliceLoop_reps_nil (cfg : Config) : ∀ (rs : List RepRange) (acc : Cluster), (∀ g ∈ acc, g.reps = []) →
    ∀ g ∈ spliceLoop cfg rs acc, g.reps = [] := by
  intro rs
  induction rs with
  | nil => intro acc h; simpa [spliceLoop] using h
  | cons rp rest ih =>
    intro acc h
    obtain ⟨r, substr⟩ := rp
    simp only [spliceLoop]
    split
    · exact h
    · split
      · exact ih acc h
      · apply ih
        intro g hg
        simp only [splice, List.mem_append, List.mem_cons, List.mem_nil_iff, or_false] at hg
        rcases hg with (hg | hg) | hg
        · exact h g (List.mem_of_mem_take hg)
        · subst hg; rfl
        · exact h g (List.mem_of_mem_drop hg)

theorem map_value_plain (ss : List Str) : (ss.map Grapheme.ofStr).map Grapheme.value = ss := by
  induction ss with
  | nil => rfl
  | cons s r ih =>
    simp only [List.map_cons, List.map_map] at ih ⊢
    rw [ih]
    have : (Grapheme.ofStr s).value = s := by
      show [s].flatten = s
      simp
    simp [Function.comp, this]

/-- **S4 at every recursion depth** -/
theorem convertRepsAux_spec (cfg : Config) : ∀ (fuel : Nat) (ss : List Str) (res : Cluster),
    convertRepsAux cfg fuel (ss.map Grapheme.ofStr) = some res → expandAll res = ss ∧ ConsistentL res := by
  intro fuel
  induction fuel with
  | zero => intro ss res h; simp [convertRepsAux] at h
  | succ f ih =>
    intro ss res h
    simp only [convertRepsAux] at h
    split at h
    · simp at h
    · simp only [Option.some.injEq] at h
      subst h
      rw [map_value_plain]
      have hok := collectRepeated_ok ss
      have htiles := createRanges_tiles cfg ss _ hok
      have hne : ∀ r ∈ createRanges cfg (collectRepeated ss), r.1.1 < r.1.2 :=
        fun r hr => (tiles_nonempty ss _ _ _ (htiles r hr)).1
      obtain ⟨hchain, hsub⟩ := coalesceRepetitions_spec _ hne
      have ht2 : ∀ rp ∈ coalesceRepetitions (createRanges cfg (collectRepeated ss)), Tiles ss rp.2 rp.1.1 rp.1.2 :=
        fun rp hrp => htiles rp (hsub rp hrp)
      constructor
      · rw [nestWith_expand]
        apply spliceLoop_expand cfg ss _ _ (ss.map Grapheme.ofStr).length hchain ht2
        · intro rp hrp
          have := (tiles_nonempty ss _ _ _ (ht2 rp hrp)).2
          simpa using this
        · rfl
        · exact expandAll_plain ss
      · rw [consistentL_iff]
        intro g hg
        simp only [nestWith, List.mem_map] at hg
        obtain ⟨g0, hg0, rfl⟩ := hg
        have hreps0 : g0.reps = [] := spliceLoop_reps_nil cfg _ _ (by
          intro x hx
          obtain ⟨s, _, rfl⟩ := List.mem_map.mp hx
          rfl) g0 hg0
        simp only [Grapheme.Consistent]
        cases hf : convertRepsAux cfg f (g0.chars.map Grapheme.ofStr) with
        | none => left; simp [hreps0]
        | some r =>
          right
          simpa using ih g0.chars r hf

/-- **S4 (`convert_repetitions` is exact)** for every cluster of plain graphemes and every pair of thresholds: the
converted cluster stands for the same sequence of grapheme values, and every nested repetition is a converted form of
the unit it sits in — the conversion of a single test case is a notation change only -/
theorem convertRepetitions_exact (cfg : Config) (ss : List Str) :
    expandAll (convertRepetitions cfg (ss.map Grapheme.ofStr)) = ss ∧ ConsistentL (convertRepetitions cfg (ss.map Grapheme.ofStr)) := by
  unfold convertRepetitions
  cases h : convertRepsAux cfg ((ss.map Grapheme.ofStr).length + 1) (ss.map Grapheme.ofStr) with
  | some res => simpa using convertRepsAux_spec cfg _ ss res h
  | none =>
    simp only [Option.getD_none]
    refine ⟨expandAll_plain ss, ?_⟩
    rw [consistentL_iff]
    intro g hg
    obtain ⟨s, _, rfl⟩ := List.mem_map.mp hg
    left; rfl

end Grexv
