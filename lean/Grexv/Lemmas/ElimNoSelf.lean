import Grexv.Lemmas.ElimInit

/-
S7: on an acyclic automaton the elimination loop of `Expression::from` never meets a self loop, so its
Kleene-star branch is dead code there.  Invariant: a cell of the matrix that is `Some` stands for a
non-empty path between the two states.
-/
set_option linter.unusedSimpArgs false
set_option linter.unusedVariables false
namespace Grexv
open Expr

theorem union_isSome (cfg : Config) (a b : Option Expr) (h : (union cfg a b).isSome = true) :
    a.isSome = true ∨ b.isSome = true := by
  cases a <;> cases b <;> simp [union] at h ⊢

theorem concatenate_isSome (a b : Option Expr) (h : (concatenate a b).isSome = true) :
    a.isSome = true ∧ b.isSome = true := by
  cases a <;> cases b <;> simp [concatenate] at h ⊢

def EdgeSys (d : Dfa) (states : List Nat) (A : Nat → Nat → Option Expr) : Prop :=
  ∀ i j, (A i j).isSome = true →
    ∃ s t w, states[i]? = some s ∧ states[j]? = some t ∧ w ≠ [] ∧ Dfa.Path d s w t

theorem edgeSys_step (cfg : Config) (d : Dfa) (states : List Nat) (n : Nat) (A : Nat → Nat → Option Expr)
    (h : EdgeSys d states A) : EdgeSys d states (stepA cfg n A) := by
  intro i j hs
  simp only [stepA] at hs
  split at hs
  · rcases union_isSome cfg _ _ hs with h1 | h1
    · exact h i j h1
    · obtain ⟨h2, h3⟩ := concatenate_isSome _ _ h1
      obtain ⟨s, t, w, hs1, ht1, hw, p1⟩ := h i n h2
      obtain ⟨s2, t2, w2, hs2, ht2, hw2, p2⟩ := h n j h3
      rw [ht1] at hs2
      simp only [Option.some.injEq] at hs2
      subst hs2
      exact ⟨s, t2, w ++ w2, hs1, ht2, by simp [hw], Dfa.Path.append p1 p2⟩
  · exact h i j hs

/-- **no self loop is ever met on an acyclic automaton** -/
theorem noSelfAlong_of_acyclic (cfg : Config) (d : Dfa) (states : List Nat)
    (hacyc : ∀ c w, Dfa.Path d c w c → w = []) (N : Nat) :
    ∀ (k : Nat), k ≤ N → ∀ (st : ElimState), StSq N st → EdgeSys d states (absA st) →
      NoSelfAlong cfg st (List.range k).reverse := by
  intro k
  induction k with
  | zero => intro _ st _ _; simp [NoSelfAlong]
  | succ k ih =>
    intro hk st hst hes
    rw [range_succ_reverse]
    have hself : st.a.get k k = none := by
      cases hc : st.a.get k k with
      | none => rfl
      | some x =>
        exfalso
        obtain ⟨s, t, w, hs, ht, hw, pth⟩ := hes k k (by simp [absA, hc])
        rw [hs] at ht
        simp only [Option.some.injEq] at ht
        subst ht
        exact hw (hacyc s w pth)
    refine ⟨hself, ?_⟩
    obtain ⟨hst', hA, _⟩ := elimStep_abs cfg N k st hst (by omega) hself
    have hfunA : absA (elimStep cfg st k) = stepA cfg k (absA st) := by
      funext i j; exact hA i j
    apply ih (by omega) _ hst'
    rw [hfunA]
    exact edgeSys_step cfg d states k _ hes

/-! ### the initial matrix -/

theorem initRow_isSome (cfg : Config) (N : Nat) (states : List Nat) (i : Nat) (es : List Edge) :
    ∀ (a : Mat), a.Sq N →
      (initRow cfg states i es a).Sq N ∧
      ∀ i' j', ((initRow cfg states i es a).get i' j').isSome = true →
        ((a.get i' j').isSome = true ∨ (i' = i ∧ ∃ e ∈ es, indexOf? states e.dst = some j')) := by
  induction es with
  | nil => intro a hsq; exact ⟨hsq, by intro i' j' h; exact Or.inl h⟩
  | cons e rest ih =>
    intro a hsq
    have hstep : initRow cfg states i (e :: rest) a =
        initRow cfg states i rest (match indexOf? states e.dst with
          | some j => a.set i j (if (a.get i j).isSome then Expr.union cfg (a.get i j) (some (Expr.lit [e.label])) else some (Expr.lit [e.label]))
          | none => a) := by
      rfl
    rw [hstep]
    cases hidx : indexOf? states e.dst with
    | none =>
      simp only []
      obtain ⟨h1, h2⟩ := ih a hsq
      refine ⟨h1, ?_⟩
      intro i' j' h
      rcases h2 i' j' h with h | ⟨rfl, x, hx, hxi⟩
      · exact Or.inl h
      · exact Or.inr ⟨rfl, x, List.mem_cons_of_mem _ hx, hxi⟩
    | some j =>
      simp only []
      obtain ⟨h1, h2⟩ := ih _ (Mat.sq_set hsq i j _)
      refine ⟨h1, ?_⟩
      intro i' j' h
      rcases h2 i' j' h with h | ⟨rfl, x, hx, hxi⟩
      · rw [Mat.get_set hsq] at h
        split at h
        · rename_i hc
          obtain ⟨rfl, rfl, _, _⟩ := hc
          exact Or.inr ⟨rfl, e, List.mem_cons_self, hidx⟩
        · exact Or.inl h
      · exact Or.inr ⟨rfl, x, List.mem_cons_of_mem _ hx, hxi⟩

theorem initLoop_isSome (cfg : Config) (d : Dfa) (N : Nat) (states : List Nat) :
    ∀ (rest : List Nat) (k : Nat) (st : ElimState), st.a.Sq N →
      ((rest.zipIdx k).foldl (initStep cfg d states) st).a.Sq N ∧
      ∀ i j, (((rest.zipIdx k).foldl (initStep cfg d states) st).a.get i j).isSome = true →
        ((st.a.get i j).isSome = true ∨
          ∃ s, (s, i) ∈ rest.zipIdx k ∧ ∃ e ∈ d.outEdges s, indexOf? states e.dst = some j) := by
  intro rest
  induction rest with
  | nil => intro k st hsq; exact ⟨hsq, by intro i j h; exact Or.inl h⟩
  | cons s rest ih =>
    intro k st hsq
    simp only [List.zipIdx_cons, List.foldl_cons]
    obtain ⟨r1, r2⟩ := initRow_isSome cfg N states k (d.outEdges s) st.a hsq
    have ha : (initStep cfg d states st (s, k)).a = initRow cfg states k (d.outEdges s) st.a := rfl
    obtain ⟨q1, q2⟩ := ih (k + 1) (initStep cfg d states st (s, k)) (by rw [ha]; exact r1)
    refine ⟨q1, ?_⟩
    intro i j h
    rcases q2 i j h with h | ⟨s', hs', e, he, hi⟩
    · rw [ha] at h
      rcases r2 i j h with h | ⟨rfl, e, he, hi⟩
      · exact Or.inl h
      · exact Or.inr ⟨s, by simp, e, he, hi⟩
    · exact Or.inr ⟨s', by simp [hs'], e, he, hi⟩

/-- the initial matrix only has cells for edges -/
theorem init_edgeSys (cfg : Config) (d : Dfa) (states : List Nat) : EdgeSys d states (absA (elimInit cfg d states)) := by
  intro i j h
  simp only [absA, elimInit] at h
  obtain ⟨_, q⟩ := initLoop_isSome cfg d d.nodes states states 0
    { a := Array.replicate d.nodes (Array.replicate d.nodes none), b := Array.replicate d.nodes none } (Mat.sq_replicate d.nodes)
  rcases q i j h with h | ⟨s, hs, e, he, hi⟩
  · simp [Mat.get_replicate] at h
  · have hs2 : states[i]? = some s := by simpa [List.mem_zipIdx_iff_getElem?] using hs
    obtain ⟨_, hjget⟩ := indexOf?_lt states e.dst j hi
    have he' := (mem_outEdges d s e).mp he
    exact ⟨s, e.dst, [e.label], hs2, hjget, by simp, Dfa.Path.cons e he'.1 he'.2 (Dfa.Path.nil _)⟩

/-- **S7, acyclic input** the expression left in `b[0]` denotes exactly the words accepted from the initial
state, for every acyclic automaton with plain labels and a closed depth-first order -/
theorem elimination_lang_acyclic (cfg : Config) (d : Dfa) (hd : d.PlainLabels) (hN : 1 ≤ d.nodes) (hdfs : DfsOK d d.dfs)
    (hacyc : ∀ c w, Dfa.Path d c w c → w = []) (w : Word) :
    olang (((List.range d.nodes).reverse.foldl (elimStep cfg) (elimInit cfg d d.dfs)).b.get 0) w ↔ d.LangFrom d.init w := by
  obtain ⟨h1, _, _⟩ := init_system cfg d hd d.dfs hdfs
  exact elimination_lang cfg d hd hN hdfs
    (noSelfAlong_of_acyclic cfg d d.dfs hacyc d.nodes d.nodes (Nat.le_refl _) _ h1 (init_edgeSys cfg d d.dfs)) w

end Grexv
