import Grexv.Lemmas.SingleEsc
import Grexv.Lemmas.PrintParse
import Grexv.Lemmas.SpecSemRep

/-
A counted grapheme, printed and read back: `Display for Grapheme` writes `x{n}`, `x{m,n}`, `(?:unit){n}` or `(?:unit){m,n}`, and the
parser reads exactly the repetition of the unit with those bounds.
-/
set_option linter.unusedSimpArgs false
set_option linter.unusedVariables false
namespace Grexv
open Spec

/-- one round of the parser loop on `{n}` -/
theorem step_counted (n : Nat) (hn : n ≤ 1000) (f : Nat) (rest : List Nat) (h : rest.head? ≠ some 63) (p : Pat) (hp : Quantifiable p)
    (ps : List Pat) (st : List Frame) (al : List Pat) :
    parseLoop false (f + 1) (123 :: (toDec n ++ 125 :: rest)) st al (p :: ps) =
      parseLoop false f rest st al (Pat.rep p n (some n) true :: ps) := by
  cases p with
  | bol => exact absurd rfl hp.1
  | eol => exact absurd rfl hp.2
  | _ =>
    rw [parseLoop]
    simp only [skipSpace_false, parseCounted_exact n hn rest]
    simp
    split
    · simp at h
    · rfl

/-- one round of the parser loop on `{m,n}` -/
theorem step_counted_range (m n : Nat) (hmn : m ≤ n) (hn : n < 10 ^ 64) (f : Nat) (rest : List Nat) (h : rest.head? ≠ some 63)
    (p : Pat) (hp : Quantifiable p) (ps : List Pat) (st : List Frame) (al : List Pat) :
    parseLoop false (f + 1) (123 :: (toDec m ++ 44 :: (toDec n ++ 125 :: rest))) st al (p :: ps) =
      parseLoop false f rest st al (Pat.rep p m (some n) true :: ps) := by
  cases p with
  | bol => exact absurd rfl hp.1
  | eol => exact absurd rfl hp.2
  | _ =>
    rw [parseLoop]
    simp only [skipSpace_false, parseCounted_range m n hmn hn rest]
    simp
    split
    · simp at h
    · rfl

/-! ### the text of a counted grapheme -/

/-- a grapheme whose strings are spelled by atoms, without nested repetitions -/
def gOf (ass : List (List Atom)) (mn mx : Nat) : Grapheme := Grapheme.mk (ass.map untok) [] mn mx

def AssOK (ass : List (List Atom)) : Prop := ass ≠ [] ∧ ∀ as ∈ ass, as ≠ [] ∧ AtomsOK as

/-- the escaped text of one string of the unit -/
def strText (esc : Bool) (as : List Atom) : Str := E esc (escapeSymbols (untok as))

/-- the escaped text of the unit -/
def unitText (esc : Bool) (ass : List (List Atom)) : Str := ass.flatMap (strText esc)

/-- the unit is one atom other than the lone backslash: the quantifier can follow its text directly -/
def SingleUnit (ass : List (List Atom)) : Prop := ∃ a, ass = [[a]] ∧ a ≠ Atom.chr 92

theorem escapeGrapheme_gOf (cap esc : Bool) (ass : List (List Atom)) (mn mx : Nat) :
    escapeGrapheme (cfgPlain cap esc) (gOf ass mn mx) = Grapheme.mk (ass.map (strText esc)) [] mn mx := by
  cases esc <;> simp [gOf, escapeGrapheme, escapeGraphemes, cfgPlain, strText, E, Function.comp_def]

theorem strText_bs (esc : Bool) : strText esc [Atom.chr 92] = [92, 92] := by
  unfold strText
  rw [escapeSymbols_eq]
  have : (untok [Atom.chr 92]).flatMap core1 = [92] := by decide +kernel
  simp only [this, ite_true]
  exact E_ascii esc _ (by decide)

theorem strText_ok (esc : Bool) (as : List Atom) (h : ∀ a ∈ as, AtomOK a) : strText esc as = as.flatMap (atext esc) := by
  unfold strText
  rw [escapeSymbols_eq]
  simp only [flatMap_core1_ne as h, ite_false]
  exact text_blocks esc as

theorem strText_ne_nil (esc : Bool) (as : List Atom) (hne : as ≠ []) (h : AtomsOK as) : strText esc as ≠ [] := by
  rcases h with rfl | h
  · rw [strText_bs]; simp
  · rw [strText_ok esc as h]
    cases as with
    | nil => exact absurd rfl hne
    | cons a r =>
      simp only [List.flatMap_cons]
      intro hc
      exact (block_facts (block_atom esc a (h a List.mem_cons_self))).1 (List.append_eq_nil_iff.mp hc).1

/-- **`is_single_char` of `Display for Grapheme`** decides exactly whether the unit is one atom (other than `\\`) -/
theorem isSingleChar_iff (esc : Bool) (ass : List (List Atom)) (hok : AssOK ass) (mn mx : Nat) :
    ((Expr.graphemeCharCount (Grapheme.mk (ass.map (strText esc)) [] mn mx) false == 1 ||
      ((ass.map (strText esc)).length == 1 && isSingleEscape ((ass.map (strText esc)).headD []))) = true) ↔ SingleUnit ass := by
  obtain ⟨hne, hall⟩ := hok
  have hcount : Expr.graphemeCharCount (Grapheme.mk (ass.map (strText esc)) [] mn mx) false =
      ((ass.map (strText esc)).map List.length).sum := by
    simp [Expr.graphemeCharCount, Grapheme.chars]
  rw [hcount]
  cases ass with
  | nil => exact absurd rfl hne
  | cons as rest =>
    obtain ⟨hasne, hasok⟩ := hall as List.mem_cons_self
    have l1 : 1 ≤ (strText esc as).length := List.length_pos_iff.mpr (strText_ne_nil esc as hasne hasok)
    cases rest with
    | cons as2 rest2 =>
      -- two strings: never single
      obtain ⟨h2ne, h2ok⟩ := hall as2 (by simp)
      have l2 : 1 ≤ (strText esc as2).length := List.length_pos_iff.mpr (strText_ne_nil esc as2 h2ne h2ok)
      constructor
      · intro h
        simp only [List.map_cons, List.sum_cons, List.length_cons, Bool.or_eq_true, beq_iff_eq, Bool.and_eq_true] at h
        rcases h with h | ⟨h, _⟩
        · omega
        · omega
      · rintro ⟨a, ha, _⟩; simp at ha
    | nil =>
      simp only [List.map_cons, List.map_nil, List.sum_cons, List.sum_nil, Nat.add_zero, List.length_cons, List.length_nil,
        Nat.zero_add, beq_self_eq_true, Bool.true_and, List.headD_cons, Bool.or_eq_true, beq_iff_eq]
      rcases hasok with rfl | hatoms
      · -- the lone backslash prints as two backslashes: neither one character nor one escape
        rw [strText_bs]
        constructor
        · rintro (h | h)
          · simp at h
          · simp [isSingleEscape, countIf] at h
        · rintro ⟨a, ha, hne92⟩
          simp only [List.cons.injEq, and_true] at ha
          exact absurd ha.symm hne92
      · rw [strText_ok esc as hatoms]
        cases as with
        | nil => exact absurd rfl hasne
        | cons a r =>
          cases r with
          | nil =>
            simp only [List.flatMap_cons, List.flatMap_nil, List.append_nil]
            have hb := block_atom esc a (hatoms a List.mem_cons_self)
            constructor
            · intro _
              refine ⟨a, rfl, ?_⟩
              intro hc
              have := (hatoms a List.mem_cons_self)
              rw [hc] at this
              exact this.1 rfl
            · intro _
              exact block_single hb
          | cons a2 r2 =>
            have hb1 := block_atom esc a (hatoms a List.mem_cons_self)
            have hb2 := block_atom esc a2 (hatoms a2 (by simp))
            have hbr : ∀ b ∈ r2.map (atext esc), Block b := by
              intro b hb
              obtain ⟨x, hx, rfl⟩ := List.mem_map.mp hb
              exact block_atom esc x (hatoms x (by simp [hx]))
            have := blocks_not_single _ _ _ hb1 hb2 hbr
            have hflat : (a :: a2 :: r2).flatMap (atext esc) = (atext esc a :: atext esc a2 :: r2.map (atext esc)).flatten := by
              simp [List.flatMap]
            rw [hflat]
            constructor
            · rintro (h | h)
              · omega
              · rw [this.2] at h; simp at h
            · rintro ⟨x, hx, _⟩; simp at hx

/-- the quantifier text -/
def quantText (mn mx : Nat) : Str :=
  if mn < mx then [123] ++ toDec mn ++ [44] ++ toDec mx ++ [125] else [123] ++ toDec mn ++ [125]

/-- the grapheme is printed with a quantifier -/
def Counted (mn mx : Nat) : Prop := mn < mx ∨ (mn = mx ∧ 1 < mn)

theorem flatten_map_strText (esc : Bool) (ass : List (List Atom)) : (ass.map (strText esc)).flatten = unitText esc ass := by
  simp [unitText, List.flatMap]

/-- **the text `Display for Grapheme` writes for a counted grapheme** -/
theorem fmt_counted (cap esc : Bool) (ass : List (List Atom)) (hok : AssOK ass) (mn mx : Nat) (hc : Counted mn mx) :
    fmtLiteral (cfgPlain cap esc) [gOf ass mn mx] =
      (if (Expr.graphemeCharCount (Grapheme.mk (ass.map (strText esc)) [] mn mx) false == 1 ||
          ((ass.map (strText esc)).length == 1 && isSingleEscape ((ass.map (strText esc)).headD []))) = true
       then unitText esc ass else lp cap ++ unitText esc ass ++ [41]) ++ quantText mn mx := by
  have hreps : (gOf ass mn mx).reps.isEmpty = true := by simp [gOf, Grapheme.reps]
  simp only [fmtLiteral, List.flatMap_cons, List.flatMap_nil, List.append_nil, hreps, Bool.not_true, Bool.false_eq_true, ite_false]
  rw [escapeGrapheme_gOf]
  simp only [fmtGrapheme, List.isEmpty_nil, ite_true, flatten_map_strText, Comp.charClass, cfgPlain, Bool.false_and, paint,
    Bool.false_eq_true, ite_false]
  unfold quantText
  rcases hc with hlt | ⟨rfl, h1⟩
  · have hnr : ¬ (mn = 0 ∧ mx = 0) := by omega
    simp only [hlt, decide_true, Bool.not_true, Bool.false_and, Bool.false_eq_true, ite_false, Bool.true_and, ite_true]
    split
    · simp [Comp.repetitionRange, paint, hnr]
    · rename_i hns
      simp only [Bool.not_eq_true] at hns
      simp only [hns]
      simp [Comp.repetitionRange, Comp.paren, Comp.leftParen, Comp.rightParen, paint, hnr, lp, Gen.strCapturedLeftParen,
        Gen.strUncapturedLeftParen, Gen.strRightParen]
  · have hnl : ¬ mn < mn := Nat.lt_irrefl _
    have hn0 : mn ≠ 0 := by omega
    simp only [hnl, decide_false, Bool.not_false, Bool.true_and, h1, decide_true, ite_false, Bool.false_and, Bool.false_eq_true]
    split
    · simp [Comp.repetition, paint, hn0]
    · rename_i hns
      simp only [Bool.not_eq_true] at hns
      simp only [hns]
      simp [Comp.repetition, Comp.paren, Comp.leftParen, Comp.rightParen, paint, hn0, lp, Gen.strCapturedLeftParen,
        Gen.strUncapturedLeftParen, Gen.strRightParen]

/-! ### reading it back -/

/-- the items of the unit: one per atom -/
def unitItems (ass : List (List Atom)) : List Pat := ass.flatMap fun as => as.map atomPat

def unitLen (ass : List (List Atom)) : Nat := (ass.map List.length).sum

theorem toDec_digits (n : Nat) : ∀ c ∈ toDec n, 48 ≤ c ∧ c ≤ 57 := by
  rw [toDec_eq]
  intro c hc
  obtain ⟨d, hd, rfl⟩ := List.mem_map.mp hc
  have := decDigs_lt 64 n d hd
  omega

theorem R_quantText (mn mx : Nat) : R (quantText mn mx) = quantText mn mx := by
  apply R_id
  intro c hc
  unfold quantText at hc
  split at hc
  · simp only [List.append_assoc, List.cons_append, List.nil_append, List.mem_cons, List.mem_append, List.mem_nil_iff, or_false] at hc
    rcases hc with rfl | hc | rfl | hc | rfl
    · decide
    · have := toDec_digits mn c hc; omega
    · decide
    · have := toDec_digits mx c hc; omega
    · decide
  · simp only [List.append_assoc, List.cons_append, List.nil_append, List.mem_cons, List.mem_append, List.mem_nil_iff, or_false] at hc
    rcases hc with rfl | hc | rfl
    · decide
    · have := toDec_digits mn c hc; omega
    · decide

theorem lex_unit (esc : Bool) : ∀ (ass : List (List Atom)), (∀ as ∈ ass, as ≠ [] ∧ AtomsOK as) →
    ∀ (f : Nat) (rest : List Nat) (st : List Frame) (al co : List Pat),
      parseLoop false (f + unitLen ass) (R (unitText esc ass) ++ rest) st al co =
        parseLoop false f rest st al ((unitItems ass).reverse ++ co)
  | [], _, f, rest, st, al, co => by simp [unitLen, unitText, unitItems, R_nil]
  | as :: r, h, f, rest, st, al, co => by
    have hr : ∀ x ∈ r, x ≠ [] ∧ AtomsOK x := fun x hx => h x (List.mem_cons_of_mem _ hx)
    have hlen : f + unitLen (as :: r) = (f + unitLen r) + as.length := by simp [unitLen]; omega
    rw [hlen]
    have e1 : R (unitText esc (as :: r)) ++ rest = R (E esc (escapeSymbols (untok as))) ++ (R (unitText esc r) ++ rest) := by
      simp only [unitText, List.flatMap_cons, R_append, List.append_assoc, strText]
    rw [e1]
    have := lex_grapheme false esc as (h as List.mem_cons_self).2 (f + unitLen r) (R (unitText esc r) ++ rest) st al co
    rw [RV_false] at this
    rw [this, lex_unit esc r hr f rest st al ((as.map atomPat).reverse ++ co)]
    simp [unitItems]

theorem quantifiable_atomPat (a : Atom) : Quantifiable (atomPat a) := by
  cases a <;> simp [Quantifiable, atomPat]

/-- the quantifier, either form, behind a quantifiable item -/
theorem step_quant (mn mx : Nat) (hc : Counted mn mx) (hb : mx ≤ 1000) (f : Nat) (rest : List Nat) (h : rest.head? ≠ some 63)
    (p : Pat) (hp : Quantifiable p) (ps : List Pat) (st : List Frame) (al : List Pat) :
    parseLoop false (f + 1) (quantText mn mx ++ rest) st al (p :: ps) =
      parseLoop false f rest st al (Pat.rep p mn (some mx) true :: ps) := by
  unfold quantText
  rcases hc with hlt | ⟨rfl, _⟩
  · simp only [hlt, ite_true, List.append_assoc, List.cons_append, List.nil_append]
    have hbig : mx < 10 ^ 64 := by
      have : (1000 : Nat) < 10 ^ 64 := by decide
      omega
    exact step_counted_range mn mx (Nat.le_of_lt hlt) hbig f rest h p hp ps st al
  · simp only [Nat.lt_irrefl, ite_false, List.append_assoc, List.cons_append, List.nil_append]
    exact step_counted mn hb f rest h p hp ps st al

/-- **a counted single atom** `x{n}` / `x{m,n}` is read as the repetition of that atom -/
theorem lex_counted_single (cap esc : Bool) (a : Atom) (ha : AtomOK a) (mn mx : Nat) (hc : Counted mn mx) (hb : mx ≤ 1000)
    (f : Nat) (rest : List Nat) (hrest : rest.head? ≠ some 63) (st : List Frame) (al co : List Pat) :
    parseLoop false (f + 2) (R (fmtLiteral (cfgPlain cap esc) [gOf [[a]] mn mx]) ++ rest) st al co =
      parseLoop false f rest st al (Pat.rep (atomPat a) mn (some mx) true :: co) := by
  have hok : AssOK [[a]] := ⟨by simp, by
    intro as has
    simp only [List.mem_cons, List.mem_nil_iff, or_false] at has
    subst has
    exact ⟨by simp, Or.inr (by intro x hx; simp at hx; subst hx; exact ha)⟩⟩
  have hne : a ≠ Atom.chr 92 := by
    intro h; rw [h] at ha; exact ha.1 rfl
  rw [fmt_counted cap esc [[a]] hok mn mx hc]
  rw [if_pos ((isSingleChar_iff esc [[a]] hok mn mx).mpr ⟨a, rfl, hne⟩)]
  rw [R_append, R_quantText, List.append_assoc]
  have h1 := lex_unit esc [[a]] hok.2 (f + 1) (quantText mn mx ++ rest) st al co
  simp only [unitLen, List.map_cons, List.map_nil, List.sum_cons, List.sum_nil, List.length_cons, List.length_nil] at h1
  rw [show f + 2 = f + 1 + (0 + 1 + 0) by omega, h1]
  simp only [unitItems, List.flatMap_cons, List.flatMap_nil, List.map_cons, List.map_nil, List.append_nil, List.reverse_cons,
    List.reverse_nil, List.nil_append, List.singleton_append]
  exact step_quant mn mx hc hb f rest hrest _ (quantifiable_atomPat a) co st al

theorem unitText_head (esc : Bool) (ass : List (List Atom)) (hok : AssOK ass) (rest : List Nat) :
    (R (unitText esc ass) ++ rest).head? ≠ some 63 := by
  obtain ⟨hne, hall⟩ := hok
  cases ass with
  | nil => exact absurd rfl hne
  | cons as r =>
    obtain ⟨h1, h2⟩ := hall as List.mem_cons_self
    obtain ⟨hd, tl, htl, hne63⟩ := R_escape_head false esc as h1 h2
    rw [RV_false] at htl
    simp only [unitText, List.flatMap_cons, R_append, strText, htl, List.cons_append, List.head?_cons]
    intro hc
    exact hne63 (Option.some.inj hc)

/-- **a counted unit of several atoms** `(?:unit){n}` / `(?:unit){m,n}` (a capturing group when capturing groups are on) is read as the
repetition of the group of its atoms -/
theorem lex_counted_group (cap esc : Bool) (ass : List (List Atom)) (hok : AssOK ass) (hns : ¬ SingleUnit ass) (mn mx : Nat)
    (hc : Counted mn mx) (hb : mx ≤ 1000) (f : Nat) (rest : List Nat) (hrest : rest.head? ≠ some 63) (st : List Frame) (al co : List Pat) :
    parseLoop false (f + unitLen ass + 3) (R (fmtLiteral (cfgPlain cap esc) [gOf ass mn mx]) ++ rest) st al co =
      parseLoop false f rest st al (Pat.rep (Pat.grp cap (catList (unitItems ass))) mn (some mx) true :: co) := by
  rw [fmt_counted cap esc ass hok mn mx hc]
  rw [if_neg (fun h => hns ((isSingleChar_iff esc ass hok mn mx).mp h))]
  simp only [R_append, R_quantText, R_lp, List.append_assoc]
  have h41 : R [41] = [41] := by decide
  rw [h41]
  have hstep1 : parseLoop false (f + unitLen ass + 3) (lp cap ++ (R (unitText esc ass) ++ ([41] ++ (quantText mn mx ++ rest)))) st al co =
      parseLoop false (f + 2 + unitLen ass) (R (unitText esc ass) ++ ([41] ++ (quantText mn mx ++ rest))) (⟨cap, al, co⟩ :: st) [] [] := by
    have e : f + unitLen ass + 3 = (f + 2 + unitLen ass) + 1 := by omega
    rw [e]
    cases cap with
    | false => exact step_lparen_noncap _ _ st al co
    | true => exact step_lparen_cap _ _ (unitText_head esc ass hok _) st al co
  rw [hstep1, lex_unit esc ass hok.2 (f + 2) _ (⟨cap, al, co⟩ :: st) [] []]
  simp only [List.append_nil, List.singleton_append]
  rw [show f + 2 = (f + 1) + 1 by omega, step_rparen, closeFrame_nil]
  exact step_quant mn mx hc hb f rest hrest _ (by simp [Quantifiable]) co st al

/-! ### what the pattern denotes -/

theorem frag_atomPat (a : Atom) : (atomPat a).Frag := by cases a <;> trivial

theorem unitItems_frag (ass : List (List Atom)) : ∀ p ∈ unitItems ass, p.Frag := by
  intro p hp
  simp only [unitItems, List.mem_flatMap, List.mem_map] at hp
  obtain ⟨as, _, a, _, rfl⟩ := hp
  exact frag_atomPat a

theorem unitItems_eq (ass : List (List Atom)) : unitItems ass = ass.flatten.map atomPat := by
  simp [unitItems, List.flatMap, List.map_flatten]

/-- the unit pattern — the atom itself, or the group of the atoms — denotes the strings that match the atoms one by one -/
theorem unit_den (cap : Bool) (ass : List (List Atom)) (i : Bool) (s : Str) :
    (Pat.grp cap (catList (unitItems ass))).denC i s ↔ atomsDen i ass.flatten s := by
  have hf : (Pat.grp cap (catList (unitItems ass))).Frag := frag_catList _ (unitItems_frag ass)
  rw [Pat.denC_eq_den i _ hf]
  simp only [Pat.den]
  rw [den_catList, unitItems_eq, denL_atoms]

theorem atomsDen_ne_nil (i : Bool) (as : List Atom) (h : as ≠ []) (s : Str) (hd : atomsDen i as s) : s ≠ [] := by
  cases as with
  | nil => exact absurd rfl h
  | cons a r => obtain ⟨x, r', rfl, _, _⟩ := hd; simp

/-- `^ p $` for the fragment with counted repetition -/
theorem anchored_fullMatchC (i : Bool) (p : Pat) (hp : p.FragC) (s : List Nat) :
    fullMatch i (.cat .bol (.cat p .eol)) s = true ↔ p.denC i s := by
  simp only [fullMatch, matchP, List.any_eq_true, List.isEmpty_iff, ite_true, List.flatMap_cons, List.flatMap_nil,
    List.append_nil, List.mem_flatMap]
  constructor
  · rintro ⟨st, ⟨st1, h1, h2⟩, he⟩
    obtain ⟨a, b⟩ := st1
    simp only [matchP] at h2
    split at h2
    · rename_i hb
      simp only [List.mem_singleton] at h2
      subst h2
      obtain ⟨u, hu, hs, _⟩ := (matchP_exactC i p hp 0 s _).mp h1
      simp only at he hs
      rw [he] at hs
      simp at hs; subst hs; exact hu
    · simp at h2
  · intro h
    refine ⟨(s.length, []), ⟨(s.length, []), (matchP_exactC i p hp 0 s _).mpr ⟨s, h, by simp, by simp⟩, ?_⟩, rfl⟩
    simp [matchP]

theorem unitLen_le (esc : Bool) : ∀ (ass : List (List Atom)), (∀ as ∈ ass, as ≠ [] ∧ AtomsOK as) →
    unitLen ass ≤ (R (unitText esc ass)).length
  | [], _ => by simp [unitLen]
  | as :: r, h => by
    have ih := unitLen_le esc r (fun x hx => h x (List.mem_cons_of_mem _ hx))
    have h1 := R_escape_len false esc as (h as List.mem_cons_self).2
    rw [RV_false] at h1
    simp only [unitLen, List.map_cons, List.sum_cons, unitText, List.flatMap_cons, R_append, List.length_append, strText] at ih ⊢
    omega

/-- **a counted grapheme between the anchors, printed and compiled** (what `-r` returns for one test case that is a run of one unit;
the component every larger `-r` output is made of): for every unit spelled by atoms — scalar values, a backslash only as a grapheme
of its own, shorthand-class tokens — every pair of counts that is printed as a quantifier (`m < n`, or `m = n ≥ 2`) up to the regex
crate's limit of 1000, with or without capturing groups and `-e`: the text is accepted by the model of `Regex::new`, and the compiled
pattern matches a string in full **iff** it consists of `k` consecutive matches of the unit with `m ≤ k ≤ n` — the quantifier binds the
whole unit, whether the unit is printed bare (`x{n}`, `\\.{n}`, `\\u{e9}{n}`, `\\d{n}`) or in a group -/
theorem counted_grapheme_exact (cap esc : Bool) (ass : List (List Atom)) (hok : AssOK ass) (mn mx : Nat) (hc : Counted mn mx)
    (hb : mx ≤ 1000) (i : Bool) (s : Str) :
    ∃ P, Spec.parse ([94] ++ (R (fmtLiteral (cfgPlain cap esc) [gOf ass mn mx]) ++ [36])) = some (⟨false, false⟩, P) ∧
      (Spec.fullMatch i P s = true ↔ ∃ k, mn ≤ k ∧ k ≤ mx ∧ powL (atomsDen i ass.flatten) k s) := by
  have hmnmx : mn ≤ mx := by rcases hc with h | ⟨h, _⟩ <;> omega
  have hflatne : ass.flatten ≠ [] := by
    obtain ⟨hne, hall⟩ := hok
    cases ass with
    | nil => exact absurd rfl hne
    | cons as r =>
      simp only [List.flatten_cons]
      intro hcc
      exact (hall as List.mem_cons_self).1 (List.append_eq_nil_iff.mp hcc).1
  -- the unit pattern and its reading
  have key : ∃ body : Pat, Quantifiable body ∧ body.Frag ∧ (∀ s, body.denC i s ↔ atomsDen i ass.flatten s) ∧
      (∀ s j, body.denC j s → s ≠ []) ∧
      ∀ (F : Nat), (R (fmtLiteral (cfgPlain cap esc) [gOf ass mn mx])).length + 3 ≤ F →
        parseLoop false F ([94] ++ (R (fmtLiteral (cfgPlain cap esc) [gOf ass mn mx]) ++ [36])) [] [] [] =
          some (catList [Pat.bol, Pat.rep body mn (some mx) true, Pat.eol]) := by
    by_cases hs : SingleUnit ass
    · obtain ⟨a, rfl, hne92⟩ := hs
      have ha : AtomOK a := by
        rcases (hok.2 [a] List.mem_cons_self).2 with h | h
        · simp only [List.cons.injEq, and_true] at h; exact absurd h hne92
        · exact h a List.mem_cons_self
      refine ⟨atomPat a, quantifiable_atomPat a, frag_atomPat a, ?_, ?_, ?_⟩
      · intro s
        rw [Pat.denC_eq_den i _ (frag_atomPat a), den_atomPat]
        simp only [List.flatten_cons, List.flatten_nil, List.append_nil, atomsDen]
        constructor
        · rintro ⟨x, rfl, hx⟩; exact ⟨x, [], rfl, hx, rfl⟩
        · rintro ⟨x, r, rfl, hx, rfl⟩; exact ⟨x, rfl, hx⟩
      · intro s j hd
        rw [Pat.denC_eq_den j _ (frag_atomPat a), den_atomPat] at hd
        obtain ⟨x, rfl, _⟩ := hd; simp
      · intro F hF
        have hlen : 2 ≤ (R (fmtLiteral (cfgPlain cap esc) [gOf [[a]] mn mx])).length := by
          rw [fmt_counted cap esc [[a]] hok mn mx hc, R_append, R_quantText, List.length_append]
          have : 2 ≤ (quantText mn mx).length := by unfold quantText; split <;> simp <;> omega
          omega
        have hfuel : F = ((((F - 5) + 1) + 1) + 2) + 1 := by omega
        rw [hfuel]
        simp only [List.singleton_append]
        rw [step_caret, lex_counted_single cap esc a ha mn mx hc hb _ [36] (by simp), step_dollar, step_end]
        simp [closeFrame, altList, catList]
    · refine ⟨Pat.grp cap (catList (unitItems ass)), by simp [Quantifiable], frag_catList _ (unitItems_frag ass),
        fun s => unit_den cap ass i s, ?_, ?_⟩
      · intro s j hd
        exact atomsDen_ne_nil j _ hflatne s ((unit_den cap ass j s).mp hd)
      · intro F hF
        have hlen : unitLen ass + 3 ≤ (R (fmtLiteral (cfgPlain cap esc) [gOf ass mn mx])).length := by
          rw [fmt_counted cap esc ass hok mn mx hc]
          rw [if_neg (fun h => hs ((isSingleChar_iff esc ass hok mn mx).mp h))]
          simp only [R_append, R_quantText, R_lp, List.length_append]
          have h1 := unitLen_le esc ass hok.2
          have h2 : 2 ≤ (quantText mn mx).length := by unfold quantText; split <;> simp <;> omega
          have h3 : 1 ≤ (lp cap).length := by cases cap <;> simp [lp]
          have h4 : (R [41]).length = 1 := by decide
          omega
        have hfuel : F = ((((F - unitLen ass - 6) + 1) + 1) + unitLen ass + 3) + 1 := by omega
        rw [hfuel]
        simp only [List.singleton_append]
        rw [step_caret, lex_counted_group cap esc ass hok hs mn mx hc hb _ [36] (by simp), step_dollar, step_end]
        simp [closeFrame, altList, catList]
  obtain ⟨body, hq, hfrag, hden, hnn, hparse⟩ := key
  have hfl : parseFlags ([94] ++ (R (fmtLiteral (cfgPlain cap esc) [gOf ass mn mx]) ++ [36])) =
      (⟨false, false⟩, [94] ++ (R (fmtLiteral (cfgPlain cap esc) [gOf ass mn mx]) ++ [36])) := by
    simp [parseFlags]
  refine ⟨catList [Pat.bol, Pat.rep body mn (some mx) true, Pat.eol], ?_, ?_⟩
  · simp only [Spec.parse, hfl]
    rw [hparse _ (by simp; omega)]
    rfl
  · have hfc : (Pat.rep body mn (some mx) true).FragC :=
      ⟨hfrag.toFragC, Or.inr ⟨mx, rfl, hmnmx, fun j s hd => hnn s j hd⟩⟩
    show fullMatch i (Pat.cat Pat.bol (Pat.cat (Pat.rep body mn (some mx) true) Pat.eol)) s = true ↔ _
    rw [anchored_fullMatchC i _ hfc]
    simp only [Pat.denC, rangeL]
    have hpow : ∀ k s, powL (body.denC i) k s ↔ powL (atomsDen i ass.flatten) k s := by
      intro k
      induction k with
      | zero => intro s; rfl
      | succ n ih =>
        intro s
        simp only [powL]
        constructor
        · rintro ⟨u, v, rfl, hu, hv⟩; exact ⟨u, v, rfl, (hden u).mp hu, (ih v).mp hv⟩
        · rintro ⟨u, v, rfl, hu, hv⟩; exact ⟨u, v, rfl, (hden u).mpr hu, (ih v).mpr hv⟩
    constructor
    · rintro ⟨k, h1, h2, hp⟩; exact ⟨k, h1, by omega, (hpow k s).mp hp⟩
    · rintro ⟨k, h1, h2, hp⟩; exact ⟨k, h1, by omega, (hpow k s).mpr hp⟩

end Grexv
