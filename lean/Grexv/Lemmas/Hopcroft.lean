import Grexv.Lemmas.TrieExact
import Grexv.Lemmas.Quotient

/-
S6, the refinement loop of `Dfa::minimize`: list-level facts about `splitAll`, `updateW`,
`parentStates`, then the invariant that makes the final partition stable.
-/
set_option linter.unusedSimpArgs false
set_option linter.unusedVariables false
namespace Grexv
namespace Dfa

/-! ### blocks as sets -/

theorem mem_binter (x y : Block) (s : Nat) : s ∈ binter x y ↔ s ∈ y ∧ s ∈ x := by
  simp [binter, List.contains_iff_mem]

theorem mem_bdiff (y x : Block) (s : Nat) : s ∈ bdiff y x ↔ s ∈ y ∧ s ∉ x := by
  simp [bdiff, List.contains_iff_mem]

def SameBlock (p : List Block) (q q' : Nat) : Prop := ∃ B ∈ p, q ∈ B ∧ q' ∈ B
def InW (w : List Block) (t : Nat) : Prop := ∃ B ∈ w, t ∈ B

/-- `splitAll`: the new partition, block by block -/
theorem splitAll_blocks (x : Block) (p : List Block) :
    ∀ B', B' ∈ (splitAll x p).1 ↔
      ∃ Y ∈ p, (((binter x Y).isEmpty ∨ (bdiff Y x).isEmpty) ∧ B' = Y) ∨
               (¬ ((binter x Y).isEmpty ∨ (bdiff Y x).isEmpty) ∧ (B' = binter x Y ∨ B' = bdiff Y x)) := by
  induction p with
  | nil => intro B'; simp [splitAll]
  | cons y ys ih =>
    intro B'
    simp only [splitAll]
    by_cases hc : ((binter x y).isEmpty || (bdiff y x).isEmpty) = true
    · have hc' : (binter x y).isEmpty = true ∨ (bdiff y x).isEmpty = true := by simpa using hc
      simp only [hc, ite_true, List.mem_cons, ih]
      constructor
      · rintro (rfl | ⟨Y, hY, h⟩)
        · exact ⟨B', Or.inl rfl, Or.inl ⟨hc', rfl⟩⟩
        · exact ⟨Y, Or.inr hY, h⟩
      · rintro ⟨Y, hY | hY, h⟩
        · subst hY
          rcases h with ⟨_, rfl⟩ | ⟨hn, _⟩
          · exact Or.inl rfl
          · exact absurd hc' hn
        · exact Or.inr ⟨Y, hY, h⟩
    · have hc' : ¬ ((binter x y).isEmpty = true ∨ (bdiff y x).isEmpty = true) := by simpa using hc
      simp only [hc, Bool.false_eq_true, ite_false, List.mem_cons, ih]
      constructor
      · rintro (rfl | rfl | ⟨Y, hY, h⟩)
        · exact ⟨y, Or.inl rfl, Or.inr ⟨hc', Or.inl rfl⟩⟩
        · exact ⟨y, Or.inl rfl, Or.inr ⟨hc', Or.inr rfl⟩⟩
        · exact ⟨Y, Or.inr hY, h⟩
      · rintro ⟨Y, hY | hY, h⟩
        · subst hY
          rcases h with ⟨hcc, _⟩ | ⟨_, h | h⟩
          · exact absurd hcc hc'
          · exact Or.inl h
          · exact Or.inr (Or.inl h)
        · exact Or.inr (Or.inr ⟨Y, hY, h⟩)

/-- the replacements are exactly the properly split blocks, with their two pieces -/
theorem splitAll_repl (x : Block) (p : List Block) :
    ∀ r, r ∈ (splitAll x p).2 ↔
      ∃ Y ∈ p, ¬ ((binter x Y).isEmpty ∨ (bdiff Y x).isEmpty) ∧ r = (Y, binter x Y, bdiff Y x) := by
  induction p with
  | nil => intro r; simp [splitAll]
  | cons y ys ih =>
    intro r
    simp only [splitAll]
    by_cases hc : ((binter x y).isEmpty || (bdiff y x).isEmpty) = true
    · have hc' : (binter x y).isEmpty = true ∨ (bdiff y x).isEmpty = true := by simpa using hc
      simp only [hc, ite_true, ih, List.mem_cons]
      constructor
      · rintro ⟨Y, hY, h⟩; exact ⟨Y, Or.inr hY, h⟩
      · rintro ⟨Y, hY | hY, hn, h⟩
        · subst hY; exact absurd hc' hn
        · exact ⟨Y, hY, hn, h⟩
    · have hc' : ¬ ((binter x y).isEmpty = true ∨ (bdiff y x).isEmpty = true) := by simpa using hc
      simp only [hc, Bool.false_eq_true, ite_false, ih, List.mem_cons]
      constructor
      · rintro (rfl | ⟨Y, hY, h⟩)
        · exact ⟨y, Or.inl rfl, hc', rfl⟩
        · exact ⟨Y, Or.inr hY, h⟩
      · rintro ⟨Y, hY | hY, hn, h⟩
        · subst hY; exact Or.inl h
        · exact Or.inr ⟨Y, hY, hn, h⟩

theorem isEmpty_iff_forall (l : Block) : l.isEmpty = true ↔ ∀ s, s ∉ l := by
  cases l with
  | nil => simp
  | cons a as =>
    simp only [List.isEmpty_cons, Bool.false_eq_true, false_iff]
    intro h; exact h a (List.mem_cons_self)

/-- after the scan two states share a block iff they did before and `x` does not separate them -/
theorem splitAll_sameBlock (x : Block) (p : List Block) (q q' : Nat) :
    SameBlock (splitAll x p).1 q q' ↔ (SameBlock p q q' ∧ (q ∈ x ↔ q' ∈ x)) := by
  constructor
  · rintro ⟨B', hB', hq, hq'⟩
    obtain ⟨Y, hY, h⟩ := (splitAll_blocks x p B').mp hB'
    rcases h with ⟨hemp, rfl⟩ | ⟨_, rfl | rfl⟩
    · refine ⟨⟨B', hY, hq, hq'⟩, ?_⟩
      rcases hemp with h | h
      · have := (isEmpty_iff_forall _).mp h
        have n1 : q ∉ x := fun hx => this q ((mem_binter x B' q).mpr ⟨hq, hx⟩)
        have n2 : q' ∉ x := fun hx => this q' ((mem_binter x B' q').mpr ⟨hq', hx⟩)
        exact ⟨fun h => absurd h n1, fun h => absurd h n2⟩
      · have := (isEmpty_iff_forall _).mp h
        have n1 : q ∈ x := Decidable.byContradiction fun hx => this q ((mem_bdiff B' x q).mpr ⟨hq, hx⟩)
        have n2 : q' ∈ x := Decidable.byContradiction fun hx => this q' ((mem_bdiff B' x q').mpr ⟨hq', hx⟩)
        exact ⟨fun _ => n2, fun _ => n1⟩
    · have h1 := (mem_binter x Y q).mp hq
      have h2 := (mem_binter x Y q').mp hq'
      exact ⟨⟨Y, hY, h1.1, h2.1⟩, ⟨fun _ => h2.2, fun _ => h1.2⟩⟩
    · have h1 := (mem_bdiff Y x q).mp hq
      have h2 := (mem_bdiff Y x q').mp hq'
      exact ⟨⟨Y, hY, h1.1, h2.1⟩, ⟨fun h => absurd h h1.2, fun h => absurd h h2.2⟩⟩
  · rintro ⟨⟨Y, hY, hq, hq'⟩, hx⟩
    by_cases hemp : (binter x Y).isEmpty = true ∨ (bdiff Y x).isEmpty = true
    · exact ⟨Y, (splitAll_blocks x p Y).mpr ⟨Y, hY, Or.inl ⟨hemp, rfl⟩⟩, hq, hq'⟩
    · by_cases hqx : q ∈ x
      · exact ⟨binter x Y, (splitAll_blocks x p _).mpr ⟨Y, hY, Or.inr ⟨hemp, Or.inl rfl⟩⟩,
          (mem_binter x Y q).mpr ⟨hq, hqx⟩, (mem_binter x Y q').mpr ⟨hq', hx.mp hqx⟩⟩
      · exact ⟨bdiff Y x, (splitAll_blocks x p _).mpr ⟨Y, hY, Or.inr ⟨hemp, Or.inr rfl⟩⟩,
          (mem_bdiff Y x q).mpr ⟨hq, hqx⟩, (mem_bdiff Y x q').mpr ⟨hq', fun h => hqx (hx.mpr h)⟩⟩

/-! ### splitters and `updateW` -/

/-- `B` tells the two (optional) successor states apart -/
def Dist (B : Block) : Option Nat → Option Nat → Prop
  | some t, some t' => (t ∈ B ∧ t' ∉ B) ∨ (t ∉ B ∧ t' ∈ B)
  | some t, none => t ∈ B
  | none, some t' => t' ∈ B
  | none, none => False

/-- the two pieces of a block split by `x` tell apart whatever the block did -/
theorem dist_pieces (x Y : Block) (a b : Option Nat) (h : Dist Y a b) :
    Dist (binter x Y) a b ∨ Dist (bdiff Y x) a b := by
  cases a with
  | none =>
    cases b with
    | none => exact absurd h (by simp [Dist])
    | some t' =>
      simp only [Dist] at h ⊢
      by_cases hx : t' ∈ x
      · exact Or.inl ((mem_binter x Y t').mpr ⟨h, hx⟩)
      · exact Or.inr ((mem_bdiff Y x t').mpr ⟨h, hx⟩)
  | some t =>
    cases b with
    | none =>
      simp only [Dist] at h ⊢
      by_cases hx : t ∈ x
      · exact Or.inl ((mem_binter x Y t).mpr ⟨h, hx⟩)
      · exact Or.inr ((mem_bdiff Y x t).mpr ⟨h, hx⟩)
    | some t' =>
      simp only [Dist, mem_binter, mem_bdiff] at h ⊢
      rcases h with ⟨h1, h2⟩ | ⟨h1, h2⟩
      · by_cases hx : t ∈ x
        · exact Or.inl (Or.inl ⟨⟨h1, hx⟩, fun hc => h2 hc.1⟩)
        · exact Or.inr (Or.inl ⟨⟨h1, hx⟩, fun hc => h2 hc.1⟩)
      · by_cases hx : t' ∈ x
        · exact Or.inl (Or.inr ⟨fun hc => h1 hc.1, ⟨h2, hx⟩⟩)
        · exact Or.inr (Or.inr ⟨fun hc => h1 hc.1, ⟨h2, hx⟩⟩)

theorem mem_removeFirst_or (y : Block) (w : List Block) (B : Block) : B ∈ w → B = y ∨ B ∈ removeFirst y w := by
  induction w with
  | nil => simp
  | cons z zs ih =>
    intro h
    simp only [removeFirst]
    split
    · rename_i hz
      simp only [List.mem_cons] at h
      rcases h with h | h
      · exact Or.inl (h.trans hz)
      · exact Or.inr h
    · simp only [List.mem_cons] at h ⊢
      rcases h with h | h
      · exact Or.inr (Or.inl h)
      · rcases ih h with h' | h'
        · exact Or.inl h'
        · exact Or.inr (Or.inr h')

/-- every replacement has the form (Y, x ∩ Y, Y \ x) -/
def ReplOf (x : Block) (rs : List (Block × Block × Block)) : Prop :=
  ∀ r ∈ rs, r.2.1 = binter x r.1 ∧ r.2.2 = bdiff r.1 x

/-- whatever a member of the work list told apart is still told apart by a member afterwards -/
theorem updateW_keeps (x : Block) (rs : List (Block × Block × Block)) (hrs : ReplOf x rs) (a b : Option Nat) :
    ∀ (w : List Block), (∃ B ∈ w, Dist B a b) → ∃ B ∈ updateW w rs, Dist B a b := by
  induction rs with
  | nil => intro w h; exact h
  | cons r rest ih =>
    intro w hw
    obtain ⟨y, i, dd⟩ := r
    have hr := hrs (y, i, dd) (List.mem_cons_self)
    simp only at hr
    have hrest : ReplOf x rest := fun r hr => hrs r (List.mem_cons_of_mem _ hr)
    obtain ⟨B, hB, hd⟩ := hw
    simp only [updateW]
    split
    · apply ih hrest
      rcases mem_removeFirst_or y w B hB with rfl | h
      · rcases dist_pieces x B a b hd with h1 | h1
        · exact ⟨i, by simp, by rw [hr.1]; exact h1⟩
        · exact ⟨dd, by simp, by rw [hr.2]; exact h1⟩
      · exact ⟨B, List.mem_append_left _ h, hd⟩
    · exact ih hrest _ ⟨B, List.mem_append_left _ hB, hd⟩

/-- for every block that was split, a member of the new work list tells its two pieces apart -/
theorem updateW_new (x : Block) (rs : List (Block × Block × Block)) (hrs : ReplOf x rs) :
    ∀ (w : List Block) (r : Block × Block × Block), r ∈ rs → ∀ t t', t ∈ r.1 → t' ∈ r.1 → t ∈ x → t' ∉ x →
      ∃ B ∈ updateW w rs, Dist B (some t) (some t') := by
  induction rs with
  | nil => intro w r hr; simp at hr
  | cons r0 rest ih =>
    intro w r hr t t' ht ht' htx ht'x
    obtain ⟨y, i, dd⟩ := r0
    have hr0 := hrs (y, i, dd) (List.mem_cons_self)
    simp only at hr0
    have hrest : ReplOf x rest := fun r hr => hrs r (List.mem_cons_of_mem _ hr)
    simp only [List.mem_cons] at hr
    rcases hr with rfl | hr
    · -- this replacement: one of its pieces is appended now and is kept (possibly refined) afterwards
      simp only at ht ht'
      have di : Dist i (some t) (some t') := by
        rw [hr0.1]; simp only [Dist, mem_binter]
        exact Or.inl ⟨⟨ht, htx⟩, fun hc => ht'x hc.2⟩
      have dd' : Dist dd (some t) (some t') := by
        rw [hr0.2]; simp only [Dist, mem_bdiff]
        exact Or.inr ⟨fun hc => hc.2 htx, ⟨ht', ht'x⟩⟩
      simp only [updateW]
      split
      · exact updateW_keeps x rest hrest _ _ _ ⟨i, by simp, di⟩
      · exact updateW_keeps x rest hrest _ _ _ ⟨i, by simp, di⟩
    · simp only [updateW]
      split
      · exact ih hrest _ r hr t t' ht ht' htx ht'x
      · exact ih hrest _ r hr t t' ht ht' htx ht'x

theorem splitAll_replOf (x : Block) (p : List Block) : ReplOf x (splitAll x p).2 := by
  intro r hr
  obtain ⟨Y, _, _, rfl⟩ := (splitAll_repl x p r).mp hr
  exact ⟨rfl, rfl⟩

/-! ### successors and `get_parent_states` -/

/-- the `l`-successor of `q` -/
def succ (d : Dfa) (q : Nat) (l : Grapheme) : Option Nat :=
  (d.edges.find? fun e => e.src = q ∧ e.label = l).map Edge.dst

theorem succ_eq_some {d : Dfa} (h : TreeInv d) (q : Nat) (l : Grapheme) (t : Nat) :
    succ d q l = some t ↔ ∃ e ∈ d.edges, e.src = q ∧ e.label = l ∧ e.dst = t := by
  simp only [succ, Option.map_eq_some_iff]
  constructor
  · rintro ⟨e, he, rfl⟩
    have h1 := List.mem_of_find?_eq_some he
    have h2 := List.find?_some he
    simp only [decide_eq_true_eq] at h2
    exact ⟨e, h1, h2.1, h2.2, rfl⟩
  · rintro ⟨e, he, hs, hl, rfl⟩
    cases hf : d.edges.find? (fun e => e.src = q ∧ e.label = l) with
    | none =>
      rw [List.find?_eq_none] at hf
      have := hf e he
      simp [hs, hl] at this
    | some e' =>
      have h1 := List.mem_of_find?_eq_some hf
      have h2 := List.find?_some hf
      simp only [decide_eq_true_eq] at h2
      have : e' = e := h.det e' h1 e he (by rw [h2.1, hs]) (by rw [h2.2, hl])
      exact ⟨e', rfl, by rw [this]⟩

theorem mem_foldl_insertSorted' (f : Nat → Option Nat) (a : Block) (acc : Block) (q : Nat) :
    q ∈ a.foldl (fun x s => match f s with | some v => insertSorted v x | none => x) acc ↔
      q ∈ acc ∨ ∃ s ∈ a, f s = some q := by
  induction a generalizing acc with
  | nil => simp
  | cons s rest ih =>
    simp only [List.foldl_cons, ih, List.mem_cons]
    cases hf : f s with
    | none =>
      simp only []
      constructor
      · rintro (h | ⟨s', hs', h⟩)
        · exact Or.inl h
        · exact Or.inr ⟨s', Or.inr hs', h⟩
      · rintro (h | ⟨s', hs' | hs', h⟩)
        · exact Or.inl h
        · subst hs'; rw [hf] at h; simp at h
        · exact Or.inr ⟨s', hs', h⟩
    | some v =>
      simp only [mem_insertSorted]
      constructor
      · rintro ((h | h) | ⟨s', hs', h⟩)
        · exact Or.inr ⟨s, Or.inl rfl, by rw [hf, h]⟩
        · exact Or.inl h
        · exact Or.inr ⟨s', Or.inr hs', h⟩
      · rintro (h | ⟨s', hs' | hs', h⟩)
        · exact Or.inl (Or.inr h)
        · subst hs'; rw [hf] at h; simp only [Option.some.injEq] at h; exact Or.inl (Or.inl h.symm)
        · exact Or.inr ⟨s', hs', h⟩

/-- `get_parent_states`, list level: the sources of the first matching in-edge of each state of `a` -/
theorem mem_parentStates_gen (d : Dfa) (a : Block) (l : Grapheme) (q : Nat) :
    q ∈ parentStates d a l ↔ ∃ s ∈ a, ((d.inEdges s).find? (fun e =>
        e.label.chars = l.chars && decide (e.label.min ≤ l.min) && decide (l.max ≤ e.label.max))).map Edge.src = some q := by
  have key : parentStates d a l =
      a.foldl (fun x s => match ((d.inEdges s).find? (fun e =>
        e.label.chars = l.chars && decide (e.label.min ≤ l.min) && decide (l.max ≤ e.label.max))).map Edge.src with
        | some v => insertSorted v x | none => x) [] := by
    simp only [parentStates]
    congr 1
    funext x s
    cases (d.inEdges s).find? (fun e => e.label.chars = l.chars && decide (e.label.min ≤ l.min) && decide (l.max ≤ e.label.max)) <;> rfl
  rw [key, mem_foldl_insertSorted']
  simp only [List.not_mem_nil, false_or]

/-- `get_parent_states` on a tree with plain labels: the states with an `l`-successor in `a` -/
theorem mem_parentStates {d : Dfa} (h : TreeInv d) (a : Block) (l : Grapheme) (hl : l.Simple) (q : Nat) :
    q ∈ parentStates d a l ↔ ∃ t ∈ a, succ d q l = some t := by
  have key : parentStates d a l =
      a.foldl (fun x s => match ((d.inEdges s).find? (fun e =>
        e.label.chars = l.chars && decide (e.label.min ≤ l.min) && decide (l.max ≤ e.label.max))).map Edge.src with
        | some v => insertSorted v x | none => x) [] := by
    simp only [parentStates]
    congr 1
    funext x s
    cases (d.inEdges s).find? (fun e => e.label.chars = l.chars && decide (e.label.min ≤ l.min) && decide (l.max ≤ e.label.max)) <;> rfl
  rw [key, mem_foldl_insertSorted']
  simp only [List.not_mem_nil, false_or, Option.map_eq_some_iff]
  constructor
  · rintro ⟨s, hs, e, he, rfl⟩
    have h1 := List.mem_of_find?_eq_some he
    have h2 := List.find?_some he
    simp only [inEdges, List.mem_reverse, List.mem_filter, decide_eq_true_eq] at h1
    simp only [Bool.and_eq_true, decide_eq_true_eq] at h2
    have hlab : e.label = l := Grapheme.Simple.eq_of_chars (h.simple e h1.1) hl h2.1.1
    exact ⟨s, hs, (succ_eq_some h e.src l s).mpr ⟨e, h1.1, rfl, hlab, h1.2⟩⟩
  · rintro ⟨t, ht, hsucc⟩
    obtain ⟨e, he, hsrc, hlab, hdst⟩ := (succ_eq_some h q l t).mp hsucc
    refine ⟨t, ht, ?_⟩
    cases hf : (d.inEdges t).find? (fun e => e.label.chars = l.chars && decide (e.label.min ≤ l.min) && decide (l.max ≤ e.label.max)) with
    | none =>
      rw [List.find?_eq_none] at hf
      have hmem : e ∈ d.inEdges t := by simp [inEdges, he, hdst]
      have := hf e hmem
      simp [hlab] at this
    | some e' =>
      have h1 := List.mem_of_find?_eq_some hf
      simp only [inEdges, List.mem_reverse, List.mem_filter, decide_eq_true_eq] at h1
      have : e' = e := h.inj e' h1.1 e he (by rw [h1.2, hdst])
      exact ⟨e', rfl, by rw [this, hsrc]⟩

/-! ### the invariant of the refinement loop -/

/-- the successors of `q` and `q'` are not in one block (or exactly one of them is missing) -/
def Disagree (p : List Block) : Option Nat → Option Nat → Prop
  | some t, some t' => ¬ SameBlock p t t'
  | none, none => False
  | _, _ => True

/-- every disagreement inside a block is witnessed by a splitter in the work list -/
def Inv (d : Dfa) (p w : List Block) : Prop :=
  ∀ q q' l, SameBlock p q q' → Disagree p (succ d q l) (succ d q' l) → ∃ B ∈ w, Dist B (succ d q l) (succ d q' l)

/-- … or by the block `a` being processed, for the labels still to come -/
def InvA (d : Dfa) (p w : List Block) (a : Block) (todo : List Grapheme) : Prop :=
  ∀ q q' l, SameBlock p q q' → Disagree p (succ d q l) (succ d q' l) →
    (∃ B ∈ w, Dist B (succ d q l) (succ d q' l)) ∨ (l ∈ todo ∧ Dist a (succ d q l) (succ d q' l))

/-- one label: split by the parents of `a`, update the work list -/
theorem invA_step {d : Dfa} (h : TreeInv d) (p w : List Block) (a : Block) (l0 : Grapheme) (hl0 : l0.Simple)
    (rest : List Grapheme) (hinv : InvA d p w a (l0 :: rest)) :
    InvA d (splitAll (parentStates d a l0) p).1 (updateW w (splitAll (parentStates d a l0) p).2) a rest := by
  intro q q' l hsame hdis
  have hx := splitAll_replOf (parentStates d a l0) p
  obtain ⟨hsame0, hxq⟩ := (splitAll_sameBlock _ p q q').mp hsame
  by_cases hold : Disagree p (succ d q l) (succ d q' l)
  · rcases hinv q q' l hsame0 hold with hw | ⟨hl, hda⟩
    · exact Or.inl (updateW_keeps _ _ hx _ _ w hw)
    · simp only [List.mem_cons] at hl
      rcases hl with rfl | hl
      · -- `a` tells the successors apart under the label just processed: `x` separates `q` from `q'`
        exfalso
        have mq := mem_parentStates h a l hl0 q
        have mq' := mem_parentStates h a l hl0 q'
        cases hs : succ d q l with
        | none =>
          cases hs' : succ d q' l with
          | none => simp [hs, hs', Dist] at hda
          | some t' =>
            simp only [hs, hs', Dist] at hda
            have : q' ∈ parentStates d a l := mq'.mpr ⟨t', hda, hs'⟩
            have : q ∈ parentStates d a l := hxq.mpr this
            obtain ⟨t, _, ht⟩ := mq.mp this
            rw [hs] at ht; simp at ht
        | some t =>
          cases hs' : succ d q' l with
          | none =>
            simp only [hs, hs', Dist] at hda
            have : q ∈ parentStates d a l := mq.mpr ⟨t, hda, hs⟩
            have : q' ∈ parentStates d a l := hxq.mp this
            obtain ⟨t', _, ht'⟩ := mq'.mp this
            rw [hs'] at ht'; simp at ht'
          | some t' =>
            simp only [hs, hs', Dist] at hda
            rcases hda with ⟨h1, h2⟩ | ⟨h1, h2⟩
            · have : q ∈ parentStates d a l := mq.mpr ⟨t, h1, hs⟩
              have : q' ∈ parentStates d a l := hxq.mp this
              obtain ⟨t2, ht2, hst2⟩ := mq'.mp this
              rw [hs'] at hst2; simp only [Option.some.injEq] at hst2; subst hst2
              exact h2 ht2
            · have : q' ∈ parentStates d a l := mq'.mpr ⟨t', h2, hs'⟩
              have : q ∈ parentStates d a l := hxq.mpr this
              obtain ⟨t2, ht2, hst2⟩ := mq.mp this
              rw [hs] at hst2; simp only [Option.some.injEq] at hst2; subst hst2
              exact h1 ht2
      · exact Or.inr ⟨hl, hda⟩
  · -- a new disagreement: both successors exist, were in one block, and `x` has just separated them
    left
    cases hs : succ d q l with
    | none =>
      cases hs' : succ d q' l with
      | none => simp [hs, hs', Disagree] at hdis
      | some t' => simp [hs, hs', Disagree] at hold
    | some t =>
      cases hs' : succ d q' l with
      | none => simp [hs, hs', Disagree] at hold
      | some t' =>
        simp only [hs, hs', Disagree, Classical.not_not] at hold hdis
        obtain ⟨Y, hY, htY, ht'Y⟩ := hold
        have hsep : ¬ (t ∈ parentStates d a l0 ↔ t' ∈ parentStates d a l0) := by
          intro hiff
          exact hdis ((splitAll_sameBlock _ p t t').mpr ⟨⟨Y, hY, htY, ht'Y⟩, hiff⟩)
        by_cases htx : t ∈ parentStates d a l0
        · have ht'x : t' ∉ parentStates d a l0 := fun hc => hsep ⟨fun _ => hc, fun _ => htx⟩
          have hne : ¬ ((binter (parentStates d a l0) Y).isEmpty = true ∨ (bdiff Y (parentStates d a l0)).isEmpty = true) := by
            rintro (he | he)
            · exact (isEmpty_iff_forall _).mp he t ((mem_binter _ Y t).mpr ⟨htY, htx⟩)
            · exact (isEmpty_iff_forall _).mp he t' ((mem_bdiff Y _ t').mpr ⟨ht'Y, ht'x⟩)
          have hr : (Y, binter (parentStates d a l0) Y, bdiff Y (parentStates d a l0)) ∈ (splitAll (parentStates d a l0) p).2 :=
            (splitAll_repl _ p _).mpr ⟨Y, hY, hne, rfl⟩
          exact updateW_new _ _ hx w _ hr t t' htY ht'Y htx ht'x
        · have ht'x : t' ∈ parentStates d a l0 := Decidable.byContradiction fun hc => hsep ⟨fun h => absurd h htx, fun h => absurd h hc⟩
          have hne : ¬ ((binter (parentStates d a l0) Y).isEmpty = true ∨ (bdiff Y (parentStates d a l0)).isEmpty = true) := by
            rintro (he | he)
            · exact (isEmpty_iff_forall _).mp he t' ((mem_binter _ Y t').mpr ⟨ht'Y, ht'x⟩)
            · exact (isEmpty_iff_forall _).mp he t ((mem_bdiff Y _ t).mpr ⟨htY, htx⟩)
          have hr : (Y, binter (parentStates d a l0) Y, bdiff Y (parentStates d a l0)) ∈ (splitAll (parentStates d a l0) p).2 :=
            (splitAll_repl _ p _).mpr ⟨Y, hY, hne, rfl⟩
          obtain ⟨B, hB, hd⟩ := updateW_new _ _ hx w _ hr t' t ht'Y htY ht'x htx
          refine ⟨B, hB, ?_⟩
          simp only [Dist] at hd ⊢
          rcases hd with ⟨h1, h2⟩ | ⟨h1, h2⟩
          · exact Or.inr ⟨h2, h1⟩
          · exact Or.inl ⟨h2, h1⟩

/-- all labels of the alphabet for one popped block -/
theorem refineByAlphabet_inv {d : Dfa} (h : TreeInv d) (a : Block) (ls : List Grapheme) (hls : ∀ l ∈ ls, l.Simple) :
    ∀ (p w : List Block), InvA d p w a ls →
      Inv d (refineByAlphabet d a ls (p, w)).1 (refineByAlphabet d a ls (p, w)).2 := by
  induction ls with
  | nil =>
    intro p w hinv q q' l hsame hdis
    rcases hinv q q' l hsame hdis with hw | ⟨hl, _⟩
    · exact hw
    · simp at hl
  | cons l0 rest ih =>
    intro p w hinv
    simp only [refineByAlphabet]
    exact ih (fun l hl => hls l (List.mem_cons_of_mem _ hl)) _ _
      (invA_step h p w a l0 (hls l0 (List.mem_cons_self)) rest hinv)

/-- every label that has a successor somewhere is in the alphabet -/
def AlphabetCovers (d : Dfa) : Prop := ∀ e ∈ d.edges, e.label ∈ d.alphabet

theorem label_of_succ {d : Dfa} (h : TreeInv d) (hal : AlphabetCovers d) (q : Nat) (l : Grapheme) (t : Nat)
    (hs : succ d q l = some t) : l ∈ d.alphabet := by
  obtain ⟨e, he, _, hl, _⟩ := (succ_eq_some h q l t).mp hs
  rw [← hl]; exact hal e he

/-- **the refinement loop keeps the invariant; when the work list is empty the partition is stable** -/
theorem refineLoop_inv {d : Dfa} (h : TreeInv d) (hal : AlphabetCovers d) (hsimple : ∀ l ∈ d.alphabet, l.Simple) :
    ∀ (fuel : Nat) (p w : List Block), Inv d p w → ∀ p', refineLoop d fuel p w = some p' → Inv d p' [] := by
  intro fuel
  induction fuel with
  | zero =>
    intro p w hinv p' hp'
    cases w with
    | nil => simp only [refineLoop, Option.some.injEq] at hp'; subst hp'; exact hinv
    | cons a w => simp [refineLoop] at hp'
  | succ fuel ih =>
    intro p w hinv p' hp'
    cases w with
    | nil => simp only [refineLoop, Option.some.injEq] at hp'; subst hp'; exact hinv
    | cons a w =>
      simp only [refineLoop] at hp'
      apply ih _ _ _ p' hp'
      apply refineByAlphabet_inv h a d.alphabet hsimple
      intro q q' l hsame hdis
      obtain ⟨B, hB, hd⟩ := hinv q q' l hsame hdis
      simp only [List.mem_cons] at hB
      rcases hB with rfl | hB
      · right
        refine ⟨?_, hd⟩
        -- some successor exists, hence the label is in the alphabet
        cases hs : succ d q l with
        | some t => exact label_of_succ h hal q l t hs
        | none =>
          cases hs' : succ d q' l with
          | some t' => exact label_of_succ h hal q' l t' hs'
          | none => simp [hs, hs', Disagree] at hdis
      · exact Or.inl ⟨B, hB, hd⟩

/-- stability: two states of one block have their successors in one block, or both have none -/
theorem stable_of_inv_nil {d : Dfa} {p : List Block} (hinv : Inv d p []) (q q' : Nat) (l : Grapheme)
    (hsame : SameBlock p q q') : ¬ Disagree p (succ d q l) (succ d q' l) := by
  intro hdis
  obtain ⟨B, hB, _⟩ := hinv q q' l hsame hdis
  simp at hB

end Dfa
end Grexv
