import Grexv.Lemmas.PrintParseTopR
import Grexv.Lemmas.PrintSafe
import Grexv.Lemmas.ExactR

/-
The printed body of a `-r` expression never starts with something `Regex::new` would read as a flag group (needed when the start anchor
is disabled), and the printed text between any combination of the two anchors is read as the items `bothR`.
-/
set_option linter.unusedSimpArgs false
set_option linter.unusedVariables false
namespace Grexv
open Spec

theorem unitText_head40 (esc : Bool) (ass : List (List Atom)) (hok : AssOK ass) :
    ∃ h tl, R (unitText esc ass) = h :: tl ∧ h ≠ 40 := by
  obtain ⟨hne, hall⟩ := hok
  cases ass with
  | nil => exact absurd rfl hne
  | cons as r =>
    obtain ⟨h1, h2⟩ := hall as List.mem_cons_self
    obtain ⟨hd, tl, htl, hne40⟩ := R_escape_head40 false esc as h1 h2
    rw [RV_false] at htl
    simp only [unitText, List.flatMap_cons, R_append, strText, htl, List.cons_append]
    exact ⟨hd, _, rfl, hne40⟩

theorem lp_safe (cap : Bool) (t : Str) (ht : t.head? ≠ some 63) (hne : t ≠ []) : Safe (lp cap ++ t) := by
  cases cap with
  | false => exact Or.inr ⟨40, _, rfl, Or.inr ⟨63, _, rfl, Or.inr rfl⟩⟩
  | true =>
    cases t with
    | nil => exact absurd rfl hne
    | cons a r =>
      simp only [List.head?_cons, ne_eq, Option.some.injEq] at ht
      exact Or.inr ⟨40, _, rfl, Or.inr ⟨a, r, rfl, Or.inl ht⟩⟩

theorem nText_safe (cap esc : Bool) (g : Grapheme) (h : GOK g) : Safe (R (nText cap esc g)) := by
  obtain ⟨chars, reps, mn, mx⟩ := g
  rcases GOK_cases chars reps mn mx h with ⟨as, hne, hok, rfl, rfl, rfl, rfl⟩ | ⟨ass, hok, rfl, rfl, hc, hb⟩ |
    ⟨ass, hok, rfl, h2, hr, hl, hc, hb⟩
  · rw [nText_plain]
    obtain ⟨x, tl, hp, hx⟩ := R_escape_head40 false esc as hne hok
    rw [RV_false] at hp
    exact safe_of_head x tl hp hx
  · rw [nText_flat, fmt_counted cap esc ass hok mn mx hc]
    split
    · obtain ⟨x, tl, hp, hx⟩ := unitText_head40 esc ass hok
      rw [R_append, hp]
      exact safe_of_head x _ rfl hx
    · simp only [R_append, R_lp, List.append_assoc]
      apply lp_safe
      · exact unitText_head esc ass hok _
      · obtain ⟨x, tl, hp, _⟩ := unitText_head40 esc ass hok
        rw [hp]; simp
  · rw [nText_nested cap esc ass hok h2 reps hr mn mx hc]
    simp only [R_append, R_lp, List.append_assoc]
    have h41 : R [41] = [41] := by decide
    rw [h41]
    apply lp_safe
    · exact flatMap_head cap esc reps hl _ (by simp)
    · simp

theorem literal_safeR (cap esc : Bool) : ∀ (c : Cluster), GOKL c → Safe (R (fmtLiteral (cfgPlain cap esc) c))
  | [], _ => Or.inl (by simp [fmtLiteral, R_nil])
  | g :: gs, h => by
    have h' := h
    simp only [GOKL] at h'
    rw [fmtLiteral_text cap esc (g :: gs) h]
    simp only [List.flatMap_cons, R_append]
    have := literal_safeR cap esc gs h'.2
    rw [fmtLiteral_text cap esc gs h'.2] at this
    exact safe_append (nText_safe cap esc g h'.1) this

theorem sub_safeR (cap esc : Bool) (outer : Nat) (fb : Bool) (e : Expr) (hP : PPR cap esc e)
    (hs : Safe (R (fmtExpr (cfgPlain cap esc) e))) : Safe (R (fmtSub (cfgPlain cap esc) outer fb e)) := by
  rw [fmtSub_eq]
  split
  · rw [R_append, R_lp]
    cases cap with
    | false => exact Or.inr ⟨40, _, rfl, Or.inr ⟨63, _, rfl, Or.inr rfl⟩⟩
    | true =>
      have hh := hP.head [41] (by simp)
      rw [R_append]
      have h41 : R [41] = [41] := by decide
      rw [h41]
      cases ht : R (fmtExpr (cfgPlain true esc) e) ++ [41] with
      | nil => simp at ht
      | cons a r =>
        rw [ht] at hh
        simp only [List.head?_cons, ne_eq, Option.some.injEq] at hh
        exact Or.inr ⟨40, _, rfl, Or.inr ⟨a, r, rfl, Or.inl hh⟩⟩
  · exact hs

mutual
theorem Expr.safeR (cap esc : Bool) : ∀ (e : Expr), e.WFR → Safe (R (fmtExpr (cfgPlain cap esc) e))
  | .lit c, h => by simp only [fmtExpr]; exact literal_safeR cap esc c h
  | .cls cs, h => by
    simp only [fmtExpr]; rw [← RV_false (fmtClass (cfgPlain cap esc) cs), fmtClass_text false]; exact safe_of_head 91 _ rfl (by decide)
  | .cat a b, h => by
    have htext : R (fmtExpr (cfgPlain cap esc) (.cat a b)) = R (fmtSub (cfgPlain cap esc) 2 true a) ++ R (fmtSub (cfgPlain cap esc) 2 true b) := by
      simp only [fmtExpr, R_append]
    rw [htext]
    exact safe_append (sub_safeR cap esc 2 true a (Expr.ppR cap esc a h.1) (Expr.safeR cap esc a h.1))
      (sub_safeR cap esc 2 true b (Expr.ppR cap esc b h.2) (Expr.safeR cap esc b h.2))
  | .rep e q, h => by
    obtain ⟨rfl, hnr, hwf⟩ := h
    have htext : R (fmtExpr (cfgPlain cap esc) (.rep e .question)) = R (fmtSub (cfgPlain cap esc) 3 false e) ++ [63] := by
      simp only [fmtExpr, R_append, Comp.quantifier, cfgPlain, paint, Gen.strQuestion, Bool.false_eq_true, ite_false,
        List.append_nil]
      have h63 : R [63] = [63] := by decide
      rw [h63]
    rw [htext]
    exact safe_append (sub_safeR cap esc 3 false e (Expr.ppR cap esc e hwf) (Expr.safeR cap esc e hwf))
      (safe_of_head 63 [] rfl (by decide))
  | .alt os, h => by
    simp only [fmtExpr]
    exact Expr.safeLR cap esc os h.2
theorem Expr.safeLR (cap esc : Bool) : ∀ (os : List Expr), Expr.WFLR os → Safe (R (fmtAlt (cfgPlain cap esc) os))
  | [], _ => Or.inl (by simp [fmtAlt, R_nil])
  | [o], h => by
    have htext : fmtAlt (cfgPlain cap esc) [o] = fmtExpr (cfgPlain cap esc) o := by
      simp only [fmtAlt]; rw [fmtSub_eq, parenQ1_false]; simp
    rw [htext]
    exact Expr.safeR cap esc o h.2.1
  | o :: o2 :: os, h => by
    have htext : R (fmtAlt (cfgPlain cap esc) (o :: o2 :: os)) =
        R (fmtExpr (cfgPlain cap esc) o) ++ ([124] ++ R (fmtAlt (cfgPlain cap esc) (o2 :: os))) := by
      simp only [fmtAlt]
      rw [fmtSub_eq, parenQ1_false]
      simp only [Bool.false_eq_true, ite_false, cfgPlain, Comp.pipe, paint, Gen.strPipe, R_append]
      simp [show R [124] = [124] from by decide]
    rw [htext]
    exact safe_append (Expr.safeR cap esc o h.2.1) (safe_of_head 124 _ rfl (by decide))
end

theorem body_safeR (cap esc : Bool) (e : Expr) (hwf : e.WFR) : Safe (R (bodyText (cfgPlain cap esc) e)) := by
  rw [bodyText_eq]
  cases ha : e.isAlt with
  | false => simp only [Bool.false_eq_true, ite_false]; exact Expr.safeR cap esc e hwf
  | true =>
    simp only [ite_true]
    rw [R_append, R_lp]
    cases cap with
    | false => exact Or.inr ⟨40, _, rfl, Or.inr ⟨63, _, rfl, Or.inr rfl⟩⟩
    | true =>
      have hh := (Expr.ppR true esc e hwf).head [41] (by simp)
      rw [R_append]
      have h41 : R [41] = [41] := by decide
      rw [h41]
      cases ht : R (fmtExpr (cfgPlain true esc) e) ++ [41] with
      | nil => simp at ht
      | cons a r =>
        rw [ht] at hh
        simp only [List.head?_cons, ne_eq, Option.some.injEq] at hh
        exact Or.inr ⟨40, _, rfl, Or.inr ⟨a, r, rfl, Or.inl hh⟩⟩

theorem loop_printedAR (cap esc ns ne : Bool) (e : Expr) (hwf : e.WFR) (F : Nat)
    (hF : (R (bodyText (cfgPlain cap esc) e)).length + 3 ≤ F) :
    parseLoop false F (preT ns ++ (R (bodyText (cfgPlain cap esc) e) ++ postT ne)) [] [] [] =
      some (catList (preA ns ++ (topItemsR cap esc e ++ postA ne))) := by
  have hlen := top_lenR cap esc e hwf
  have hbody := fun f rest co h => top_parseR cap esc e hwf f rest co h
  generalize topToksR cap esc e = T at hlen hbody
  generalize R (bodyText (cfgPlain cap esc) e) = B at hlen hbody hF
  cases ns <;> cases ne
  · -- ^ body $
    have hfuel : F = ((((F - T - 3)) + 1 + 1) + T) + 1 := by omega
    rw [hfuel]
    simp only [preT, postT, Bool.false_eq_true, ite_false, List.singleton_append]
    rw [step_caret, hbody _ _ _ (by simp), step_dollar, step_end]
    simp [closeFrame, altList, preA, postA]
  · -- ^ body
    have hfuel : F = (((F - T - 2) + 1) + T) + 1 := by omega
    rw [hfuel]
    simp only [preT, postT, Bool.false_eq_true, ite_false, ite_true, List.singleton_append, List.append_nil]
    have := hbody ((F - T - 2) + 1) [] [Pat.bol] (by simp)
    rw [List.append_nil] at this
    rw [step_caret, this, step_end]
    simp [closeFrame, altList, preA, postA]
  · -- body $
    have hfuel : F = (((F - T - 2) + 1) + 1) + T := by omega
    rw [hfuel]
    simp only [preT, postT, Bool.false_eq_true, ite_false, ite_true, List.nil_append]
    rw [hbody _ _ _ (by simp), step_dollar, step_end]
    simp [closeFrame, altList, preA, postA]
  · -- body
    have hfuel : F = ((F - T - 1) + 1) + T := by omega
    rw [hfuel]
    simp only [preT, postT, ite_true, List.nil_append, List.append_nil]
    have := hbody ((F - T - 1) + 1) [] [] (by simp)
    rw [List.append_nil] at this
    rw [this, step_end]
    simp [closeFrame, altList, preA, postA]

theorem parse_printedAR (cap esc ns ne : Bool) (e : Expr) (hwf : e.WFR) :
    Spec.parse (fmtRegExp (cfgAnch cap esc ns ne) e) =
      some (⟨false, false⟩, catList (preA ns ++ (topItemsR cap esc e ++ postA ne))) := by
  rw [fmtRegExp_anch]
  have hsafe := body_safeR cap esc e hwf
  have hflags : parseFlags (preT ns ++ (R (bodyText (cfgPlain cap esc) e) ++ postT ne)) =
      (⟨false, false⟩, preT ns ++ (R (bodyText (cfgPlain cap esc) e) ++ postT ne)) := by
    cases ns with
    | false => simp [preT, parseFlags]
    | true =>
      simp only [preT, ite_true, List.nil_append]
      apply parseFlags_safe _ hsafe
      cases ne <;> simp [postT]
  simp only [Spec.parse, hflags]
  have := loop_printedAR cap esc ns ne e hwf
    (2 * (preT ns ++ (R (bodyText (cfgPlain cap esc) e) ++ postT ne)).length + 4)
    (by simp only [List.length_append]; omega)
  rw [this]
  rfl

theorem fullMatch_items_anchC (i ns ne : Bool) (its : List Pat) (hf : ∀ p ∈ its, p.FragC) (s : List Nat) :
    fullMatch i (catList (preA ns ++ (its ++ postA ne))) s = true ↔ denLC i its s := by
  cases ns <;> cases ne
  · exact fullMatch_anchored_itemsC i its hf s
  · -- ^ items
    simp only [preA, postA, Bool.false_eq_true, ite_false, ite_true, List.append_nil, List.singleton_append]
    cases its with
    | nil =>
      simp only [catList, fullMatch, matchP, ite_true, List.any_cons, List.any_nil, Bool.or_false, denLC, List.isEmpty_iff]
    | cons p ps =>
      have hL : catList (Pat.bol :: p :: ps) = Pat.cat Pat.bol (catList (p :: ps)) := rfl
      rw [hL, ← denC_catList i]
      have := fullMatch_iffC i (catList (p :: ps)) (fragC_catList _ hf) s
      rw [← this]
      simp only [fullMatch, matchP, ite_true, List.flatMap_cons, List.flatMap_nil, List.append_nil]
  · -- items $
    simp only [preA, postA, Bool.false_eq_true, ite_false, ite_true, List.nil_append]
    simp only [fullMatch, List.any_eq_true, List.isEmpty_iff]
    rw [← denC_catList i]
    constructor
    · rintro ⟨st, hst, he⟩
      obtain ⟨h1, _⟩ := (matchP_catList_eol i its 0 s st).mp hst
      obtain ⟨u, hu, hs, _⟩ := (matchP_exactC i _ (fragC_catList its hf) 0 s st).mp h1
      rw [he] at hs
      simp at hs; subst hs; exact hu
    · intro h
      refine ⟨(s.length, []), ?_, rfl⟩
      apply (matchP_catList_eol i its 0 s _).mpr
      exact ⟨(matchP_exactC i _ (fragC_catList its hf) 0 s _).mpr ⟨s, h, by simp, by simp⟩, rfl⟩
  · -- items
    simp only [preA, postA, ite_true, List.nil_append, List.append_nil]
    rw [← denC_catList i]
    exact fullMatch_iffC i (catList its) (fragC_catList _ hf) s

theorem flags_printedAR (cap esc ns ne : Bool) (e : Expr) (hwf : e.WFR) :
    parseFlags (fmtRegExp (cfgAnch cap esc ns ne) e) = (⟨false, false⟩, fmtRegExp (cfgAnch cap esc ns ne) e) := by
  rw [fmtRegExp_anch]
  cases ns with
  | false => simp [preT, parseFlags]
  | true =>
    simp only [preT, ite_true, List.nil_append]
    apply parseFlags_safe _ (body_safeR cap esc e hwf)
    cases ne <;> simp [postT]

/-- **the printed `-r` pattern, exactly, with any combination of the two anchors and `(?i)`** (plain printing): the text is accepted by
the model of `Regex::new`, and the compiled pattern matches a string of scalar values in full iff a label sequence of the expression
spells it -/
theorem printed_exactAR (i cap esc ns ne : Bool) (e : Expr) (hwf : e.WFS) (s : Str) (hs : ∀ c ∈ s, Scalar c) :
    ∃ P, Spec.parse (ciPrefix i ++ fmtRegExp (cfgAnch cap esc ns ne) e) = some (⟨i, false⟩, P) ∧
      (Spec.fullMatch i P s = true ↔ e.strLangR i s) := by
  have hwr := Expr.WFS.toWFR e hwf
  refine ⟨_, parse_ci_prefixG _ _ (flags_printedAR cap esc ns ne e hwr) (parse_printedAR cap esc ns ne e hwr) i, ?_⟩
  have hfr := Expr.bothR_fragC cap esc e hwr
  have hd := Expr.bothR_den i cap esc e hwf s hs
  have hitems : ∀ p ∈ topItemsR cap esc e, p.FragC := by
    unfold topItemsR
    split
    · intro p hp; simp only [List.mem_singleton] at hp; subst hp; exact hfr.2
    · exact hfr.1
  rw [fullMatch_items_anchC i ns ne _ hitems]
  unfold topItemsR
  cases ha : e.isAlt with
  | true => simp only [ite_true, denLC_single, Pat.denC]; exact hd.2
  | false => simp only [Bool.false_eq_true, ite_false]; exact hd.1 ha

end Grexv
