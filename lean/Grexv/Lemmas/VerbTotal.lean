import Grexv.Lemmas.EndToEndRV
import Grexv.Lemmas.ColorStrip2

/-
The last `unwrap()` of `RegExp::from`: with both anchors disabled and verbose mode on, the first candidate is compiled a second time
from its text with the line breaks removed.  That text is the text printed without verbose mode, which the model of `Regex::new`
accepts — so the `unwrap()` cannot fail and `build()` is total.
-/
set_option linter.unusedSimpArgs false
set_option linter.unusedVariables false
namespace Grexv
open Spec

/-- remove the line feeds -/
def dropLF (s : Str) : Str := s.filter (· ≠ 10)

theorem dropLF_append (a b : Str) : dropLF (a ++ b) = dropLF a ++ dropLF b := by simp [dropLF]
theorem dropLF_nil : dropLF [] = [] := rfl
theorem dropLF_lf : dropLF [10] = [] := by decide
theorem dropLF_id (s : Str) (h : 10 ∉ s) : dropLF s = s := by
  unfold dropLF
  apply List.filter_eq_self.mpr
  intro a ha
  simp only [ne_eq, decide_not, Bool.not_eq_true', decide_eq_false_iff_not]
  intro e; subst e; exact h ha
theorem dropLF_ite (b : Bool) : dropLF (if b then [10] else []) = [] := by cases b <;> decide
theorem dropLF_flatMap {α : Type} (l : List α) (f : α → Str) : dropLF (l.flatMap f) = l.flatMap (fun x => dropLF (f x)) := by
  induction l with
  | nil => rfl
  | cons a r ih => simp only [List.flatMap_cons, dropLF_append, ih]

/-- the same settings without verbose mode -/
def noVerb (cfg : Config) : Config := { cfg with verb := false }

theorem replaceChar_not_mem (c : Nat) (r s : Str) (hr : 10 ∉ r) (hs : 10 ∉ s) : 10 ∉ replaceChar c r s := by
  unfold replaceChar
  intro h
  obtain ⟨x, hx, hm⟩ := List.mem_flatMap.mp h
  split at hm
  · exact hr hm
  · simp only [List.mem_singleton] at hm; subst hm; exact hs hx

theorem replaceChar_removes (r s : Str) (hr : 10 ∉ r) : 10 ∉ replaceChar 10 r s := by
  unfold replaceChar
  intro h
  obtain ⟨x, hx, hm⟩ := List.mem_flatMap.mp h
  split at hm
  · exact hr hm
  · rename_i hne
    simp only [List.mem_singleton] at hm
    exact hne hm.symm

theorem foldl_escape_noLF (cs : List Nat) (h10 : 10 ∉ cs) : ∀ (s : Str), (10 ∈ cs.foldl (fun acc c => replaceChar c [92, c] acc) s → 10 ∈ s) := by
  induction cs with
  | nil => intro s h; exact h
  | cons c r ih =>
    intro s h
    have hc : c ≠ 10 := fun e => h10 (by simp [e])
    have := ih (fun e => h10 (List.mem_cons_of_mem _ e)) _ h
    -- 10 ∈ replaceChar c [92,c] s → 10 ∈ s
    unfold replaceChar at this
    obtain ⟨x, hx, hm⟩ := List.mem_flatMap.mp this
    split at hm
    · simp only [List.mem_cons, List.mem_nil_iff, or_false] at hm
      rcases hm with hm | hm
      · omega
      · exact absurd hm.symm hc
    · simp only [List.mem_singleton] at hm; subst hm; exact hx

theorem escapeSymbols_noLF (s : Str) : 10 ∉ escapeSymbols s := by
  unfold escapeSymbols
  simp only []
  have h1 : 10 ∉ replaceChar 9 [92, 116] (replaceChar 13 [92, 114] (replaceChar 10 [92, 110]
      (Gen.charsToEscape.foldl (fun acc c => replaceChar c [92, c] acc) s))) := by
    apply replaceChar_not_mem _ _ _ (by decide)
    apply replaceChar_not_mem _ _ _ (by decide)
    exact replaceChar_removes _ _ (by decide)
  split
  · decide
  · exact h1

theorem toHex_noLF (n : Nat) : 10 ∉ toHex n := by
  rw [toHex_eq]
  intro h
  obtain ⟨d, hd, e⟩ := List.mem_map.mp h
  have hlt : d < 16 := hexDigs_lt 64 n d hd
  exact hexDigit_ne_10 d hlt e

theorem escapeChar_noLF (c : Nat) (sur : Bool) (hc : c ≠ 10) : 10 ∉ Expr.escapeChar c sur := by
  unfold Expr.escapeChar
  have hhex : ∀ n, 10 ∉ ([92, 117, 123] ++ toHex n ++ [125] : Str) := by
    intro n h
    simp only [List.mem_append, List.mem_cons, List.mem_nil_iff, or_false] at h
    rcases h with (h | h) | h
    · omega
    · exact toHex_noLF n h
    · omega
  split
  · simpa using fun e => hc e.symm
  · split
    · intro h
      simp only [List.append_assoc, List.mem_append] at h
      rcases h with h | h | h | h | h | h
      · simp at h
      · exact toHex_noLF _ h
      · simp at h
      · simp at h
      · exact toHex_noLF _ h
      · simp at h
    · exact hhex c

/-! ### graphemes -/

mutual
/-- no line feed in what the grapheme will print -/
def GNoLF : Grapheme → Prop
  | .mk chars reps _ _ => (reps = [] → ∀ s ∈ chars, 10 ∉ s) ∧ GNoLFL reps
def GNoLFL : List Grapheme → Prop
  | [] => True
  | g :: gs => GNoLF g ∧ GNoLFL gs
end

theorem escaped_chars_noLF (cfg : Config) (s : Str) :
    10 ∉ (if cfg.esc then (escapeSymbols s).flatMap (fun c => Expr.escapeChar c cfg.sur) else escapeSymbols s) := by
  have h := escapeSymbols_noLF s
  split
  · intro hm
    obtain ⟨c, hc, hmc⟩ := List.mem_flatMap.mp hm
    exact escapeChar_noLF c cfg.sur (fun e => h (e ▸ hc)) hmc
  · exact h

mutual
theorem escapeGrapheme_noLF (cfg : Config) : ∀ (g : Grapheme), GNoLF (escapeGrapheme cfg g)
  | .mk chars reps mn mx => by
    simp only [escapeGrapheme, GNoLF]
    refine ⟨?_, escapeGraphemes_noLF cfg reps⟩
    intro _ s hs
    by_cases he : cfg.esc = true
    · rw [if_pos he] at hs
      simp only [List.mem_map] at hs
      obtain ⟨s1, ⟨s0, _, rfl⟩, rfl⟩ := hs
      have := escaped_chars_noLF cfg s0
      rw [if_pos he] at this
      exact this
    · rw [if_neg he] at hs
      simp only [List.mem_map] at hs
      obtain ⟨s0, _, rfl⟩ := hs
      exact escapeSymbols_noLF s0
theorem escapeGraphemes_noLF (cfg : Config) : ∀ (gs : List Grapheme), GNoLFL (escapeGraphemes cfg gs)
  | [] => by simp [escapeGraphemes, GNoLFL]
  | g :: gs => by
    simp only [escapeGraphemes, GNoLFL]
    exact ⟨escapeGrapheme_noLF cfg g, escapeGraphemes_noLF cfg gs⟩
end

theorem toDec_noLF' (n : Nat) : 10 ∉ toDec n := by
  intro h
  have := toDec_digits n 10 h
  omega

theorem lp_noLF (cap : Bool) : 10 ∉ lp cap := by cases cap <;> decide

/-- the components without colour: verbose mode only adds line feeds -/
theorem paren_drop (cap fb : Bool) (v : Bool) (x : Str) :
    dropLF (Comp.paren cap false v fb x) = lp cap ++ dropLF x ++ [41] := by
  cases v <;> cases cap <;> cases fb <;>
    simp [Comp.paren, Comp.leftParen, Comp.rightParen, paint, lp, dropLF, Gen.strCapturedLeftParen, Gen.strUncapturedLeftParen,
      Gen.strRightParen, List.filter_append]

theorem paren_plain (cap fb : Bool) (x : Str) : Comp.paren cap false false fb x = lp cap ++ x ++ [41] := by
  cases cap <;> simp [Comp.paren, Comp.leftParen, Comp.rightParen, paint, lp, Gen.strCapturedLeftParen, Gen.strUncapturedLeftParen,
    Gen.strRightParen]

theorem repetition_drop (v : Bool) (n : Nat) : dropLF (Comp.repetition false v n) = Comp.repetition false false n ∧
    10 ∉ Comp.repetition false false n := by
  have h0 : 10 ∉ (if n = 0 then Gen.strRepZero else [123] ++ toDec n ++ [125]) := by
    split
    · decide
    · intro h
      simp only [List.mem_append, List.mem_cons, List.mem_nil_iff, or_false] at h
      rcases h with (h | h) | h
      · omega
      · exact toDec_noLF' n h
      · omega
  have hp : Comp.repetition false false n = (if n = 0 then Gen.strRepZero else [123] ++ toDec n ++ [125]) := by
    simp [Comp.repetition, paint]
  refine ⟨?_, by rw [hp]; exact h0⟩
  rw [hp]
  cases v
  · rw [← hp]; exact dropLF_id _ (by rw [hp]; exact h0)
  · simp only [Comp.repetition, paint, Bool.false_eq_true, ite_false, ite_true, dropLF_append, dropLF_lf, List.append_nil]
    exact dropLF_id _ h0

theorem repetitionRange_drop (v : Bool) (m n : Nat) : dropLF (Comp.repetitionRange false v m n) = Comp.repetitionRange false false m n ∧
    10 ∉ Comp.repetitionRange false false m n := by
  have h0 : 10 ∉ (if (m = 0 && n = 0) = true then Gen.strRepRangeZero else [123] ++ toDec m ++ [44] ++ toDec n ++ [125]) := by
    split
    · decide
    · intro h
      simp only [List.mem_append, List.mem_cons, List.mem_nil_iff, or_false] at h
      rcases h with (((h | h) | h) | h) | h
      · omega
      · exact toDec_noLF' m h
      · omega
      · exact toDec_noLF' n h
      · omega
  have hp : Comp.repetitionRange false false m n =
      (if (m = 0 && n = 0) = true then Gen.strRepRangeZero else [123] ++ toDec m ++ [44] ++ toDec n ++ [125]) := by
    simp [Comp.repetitionRange, paint]
  refine ⟨?_, by rw [hp]; exact h0⟩
  rw [hp]
  cases v
  · rw [← hp]; exact dropLF_id _ (by rw [hp]; exact h0)
  · simp only [Comp.repetitionRange, paint, Bool.false_eq_true, ite_false, ite_true, dropLF_append, dropLF_lf, List.append_nil]
    exact dropLF_id _ h0

/-- what is proved of every piece of text: without its line feeds the verbose text is the plain text, which has none -/
def DropOK (tv tp : Str) : Prop := dropLF tv = tp ∧ 10 ∉ tp

theorem DropOK.append {a b c d : Str} (h1 : DropOK a b) (h2 : DropOK c d) : DropOK (a ++ c) (b ++ d) :=
  ⟨by rw [dropLF_append, h1.1, h2.1], by simp [h1.2, h2.2]⟩
theorem DropOK.nil : DropOK [] [] := ⟨rfl, by simp⟩
theorem DropOK.same (t : Str) (h : 10 ∉ t) : DropOK t t := ⟨dropLF_id t h, h⟩

theorem noVerb_fields (cfg : Config) : (noVerb cfg).color = cfg.color ∧ (noVerb cfg).cap = cfg.cap ∧ (noVerb cfg).verb = false := ⟨rfl, rfl, rfl⟩

/-- one grapheme, given the statement for its nested repetitions -/
theorem drop_fmtGrapheme_step (cfg : Config) (hcol : cfg.color = false) (chars : List Str) (reps : List Grapheme) (mn mx : Nat)
    (hc : reps = [] → ∀ s ∈ chars, 10 ∉ s)
    (hr : reps ≠ [] → DropOK (fmtGraphemes cfg reps) (fmtGraphemes (noVerb cfg) reps)) :
    DropOK (fmtGrapheme cfg (.mk chars reps mn mx)) (fmtGrapheme (noVerb cfg) (.mk chars reps mn mx)) := by
  rw [fmtGrapheme, fmtGrapheme]
  have hv0 : DropOK (if reps.isEmpty then chars.flatten else fmtGraphemes cfg reps)
      (if reps.isEmpty then chars.flatten else fmtGraphemes (noVerb cfg) reps) := by
    by_cases he : reps.isEmpty = true
    · simp only [he, ite_true]
      apply DropOK.same
      intro hm
      obtain ⟨s, hs, hms⟩ := List.mem_flatten.mp hm
      exact hc (List.isEmpty_iff.mp he) s hs hms
    · simp only [he, Bool.false_eq_true, ite_false]
      exact hr (fun h => he (by simp [h]))
  simp only [noVerb] at hv0 ⊢
  generalize (if reps.isEmpty = true then chars.flatten else fmtGraphemes cfg reps) = vT at hv0 ⊢
  generalize (if reps.isEmpty = true then chars.flatten else fmtGraphemes { cfg with verb := false } reps) = vP at hv0 ⊢
  simp only [hcol, Bool.false_and, Comp.charClass, paint, Bool.false_eq_true, ite_false]
  have hrep := fun v => repetition_drop v mn
  have hrng := fun v => repetitionRange_drop v mn mx
  have hparen : ∀ (fb : Bool), DropOK (Comp.paren cfg.cap false cfg.verb fb vT) (Comp.paren cfg.cap false false fb vP) := by
    intro fb
    refine ⟨by rw [paren_drop, paren_plain, hv0.1], ?_⟩
    rw [paren_plain]
    intro hm
    simp only [List.mem_append, List.mem_singleton] at hm
    rcases hm with (hm | hm) | hm
    · exact lp_noLF cfg.cap hm
    · exact hv0.2 hm
    · omega
  repeat' split
  all_goals first
    | exact DropOK.append hv0 (hrep false)
    | exact DropOK.append (hparen false) (hrep cfg.verb)
    | exact DropOK.append hv0 (hrng false)
    | exact DropOK.append (hparen false) (hrng cfg.verb)
    | exact hv0

mutual
theorem drop_fmtGrapheme (cfg : Config) (hcol : cfg.color = false) : ∀ (g : Grapheme), GNoLF g →
    DropOK (fmtGrapheme cfg g) (fmtGrapheme (noVerb cfg) g)
  | .mk chars reps mn mx, h => by
    apply drop_fmtGrapheme_step cfg hcol chars reps mn mx h.1
    intro _
    exact drop_fmtGraphemes cfg hcol reps h.2
theorem drop_fmtGraphemes (cfg : Config) (hcol : cfg.color = false) : ∀ (gs : List Grapheme), GNoLFL gs →
    DropOK (fmtGraphemes cfg gs) (fmtGraphemes (noVerb cfg) gs)
  | [], _ => by simp only [fmtGraphemes]; exact DropOK.nil
  | g :: gs, h => by
    simp only [fmtGraphemes]
    exact DropOK.append (drop_fmtGrapheme cfg hcol g h.1) (drop_fmtGraphemes cfg hcol gs h.2)
end

mutual
theorem escapeGrapheme_noVerb (cfg : Config) : ∀ (g : Grapheme), escapeGrapheme (noVerb cfg) g = escapeGrapheme cfg g
  | .mk chars reps mn mx => by
    simp only [escapeGrapheme, noVerb]
    rw [show escapeGraphemes { cfg with verb := false } reps = escapeGraphemes cfg reps from escapeGraphemes_noVerb cfg reps]
    rfl
theorem escapeGraphemes_noVerb (cfg : Config) : ∀ (gs : List Grapheme), escapeGraphemes (noVerb cfg) gs = escapeGraphemes cfg gs
  | [] => by simp [escapeGraphemes]
  | g :: gs => by
    simp only [escapeGraphemes]
    rw [escapeGrapheme_noVerb cfg g, escapeGraphemes_noVerb cfg gs]
end

theorem drop_fmtLiteral (cfg : Config) (hcol : cfg.color = false) (c : Cluster) :
    DropOK (fmtLiteral cfg c) (fmtLiteral (noVerb cfg) c) := by
  unfold fmtLiteral
  induction c with
  | nil => exact DropOK.nil
  | cons g gs ih =>
    simp only [List.flatMap_cons]
    refine DropOK.append ?_ ih
    simp only [escapeGrapheme_noVerb, escapeGraphemes_noVerb]
    apply drop_fmtGrapheme cfg hcol
    split
    · rename_i hne
      have hne' : g.reps ≠ [] := by intro hc; rw [hc] at hne; simp at hne
      refine ⟨?_, escapeGraphemes_noLF cfg g.reps⟩
      intro hc
      cases hg : g.reps with
      | nil => exact absurd hg hne'
      | cons a as => rw [hg] at hc; simp [escapeGraphemes] at hc
    · exact escapeGrapheme_noLF cfg g

/-! ### classes and expressions -/

theorem escapeClassChar_noLF (c : Nat) : 10 ∉ escapeClassChar c := by
  unfold escapeClassChar
  have h10 : Gen.classEscapeChars.contains 10 = false := by decide
  split
  · rename_i hc
    intro hm
    simp only [List.mem_cons, List.mem_nil_iff, or_false] at hm
    rcases hm with hm | hm
    · omega
    · rw [← hm, h10] at hc; cases hc
  · by_cases h10c : c = 10
    · simp only [h10c, ite_true]; decide
    · simp only [h10c, ite_false]
      repeat' split
      all_goals first
        | decide
        | (intro hm; simp only [List.mem_singleton] at hm; exact h10c hm.symm)

theorem drop_fmtClass (cfg : Config) (hcol : cfg.color = false) (cs : List Nat) :
    DropOK (fmtClass cfg cs) (fmtClass (noVerb cfg) cs) := by
  have e : fmtClass (noVerb cfg) cs = fmtClass cfg cs := rfl
  rw [e]
  apply DropOK.same
  unfold fmtClass
  simp only [hcol, Comp.leftBracket, Comp.rightBracket, Comp.hyphen, paint, Bool.false_eq_true, ite_false]
  intro hm
  simp only [List.mem_append] at hm
  rcases hm with (hm | hm) | hm
  · revert hm; decide
  · obtain ⟨r, _, hmr⟩ := List.mem_flatMap.mp hm
    split at hmr
    · obtain ⟨c, _, hc⟩ := List.mem_flatMap.mp hmr
      exact escapeClassChar_noLF c hc
    · simp only [List.mem_append] at hmr
      rcases hmr with (h | h) | h
      · exact escapeClassChar_noLF _ h
      · revert h; decide
      · exact escapeClassChar_noLF _ h
  · revert hm; decide

theorem quantifier_drop (v : Bool) (q : Quant) : DropOK (Comp.quantifier false v q) (Comp.quantifier false false q) := by
  cases v <;> cases q <;> exact ⟨by decide, by decide⟩

theorem isSingleCodepoint_noVerb (cfg : Config) (e : Expr) : e.isSingleCodepoint (noVerb cfg) = e.isSingleCodepoint cfg :=
  isSingleCodepoint_congr (c1 := noVerb cfg) (c2 := cfg) rfl e

theorem paren_dropOK (cap fb v : Bool) (xv xp : Str) (h : DropOK xv xp) :
    DropOK (Comp.paren cap false v fb xv) (Comp.paren cap false false fb xp) := by
  refine ⟨by rw [paren_drop, paren_plain, h.1], ?_⟩
  rw [paren_plain]
  intro hm
  simp only [List.mem_append, List.mem_singleton] at hm
  rcases hm with (hm | hm) | hm
  · exact lp_noLF cap hm
  · exact h.2 hm
  · omega

mutual
theorem drop_fmtExpr (cfg : Config) (hcol : cfg.color = false) : ∀ (e : Expr), DropOK (fmtExpr cfg e) (fmtExpr (noVerb cfg) e)
  | .alt os => by simp only [fmtExpr]; exact drop_fmtAlt cfg hcol os
  | .cls cs => by simp only [fmtExpr]; exact drop_fmtClass cfg hcol cs
  | .cat a b => by
    simp only [fmtExpr]
    exact DropOK.append (drop_fmtSub cfg hcol 2 true a) (drop_fmtSub cfg hcol 2 true b)
  | .lit c => by simp only [fmtExpr]; exact drop_fmtLiteral cfg hcol c
  | .rep e q => by
    simp only [fmtExpr]
    refine DropOK.append (drop_fmtSub cfg hcol 3 false e) ?_
    have : (noVerb cfg).color = false := hcol
    rw [hcol, this]
    exact quantifier_drop cfg.verb q
theorem drop_fmtSub (cfg : Config) (hcol : cfg.color = false) (outer : Nat) (fb : Bool) : ∀ (e : Expr),
    DropOK (fmtSub cfg outer fb e) (fmtSub (noVerb cfg) outer fb e)
  | e => by
    rw [fmtSub, fmtSub, isSingleCodepoint_noVerb]
    split
    · have h1 : (noVerb cfg).color = false := hcol
      have h2 : (noVerb cfg).cap = cfg.cap := rfl
      have h3 : (noVerb cfg).verb = false := rfl
      rw [hcol, h1, h2, h3]
      exact paren_dropOK cfg.cap fb cfg.verb _ _ (drop_fmtExpr cfg hcol e)
    · exact drop_fmtExpr cfg hcol e
theorem drop_fmtAlt (cfg : Config) (hcol : cfg.color = false) : ∀ (os : List Expr), DropOK (fmtAlt cfg os) (fmtAlt (noVerb cfg) os)
  | [] => by simp only [fmtAlt]; exact DropOK.nil
  | [o] => by simp only [fmtAlt]; exact drop_fmtSub cfg hcol 1 true o
  | o :: o2 :: os => by
    simp only [fmtAlt]
    refine DropOK.append (DropOK.append (drop_fmtSub cfg hcol 1 true o) ?_) (drop_fmtAlt cfg hcol (o2 :: os))
    have h1 : (noVerb cfg).color = false := hcol
    have h3 : (noVerb cfg).verb = false := rfl
    rw [hcol, h1, h3]
    cases cfg.verb <;> exact ⟨by decide, by decide⟩
end

/-! ### the text of the expression alone is accepted -/

theorem parseLoop_end (f : Nat) (al co : List Pat) : parseLoop false (f + 1) [] [] al co = some (closeFrame al co) := by
  rw [parseLoop]
  simp

/-- **the text `Display for Expression` writes** (no anchors, no group around a top-level alternation — what the self-check compiles) **is
accepted** for every well-formed expression, with or without counted graphemes -/
theorem parse_exprR (cap esc : Bool) (e : Expr) (hwf : e.WFR) :
    ∃ P, Spec.parse (R (fmtExpr (cfgPlain cap esc) e)) = some (⟨false, false⟩, P) := by
  have pe := Expr.ppR cap esc e hwf
  have hsafe := Expr.safeR cap esc e hwf
  have hfl : parseFlags (R (fmtExpr (cfgPlain cap esc) e)) = (⟨false, false⟩, R (fmtExpr (cfgPlain cap esc) e)) := by
    have := parseFlags_safe _ hsafe [] (by simp)
    simpa using this
  simp only [Spec.parse, hfl]
  cases ha : e.isAlt with
  | false =>
    have hlen := pe.len1 ha
    have hit := pe.items ha (2 * (R (fmtExpr (cfgPlain cap esc) e)).length + 4 - (e.toksR cap esc).1 - 1 + 1) [] [] [] [] (by simp)
    have hf : 2 * (R (fmtExpr (cfgPlain cap esc) e)).length + 4 =
        (2 * (R (fmtExpr (cfgPlain cap esc) e)).length + 4 - (e.toksR cap esc).1 - 1 + 1) + (e.toksR cap esc).1 := by omega
    rw [hf]
    simp only [List.append_nil] at hit
    rw [hit, parseLoop_end]
    exact ⟨_, rfl⟩
  | true =>
    cases e with
    | alt os =>
      obtain ⟨hne, hwl⟩ := hwf
      obtain ⟨hpar, _, hlen⟩ := Expr.ppLR cap esc os hwl hne
      simp only [fmtExpr]
      obtain ⟨al', co', hp, _⟩ := hpar (2 * (R (fmtAlt (cfgPlain cap esc) os)).length + 4 - Expr.toksLR cap esc os - 1 + 1) [] [] [] (by simp)
      have hf : 2 * (R (fmtAlt (cfgPlain cap esc) os)).length + 4 =
          (2 * (R (fmtAlt (cfgPlain cap esc) os)).length + 4 - Expr.toksLR cap esc os - 1 + 1) + Expr.toksLR cap esc os := by omega
      rw [hf]
      simp only [List.append_nil] at hp
      rw [hp, parseLoop_end]
      exact ⟨_, rfl⟩
    | cls _ => simp [Expr.isAlt] at ha
    | cat _ _ => simp [Expr.isAlt] at ha
    | lit _ => simp [Expr.isAlt] at ha
    | rep _ _ => simp [Expr.isAlt] at ha

/-! ### the first candidate is well-formed, whatever the settings -/

/-- the clusters handed to the trie: printable, consistent graphemes with one count each — with or without `-r` -/
theorem all_clusters_lit (cfg : Config) (hmr : cfg.rep = true → 1 ≤ cfg.minRep) (env : Env) (ws : List Str)
    (hseg : ∀ w ∈ storedCases cfg env ws, SegOK env w)
    (hlen : cfg.rep = true → ∀ w ∈ storedCases cfg env ws, (subPieces (env.segOf w)).length ≤ 1000) :
    ∀ cl ∈ graphemeClusters cfg env (sortCases (storedCases cfg env ws)), LitS cl ∧ ∀ g ∈ cl, g.min = g.max := by
  have hmem : ∀ w ∈ sortCases (storedCases cfg env ws), w ∈ storedCases cfg env ws := fun w hw => (sortCases_mem' _ w).mp hw
  cases hrep : cfg.rep with
  | true =>
    rw [graphemeClusters_rep cfg env _ hrep, preClusters_eq cfg]
    intro cl hc
    simp only [List.map_map, List.mem_map, Function.comp] at hc
    obtain ⟨w, hw, rfl⟩ := hc
    have hww := hmem w hw
    obtain ⟨hceq, hvals⟩ := preCluster_vals cfg env w (hseg w hww)
    have hl := hlen hrep w hww
    rw [hceq]
    have hl' : (valsOf cfg env w).length ≤ 1000 := by simpa [valsOf] using hl
    refine ⟨convertRepetitions_lit cfg (hmr hrep) _ hvals hl', ?_⟩
    apply convertRepetitions_counts
    intro g hg
    obtain ⟨s, _, rfl⟩ := List.mem_map.mp hg
    rfl
  | false =>
    obtain ⟨f, hcl, hpl⟩ := clusters_atoms cfg hrep env (sortCases (storedCases cfg env ws)) (fun w hw => hseg w (hmem w hw))
    rw [hcl]
    intro cl hc
    obtain ⟨w, hw, rfl⟩ := List.mem_map.mp hc
    have hp := (hpl w hw).1
    constructor
    · intro g hg
      obtain ⟨as, hne, hok, rfl⟩ := hp g hg
      exact lit_ofStr as hne hok
    · intro g hg
      obtain ⟨as, _, _, rfl⟩ := hp g hg
      rfl

theorem first_candidate_wfs (cfg : Config) (hmr : cfg.rep = true → 1 ≤ cfg.minRep) (env : Env) (ws : List Str)
    (hseg : ∀ w ∈ storedCases cfg env ws, SegOK env w)
    (hlen : cfg.rep = true → ∀ w ∈ storedCases cfg env ws, (subPieces (env.segOf w)).length ≤ 1000) (m : Dfa)
    (hm : Dfa.minimize (Dfa.trie (graphemeClusters cfg env (sortCases (storedCases cfg env ws)))) Dfa.pickMin = some m) :
    (Expr.ofDfa cfg m).WFS := by
  have hall := all_clusters_lit cfg hmr env ws hseg hlen
  obtain ⟨m', hm', hw⟩ := min_struct_lit cfg _ (fun cl hc => (hall cl hc).2) (fun cl hc => (hall cl hc).1)
  rw [hm] at hm'
  cases hm'
  exact hw

/-- where `RegExp::from` can fail in the model: the fuel of the refinement loop, or — in verbose mode — the second compilation of the first
candidate -/
theorem error_site (cfg : Config) (env : Env) (ws : List Str) (e : Panic) (he : regExpFrom cfg env ws = .error e) :
    Dfa.minimize (Dfa.trie (graphemeClusters cfg env (sortCases (storedCases cfg env ws)))) Dfa.pickMin = none ∨
    (cfg.verb = true ∧ ∃ m, Dfa.minimize (Dfa.trie (graphemeClusters cfg env (sortCases (storedCases cfg env ws)))) Dfa.pickMin = some m ∧
      Spec.parse (regexText cfg true (Expr.ofDfa cfg m)) = none) := by
  unfold regExpFrom at he
  simp only [] at he
  change (match Dfa.minimize (Dfa.trie (graphemeClusters cfg env (sortCases (storedCases cfg env ws)))) Dfa.pickMin with
    | none => _ | some dmin => _) = _ at he
  cases hm : Dfa.minimize (Dfa.trie (graphemeClusters cfg env (sortCases (storedCases cfg env ws)))) Dfa.pickMin with
  | none => left; rfl
  | some m =>
    right
    rw [hm] at he
    simp only [] at he
    split at he
    · split at he
      · simp at he
      · rename_i re0 hre0
        split at he
        · rename_i e' hre
          by_cases hv : cfg.verb = true
          · simp only [hv, ite_true] at hre
            split at hre
            · simp at hre
            · rename_i hnone
              exact ⟨hv, m, rfl, hnone⟩
          · simp [hv] at hre
        · exfalso
          repeat' (split at he)
          all_goals simp at he
    · simp at he

/-- **the last `unwrap()` cannot fail** (verbose mode, both anchors disabled — any class options, `-i`, `-r` with positive thresholds,
capturing groups, colours, `-e`; no surrogate pairs): if the text of the first candidate contains no raw vertical tab or form feed
(`Display for Expression` does not escape them; `Display for RegExp` does), the model of `RegExp::from` returns: the text compiled at
that site is the verbose text without its line breaks, which is the text printed without verbose mode, and the model of `Regex::new`
accepts it -/
theorem verbose_unanchored_total (cfg : Config) (hsur : cfg.sur = false)
    (hmr : cfg.rep = true → 1 ≤ cfg.minRep) (env : Env) (ws : List Str)
    (hseg : ∀ w ∈ storedCases cfg env ws, SegOK env w)
    (hlen : cfg.rep = true → ∀ w ∈ storedCases cfg env ws, (subPieces (env.segOf w)).length ≤ 1000)
    (hvt : ∀ m, Dfa.minimize (Dfa.trie (graphemeClusters cfg env (sortCases (storedCases cfg env ws)))) Dfa.pickMin = some m →
      ∀ c ∈ fmtExpr (cfgPlain cfg.cap cfg.esc) (Expr.ofDfa cfg m), c ≠ 11 ∧ c ≠ 12) :
    ∃ st, regExpFrom cfg env ws = .ok st := by
  cases hr : regExpFrom cfg env ws with
  | ok st => exact ⟨st, rfl⟩
  | error e =>
    exfalso
    rcases error_site cfg env ws e hr with hnone | ⟨hv, m, hm, hparse⟩
    · obtain ⟨p, hp⟩ := Dfa.minimizePartition_some (Dfa.trie (graphemeClusters cfg env (sortCases (storedCases cfg env ws))))
      simp only [Dfa.minimize, hp, Option.map_some] at hnone
      cases hnone
    · have hwfs := first_candidate_wfs cfg hmr env ws hseg hlen m hm
      have hwr := Expr.WFS.toWFR _ hwfs
      have htext : regexText cfg true (Expr.ofDfa cfg m) = R (fmtExpr (cfgPlain cfg.cap cfg.esc) (Expr.ofDfa cfg m)) := by
        rw [R_id _ (hvt m hm)]
        unfold regexText
        simp only [ite_true]
        have hstrip : (if cfg.color = true then stripColor ((fmtExpr cfg (Expr.ofDfa cfg m)).length + 1) (fmtExpr cfg (Expr.ofDfa cfg m))
            else fmtExpr cfg (Expr.ofDfa cfg m)) = fmtExpr (withColor cfg false) (Expr.ofDfa cfg m) := by
          cases hc : cfg.color with
          | false =>
            simp only [Bool.false_eq_true, ite_false]
            exact fmtExpr_congr (c1 := cfg) (c2 := withColor cfg false) ⟨rfl, rfl, rfl, rfl, hc⟩ _
          | true =>
            simp only [ite_true]
            have e1 : fmtExpr cfg (Expr.ofDfa cfg m) = fmtExpr (withColor cfg true) (Expr.ofDfa cfg m) :=
              fmtExpr_congr (c1 := cfg) (c2 := withColor cfg true) ⟨rfl, rfl, rfl, rfl, hc⟩ _
            rw [e1]
            exact (cp_fmtExpr cfg _).col.strip _ (by omega)
        rw [hstrip]
        have hd := (drop_fmtExpr (withColor cfg false) rfl (Expr.ofDfa cfg m)).1
        show dropLF _ = _
        rw [hd]
        exact fmtExpr_congr (c1 := noVerb (withColor cfg false)) (c2 := cfgPlain cfg.cap cfg.esc) ⟨rfl, rfl, hsur, rfl, rfl⟩ _
      rw [htext] at hparse
      obtain ⟨P, hP⟩ := parse_exprR cfg.cap cfg.esc (Expr.ofDfa cfg m) hwr
      rw [hP] at hparse
      cases hparse

end Grexv
