import Grexv.Lemmas.PrintLit

/-
Class level of print → parse: the text `format_character_class` writes for an ascending set of code points
is read back by the class parser as the items `classItems` lists, for every rest of the input.
-/
set_option linter.unusedSimpArgs false
set_option linter.unusedVariables false
namespace Grexv
open Spec

/-- the final text of one class member -/
def pcc (x : Nat) : Str := R (escapeClassChar x)

/-- … with the verbose-mode escapes -/
def pccV (v : Bool) (x : Nat) : Str := RV v (escapeClassChar x)

theorem pccV_false (x : Nat) : pccV false x = pcc x := rfl

def classSpecials : List Nat := [91, 93, 92, 45, 94, 36, 10, 13, 9, 11, 12]

theorem pcc_raw (x : Nat) (h : x ∉ classSpecials) : pcc x = [x] := by
  simp only [classSpecials, List.mem_cons, List.mem_nil_iff, or_false, not_or] at h
  obtain ⟨h91, h93, h92, h45, h94, h36, h10, h13, h9, h11, h12⟩ := h
  simp [pcc, R, escapeClassChar, Gen.classEscapeChars, replaceChar, h91, h93, h92, h45, h94, h36, h10, h13, h9, h11, h12]

/-- what the class parser needs to know about the text of one member -/
structure MemberText (v : Bool) (x : Nat) (h : Nat) (t : List Nat) : Prop where
  eq : pccV v x = h :: t
  h93 : h ≠ 93
  h91 : h ≠ 91
  h45 : h ≠ 45
  h94 : h ≠ 94
  amp : h = 38 → t = [] ∧ x = 38
  tilde : h = 126 → t = [] ∧ x = 126
  atom : ∀ rest, parseClassAtom false (h :: (t ++ rest)) = some (Prim.lit x, rest)

theorem memberText0 (x : Nat) : ∃ h t, MemberText false x h t := by
  by_cases hs : x ∈ classSpecials
  · have esc : ∀ a, pcc x = [92, a] → (∀ rest, parseEscape false (a :: rest) = some (Prim.lit x, rest)) → MemberText false x 92 [a] := by
      intro a hp he
      exact { eq := hp, h93 := by decide, h91 := by decide, h45 := by decide, h94 := by decide,
              amp := fun h => absurd h (by decide), tilde := fun h => absurd h (by decide),
              atom := fun rest => by simp only [parseClassAtom, List.cons_append, List.nil_append]; exact he rest }
    simp only [classSpecials, List.mem_cons, List.mem_nil_iff, or_false] at hs
    rcases hs with rfl | rfl | rfl | rfl | rfl | rfl | rfl | rfl | rfl | rfl | rfl
    · exact ⟨92, [91], esc 91 (by decide +kernel) (by intro rest; simp [parseEscape, isEscapeable, isMeta, isAlnum])⟩
    · exact ⟨92, [93], esc 93 (by decide +kernel) (by intro rest; simp [parseEscape, isEscapeable, isMeta, isAlnum])⟩
    · exact ⟨92, [92], esc 92 (by decide +kernel) (by intro rest; simp [parseEscape, isEscapeable, isMeta, isAlnum])⟩
    · exact ⟨92, [45], esc 45 (by decide +kernel) (by intro rest; simp [parseEscape, isEscapeable, isMeta, isAlnum])⟩
    · exact ⟨92, [94], esc 94 (by decide +kernel) (by intro rest; simp [parseEscape, isEscapeable, isMeta, isAlnum])⟩
    · exact ⟨92, [36], esc 36 (by decide +kernel) (by intro rest; simp [parseEscape, isEscapeable, isMeta, isAlnum])⟩
    · exact ⟨92, [110], esc 110 (by decide +kernel) (by intro rest; simp [parseEscape, isEscapeable, isMeta, isAlnum])⟩
    · exact ⟨92, [114], esc 114 (by decide +kernel) (by intro rest; simp [parseEscape, isEscapeable, isMeta, isAlnum])⟩
    · exact ⟨92, [116], esc 116 (by decide +kernel) (by intro rest; simp [parseEscape, isEscapeable, isMeta, isAlnum])⟩
    · exact ⟨92, [118], esc 118 (by decide +kernel) (by intro rest; simp [parseEscape, isEscapeable, isMeta, isAlnum])⟩
    · exact ⟨92, [102], esc 102 (by decide +kernel) (by intro rest; simp [parseEscape, isEscapeable, isMeta, isAlnum])⟩
  · have hr := pcc_raw x hs
    simp only [classSpecials, List.mem_cons, List.mem_nil_iff, or_false, not_or] at hs
    obtain ⟨h91, h93, h92, h45, h94, h36, h10, h13, h9, h11, h12⟩ := hs
    refine ⟨x, [], hr, h93, h91, h45, h94, fun h => ⟨rfl, h⟩, fun h => ⟨rfl, h⟩, ?_⟩
    intro rest
    cases hx : x with
    | zero => simp [parseClassAtom]
    | succ n =>
      simp only [List.nil_append, parseClassAtom]
      split
      · rename_i heq
        simp only [List.cons.injEq] at heq
        omega
      · rename_i heq
        simp only [List.cons.injEq] at heq
        obtain ⟨rfl, rfl⟩ := heq
        rfl
      · rename_i heq; simp at heq



theorem pccV_ascii_tab : (List.range 128).all (fun x => pccV true x ==
    (if x = 35 then [92, 35] else if x = 32 then [92, 32] else pcc x)) = true := by decide +kernel

theorem escapeClassChar_nonascii (x : Nat) (h : 128 ≤ x) : escapeClassChar x = [x] := by
  have h1 : Gen.classEscapeChars.contains x = false := by
    apply Bool.eq_false_iff.mpr
    intro hc
    have := List.contains_iff_mem.mp hc
    simp [Gen.classEscapeChars] at this
    omega
  have a1 : x ≠ 10 := by omega
  have a2 : x ≠ 13 := by omega
  have a3 : x ≠ 9 := by omega
  simp only [escapeClassChar, h1, Bool.false_eq_true, ite_false, a1, a2, a3]

theorem pccV_nonascii (x : Nat) (h : 128 ≤ x) :
    pccV true x = if Gen.verboseSpaces.contains x then [92, 117, 123] ++ toHex x ++ [125] else [x] := by
  have := pcV_nonascii_raw x h
  unfold pcV at this
  rw [core1_nonascii x h] at this
  unfold pccV
  rw [escapeClassChar_nonascii x h]
  simpa [E] using this

theorem verboseSpaces_scalar : Gen.verboseSpaces.all isScalar = true := by decide

theorem memberText (v : Bool) (x : Nat) : ∃ h t, MemberText v x h t := by
  cases v with
  | false => exact memberText0 x
  | true =>
    obtain ⟨h0, t0, m0⟩ := memberText0 x
    have esc2 : ∀ (t : Str), pccV true x = 92 :: t → (∀ rest, parseEscape false (t ++ rest) = some (Prim.lit x, rest)) →
        MemberText true x 92 t := by
      intro t hp he
      exact { eq := hp, h93 := by decide, h91 := by decide, h45 := by decide, h94 := by decide,
              amp := fun h => absurd h (by decide), tilde := fun h => absurd h (by decide),
              atom := fun rest => by simp only [parseClassAtom]; exact he rest }
    by_cases hlt : x < 128
    · have htab := List.all_eq_true.mp pccV_ascii_tab x (List.mem_range.mpr hlt)
      simp only [beq_iff_eq] at htab
      by_cases h35 : x = 35
      · subst h35
        exact ⟨92, [35], esc2 [35] (by decide +kernel) (by intro rest; simp [parseEscape, isEscapeable, isMeta, isAlnum])⟩
      · by_cases h32 : x = 32
        · subst h32
          exact ⟨92, [32], esc2 [32] (by decide +kernel) (by intro rest; simp [parseEscape, isEscapeable, isMeta, isAlnum])⟩
        · simp only [h35, h32, ite_false] at htab
          exact ⟨h0, t0, { m0 with eq := by rw [htab]; exact m0.eq }⟩
    · have hna := pccV_nonascii x (by omega)
      by_cases hv : Gen.verboseSpaces.contains x = true
      · simp only [hv, ite_true] at hna
        refine ⟨92, 117 :: 123 :: (toHex x ++ [125]), esc2 _ (by rw [hna]; simp) ?_⟩
        intro rest
        have hsx : isScalar x = true := List.all_eq_true.mp verboseSpaces_scalar x (List.contains_iff_mem.mp hv)
        have := parseEscape_hex x hsx rest
        simpa using this
      · simp only [hv, Bool.false_eq_true, ite_false] at hna
        have h0eq : pccV false x = [x] := by
          show pcc x = [x]
          apply pcc_raw
          simp only [classSpecials, List.mem_cons, List.mem_nil_iff, or_false]
          omega
        exact ⟨h0, t0, { m0 with eq := by rw [hna, ← h0eq]; exact m0.eq }⟩


/-- a member printed on its own -/
theorem class_single (v : Bool) (x : Nat) (fuel : Nat) (rest : List Nat) (first : Bool) (acc : List ClassItem)
    (h45 : rest.head? ≠ some 45) (hop : (x = 38 ∨ x = 126) → rest.head? ≠ some x) :
    parseClassItems false (fuel + 1) (pccV v x ++ rest) first acc =
      parseClassItems false fuel rest false (ClassItem.range x x :: acc) := by
  obtain ⟨h, t, m⟩ := memberText v x
  rw [m.eq]
  rw [parseClassItems]
  simp only [skipSpace_false, List.cons_append]
  have c1 : ¬ (h = 93 ∧ first = false) := fun hc => m.h93 hc.1
  have c3 : ¬ (((h = 38 ∧ (t ++ rest).head? = some 38) ∨ (h = 45 ∧ (t ++ rest).head? = some 45)) ∨
      (h = 126 ∧ (t ++ rest).head? = some 126)) := by
    rintro ((⟨h1, h2⟩ | ⟨h1, _⟩) | ⟨h1, h2⟩)
    · obtain ⟨rfl, rfl⟩ := m.amp h1
      exact hop (Or.inl rfl) (by simpa using h2)
    · exact m.h45 h1
    · obtain ⟨rfl, rfl⟩ := m.tilde h1
      exact hop (Or.inr rfl) (by simpa using h2)
  simp only [Bool.and_eq_true, beq_iff_eq, decide_eq_true_eq, Bool.not_eq_true', Bool.or_eq_true, c1, c3, m.h91, ite_false,
    m.atom rest]
  cases rest with
  | nil => rfl
  | cons y ys =>
    have : y ≠ 45 := fun hc => h45 (by simp [hc])
    split
    · first
      | exact absurd rfl this
      | (rename_i heq; injection heq with h1 _; exact absurd h1 this)
    · rfl

/-- a run printed as `lo-hi` -/
theorem class_range (v : Bool) (lo hi : Nat) (hle : lo ≤ hi) (fuel : Nat) (rest : List Nat) (first : Bool) (acc : List ClassItem) :
    parseClassItems false (fuel + 1) (pccV v lo ++ ([45] ++ (pccV v hi ++ rest))) first acc =
      parseClassItems false fuel rest false (ClassItem.range lo hi :: acc) := by
  obtain ⟨h, t, m⟩ := memberText v lo
  obtain ⟨h', t', m'⟩ := memberText v hi
  rw [m.eq, m'.eq]
  rw [parseClassItems]
  simp only [skipSpace_false, List.cons_append]
  have c1 : ¬ (h = 93 ∧ first = false) := fun hc => m.h93 hc.1
  have c3 : ¬ (((h = 38 ∧ (t ++ ([45] ++ (h' :: (t' ++ rest)))).head? = some 38) ∨
      (h = 45 ∧ (t ++ ([45] ++ (h' :: (t' ++ rest)))).head? = some 45)) ∨
      (h = 126 ∧ (t ++ ([45] ++ (h' :: (t' ++ rest)))).head? = some 126)) := by
    rintro ((⟨h1, h2⟩ | ⟨h1, _⟩) | ⟨h1, h2⟩)
    · obtain ⟨rfl, rfl⟩ := m.amp h1
      simp at h2
    · exact m.h45 h1
    · obtain ⟨rfl, rfl⟩ := m.tilde h1
      simp at h2
  have hatom := m.atom ([45] ++ (h' :: (t' ++ rest)))
  simp only [List.nil_append, List.cons_append, List.append_assoc] at hatom c3
  simp only [Bool.and_eq_true, beq_iff_eq, decide_eq_true_eq, Bool.not_eq_true', Bool.or_eq_true, c1, c3, m.h91, ite_false,
    List.nil_append, List.append_assoc, List.cons_append, hatom]
  have hatom' := m'.atom rest
  have hlt : ¬ hi < lo := by omega
  split
  · first
    | exact absurd rfl m'.h93
    | (rename_i heq; injection heq with h1 _; exact absurd h1 m'.h93)
  · first
    | exact absurd rfl m'.h45
    | (rename_i heq; injection heq with h1 _; exact absurd h1 m'.h45)
  · simp only [hatom', hlt, ite_false]

end Grexv

namespace Grexv
open Spec

/-! ### chunks: what one round of the class parser consumes -/

/-- a single member, or a range `lo-hi` -/
abbrev Chunk := Nat × Option Nat

def chunkText (v : Bool) : Chunk → Str
  | (lo, none) => pccV v lo
  | (lo, some hi) => pccV v lo ++ ([45] ++ pccV v hi)

def chunkItem : Chunk → ClassItem
  | (lo, none) => .range lo lo
  | (lo, some hi) => .range lo hi

def chunkEnds : Chunk → List Nat
  | (lo, none) => [lo]
  | (lo, some hi) => [lo, hi]

def runChunks (r : List Nat) : List Chunk :=
  if r.length ≤ 2 then r.map fun c => (c, none) else [(r.headD 0, some (r.getLastD 0))]

theorem nextOK_member (v : Bool) (x y : Nat) (hxy : x ≠ y) (rest : List Nat) :
    (pccV v y ++ rest).head? ≠ some 45 ∧ ((x = 38 ∨ x = 126) → (pccV v y ++ rest).head? ≠ some x) := by
  obtain ⟨h, t, m⟩ := memberText v y
  rw [m.eq]
  simp only [List.cons_append, List.head?_cons, ne_eq, Option.some.injEq]
  refine ⟨m.h45, ?_⟩
  rintro (rfl | rfl) hc
  · exact hxy (m.amp hc).2.symm
  · exact hxy (m.tilde hc).2.symm

theorem class_chunks (v : Bool) (cks : List Chunk) (hok : (cks.flatMap chunkEnds).Pairwise (· < ·)) :
    ∀ (fuel : Nat) (rest : List Nat) (first : Bool) (acc : List ClassItem),
      parseClassItems false (fuel + cks.length) (cks.flatMap (chunkText v) ++ 93 :: rest) first acc =
        parseClassItems false fuel (93 :: rest) false ((cks.map chunkItem).reverse ++ acc) ∨ cks = [] := by
  induction cks with
  | nil => intro _ _ _ _; exact Or.inr rfl
  | cons c cks ih =>
    intro fuel rest first acc
    left
    have hlen : fuel + (c :: cks).length = (fuel + cks.length) + 1 := by simp; omega
    rw [hlen, List.flatMap_cons, List.append_assoc]
    simp only [List.flatMap_cons, List.pairwise_append] at hok
    obtain ⟨hc, hrest, hcross⟩ := hok
    -- what follows this chunk
    have hnext : ∀ x, x ∈ chunkEnds c →
        (cks.flatMap (chunkText v) ++ 93 :: rest).head? ≠ some 45 ∧
          ((x = 38 ∨ x = 126) → (cks.flatMap (chunkText v) ++ 93 :: rest).head? ≠ some x) := by
      intro x hx
      cases cks with
      | nil =>
        simp only [List.flatMap_nil, List.nil_append, List.head?_cons, ne_eq, Option.some.injEq]
        exact ⟨by decide, by rintro (rfl | rfl) <;> decide⟩
      | cons d ds =>
        obtain ⟨lo, o⟩ := d
        have hlo : x < lo := hcross x hx lo (by cases o <;> simp [chunkEnds])
        have := nextOK_member v x lo (by omega)
        cases o with
        | none => simp only [List.flatMap_cons, chunkText, List.append_assoc]; exact this _
        | some hi => simp only [List.flatMap_cons, chunkText, List.append_assoc]; exact this _
    have step : parseClassItems false (fuel + cks.length + 1) (chunkText v c ++ (cks.flatMap (chunkText v) ++ 93 :: rest)) first acc =
        parseClassItems false (fuel + cks.length) (cks.flatMap (chunkText v) ++ 93 :: rest) false (chunkItem c :: acc) := by
      obtain ⟨lo, o⟩ := c
      cases o with
      | none =>
        obtain ⟨h1, h2⟩ := hnext lo (by simp [chunkEnds])
        exact class_single v lo _ _ first acc h1 h2
      | some hi =>
        have hle : lo ≤ hi := by
          simp only [chunkEnds, List.pairwise_cons, List.mem_singleton, forall_eq] at hc
          omega
        simp only [chunkText, chunkItem, List.append_assoc]
        exact class_range v lo hi hle _ _ first acc
    rw [step]
    rcases ih hrest (fuel) rest false (chunkItem c :: acc) with h | h
    · rw [h]; simp
    · subst h; simp

/-- the closing bracket -/
theorem class_close (fuel : Nat) (rest : List Nat) (acc : List ClassItem) :
    parseClassItems false (fuel + 1) (93 :: rest) false acc = some (acc.reverse, rest) := by
  rw [parseClassItems]
  simp

/-! ### from runs to chunks -/

theorem RV_hyphen (v : Bool) : RV v (Comp.hyphen false) = [45] := by cases v <;> decide

theorem R_runText (v : Bool) (r : List Nat) :
    RV v (if r.length ≤ 2 then r.flatMap escapeClassChar
        else escapeClassChar (r.headD 0) ++ Comp.hyphen false ++ escapeClassChar (r.getLastD 0)) =
      (runChunks r).flatMap (chunkText v) := by
  unfold runChunks
  split
  · rw [RV_flatMap, List.flatMap_map]; rfl
  · simp only [RV_append, RV_hyphen v, List.flatMap_cons, List.flatMap_nil, List.append_nil, chunkText, pccV, List.append_assoc]

theorem runItems_chunks (r : List Nat) : runItems r = (runChunks r).map chunkItem := by
  unfold runItems runChunks
  split
  · simp [chunkItem, Function.comp]
  · rfl

theorem ends_sublist (r : List Nat) : ((runChunks r).flatMap chunkEnds).Sublist r := by
  unfold runChunks
  split
  · simp only [List.flatMap_map, chunkEnds]
    have : r.flatMap (fun c => [c]) = r := by induction r with
      | nil => rfl
      | cons a as ih => simp [ih]
    rw [this]
    exact List.Sublist.refl r
  · rename_i hlen
    match r, hlen with
    | a :: b :: rest, _ =>
      simp only [List.headD_cons, List.flatMap_cons, List.flatMap_nil, chunkEnds, List.append_nil]
      have hlast : (a :: b :: rest).getLastD 0 = (b :: rest).getLast (by simp) := by
        simp [List.getLastD, List.getLast?_eq_some_getLast]
      rw [hlast]
      apply List.Sublist.cons_cons
      exact List.singleton_sublist.mpr (List.getLast_mem _)
    | [], h => simp at h
    | [_], h => simp at h

theorem chunks_ok (cs : List Nat) (hs : cs.Pairwise (· < ·)) :
    (((runs cs).flatMap runChunks).flatMap chunkEnds).Pairwise (· < ·) := by
  obtain ⟨h1, _, _, _⟩ := runs_spec cs
  have hgen : ∀ rs : List (List Nat), ((rs.flatMap runChunks).flatMap chunkEnds).Sublist rs.flatten := by
    intro rs
    induction rs with
    | nil => simp
    | cons r rs ih =>
      simp only [List.flatMap_cons, List.flatMap_append, List.flatten_cons]
      exact List.Sublist.append (ends_sublist r) ih
  have hsub : (((runs cs).flatMap runChunks).flatMap chunkEnds).Sublist cs := by
    have := hgen (runs cs)
    rw [h1] at this
    exact this
  exact List.Pairwise.sublist hsub hs

theorem fmtClass_text (v : Bool) (cap esc : Bool) (cs : List Nat) :
    RV v (fmtClass (cfgPlain cap esc) cs) = 91 :: (((runs cs).flatMap runChunks).flatMap (chunkText v) ++ [93]) := by
  have hb : RV v ((runs cs).flatMap fun r => if r.length ≤ 2 then r.flatMap escapeClassChar
      else escapeClassChar (r.headD 0) ++ Comp.hyphen false ++ escapeClassChar (r.getLastD 0)) =
      ((runs cs).flatMap runChunks).flatMap (chunkText v) := by
    rw [RV_flatMap, List.flatMap_assoc]
    congr 1
    funext r
    exact R_runText v r
  simp only [fmtClass, cfgPlain, Comp.leftBracket, Comp.rightBracket, paint, Gen.strLeftBracket, Gen.strRightBracket,
    Bool.false_eq_true, ite_false, RV_append, hb]
  have h91 : RV v [91] = [91] := by cases v <;> decide
  have h93 : RV v [93] = [93] := by cases v <;> decide
  rw [h91, h93]
  rfl

theorem classItems_chunks (cs : List Nat) : classItems cs = ((runs cs).flatMap runChunks).map chunkItem := by
  simp only [classItems, List.map_flatMap]
  congr 1
  funext r
  exact runItems_chunks r

theorem pcc_ne_nil (v : Bool) (x : Nat) : pccV v x ≠ [] := by
  obtain ⟨h, t, m⟩ := memberText v x
  rw [m.eq]; simp

theorem chunkText_len (v : Bool) (c : Chunk) : 1 ≤ (chunkText v c).length := by
  obtain ⟨lo, o⟩ := c
  have := pcc_ne_nil v lo
  cases o with
  | none =>
    simp only [chunkText]
    cases h : pccV v lo with
    | nil => exact absurd h this
    | cons a as => simp
  | some hi =>
    simp only [chunkText, List.length_append]
    cases h : pccV v lo with
    | nil => exact absurd h this
    | cons a as => simp; omega

theorem chunks_len (v : Bool) (cks : List Chunk) : cks.length ≤ (cks.flatMap (chunkText v)).length := by
  induction cks with
  | nil => simp
  | cons c cks ih =>
    have := chunkText_len v c
    simp only [List.flatMap_cons, List.length_append, List.length_cons]
    omega

theorem neg_match (h : Nat) (t : List Nat) (h94 : h ≠ 94) :
    parseLoop.match_20 (motive := fun _ => Bool × List Nat) (h :: t) (fun r => (true, r)) (fun r => (false, r)) =
      (false, h :: t) := by
  split
  · rename_i heq; injection heq with h1 _; exact absurd h1 h94
  · rfl

/-- **one printed class is one `set` item**, read in one round of the parser loop -/
theorem lex_class (v : Bool) (cap esc : Bool) (cs : List Nat) (hne : cs ≠ []) (hs : cs.Pairwise (· < ·))
    (f : Nat) (rest : List Nat) (st : List Frame) (al co : List Pat) :
    parseLoop false (f + 1) (RV v (fmtClass (cfgPlain cap esc) cs) ++ rest) st al co =
      parseLoop false f rest st al (Pat.set (classItems cs) false :: co) := by
  rw [fmtClass_text, classItems_chunks]
  generalize hck : (runs cs).flatMap runChunks = cks
  have hok : (cks.flatMap chunkEnds).Pairwise (· < ·) := by rw [← hck]; exact chunks_ok cs hs
  have hcne : cks ≠ [] := by
    rw [← hck]
    obtain ⟨_, _, h3, h4⟩ := runs_spec cs
    cases cs with
    | nil => exact absurd rfl hne
    | cons c rest' =>
      obtain ⟨r, rs, hr⟩ := h4 c rest' rfl
      rw [hr]
      simp only [List.flatMap_cons, runChunks]
      split <;> simp
  -- the text after `[` does not start with `^`
  obtain ⟨c0, cks', rfl⟩ : ∃ c0 cks', cks = c0 :: cks' := by
    cases cks with
    | nil => exact absurd rfl hcne
    | cons a b => exact ⟨a, b, rfl⟩
  have hhead : ∃ h t, (c0 :: cks').flatMap (chunkText v) ++ [93] ++ rest = h :: t ∧ h ≠ 94 := by
    obtain ⟨lo, o⟩ := c0
    obtain ⟨h, t, m⟩ := memberText v lo
    cases o with
    | none => exact ⟨h, _, by simp only [List.flatMap_cons, chunkText, m.eq, List.cons_append]; rfl, m.h94⟩
    | some hi => exact ⟨h, _, by simp only [List.flatMap_cons, chunkText, m.eq, List.cons_append]; rfl, m.h94⟩
  obtain ⟨h, t, hht, h94⟩ := hhead
  have htext : (91 :: ((c0 :: cks').flatMap (chunkText v) ++ [93])) ++ rest = 91 :: h :: t := by
    rw [← hht]; simp
  rw [htext, parseLoop]
  simp only [skipSpace_false]
  have hnot : ¬ (91 = 124) := by decide
  simp only [show (91 : Nat) ≠ 124 by decide, show (91 : Nat) ≠ 40 by decide, show (91 : Nat) ≠ 41 by decide,
    show (91 : Nat) ≠ 63 by decide, show (91 : Nat) ≠ 42 by decide, show (91 : Nat) ≠ 43 by decide,
    show (91 : Nat) ≠ 123 by decide, ite_false, Bool.or_self, Bool.false_eq_true, ite_true, decide_false]
  simp only [neg_match h t h94]
  -- run the class parser
  have hlenb := chunks_len v (c0 :: cks')
  have hfuel : (h :: t).length + 2 = ((h :: t).length + 1 - (c0 :: cks').length) + 1 + (c0 :: cks').length := by
    rw [← hht]
    simp only [List.length_append, List.length_cons, List.length_nil] at hlenb ⊢
    omega
  rw [hfuel, ← hht]
  have hrun := class_chunks v (c0 :: cks') hok (((c0 :: cks').flatMap (chunkText v) ++ [93] ++ rest).length + 1 - (c0 :: cks').length + 1) rest true []
  simp only [List.append_assoc, List.singleton_append] at hrun ⊢
  rcases hrun with hrun | hrun
  · rw [hrun, class_close]
    simp
  · exact absurd hrun (by simp)

end Grexv
