import Grexv.Lemmas.PyOut
import Grexv.Lemmas.SurRel

/-
Surrogate pairs, token by token: `SurEmit s t` says that `s` is a sequence of pattern tokens and `t` the same sequence with every pair
`\u{hi}\u{lo}` of a high and a low surrogate escape written as the one escape of the code point they encode, and nothing else changed.
The reading into tokens is unique (`SurEmit.unique`), so `t` is *the* decoding of `s`.  `surEmit_regexp`: the text printed with
surrogate pairs decodes to the text printed with `-e` alone (not verbose, no colours, no `-r`).
-/
set_option linter.unusedSimpArgs false
set_option linter.unusedVariables false
namespace Grexv

def hexTok (v : Nat) : Str := [92, 117, 123] ++ toHex v ++ [125]

def IsHi (v : Nat) : Prop := 0xD800 ≤ v ∧ v < 0xDC00
def IsLo (v : Nat) : Prop := 0xDC00 ≤ v ∧ v < 0xE000

/-- the code point a surrogate pair encodes -/
def pairValue (hi lo : Nat) : Nat := 0x10000 + (hi - 0xD800) * 1024 + (lo - 0xDC00)

inductive SurEmit : Str → Str → Prop where
  | nil : SurEmit [] []
  | plain (c : Nat) (h : c ≠ 92) {a b : Str} : SurEmit a b → SurEmit (c :: a) (c :: b)
  | esc (x : Nat) (h : x ≠ 117) {a b : Str} : SurEmit a b → SurEmit (92 :: x :: a) (92 :: x :: b)
  | uni (v : Nat) (hv : v ≤ 0x10FFFF) (h : ¬ IsHi v) {a b : Str} : SurEmit a b → SurEmit (hexTok v ++ a) (hexTok v ++ b)
  | pair (hi lo : Nat) (hhi : IsHi hi) (hlo : IsLo lo) {a b : Str} :
      SurEmit a b → SurEmit (hexTok hi ++ (hexTok lo ++ a)) (hexTok (pairValue hi lo) ++ b)

theorem SurEmit.append {a b : Str} (h1 : SurEmit a b) {c d : Str} (h2 : SurEmit c d) : SurEmit (a ++ c) (b ++ d) := by
  induction h1 with
  | nil => simpa using h2
  | plain x hx _ ih => exact SurEmit.plain x hx ih
  | esc x hx _ ih => exact SurEmit.esc x hx ih
  | uni v hv hn _ ih =>
    have := SurEmit.uni v hv hn ih
    simpa [List.append_assoc] using this
  | pair hi lo h1 h2 _ ih =>
    have := SurEmit.pair hi lo h1 h2 ih
    simpa [List.append_assoc] using this

/-! ### reading the hexadecimal text back -/

theorem toHex_no125 (n : Nat) : ∀ c ∈ toHex n, c ≠ 125 := by
  intro c hc
  rw [toHex_eq] at hc
  obtain ⟨d, hd, rfl⟩ := List.mem_map.mp hc
  exact hexDigit_ne_125 d (hexDigs_lt 64 n d hd)

theorem split_at_125 : ∀ (x y : Str) (r1 r2 : Str), (∀ c ∈ x, c ≠ 125) → (∀ c ∈ y, c ≠ 125) → x ++ 125 :: r1 = y ++ 125 :: r2 →
    x = y ∧ r1 = r2
  | [], y, r1, r2, _, hy, e => by
    cases y with
    | nil => simpa using e
    | cons d y' => simp only [List.nil_append, List.cons_append, List.cons.injEq] at e; exact absurd e.1.symm (hy d List.mem_cons_self)
  | c :: x', y, r1, r2, hx, hy, e => by
    cases y with
    | nil => simp only [List.nil_append, List.cons_append, List.cons.injEq] at e; exact absurd e.1 (hx c List.mem_cons_self)
    | cons d y' =>
      simp only [List.cons_append, List.cons.injEq] at e
      obtain ⟨rfl, e'⟩ := e
      obtain ⟨rfl, rfl⟩ := split_at_125 x' y' r1 r2 (fun c hc => hx c (List.mem_cons_of_mem _ hc))
        (fun c hc => hy c (List.mem_cons_of_mem _ hc)) e'
      exact ⟨rfl, rfl⟩

theorem hexDigit_inj_list : ∀ (x y : List Nat), (∀ d ∈ x, d < 16) → (∀ d ∈ y, d < 16) → x.map hexDigit = y.map hexDigit → x = y
  | [], y, _, _, e => by
    cases y with
    | nil => rfl
    | cons _ _ => simp at e
  | c :: x', y, hx, hy, e => by
    cases y with
    | nil => simp at e
    | cons d y' =>
      simp only [List.map_cons, List.cons.injEq] at e
      have hc := hx c List.mem_cons_self
      have hd := hy d List.mem_cons_self
      have : c = d := by
        have k1 := hexVal_hexDigit c hc
        have k2 := hexVal_hexDigit d hd
        rw [e.1] at k1
        rw [k1] at k2
        exact Option.some.inj k2
      subst this
      rw [hexDigit_inj_list x' y' (fun d hd => hx d (List.mem_cons_of_mem _ hd)) (fun d hd => hy d (List.mem_cons_of_mem _ hd)) e.2]

theorem toHex_inj (v w : Nat) (hv : v ≤ 0x10FFFF) (hw : w ≤ 0x10FFFF) (h : toHex v = toHex w) : v = w := by
  have h16 : ∀ n : Nat, n ≤ 0x10FFFF → n < 16 ^ 64 := by
    intro n hn
    have h2 : (0x110000 : Nat) ≤ 16 ^ 64 := by decide
    omega
  have e1 := hexDigs_value 64 v (h16 v hv)
  have e2 := hexDigs_value 64 w (h16 w hw)
  rw [toHex_eq, toHex_eq] at h
  have := hexDigit_inj_list _ _ (hexDigs_lt 64 v) (hexDigs_lt 64 w) h
  rw [this] at e1
  omega

/-- two texts that start with a hexadecimal escape and are equal start with the same escape -/
theorem hexTok_split (v w : Nat) (hv : v ≤ 0x10FFFF) (hw : w ≤ 0x10FFFF) (a b : Str) (h : hexTok v ++ a = hexTok w ++ b) :
    v = w ∧ a = b := by
  unfold hexTok at h
  simp only [List.cons_append, List.nil_append, List.append_assoc, List.cons.injEq, true_and] at h
  obtain ⟨h1, h2⟩ := split_at_125 _ _ _ _ (toHex_no125 v) (toHex_no125 w) h
  exact ⟨toHex_inj v w hv hw h1, h2⟩

theorem hexTok_head (v : Nat) (a : Str) : ∃ t, hexTok v ++ a = 92 :: 117 :: t := ⟨123 :: (toHex v ++ [125] ++ a), by simp [hexTok]⟩

theorem isHi_le (v : Nat) (h : IsHi v) : v ≤ 0x10FFFF := by unfold IsHi at h; omega
theorem isLo_le (v : Nat) (h : IsLo v) : v ≤ 0x10FFFF := by unfold IsLo at h; omega

/-- the token reading is unique: the decoded text is a function of the text with surrogate pairs -/
theorem SurEmit.unique {s p : Str} (h1 : SurEmit s p) : ∀ {q : Str}, SurEmit s q → p = q := by
  induction h1 with
  | nil =>
    intro q h2
    generalize hs : ([] : Str) = s at h2
    cases h2 with
    | nil => rfl
    | plain c _ _ => cases hs
    | esc x _ _ => cases hs
    | uni v _ _ _ => exact absurd hs (by simp [hexTok])
    | pair hi lo _ _ _ => exact absurd hs (by simp [hexTok])
  | plain c hc _ ih =>
    intro q h2
    generalize hs : (c :: _ : Str) = s at h2
    cases h2 with
    | nil => cases hs
    | plain c' _ h' => simp only [List.cons.injEq] at hs; obtain ⟨rfl, rfl⟩ := hs; rw [ih h']
    | esc x _ _ => simp only [List.cons.injEq] at hs; exact absurd hs.1 hc
    | uni v _ _ _ => obtain ⟨t, ht⟩ := hexTok_head v _; rw [ht] at hs; simp only [List.cons.injEq] at hs; exact absurd hs.1 hc
    | pair hi lo _ _ _ => obtain ⟨t, ht⟩ := hexTok_head hi _; rw [ht] at hs; simp only [List.cons.injEq] at hs; exact absurd hs.1 hc
  | esc x hx _ ih =>
    intro q h2
    generalize hs : (92 :: x :: _ : Str) = s at h2
    cases h2 with
    | nil => cases hs
    | plain c hc _ => simp only [List.cons.injEq] at hs; exact absurd hs.1.symm hc
    | esc y _ h' => simp only [List.cons.injEq] at hs; obtain ⟨_, rfl, rfl⟩ := hs; rw [ih h']
    | uni v _ _ _ => obtain ⟨t, ht⟩ := hexTok_head v _; rw [ht] at hs; simp only [List.cons.injEq] at hs; exact absurd hs.2.1 hx
    | pair hi lo _ _ _ => obtain ⟨t, ht⟩ := hexTok_head hi _; rw [ht] at hs; simp only [List.cons.injEq] at hs; exact absurd hs.2.1 hx
  | uni v hv hn _ ih =>
    rename_i a b hab
    intro q h2
    generalize hs : (hexTok v ++ a : Str) = s at h2
    cases h2 with
    | nil => exact absurd hs (by simp [hexTok])
    | plain c hc _ => obtain ⟨t, ht⟩ := hexTok_head v a; rw [ht] at hs; simp only [List.cons.injEq] at hs; exact absurd hs.1.symm hc
    | esc y hy _ => obtain ⟨t, ht⟩ := hexTok_head v a; rw [ht] at hs; simp only [List.cons.injEq] at hs; exact absurd hs.2.1.symm hy
    | uni w hw _ h' =>
      obtain ⟨rfl, rfl⟩ := hexTok_split v w hv hw _ _ hs
      rw [ih h']
    | pair hi lo hhi hlo h' =>
      obtain ⟨rfl, _⟩ := hexTok_split v hi hv (isHi_le hi hhi) _ _ hs
      exact absurd hhi hn
  | pair hi lo hhi hlo _ ih =>
    rename_i a b hab
    intro q h2
    generalize hs : (hexTok hi ++ (hexTok lo ++ a) : Str) = s at h2
    cases h2 with
    | nil => exact absurd hs (by simp [hexTok])
    | plain c hc _ => obtain ⟨t, ht⟩ := hexTok_head hi _; rw [ht] at hs; simp only [List.cons.injEq] at hs; exact absurd hs.1.symm hc
    | esc y hy _ => obtain ⟨t, ht⟩ := hexTok_head hi _; rw [ht] at hs; simp only [List.cons.injEq] at hs; exact absurd hs.2.1.symm hy
    | uni w hw hnw h' =>
      obtain ⟨rfl, _⟩ := hexTok_split hi w (isHi_le hi hhi) hw _ _ hs
      exact absurd hhi hnw
    | pair hi' lo' hhi' hlo' h' =>
      obtain ⟨rfl, hrest⟩ := hexTok_split hi hi' (isHi_le hi hhi) (isHi_le hi' hhi') _ _ hs
      obtain ⟨rfl, rfl⟩ := hexTok_split lo lo' (isLo_le lo hlo) (isLo_le lo' hlo') _ _ hrest
      rw [ih h']

/-! ### pieces that are the same on both sides -/

theorem SurEmit.one (c : Nat) (h : c ≠ 92) : SurEmit [c] [c] := SurEmit.plain c h SurEmit.nil
theorem SurEmit.two (x : Nat) (h : x ≠ 117) : SurEmit [92, x] [92, x] := SurEmit.esc x h SurEmit.nil

theorem surRefl_tokB : ∀ (s : Str), tokB s = true → SurEmit s s
  | [], _ => SurEmit.nil
  | [c], h => by
    have hc : c ≠ 92 := by
      intro e; subst e; revert h; decide
    exact SurEmit.one c hc
  | c :: x :: r, h => by
    by_cases hc : c = 92
    · subst hc
      simp only [tokB, Bool.and_eq_true, bne_iff_ne, ne_eq] at h
      exact SurEmit.esc x h.1.1.1 (surRefl_tokB r h.2)
    · rw [tokB_ne c _ hc] at h
      simp only [Bool.and_eq_true, bne_iff_ne, ne_eq] at h
      exact SurEmit.plain c hc (surRefl_tokB (x :: r) h.2)

theorem SurEmit.flatMap {α : Type} (l : List α) (f g : α → Str) (h : ∀ x ∈ l, SurEmit (f x) (g x)) :
    SurEmit (l.flatMap f) (l.flatMap g) := by
  induction l with
  | nil => exact SurEmit.nil
  | cons a as ih =>
    simp only [List.flatMap_cons]
    exact SurEmit.append (h a List.mem_cons_self) (ih (fun x hx => h x (List.mem_cons_of_mem _ hx)))

/-! ### one code point -/

theorem escapeChar_pair (c : Nat) (h1 : 0x10000 ≤ c) (h2 : c ≤ 0x10FFFF) :
    Expr.escapeChar c true = hexTok (0xD800 + (c - 0x10000) / 1024) ++ (hexTok (0xDC00 + (c - 0x10000) % 1024) ++ []) := by
  have hlo : Gen.surrogateLo = 0x10000 := rfl
  have hhi : Gen.surrogateHi = 0x10FFFF := rfl
  have hcond : (true && decide (Gen.surrogateLo ≤ c) && Gen.surrogateHiOk c) = true := by
    have a1 : Gen.surrogateLo ≤ c := by rw [hlo]; exact h1
    have a2 : Gen.surrogateHiOk c = true := by
      simp only [Gen.surrogateHiOk, Gen.surrogateHiInclusive, ite_true, decide_eq_true_eq]
      rw [hhi]; exact h2
    simp only [a1, a2, decide_true, Bool.and_self]
  have hn : ¬ c < 128 := by omega
  unfold Expr.escapeChar
  rw [if_neg hn, if_pos hcond]
  simp only [hexTok, List.append_assoc, List.append_nil]

theorem escapeChar_hex (c : Nat) (sur : Bool) (h : 128 ≤ c) (hs : sur = false ∨ c < 0x10000 ∨ 0x10FFFF < c) :
    Expr.escapeChar c sur = hexTok c ++ [] := by
  have e0 : Expr.escapeChar c false = hexTok c ++ [] := by
    unfold Expr.escapeChar
    rw [if_neg (by omega)]
    simp [hexTok]
  rcases hs with rfl | hs
  · exact e0
  · cases sur
    · exact e0
    · rw [escapeChar_sur_same c hs]; exact e0

theorem surEmit_escapeChar (c : Nat) (hc : c ≠ 92) (hs : Scalar c) : SurEmit (Expr.escapeChar c true) (Expr.escapeChar c false) := by
  have hle := scalar_le c hs
  by_cases h : c < 128
  · rw [escapeChar_lt c true h, escapeChar_lt c false h]; exact SurEmit.one c hc
  · by_cases ha : 0x10000 ≤ c
    · rw [escapeChar_pair c ha hle, escapeChar_hex c false (by omega) (Or.inl rfl)]
      have hi : IsHi (0xD800 + (c - 0x10000) / 1024) := by unfold IsHi; omega
      have lo : IsLo (0xDC00 + (c - 0x10000) % 1024) := by unfold IsLo; omega
      have hv : pairValue (0xD800 + (c - 0x10000) / 1024) (0xDC00 + (c - 0x10000) % 1024) = c := by
        unfold pairValue; omega
      have := SurEmit.pair _ _ hi lo SurEmit.nil
      rw [hv] at this
      exact this
    · rw [escapeChar_hex c true (by omega) (Or.inr (Or.inl (by omega))), escapeChar_hex c false (by omega) (Or.inl rfl)]
      refine SurEmit.uni c hle ?_ SurEmit.nil
      intro hhi
      unfold IsHi at hhi
      have := hs
      simp only [Scalar, Spec.isScalar, Bool.or_eq_true, decide_eq_true_eq, Bool.and_eq_true] at this
      omega

theorem ES_ascii (esc sur : Bool) (t : Str) (h : ∀ c ∈ t, c < 128) : ES esc sur t = t := by
  cases esc
  · rfl
  · simp only [ES, ite_true]; exact escAll_ascii sur t h

theorem surEmit_core1 (x : Nat) (hx : x ≠ 92) (hs : Scalar x) (esc : Bool) :
    SurEmit (ES esc true (core1 x)) (ES esc false (core1 x)) := by
  by_cases h : x < 128
  · have hclosed : ∀ c ∈ core1 x, c < 128 := by
      have := List.all_eq_true.mp core1_ascii_closed x (List.mem_range.mpr h)
      intro c hc
      simpa using List.all_eq_true.mp this c hc
    rw [ES_ascii esc true _ hclosed, ES_ascii esc false _ hclosed]
    have := List.all_eq_true.mp core1_ascii_tok x (List.mem_range.mpr h)
    simp only [Bool.or_eq_true, beq_iff_eq, Bool.and_eq_true, bne_iff_ne, ne_eq] at this
    rcases this with (h1 | h1) | h1
    · exact absurd h1 hx
    · rw [h1.1]; exact SurEmit.one x hx
    · match hcx : core1 x with
      | [] => rw [hcx] at h1; cases h1
      | [_] => rw [hcx] at h1; cases h1
      | [a, y] =>
        rw [hcx] at h1
        simp only [Bool.and_eq_true, beq_iff_eq, bne_iff_ne, ne_eq, decide_eq_true_eq] at h1
        obtain ⟨⟨⟨rfl, hy⟩, _⟩, _⟩ := h1
        exact SurEmit.two y hy
      | _ :: _ :: _ :: _ => rw [hcx] at h1; cases h1
  · rw [core1_nonascii x (by omega)]
    cases esc
    · exact SurEmit.one x hx
    · simp only [ES, ite_true, List.flatMap_cons, List.flatMap_nil, List.append_nil]
      exact surEmit_escapeChar x hx hs

theorem ES_append (esc sur : Bool) (a b : Str) : ES esc sur (a ++ b) = ES esc sur a ++ ES esc sur b := by
  cases esc <;> simp [ES]

/-- the escaped text of one string of a grapheme -/
theorem surEmit_chars (esc : Bool) (as : List Atom) (h : AtomsOK as) :
    SurEmit (ES esc true (escapeSymbols (untok as))) (ES esc false (escapeSymbols (untok as))) := by
  rcases h with rfl | h
  · have : escapeSymbols (untok [Atom.chr 92]) = [92, 92] := by decide +kernel
    rw [this, ES_ascii esc true _ (by decide), ES_ascii esc false _ (by decide)]
    exact SurEmit.two 92 (by decide)
  · rw [escapeSymbols_eq]
    simp only [flatMap_core1_ne as h, ite_false]
    induction as with
    | nil => simp only [untok, List.flatMap_nil]; cases esc <;> exact SurEmit.nil
    | cons a r ih =>
      have ihr := ih (fun b hb => h b (List.mem_cons_of_mem _ hb))
      cases a with
      | chr c =>
        obtain ⟨hc, hsc⟩ := h _ List.mem_cons_self
        simp only [untok, List.flatMap_cons, ES_append]
        exact SurEmit.append (surEmit_core1 c hc hsc esc) ihr
      | cls k n =>
        have hl : letterOf k n ≠ 117 ∧ letterOf k n < 128 := by cases k <;> cases n <;> decide
        simp only [untok, List.flatMap_cons, core1_92, core1_letter, ES_append]
        rw [ES_ascii esc true [92] (by decide), ES_ascii esc false [92] (by decide),
          ES_ascii esc true [letterOf k n] (by intro c hc; simp only [List.mem_singleton] at hc; subst hc; exact hl.2),
          ES_ascii esc false [letterOf k n] (by intro c hc; simp only [List.mem_singleton] at hc; subst hc; exact hl.2)]
        have := SurEmit.append (SurEmit.two (letterOf k n) hl.1) ihr
        simpa using this

/-! ### literals, classes, expressions -/

theorem surEmit_literal (cfg : Config) (hc : cfg.color = false) (c : Cluster) (h : PlainBs c) :
    SurEmit (fmtLiteral (withSur cfg true) c) (fmtLiteral (withSur cfg false) c) := by
  rw [fmtLiteral_sur (withSur cfg true) hc c h, fmtLiteral_sur (withSur cfg false) hc c h]
  apply SurEmit.flatMap
  intro g hg
  obtain ⟨as, _, has, rfl⟩ := h g hg
  rw [value_ofStr]
  exact surEmit_chars cfg.esc as has

theorem surRefl_escapeClassChar (c : Nat) : SurEmit (escapeClassChar c) (escapeClassChar c) := by
  unfold escapeClassChar
  split
  · rename_i hc
    have : c ≠ 117 := by intro e; subst e; revert hc; decide
    exact SurEmit.two c this
  · rename_i hc
    split
    · exact surRefl_tokB _ (by decide)
    · split
      · exact surRefl_tokB _ (by decide)
      · split
        · exact surRefl_tokB _ (by decide)
        · apply SurEmit.one c
          intro e
          rw [e] at hc
          exact hc (by decide)

theorem surRefl_class (cfg : Config) (hcol : cfg.color = false) (cs : List Nat) : SurEmit (fmtClass cfg cs) (fmtClass cfg cs) := by
  unfold fmtClass
  simp only [hcol, Comp.leftBracket, Comp.rightBracket, Comp.hyphen, paint, Bool.false_eq_true, ite_false]
  refine SurEmit.append (SurEmit.append (surRefl_tokB _ (by decide)) ?_) (surRefl_tokB _ (by decide))
  apply SurEmit.flatMap
  intro r _
  split
  · exact SurEmit.flatMap r _ _ (fun c _ => surRefl_escapeClassChar c)
  · exact SurEmit.append (SurEmit.append (surRefl_escapeClassChar _) (surRefl_tokB _ (by decide))) (surRefl_escapeClassChar _)

theorem paren_surEmit (cap fb : Bool) (x y : Str) (h : SurEmit x y) :
    SurEmit (Comp.paren cap false false fb x) (Comp.paren cap false false fb y) := by
  unfold Comp.paren
  simp only [Bool.false_eq_true, ite_false]
  have hl : SurEmit (Comp.leftParen cap false) (Comp.leftParen cap false) := surRefl_tokB _ (by cases cap <;> decide)
  exact SurEmit.append (SurEmit.append hl h) (surRefl_tokB _ (by decide))

mutual
theorem surEmit_expr (cfg : Config) (hc : cfg.color = false) (hv : cfg.verb = false) : ∀ (e : Expr), e.WF →
    SurEmit (fmtExpr (withSur cfg true) e) (fmtExpr (withSur cfg false) e)
  | .lit c, h => by simp only [fmtExpr]; exact surEmit_literal cfg hc c h
  | .cls cs, _ => by
    simp only [fmtExpr]
    have : fmtClass (withSur cfg true) cs = fmtClass (withSur cfg false) cs := rfl
    rw [this]; exact surRefl_class (withSur cfg false) hc cs
  | .cat a b, h => by
    simp only [fmtExpr]
    exact SurEmit.append (surEmit_sub cfg hc hv 2 true a h.1) (surEmit_sub cfg hc hv 2 true b h.2)
  | .rep e q, h => by
    simp only [fmtExpr]
    refine SurEmit.append (surEmit_sub cfg hc hv 3 false e h.2.2) ?_
    have e1 : (withSur cfg true).color = false := hc
    have e2 : (withSur cfg true).verb = false := hv
    have e3 : (withSur cfg false).color = false := hc
    have e4 : (withSur cfg false).verb = false := hv
    rw [e1, e2, e3, e4]
    exact surRefl_tokB _ (by cases q <;> decide)
  | .alt os, h => by
    simp only [fmtExpr]
    exact surEmit_alt cfg hc hv os h.2
theorem surEmit_sub (cfg : Config) (hc : cfg.color = false) (hv : cfg.verb = false) (outer : Nat) (fb : Bool) : ∀ (e : Expr), e.WF →
    SurEmit (fmtSub (withSur cfg true) outer fb e) (fmtSub (withSur cfg false) outer fb e)
  | e, h => by
    rw [fmtSub, fmtSub]
    have hsc : e.isSingleCodepoint (withSur cfg true) = e.isSingleCodepoint (withSur cfg false) :=
      isSingleCodepoint_congr (c1 := withSur cfg true) (c2 := withSur cfg false) rfl e
    rw [hsc]
    have e1 : (withSur cfg true).color = false := hc
    have e2 : (withSur cfg true).verb = false := hv
    have e3 : (withSur cfg false).color = false := hc
    have e4 : (withSur cfg false).verb = false := hv
    have e5 : (withSur cfg true).cap = (withSur cfg false).cap := rfl
    split
    · rw [e1, e2, e3, e4, e5]
      exact paren_surEmit _ fb _ _ (surEmit_expr cfg hc hv e h)
    · exact surEmit_expr cfg hc hv e h
theorem surEmit_alt (cfg : Config) (hc : cfg.color = false) (hv : cfg.verb = false) : ∀ (os : List Expr), Expr.WFL os →
    SurEmit (fmtAlt (withSur cfg true) os) (fmtAlt (withSur cfg false) os)
  | [], _ => by simp only [fmtAlt]; exact SurEmit.nil
  | [o], h => by simp only [fmtAlt]; exact surEmit_sub cfg hc hv 1 true o h.2.1
  | o :: o2 :: os, h => by
    simp only [fmtAlt]
    have e1 : (withSur cfg true).color = false := hc
    have e2 : (withSur cfg true).verb = false := hv
    have e3 : (withSur cfg false).color = false := hc
    have e4 : (withSur cfg false).verb = false := hv
    rw [e1, e2, e3, e4]
    simp only [Bool.false_eq_true, ite_false]
    exact SurEmit.append (SurEmit.append (surEmit_sub cfg hc hv 1 true o h.2.1) (surRefl_tokB _ (by decide)))
      (surEmit_alt cfg hc hv (o2 :: os) h.2.2)
end

/-! ### the whole text -/

theorem hexTok_chars' (v : Nat) : ∀ c ∈ hexTok v, 48 ≤ c := by
  intro c hc
  unfold hexTok at hc
  rcases List.mem_append.mp hc with hc | hc
  · exact (hexTok_chars v c hc).1
  · simp only [List.mem_singleton] at hc; omega

theorem SurEmit.replace {a b : Str} (h : SurEmit a b) (c x : Nat) (hc : c < 48) (hx : x ≠ 117 ∧ x ≠ 92) :
    SurEmit (replaceChar c [92, x] a) (replaceChar c [92, x] b) := by
  induction h with
  | nil => exact SurEmit.nil
  | plain d hd _ ih =>
    rw [replaceChar_cons, replaceChar_cons]
    refine SurEmit.append ?_ ih
    split
    · exact SurEmit.two x hx.1
    · exact SurEmit.one d hd
  | esc y hy _ ih =>
    have e : ∀ t : Str, replaceChar c [92, x] (92 :: y :: t) = 92 :: ((if y = c then [92, x] else [y]) ++ replaceChar c [92, x] t) := by
      intro t
      rw [replaceChar_cons, replaceChar_cons, if_neg (by omega)]
      rfl
    rw [e, e]
    split
    · have := SurEmit.append (SurEmit.append (SurEmit.two 92 (by decide)) (SurEmit.one x hx.2)) ih
      simpa using this
    · have := SurEmit.append (SurEmit.two y hy) ih
      simpa using this
  | uni v hv hn _ ih =>
    rename_i a' b' hab
    have hnot : c ∉ hexTok v := fun hm => by have := hexTok_chars' v c hm; omega
    rw [replaceChar_append, replaceChar_append, replaceChar_noop c _ _ hnot]
    exact SurEmit.uni v hv hn ih
  | pair hi lo hhi hlo _ ih =>
    rename_i a' b' hab
    have n1 : c ∉ hexTok hi := fun hm => by have := hexTok_chars' hi c hm; omega
    have n2 : c ∉ hexTok lo := fun hm => by have := hexTok_chars' lo c hm; omega
    have n3 : c ∉ hexTok (pairValue hi lo) := fun hm => by have := hexTok_chars' _ c hm; omega
    rw [replaceChar_append, replaceChar_append, replaceChar_append, replaceChar_noop c _ _ n1, replaceChar_noop c _ _ n2,
      replaceChar_noop c _ _ n3]
    exact SurEmit.pair hi lo hhi hlo ih

theorem surEmit_body (cfg : Config) (hc : cfg.color = false) (hv : cfg.verb = false) (e : Expr) (h : e.WF) :
    SurEmit (bodyText (withSur cfg true) e) (bodyText (withSur cfg false) e) := by
  have e1 : (withSur cfg true).color = false := hc
  have e2 : (withSur cfg true).verb = false := hv
  have e3 : (withSur cfg false).color = false := hc
  have e4 : (withSur cfg false).verb = false := hv
  have e5 : (withSur cfg true).cap = (withSur cfg false).cap := rfl
  cases e with
  | alt os =>
    simp only [bodyText]
    rw [e1, e2, e3, e4, e5]
    exact paren_surEmit _ false _ _ (surEmit_expr cfg hc hv (.alt os) h)
  | lit c => simp only [bodyText]; exact surEmit_expr cfg hc hv _ h
  | cls cs => simp only [bodyText]; exact surEmit_expr cfg hc hv _ h
  | cat a b => simp only [bodyText]; exact surEmit_expr cfg hc hv _ h
  | rep e q => simp only [bodyText]; exact surEmit_expr cfg hc hv _ h

/-- **the text printed with surrogate pairs decodes, token by token, to the text printed with `-e` alone** (not verbose, no colours;
every well-formed expression without counted repetitions) -/
theorem surEmit_regexp (cfg : Config) (hc : cfg.color = false) (hv : cfg.verb = false) (e : Expr) (h : e.WF) :
    SurEmit (fmtRegExp (withSur cfg true) e) (fmtRegExp (withSur cfg false) e) := by
  rw [fmtRegExp_r0, fmtRegExp_r0]
  have hv1 : (withSur cfg true).verb = false := hv
  have hv2 : (withSur cfg false).verb = false := hv
  simp only [hv1, hv2, Bool.false_eq_true, ite_false]
  apply SurEmit.replace _ 12 102 (by decide) (by decide)
  apply SurEmit.replace _ 11 118 (by decide) (by decide)
  unfold r0Text
  have hc1 : (withSur cfg true).color = false := hc
  have hc2 : (withSur cfg false).color = false := hc
  have f1 : (withSur cfg true).ci = (withSur cfg false).ci := rfl
  have f2 : (withSur cfg true).noStart = (withSur cfg false).noStart := rfl
  have f3 : (withSur cfg true).noEnd = (withSur cfg false).noEnd := rfl
  rw [hv1, hv2, hc1, hc2, f1, f2, f3]
  refine SurEmit.append (SurEmit.append (SurEmit.append ?_ ?_) (surEmit_body cfg hc hv e h)) ?_
  · cases (withSur cfg false).ci <;> exact surRefl_tokB _ (by decide)
  · cases (withSur cfg false).noStart <;> exact surRefl_tokB _ (by decide)
  · cases (withSur cfg false).noEnd <;> exact surRefl_tokB _ (by decide)

end Grexv
