import Grexv.Lemmas.HopcroftAcyclic
import Grexv.Lemmas.ElimInit

/-
S6, minimality: the refinement loop only ever separates states with different right languages *and* (shown
in `Hopcroft.lean`) ends in a stable partition, so the classes of the final partition are exactly the
classes of right-language equality.  Invariant: states of different blocks are distinguishable, and every
block in the work list separates only distinguishable states.
-/
set_option linter.unusedSimpArgs false
set_option linter.unusedVariables false
namespace Grexv
namespace Dfa

/-- some word is accepted from one state and not from the other -/
def Dg (d : Dfa) (q q' : Nat) : Prop := ∃ w, ¬ (d.LangFrom q w ↔ d.LangFrom q' w)

theorem Dg.symm {d : Dfa} {q q' : Nat} (h : Dg d q q') : Dg d q' q := by
  obtain ⟨w, hw⟩ := h
  exact ⟨w, fun hc => hw hc.symm⟩

theorem langFrom_cons {d : Dfa} (h : TreeInv d) (q : Nat) (l : Grapheme) (w : List Grapheme) :
    d.LangFrom q (l :: w) ↔ ∃ t, succ d q l = some t ∧ d.LangFrom t w := by
  constructor
  · rintro ⟨t, pth, hf⟩
    cases pth with
    | cons e he hsrc rest =>
      exact ⟨e.dst, (succ_eq_some h q e.label e.dst).mpr ⟨e, he, hsrc, rfl, rfl⟩, t, rest, hf⟩
  · rintro ⟨t, hs, t2, pth, hf⟩
    obtain ⟨e, he, hsrc, hl, hdst⟩ := (succ_eq_some h q l t).mp hs
    refine ⟨t2, ?_, hf⟩
    rw [← hl]
    exact Path.cons e he hsrc (by rw [hdst]; exact pth)

theorem dg_step {d : Dfa} (h : TreeInv d) {q q' t t' : Nat} {l : Grapheme} (hs : succ d q l = some t)
    (hs' : succ d q' l = some t') (hd : Dg d t t') : Dg d q q' := by
  obtain ⟨w, hw⟩ := hd
  refine ⟨l :: w, ?_⟩
  rw [langFrom_cons h, langFrom_cons h, hs, hs']
  simp only [Option.some.injEq, exists_eq_left']
  exact hw

theorem dg_none {d : Dfa} (h : TreeInv d) {q q' t : Nat} {l : Grapheme} (hs : succ d q l = some t)
    (hs' : succ d q' l = none) (v : List Grapheme) (hv : d.LangFrom t v) : Dg d q q' := by
  refine ⟨l :: v, ?_⟩
  rw [langFrom_cons h, langFrom_cons h, hs, hs']
  simp only [Option.some.injEq, exists_eq_left', false_and, exists_false, iff_false, Classical.not_not, reduceCtorEq]
  exact hv

def Coacc (d : Dfa) : Prop := ∀ s, s < d.nodes → ∃ w, d.LangFrom s w

def DInv (d : Dfa) (p : List Block) : Prop := ∀ q q', q < d.nodes → q' < d.nodes → ¬ SameBlock p q q' → Dg d q q'

def SepOK (d : Dfa) (B : Block) : Prop := ∀ t t', t ∈ B → t' ∉ B → t' < d.nodes → Dg d t t'

theorem block_unique (p : List Block) (hp : p.Pairwise Disj) (B B' : Block) (hB : B ∈ p) (hB' : B' ∈ p) (t : Nat)
    (h1 : t ∈ B) (h2 : t ∈ B') : B = B' := by
  induction p with
  | nil => simp at hB
  | cons y ys ih =>
    rw [List.pairwise_cons] at hp
    simp only [List.mem_cons] at hB hB'
    rcases hB with rfl | hB <;> rcases hB' with rfl | hB'
    · rfl
    · exact absurd h2 (hp.1 B' hB' t h1)
    · exact absurd h1 (hp.1 B hB t h2)
    · exact ih hp.2 hB hB'

theorem sepOK_of_block {d : Dfa} {p : List Block} (hp : PInv d p) (hd : DInv d p) (B : Block) (hB : B ∈ p) : SepOK d B := by
  intro t t' ht ht' hlt
  apply hd t t' (hp.bounded B hB t ht) hlt
  rintro ⟨B', hB', h1, h2⟩
  have := block_unique p hp.disj B B' hB hB' t ht h1
  subst this
  exact ht' h2

/-- one split keeps "different blocks ⇒ distinguishable" -/
theorem dinv_split {d : Dfa} (h : TreeInv d) (hco : Coacc d) (p : List Block) (a : Block) (l : Grapheme) (hl : l.Simple)
    (hd : DInv d p) (ha : SepOK d a) : DInv d (splitAll (parentStates d a l) p).1 := by
  intro q q' hq hq' hns
  by_cases hsame : SameBlock p q q'
  · have hx : ¬ (q ∈ parentStates d a l ↔ q' ∈ parentStates d a l) := by
      intro hiff; exact hns ((splitAll_sameBlock _ p q q').mpr ⟨hsame, hiff⟩)
    -- wlog `q` is a parent and `q'` is not
    have key : ∀ r r', r ∈ parentStates d a l → r' ∉ parentStates d a l → Dg d r r' := by
      intro r r' hr hr'
      obtain ⟨t, hta, hst⟩ := (mem_parentStates h a l hl r).mp hr
      have hnot : ¬ ∃ t' ∈ a, succ d r' l = some t' := fun hc => hr' ((mem_parentStates h a l hl r').mpr hc)
      obtain ⟨e, he, _, _, hdst⟩ := (succ_eq_some h r l t).mp hst
      have htlt : t < d.nodes := by rw [← hdst]; exact (h.lt e he).2
      cases hs' : succ d r' l with
      | none =>
        obtain ⟨v, hv⟩ := hco t htlt
        exact dg_none h hst hs' v hv
      | some t' =>
        have ht'a : t' ∉ a := fun hc => hnot ⟨t', hc, hs'⟩
        obtain ⟨e', he', _, _, hdst'⟩ := (succ_eq_some h r' l t').mp hs'
        have ht'lt : t' < d.nodes := by rw [← hdst']; exact (h.lt e' he').2
        exact dg_step h hst hs' (ha t t' hta ht'a ht'lt)
    by_cases hqx : q ∈ parentStates d a l
    · exact key q q' hqx (fun hc => hx ⟨fun _ => hc, fun _ => hqx⟩)
    · have hq'x : q' ∈ parentStates d a l := Classical.byContradiction fun hc => hx ⟨fun h => absurd h hqx, fun h => absurd h hc⟩
      exact (key q' q hq'x hqx).symm
  · exact hd q q' hq hq' hsame

theorem mem_removeFirst_sub (y : Block) (w : List Block) (B : Block) (h : B ∈ removeFirst y w) : B ∈ w := by
  induction w with
  | nil => simp [removeFirst] at h
  | cons z zs ih =>
    simp only [removeFirst] at h
    split at h
    · exact List.mem_cons_of_mem _ h
    · simp only [List.mem_cons] at h ⊢
      rcases h with h | h
      · exact Or.inl h
      · exact Or.inr (ih h)

theorem updateW_all (P : Block → Prop) (rs : List (Block × Block × Block)) (hrs : ∀ r ∈ rs, P r.2.1 ∧ P r.2.2) :
    ∀ (w : List Block), (∀ B ∈ w, P B) → ∀ B ∈ updateW w rs, P B := by
  induction rs with
  | nil => intro w hw; exact hw
  | cons r rest ih =>
    intro w hw
    obtain ⟨y, i, dd⟩ := r
    have hr := hrs (y, i, dd) List.mem_cons_self
    have hrest : ∀ r ∈ rest, P r.2.1 ∧ P r.2.2 := fun r hr => hrs r (List.mem_cons_of_mem _ hr)
    simp only [updateW]
    split
    · apply ih hrest
      intro B hB
      simp only [List.mem_append, List.mem_cons, List.mem_nil_iff, or_false] at hB
      rcases hB with hB | rfl | rfl
      · exact hw B (mem_removeFirst_sub y w B hB)
      · exact hr.1
      · exact hr.2
    · apply ih hrest
      intro B hB
      simp only [List.mem_append, List.mem_cons, List.mem_nil_iff, or_false] at hB
      rcases hB with hB | rfl | rfl
      · exact hw B hB
      · exact hr.1
      · exact hr.2

structure MInv (d : Dfa) (p w : List Block) : Prop where
  pinv : PInv d p
  dinv : DInv d p
  winv : ∀ B ∈ w, SepOK d B

theorem minv_label {d : Dfa} (h : TreeInv d) (hco : Coacc d) (p w : List Block) (a : Block) (l : Grapheme) (hl : l.Simple)
    (hm : MInv d p w) (ha : SepOK d a) :
    MInv d (splitAll (parentStates d a l) p).1 (updateW w (splitAll (parentStates d a l) p).2) := by
  have hp' := splitAll_pinv d (parentStates d a l) p hm.pinv
  have hd' := dinv_split h hco p a l hl hm.dinv ha
  refine ⟨hp', hd', ?_⟩
  apply updateW_all (SepOK d) _ _ w hm.winv
  intro r hr
  obtain ⟨Y, hY, hne, rfl⟩ := (splitAll_repl _ p r).mp hr
  exact ⟨sepOK_of_block hp' hd' _ ((splitAll_blocks _ p _).mpr ⟨Y, hY, Or.inr ⟨hne, Or.inl rfl⟩⟩),
         sepOK_of_block hp' hd' _ ((splitAll_blocks _ p _).mpr ⟨Y, hY, Or.inr ⟨hne, Or.inr rfl⟩⟩)⟩

theorem refineByAlphabet_minv {d : Dfa} (h : TreeInv d) (hco : Coacc d) (a : Block) (ha : SepOK d a) (ls : List Grapheme)
    (hls : ∀ l ∈ ls, l.Simple) :
    ∀ (p w : List Block), MInv d p w → MInv d (refineByAlphabet d a ls (p, w)).1 (refineByAlphabet d a ls (p, w)).2 := by
  induction ls with
  | nil => intro p w hm; exact hm
  | cons l rest ih =>
    intro p w hm
    simp only [refineByAlphabet]
    exact ih (fun x hx => hls x (List.mem_cons_of_mem _ hx)) _ _ (minv_label h hco p w a l (hls l List.mem_cons_self) hm ha)

theorem refineLoop_minv {d : Dfa} (h : TreeInv d) (hco : Coacc d) (hsimple : ∀ l ∈ d.alphabet, l.Simple) :
    ∀ (fuel : Nat) (p w : List Block), MInv d p w → ∀ p', refineLoop d fuel p w = some p' → DInv d p' := by
  intro fuel
  induction fuel with
  | zero =>
    intro p w hm p' hp'
    cases w with
    | nil => simp only [refineLoop, Option.some.injEq] at hp'; subst hp'; exact hm.dinv
    | cons a w => simp [refineLoop] at hp'
  | succ fuel ih =>
    intro p w hm p' hp'
    cases w with
    | nil => simp only [refineLoop, Option.some.injEq] at hp'; subst hp'; exact hm.dinv
    | cons a w =>
      simp only [refineLoop] at hp'
      apply ih _ _ _ p' hp'
      apply refineByAlphabet_minv h hco a (hm.winv a List.mem_cons_self) d.alphabet hsimple
      exact ⟨hm.pinv, hm.dinv, fun B hB => hm.winv B (List.mem_cons_of_mem _ hB)⟩

theorem langFrom_nil (d : Dfa) (q : Nat) : d.LangFrom q [] ↔ d.isFinal q = true := by
  constructor
  · rintro ⟨t, pth, hf⟩; cases pth; exact hf
  · intro hf; exact ⟨q, Path.nil q, hf⟩

theorem minv_initial (d : Dfa) : MInv d (initialPartition d) (initialPartition d) := by
  have hp := initial_pinv d
  have hd : DInv d (initialPartition d) := by
    intro q q' hq hq' hns
    refine ⟨[], ?_⟩
    rw [langFrom_nil, langFrom_nil]
    intro hiff
    apply hns
    by_cases hf : d.isFinal q = true
    · have hf' := hiff.mp hf
      exact ⟨_, by simp [initialPartition], List.mem_filter.mpr ⟨List.mem_range.mpr hq, hf⟩,
        List.mem_filter.mpr ⟨List.mem_range.mpr hq', hf'⟩⟩
    · have hf' : ¬ d.isFinal q' = true := fun hc => hf (hiff.mpr hc)
      refine ⟨(List.range d.nodes).filter (fun s => !d.isFinal s), by simp [initialPartition], ?_, ?_⟩
      · exact List.mem_filter.mpr ⟨List.mem_range.mpr hq, by simpa using hf⟩
      · exact List.mem_filter.mpr ⟨List.mem_range.mpr hq', by simpa using hf'⟩
  exact ⟨hp, hd, fun B hB => sepOK_of_block hp hd B hB⟩

/-- **the classes are exactly the right-language classes** -/
theorem minimizePartition_coarsest {d : Dfa} (h : TreeInv d) (hal : AlphabetCovers d) (hsimple : ∀ l ∈ d.alphabet, l.Simple)
    (hco : Coacc d) :
    ∃ p, minimizePartition d = some p ∧ Stable d p ∧
      ∀ q q', q < d.nodes → q' < d.nodes → (SameBlock p q q' ↔ ∀ w, d.LangFrom q w ↔ d.LangFrom q' w) := by
  obtain ⟨p', hp'⟩ := refineLoop_some d (minFuel d) (initialPartition d) (initialPartition d) (slack_initial d)
  have hpinv := refineLoop_pinv d _ _ _ (initial_pinv d) p' hp'
  have hinv := refineLoop_inv h hal hsimple _ _ _ (inv_initial h _ (initial_pinv d)) p' hp'
  have hdinv := refineLoop_minv h hco hsimple _ _ _ (minv_initial d) p' hp'
  have hst : Stable d (p'.filter fun b => !b.isEmpty) := by
    refine ⟨pinv_filter hpinv, ?_, inv_filter hinv⟩
    intro B hB
    have := (List.mem_filter.mp hB).2
    intro hc; subst hc; simp at this
  refine ⟨p'.filter fun b => !b.isEmpty, by simp [minimizePartition, hp'], hst, ?_⟩
  intro q q' hq hq'
  constructor
  · intro hsame w
    have one : ∀ r r', SameBlock (p'.filter fun b => !b.isEmpty) r r' → d.LangFrom r w → d.LangFrom r' w := by
      rintro r r' hs ⟨t, pth, hf⟩
      obtain ⟨t', pt', ⟨B, hB, h1, h2⟩⟩ := bisim h hst.stable pth r' hs
      exact ⟨t', pt', by rw [← hst.pinv.homog B hB t h1 t' h2]; exact hf⟩
    exact ⟨one q q' hsame, one q' q hsame.symm⟩
  · intro hall
    apply Classical.byContradiction
    intro hns
    have hns' : ¬ SameBlock p' q q' := fun hc => hns ((sameBlock_filter p' q q').mpr hc)
    obtain ⟨w, hw⟩ := hdinv q q' hq hq' hns'
    exact hw (hall w)

end Dfa
end Grexv
