import Grexv.Lemmas.EndToEndR
import Grexv.Lemmas.Presentation

/-
C06 / C08 / C11 with repetition conversion: capturing groups, `-e` and the anchors (at least one in place) are presentation only — the
two builds' patterns match the same strings in full, because each matches exactly what the labels of the *same* minimised automaton spell.
-/
set_option linter.unusedSimpArgs false
set_option linter.unusedVariables false
namespace Grexv
open Spec

/-- S1–S6 do not read capturing groups, `-e`, the anchors (nor verbose mode and colour) -/
theorem minimized_independent {c1 c2 : Config} (h : SameClusterInputs c1 c2) (env : Env) (ws : List Str)
    (st1 st2 : Stages) (h1 : regExpFrom c1 env ws = .ok st1) (h2 : regExpFrom c2 env ws = .ok st2) :
    st1.sorted = st2.sorted ∧ st1.clusters = st2.clusters ∧ st1.trie = st2.trie ∧ st1.minimized = st2.minimized := by
  have hci : c1.ci = c2.ci := h.2.2.2.2.2.2.2.2.2
  obtain ⟨a1, a2, a3, a4, _⟩ := from_stages_shape c1 env ws st1 h1
  obtain ⟨b1, b2, b3, b4, _⟩ := from_stages_shape c2 env ws st2 h2
  have e1 : st1.sorted = st2.sorted := by rw [a1, b1, hci]
  have e2 : st1.clusters = st2.clusters := by rw [a2, b2, e1, graphemeClusters_congr' h]
  have e3 : st1.trie = st2.trie := by rw [a3, b3, e2]
  have e4 : st1.minimized = st2.minimized := by
    rw [e3, b4] at a4; exact (Option.some.inj a4).symm
  exact ⟨e1, e2, e3, e4⟩

/-- **presentation options with `-r`, all inputs**: two builds whose settings agree in everything S1–S6 read (thresholds, class options,
`-r`, `-i`) and that print plainly with at least one anchor each — they may differ in capturing groups, `-e` and which anchor is
disabled — return texts the model of `Regex::new` accepts, and the two compiled patterns match exactly the same strings of scalar
values in full -/
theorem rep_presentation_same_language (c1 c2 : Config) (hp1 : RepPrint c1) (hp2 : RepPrint c2) (hsame : SameClusterInputs c1 c2)
    (env : Env) (ws : List Str) (st1 st2 : Stages)
    (h1 : regExpFrom c1 env ws = .ok st1) (h2 : regExpFrom c2 env ws = .ok st2)
    (hseg : ∀ w ∈ storedCases c1 env ws, SegOK env w)
    (hlen : ∀ w ∈ storedCases c1 env ws, (subPieces (env.segOf w)).length ≤ 1000) (hne : ∃ t ∈ storedCases c1 env ws, t ≠ [])
    (s : Str) (hs : ∀ c ∈ s, Scalar c) :
    ∃ P1 P2, Spec.parse (fmtRegExp c1 st1.finalAst) = some (⟨c1.ci, false⟩, P1) ∧
      Spec.parse (fmtRegExp c2 st2.finalAst) = some (⟨c1.ci, false⟩, P2) ∧
      Spec.fullMatch c1.ci P1 s = Spec.fullMatch c1.ci P2 s := by
  have hci : c1.ci = c2.ci := hsame.2.2.2.2.2.2.2.2.2
  have hst : storedCases c1 env ws = storedCases c2 env ws := by simp only [storedCases, hci]
  obtain ⟨_, _, _, hmin⟩ := minimized_independent hsame env ws st1 st2 h1 h2
  obtain ⟨P1, p1, m1⟩ := rep_exact c1 hp1 env ws st1 h1 hseg hlen hne s hs
  obtain ⟨P2, p2, m2⟩ := rep_exact c2 hp2 env ws st2 h2 (by rw [← hst]; exact hseg) (by rw [← hst]; exact hlen)
    (by rw [← hst]; exact hne) s hs
  rw [← hci, ← hmin] at m2
  rw [← hci] at p2
  refine ⟨P1, P2, p1, p2, ?_⟩
  have hiff : Spec.fullMatch c1.ci P1 s = true ↔ Spec.fullMatch c1.ci P2 s = true := m1.trans m2.symm
  cases h : Spec.fullMatch c1.ci P1 s <;> cases h' : Spec.fullMatch c1.ci P2 s
  · rfl
  · exact absurd (hiff.mpr h') (by simp [h])
  · exact absurd (hiff.mp h) (by simp [h'])
  · rfl

end Grexv
