import Grexv.Lemmas.EndToEndR
import Grexv.Lemmas.QuotientRel

/-
The language of the `-r` pattern in terms of the *trie*: the compiled pattern matches a non-empty string iff an accepting path of the
trie — before minimisation — spells it.  Everything after S5 is exact; what `-r` accepts beyond the test cases (known finding D2) is what
the widened labels of the trie stand for.
-/
set_option linter.unusedSimpArgs false
set_option linter.unusedVariables false
namespace Grexv
open Spec Dfa

theorem Path.toCPath {d : Dfa} : ∀ {w : Word} {cl : Cluster}, CarriesL w cl → ∀ {s t : Nat}, Path d s w t → CPath d s cl t := by
  intro w cl h
  induction h with
  | nil =>
    intro s t p
    cases p
    exact CPath.nil s
  | @cons l g w cl hcar _ ih =>
    intro s t p
    cases p with
    | cons e he hs rest => exact CPath.cons e he hs hcar (ih rest)

theorem langFrom_caccepts {d : Dfa} {w : Word} {cl : Cluster} (h : d.LangFrom d.init w) (hc : CarriesL w cl) : d.CAccepts cl := by
  obtain ⟨t, p, hf⟩ := h
  exact ⟨t, Path.toCPath hc p, by simpa [isFinal, List.contains_iff_mem] using hf⟩

theorem carriesL_nil_iff {w : Word} {cl : Cluster} (h : CarriesL w cl) : w = [] ↔ cl = [] := by
  cases h <;> simp

/-- a string spelled by a label sequence is spelled by a sequence of graphemes with one count each that the labels carry -/
theorem spellsA_choose (i : Bool) : ∀ (ls : Word) (s : Str), SpellsA i ls s →
    ∃ cl, CarriesL ls cl ∧ (∀ g ∈ cl, g.min = g.max) ∧ SpellsA i cl s
  | [], s, h => ⟨[], CarriesL.nil, by simp, h⟩
  | l :: ls, s, h => by
    obtain ⟨k, u, v, h1, h2, rfl, h4, h5⟩ := h
    obtain ⟨cl, c1, c2, c3⟩ := spellsA_choose i ls v h5
    refine ⟨Grapheme.mk l.chars [] k k :: cl, CarriesL.cons ⟨rfl, h1, h2⟩ c1, ?_, ?_⟩
    · intro g hg
      simp only [List.mem_cons] at hg
      rcases hg with rfl | hg
      · rfl
      · exact c2 g hg
    · exact ⟨k, u, v, Nat.le_refl _, Nat.le_refl _, rfl, h4, c3⟩

/-- two automata that stand for the same non-empty sequences of counted graphemes spell the same non-empty strings -/
theorem spells_of_caccepts_iff (i : Bool) (d1 d2 : Dfa)
    (h : ∀ cl : Cluster, (∀ g ∈ cl, g.min = g.max) → cl ≠ [] → (d1.CAccepts cl → d2.CAccepts cl))
    (s : Str) (hs : s ≠ []) :
    (∃ ls, d1.LangFrom d1.init ls ∧ SpellsA i ls s) → ∃ ls, d2.LangFrom d2.init ls ∧ SpellsA i ls s := by
  rintro ⟨ls, hl, hsp⟩
  obtain ⟨cl, c1, c2, c3⟩ := spellsA_choose i ls s hsp
  have hne : cl ≠ [] := by
    intro e
    subst e
    exact hs (by simpa [SpellsA] using c3)
  obtain ⟨w, hw, cw⟩ := (h cl c2 hne (langFrom_caccepts hl c1)).langFrom
  exact ⟨w, hw, carriesL_spellsA i cw s c3⟩

/-- **the language of the `-r` pattern is what the trie's labels spell** (settings of `RepPrint`; at least one non-empty test case): the
compiled pattern matches a non-empty string of scalar values in full iff the trie — S5, before minimisation — has an accepting path whose
labels spell it -/
theorem rep_exact_trie (cfg : Config) (hp : RepPrint cfg) (env : Env) (ws : List Str) (st : Stages)
    (h : regExpFrom cfg env ws = .ok st) (hseg : ∀ w ∈ storedCases cfg env ws, SegOK env w)
    (hlen : ∀ w ∈ storedCases cfg env ws, (subPieces (env.segOf w)).length ≤ 1000) (hne : ∃ t ∈ storedCases cfg env ws, t ≠ [])
    (s : Str) (hs : ∀ c ∈ s, Scalar c) (hsne : s ≠ []) :
    ∃ P, Spec.parse (fmtRegExp cfg st.finalAst) = some (⟨cfg.ci, false⟩, P) ∧
      (Spec.fullMatch cfg.ci P s = true ↔ ∃ ls, st.trie.LangFrom st.trie.init ls ∧ SpellsA cfg.ci ls s) := by
  obtain ⟨P, hP, hm⟩ := rep_exact cfg hp env ws st h hseg hlen hne s hs
  refine ⟨P, hP, hm.trans ?_⟩
  obtain ⟨_, _, htrie, hmin, _⟩ := from_stages_shape cfg env ws st h
  have hcounts := fun cl hc => (rep_clusters_lit cfg hp.rep hp.minRep env ws st h hseg hlen cl hc).2
  obtain ⟨m, hmm, hex⟩ := minimize_trie_r_exact st.clusters hcounts
  rw [← htrie, hmin] at hmm
  cases hmm
  rw [htrie]
  constructor
  · exact spells_of_caccepts_iff cfg.ci _ _ (fun cl h1 h2 => (hex cl h1 h2).mp) s hsne
  · exact spells_of_caccepts_iff cfg.ci _ _ (fun cl h1 h2 => (hex cl h1 h2).mpr) s hsne

end Grexv
