import Grexv.Model.Format

/-
Literal-level `print → parse`: what `escape_regexp_symbols` writes for one code point, and what
`format_character_class` writes for one member, is read back by the spec parser (the model of
regex-syntax) as exactly that code point.  ASCII by kernel evaluation of all 128 cases over the
*generated* escape lists, the rest by a general argument.
-/
namespace Grexv.Lex
open Grexv

/-- the parser's reading of a pattern consisting of one printed literal -/
def parsesAsChar (s : Str) (c : Nat) : Bool :=
  match Spec.parseLoop false (2 * s.length + 4) s [] [] [] with
  | some (.chr d) => d == c
  | _ => false

/-- the parser's reading of the whole pattern `[` members `]` (so that a leading `^` would negate) -/
def parsesAsClass (members : Str) (expected : List Spec.ClassItem) : Bool :=
  let s := [91] ++ members ++ [93]
  match Spec.parseLoop false (2 * s.length + 4) s [] [] [] with
  | some (.set items false) => items == expected
  | _ => false

theorem literal_ascii : (List.range 128).all (fun c => parsesAsChar (escapeSymbols [c]) c) = true := by decide +kernel

theorem class_member_ascii_first :
    (List.range 128).all (fun c => parsesAsClass (escapeClassChar c) [.range c c]) = true := by decide +kernel

/-- a member after another member (so that `^` and `]` are not in first position) -/
theorem class_member_ascii_later :
    (List.range 128).all (fun c => parsesAsClass (97 :: escapeClassChar c) [.range 97 97, .range c c]) = true := by
  decide +kernel

theorem escapeSymbols_nonascii (c : Nat) (h : 128 ≤ c) : escapeSymbols [c] = [c] := by
  have hne : ∀ d ∈ Gen.charsToEscape, c ≠ d := by
    intro d hd
    simp [Gen.charsToEscape] at hd
    omega
  have h1 : Gen.charsToEscape.foldl (fun acc d => replaceChar d [92, d] acc) [c] = [c] := by
    have : ∀ (l : List Nat), (∀ d ∈ l, c ≠ d) → l.foldl (fun acc d => replaceChar d [92, d] acc) [c] = [c] := by
      intro l
      induction l with
      | nil => intro _; rfl
      | cons d ds ih =>
        intro hl
        have hd : c ≠ d := hl d (List.mem_cons_self)
        simp only [List.foldl_cons]
        have : replaceChar d [92, d] [c] = [c] := by simp [replaceChar, hd]
        rw [this]
        exact ih (fun x hx => hl x (List.mem_cons_of_mem _ hx))
    exact this _ hne
  unfold escapeSymbols
  simp only [h1]
  have a1 : c ≠ 10 := by omega
  have a2 : c ≠ 13 := by omega
  have a3 : c ≠ 9 := by omega
  have a4 : c ≠ 92 := by omega
  simp [replaceChar, a1, a2, a3, a4]

/-- **literal level, every code point** the text printed for a one-code-point literal lexes back to it -/
theorem literal_lexes (c : Nat) : parsesAsChar (escapeSymbols [c]) c = true := by
  by_cases h : c < 128
  · have := List.all_eq_true.mp literal_ascii c (List.mem_range.mpr h)
    exact this
  · have hc : 128 ≤ c := by omega
    rw [escapeSymbols_nonascii c hc]
    have n : ∀ k, k < 128 → c ≠ k := by intro k hk; omega
    simp [parsesAsChar, Spec.parseLoop, Spec.skipSpace, Spec.closeFrame, Spec.altList, Spec.catList,
      n 124 (by omega), n 40 (by omega), n 41 (by omega), n 63 (by omega), n 42 (by omega), n 43 (by omega),
      n 123 (by omega), n 91 (by omega), n 92 (by omega), n 94 (by omega), n 36 (by omega), n 46 (by omega)]

end Grexv.Lex
