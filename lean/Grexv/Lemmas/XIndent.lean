import Grexv.Lemmas.XMode
import Grexv.Lemmas.Lines

/-
`indent_regexp` only edits white space at line boundaries: it deletes line feeds (empty lines, the final one) and puts
blanks behind a line feed or at the very beginning.  `Ed t v` is that edit relation; `indent_edit` shows the function
stays inside it for text without carriage returns; `XL.edit` shows the relation `XL` (verbose text / stripped text)
is stable under it as long as no lexeme contains a line feed.
-/
set_option linter.unusedSimpArgs false
set_option linter.unusedVariables false
namespace Grexv
open Spec

def blanks (k : Nat) : Str := List.replicate k 32

/-- `v` is `t` with some line feeds deleted and blanks inserted behind (kept or deleted) line feeds -/
inductive Ed : Str → Str → Prop where
  | nil : Ed [] []
  | keep (c : Nat) (t v : Str) : c ≠ 10 → Ed t v → Ed (c :: t) (c :: v)
  | nl (k : Nat) (t v : Str) : Ed t v → Ed (10 :: t) (10 :: (blanks k ++ v))
  | drop (k : Nat) (t v : Str) : Ed t v → Ed (10 :: t) (blanks k ++ v)

theorem Ed.refl_noLF : ∀ (l : Str), 10 ∉ l → Ed l l
  | [], _ => Ed.nil
  | c :: r, h => Ed.keep c r r (by intro e; subst e; simp at h) (Ed.refl_noLF r (by intro e; exact h (List.mem_cons_of_mem _ e)))

theorem Ed.append_noLF : ∀ (l : Str), 10 ∉ l → ∀ {t v : Str}, Ed t v → Ed (l ++ t) (l ++ v)
  | [], _, _, _, h => h
  | c :: r, hl, t, v, h =>
    Ed.keep c _ _ (by intro e; subst e; simp at hl) (Ed.append_noLF r (by intro e; exact hl (List.mem_cons_of_mem _ e)) h)

/-- the lines `indent_lines` keeps: the non-empty ones, each behind some blanks -/
inductive Ind : List Str → List Str → Prop where
  | nil : Ind [] []
  | skip (ls os : List Str) : Ind ls os → Ind ([] :: ls) os
  | keep (k : Nat) (l : Str) (ls os : List Str) : l ≠ [] → Ind ls os → Ind (l :: ls) ((blanks k ++ l) :: os)

theorem indentLines_ind (cfg : Config) : ∀ (lines : List Str) (i level : Nat), Ind lines (indentLines cfg lines i level)
  | [], _, _ => by simp only [indentLines]; exact Ind.nil
  | line :: rest, i, level => by
    rw [indentLines]
    simp only []
    split
    · rename_i he
      have : line = [] := by simpa using he
      subst this
      exact Ind.skip _ _ (indentLines_ind cfg rest _ _)
    · rename_i he
      have hne : line ≠ [] := by intro e; subst e; simp at he
      exact Ind.keep _ line _ _ hne (indentLines_ind cfg rest _ _)

theorem split_at_LF : ∀ (t : Str), 10 ∉ t ∨ ∃ l rest, t = l ++ 10 :: rest ∧ 10 ∉ l
  | [] => Or.inl (by simp)
  | c :: r => by
    by_cases hc : c = 10
    · subst hc; exact Or.inr ⟨[], r, rfl, by simp⟩
    · rcases split_at_LF r with h | ⟨l, rest, rfl, hl⟩
      · left; simp [hc, h]; intro e; exact hc e.symm
      · right; exact ⟨c :: l, rest, rfl, by simp [hl]; intro e; exact hc e.symm⟩

theorem ind_nil_left {os : List Str} (h : Ind [] os) : os = [] := by cases h; rfl

/-- joining the kept lines gives an edit of the text -/
theorem lines_edit : ∀ (n : Nat) (t : Str), t.length < n → 13 ∉ t → ∀ outs, Ind (splitLines.go t []) outs →
    ∃ k0 V0, joinWith [10] outs = blanks k0 ++ V0 ∧ Ed t V0 := by
  intro n
  induction n with
  | zero => intro t h; simp at h
  | succ n ih =>
    intro t hlen hcr outs hind
    rcases split_at_LF t with hno | ⟨l, rest, rfl, hl⟩
    · rw [splitLines_go_noLF [] t hno] at hind
      simp only [List.reverse_nil, List.nil_append] at hind
      by_cases he : t = []
      · subst he
        simp only [List.isEmpty_nil, ite_true] at hind
        rw [ind_nil_left hind]
        exact ⟨0, [], rfl, Ed.nil⟩
      · have he' : t.isEmpty = false := by cases t <;> simp_all
        simp only [he', Bool.false_eq_true, ite_false] at hind
        cases hind with
        | skip ls os h' => exact absurd rfl he
        | keep k l ls os hne h' =>
          rw [ind_nil_left h']
          exact ⟨k, t, rfl, Ed.refl_noLF t hno⟩
    · have hcr_l : 13 ∉ l := by intro e; exact hcr (by simp [e])
      have hcr_r : 13 ∉ rest := by intro e; exact hcr (by simp [e])
      have hline := splitLines_go_line [] l rest hl
      simp only [List.reverse_nil, List.nil_append] at hline
      have hlast : l.getLast? ≠ some 13 := by
        intro e
        exact hcr_l (List.mem_of_getLast? e)
      rw [hline] at hind
      simp only [hlast, ite_false] at hind
      have hlen' : rest.length < n := by simp at hlen; omega
      cases hind with
      | skip ls os h' =>
        obtain ⟨k0, V0, hj, he⟩ := ih rest hlen' hcr_r outs h'
        exact ⟨0, blanks k0 ++ V0, by simpa [blanks] using hj, by simpa using Ed.drop k0 rest V0 he⟩
      | keep k l' ls os hne h' =>
        obtain ⟨k1, V1, hj, he⟩ := ih rest hlen' hcr_r os h'
        cases os with
        | nil =>
          have hV : blanks k1 ++ V1 = [] := by simpa [joinWith] using hj.symm
          have hV1 : V1 = [] := (List.append_eq_nil_iff.mp hV).2
          have hk1 : blanks k1 = [] := (List.append_eq_nil_iff.mp hV).1
          subst hV1
          refine ⟨k, l, by simp [joinWith], ?_⟩
          have : Ed (10 :: rest) (blanks 0 ++ []) := Ed.drop 0 rest [] he
          have := Ed.append_noLF l hl this
          simpa [blanks] using this
        | cons o os' =>
          refine ⟨k, l ++ 10 :: (blanks k1 ++ V1), ?_, ?_⟩
          · simp only [joinWith]
            rw [hj]
            simp
          · exact Ed.append_noLF l hl (Ed.nl k1 rest V1 he)

/-- **`indent_regexp` is a white-space edit at line boundaries** (for text without carriage returns) -/
theorem indent_edit (cfg : Config) (t : Str) (hcr : 13 ∉ t) :
    ∃ k0 V0, indentRegexp cfg t = blanks k0 ++ V0 ∧ Ed t V0 := by
  unfold indentRegexp splitLines
  exact lines_edit (t.length + 1) t (by omega) hcr _ (indentLines_ind cfg _ 0 0)

/-! ### `XL` is stable under the edit -/

theorem XL.blanks (k : Nat) {v u : Str} (h : XL v u) : XL (blanks k ++ v) u := by
  induction k with
  | zero => simpa [Grexv.blanks] using h
  | succ k ih =>
    have : Grexv.blanks (k + 1) ++ v = 32 :: (Grexv.blanks k ++ v) := by simp [Grexv.blanks, List.replicate_succ]
    rw [this]
    exact XL.ws 32 _ _ (by decide) ih

theorem Ed.chunk : ∀ (w : Str), 10 ∉ w → ∀ {t V : Str}, Ed (w ++ t) V → ∃ v, V = w ++ v ∧ Ed t v
  | [], _, t, V, h => ⟨V, rfl, h⟩
  | c :: r, hw, t, V, h => by
    have hc : c ≠ 10 := by intro e; subst e; simp at hw
    cases h with
    | keep _ _ v _ h' =>
      obtain ⟨v', rfl, h''⟩ := Ed.chunk r (by intro e; exact hw (List.mem_cons_of_mem _ e)) h'
      exact ⟨v', rfl, h''⟩
    | nl => exact absurd rfl hc
    | drop => exact absurd rfl hc

theorem toDec_noLF (n : Nat) : 10 ∉ toDec n := by
  rw [toDec_eq]
  intro h
  obtain ⟨d, hd, e⟩ := List.mem_map.mp h
  have := decDigs_lt 64 n d hd
  omega

theorem CntBody.noLF {q : Str} (h : CntBody q) : 10 ∉ q := by
  rcases h with ⟨n, _, rfl⟩ | ⟨m, n, _, _, rfl⟩
  · intro hm
    simp only [List.mem_append, List.mem_singleton] at hm
    rcases hm with hm | hm
    · exact toDec_noLF n hm
    · omega
  · intro hm
    simp only [List.mem_append, List.mem_cons, List.mem_singleton, List.mem_nil_iff, or_false] at hm
    rcases hm with hm | hm | hm | hm
    · exact toDec_noLF m hm
    · omega
    · exact toDec_noLF n hm
    · omega

/-- **the verbose text may be re-indented**: the relation to the stripped text survives the edit -/
theorem XL.edit {t u : Str} (h : XL t u) : ∀ {V : Str}, Ed t V → XL V u := by
  induction h with
  | nil => intro V he; cases he; exact XL.nil
  | ws c t u hw ht ih =>
    intro V he
    cases he with
    | keep _ _ v _ h' => exact XL.ws c v u hw (ih h')
    | nl k _ v h' => exact XL.ws 10 _ u (by decide) (XL.blanks k (ih h'))
    | drop k _ v h' => exact XL.blanks k (ih h')
  | raw c t u hc h92 h91 h40 h123 ht ih =>
    intro V he
    have h10 := wsOrHash_ne_10 hc
    cases he with
    | keep _ _ v _ h' => exact XL.raw c v u hc h92 h91 h40 h123 (ih h')
    | nl => exact absurd rfl h10
    | drop => exact absurd rfl h10
  | esc pre t u hp ht ih =>
    intro V he
    cases he with
    | keep _ _ v1 _ h' =>
      obtain ⟨v, rfl, h''⟩ := Ed.chunk pre hp.noLF h'
      exact XL.esc pre v u hp (ih h'')
  | cls b t u hb h1 h2 ht ih =>
    intro V he
    cases he with
    | keep _ _ v1 _ h' =>
      obtain ⟨v, rfl, h''⟩ := Ed.chunk b hb.noLF h'
      exact XL.cls b v u hb h1 h2 (ih h'')
  | lpn t u ht ih =>
    intro V he
    cases he with
    | keep _ _ v1 _ h' =>
      obtain ⟨v, rfl, h''⟩ := Ed.chunk [63, 58] (by decide) h'
      exact XL.lpn v u (ih h'')
  | lpc t u ht h1 ih =>
    intro V he
    cases he with
    | keep _ _ v _ h' =>
      exact XL.lpc v u (ih h') h1
  | cnt q t u hq ht ih =>
    intro V he
    cases he with
    | keep _ _ v1 _ h' =>
      obtain ⟨v, rfl, h''⟩ := Ed.chunk q hq.noLF h'
      exact XL.cnt q v u hq (ih h'')

end Grexv
