import Grexv.Model.Format

/- `str::lines` (`splitLines`) on text without / with a line feed. -/
namespace Grexv

theorem splitLines_go_noLF (cur l : Str) (h : 10 ∉ l) :
    splitLines.go l cur = if (cur.reverse ++ l).isEmpty then [] else [cur.reverse ++ l] := by
  induction l generalizing cur with
  | nil => simp [splitLines.go]
  | cons c rest ih =>
    have hc : c ≠ 10 := by intro e; subst e; simp at h
    have hr : 10 ∉ rest := by intro e; exact h (List.mem_cons_of_mem _ e)
    simp [splitLines.go, hc, ih (c :: cur) hr]

theorem splitLines_go_line (cur l rest : Str) (h : 10 ∉ l) :
    splitLines.go (l ++ 10 :: rest) cur =
      (let line := cur.reverse ++ l
       if line.getLast? = some 13 then line.dropLast else line) :: splitLines.go rest [] := by
  induction l generalizing cur with
  | nil => simp [splitLines.go]
  | cons c l' ih =>
    have hc : c ≠ 10 := by intro e; subst e; simp at h
    have hr : 10 ∉ l' := by intro e; exact h (List.mem_cons_of_mem _ e)
    simp [splitLines.go, hc, ih (c :: cur) hr]

theorem replaceChar_append (c : Nat) (r a b : Str) :
    replaceChar c r (a ++ b) = replaceChar c r a ++ replaceChar c r b := by
  simp [replaceChar, List.flatMap_append]

theorem replaceChar_id (c : Nat) (r s : Str) (h : c ∉ s) : replaceChar c r s = s := by
  induction s with
  | nil => rfl
  | cons x xs ih =>
    have hx : x ≠ c := by intro e; subst e; simp at h
    have hxs : c ∉ xs := by intro e; exact h (List.mem_cons_of_mem _ e)
    simp [replaceChar, List.flatMap_cons, hx] at ih ⊢
    exact ih hxs

end Grexv
