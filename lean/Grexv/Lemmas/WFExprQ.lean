import Grexv.Lemmas.WFExprS

/-
`WFExprS.lean` once more, for literals whose graphemes also satisfy an arbitrary pointwise predicate `Q` (`WFQ Q`): `union`,
`concatenate` and the state elimination only ever take literal clusters apart and put them together, so whatever holds of every label
of the automaton holds of every grapheme of every literal of the expression.  Generated from `WFExprS.lean` by renaming.
-/
set_option linter.unusedSimpArgs false
set_option linter.unusedVariables false
namespace Grexv

/-- a literal of printable, consistent graphemes that all satisfy `Q` -/
def LitQ (Q : Grapheme → Prop) (c : Cluster) : Prop := ∀ g ∈ c, (GOK g ∧ GSem g) ∧ Q g

mutual
def Expr.WFQ (Q : Grapheme → Prop) : Expr → Prop
  | .alt os => os ≠ [] ∧ Expr.WFLQ Q os
  | .cls cs => cs ≠ [] ∧ (∀ c ∈ cs, Scalar c) ∧ cs.Pairwise (· < ·)
  | .cat a b => Expr.WFQ Q a ∧ Expr.WFQ Q b
  | .lit c => LitQ Q c
  | .rep e q => q = .question ∧ e.isRep = false ∧ Expr.WFQ Q e
def Expr.WFLQ (Q : Grapheme → Prop) : List Expr → Prop
  | [] => True
  | o :: os => o.isAlt = false ∧ Expr.WFQ Q o ∧ Expr.WFLQ Q os
end

theorem LitQ.toLitS {Q : Grapheme → Prop} {c : Cluster} (h : LitQ Q c) : LitS c := fun g hg => (h g hg).1

mutual
theorem Expr.WFQ.toWFS {Q : Grapheme → Prop} : ∀ (e : Expr), e.WFQ Q → e.WFS
  | .alt os, h => ⟨h.1, Expr.WFLQ.toWFLS os h.2⟩
  | .cls cs, h => h
  | .cat a b, h => ⟨Expr.WFQ.toWFS a h.1, Expr.WFQ.toWFS b h.2⟩
  | .lit c, h => LitQ.toLitS h
  | .rep e q, h => ⟨h.1, h.2.1, Expr.WFQ.toWFS e h.2.2⟩
theorem Expr.WFLQ.toWFLS {Q : Grapheme → Prop} : ∀ (os : List Expr), Expr.WFLQ Q os → Expr.WFLS os
  | [], _ => trivial
  | o :: os, h => ⟨h.1, Expr.WFQ.toWFS o h.2.1, Expr.WFLQ.toWFLS os h.2.2⟩
end

namespace Expr
variable {Q : Grapheme → Prop}


theorem plainBs_append_Q {a b : Cluster} (ha : LitQ Q a) (hb : LitQ Q b) : LitQ Q (a ++ b) := by
  intro g hg
  simp only [List.mem_append] at hg
  rcases hg with hg | hg
  · exact ha g hg
  · exact hb g hg

theorem plainBs_sub_Q {a b : Cluster} (hb : LitQ Q b) (h : ∀ g ∈ a, g ∈ b) : LitQ Q a := fun g hg => hb g (h g hg)

theorem plainBs_nil_Q : LitQ Q [] := fun g hg => by simp at hg

theorem wfl_iff_Q (os : List Expr) : WFLQ Q os ↔ ∀ o ∈ os, o.isAlt = false ∧ WFQ Q o := by
  induction os with
  | nil => simp [WFLQ]
  | cons o os ih =>
    simp only [WFLQ, ih, List.mem_cons, forall_eq_or_imp]
    constructor
    · rintro ⟨h1, h2, h3⟩; exact ⟨⟨h1, h2⟩, h3⟩
    · rintro ⟨⟨h1, h2⟩, h3⟩; exact ⟨h1, h2, h3⟩

theorem flatten_wf_Q (e : Expr) (h : WFQ Q e) : flatten e ≠ [] ∧ ∀ x ∈ flatten e, x.isAlt = false ∧ WFQ Q x := by
  cases hal : e.isAlt with
  | false =>
    rw [flatten_nonalt e hal]
    exact ⟨by simp, by intro x hx; simp only [List.mem_singleton] at hx; subst hx; exact ⟨hal, h⟩⟩
  | true =>
    cases e with
    | alt os =>
      obtain ⟨hne, hl⟩ := h
      have hl' := (wfl_iff_Q os).mp hl
      simp only [flatten]
      rw [flattenL_nonalt os (fun o ho => (hl' o ho).1)]
      exact ⟨hne, hl'⟩
    | _ => simp [isAlt] at hal

theorem flattenL_wf_Q (es : List Expr) (h : ∀ e ∈ es, WFQ Q e) (hne : es ≠ []) :
    flattenL es ≠ [] ∧ ∀ x ∈ flattenL es, x.isAlt = false ∧ WFQ Q x := by
  induction es with
  | nil => exact absurd rfl hne
  | cons e es ih =>
    obtain ⟨f1, f2⟩ := flatten_wf_Q e (h e List.mem_cons_self)
    simp only [flattenL]
    refine ⟨by intro hc; exact f1 (List.append_eq_nil_iff.mp hc).1, ?_⟩
    intro x hx
    simp only [List.mem_append] at hx
    rcases hx with hx | hx
    · exact f2 x hx
    · by_cases hes : es = []
      · subst hes; simp [flattenL] at hx
      · exact (ih (fun y hy => h y (List.mem_cons_of_mem _ hy)) hes).2 x hx

theorem wf_newAlternation_Q (es : List Expr) (h : ∀ e ∈ es, WFQ Q e) (hne : es ≠ []) : WFQ Q (newAlternation es) := by
  obtain ⟨f1, f2⟩ := flattenL_wf_Q es h hne
  simp only [newAlternation, WFQ]
  refine ⟨?_, (wfl_iff_Q _).mpr ?_⟩
  · intro hc
    cases hf : flattenL es with
    | nil => exact f1 hf
    | cons a as =>
      have : a ∈ sortBy (fun a b => decide (len a ≥ len b)) (flattenL es) := (mem_sortBy _ a _).mpr (by rw [hf]; exact List.mem_cons_self)
      rw [hc] at this
      simp at this
  · intro o ho
    exact f2 o ((mem_sortBy _ o _).mp ho)

/-! ### classes -/

theorem wf_newCharacterClass_Q (a b : List Nat) (ha : ∀ x ∈ a, Scalar x) (hb : ∀ x ∈ b, Scalar x) (hsb : b.Pairwise (· < ·))
    (hne : a ≠ [] ∨ b ≠ []) : WFQ Q (newCharacterClass a b) := by
  simp only [newCharacterClass, WFQ]
  have key : ∀ (a b : List Nat), (∀ x ∈ a, Scalar x) → (∀ x ∈ b, Scalar x) → b.Pairwise (· < ·) →
      (∀ x, x ∈ a.foldl (fun acc c => insertChar c acc) b ↔ x ∈ a ∨ x ∈ b) ∧
      (a.foldl (fun acc c => insertChar c acc) b).Pairwise (· < ·) := by
    intro a
    induction a with
    | nil => intro b _ _ hs; exact ⟨by simp, hs⟩
    | cons c cs ih =>
      intro b ha hb hs
      simp only [List.foldl_cons]
      obtain ⟨i1, i2⟩ := ih (insertChar c b) (fun x hx => ha x (List.mem_cons_of_mem _ hx))
        (fun x hx => by
          rcases (mem_insertChar x c b).mp hx with rfl | hx
          · exact ha _ List.mem_cons_self
          · exact hb x hx) (insertChar_sorted c b hs)
      refine ⟨?_, i2⟩
      intro x
      rw [i1, mem_insertChar]
      simp only [List.mem_cons]
      constructor
      · rintro (h | h | h)
        · exact Or.inl (Or.inr h)
        · exact Or.inl (Or.inl h)
        · exact Or.inr h
      · rintro ((h | h) | h)
        · exact Or.inr (Or.inl h)
        · exact Or.inl h
        · exact Or.inr (Or.inr h)
  obtain ⟨k1, k2⟩ := key a b ha hb hsb
  refine ⟨?_, ?_, k2⟩
  · intro hc
    rcases hne with hne | hne
    · cases a with
      | nil => exact absurd rfl hne
      | cons x xs =>
        have := (k1 x).mpr (Or.inl List.mem_cons_self)
        rw [hc] at this; simp at this
    · cases b with
      | nil => exact absurd rfl hne
      | cons x xs =>
        have := (k1 x).mpr (Or.inr List.mem_cons_self)
        rw [hc] at this; simp at this
  · intro x hx
    rcases (k1 x).mp hx with h | h
    · exact ha x h
    · exact hb x h

/-- the code points `extract_character_set` takes from a single-code-point expression -/
theorem extractCharSet_single_Q (cap esc : Bool) (e : Expr) (h : WFQ Q e) (hs : e.isSingleCodepoint (cfgPlain cap esc) = true) :
    extractCharSet e ≠ [] ∧ (∀ x ∈ extractCharSet e, Scalar x) ∧ (extractCharSet e).Pairwise (· < ·) := by
  cases e with
  | cls cs => exact ⟨h.1, h.2.1, h.2.2⟩
  | lit c =>
    obtain ⟨x, rfl, _, _, hok⟩ := single_literalR cap esc c (litS_gokl c (LitQ.toLitS h)).1 hs
    have hsc : Scalar x := by
      rcases hok with h92 | hall
      · simp only [List.cons.injEq, Atom.chr.injEq, and_true] at h92
        subst h92; exact Or.inl (by decide)
      · exact (hall _ List.mem_cons_self).2
    simp only [extractCharSet, List.head?_cons, value_ofStr]
    exact ⟨by simp, by intro y hy; simp only [List.mem_singleton] at hy; subst hy; exact hsc, by simp⟩
  | alt os => simp [isSingleCodepoint] at hs
  | cat a b => simp [isSingleCodepoint] at hs
  | rep e q => simp [isSingleCodepoint] at hs

/-! ### concatenate -/

theorem wf_concatCore_Q (e1 e2 : Expr) (h1 : WFQ Q e1) (h2 : WFQ Q e2) : WFQ Q (concatCore e1 e2) := by
  unfold concatCore
  split
  · exact plainBs_append_Q h1 h2
  · exact ⟨plainBs_append_Q h1 h2.1, h2.2⟩
  · exact ⟨h1.1, plainBs_append_Q h1.2 h2⟩
  · exact ⟨h1, h2⟩

/-- optional expressions -/
def OWF_Q (Q : Grapheme → Prop) : Option Expr → Prop
  | none => True
  | some e => WFQ Q e

theorem owf_concatenate_Q (a b : Option Expr) (ha : OWF_Q Q a) (hb : OWF_Q Q b) : OWF_Q Q (concatenate a b) := by
  cases a with
  | none => simp [concatenate, OWF_Q]
  | some e1 =>
    cases b with
    | none => simp [concatenate, OWF_Q]
    | some e2 =>
      simp only [concatenate]
      split
      · exact hb
      · split
        · exact ha
        · exact wf_concatCore_Q e1 e2 ha hb

end Expr
end Grexv

namespace Grexv
namespace Expr

/-! ### union -/

theorem wf_removeSubstring_Q (s : Side) (n : Nat) (e : Expr) (h : WFQ Q e) : WFQ Q (removeSubstring s n e) := by
  cases e with
  | lit c =>
    simp only [removeSubstring, WFQ]
    cases s
    · exact plainBs_sub_Q h (fun g hg => List.mem_of_mem_drop hg)
    · exact plainBs_sub_Q h (fun g hg => List.mem_of_mem_take hg)
  | cat a b =>
    cases s
    · simp only [removeSubstring]
      split
      · rename_i c; exact ⟨plainBs_sub_Q h.1 (fun g hg => List.mem_of_mem_drop hg), h.2⟩
      · exact h
    · simp only [removeSubstring]
      split
      · rename_i c; exact ⟨h.1, plainBs_sub_Q h.2 (fun g hg => List.mem_of_mem_take hg)⟩
      · exact h
  | alt _ => exact h
  | cls _ => exact h
  | rep _ _ => exact h

theorem sideValue_plainBs_Q (s : Side) (e : Expr) (h : WFQ Q e) (c : Cluster) (hc : sideValue s e = some c) : LitQ Q c := by
  cases e with
  | lit c' => simp only [sideValue, Option.some.injEq] at hc; subst hc; exact h
  | cat a b =>
    cases s
    · cases a with
      | lit c' => simp only [sideValue, Option.some.injEq] at hc; subst hc; exact h.1
      | _ => simp [sideValue] at hc
    · cases b with
      | lit c' => simp only [sideValue, Option.some.injEq] at hc; subst hc; exact h.2
      | _ => simp [sideValue] at hc
  | alt _ => simp [sideValue] at hc
  | cls _ => simp [sideValue] at hc
  | rep _ _ => simp [sideValue] at hc

theorem findCommon_plainBs_Q (s : Side) (a b : Expr) (ha : WFQ Q a) (v : Cluster) (h : findCommon s a b = some v) : LitQ Q v := by
  have hga : LitQ Q ((sideValue s a).getD []) := by
    cases hs : sideValue s a with
    | none => exact plainBs_nil_Q
    | some c => exact sideValue_plainBs_Q s a ha c hs
  cases s with
  | pre =>
    simp only [findCommon] at h
    split at h
    · simp at h
    · simp only [Option.some.injEq] at h
      subst h
      obtain ⟨r, hr⟩ := commonPrefix_left ((sideValue Side.pre a).getD []) ((sideValue Side.pre b).getD [])
      exact plainBs_sub_Q hga (fun g hg => by rw [hr]; exact List.mem_append_left _ hg)
  | suf =>
    simp only [findCommon] at h
    split at h
    · simp at h
    · simp only [Option.some.injEq] at h
      subst h
      obtain ⟨r, hr⟩ := commonPrefix_left ((sideValue Side.suf a).getD []).reverse ((sideValue Side.suf b).getD []).reverse
      intro g hg
      simp only [List.mem_reverse] at hg
      apply hga g
      have : g ∈ ((sideValue Side.suf a).getD []).reverse := by rw [hr]; exact List.mem_append_left _ hg
      exact List.mem_reverse.mp this

theorem removeCommon_spec_Q (s : Side) (a b : Expr) (ha : WFQ Q a) (hb : WFQ Q b) :
    WFQ Q (removeCommon s a b).1 ∧ WFQ Q (removeCommon s a b).2.1 ∧
    (∀ v, (removeCommon s a b).2.2 = some v → LitQ Q v) ∧
    (removeCommon s a b).1.isRep = a.isRep ∧ (removeCommon s a b).2.1.isRep = b.isRep ∧
    ((removeCommon s a b).2.2 = none → removeCommon s a b = (a, b, none)) := by
  unfold removeCommon
  cases hf : findCommon s a b with
  | none => exact ⟨ha, hb, by simp, rfl, rfl, fun _ => rfl⟩
  | some v =>
    refine ⟨wf_removeSubstring_Q _ _ _ ha, wf_removeSubstring_Q _ _ _ hb, ?_, isRep_removeSubstring _ _ _, isRep_removeSubstring _ _ _, by simp⟩
    intro v' hv'
    simp only [Option.some.injEq] at hv'
    subst hv'
    exact findCommon_plainBs_Q s a b ha v hf

theorem wf_unionMid_Q (cap esc : Bool) (e1 e2 : Expr) (h1 : WFQ Q e1) (h2 : WFQ Q e2)
    (hc1 : e1.isEmpty = true → e2.isRep = false) (hc2 : e2.isEmpty = true → e1.isRep = false) :
    WFQ Q (unionMid (cfgPlain cap esc) e1 e2) := by
  have two : ∀ x y : Expr, WFQ Q x → WFQ Q y → WFQ Q (newAlternation [x, y]) := by
    intro x y hx hy
    apply wf_newAlternation_Q _ _ (by simp)
    intro z hz
    simp only [List.mem_cons, List.mem_nil_iff, or_false] at hz
    rcases hz with rfl | rfl
    · exact hx
    · exact hy
  unfold unionMid
  split
  · rename_i he; exact ⟨rfl, hc1 he, h2⟩
  · split
    · rename_i he; exact ⟨rfl, hc2 he, h1⟩
    · split
      · exact ⟨rfl, rfl, two _ _ h1.2.2 h2⟩
      · split
        · exact ⟨rfl, rfl, two _ _ h1 h2.2.2⟩
        · split
          · rename_i hs
            simp only [Bool.and_eq_true] at hs
            obtain ⟨a1, a2, _⟩ := extractCharSet_single_Q cap esc e1 h1 hs.1
            obtain ⟨b1, b2, b3⟩ := extractCharSet_single_Q cap esc e2 h2 hs.2
            exact wf_newCharacterClass_Q _ _ a2 b2 b3 (Or.inl a1)
          · exact two e1 e2 h1 h2

theorem unionCore_spec_Q (cap esc : Bool) (a b : Expr) (ha : WFQ Q a) (hb : WFQ Q b) (hbs : Solid b) :
    WFQ Q (unionCore (cfgPlain cap esc) a b) ∧ (Solid a → Solid (unionCore (cfgPlain cap esc) a b)) := by
  unfold unionCore
  simp only []
  obtain ⟨p1, p2, p3, p4, p5, p6⟩ := removeCommon_spec_Q .pre a b ha hb
  obtain ⟨q1, q2, q3, q4, q5, q6⟩ := removeCommon_spec_Q .suf _ _ p1 p2
  generalize hr1 : removeCommon .pre a b = r1 at *
  generalize hr2 : removeCommon .suf r1.1 r1.2.1 = r2 at *
  have hc1 : r2.1.isEmpty = true → r2.2.1.isRep = false := by
    intro _; rw [q5, p5]; exact hbs.1
  have hc2 : r2.2.1.isEmpty = true → r2.1.isRep = false := by
    intro he
    cases hrep : r2.1.isRep with
    | false => rfl
    | true =>
      exfalso
      rw [q4, p4] at hrep
      have e1 : r1 = (a, b, none) := by rw [← hr1]; exact removeCommon_rep_left .pre a b hrep
      have e2 : r2 = (a, b, none) := by
        rw [← hr2, e1]; exact removeCommon_rep_left .suf a b hrep
      rw [e2] at he
      have := hbs.2
      simp_all
  have hm := wf_unionMid_Q cap esc r2.1 r2.2.1 q1 q2 hc1 hc2
  have hw : WFQ Q (wrapPre r1.2.2 (unionMid (cfgPlain cap esc) r2.1 r2.2.1)) := by
    cases hpre : r1.2.2 with
    | none => simpa [wrapPre] using hm
    | some p => exact ⟨p3 p hpre, hm⟩
  refine ⟨?_, ?_⟩
  · cases hsuf : r2.2.2 with
    | none => simpa [wrapSuf] using hw
    | some s => exact ⟨hw, q3 s hsuf⟩
  · intro has
    cases hsuf : r2.2.2 with
    | some s => exact ⟨rfl, rfl⟩
    | none =>
      simp only [wrapSuf]
      cases hpre : r1.2.2 with
      | some p => exact ⟨rfl, rfl⟩
      | none =>
        simp only [wrapPre]
        have e1 : r1 = (a, b, none) := p6 hpre
        have e2 : r2 = (a, b, none) := by
          have := q6 hsuf
          rw [this, e1]
        rw [e2]
        exact solid_unionMid _ a b has hbs

theorem owf_union_Q (cap esc : Bool) (a b : Option Expr) (ha : OWF_Q Q a) (hb : OWF_Q Q b) (hbs : OSolid b) :
    OWF_Q Q (union (cfgPlain cap esc) a b) ∧ (OSolid a → OSolid (union (cfgPlain cap esc) a b)) := by
  cases a with
  | none => cases b <;> simp_all [union, OWF_Q, OSolid]
  | some e1 =>
    cases b with
    | none => exact ⟨by simpa [union, OWF_Q] using ha, fun h => by simpa [union, OSolid] using h⟩
    | some e2 =>
      simp only [union]
      split
      · exact ⟨ha, fun h => h⟩
      · exact unionCore_spec_Q cap esc e1 e2 ha hb hbs

end Expr
end Grexv

namespace Grexv
open Expr

def WFSys_Q (Q : Grapheme → Prop) (A : Nat → Nat → Option Expr) (B : Nat → Option Expr) : Prop :=
  (∀ i j, OWF_Q Q (A i j) ∧ OSolid (A i j)) ∧ ∀ i, OWF_Q Q (B i)

theorem wfSys_step_Q (cap esc : Bool) (n : Nat) (A : Nat → Nat → Option Expr) (B : Nat → Option Expr) (h : WFSys_Q Q A B) :
    WFSys_Q Q (stepA (cfgPlain cap esc) n A) (stepB (cfgPlain cap esc) n A B) := by
  obtain ⟨hA, hB⟩ := h
  constructor
  · intro i j
    simp only [stepA]
    split
    · have hc := owf_concatenate_Q (A i n) (A n j) (hA i n).1 (hA n j).1
      have hs := osolid_concatenate (A i n) (A n j) (hA i n).2
      obtain ⟨u1, u2⟩ := owf_union_Q cap esc (A i j) _ (hA i j).1 hc hs
      exact ⟨u1, u2 (hA i j).2⟩
    · exact hA i j
  · intro i
    simp only [stepB]
    split
    · have hc := owf_concatenate_Q (A i n) (B n) (hA i n).1 (hB n)
      have hs := osolid_concatenate (A i n) (B n) (hA i n).2
      exact (owf_union_Q cap esc (B i) _ (hB i) hc hs).1
    · exact hB i

theorem elim_loop_wf_Q (cap esc : Bool) (N : Nat) :
    ∀ (k : Nat), k ≤ N → ∀ (st : ElimState), StSq N st → WFSys_Q Q (absA st) (absB st) →
      NoSelfAlong (cfgPlain cap esc) st (List.range k).reverse →
      WFSys_Q Q (absA ((List.range k).reverse.foldl (elimStep (cfgPlain cap esc)) st))
        (absB ((List.range k).reverse.foldl (elimStep (cfgPlain cap esc)) st)) := by
  intro k
  induction k with
  | zero => intro _ st _ h _; simpa using h
  | succ k ih =>
    intro hk st hst hsys hno
    rw [range_succ_reverse] at hno ⊢
    simp only [List.foldl_cons]
    obtain ⟨hself, hno'⟩ := hno
    obtain ⟨hst', hA, hB⟩ := elimStep_abs (cfgPlain cap esc) N k st hst (by omega) hself
    have hfunA : absA (elimStep (cfgPlain cap esc) st k) = stepA (cfgPlain cap esc) k (absA st) := by
      funext i j; exact hA i j
    have hfunB : absB (elimStep (cfgPlain cap esc) st k) = stepB (cfgPlain cap esc) k (absA st) (absB st) := by
      funext i; exact hB i
    apply ih (by omega) _ hst' _ hno'
    rw [hfunA, hfunB]
    exact wfSys_step_Q cap esc k _ _ hsys

/-! ### the initial system -/

def LabelsS_Q (Q : Grapheme → Prop) (d : Dfa) : Prop := ∀ e ∈ d.edges, LitQ Q [e.label]

theorem labelsBs_plain_Q (d : Dfa) (h : LabelsS_Q Q d) : d.PlainLabels := by
  intro e he
  exact gok_plainish _ (h e he _ List.mem_cons_self).1.1

theorem initRow_wf_Q (cap esc : Bool) (N : Nat) (states : List Nat) (i : Nat) (es : List Edge) (hes : ∀ e ∈ es, LitQ Q [e.label]) :
    ∀ (a : Mat), a.Sq N → (∀ i j, OWF_Q Q (a.get i j) ∧ OSolid (a.get i j)) →
      (initRow (cfgPlain cap esc) states i es a).Sq N ∧
        ∀ i' j', OWF_Q Q ((initRow (cfgPlain cap esc) states i es a).get i' j') ∧ OSolid ((initRow (cfgPlain cap esc) states i es a).get i' j') := by
  induction es with
  | nil => intro a hsq h; exact ⟨hsq, h⟩
  | cons e rest ih =>
    intro a hsq h
    have hstep : initRow (cfgPlain cap esc) states i (e :: rest) a =
        initRow (cfgPlain cap esc) states i rest (match indexOf? states e.dst with
          | some j => a.set i j (if (a.get i j).isSome then Expr.union (cfgPlain cap esc) (a.get i j) (some (Expr.lit [e.label])) else some (Expr.lit [e.label]))
          | none => a) := by
      rfl
    rw [hstep]
    have hrest : ∀ e ∈ rest, LitQ Q [e.label] := fun x hx => hes x (List.mem_cons_of_mem _ hx)
    have hlit : OWF_Q Q (some (Expr.lit [e.label])) ∧ OSolid (some (Expr.lit [e.label])) :=
      ⟨hes e List.mem_cons_self, ⟨rfl, rfl⟩⟩
    cases hidx : indexOf? states e.dst with
    | none => exact ih hrest a hsq h
    | some j =>
      simp only []
      apply ih hrest _ (Mat.sq_set hsq i j _)
      intro i' j'
      rw [Mat.get_set hsq]
      split
      · split
        · obtain ⟨u1, u2⟩ := owf_union_Q cap esc (a.get i j) _ (h i j).1 hlit.1 hlit.2
          exact ⟨u1, u2 (h i j).2⟩
        · exact hlit
      · exact h i' j'

theorem initLoop_wf_Q (cap esc : Bool) (d : Dfa) (hd : LabelsS_Q Q d) (N : Nat) (states : List Nat) :
    ∀ (rest : List Nat) (k : Nat) (st : ElimState), st.a.Sq N → WFSys_Q Q (absA st) (absB st) →
      ((rest.zipIdx k).foldl (initStep (cfgPlain cap esc) d states) st).a.Sq N ∧
        WFSys_Q Q (absA ((rest.zipIdx k).foldl (initStep (cfgPlain cap esc) d states) st))
          (absB ((rest.zipIdx k).foldl (initStep (cfgPlain cap esc) d states) st)) := by
  intro rest
  induction rest with
  | nil => intro k st hsq h; exact ⟨hsq, h⟩
  | cons s rest ih =>
    intro k st hsq h
    simp only [List.zipIdx_cons, List.foldl_cons]
    have hes : ∀ e ∈ d.outEdges s, LitQ Q [e.label] := fun e he => hd e ((mem_outEdges d s e).mp he).1
    obtain ⟨r1, r2⟩ := initRow_wf_Q cap esc N states k (d.outEdges s) hes st.a hsq h.1
    apply ih (k + 1) (initStep (cfgPlain cap esc) d states st (s, k)) r1
    refine ⟨r2, ?_⟩
    intro i
    simp only [absB, initStep]
    split
    · rw [Vect.get_set]
      split
      · exact plainBs_nil_Q
      · exact h.2 i
    · exact h.2 i

theorem init_wfSys_Q (cap esc : Bool) (d : Dfa) (hd : LabelsS_Q Q d) (states : List Nat) :
    WFSys_Q Q (absA (elimInit (cfgPlain cap esc) d states)) (absB (elimInit (cfgPlain cap esc) d states)) := by
  have h0 : WFSys_Q Q (absA { a := Array.replicate d.nodes (Array.replicate d.nodes none), b := Array.replicate d.nodes none })
      (absB { a := Array.replicate d.nodes (Array.replicate d.nodes none), b := Array.replicate d.nodes none }) := by
    constructor
    · intro i j; simp only [absA, Mat.get_replicate]; exact ⟨trivial, trivial⟩
    · intro i; simp only [absB, vect_get_replicate]; trivial
  exact (initLoop_wf_Q cap esc d hd d.nodes states states 0 _ (Mat.sq_replicate d.nodes) h0).2

/-- **`Expression::from` returns a well-formed expression** for an acyclic automaton with plain labels -/
theorem ofDfa_wf_Q (cap esc : Bool) (d : Dfa) (hd : LabelsS_Q Q d) (hdfs : DfsOK d d.dfs)
    (hacyc : ∀ c w, Dfa.Path d c w c → w = []) : (Expr.ofDfa (cfgPlain cap esc) d).WFQ Q := by
  obtain ⟨h1, _, _⟩ := init_system (cfgPlain cap esc) d (labelsBs_plain_Q d hd) d.dfs hdfs
  have hno := noSelfAlong_of_acyclic (cfgPlain cap esc) d d.dfs hacyc d.nodes d.nodes (Nat.le_refl _) _ h1 (init_edgeSys (cfgPlain cap esc) d d.dfs)
  have hw := elim_loop_wf_Q cap esc d.nodes d.nodes (Nat.le_refl _) _ h1 (init_wfSys_Q cap esc d hd d.dfs) hno
  rw [ofDfa_eq]
  have := hw.2 0
  simp only [absB] at this
  split
  · rename_i e he; rw [he] at this; exact this
  · exact plainBs_nil_Q

end Grexv

