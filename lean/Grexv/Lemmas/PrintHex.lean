import Grexv.Lemmas.PrintLex

/-
`\u{…}` round trip: the lower-case hexadecimal text `Grapheme::escape` writes for a non-ASCII scalar value is read back
by the parser (the regex crate's `\u{…}` syntax) as that scalar value.
-/
set_option linter.unusedSimpArgs false
set_option linter.unusedVariables false
namespace Grexv
open Spec

/-- hexadecimal digit values of `n`, most significant first -/
def hexDigs : Nat → Nat → List Nat
  | 0, _ => []
  | f + 1, n => if n < 16 then [n] else hexDigs f (n / 16) ++ [n % 16]

theorem toHexAux_eq : ∀ (f n : Nat) (acc : Str), toHexAux f n acc = (hexDigs f n).map hexDigit ++ acc
  | 0, n, acc => by simp [toHexAux, hexDigs]
  | f + 1, n, acc => by
    unfold toHexAux hexDigs
    split
    · simp
    · rw [toHexAux_eq f (n / 16)]; simp

theorem toHex_eq (n : Nat) : toHex n = (hexDigs 64 n).map hexDigit := by
  simp [toHex, toHexAux_eq]

def hexFold (acc : Nat) (ds : List Nat) : Nat := ds.foldl (fun a d => a * 16 + d) acc

theorem hexValue_append (acc : Nat) (a b : List Nat) : hexFold acc (a ++ b) = hexFold (hexFold acc a) b := by
  simp [hexFold, List.foldl_append]

theorem hexDigs_value : ∀ (f n : Nat), n < 16 ^ f → hexFold 0 (hexDigs f n) = n
  | 0, n, h => by simp at h; subst h; rfl
  | f + 1, n, h => by
    unfold hexDigs
    split
    · simp [hexFold]
    · have : n / 16 < 16 ^ f := by
        rw [Nat.div_lt_iff_lt_mul (by decide)]
        rw [Nat.pow_succ] at h; exact h
      rw [hexValue_append, hexDigs_value f (n / 16) this]
      simp only [hexFold, List.foldl_cons, List.foldl_nil]
      omega

theorem hexDigs_lt : ∀ (f n : Nat), ∀ d ∈ hexDigs f n, d < 16
  | 0, n => by simp [hexDigs]
  | f + 1, n => by
    unfold hexDigs
    split
    · intro d hd; simp only [List.mem_singleton] at hd; omega
    · intro d hd
      simp only [List.mem_append, List.mem_singleton] at hd
      rcases hd with hd | hd
      · exact hexDigs_lt f _ d hd
      · omega

theorem hexDigs_ne_nil (f n : Nat) : hexDigs (f + 1) n ≠ [] := by
  unfold hexDigs
  split <;> simp

theorem hexVal_hexDigit : ∀ d, d < 16 → hexVal (hexDigit d) = some d := by decide
theorem hexDigit_ne_125 : ∀ d, d < 16 → hexDigit d ≠ 125 := by decide

theorem hexValue_ge (acc : Nat) (ds : List Nat) : acc ≤ hexFold acc ds := by
  induction ds generalizing acc with
  | nil => exact Nat.le_refl _
  | cons d r ih =>
    have := ih (acc * 16 + d)
    simp only [hexFold, List.foldl_cons] at this ⊢
    omega

/-- the parser reads a run of hexadecimal digits -/
theorem parseBraceHex_digits (ds : List Nat) (hd : ∀ d ∈ ds, d < 16) :
    ∀ (F acc nd : Nat) (rest : List Nat), hexFold acc ds ≤ 0xFFFFFFFF →
      parseBraceHex false (F + ds.length) (ds.map hexDigit ++ 125 :: rest) acc nd =
        parseBraceHex false F (125 :: rest) (hexFold acc ds) (nd + ds.length) := by
  induction ds with
  | nil => intro F acc nd rest _; rfl
  | cons d r ih =>
    intro F acc nd rest hb
    have hd16 : d < 16 := hd d List.mem_cons_self
    have hr : ∀ x ∈ r, x < 16 := fun x hx => hd x (List.mem_cons_of_mem _ hx)
    have hlen : F + (d :: r).length = (F + r.length) + 1 := by simp; omega
    have hb' : acc * 16 + d ≤ 0xFFFFFFFF := by
      have := hexValue_ge (acc * 16 + d) r
      simp only [hexFold, List.foldl_cons] at hb this ⊢
      omega
    rw [hlen]
    simp only [List.map_cons, List.cons_append]
    rw [parseBraceHex]
    simp only [skipSpace_false, hexDigit_ne_125 d hd16, ite_false, hexVal_hexDigit d hd16]
    have hng : ¬ (acc * 16 + d > 0xFFFFFFFF) := by omega
    simp only [hng, ite_false]
    rw [ih hr F (acc * 16 + d) (nd + 1) rest (by simpa [hexFold] using hb)]
    simp only [hexFold, List.foldl_cons, List.length_cons]
    congr 1
    omega

/-- **`\u{hex}` is read back as the code point** -/
theorem parseEscape_hex (n : Nat) (hn : isScalar n = true) (rest : List Nat) :
    parseEscape false (117 :: 123 :: (toHex n ++ 125 :: rest)) = some (Prim.lit n, rest) := by
  have hlt : n < 16 ^ 64 := by
    have : n < 0x110000 := by
      simp only [isScalar, Bool.or_eq_true, decide_eq_true_eq, Bool.and_eq_true] at hn; omega
    have h2 : (0x110000 : Nat) ≤ 16 ^ 64 := by decide
    omega
  have hv := hexDigs_value 64 n hlt
  have hb : hexFold 0 (hexDigs 64 n) ≤ 0xFFFFFFFF := by
    rw [hv]
    simp only [isScalar, Bool.or_eq_true, decide_eq_true_eq, Bool.and_eq_true] at hn; omega
  have hne := hexDigs_ne_nil 63 n
  have hpos : 0 < (hexDigs 64 n).length := List.length_pos_iff.mpr hne
  unfold parseEscape
  simp only [skipSpace_false]
  rw [if_pos (by decide)]
  rw [toHex_eq]
  have hfuel : ((hexDigs 64 n).map hexDigit ++ 125 :: rest).length + 2 = (rest.length + 3) + (hexDigs 64 n).length := by
    simp; omega
  rw [hfuel, parseBraceHex_digits _ (hexDigs_lt 64 n) (rest.length + 3) 0 0 rest hb, hv]
  rw [parseBraceHex]
  simp only [skipSpace_false, ite_true, Nat.zero_add]
  have : ¬ ((hexDigs 64 n).length = 0) := by omega
  simp [this, hn]

/-- one round of the parser loop on `\u{hex}` -/
theorem step_hex (n : Nat) (hn : isScalar n = true) (f : Nat) (rest : List Nat) (st : List Frame) (al co : List Pat) :
    parseLoop false (f + 1) ([92, 117, 123] ++ toHex n ++ [125] ++ rest) st al co =
      parseLoop false f rest st al (Pat.chr n :: co) := by
  have : [92, 117, 123] ++ toHex n ++ [125] ++ rest = 92 :: 117 :: 123 :: (toHex n ++ 125 :: rest) := by simp
  rw [this, parseLoop]
  simp [parseEscape_hex n hn rest]

end Grexv
