import Grexv.Lemmas.PrintParseTop
import Grexv.Lemmas.Plain

/-
The shapes `Expr.WF` demands are what the algebra of src/expression.rs produces: `concatenate`, `union`
(prefix/suffix factoring, the `?` cases, class merging, flattened alternation) keep them, provided the second
operand of `union` is neither a `?` expression nor the empty literal — which is the case at both call sites of
the elimination loop.
-/
set_option linter.unusedSimpArgs false
set_option linter.unusedVariables false
namespace Grexv
namespace Expr

theorem plainBs_append {a b : Cluster} (ha : PlainBs a) (hb : PlainBs b) : PlainBs (a ++ b) := by
  intro g hg
  simp only [List.mem_append] at hg
  rcases hg with hg | hg
  · exact ha g hg
  · exact hb g hg

theorem plainBs_sub {a b : Cluster} (hb : PlainBs b) (h : ∀ g ∈ a, g ∈ b) : PlainBs a := fun g hg => hb g (h g hg)

theorem plainBs_nil : PlainBs [] := fun g hg => by simp at hg

theorem wfl_iff (os : List Expr) : WFL os ↔ ∀ o ∈ os, o.isAlt = false ∧ WF o := by
  induction os with
  | nil => simp [WFL]
  | cons o os ih =>
    simp only [WFL, ih, List.mem_cons, forall_eq_or_imp]
    constructor
    · rintro ⟨h1, h2, h3⟩; exact ⟨⟨h1, h2⟩, h3⟩
    · rintro ⟨⟨h1, h2⟩, h3⟩; exact ⟨h1, h2, h3⟩

/-- neither a `?` expression nor the empty literal -/
def Solid (e : Expr) : Prop := e.isRep = false ∧ e.isEmpty = false

theorem flatten_nonalt (e : Expr) (h : e.isAlt = false) : flatten e = [e] := by
  cases e with
  | alt os => simp [isAlt] at h
  | _ => simp [flatten]

theorem flattenL_nonalt (os : List Expr) (h : ∀ o ∈ os, o.isAlt = false) : flattenL os = os := by
  induction os with
  | nil => rfl
  | cons o os ih =>
    simp only [flattenL]
    rw [flatten_nonalt o (h o List.mem_cons_self), ih (fun x hx => h x (List.mem_cons_of_mem _ hx))]
    rfl

theorem flatten_wf (e : Expr) (h : WF e) : flatten e ≠ [] ∧ ∀ x ∈ flatten e, x.isAlt = false ∧ WF x := by
  cases hal : e.isAlt with
  | false =>
    rw [flatten_nonalt e hal]
    exact ⟨by simp, by intro x hx; simp only [List.mem_singleton] at hx; subst hx; exact ⟨hal, h⟩⟩
  | true =>
    cases e with
    | alt os =>
      obtain ⟨hne, hl⟩ := h
      have hl' := (wfl_iff os).mp hl
      simp only [flatten]
      rw [flattenL_nonalt os (fun o ho => (hl' o ho).1)]
      exact ⟨hne, hl'⟩
    | _ => simp [isAlt] at hal

theorem flattenL_wf (es : List Expr) (h : ∀ e ∈ es, WF e) (hne : es ≠ []) :
    flattenL es ≠ [] ∧ ∀ x ∈ flattenL es, x.isAlt = false ∧ WF x := by
  induction es with
  | nil => exact absurd rfl hne
  | cons e es ih =>
    obtain ⟨f1, f2⟩ := flatten_wf e (h e List.mem_cons_self)
    simp only [flattenL]
    refine ⟨by intro hc; exact f1 (List.append_eq_nil_iff.mp hc).1, ?_⟩
    intro x hx
    simp only [List.mem_append] at hx
    rcases hx with hx | hx
    · exact f2 x hx
    · by_cases hes : es = []
      · subst hes; simp [flattenL] at hx
      · exact (ih (fun y hy => h y (List.mem_cons_of_mem _ hy)) hes).2 x hx

theorem wf_newAlternation (es : List Expr) (h : ∀ e ∈ es, WF e) (hne : es ≠ []) : WF (newAlternation es) := by
  obtain ⟨f1, f2⟩ := flattenL_wf es h hne
  simp only [newAlternation, WF]
  refine ⟨?_, (wfl_iff _).mpr ?_⟩
  · intro hc
    cases hf : flattenL es with
    | nil => exact f1 hf
    | cons a as =>
      have : a ∈ sortBy (fun a b => decide (len a ≥ len b)) (flattenL es) := (mem_sortBy _ a _).mpr (by rw [hf]; exact List.mem_cons_self)
      rw [hc] at this
      simp at this
  · intro o ho
    exact f2 o ((mem_sortBy _ o _).mp ho)

theorem solid_newAlternation (es : List Expr) : Solid (newAlternation es) := ⟨rfl, rfl⟩

/-! ### classes -/

theorem insertChar_sorted (c : Nat) (l : List Nat) (h : l.Pairwise (· < ·)) : (insertChar c l).Pairwise (· < ·) := by
  induction l with
  | nil => simp [insertChar]
  | cons y ys ih =>
    rw [List.pairwise_cons] at h
    unfold insertChar
    split
    · rename_i hcy
      rw [List.pairwise_cons]
      refine ⟨?_, List.pairwise_cons.mpr h⟩
      intro x hx
      simp only [List.mem_cons] at hx
      rcases hx with rfl | hx
      · exact hcy
      · have := h.1 x hx; omega
    · split
      · exact List.pairwise_cons.mpr h
      · rename_i h1 h2
        rw [List.pairwise_cons]
        refine ⟨?_, ih h.2⟩
        intro x hx
        rcases (mem_insertChar x c ys).mp hx with rfl | hx
        · omega
        · exact h.1 x hx

theorem wf_newCharacterClass (a b : List Nat) (ha : ∀ x ∈ a, Scalar x) (hb : ∀ x ∈ b, Scalar x) (hsb : b.Pairwise (· < ·))
    (hne : a ≠ [] ∨ b ≠ []) : WF (newCharacterClass a b) := by
  simp only [newCharacterClass, WF]
  have key : ∀ (a b : List Nat), (∀ x ∈ a, Scalar x) → (∀ x ∈ b, Scalar x) → b.Pairwise (· < ·) →
      (∀ x, x ∈ a.foldl (fun acc c => insertChar c acc) b ↔ x ∈ a ∨ x ∈ b) ∧
      (a.foldl (fun acc c => insertChar c acc) b).Pairwise (· < ·) := by
    intro a
    induction a with
    | nil => intro b _ _ hs; exact ⟨by simp, hs⟩
    | cons c cs ih =>
      intro b ha hb hs
      simp only [List.foldl_cons]
      obtain ⟨i1, i2⟩ := ih (insertChar c b) (fun x hx => ha x (List.mem_cons_of_mem _ hx))
        (fun x hx => by
          rcases (mem_insertChar x c b).mp hx with rfl | hx
          · exact ha _ List.mem_cons_self
          · exact hb x hx) (insertChar_sorted c b hs)
      refine ⟨?_, i2⟩
      intro x
      rw [i1, mem_insertChar]
      simp only [List.mem_cons]
      constructor
      · rintro (h | h | h)
        · exact Or.inl (Or.inr h)
        · exact Or.inl (Or.inl h)
        · exact Or.inr h
      · rintro ((h | h) | h)
        · exact Or.inr (Or.inl h)
        · exact Or.inl h
        · exact Or.inr (Or.inr h)
  obtain ⟨k1, k2⟩ := key a b ha hb hsb
  refine ⟨?_, ?_, k2⟩
  · intro hc
    rcases hne with hne | hne
    · cases a with
      | nil => exact absurd rfl hne
      | cons x xs =>
        have := (k1 x).mpr (Or.inl List.mem_cons_self)
        rw [hc] at this; simp at this
    · cases b with
      | nil => exact absurd rfl hne
      | cons x xs =>
        have := (k1 x).mpr (Or.inr List.mem_cons_self)
        rw [hc] at this; simp at this
  · intro x hx
    rcases (k1 x).mp hx with h | h
    · exact ha x h
    · exact hb x h

/-- the code points `extract_character_set` takes from a single-code-point expression -/
theorem extractCharSet_single (cap esc : Bool) (e : Expr) (h : WF e) (hs : e.isSingleCodepoint (cfgPlain cap esc) = true) :
    extractCharSet e ≠ [] ∧ (∀ x ∈ extractCharSet e, Scalar x) ∧ (extractCharSet e).Pairwise (· < ·) := by
  cases e with
  | cls cs => exact ⟨h.1, h.2.1, h.2.2⟩
  | lit c =>
    obtain ⟨x, rfl, _, hsc⟩ := single_literal_cfg cap esc c h hs
    simp only [extractCharSet, List.head?_cons, value_ofStr]
    exact ⟨by simp, by intro y hy; simp only [List.mem_singleton] at hy; subst hy; exact hsc, by simp⟩
  | alt os => simp [isSingleCodepoint] at hs
  | cat a b => simp [isSingleCodepoint] at hs
  | rep e q => simp [isSingleCodepoint] at hs

/-! ### concatenate -/

theorem wf_concatCore (e1 e2 : Expr) (h1 : WF e1) (h2 : WF e2) : WF (concatCore e1 e2) := by
  unfold concatCore
  split
  · exact plainBs_append h1 h2
  · exact ⟨plainBs_append h1 h2.1, h2.2⟩
  · exact ⟨h1.1, plainBs_append h1.2 h2⟩
  · exact ⟨h1, h2⟩

theorem solid_concatCore (e1 e2 : Expr) (h1 : Solid e1) : Solid (concatCore e1 e2) := by
  unfold concatCore
  split
  · refine ⟨rfl, ?_⟩
    have := h1.2
    simp only [isEmpty, List.isEmpty_iff] at this ⊢
    cases hga : ‹Cluster› with
    | nil => simp_all
    | cons a as => simp
  · exact ⟨rfl, rfl⟩
  · exact ⟨rfl, rfl⟩
  · exact ⟨rfl, rfl⟩

/-- optional expressions -/
def OWF : Option Expr → Prop
  | none => True
  | some e => WF e

def OSolid : Option Expr → Prop
  | none => True
  | some e => Solid e

theorem owf_concatenate (a b : Option Expr) (ha : OWF a) (hb : OWF b) : OWF (concatenate a b) := by
  cases a with
  | none => simp [concatenate, OWF]
  | some e1 =>
    cases b with
    | none => simp [concatenate, OWF]
    | some e2 =>
      simp only [concatenate]
      split
      · exact hb
      · split
        · exact ha
        · exact wf_concatCore e1 e2 ha hb

/-- with a solid first operand the concatenation is solid -/
theorem osolid_concatenate (a b : Option Expr) (ha : OSolid a) : OSolid (concatenate a b) := by
  cases a with
  | none => simp [concatenate, OSolid]
  | some e1 =>
    cases b with
    | none => simp [concatenate, OSolid]
    | some e2 =>
      simp only [concatenate]
      split
      · rename_i he; exact absurd he (by have := ha.2; simp_all)
      · split
        · exact ha
        · exact solid_concatCore e1 e2 ha

end Expr
end Grexv

namespace Grexv
namespace Expr

/-! ### union -/

theorem isRep_removeSubstring (s : Side) (n : Nat) (e : Expr) : (removeSubstring s n e).isRep = e.isRep := by
  cases e with
  | cat a b => cases s <;> simp only [removeSubstring] <;> split <;> rfl
  | _ => rfl

theorem wf_removeSubstring (s : Side) (n : Nat) (e : Expr) (h : WF e) : WF (removeSubstring s n e) := by
  cases e with
  | lit c =>
    simp only [removeSubstring, WF]
    cases s
    · exact plainBs_sub h (fun g hg => List.mem_of_mem_drop hg)
    · exact plainBs_sub h (fun g hg => List.mem_of_mem_take hg)
  | cat a b =>
    cases s
    · simp only [removeSubstring]
      split
      · rename_i c; exact ⟨plainBs_sub h.1 (fun g hg => List.mem_of_mem_drop hg), h.2⟩
      · exact h
    · simp only [removeSubstring]
      split
      · rename_i c; exact ⟨h.1, plainBs_sub h.2 (fun g hg => List.mem_of_mem_take hg)⟩
      · exact h
  | alt _ => exact h
  | cls _ => exact h
  | rep _ _ => exact h

theorem sideValue_plainBs (s : Side) (e : Expr) (h : WF e) (c : Cluster) (hc : sideValue s e = some c) : PlainBs c := by
  cases e with
  | lit c' => simp only [sideValue, Option.some.injEq] at hc; subst hc; exact h
  | cat a b =>
    cases s
    · cases a with
      | lit c' => simp only [sideValue, Option.some.injEq] at hc; subst hc; exact h.1
      | _ => simp [sideValue] at hc
    · cases b with
      | lit c' => simp only [sideValue, Option.some.injEq] at hc; subst hc; exact h.2
      | _ => simp [sideValue] at hc
  | alt _ => simp [sideValue] at hc
  | cls _ => simp [sideValue] at hc
  | rep _ _ => simp [sideValue] at hc

theorem findCommon_plainBs (s : Side) (a b : Expr) (ha : WF a) (v : Cluster) (h : findCommon s a b = some v) : PlainBs v := by
  have hga : PlainBs ((sideValue s a).getD []) := by
    cases hs : sideValue s a with
    | none => exact plainBs_nil
    | some c => exact sideValue_plainBs s a ha c hs
  cases s with
  | pre =>
    simp only [findCommon] at h
    split at h
    · simp at h
    · simp only [Option.some.injEq] at h
      subst h
      obtain ⟨r, hr⟩ := commonPrefix_left ((sideValue Side.pre a).getD []) ((sideValue Side.pre b).getD [])
      exact plainBs_sub hga (fun g hg => by rw [hr]; exact List.mem_append_left _ hg)
  | suf =>
    simp only [findCommon] at h
    split at h
    · simp at h
    · simp only [Option.some.injEq] at h
      subst h
      obtain ⟨r, hr⟩ := commonPrefix_left ((sideValue Side.suf a).getD []).reverse ((sideValue Side.suf b).getD []).reverse
      intro g hg
      simp only [List.mem_reverse] at hg
      apply hga g
      have : g ∈ ((sideValue Side.suf a).getD []).reverse := by rw [hr]; exact List.mem_append_left _ hg
      exact List.mem_reverse.mp this

theorem findCommon_rep_left (s : Side) (a b : Expr) (h : a.isRep = true) : findCommon s a b = none := by
  cases a with
  | rep e q => cases s <;> simp [findCommon, sideValue, commonPrefix]
  | _ => simp [isRep] at h

theorem commonPrefix_nil_right (a : Cluster) : commonPrefix a [] = [] := by cases a <;> rfl

theorem findCommon_rep_right (s : Side) (a b : Expr) (h : b.isRep = true) : findCommon s a b = none := by
  cases b with
  | rep e q => cases s <;> simp [findCommon, sideValue, commonPrefix_nil_right]
  | _ => simp [isRep] at h

theorem removeCommon_spec (s : Side) (a b : Expr) (ha : WF a) (hb : WF b) :
    WF (removeCommon s a b).1 ∧ WF (removeCommon s a b).2.1 ∧
    (∀ v, (removeCommon s a b).2.2 = some v → PlainBs v) ∧
    (removeCommon s a b).1.isRep = a.isRep ∧ (removeCommon s a b).2.1.isRep = b.isRep ∧
    ((removeCommon s a b).2.2 = none → removeCommon s a b = (a, b, none)) := by
  unfold removeCommon
  cases hf : findCommon s a b with
  | none => exact ⟨ha, hb, by simp, rfl, rfl, fun _ => rfl⟩
  | some v =>
    refine ⟨wf_removeSubstring _ _ _ ha, wf_removeSubstring _ _ _ hb, ?_, isRep_removeSubstring _ _ _, isRep_removeSubstring _ _ _, by simp⟩
    intro v' hv'
    simp only [Option.some.injEq] at hv'
    subst hv'
    exact findCommon_plainBs s a b ha v hf

theorem removeCommon_rep_left (s : Side) (a b : Expr) (h : a.isRep = true) : removeCommon s a b = (a, b, none) := by
  simp [removeCommon, findCommon_rep_left s a b h]

theorem wf_unionMid (cap esc : Bool) (e1 e2 : Expr) (h1 : WF e1) (h2 : WF e2)
    (hc1 : e1.isEmpty = true → e2.isRep = false) (hc2 : e2.isEmpty = true → e1.isRep = false) :
    WF (unionMid (cfgPlain cap esc) e1 e2) := by
  have two : ∀ x y : Expr, WF x → WF y → WF (newAlternation [x, y]) := by
    intro x y hx hy
    apply wf_newAlternation _ _ (by simp)
    intro z hz
    simp only [List.mem_cons, List.mem_nil_iff, or_false] at hz
    rcases hz with rfl | rfl
    · exact hx
    · exact hy
  unfold unionMid
  split
  · rename_i he; exact ⟨rfl, hc1 he, h2⟩
  · split
    · rename_i he; exact ⟨rfl, hc2 he, h1⟩
    · split
      · exact ⟨rfl, rfl, two _ _ h1.2.2 h2⟩
      · split
        · exact ⟨rfl, rfl, two _ _ h1 h2.2.2⟩
        · split
          · rename_i hs
            simp only [Bool.and_eq_true] at hs
            obtain ⟨a1, a2, _⟩ := extractCharSet_single cap esc e1 h1 hs.1
            obtain ⟨b1, b2, b3⟩ := extractCharSet_single cap esc e2 h2 hs.2
            exact wf_newCharacterClass _ _ a2 b2 b3 (Or.inl a1)
          · exact two e1 e2 h1 h2

theorem solid_unionMid (cfg : Config) (e1 e2 : Expr) (h1 : Solid e1) (h2 : Solid e2) : Solid (unionMid cfg e1 e2) := by
  unfold unionMid
  have n1 : ¬ e1.isEmpty = true := by simp [h1.2]
  have n2 : ¬ e2.isEmpty = true := by simp [h2.2]
  rw [if_neg n1, if_neg n2]
  split
  · have := h1.1; simp [isRep] at this
  · split
    · have := h2.1; simp [isRep] at this
    · split
      · exact ⟨rfl, rfl⟩
      · exact solid_newAlternation _

theorem unionCore_spec (cap esc : Bool) (a b : Expr) (ha : WF a) (hb : WF b) (hbs : Solid b) :
    WF (unionCore (cfgPlain cap esc) a b) ∧ (Solid a → Solid (unionCore (cfgPlain cap esc) a b)) := by
  unfold unionCore
  simp only []
  obtain ⟨p1, p2, p3, p4, p5, p6⟩ := removeCommon_spec .pre a b ha hb
  obtain ⟨q1, q2, q3, q4, q5, q6⟩ := removeCommon_spec .suf _ _ p1 p2
  generalize hr1 : removeCommon .pre a b = r1 at *
  generalize hr2 : removeCommon .suf r1.1 r1.2.1 = r2 at *
  have hc1 : r2.1.isEmpty = true → r2.2.1.isRep = false := by
    intro _; rw [q5, p5]; exact hbs.1
  have hc2 : r2.2.1.isEmpty = true → r2.1.isRep = false := by
    intro he
    cases hrep : r2.1.isRep with
    | false => rfl
    | true =>
      exfalso
      rw [q4, p4] at hrep
      have e1 : r1 = (a, b, none) := by rw [← hr1]; exact removeCommon_rep_left .pre a b hrep
      have e2 : r2 = (a, b, none) := by
        rw [← hr2, e1]; exact removeCommon_rep_left .suf a b hrep
      rw [e2] at he
      have := hbs.2
      simp_all
  have hm := wf_unionMid cap esc r2.1 r2.2.1 q1 q2 hc1 hc2
  have hw : WF (wrapPre r1.2.2 (unionMid (cfgPlain cap esc) r2.1 r2.2.1)) := by
    cases hpre : r1.2.2 with
    | none => simpa [wrapPre] using hm
    | some p => exact ⟨p3 p hpre, hm⟩
  refine ⟨?_, ?_⟩
  · cases hsuf : r2.2.2 with
    | none => simpa [wrapSuf] using hw
    | some s => exact ⟨hw, q3 s hsuf⟩
  · intro has
    cases hsuf : r2.2.2 with
    | some s => exact ⟨rfl, rfl⟩
    | none =>
      simp only [wrapSuf]
      cases hpre : r1.2.2 with
      | some p => exact ⟨rfl, rfl⟩
      | none =>
        simp only [wrapPre]
        have e1 : r1 = (a, b, none) := p6 hpre
        have e2 : r2 = (a, b, none) := by
          have := q6 hsuf
          rw [this, e1]
        rw [e2]
        exact solid_unionMid _ a b has hbs

theorem owf_union (cap esc : Bool) (a b : Option Expr) (ha : OWF a) (hb : OWF b) (hbs : OSolid b) :
    OWF (union (cfgPlain cap esc) a b) ∧ (OSolid a → OSolid (union (cfgPlain cap esc) a b)) := by
  cases a with
  | none => cases b <;> simp_all [union, OWF, OSolid]
  | some e1 =>
    cases b with
    | none => exact ⟨by simpa [union, OWF] using ha, fun h => by simpa [union, OSolid] using h⟩
    | some e2 =>
      simp only [union]
      split
      · exact ⟨ha, fun h => h⟩
      · exact unionCore_spec cap esc e1 e2 ha hb hbs

end Expr
end Grexv
