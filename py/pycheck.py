#!/usr/bin/env python3
"""Drives the Python extension built from /repo (grex.so in the directory given as argv[1]).
Line protocol on stdin, one answer per line on stdout."""
import re
import sys

sys.path.insert(0, sys.argv[1])
import grex  # noqa: E402

NAMES = ["with_conversion_of_digits", "with_conversion_of_non_digits", "with_conversion_of_whitespace",
         "with_conversion_of_non_whitespace", "with_conversion_of_words", "with_conversion_of_non_words",
         "with_conversion_of_repetitions", "with_case_insensitive_matching", "with_capturing_groups"]


def hx(s):
    return "-" if s == "" else ".".join("%x" % ord(c) for c in s)


def unhx(h):
    return "" if h == "-" else "".join(chr(int(x, 16)) for x in h.split("."))


def build(bits, minrep, minlen, tcs):
    b = grex.RegExpBuilder(tcs)
    for i, n in enumerate(NAMES):
        if bits & (1 << i):
            b = getattr(b, n)()
    if bits & (1 << 9):
        b = b.with_escaping_of_non_ascii_chars(bool(bits & (1 << 10)))
    if bits & (1 << 11):
        b = b.with_verbose_mode()
    if bits & (1 << 12):
        b = b.without_start_anchor()
    if bits & (1 << 13):
        b = b.without_end_anchor()
    b = b.with_minimum_repetitions(minrep).with_minimum_substring_length(minlen)
    return b.build()


for line in sys.stdin:
    f = line.rstrip("\n").split(" ")
    try:
        if f[0] == "B":
            tcs = [unhx(h) for h in f[4].split(";")]
            p = build(int(f[1]), int(f[2]), int(f[3]), tcs)
            try:
                flags = re.VERBOSE if False else 0
                c = re.compile(p)
                fm = "".join("1" if c.fullmatch(t) else "0" for t in tcs)
                print("O", hx(p), "1", fm)
            except re.error as e:
                print("O", hx(p), "0", "-", hx(str(e)))
        elif f[0] == "E":
            if f[1] == "empty":
                grex.RegExpBuilder([])
            elif f[1] == "minrep":
                grex.RegExpBuilder(["a"]).with_minimum_repetitions(int(f[2]))
            elif f[1] == "minlen":
                grex.RegExpBuilder(["a"]).with_minimum_substring_length(int(f[2]))
            print("O no-error")
    except Exception as e:  # noqa
        print("X %s:%s" % (type(e).__name__, e))
    sys.stdout.flush()
