// Unit-level correspondence and oracle: terms over the library's own `union` / `concatenate` (through the
// guarded hook `verif_hooks::eval_term`), printed with `Display for RegExp`, on operands far richer than the
// ones small test-case sets produce.  Implementation vs Lean model: result expression and printed text must be
// equal.  Implementation vs oracle: the printed pattern must denote the language of the term (computed from
// escaped literals by the regex crate), be valid, be ASCII under -e, strip to the plain text under -c, keep its
// language under the presentation options.
//
// A unit case travels through the common machinery as a `Case` whose single "test case" is U+0001 'T' + term.

use crate::check::{Ctx, Outcome, Tier};
use crate::gen;
use crate::judge::{self, Fail, Kind};
use crate::oracle::{self, LangCmp};
use crate::util::*;

pub const UNIT_PROPS: &[&str] = &["C01", "C02", "C05", "C06", "C07", "C11", "C13", "C15", "C16"];

pub fn is_unit(c: &Case) -> bool {
    c.tcs.len() == 1 && c.tcs[0].starts_with("\u{1}T")
}

pub fn term_of(c: &Case) -> &str {
    &c.tcs[0][2..]
}

pub fn unit_case(term: &str, cfg: Cfg) -> Case {
    Case { tcs: vec![format!("\u{1}T{}", term)], cfg }
}

// ------------------------------------------------------------------------------------------ terms
#[derive(Clone, Debug)]
pub enum Term {
    Lit(Vec<Gr>),
    Union(Box<Term>, Box<Term>),
    Concat(Box<Term>, Box<Term>),
}

#[derive(Clone, Debug)]
pub struct Gr {
    pub chars: Vec<String>,
    pub min: u32,
    pub max: u32,
    pub reps: Vec<Gr>,
}

fn gr_text(g: &Gr) -> String {
    let mut s = format!("{}~{}~{}", g.chars.iter().map(|c| hex(c)).collect::<Vec<_>>().join(","), g.min, g.max);
    if !g.reps.is_empty() {
        s.push('{');
        s.push_str(&g.reps.iter().map(gr_text).collect::<Vec<_>>().join(";"));
        s.push('}');
    }
    s
}

pub fn term_text(t: &Term) -> String {
    match t {
        Term::Lit(gs) => format!("L[{}]", gs.iter().map(gr_text).collect::<Vec<_>>().join("_")),
        Term::Union(a, b) => format!("U{}{}", term_text(a), term_text(b)),
        Term::Concat(a, b) => format!("N{}{}", term_text(a), term_text(b)),
    }
}

fn gr_plain(g: &Gr) -> bool {
    g.min >= 1 && g.min <= g.max && g.chars.iter().all(|c| !c.contains('\\') && !c.is_empty()) && !g.chars.is_empty() && g.reps.iter().all(gr_plain)
}

/// plain: no string contains a backslash (no class tokens), counts are proper
fn is_plain(t: &Term) -> bool {
    match t {
        Term::Lit(gs) => gs.iter().all(gr_plain),
        Term::Union(a, b) | Term::Concat(a, b) => is_plain(a) && is_plain(b),
    }
}

/// what a grapheme stands for: its unit (the nested repetitions if present, else its own text) repeated min..max times
fn gr_spec(g: &Gr) -> String {
    let unit = if g.reps.is_empty() { oracle::lit(&g.chars.concat()) } else { g.reps.iter().map(gr_spec).collect::<Vec<_>>().join("") };
    if g.min == 1 && g.max == 1 {
        unit
    } else {
        format!("(?:{}){{{},{}}}", unit, g.min, g.max)
    }
}

/// the language of a plain term as a pattern of the regex crate (None = the empty language)
fn spec_of(t: &Term) -> Option<String> {
    match t {
        Term::Lit(gs) => Some(gs.iter().map(gr_spec).collect::<Vec<_>>().join("")),
        Term::Union(a, b) => match (spec_of(a), spec_of(b)) {
            (Some(x), Some(y)) => Some(format!("(?:{}|{})", x, y)),
            (Some(x), None) | (None, Some(x)) => Some(x),
            (None, None) => None,
        },
        Term::Concat(a, b) => match (spec_of(a), spec_of(b)) {
            (Some(x), Some(y)) => Some(format!("(?:{})(?:{})", x, y)),
            _ => None,
        },
    }
}

const UNIT_ATOMS: &[&[&str]] = &[gen::META, gen::CLUSTERS, gen::WS, gen::BOUNDARY, gen::CASE, gen::COLORISH, gen::LOOKALIKE, gen::CLASSY];

fn random_gr(rng: &mut Rng, alpha: &[String], counted: bool) -> Gr {
    let s = rng.pick(alpha).clone();
    if counted && rng.chance(1, 4) {
        let (min, max) = *rng.pick(&[(2u32, 2u32), (3, 3), (1, 2), (2, 3), (2, 5), (10, 12)]);
        let mut chars = vec![s];
        if rng.chance(1, 3) {
            chars.push(rng.pick(alpha).clone());
        }
        let reps = if rng.chance(1, 3) { nested(rng, alpha, 3) } else { vec![] };
        let chars = if reps.is_empty() { chars } else { expand(&reps) };
        Gr { chars, min, max, reps }
    } else {
        Gr { chars: vec![s], min: 1, max: 1, reps: vec![] }
    }
}

/// the grapheme strings a sequence of (possibly counted) graphemes stands for, with exact counts
fn expand(gs: &[Gr]) -> Vec<String> {
    let mut out = vec![];
    for g in gs {
        for _ in 0..g.min {
            out.extend(g.chars.iter().cloned());
        }
    }
    out
}

/// nested repetitions as `replace_graphemes_with_repetitions` builds them recursively: a counted grapheme's `chars`
/// are the strings of its unit, and its `repetitions`, when present, are a converted form of that same unit
fn nested(rng: &mut Rng, alpha: &[String], depth: usize) -> Vec<Gr> {
    let n = 1 + rng.below(3);
    (0..n)
        .map(|_| {
            let counted = rng.chance(1, 2);
            let k = if counted { *rng.pick(&[2u32, 3]) } else { 1 };
            let reps = if counted && depth > 1 && rng.chance(1, 2) { nested(rng, alpha, depth - 1) } else { vec![] };
            let chars = if reps.is_empty() {
                let mut c = vec![rng.pick(alpha).clone()];
                if counted && rng.chance(1, 3) {
                    c.push(rng.pick(alpha).clone());
                }
                c
            } else {
                expand(&reps)
            };
            Gr { chars, min: k, max: k, reps }
        })
        .collect()
}

/// U(U(L[a],L[b]),L[c]) …: unions of one-grapheme literals, which `union` merges into a character class
fn class_fold(rng: &mut Rng, alpha: &[String]) -> Term {
    let mut it = alpha.iter();
    let lit = |s: &String| Term::Lit(vec![Gr { chars: vec![s.clone()], min: 1, max: 1, reps: vec![] }]);
    let mut t = lit(it.next().unwrap());
    for s in it {
        t = if rng.chance(1, 2) { Term::Union(Box::new(t), Box::new(lit(s))) } else { Term::Union(Box::new(lit(s)), Box::new(t)) };
    }
    if rng.chance(1, 3) {
        let pre = lit(rng.pick(alpha));
        t = Term::Concat(Box::new(pre), Box::new(t));
    }
    t
}

fn random_term(rng: &mut Rng, alpha: &[String], depth: usize, counted: bool) -> Term {
    if depth == 0 || rng.chance(1, 4) {
        let n = rng.below(4);
        return Term::Lit((0..n).map(|_| random_gr(rng, alpha, counted)).collect());
    }
    let a = random_term(rng, alpha, depth - 1, counted);
    let b = random_term(rng, alpha, depth - 1, counted);
    if rng.chance(3, 5) {
        Term::Union(Box::new(a), Box::new(b))
    } else {
        Term::Concat(Box::new(a), Box::new(b))
    }
}

/// (term, flags) pairs; the alphabet of one term is small so that prefixes, suffixes and single code points coincide
pub fn gen_cases(rng: &mut Rng, tier: Tier) -> Vec<(Term, Cfg)> {
    let n = if tier == Tier::Quick { 2500 } else { 40000 };
    let print_flags: &[u32] = &[BIT_CAP, BIT_ESC, BIT_SUR, BIT_VERB, BIT_NO_START, BIT_NO_END, BIT_COLOR, BIT_CI];
    let class_sets = gen::class_sets(rng, true);
    let mut out = vec![];
    for i in 0..n {
        let alpha: Vec<String> = if i % 5 == 4 {
            // single code points at structured distances: unions of these become character classes
            rng.pick(&class_sets).clone()
        } else {
            let atoms = *rng.pick(UNIT_ATOMS);
            let k = 2 + rng.below(3);
            (0..k)
                .map(|_| {
                    let len = 1 + rng.below(2);
                    let s = (0..len).map(|_| *rng.pick(atoms)).collect::<String>();
                    // what `GraphemeCluster::from` guarantees: a backslash is a grapheme of its own, unless the
                    // string is a shorthand-class token written by `convert_to_char_classes`
                    let token = ["\\d", "\\D", "\\s", "\\S", "\\w", "\\W"].contains(&s.as_str());
                    if s.contains('\\') && s.chars().count() > 1 && !token {
                        "\\".to_string()
                    } else {
                        s
                    }
                })
                .collect()
        };
        let counted = i % 3 == 0;
        let depth = 1 + rng.below(3);
        let t = if i % 5 == 4 && i % 2 == 0 { class_fold(rng, &alpha) } else { random_term(rng, &alpha, depth, counted) };
        let mut bits = 0u32;
        match i % 4 {
            0 => {}
            1 => bits |= 1 << *rng.pick(print_flags),
            _ => {
                for f in print_flags {
                    if rng.chance(1, 3) {
                        bits |= 1 << f;
                    }
                }
            }
        }
        out.push((t, Cfg::new(gen::normalise_flags(bits))));
    }
    out
}

// ------------------------------------------------------------------------------------------ evaluation
#[derive(Clone, Debug, PartialEq)]
pub enum Eval {
    None,
    Some(String, String),
    Panic(String),
    BadTerm,
}

pub fn eval_impl(term: &str, cfg: Cfg) -> Eval {
    match quietly(|| grex::verif_hooks::eval_term(term, cfg.bits, cfg.min_rep, cfg.min_len)) {
        Ok(Some(Some((d, t)))) => Eval::Some(d, t),
        Ok(Some(None)) => Eval::None,
        Ok(None) => Eval::BadTerm,
        Err(e) => Eval::Panic(panic_msg(e)),
    }
}

fn eval_line(e: &Eval) -> String {
    match e {
        Eval::None => "X none".into(),
        Eval::Some(d, t) => format!("X {}\t{}", d, hex(t)),
        Eval::Panic(m) => format!("P {}", m),
        Eval::BadTerm => "E parse".into(),
    }
}

/// Oracle judgement of one unit case for one property (never consults the model).
pub fn judge_unit(prop: &str, term: Option<&Term>, case: &Case) -> Vec<Fail> {
    let tt = term_of(case);
    let cfg = case.cfg;
    let ev = eval_impl(tt, cfg);
    let mut fails = vec![];
    let text = match &ev {
        Eval::Some(_, t) => t.clone(),
        Eval::Panic(m) => {
            if matches!(prop, "C07" | "C16") {
                fails.push(Fail::new(Kind::Panic, format!("union/concatenate/Display panicked: {}", m), None));
            }
            return fails;
        }
        _ => return fails,
    };
    let regex_ok = judge::for_regex_crate(cfg);
    match prop {
        "C07" => {
            if regex_ok {
                if let Err(e) = oracle::compile(&text) {
                    fails.push(Fail::new(Kind::Invalid, format!("printed expression {:?} is rejected by the regex crate: {}", text, e), None));
                }
            }
        }
        "C01" => {
            // what union/concatenate build and Display prints must compile and accept every word the operands denote
            if regex_ok {
                if let Err(e) = oracle::compile(&text) {
                    fails.push(Fail::new(Kind::Invalid, format!("printed expression {:?} is rejected by the regex crate: {}", text, e), None));
                } else if let Some(t) = term {
                    if !cfg.has(BIT_CI) && is_plain(t) {
                        if let Some(spec) = spec_of(t) {
                            // soundness asks for a word the operands denote and the printed text rejects — the shortest
                            // difference of the two languages may be a word on the other side (`\u{1c89}k{2}` for `(?:Ᲊk){2}`)
                            if let Some(w) = oracle::missing_from_first(&text, &spec) {
                                fails.push(Fail::new(Kind::Miss,
                                    format!("the expression computed by union/concatenate prints as {:?}, which rejects {:?}; the operands denote {:?}", text, w, spec), Some(w)));
                            } else if let LangCmp::Error(e) = oracle::compare_full(&text, &spec) {
                                fails.push(Fail::new(Kind::Oracle, e, None));
                            }
                        }
                    }
                }
            }
        }
        "C11" => {
            if cfg.has(BIT_ESC) {
                let plain = judge::strip_sgr(&text);
                if let Some(c) = plain.chars().find(|c| !c.is_ascii()) {
                    fails.push(Fail::new(Kind::Syntax, format!("escaping is on but the printed expression {:?} contains {:?}", plain, c), None));
                }
            }
        }
        "C15" => {
            if cfg.has(BIT_COLOR) {
                if let Eval::Some(_, plain) = eval_impl(tt, cfg.without(BIT_COLOR)) {
                    let stripped = judge::strip_sgr(&text);
                    if stripped != plain {
                        fails.push(Fail::new(Kind::Differ, format!("highlighted text strips to {:?}, the text without highlighting is {:?}", stripped, plain), None));
                    }
                }
            }
        }
        "C06" => {
            // the presentation options keep the language of the printed expression
            let base = Cfg { bits: cfg.bits & !((1 << BIT_VERB) | (1 << BIT_CAP) | (1 << BIT_ESC)), ..cfg };
            if regex_ok && base != cfg {
                if let Eval::Some(_, plain) = eval_impl(tt, base) {
                    match oracle::compare_full(&text, &plain) {
                        LangCmp::Equal => {}
                        LangCmp::Differ(w, in_a) => fails.push(Fail::new(
                            if in_a { Kind::Over } else { Kind::Miss },
                            format!("printed with the presentation options {:?} and without {:?} differ on {:?}", text, plain, w),
                            Some(w),
                        )),
                        LangCmp::Error(e) => fails.push(Fail::new(Kind::Oracle, e, None)),
                    }
                }
            }
        }
        "C02" | "C16" | "C05" | "C13" => {
            if let Some(t) = term {
                if regex_ok && !cfg.has(BIT_CI) && is_plain(t) {
                    if let Some(spec) = spec_of(t) {
                        match oracle::compare_full(&text, &spec) {
                            LangCmp::Equal => {}
                            LangCmp::Differ(w, in_a) => fails.push(Fail::new(
                                if in_a { Kind::Over } else { Kind::Miss },
                                format!("the expression computed by union/concatenate prints as {:?}, which {} {:?}; the operands denote {:?}", text, if in_a { "accepts" } else { "rejects" }, w, spec),
                                Some(w),
                            )),
                            LangCmp::Error(e) => fails.push(Fail::new(Kind::Oracle, e, None)),
                        }
                    }
                }
            }
        }
        _ => {}
    }
    fails
}

/// re-judging a stored case needs the term back: parse the text form
pub fn parse_term(s: &str) -> Option<Term> {
    fn gr(b: &[u8], i: &mut usize) -> Option<Gr> {
        let start = *i;
        while *i < b.len() && b[*i] != b'~' {
            *i += 1;
        }
        let chars: Vec<String> = std::str::from_utf8(&b[start..*i]).ok()?.split(',').map(|h| unhex(h)).collect::<Option<Vec<_>>>()?;
        let num = |i: &mut usize| -> Option<u32> {
            if b.get(*i) != Some(&b'~') {
                return None;
            }
            *i += 1;
            let s = *i;
            while *i < b.len() && b[*i].is_ascii_digit() {
                *i += 1;
            }
            std::str::from_utf8(&b[s..*i]).ok()?.parse().ok()
        };
        let min = num(i)?;
        let max = num(i)?;
        let mut reps = vec![];
        if b.get(*i) == Some(&b'{') {
            *i += 1;
            loop {
                reps.push(gr(b, i)?);
                match b.get(*i)? {
                    b';' => *i += 1,
                    b'}' => {
                        *i += 1;
                        break;
                    }
                    _ => return None,
                }
            }
        }
        Some(Gr { chars, min, max, reps })
    }
    fn term(b: &[u8], i: &mut usize) -> Option<Term> {
        match b.get(*i)? {
            b'L' => {
                *i += 1;
                if b.get(*i) != Some(&b'[') {
                    return None;
                }
                *i += 1;
                let mut gs = vec![];
                if b.get(*i) != Some(&b']') {
                    loop {
                        gs.push(gr(b, i)?);
                        match b.get(*i)? {
                            b'_' => *i += 1,
                            b']' => break,
                            _ => return None,
                        }
                    }
                }
                *i += 1;
                Some(Term::Lit(gs))
            }
            b'U' => {
                *i += 1;
                let a = term(b, i)?;
                let c = term(b, i)?;
                Some(Term::Union(Box::new(a), Box::new(c)))
            }
            b'N' => {
                *i += 1;
                let a = term(b, i)?;
                let c = term(b, i)?;
                Some(Term::Concat(Box::new(a), Box::new(c)))
            }
            _ => None,
        }
    }
    let b = s.as_bytes();
    let mut i = 0;
    let t = term(b, &mut i)?;
    if i == b.len() {
        Some(t)
    } else {
        None
    }
}

pub fn rejudge(prop: &str, case: &Case) -> Vec<Fail> {
    let t = parse_term(term_of(case));
    judge_unit(prop, t.as_ref(), case)
}

pub fn describe(case: &Case) -> String {
    format!("unit term {} settings={}", term_of(case), case.cfg.describe())
}

/// The unit cases on which implementation and model differ, under every combination of the presentation settings the oracle
/// cannot judge switched off (colours, surrogate pairs, verbose mode, disabled anchors) and escaping / capturing groups toggled:
/// a difference that only showed under such settings is looked at again where the regex crate can decide it.
pub fn run_unit_around(ctx: &Ctx, diffs: &[Case]) -> Outcome {
    let mut cases: Vec<(Term, Cfg)> = vec![];
    let mut seen = std::collections::BTreeSet::new();
    for c in diffs.iter().filter(|c| is_unit(c)).take(200) {
        let Some(t) = parse_term(term_of(c)) else { continue };
        let off = [BIT_COLOR, BIT_SUR, BIT_VERB, BIT_NO_START, BIT_NO_END];
        for m in 0u32..(1 << off.len()) {
            let mut bits = c.cfg.bits;
            for (k, b) in off.iter().enumerate() {
                if m & (1 << k) != 0 { bits &= !(1 << b); }
            }
            for tog in [0u32, 1 << BIT_ESC, 1 << BIT_CAP, (1 << BIT_ESC) | (1 << BIT_CAP)] {
                let cfg = Cfg { bits: gen::normalise_flags(bits ^ tog), ..c.cfg };
                if seen.insert((term_of(c).to_string(), cfg.bits)) {
                    cases.push((t.clone(), cfg));
                }
            }
        }
    }
    run_unit_cases(ctx, cases)
}

pub fn run_unit(ctx: &Ctx, rng: &mut Rng, tier: Tier) -> Outcome {
    let cases = gen_cases(rng, tier);
    run_unit_cases(ctx, cases)
}

fn run_unit_cases(ctx: &Ctx, cases: Vec<(Term, Cfg)>) -> Outcome {
    let mut o = Outcome::default();
    let prop = ctx.prop.clone();
    let evals: Vec<(Eval, Vec<Fail>)> = par_map(&cases, 16, |(t, cfg)| {
        let case = unit_case(&term_text(t), *cfg);
        let ev = eval_impl(term_of(&case), *cfg);
        let fails = judge_unit(&prop, Some(t), &case);
        (ev, fails)
    });
    let reqs: Vec<String> = cases.iter().map(|(t, cfg)| format!("X {} {} {} {}", cfg.bits, cfg.min_rep, cfg.min_len, term_text(t))).collect();
    let model = if ctx.model.available() { ctx.model.run(&reqs).ok() } else { None };
    let mut shapes = std::collections::BTreeMap::new();
    for (i, ((t, cfg), (ev, fails))) in cases.iter().zip(evals.iter()).enumerate() {
        let case = unit_case(&term_text(t), *cfg);
        o.evaluations += 1;
        if let Eval::Some(d, _) = ev {
            let mut h = std::collections::hash_map::DefaultHasher::new();
            use std::hash::{Hash, Hasher};
            ("unit", d, cfg.bits).hash(&mut h);
            o.nontrivial.insert(h.finish());
            *shapes.entry(d.chars().next().unwrap_or('?')).or_insert(0usize) += 1;
        }
        for f in fails {
            if f.kind == Kind::Oracle {
                o.oracle_undecided += 1;
            } else {
                o.oracle_fails.push((case.clone(), f.clone()));
            }
        }
        if let Some(m) = &model {
            o.model_compared += 1;
            let mine = eval_line(ev);
            if m.get(i).map(|s| s.as_str()) != Some(mine.as_str()) && !matches!(ev, Eval::Panic(_)) {
                o.model_diffs.push((case.clone(), mine, m.get(i).cloned().unwrap_or_default()));
            }
        }
    }
    o.bump("unit_terms", cases.len());
    for (k, v) in shapes {
        o.bump(&format!("unit_result_top_{}", k), v);
    }
    o.notes.push("unit stream: terms over the library's union/concatenate (hook eval_term) printed by Display for RegExp; compared with the Lean model's result and text, judged by the regex-crate oracle".into());
    o
}
