// Per-property streams: which inputs, which judge.

use crate::check::*;
use crate::gen;
use crate::judge::{self, Fail, Kind};
use crate::oracle;
use crate::util::*;

const NEUTRAL: &[u32] = &[BIT_CAP, BIT_ESC, BIT_VERB, BIT_NO_START, BIT_NO_END];
const REGEX_FLAGS: &[u32] = &[0, 1, 2, 3, 4, 5, 6, 7, 8, 9, 11, 12, 13];
const ALL_FLAGS: &[u32] = &[0, 1, 2, 3, 4, 5, 6, 7, 8, 9, 10, 11, 12, 13, 14];

fn subsets_of_bits(bits: &[u32]) -> Vec<u32> {
    (0..(1u32 << bits.len())).map(|m| bits.iter().enumerate().filter(|(i, _)| m & (1 << i) != 0).fold(0, |a, (_, b)| a | (1 << b))).collect()
}

fn mask(bits: &[u32]) -> u32 {
    bits.iter().fold(0, |a, b| a | (1 << b))
}

pub struct Plan<'a> {
    pub cases: Vec<Case>,
    pub judge: Box<JudgeFn<'a>>,
    pub stages: bool,
    pub explanation: String,
    pub exhaustive: bool,
}

fn cross_flags(rng: &mut Rng, pool: &[Vec<String>], flags: &[u32], max_t: u32) -> Vec<Case> {
    let mut out = Vec::with_capacity(pool.len() * flags.len());
    for t in pool {
        for f in flags {
            let mut cfg = Cfg::new(gen::normalise_flags(*f));
            if cfg.has(BIT_REP) {
                cfg.min_rep = 1 + rng.below(max_t as usize) as u32;
                cfg.min_len = 1 + rng.below(max_t as usize) as u32;
            }
            out.push(Case { tcs: t.clone(), cfg });
        }
    }
    out
}

/// three-level repetition structures with characters that need escaping, under `-r` (thresholds 1/1) and the given settings
fn deep_nested(flags: &[u32]) -> Vec<Case> {
    let mut out = vec![];
    for t in gen::deep_nested_words() {
        for f in flags {
            out.push(Case { tcs: t.clone(), cfg: Cfg::new(gen::normalise_flags(*f | (1 << BIT_REP))) });
        }
    }
    out
}

/// Same build with one setting changed, through the same entry point.
fn rebuild(case: &Case, f: impl Fn(Cfg) -> Cfg) -> (Case, Built) {
    let c = Case { tcs: case.tcs.clone(), cfg: f(case.cfg) };
    let b = build_impl(&c);
    (c, b)
}

pub fn plan<'a>(ctx: &'a Ctx, rng: &mut Rng, tier: Tier) -> Plan<'a> {
    let quick = tier == Tier::Quick;
    let sub = Ctx_view { tier };
    let _ = sub;
    let classes = &ctx.classes;
    let p = ctx.prop.as_str();
    match p {
        "C01" => {
            let pools = pools_for(ctx, rng, tier, &[("meta", gen::META), ("clusters", gen::CLUSTERS), ("ws", gen::WS), ("case", gen::CASE), ("lookalike", gen::LOOKALIKE), ("boundary", gen::BOUNDARY)]);
            let flags = gen::flag_rows(rng, REGEX_FLAGS);
            let mut cases = cross_flags(rng, &pools.all(), &flags, 3);
            cases.extend(deep_nested(&[0, mask(&[BIT_VERB]), mask(&[BIT_ESC]), mask(&[BIT_CAP, BIT_CI]), mask(&[BIT_NO_END])]));
            for t in gen::run_sets(rng, if quick { 20_000 } else { 400_000 }) {
                let mut cfg = Cfg::new(mask(&[BIT_REP]));
                if rng.chance(1, 4) { cfg.min_rep = 1 + rng.below(2) as u32; cfg.min_len = 1 + rng.below(2) as u32; }
                cases.push(Case { tcs: t, cfg });
            }
            // literal text that reads like a class token, repeated, next to members of that class repeated, under -r and the class
            // option: the trie must keep the unit ["\\","d"] apart from the converted ["\\d"] although both join to the same text
            for (tok, bit, members) in [("\\d", BIT_DIGIT, ["1", "7"]), ("\\s", BIT_SPACE, [" ", "\t"]), ("\\w", BIT_WORD, ["a", "_"]),
                ("\\D", BIT_NON_DIGIT, ["a", "-"]), ("\\S", BIT_NON_SPACE, ["a", "1"]), ("\\W", BIT_NON_WORD, ["-", " "])] {
                for n in 2usize..=3 {
                    for m in members {
                        for k in [n - 1, n] {
                            for extra in [0u32, mask(&[BIT_CAP]), mask(&[BIT_VERB]), mask(&[BIT_ESC])] {
                                let t = vec![m.repeat(k), tok.repeat(n)];
                                cases.push(Case { tcs: t.clone(), cfg: Cfg::new(mask(&[BIT_REP, bit]) | extra) });
                                cases.push(Case { tcs: vec![format!("x{}", t[0]), format!("x{}", t[1])], cfg: Cfg::new(mask(&[BIT_REP, bit]) | extra) });
                            }
                        }
                    }
                }
            }
            Plan {
                cases,
                judge: Box::new(|c, b| judge::judge_sound(c, b)),
                stages: false,
                explanation: "every output compiles and, anchored, matches every test case (regex crate as oracle); exact output strings compared with the Lean model".into(),
                exhaustive: false,
            }
        }
        "C02" => {
            let pools = pools_for(ctx, rng, tier, &[("meta", gen::META), ("clusters", gen::CLUSTERS), ("ws", gen::WS), ("boundary", gen::BOUNDARY), ("lookalike", gen::LOOKALIKE)]);
            let flags = subsets_of_bits(NEUTRAL);
            let mut cases = cross_flags(rng, &pools.ab, &flags, 1);
            let few: Vec<u32> = if quick { vec![0, mask(&[BIT_VERB]), mask(&[BIT_CAP, BIT_ESC]), mask(&[BIT_NO_START, BIT_NO_END]), mask(NEUTRAL)] } else { flags.clone() };
            cases.extend(cross_flags(rng, &pools.abc, &few, 1));
            for (_, pl) in &pools.adversarial {
                cases.extend(cross_flags(rng, pl, &few, 1));
            }
            cases.extend(cross_flags(rng, &pools.random, &few, 1));
            let sets = gen::class_sets(rng, quick);
            cases.extend(cross_flags(rng, &sets, &[0, mask(&[BIT_ESC]), mask(&[BIT_CAP, BIT_VERB])], 1));
            Plan {
                cases,
                judge: Box::new(move |c, b| judge::judge_exact(classes, c, b)),
                stages: false,
                explanation: "language of the output equals the set of test cases, decided symbolically over all of Unicode (dense DFA product); character-class families (single code points at neighbour / page / plane distances); all 32 subsets of the presentation-neutral settings on every non-empty subset of {a,b}^<=3 of size <=3 (thorough: <=4)".into(),
                exhaustive: true,
            }
        }
        "C03" => {
            let words = gen::words(gen::CLASSY, 2);
            let n = if quick { 40 } else { 400 };
            let mut cases = vec![];
            for cls in 0..64u32 {
                let mut pool = gen::sample_subsets(rng, &words, 3, n);
                pool.extend((0..n / 2).map(|_| gen::random_list(rng, gen::CLASSY)));
                let extra = [0u32, mask(&[BIT_VERB]), mask(&[BIT_CAP]), mask(&[BIT_ESC])];
                for (k, t) in pool.into_iter().enumerate() {
                    cases.push(Case { tcs: t, cfg: Cfg::new(cls | extra[k % 4]) });
                }
            }
            // unusual clusters and metacharacters under the class options: what is left literal must still be escaped and grouped
            // as without them (a metacharacter that shares a cluster with a modifier, a Prepend letter in front of a digit, …)
            for atoms in [gen::CLUSTERS, gen::META] {
                for cls in [1u32, 2, 4, 8, 16, 32, 5, 42, 63] {
                    for _ in 0..(if quick { 25 } else { 400 }) {
                        let mut t = gen::random_list(rng, atoms);
                        if rng.chance(1, 2) { t.push(format!("{}1 ", rng.pick(&atoms.iter().map(|a| a.to_string()).collect::<Vec<_>>()))); }
                        cases.push(Case { tcs: t, cfg: Cfg::new(cls) });
                    }
                }
            }
            // every boundary of the regex crate's own \s table (22 code points), and a seeded sample of the
            // boundaries of \d and \w (thorough: all of them), alone and next to a letter, under each single option
            // and under all six together
            let mut edge: Vec<char> = crate::oracle::Classes::boundaries(r"\s");
            for which in [r"\d", r"\w"] {
                let all = crate::oracle::Classes::boundaries(which);
                let take = if quick { 60 } else { all.len() };
                let mut picked: Vec<char> = (0..take).map(|i| if quick { all[rng.below(all.len())] } else { all[i] }).collect();
                picked.push(*all.first().unwrap());
                picked.push(*all.last().unwrap());
                picked.push(all[all.len() - 2]);
                edge.extend(picked);
            }
            edge.sort();
            edge.dedup();
            for c in edge {
                if c == '\u{0}' { continue; }
                for cls in [1u32, 2, 4, 8, 16, 32, 63] {
                    cases.push(Case { tcs: vec![c.to_string()], cfg: Cfg::new(cls) });
                    cases.push(Case { tcs: vec![format!("a{}", c), "a".to_string()], cfg: Cfg::new(cls) });
                }
            }
            // a test case whose own text reads like a class token (`\d` written out) next to a member of that class: after the
            // conversion the two are different clusters with the same printed text
            let tokens: [(&str, &str, u32); 6] = [("\\d", "5", 1), ("\\D", "a", 2), ("\\s", " ", 4), ("\\S", "a", 8), ("\\w", "a", 16), ("\\W", "-", 32)];
            for (tok, member, bit) in tokens {
                for cls in [bit, 63u32, bit | 16, bit | 1] {
                    for extra in [0u32, mask(&[BIT_ESC]), mask(&[BIT_CAP])] {
                        let cfg = Cfg::new(cls | extra);
                        cases.push(Case { tcs: vec![member.to_string(), tok.to_string()], cfg });
                        cases.push(Case { tcs: vec![tok.to_string(), member.to_string()], cfg });
                        cases.push(Case { tcs: vec![format!("x{}", member), format!("x{}", tok)], cfg });
                        cases.push(Case { tcs: vec![format!("{}{}", member, member), format!("{}{}", tok, tok), tok.to_string()], cfg });
                        cases.push(Case { tcs: vec![format!("{}.", member), format!("{}.", tok), "q".to_string()], cfg });
                    }
                }
            }
            let lwords = gen::words(gen::LOOKALIKE, 2);
            for cls in [1u32, 16, 4, 63, 17, 42] {
                for t in gen::sample_subsets(rng, &lwords, 3, if quick { 60 } else { 600 }) {
                    cases.push(Case { tcs: t, cfg: Cfg::new(cls) });
                }
            }
            Plan {
                cases,
                judge: Box::new(move |c, b| judge::judge_exact(classes, c, b)),
                stages: false,
                explanation: "all 64 subsets of the six class options on words over a mixed alphabet, plus the boundary code points of the regex crate's own \\d/\\s/\\w tables under each option, plus test cases whose own text reads like a class token next to members of that class; language compared with the alternation of per-character class sequences built from the regex crate's own classes with the documented precedence".into(),
                exhaustive: false,
            }
        }
        "C04" => {
            let words = gen::words(gen::CASE, 2);
            let n = if quick { 1200 } else { 12000 };
            let mut pool = gen::sample_subsets(rng, &words, 3, n);
            pool.extend((0..n / 2).map(|_| gen::random_list(rng, gen::CASE)));
            for a in gen::CASE {
                pool.push(vec![a.to_string()]);
            }
            // case variants around metacharacters
            let mwords = gen::words(gen::CASE_META, 3);
            pool.extend(gen::sample_subsets(rng, &mwords, 2, n / 2));
            pool.extend((0..n / 4).map(|_| gen::random_list(rng, gen::CASE_META)));
            for a in ["A", "B", "\u{a7dc}", "\u{130}", "K"] {
                for m in ["?", "+", "(", ")", "|", ".", "|.", "*", "[", "{2}", "^", "$"] {
                    pool.push(vec![format!("{}{}", a, m)]);
                    pool.push(vec![format!("{}{}", a, m), format!("{}{}", a.to_lowercase(), m)]);
                    pool.push(vec![format!("{}{}", m, a)]);
                }
            }
            let flags: Vec<u32> = [0u32, mask(&[BIT_VERB]), mask(&[BIT_ESC]), mask(&[BIT_CAP]), mask(&[BIT_WORD]), mask(&[BIT_DIGIT, BIT_NON_WORD])].iter().map(|f| f | (1 << BIT_CI)).collect();
            let mut cases = vec![];
            for (k, t) in pool.into_iter().enumerate() {
                cases.push(Case { tcs: t, cfg: Cfg::new(flags[k % flags.len()]) });
            }
            Plan {
                cases,
                judge: Box::new(move |c, b| {
                    let mut f = judge::judge_exact(classes, c, b);
                    if let Some(out) = b.ok() {
                        if c.cfg.has(BIT_CI) && !out.starts_with("(?i") {
                            f.push(Fail::new(Kind::Syntax, format!("case-insensitive output {:?} lacks the (?i) flag", out), None));
                        }
                        // collapse: a test case is stored lower-cased when that keeps its number of code points and the regex crate
                        // still matches it case-insensitively; test cases with the same stored form are one alternative, so the
                        // output is the output for the list of stored forms
                        let stored: Vec<String> = c.tcs.iter().map(|t| {
                            let l = t.to_lowercase();
                            let keeps = l.chars().count() == t.chars().count()
                                && oracle::compile(&format!("(?i)^{}$", oracle::lit(&l))).map(|r| r.is_match(t)).unwrap_or(false);
                            if keeps { l } else { t.clone() }
                        }).collect();
                        if stored != c.tcs && c.cfg.has(BIT_CI) {
                            let cc = Case { tcs: stored.clone(), cfg: c.cfg };
                            if let Built::Ok(o2) = build_public(&cc) {
                                if &o2 != out {
                                    f.push(Fail::new(Kind::Differ, format!("test cases that differ only by case did not collapse: output {:?}, the output for their lower-cased forms {:?} is {:?}", out, stored, o2), None));
                                }
                            }
                        }
                    }
                    f
                }),
                stages: false,
                explanation: "(?i) prefix present; language equals the (?i)-flagged alternation of the original test cases (regex crate's simple case folding); test cases with the same lower-cased form collapse (output = output for the stored forms)".into(),
                exhaustive: false,
            }
        }
        "C05" => {
            let mut pool: Vec<Vec<String>> = vec![];
            let maxlen = if quick { 6 } else { 8 };
            for w in gen::words(&["a", "b"], maxlen) {
                pool.push(vec![w]);
            }
            let ab = gen::words(&["a", "b"], 3);
            pool.extend(gen::subsets(&ab, if quick { 2 } else { 3 }));
            let per = gen::periodic_words();
            for w in &per {
                pool.push(vec![w.clone()]);
            }
            pool.extend(gen::sample_subsets(rng, &per, 3, if quick { 300 } else { 3000 }));
            let metaw = gen::words(&[".", "a", "\\", "d", "\u{ff9e}", "1"], 4);
            pool.extend(gen::sample_subsets(rng, &metaw, 2, if quick { 400 } else { 4000 }));
            for unit in gen::REPEAT_UNITS {
                for k in 2..=4usize {
                    pool.push(vec![unit.repeat(k)]);
                    pool.push(vec![format!("x{}y", unit.repeat(k))]);
                    pool.push(vec![format!("{}z", unit.repeat(k)), format!("{}", unit.repeat(k + 1))]);
                }
            }
            let nested: Vec<String> = ["..a..ab..a..ab", "aabaabxaabaabx", "ababcababcababc", "aaaabaaaab", "1122112211", "x.x.yx.x.y"].iter().map(|s| s.to_string()).collect();
            for w in &nested {
                pool.push(vec![w.clone()]);
            }
            pool.extend(gen::run_sets(rng, if quick { 1_500 } else { 30_000 }));
            let mut cases = vec![];
            let thr: Vec<(u32, u32)> = if quick { vec![(1, 1), (2, 1), (1, 2), (3, 2)] } else { (1..=4).flat_map(|r| (1..=4).map(move |l| (r, l))).chain([(10, 1), (1, 10)]).collect() };
            let extras = [0u32, mask(&[BIT_DIGIT]), mask(&[BIT_WORD, BIT_NON_WORD]), mask(&[BIT_VERB]), mask(&[BIT_CAP, BIT_ESC]), mask(&[BIT_CI])];
            for (k, t) in pool.iter().enumerate() {
                for (j, (r, l)) in thr.iter().enumerate() {
                    let bits = (1 << BIT_REP) | extras[(k + j) % extras.len()];
                    cases.push(Case { tcs: t.clone(), cfg: Cfg { bits, min_rep: *r, min_len: *l } });
                }
            }
            Plan {
                cases,
                judge: Box::new(|c, b| {
                    if !c.cfg.has(BIT_REP) || !judge::for_regex_crate(c.cfg) {
                        return vec![];
                    }
                    let (pc, plain) = rebuild(c, |g| g.without(BIT_REP));
                    // a build that is already broken without -r is C01/C07's business, not this property's
                    if !judge::judge_valid(&pc, &plain).is_empty() {
                        return vec![];
                    }
                    let mut f = judge::judge_valid(c, b);
                    if f.is_empty() {
                        f.extend(judge::judge_lang_eq(b.ok().unwrap(), plain.ok().unwrap(), "the same build without repetition conversion"));
                    }
                    f
                }),
                stages: true,
                explanation: "language of the -r output equals the language of the same build without -r (dense DFA product), thresholds varied; cluster/trie/minimised-automaton snapshots of the implementation compared with the model's".into(),
                exhaustive: false,
            }
        }
        "C06" => {
            let pools = pools_for(ctx, rng, tier, &[("ws", gen::WS), ("meta", gen::META), ("boundary", gen::BOUNDARY), ("clusters", gen::CLUSTERS)]);
            let base: Vec<u32> = vec![0, mask(&[BIT_DIGIT]), mask(&[BIT_SPACE]), mask(&[BIT_CI]), mask(&[BIT_REP]), mask(&[BIT_NO_START, BIT_NO_END]), mask(&[BIT_NON_SPACE, BIT_WORD])];
            let pres = subsets_of_bits(&[BIT_VERB, BIT_CAP, BIT_ESC]);
            let mut flags = vec![];
            for b in &base {
                for q in &pres {
                    if *q != 0 {
                        flags.push(b | q);
                    }
                }
            }
            let all = pools.all();
            let mut cases = vec![];
            for (k, t) in all.iter().enumerate() {
                for j in 0..(if quick { 4 } else { 12 }) {
                    cases.push(Case { tcs: t.clone(), cfg: Cfg::new(flags[(k * 7 + j * 13) % flags.len()]) });
                }
            }
            cases.extend(deep_nested(&[mask(&[BIT_VERB]), mask(&[BIT_ESC]), mask(&[BIT_CAP]), mask(&[BIT_VERB, BIT_ESC, BIT_CAP])]));
            Plan {
                cases,
                judge: Box::new(|c, b| {
                    if !judge::for_regex_crate(c.cfg) || !(c.cfg.has(BIT_VERB) || c.cfg.has(BIT_CAP) || c.cfg.has(BIT_ESC)) {
                        return vec![];
                    }
                    let (bc, base) = rebuild(c, |g| g.without(BIT_VERB).without(BIT_CAP).without(BIT_ESC));
                    if !judge::judge_valid(&bc, &base).is_empty() {
                        return vec![];
                    }
                    let mut f = judge::judge_valid(c, b);
                    if !f.is_empty() {
                        return f;
                    }
                    let out = b.ok().unwrap();
                    f.extend(judge::judge_groups_and_flags(c, out));
                    for bit in [BIT_VERB, BIT_CAP, BIT_ESC] {
                        if c.cfg.has(bit) {
                            let (oc, other) = rebuild(c, |g| g.without(bit));
                            if judge::judge_valid(&oc, &other).is_empty() {
                                f.extend(judge::judge_lang_eq(out, other.ok().unwrap(), &format!("the same build without {}", FLAG_NAMES[bit as usize])));
                            }
                        }
                    }
                    f
                }),
                stages: false,
                explanation: "each of verbose / capturing groups / escaping compared (language, dense DFA product) with the same build without it; flag prefix and group kinds read from the regex-syntax AST".into(),
                exhaustive: false,
            }
        }
        "C07" => {
            let pools = pools_for(ctx, rng, tier, &[("meta", gen::META), ("clusters", gen::CLUSTERS), ("ws", gen::WS), ("boundary", gen::BOUNDARY), ("colorish", gen::COLORISH), ("lookalike", gen::LOOKALIKE), ("case", gen::CASE)]);
            let mut flags = gen::flag_rows(rng, ALL_FLAGS);
            flags.push(mask(&[BIT_ESC, BIT_SUR, BIT_NO_START, BIT_NO_END]));
            flags.push(mask(&[BIT_ESC, BIT_SUR, BIT_NO_START, BIT_NO_END, BIT_COLOR, BIT_VERB]));
            flags.push(mask(&[BIT_COLOR, BIT_NO_START, BIT_NO_END]));
            let mut cases = cross_flags(rng, &pools.all(), &flags, 4);
            // large inputs (resources): many test cases with shared structure; one long test case
            let mut big: Vec<String> = vec![];
            for i in 0..(if quick { 300 } else { 2000 }) {
                big.push(format!("pre{}mid{}suf", i % 37, i % 11));
            }
            cases.push(Case { tcs: big.clone(), cfg: Cfg::new(0) });
            cases.push(Case { tcs: big, cfg: Cfg::new(mask(&[BIT_DIGIT, BIT_VERB])) });
            cases.push(Case { tcs: vec!["ab".repeat(if quick { 200 } else { 1500 })], cfg: Cfg::new(0) });
            cases.push(Case { tcs: vec!["abcab".repeat(if quick { 20 } else { 60 })], cfg: Cfg::new(mask(&[BIT_REP])) });
            cases.extend(deep_nested(&[0, mask(&[BIT_VERB]), mask(&[BIT_ESC]), mask(&[BIT_ESC, BIT_SUR]), mask(&[BIT_CAP, BIT_CI]), mask(&[BIT_COLOR]), mask(&[BIT_NO_START, BIT_NO_END, BIT_VERB])]));
            // thresholds at the ends of their type: every positive u32 is a legal threshold (arithmetic on it must not overflow)
            for (mr, ml) in [(u32::MAX, 1u32), (u32::MAX - 1, 1), (1, u32::MAX), (u32::MAX, u32::MAX), (1 << 31, 2), (2, 1 << 31), (1000, 1000)] {
                for t in [vec!["ab".to_string()], vec!["aaaaaa".to_string(), "xyzxyzxyz".to_string(), "b".to_string()], vec!["a".to_string()], vec!["1111".to_string(), "11".to_string()]] {
                    for fl in [mask(&[BIT_REP]), mask(&[BIT_REP, BIT_DIGIT, BIT_NO_START, BIT_NO_END]), mask(&[BIT_REP, BIT_VERB]), 0u32] {
                        cases.push(Case { tcs: t.clone(), cfg: Cfg { bits: fl, min_rep: mr, min_len: ml } });
                    }
                }
            }
            Plan {
                cases,
                judge: Box::new(|c, b| judge::judge_valid(c, b)),
                stages: false,
                explanation: "no panic for any non-empty input and positive thresholds; output accepted by the regex crate unless surrogates/colour are on; documented panics checked separately".into(),
                exhaustive: false,
            }
        }
        "C08" => {
            let ab = gen::words(&["a", "b"], 3);
            let abc = gen::words(&["a", "b", "c"], 2);
            let mut pool = gen::subsets(&ab, if quick { 3 } else { 4 });
            pool.extend(gen::subsets(&abc, if quick { 3 } else { 4 }));
            // characters of different UTF-8 widths (byte order, byte length and character count all disagree somewhere)
            let mixed = gen::words(&["a", "\u{e9}"], 3);
            pool.extend(gen::subsets(&mixed, 4));
            let mixed3 = gen::words(&["z", "\u{e9}", "\u{20ac}"], 2);
            pool.extend(gen::subsets(&mixed3, if quick { 3 } else { 4 }));
            let cl = gen::words(&["\u{1100}", "\u{1161}", "\u{1f1e9}", "\u{1f1ea}", "a"], 3);
            pool.extend(gen::sample_subsets(rng, &cl, 3, if quick { 300 } else { 3000 }));
            let anchors = [mask(&[BIT_NO_START]), mask(&[BIT_NO_END]), mask(&[BIT_NO_START, BIT_NO_END]), 0];
            let others: Vec<u32> = if quick { vec![0, mask(&[BIT_VERB]), mask(&[BIT_CI, BIT_CAP])] } else { vec![0, mask(&[BIT_VERB]), mask(&[BIT_CI]), mask(&[BIT_CAP]), mask(&[BIT_REP]), mask(&[BIT_WORD]), mask(&[BIT_ESC, BIT_VERB, BIT_CAP])] };
            let mut flags = vec![];
            for a in anchors {
                for o in &others {
                    flags.push(a | o);
                }
            }
            let cases = cross_flags(rng, &pool, &flags, 2);
            Plan {
                cases,
                judge: Box::new(|c, b| {
                    let mut f = judge::judge_valid(c, b);
                    if !f.is_empty() {
                        return f;
                    }
                    let out = b.ok().unwrap();
                    f.extend(judge::judge_anchor_text(c, out));
                    if c.cfg.has(BIT_NO_START) || c.cfg.has(BIT_NO_END) {
                        // the body's full-match language must not depend on the anchors — unless the
                        // self-check fall-back chose another (equivalent) expression, hence language, not text
                        let (_, anchored) = rebuild(c, |g| g.without(BIT_NO_START).without(BIT_NO_END));
                        if let Built::Ok(a) = anchored {
                            f.extend(judge::judge_lang_eq(out, &a, "the same build with both anchors"));
                        }
                        f.extend(judge::judge_search_spans(c, out));
                    }
                    f
                }),
                stages: false,
                explanation: "^/$ present exactly when requested; full-match language independent of the anchor settings; Regex::find on every test case returns the whole test case when an anchor is disabled".into(),
                exhaustive: true,
            }
        }
        "C09" => {
            // boundary code points of every range of the regex crate's three tables, +-1
            let mut cps: Vec<u32> = vec![];
            let tables = [r"^\d$", r"^\w$", r"^\s$"];
            let res: Vec<regex::Regex> = tables.iter().map(|t| regex::Regex::new(t).unwrap()).collect();
            if quick {
                let mut prev = [false; 3];
                for v in 0..=0x10ffffu32 {
                    if let Some(ch) = char::from_u32(v) {
                        let s = ch.to_string();
                        let cur = [res[0].is_match(&s), res[1].is_match(&s), res[2].is_match(&s)];
                        if cur != prev {
                            cps.push(v);
                            if v > 0 {
                                cps.push(v - 1);
                            }
                        }
                        prev = cur;
                    } else {
                        prev = [false; 3];
                    }
                }
                cps.retain(|v| char::from_u32(*v).is_some());
                cps.sort();
                cps.dedup();
            } else {
                cps = (0..=0x10ffffu32).filter(|v| char::from_u32(*v).is_some()).collect();
            }
            let mut cases = vec![];
            let single = [BIT_DIGIT, BIT_NON_DIGIT, BIT_SPACE, BIT_NON_SPACE, BIT_WORD, BIT_NON_WORD];
            for (k, v) in cps.iter().enumerate() {
                let s = char::from_u32(*v).unwrap().to_string();
                for b in single {
                    cases.push(Case { tcs: vec![s.clone()], cfg: Cfg::new(1 << b) });
                }
                cases.push(Case { tcs: vec![s.clone()], cfg: Cfg::new((k as u32 * 37) % 64) });
            }
            Plan {
                cases,
                judge: Box::new(move |c, b| {
                    let mut f = judge::judge_sound(c, b);
                    // the token comparison reads the output of ONE one-character test case; inputs of another shape (the
                    // change-directed cases around the atoms of a source diff) are judged for soundness only
                    let one_char = c.tcs.len() == 1 && c.tcs[0].chars().count() == 1;
                    if let (true, Some(out), Some(ch)) = (one_char, b.ok(), c.tcs.first().and_then(|t| t.chars().next())) {
                        let tok = classes.token(c.cfg.bits & CLASS_MASK, ch);
                        let is_class = tok.len() == 2 && tok.starts_with('\\') && "dwsDWS".contains(&tok[1..]);
                        let out_is_class = out.len() == 4 && out.starts_with("^\\") && "dwsDWS".contains(&out[2..3]);
                        if is_class != out_is_class || (is_class && &out[1..3] != tok) {
                            f.push(Fail::new(Kind::Differ, format!("U+{:04X} with {}: output {:?}, but the regex crate's classes give {:?}", ch as u32, c.cfg.describe(), out, tok), Some(ch.to_string())));
                        }
                    }
                    f
                }),
                stages: false,
                explanation: "build([c]) for the boundary code points (+-1) of the regex crate's \\d \\w \\s (thorough: every scalar value) under each of the six options and mixed subsets: class token iff the regex crate's class contains c".into(),
                exhaustive: !quick,
            }
        }
        "C11" => {
            let pools = pools_for(ctx, rng, tier, &[("boundary", gen::BOUNDARY), ("clusters", gen::CLUSTERS), ("case", gen::CASE)]);
            let others: Vec<u32> = vec![0, mask(&[BIT_VERB]), mask(&[BIT_REP]), mask(&[BIT_CAP, BIT_CI]), mask(&[BIT_NON_DIGIT]), mask(&[BIT_WORD, BIT_VERB])];
            let mut flags = vec![];
            for o in &others {
                flags.push(o | mask(&[BIT_ESC]));
                flags.push(o | mask(&[BIT_ESC, BIT_SUR]));
            }
            let mut pool: Vec<Vec<String>> = vec![];
            for (_, pl) in &pools.adversarial {
                pool.extend(pl.iter().cloned());
            }
            pool.extend(pools.ab.iter().take(200).cloned());
            let mut cases = vec![];
            for (k, t) in pool.iter().enumerate() {
                for j in 0..(if quick { 4 } else { 12 }) {
                    cases.push(Case { tcs: t.clone(), cfg: Cfg::new(flags[(k + j * 5) % flags.len()]) });
                }
            }
            cases.extend(deep_nested(&[mask(&[BIT_ESC]), mask(&[BIT_ESC, BIT_SUR]), mask(&[BIT_ESC, BIT_VERB]), mask(&[BIT_ESC, BIT_CAP])]));
            Plan {
                cases,
                judge: Box::new(|c, b| {
                    if !c.cfg.has(BIT_ESC) || c.cfg.has(BIT_COLOR) {
                        return vec![];
                    }
                    let (pc, plain) = rebuild(c, |g| g.without(BIT_ESC).without(BIT_SUR));
                    if !judge::judge_valid(&pc, &plain).is_empty() {
                        return vec![];
                    }
                    let out = match b {
                        Built::Ok(o) => o,
                        Built::Panic(m) => return vec![Fail::new(Kind::Panic, format!("build() panicked: {}", m), None)],
                    };
                    let mut f = judge::judge_escape_text(c, out);
                    let decoded = judge::decode_surrogates(out);
                    if let Err(e) = oracle::compile(&decoded) {
                        f.push(Fail::new(Kind::Invalid, format!("output {:?} with its escapes decoded is rejected: {}", out, e.lines().last().unwrap_or("")), None));
                    } else {
                        f.extend(judge::judge_lang_eq(&decoded, plain.ok().unwrap(), "the unescaped build"));
                    }
                    f
                }),
                stages: false,
                explanation: "escaped output is pure ASCII, escapes well-formed (surrogate pairs paired, nothing above U+FFFF left when pairs are requested); decoding the escapes gives the language of the unescaped build".into(),
                exhaustive: false,
            }
        }
        "C13" => {
            let mut pool: Vec<Vec<String>> = vec![];
            for w in gen::words(&["a", "b"], if quick { 6 } else { 8 }) {
                pool.push(vec![w]);
            }
            let per = gen::periodic_words();
            pool.extend(gen::sample_subsets(rng, &per, 3, if quick { 400 } else { 4000 }));
            let meta = gen::words(&["{", "}", "2", ",", "a", "\\"], 4);
            pool.extend(gen::sample_subsets(rng, &meta, 2, if quick { 300 } else { 3000 }));
            let mut cases = vec![];
            let maxt = if quick { 4 } else { 6 };
            for (k, t) in pool.iter().enumerate() {
                cases.push(Case { tcs: t.clone(), cfg: Cfg::new([0u32, mask(&[BIT_VERB]), mask(&[BIT_DIGIT]), mask(&[BIT_CAP])][k % 4]) });
                for r in 1..=maxt {
                    let l = 1 + ((k as u32 + r) % maxt);
                    let extra = [0u32, mask(&[BIT_VERB]), mask(&[BIT_WORD]), mask(&[BIT_CAP, BIT_ESC])][(k + r as usize) % 4];
                    cases.push(Case { tcs: t.clone(), cfg: Cfg { bits: (1 << BIT_REP) | extra, min_rep: r, min_len: l } });
                }
            }
            // nested periods under every pair of thresholds (the two thresholds are easy to confuse below the top level)
            let nested = gen::nested_periodic_words();
            for (k, w) in nested.iter().enumerate() {
                if quick && k % 2 == 1 {
                    continue;
                }
                for r in 1..=maxt {
                    for l in 1..=maxt {
                        let extra = if (k as u32 + r + l) % 5 == 0 { mask(&[BIT_CAP]) } else { 0 };
                        cases.push(Case { tcs: vec![w.clone()], cfg: Cfg { bits: (1 << BIT_REP) | extra, min_rep: r, min_len: l } });
                    }
                }
            }
            Plan {
                cases,
                judge: Box::new(|c, b| {
                    let mut f = judge::judge_valid(c, b);
                    if f.is_empty() {
                        f.extend(judge::judge_thresholds(c, b.ok().unwrap()));
                    }
                    f
                }),
                stages: false,
                explanation: "regex-syntax AST of the output: no counted quantifier without -r; with -r every counted quantifier has an upper count > min_repetitions and a unit of >= min_substring_length characters".into(),
                exhaustive: false,
            }
        }
        "C15" => {
            let pools = pools_for(ctx, rng, tier, &[("colorish", gen::COLORISH), ("meta", gen::META), ("ws", gen::WS)]);
            let flags = gen::flag_rows(rng, &[0, 2, 4, 5, 6, 7, 8, 9, 10, 11, 12, 13]);
            let mut cases = cross_flags(rng, &pools.all(), &flags, 3);
            cases.extend(deep_nested(&[0, mask(&[BIT_VERB]), mask(&[BIT_ESC]), mask(&[BIT_CAP])]));
            // test cases that contain a whole SGR sequence as literal text, shaped so that the minimised expression differs from the
            // plain alternation: with both anchors off the self-check compiles the coloured candidate with its colour codes removed, and a
            // stripping regex that also removes (part of) the literal text makes it take a fall-back only when colours are on
            for sgr in ["\u{1b}[0m", "\u{1b}[1;31m", "\u{1b}[104;37m", "\u{1b}[0", "\u{1b}[1;3m", "\u{1b}\\[0m"] {
                let shapes: Vec<Vec<String>> = vec![
                    vec![format!("a{}b", sgr), format!("a{}c", sgr)],
                    vec![sgr.to_string(), format!("{}x", sgr)],
                    vec![format!("x{}y", sgr), format!("x{}z", sgr), "w".to_string()],
                    vec![format!("{}{}", sgr, sgr), sgr.to_string()],
                    vec![format!("({}", sgr), format!("){}", sgr)],
                    vec![format!("{}1", sgr), format!("{}2", sgr), format!("{}3", sgr)],
                ];
                for sh in shapes {
                    for fl in [0u32, mask(&[BIT_NO_START, BIT_NO_END]), mask(&[BIT_NO_START]), mask(&[BIT_NO_END]), mask(&[BIT_VERB, BIT_NO_START, BIT_NO_END]),
                        mask(&[BIT_CAP, BIT_NO_START, BIT_NO_END]), mask(&[BIT_ESC, BIT_NO_START, BIT_NO_END]), mask(&[BIT_REP, BIT_NO_START, BIT_NO_END]),
                        mask(&[BIT_DIGIT, BIT_NO_START, BIT_NO_END]), mask(&[BIT_VERB])] {
                        cases.push(Case { tcs: sh.clone(), cfg: Cfg::new(fl) });
                    }
                }
            }
            for c in cases.iter_mut() {
                c.cfg = c.cfg.with(BIT_COLOR);
            }
            Plan {
                cases,
                judge: Box::new(|c, b| {
                    let mut f = vec![];
                    if !c.cfg.has(BIT_COLOR) {
                        return f;
                    }
                    match b {
                        Built::Panic(m) => {
                            // a panic the uncoloured build shares is C07's business
                            let (_, plain) = rebuild(c, |g| g.without(BIT_COLOR));
                            if plain.ok().is_some() {
                                f.push(Fail::new(Kind::Panic, format!("coloured build panicked: {}", m), None))
                            }
                        }
                        Built::Ok(col) => {
                            let (_, plain) = rebuild(c, |g| g.without(BIT_COLOR));
                            match plain {
                                Built::Ok(p) => {
                                    let stripped = judge::strip_sgr(col);
                                    if stripped != p {
                                        f.push(Fail::new(Kind::Differ, format!("coloured output without its SGR codes is {:?}, plain output is {:?}", stripped, p), None));
                                    }
                                }
                                Built::Panic(_) => {}
                            }
                        }
                    }
                    f
                }),
                stages: false,
                explanation: "coloured output with SGR sequences removed equals the uncoloured output of the same build, all other settings pairwise-covered".into(),
                exhaustive: false,
            }
        }
        "C16" => {
            let pools = pools_for(ctx, rng, tier, &[("meta", gen::META), ("clusters", gen::CLUSTERS), ("classy", gen::CLASSY)]);
            // the printed pattern is the last stage: the presentation options take part, also together with -r (an edge label
            // printed with the wrong options changes the language of the text and of nothing before it)
            let flags: Vec<u32> = vec![0, mask(&[BIT_DIGIT]), mask(&[BIT_WORD, BIT_NON_WORD]), mask(&[BIT_CI]), mask(&[BIT_SPACE, BIT_NON_SPACE, BIT_CAP]), mask(&[BIT_REP]),
                mask(&[BIT_REP, BIT_CAP]), mask(&[BIT_REP, BIT_VERB]), mask(&[BIT_REP, BIT_ESC, BIT_CAP]), mask(&[BIT_VERB, BIT_CAP]), mask(&[BIT_ESC])];
            let mut cases = cross_flags(rng, &pools.all(), &flags, 2);
            for t in gen::run_sets(rng, if quick { 6_000 } else { 120_000 }) {
                let mut bits = mask(&[BIT_REP]);
                if rng.chance(1, 3) { bits |= mask(&[BIT_CAP]); }
                if rng.chance(1, 4) { bits |= mask(&[BIT_VERB]); }
                if rng.chance(1, 4) { bits |= mask(&[BIT_ESC]); }
                let mut cfg = Cfg::new(bits);
                if rng.chance(1, 4) { cfg.min_rep = 1 + rng.below(2) as u32; cfg.min_len = 1 + rng.below(2) as u32; }
                cases.push(Case { tcs: t, cfg });
            }
            Plan {
                cases,
                judge: Box::new(move |c, b| {
                    let mut f = judge::judge_valid(c, b);
                    if !f.is_empty() {
                        return f;
                    }
                    let cc = c.clone();
                    if let Ok(d) = quietly(move || grex::verif_hooks::stage_dump(&cc.tcs, cc.cfg.bits, cc.cfg.min_rep, cc.cfg.min_len)) {
                        f.extend(judge::judge_stages(c, &d));
                    }
                    if !c.cfg.has(BIT_REP) {
                        f.extend(judge::judge_exact(classes, c, b));
                    } else {
                        // with -r the text may accept more than the test cases (known finding D2); it must not lose one
                        f.extend(judge::judge_sound(c, b));
                    }
                    f
                }),
                stages: true,
                explanation: "on the implementation's own snapshots (hook): trie language = converted test cases; minimised automaton same language, deterministic, as many states as right languages; printed pattern = specified language; every snapshot compared verbatim with the Lean model's".into(),
                exhaustive: false,
            }
        }
        _ => Plan { cases: vec![], judge: Box::new(|_, _| vec![]), stages: false, explanation: String::new(), exhaustive: false },
    }
}

struct Ctx_view {
    #[allow(dead_code)]
    tier: Tier,
}

fn pools_for(ctx: &Ctx, rng: &mut Rng, tier: Tier, atoms: &[(&str, &[&str])]) -> Pools {
    let view = Ctx { tier, ..shallow(ctx) };
    pools(&view, rng, atoms)
}

fn shallow(ctx: &Ctx) -> Ctx {
    Ctx {
        prop: ctx.prop.clone(),
        tier: ctx.tier,
        seed: ctx.seed,
        model: crate::model::Model { driver: ctx.model.driver.clone(), procs: ctx.model.procs },
        classes: oracle::Classes::new(),
        known: ctx.known.clone(),
        threads: ctx.threads,
        verif_dir: ctx.verif_dir.clone(),
        lean_broken: ctx.lean_broken.clone(),
        obligations: ctx.obligations,
        discharged: ctx.discharged,
        checker_cmd: ctx.checker_cmd.clone(),
        repo_dir: ctx.repo_dir.clone(),
    }
}
