// The oracle: the `regex` crate family only, never the Lean model.
// Language questions are decided symbolically on dense byte DFAs (all of Unicode at once).

use regex_automata::dfa::{dense, Automaton, StartKind};
use regex_automata::util::primitives::StateID;
use regex_automata::util::syntax;
use regex_automata::{Anchored, Input, MatchKind};
use std::collections::{HashMap, VecDeque};

pub type Dfa = dense::DFA<Vec<u32>>;

pub fn compile(pat: &str) -> Result<regex::Regex, String> {
    regex::Regex::new(pat).map_err(|e| e.to_string())
}

/// Pattern for "matched in full": anchors are put in place around whatever the pattern has.
pub fn full(pat: &str) -> String {
    format!("^(?:{})$", pat)
}

/// Leftmost-first search on the reference engine of regex-automata (PikeVM); None = the pattern does not compile there.
pub fn pikevm_find(pat: &str, hay: &str) -> Option<Option<(usize, usize)>> {
    use regex_automata::nfa::thompson::pikevm::PikeVM;
    let re = PikeVM::builder().syntax(syntax::Config::new().unicode(true).utf8(true)).build(pat).ok()?;
    let mut cache = re.create_cache();
    Some(re.find(&mut cache, hay).map(|m| (m.start(), m.end())))
}

pub fn build_dfa(pat: &str) -> Result<Dfa, String> {
    dense::Builder::new()
        .configure(
            dense::Config::new()
                .start_kind(StartKind::Anchored)
                .match_kind(MatchKind::All)
                .dfa_size_limit(Some(256 << 20))
                .determinize_size_limit(Some(256 << 20)),
        )
        .syntax(syntax::Config::new().unicode(true).utf8(true))
        .build(pat)
        .map_err(|e| e.to_string())
}

fn start(d: &Dfa) -> StateID {
    d.start_state_forward(&Input::new("").anchored(Anchored::Yes)).expect("anchored start")
}

pub fn accepts(d: &Dfa, s: &[u8]) -> bool {
    let mut st = start(d);
    for &b in s {
        st = d.next_state(st, b);
        if d.is_dead_state(st) {
            return false;
        }
    }
    d.is_match_state(d.next_eoi_state(st))
}

/// Shortest byte string accepted by exactly one of the two automata (None: same language).
/// The bool says whether `a` accepts it.
pub fn lang_diff(a: &Dfa, b: &Dfa) -> Option<(Vec<u8>, bool)> {
    lang_diff_side(a, b, None)
}

/// As `lang_diff`, restricted to one side when `only` is given: `Some(true)` = a string only `a` accepts,
/// `Some(false)` = a string only `b` accepts.
pub fn lang_diff_side(a: &Dfa, b: &Dfa, only: Option<bool>) -> Option<(Vec<u8>, bool)> {
    let s0 = (start(a), start(b));
    let mut seen: HashMap<(StateID, StateID), usize> = HashMap::new();
    let mut nodes: Vec<((StateID, StateID), usize, u8)> = vec![(s0, usize::MAX, 0)];
    let mut queue = VecDeque::new();
    seen.insert(s0, 0);
    queue.push_back(0usize);
    while let Some(i) = queue.pop_front() {
        let (sa, sb) = nodes[i].0;
        let ma = !a.is_dead_state(sa) && a.is_match_state(a.next_eoi_state(sa));
        let mb = !b.is_dead_state(sb) && b.is_match_state(b.next_eoi_state(sb));
        if ma != mb && only.map(|w| w == ma).unwrap_or(true) {
            let mut bytes = vec![];
            let mut k = i;
            while nodes[k].1 != usize::MAX {
                bytes.push(nodes[k].2);
                k = nodes[k].1;
            }
            bytes.reverse();
            return Some((bytes, ma));
        }
        for byte in 0..=255u8 {
            let na = if a.is_dead_state(sa) { sa } else { a.next_state(sa, byte) };
            let nb = if b.is_dead_state(sb) { sb } else { b.next_state(sb, byte) };
            if a.is_dead_state(na) && b.is_dead_state(nb) {
                continue;
            }
            let key = (na, nb);
            if !seen.contains_key(&key) {
                let idx = nodes.len();
                seen.insert(key, idx);
                nodes.push((key, i, byte));
                queue.push_back(idx);
            }
        }
    }
    None
}

pub enum LangCmp {
    Equal,
    /// (witness string, true = only the first pattern accepts it)
    Differ(String, bool),
    Error(String),
}

/// Compares the full-match languages of two patterns.
pub fn compare_full(pat_a: &str, pat_b: &str) -> LangCmp {
    let a = match build_dfa(&full(pat_a)) {
        Ok(d) => d,
        Err(e) => return LangCmp::Error(format!("first pattern: {}", e)),
    };
    let b = match build_dfa(&full(pat_b)) {
        Ok(d) => d,
        Err(e) => return LangCmp::Error(format!("second pattern: {}", e)),
    };
    match lang_diff(&a, &b) {
        None => LangCmp::Equal,
        Some((bytes, in_a)) => LangCmp::Differ(String::from_utf8_lossy(&bytes).to_string(), in_a),
    }
}

/// A string the second pattern matches in full and the first does not (None: there is none, or a pattern does not compile).
pub fn missing_from_first(pat_a: &str, pat_b: &str) -> Option<String> {
    let a = build_dfa(&full(pat_a)).ok()?;
    let b = build_dfa(&full(pat_b)).ok()?;
    lang_diff_side(&a, &b, Some(false)).map(|(bytes, _)| String::from_utf8_lossy(&bytes).to_string())
}

pub fn lit(s: &str) -> String {
    regex_syntax::escape(s)
}

/// `(?:t1|t2|...)` of escaped literals.
pub fn alternation_of(tcs: &[String]) -> String {
    format!("(?:{})", tcs.iter().map(|t| lit(t)).collect::<Vec<_>>().join("|"))
}

pub struct Classes {
    d: regex::Regex,
    w: regex::Regex,
    s: regex::Regex,
}

impl Classes {
    pub fn new() -> Self {
        Classes {
            d: regex::Regex::new(r"^\d$").unwrap(),
            w: regex::Regex::new(r"^\w$").unwrap(),
            s: regex::Regex::new(r"^\s$").unwrap(),
        }
    }
    /// First and last code point of every range of the regex crate's `\d`, `\s`, `\w` tables, and their outer
    /// neighbours (taken from regex-syntax, independent of grex's own tables).
    pub fn boundaries(which: &str) -> Vec<char> {
        use regex_syntax::hir::{Class, HirKind};
        let hir = regex_syntax::ParserBuilder::new().build().parse(which).unwrap();
        let mut out = vec![];
        if let HirKind::Class(Class::Unicode(cls)) = hir.kind() {
            for r in cls.ranges() {
                let (lo, hi) = (r.start() as u32, r.end() as u32);
                for v in [lo.wrapping_sub(1), lo, hi, hi + 1] {
                    if let Some(c) = char::from_u32(v) {
                        out.push(c);
                    }
                }
            }
        }
        out.sort();
        out.dedup();
        out
    }
    pub fn is_digit(&self, c: char) -> bool {
        self.d.is_match(c.encode_utf8(&mut [0; 4]))
    }
    pub fn is_word(&self, c: char) -> bool {
        self.w.is_match(c.encode_utf8(&mut [0; 4]))
    }
    pub fn is_space(&self, c: char) -> bool {
        self.s.is_match(c.encode_utf8(&mut [0; 4]))
    }
    /// The documented conversion of one code point under the six class flags
    /// (bits 0..5 = digits, non-digits, spaces, non-spaces, words, non-words),
    /// judged by the regex crate's own classes.
    pub fn token(&self, bits: u32, c: char) -> String {
        let has = |i: u32| bits & (1 << i) != 0;
        if has(0) && self.is_digit(c) {
            r"\d".into()
        } else if has(4) && self.is_word(c) {
            r"\w".into()
        } else if has(2) && self.is_space(c) {
            r"\s".into()
        } else if has(1) && !self.is_digit(c) {
            r"\D".into()
        } else if has(5) && !self.is_word(c) {
            r"\W".into()
        } else if has(3) && !self.is_space(c) {
            r"\S".into()
        } else {
            lit(&c.to_string())
        }
    }
    pub fn spec_pattern(&self, bits: u32, tcs: &[String]) -> String {
        let alts: Vec<String> = tcs
            .iter()
            .map(|t| t.chars().map(|c| self.token(bits, c)).collect::<String>())
            .collect();
        format!("(?:{})", alts.join("|"))
    }
}
