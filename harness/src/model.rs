// Talks to the compiled Lean model (`gvdriver`) through the line protocol.

use crate::util::*;
use std::io::{BufRead, BufReader, Write};
use std::process::{Command, Stdio};

pub struct Model {
    pub driver: Option<String>,
    pub procs: usize,
}

fn seg_str(s: &str) -> String {
    let v = grex::verif_hooks::segment(s);
    if v.is_empty() {
        "-".to_string()
    } else {
        v.iter().map(|x| x.to_string()).collect::<Vec<_>>().join(",")
    }
}

pub fn request(kind: char, case: &Case) -> String {
    let tcs = if case.tcs.is_empty() {
        "!".to_string()
    } else {
        case.tcs.iter().map(|t| hex(t)).collect::<Vec<_>>().join(";")
    };
    let mut seen = std::collections::BTreeSet::new();
    let mut dict = vec![];
    for t in &case.tcs {
        if seen.insert(t.clone()) {
            let low = t.to_lowercase();
            dict.push(format!("{}:{}:{}:{}", hex(t), hex(&low), seg_str(t), seg_str(&low)));
        }
    }
    let dict = if dict.is_empty() { "!".to_string() } else { dict.join(";") };
    format!("{} {} {} {} {} {}", kind, case.cfg.bits, case.cfg.min_rep, case.cfg.min_len, tcs, dict)
}

impl Model {
    pub fn available(&self) -> bool {
        self.driver.as_ref().map(|d| std::path::Path::new(d).exists()).unwrap_or(false)
    }

    /// One response line per request line, order preserved.
    pub fn run(&self, reqs: &[String]) -> Result<Vec<String>, String> {
        let driver = self.driver.clone().ok_or("no driver")?;
        if reqs.is_empty() {
            return Ok(vec![]);
        }
        let procs = self.procs.max(1).min(reqs.len());
        let chunk = (reqs.len() + procs - 1) / procs;
        let mut results: Vec<Result<Vec<String>, String>> = vec![];
        std::thread::scope(|s| {
            let handles: Vec<_> = reqs
                .chunks(chunk)
                .map(|part| {
                    let driver = driver.clone();
                    s.spawn(move || -> Result<Vec<String>, String> {
                        let mut child = Command::new(&driver)
                            .stdin(Stdio::piped())
                            .stdout(Stdio::piped())
                            .stderr(Stdio::null())
                            .spawn()
                            .map_err(|e| format!("spawn {}: {}", driver, e))?;
                        let mut stdin = child.stdin.take().unwrap();
                        let stdout = child.stdout.take().unwrap();
                        let out = std::thread::scope(|s2| {
                            let w = s2.spawn(move || {
                                for r in part {
                                    if stdin.write_all(r.as_bytes()).is_err() || stdin.write_all(b"\n").is_err() {
                                        break;
                                    }
                                }
                                drop(stdin);
                            });
                            let mut lines = Vec::with_capacity(part.len());
                            for l in BufReader::new(stdout).lines() {
                                match l {
                                    Ok(l) => lines.push(l),
                                    Err(_) => break,
                                }
                            }
                            let _ = w.join();
                            lines
                        });
                        let _ = child.wait();
                        if out.len() != part.len() {
                            // the driver died (stack overflow, ...) on request number out.len()
                            let mut padded = out;
                            let died_at = padded.len();
                            while padded.len() < part.len() {
                                padded.push(if padded.len() == died_at { "X driver-died".to_string() } else { "X not-run".to_string() });
                            }
                            return Ok(padded);
                        }
                        Ok(out)
                    })
                })
                .collect();
            for h in handles {
                results.push(h.join().unwrap_or_else(|_| Err("driver thread panicked".into())));
            }
        });
        let mut out = vec![];
        for r in results {
            out.extend(r?);
        }
        Ok(out)
    }

    /// Runs the requests; requests the driver did not get to (after a crash) are retried one by one.
    pub fn run_robust(&self, reqs: &[String]) -> Result<Vec<String>, String> {
        let mut out = self.run(reqs)?;
        let pending: Vec<usize> = (0..out.len()).filter(|i| out[*i] == "X not-run").collect();
        if !pending.is_empty() {
            let sub: Vec<String> = pending.iter().map(|i| reqs[*i].clone()).collect();
            let again = self.run_robust(&sub)?;
            for (k, i) in pending.iter().enumerate() {
                out[*i] = again[k].clone();
            }
        }
        Ok(out)
    }
}

/// What the implementation looks like in the protocol's response format.
pub fn impl_response(built: &Built) -> String {
    match built {
        Built::Ok(s) => format!("O {}", hex(s)),
        Built::Panic(m) => format!("P {}", panic_site(m)),
    }
}

pub fn panic_site(msg: &str) -> String {
    if msg.starts_with("No test cases have been provided") {
        "no-test-cases".into()
    } else if msg.starts_with("Quantity of minimum repetitions") {
        "zero-min-rep".into()
    } else if msg.starts_with("Minimum substring length") {
        "zero-min-len".into()
    } else if msg.contains("regex parse error") || msg.contains("Syntax(") || msg.contains("called `Result::unwrap()` on an `Err` value") {
        "regex-invalid".into()
    } else {
        format!("other:{}", msg.chars().take(60).collect::<String>().replace(' ', "_"))
    }
}

pub fn stage_response(case: &Case) -> String {
    let r = quietly(|| grex::verif_hooks::stage_dump(&case.tcs, case.cfg.bits, case.cfg.min_rep, case.cfg.min_len));
    match r {
        Ok(d) => format!(
            "S\t{}\t{}\t{}\t{}\t{}\t{}\t{}",
            d.sorted.iter().map(|t| hex(t)).collect::<Vec<_>>().join(";"),
            d.clusters.join("|"),
            d.trie,
            d.minimized,
            d.first_ast,
            d.final_ast,
            hex(&d.output)
        ),
        Err(e) => format!("P {}", panic_site(&panic_msg(e))),
    }
}
