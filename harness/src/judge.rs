// Property judges: given an input and what the *implementation* returned, decide with the
// oracle whether the property holds on that input. Nothing here consults the Lean model.

use crate::oracle::{self, LangCmp};
use crate::util::*;
use regex_syntax::ast::{self, Ast};
use std::collections::{BTreeMap, BTreeSet, HashMap};

#[derive(Clone, Debug, PartialEq, Eq, Hash, PartialOrd, Ord)]
pub enum Kind {
    Miss,     // a string that must be accepted is rejected
    Over,     // a string that must be rejected is accepted
    Invalid,  // the pattern does not compile
    Panic,    // the call panicked
    Span,     // search returned the wrong span
    Syntax,   // the text of the pattern has the wrong shape
    Differ,   // two outputs that must be equal differ
    Stage,    // a stage snapshot violates its contract
    Other,
    Oracle,   // the oracle itself could not decide (counted, never reported as a violation)
}

#[derive(Clone, Debug)]
pub struct Fail {
    pub kind: Kind,
    pub what: String,
    pub witness: Option<String>,
}

impl Fail {
    pub fn new(kind: Kind, what: String, witness: Option<String>) -> Self {
        Fail { kind, what, witness }
    }
}

pub fn strip_sgr(s: &str) -> String {
    let b: Vec<char> = s.chars().collect();
    let mut out = String::new();
    let mut i = 0;
    while i < b.len() {
        if b[i] == '\u{1b}' && i + 1 < b.len() && b[i + 1] == '[' {
            let mut j = i + 2;
            while j < b.len() && (b[j].is_ascii_digit() || b[j] == ';') {
                j += 1;
            }
            if j < b.len() && b[j] == 'm' {
                i = j + 1;
                continue;
            }
        }
        out.push(b[i]);
        i += 1;
    }
    out
}

pub fn for_regex_crate(cfg: Cfg) -> bool {
    !cfg.has(BIT_SUR) && !cfg.has(BIT_COLOR)
}

// ------------------------------------------------------------------ C07 / validity
pub fn judge_valid(case: &Case, built: &Built) -> Vec<Fail> {
    match built {
        Built::Panic(m) => vec![Fail::new(Kind::Panic, format!("build() panicked: {}", m), None)],
        Built::Ok(out) => {
            if for_regex_crate(case.cfg) {
                if let Err(e) = oracle::compile(out) {
                    return vec![Fail::new(
                        Kind::Invalid,
                        format!("output {:?} rejected by the regex crate: {}", out, e.lines().last().unwrap_or("")),
                        None,
                    )];
                }
            }
            vec![]
        }
    }
}

// ------------------------------------------------------------------ C01 soundness
pub fn judge_sound(case: &Case, built: &Built) -> Vec<Fail> {
    let mut fails = judge_valid(case, built);
    if !fails.is_empty() || !for_regex_crate(case.cfg) {
        return fails;
    }
    let out = built.ok().unwrap();
    let re = match oracle::compile(&oracle::full(out)) {
        Ok(r) => r,
        Err(e) => return vec![Fail::new(Kind::Invalid, format!("anchored form of {:?} rejected: {}", out, e), None)],
    };
    for tc in &case.tcs {
        if !re.is_match(tc) {
            fails.push(Fail::new(
                Kind::Miss,
                format!("output {:?} does not match test case {:?}", out, tc),
                Some(tc.clone()),
            ));
        }
    }
    fails
}

// ------------------------------------------------------------------ language equality
pub fn judge_lang_eq(out: &str, spec: &str, spec_name: &str) -> Vec<Fail> {
    match oracle::compare_full(out, spec) {
        LangCmp::Equal => vec![],
        LangCmp::Differ(w, in_out) => {
            if in_out {
                vec![Fail::new(
                    Kind::Over,
                    format!("output {:?} accepts {:?} which {} does not", out, w, spec_name),
                    Some(w),
                )]
            } else {
                vec![Fail::new(
                    Kind::Miss,
                    format!("output {:?} rejects {:?} which {} accepts", out, w, spec_name),
                    Some(w),
                )]
            }
        }
        LangCmp::Error(e) => vec![Fail::new(Kind::Oracle, format!("oracle could not compare {:?} with {}: {}", out, spec_name, e), None)],
    }
}

/// C02/C03/C04: the specified language for the class and case flags of the configuration.
pub fn spec_for(classes: &oracle::Classes, case: &Case) -> String {
    let body = classes.spec_pattern(case.cfg.bits & CLASS_MASK, &case.tcs);
    if case.cfg.has(BIT_CI) {
        format!("(?i){}", body)
    } else {
        body
    }
}

pub fn judge_exact(classes: &oracle::Classes, case: &Case, built: &Built) -> Vec<Fail> {
    let fails = judge_valid(case, built);
    if !fails.is_empty() || !for_regex_crate(case.cfg) {
        return fails;
    }
    judge_lang_eq(built.ok().unwrap(), &spec_for(classes, case), "the specified language")
}

// ------------------------------------------------------------------ C06 syntax facts
fn walk<'a>(a: &'a Ast, f: &mut dyn FnMut(&'a Ast)) {
    f(a);
    match a {
        Ast::Repetition(r) => walk(&r.ast, f),
        Ast::Group(g) => walk(&g.ast, f),
        Ast::Alternation(x) => x.asts.iter().for_each(|y| walk(y, f)),
        Ast::Concat(x) => x.asts.iter().for_each(|y| walk(y, f)),
        _ => {}
    }
}

pub fn parse_ast(pat: &str) -> Result<Ast, String> {
    ast::parse::Parser::new().parse(pat).map_err(|e| e.to_string())
}

pub fn judge_groups_and_flags(case: &Case, out: &str) -> Vec<Fail> {
    let mut fails = vec![];
    let expected_prefix = match (case.cfg.has(BIT_CI), case.cfg.has(BIT_VERB)) {
        (true, true) => "(?ix)",
        (true, false) => "(?i)",
        (false, true) => "(?x)",
        (false, false) => "",
    };
    if !out.starts_with(expected_prefix) || (expected_prefix.is_empty() && out.starts_with("(?i") || expected_prefix.is_empty() && out.starts_with("(?x")) {
        fails.push(Fail::new(Kind::Syntax, format!("output {:?} does not start with the flag group {:?}", out, expected_prefix), None));
    }
    if !case.cfg.has(BIT_CI) && out.starts_with("(?i") {
        fails.push(Fail::new(Kind::Syntax, format!("output {:?} carries a case-insensitive flag that was not requested", out), None));
    }
    match parse_ast(out) {
        Err(e) => fails.push(Fail::new(Kind::Invalid, format!("output {:?} does not parse: {}", out, e.lines().last().unwrap_or("")), None)),
        Ok(a) => {
            let (mut cap, mut noncap) = (0, 0);
            walk(&a, &mut |n| {
                if let Ast::Group(g) = n {
                    match g.kind {
                        ast::GroupKind::NonCapturing(_) => noncap += 1,
                        _ => cap += 1,
                    }
                }
            });
            if case.cfg.has(BIT_CAP) && noncap > 0 {
                fails.push(Fail::new(Kind::Syntax, format!("capturing groups requested but {:?} has {} non-capturing group(s)", out, noncap), None));
            }
            if !case.cfg.has(BIT_CAP) && cap > 0 {
                fails.push(Fail::new(Kind::Syntax, format!("capturing groups not requested but {:?} has {} capturing group(s)", out, cap), None));
            }
        }
    }
    fails
}

// ------------------------------------------------------------------ C13 thresholds
fn span_of(a: &Ast) -> u64 {
    match a {
        Ast::Empty(_) | Ast::Flags(_) | Ast::Assertion(_) => 0,
        Ast::Literal(_) | Ast::Dot(_) | Ast::ClassUnicode(_) | Ast::ClassPerl(_) | Ast::ClassBracketed(_) => 1,
        Ast::Group(g) => span_of(&g.ast),
        Ast::Concat(c) => c.asts.iter().map(span_of).sum(),
        Ast::Alternation(x) => x.asts.iter().map(span_of).min().unwrap_or(0),
        Ast::Repetition(r) => {
            let n = match &r.op.kind {
                ast::RepetitionKind::Range(ast::RepetitionRange::Exactly(n)) => *n as u64,
                ast::RepetitionKind::Range(ast::RepetitionRange::Bounded(m, _)) => *m as u64,
                ast::RepetitionKind::Range(ast::RepetitionRange::AtLeast(m)) => *m as u64,
                ast::RepetitionKind::OneOrMore => 1,
                _ => 0,
            };
            n * span_of(&r.ast)
        }
    }
}

pub fn judge_thresholds(case: &Case, out: &str) -> Vec<Fail> {
    let mut fails = vec![];
    let a = match parse_ast(out) {
        Ok(a) => a,
        Err(e) => return vec![Fail::new(Kind::Invalid, format!("output {:?} does not parse: {}", out, e.lines().last().unwrap_or("")), None)],
    };
    walk(&a, &mut |n| {
        if let Ast::Repetition(r) = n {
            if let ast::RepetitionKind::Range(range) = &r.op.kind {
                if !case.cfg.has(BIT_REP) {
                    fails.push(Fail::new(Kind::Syntax, format!("repetition conversion is off but {:?} contains a counted quantifier", out), None));
                    return;
                }
                let upper = match range {
                    ast::RepetitionRange::Exactly(n) => *n,
                    ast::RepetitionRange::Bounded(_, n) => *n,
                    ast::RepetitionRange::AtLeast(_) => u32::MAX,
                };
                if upper <= case.cfg.min_rep {
                    fails.push(Fail::new(Kind::Syntax, format!("quantifier with upper count {} in {:?} although minimum repetitions is {}", upper, out, case.cfg.min_rep), None));
                }
                let unit = span_of(&r.ast);
                if unit < case.cfg.min_len as u64 {
                    fails.push(Fail::new(Kind::Syntax, format!("quantified unit of {} character(s) in {:?} although minimum substring length is {}", unit, out, case.cfg.min_len), None));
                }
            }
        }
    });
    fails
}

// ------------------------------------------------------------------ C08 anchors
pub fn body_after_flags(out: &str) -> &str {
    for p in ["(?ix)\n", "(?x)\n", "(?i)"] {
        if let Some(rest) = out.strip_prefix(p) {
            return rest;
        }
    }
    out
}

pub fn judge_anchor_text(case: &Case, out_plain: &str) -> Vec<Fail> {
    let mut fails = vec![];
    let body = body_after_flags(out_plain);
    let has_caret = body.starts_with('^');
    let trailing_backslashes = body.chars().rev().skip(1).take_while(|c| *c == '\\').count();
    let has_dollar = body.ends_with('$') && trailing_backslashes % 2 == 0;
    if has_caret == case.cfg.has(BIT_NO_START) {
        fails.push(Fail::new(Kind::Syntax, format!("start anchor {} but output is {:?}", if has_caret { "disabled" } else { "requested" }, out_plain), None));
    }
    if has_dollar == case.cfg.has(BIT_NO_END) {
        fails.push(Fail::new(Kind::Syntax, format!("end anchor {} but output is {:?}", if has_dollar { "disabled" } else { "requested" }, out_plain), None));
    }
    fails
}

pub fn judge_search_spans(case: &Case, out: &str) -> Vec<Fail> {
    let re = match oracle::compile(out) {
        Ok(r) => r,
        Err(e) => return vec![Fail::new(Kind::Invalid, format!("output {:?} rejected: {}", out, e.lines().last().unwrap_or("")), None)],
    };
    let mut fails = vec![];
    for tc in &case.tcs {
        let got = re.find(tc).map(|m| (m.start(), m.end()));
        if got != Some((0, tc.len())) {
            // the same search on the regex crate's reference engine (PikeVM: no prefilter, no reverse searches)
            let reference = oracle::pikevm_find(out, tc);
            let note = if reference == Some(Some((0, tc.len()))) {
                "; the reference engine (PikeVM) of the same crate finds the whole test case: the default (meta) engine is not leftmost-first here"
            } else {
                ""
            };
            fails.push(Fail::new(
                Kind::Span,
                format!("searching {:?} with {:?} gives {:?}, not the whole test case (0, {}){}", tc, out, got, tc.len(), note),
                Some(tc.clone()),
            ));
        }
    }
    fails
}

// ------------------------------------------------------------------ C11 escaping
/// Re-pairs surrogate escapes: `\u{d83d}\u{dca9}` -> `\u{1f4a9}`; everything else unchanged.
pub fn decode_surrogates(out: &str) -> String {
    let re = regex::Regex::new(r"\\u\{(d[89ab][0-9a-f]{2})\}\\u\{(d[c-f][0-9a-f]{2})\}").unwrap();
    re.replace_all(out, |c: &regex::Captures| {
        let hi = u32::from_str_radix(&c[1], 16).unwrap();
        let lo = u32::from_str_radix(&c[2], 16).unwrap();
        format!("\\u{{{:x}}}", 0x10000 + ((hi - 0xd800) << 10) + (lo - 0xdc00))
    })
    .to_string()
}

pub fn judge_escape_text(case: &Case, out: &str) -> Vec<Fail> {
    let mut fails = vec![];
    if let Some(c) = out.chars().find(|c| !c.is_ascii()) {
        fails.push(Fail::new(Kind::Syntax, format!("escaped output {:?} contains non-ASCII U+{:04X}", out, c as u32), None));
    }
    let esc = regex::Regex::new(r"\\u\{([0-9a-fA-F]*)\}").unwrap();
    let mut prev_high = false;
    for c in esc.captures_iter(out) {
        let v = u32::from_str_radix(&c[1], 16).unwrap_or(u32::MAX);
        if case.cfg.has(BIT_SUR) {
            if v > 0xffff {
                fails.push(Fail::new(Kind::Syntax, format!("surrogate pairs requested but {:?} contains \\u{{{:x}}}", out, v), None));
            }
            let is_high = (0xd800..0xdc00).contains(&v);
            let is_low = (0xdc00..0xe000).contains(&v);
            if is_low != prev_high {
                fails.push(Fail::new(Kind::Syntax, format!("unpaired surrogate escape in {:?}", out), None));
            }
            prev_high = is_high;
        } else if (0xd800..0xe000).contains(&v) || v > 0x10ffff || v < 0x80 {
            fails.push(Fail::new(Kind::Syntax, format!("ill-formed escape \\u{{{}}} in {:?}", &c[1], out), None));
        }
    }
    if prev_high {
        fails.push(Fail::new(Kind::Syntax, format!("dangling high surrogate escape in {:?}", out), None));
    }
    fails
}

// ------------------------------------------------------------------ C16 stage snapshots
#[derive(Debug, Clone)]
pub struct Snapshot {
    pub nodes: usize,
    pub init: usize,
    pub finals: BTreeSet<usize>,
    pub edges: Vec<(usize, usize, String)>,
}

pub fn parse_snapshot(s: &str) -> Option<Snapshot> {
    let mut parts = s.splitn(5, ' ');
    let n = parts.next()?.strip_prefix('N')?.parse().ok()?;
    let i = parts.next()?.strip_prefix('I')?.parse().ok()?;
    let f = parts.next()?.strip_prefix('F')?;
    let e = parts.next()?.strip_prefix('E')?;
    let finals = if f.is_empty() { BTreeSet::new() } else { f.split(',').map(|x| x.parse().ok()).collect::<Option<BTreeSet<usize>>>()? };
    let mut edges = vec![];
    if !e.is_empty() {
        for ed in e.split('/') {
            let (st, g) = ed.split_once(':')?;
            let (s0, t0) = st.split_once('>')?;
            edges.push((s0.parse().ok()?, t0.parse().ok()?, g.to_string()));
        }
    }
    Some(Snapshot { nodes: n, init: i, finals, edges })
}

/// `chars~min~max{nested}` -> (chars, min, max)
pub fn split_label(g: &str) -> Option<(String, u32, u32)> {
    let head = g.split('{').next()?;
    let mut it = head.split('~');
    let c = it.next()?.to_string();
    let lo = it.next()?.parse().ok()?;
    let hi = it.next()?.parse().ok()?;
    Some((c, lo, hi))
}

impl Snapshot {
    /// All accepted sequences of (characters, count), a label {m,n} standing for every count m..=n; None if there are too many.
    pub fn expanded(&self, cap: usize) -> Option<BTreeSet<Vec<(String, u32)>>> {
        let mut out = BTreeSet::new();
        let mut stack: Vec<(usize, Vec<(String, u32)>)> = vec![(self.init, vec![])];
        let mut steps = 0usize;
        while let Some((s, path)) = stack.pop() {
            steps += 1;
            if steps > cap || path.len() > self.nodes + 1 {
                return None;
            }
            if self.finals.contains(&s) {
                out.insert(path.clone());
            }
            for e in self.out_edges(s) {
                let (c, lo, hi) = split_label(&e.2)?;
                if hi < lo || hi - lo > 64 {
                    return None;
                }
                for k in lo..=hi {
                    let mut p = path.clone();
                    p.push((c.clone(), k));
                    stack.push((e.1, p));
                }
            }
        }
        Some(out)
    }
    fn out_edges(&self, s: usize) -> Vec<&(usize, usize, String)> {
        self.edges.iter().filter(|e| e.0 == s).collect()
    }
    /// All accepted label sequences (the automata here are acyclic); None if there are too many.
    pub fn language(&self, cap: usize) -> Option<BTreeSet<Vec<String>>> {
        let mut out = BTreeSet::new();
        let mut stack: Vec<(usize, Vec<String>)> = vec![(self.init, vec![])];
        let mut steps = 0usize;
        while let Some((s, path)) = stack.pop() {
            steps += 1;
            if steps > cap || path.len() > self.nodes + 1 {
                return None;
            }
            if self.finals.contains(&s) {
                out.insert(path.clone());
            }
            for e in self.out_edges(s) {
                let mut p = path.clone();
                p.push(e.2.clone());
                stack.push((e.1, p));
            }
        }
        Some(out)
    }
    pub fn is_deterministic(&self) -> bool {
        let mut seen = BTreeSet::new();
        self.edges.iter().all(|e| seen.insert((e.0, e.2.clone())))
    }
    /// Number of classes of the coarsest stable partition (Moore refinement) over the reachable states.
    pub fn minimal_state_count(&self) -> usize {
        let mut reach = BTreeSet::new();
        let mut st = vec![self.init];
        while let Some(s) = st.pop() {
            if reach.insert(s) {
                for e in self.out_edges(s) {
                    st.push(e.1);
                }
            }
        }
        let mut class: HashMap<usize, usize> = reach.iter().map(|s| (*s, self.finals.contains(s) as usize)).collect();
        loop {
            let mut sig: BTreeMap<(usize, Vec<(String, usize)>), usize> = BTreeMap::new();
            let mut next = HashMap::new();
            for s in &reach {
                let mut tr: Vec<(String, usize)> = self.out_edges(*s).iter().map(|e| (e.2.clone(), class[&e.1])).collect();
                tr.sort();
                tr.dedup();
                let key = (class[s], tr);
                let id = sig.len();
                let id = *sig.entry(key).or_insert(id);
                next.insert(*s, id);
            }
            let before: BTreeSet<usize> = class.values().copied().collect();
            let after: BTreeSet<usize> = next.values().copied().collect();
            class = next;
            if before.len() == after.len() {
                return after.len();
            }
        }
    }
    pub fn reachable_count(&self) -> usize {
        let mut reach = BTreeSet::new();
        let mut st = vec![self.init];
        while let Some(s) = st.pop() {
            if reach.insert(s) {
                for e in self.out_edges(s) {
                    st.push(e.1);
                }
            }
        }
        reach.len()
    }
}

/// C16 on the implementation's own snapshots.
pub fn judge_stages(case: &Case, dump: &grex::verif_hooks::StageDump) -> Vec<Fail> {
    let mut fails = vec![];
    let (trie, min) = match (parse_snapshot(&dump.trie), parse_snapshot(&dump.minimized)) {
        (Some(a), Some(b)) => (a, b),
        _ => return vec![Fail::new(Kind::Oracle, "snapshot could not be parsed".into(), None)],
    };
    let words: BTreeSet<Vec<String>> = dump
        .clusters
        .iter()
        .map(|c| if c == "-" { vec![] } else { c.split(' ').map(|g| g.to_string()).collect() })
        .collect();
    let simple = !case.cfg.has(BIT_REP);
    let Some(tl) = trie.language(200_000) else { return fails };
    if simple && tl != words {
        let w = tl.symmetric_difference(&words).next().cloned();
        fails.push(Fail::new(Kind::Stage, format!("trie language differs from the converted test cases at {:?}", w), None));
    }
    if !simple {
        // with -r a widened edge {m,n} stands for the counts m..=n: every converted test case must be one of the count
        // sequences the trie stands for, and the minimised automaton must stand for exactly the trie's count sequences
        if let (Some(te), Some(me)) = (trie.expanded(100_000), min.expanded(100_000)) {
            for w in &words {
                let seq: Option<Vec<(String, u32)>> = w.iter().map(|g| split_label(g).map(|(c, lo, _)| (c, lo))).collect();
                if let Some(seq) = seq {
                    if !te.contains(&seq) {
                        fails.push(Fail::new(Kind::Stage, format!("the trie does not stand for the converted test case {:?}", w), Some(w.join(" "))));
                        break;
                    }
                }
            }
            if te != me {
                let w = te.symmetric_difference(&me).next().cloned().unwrap_or_default();
                let shown: Vec<String> = w.iter().map(|(c, k)| format!("{}~{}", c, k)).collect();
                fails.push(Fail::new(
                    Kind::Stage,
                    format!("minimised automaton and trie stand for different count sequences: {:?} is in {} only", shown, if te.contains(&w) { "the trie" } else { "the minimised automaton" }),
                    Some(shown.join(" ")),
                ));
            }
        }
    }
    let Some(ml) = min.language(200_000) else { return fails };
    if simple && ml != tl {
        let w = ml.symmetric_difference(&tl).next().cloned();
        fails.push(Fail::new(Kind::Stage, format!("minimised automaton and trie differ at label sequence {:?}", w), Some(w.map(|x| x.join(" ")).unwrap_or_default())));
    }
    if simple {
        if !min.is_deterministic() {
            fails.push(Fail::new(Kind::Stage, "minimised automaton has two equally labelled edges out of one state".into(), None));
        }
        let k = min.minimal_state_count();
        if k != min.reachable_count() || min.reachable_count() != min.nodes {
            fails.push(Fail::new(
                Kind::Stage,
                format!("minimised automaton has {} states ({} reachable) but {} right languages", min.nodes, min.reachable_count(), k),
                None,
            ));
        }
    }
    fails
}
