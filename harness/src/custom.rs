// Streams that are not plain "build once and judge": determinism (C10), the CLI (C12),
// the Python extension (C14) and the generated-API comparison (C14, C17).

use crate::check::*;
use crate::gen;
use crate::judge::{Fail, Kind};
use crate::model;
use crate::util::*;
use std::io::Write;
use std::process::{Command, Stdio};

fn mask(bits: &[u32]) -> u32 {
    bits.iter().fold(0, |a, b| a | (1 << b))
}

// ------------------------------------------------------------------------------------ C10
/// One determinism experiment: the reference is a fresh builder with the settings applied once in
/// canonical order; every variant must return the same string.
pub fn c10_variants(case: &Case, rng_seed: u64) -> Vec<Fail> {
    let mut rng = Rng(rng_seed);
    let mut fails = vec![];
    let reference = build_public(case);
    let Built::Ok(ref_out) = &reference else {
        return vec![Fail::new(Kind::Panic, format!("reference build panicked: {:?}", reference), None)];
    };
    let fails_cell = std::cell::RefCell::new(vec![]);
    let check = |name: &str, got: Built| {
        if got != reference {
            fails_cell.borrow_mut().push(Fail::new(
                Kind::Differ,
                format!("{}: got {:?}, a fresh builder with the same set and settings returns {:?}", name, got, ref_out),
                None,
            ));
        }
    };
    // order and duplicates of the input list
    let mut shuffled = case.tcs.clone();
    for i in (1..shuffled.len()).rev() {
        shuffled.swap(i, rng.below(i + 1));
    }
    if !shuffled.is_empty() {
        let d = shuffled[rng.below(shuffled.len())].clone();
        shuffled.insert(rng.below(shuffled.len() + 1), d);
    }
    check("shuffled list with a duplicate", build_public(&Case { tcs: shuffled.clone(), cfg: case.cfg }));
    let mut rev = case.tcs.clone();
    rev.reverse();
    check("reversed list", build_public(&Case { tcs: rev, cfg: case.cfg }));
    // repeated build, clone, build in between, setters in another order
    let r = quietly(|| {
        let mut b = grex::RegExpBuilder::from(&case.tcs);
        apply_setters(&mut b, case.cfg);
        let first = b.build();
        let second = b.build();
        let mut c = b.clone();
        let third = c.build();
        let fourth = b.build();
        (first, second, third, fourth)
    });
    match r {
        Ok((a, b, c, d)) => {
            check("first build() of a builder", Built::Ok(a));
            check("second build() on the same builder", Built::Ok(b));
            check("build() on a clone taken after two builds", Built::Ok(c));
            check("build() after the clone was built", Built::Ok(d));
        }
        Err(e) => fails_push_panic(&mut fails_cell.borrow_mut(), "repeated build", e),
    }
    let r = quietly(|| {
        let mut b = grex::RegExpBuilder::from(&shuffled);
        // reverse order of setters, with a build() in the middle and duplicated calls
        let cfg = case.cfg;
        b.with_minimum_substring_length(cfg.min_len);
        b.with_minimum_repetitions(7);
        if cfg.has(BIT_COLOR) { b.with_syntax_highlighting(); }
        if cfg.has(BIT_NO_END) { b.without_end_anchor(); }
        if cfg.has(BIT_NO_START) { b.without_start_anchor(); }
        if cfg.has(BIT_VERB) { b.with_verbose_mode(); }
        let _ = b.build();
        if cfg.has(BIT_ESC) {
            b.with_escaping_of_non_ascii_chars(!cfg.has(BIT_SUR));
            b.with_escaping_of_non_ascii_chars(cfg.has(BIT_SUR));
        }
        if cfg.has(BIT_CAP) { b.with_capturing_groups(); }
        if cfg.has(BIT_CI) { b.with_case_insensitive_matching(); }
        if cfg.has(BIT_REP) { b.with_conversion_of_repetitions(); }
        let _ = b.build();
        if cfg.has(BIT_NON_WORD) { b.with_conversion_of_non_words(); }
        if cfg.has(BIT_WORD) { b.with_conversion_of_words(); b.with_conversion_of_words(); }
        if cfg.has(BIT_NON_SPACE) { b.with_conversion_of_non_whitespace(); }
        if cfg.has(BIT_SPACE) { b.with_conversion_of_whitespace(); }
        if cfg.has(BIT_NON_DIGIT) { b.with_conversion_of_non_digits(); }
        if cfg.has(BIT_DIGIT) { b.with_conversion_of_digits(); }
        b.with_minimum_repetitions(cfg.min_rep);
        (grex::verif_hooks::config_of(&b), b.build())
    });
    match r {
        Ok((cfg_seen, out)) => {
            if cfg_seen != (case.cfg.bits, case.cfg.min_rep, case.cfg.min_len) {
                fails_cell.borrow_mut().push(Fail::new(Kind::Differ, format!("accumulated settings {:?} differ from the requested {:?}", cfg_seen, (case.cfg.bits, case.cfg.min_rep, case.cfg.min_len)), None));
            }
            check("setters in reverse order with build() calls in between", Built::Ok(out));
        }
        Err(e) => fails_push_panic(&mut fails_cell.borrow_mut(), "history", e),
    }
    // the thread a build runs on and what that thread built before must not show (round 16, C10-16: a thread-local
    // memo of class conversions keyed by the code point alone): the same build on a fresh thread, and on a fresh
    // thread after a build of the same test cases under each of three other sets of class options
    {
        let c1 = Case { tcs: case.tcs.clone(), cfg: case.cfg };
        match std::thread::spawn(move || build_public(&c1)).join() {
            Ok(got) => check("build() on a fresh thread", got),
            Err(e) => fails_push_panic(&mut fails_cell.borrow_mut(), "fresh thread", e),
        }
        for other_mask in [0x3fu32, 0x15, 0x2a] {
            let mut other = case.cfg;
            other.bits = (other.bits & !0x3f) | ((other.bits ^ other_mask) & 0x3f);
            if other.bits == case.cfg.bits { continue; }
            let c0 = Case { tcs: case.tcs.clone(), cfg: other };
            let c1 = Case { tcs: case.tcs.clone(), cfg: case.cfg };
            match std::thread::spawn(move || { let _ = build_public(&c0); build_public(&c1) }).join() {
                Ok(got) => check("build() on a thread that first built the same test cases under other class options", got),
                Err(e) => fails_push_panic(&mut fails_cell.borrow_mut(), "thread history", e),
            }
        }
    }
    // the hook route (fields set directly) must agree with the setter route
    check("configuration set field by field", build_impl(case));
    fails.extend(fails_cell.into_inner());
    fails
}

fn fails_push_panic(fails: &mut Vec<Fail>, what: &str, e: Box<dyn std::any::Any + Send>) {
    fails.push(Fail::new(Kind::Panic, format!("{} panicked: {}", what, panic_msg(e)), None));
}

/// hash-order sensitive family: equivalent states reached through different class-converted prefixes
pub fn c10_hash_family(rng: &mut Rng, n: usize) -> Vec<Case> {
    let mut out = vec![];
    let sufs = ["xp", "yq", "zr", "ab", "ba"];
    for _ in 0..n {
        let k = 2 + rng.below(2);
        let chosen: Vec<&str> = (0..k).map(|i| sufs[(i + rng.below(2)) % sufs.len()]).collect();
        let mut tcs = vec![];
        for (pi, pre) in ["a", "b", "c"].iter().enumerate().take(2 + rng.below(2)) {
            for (si, s) in chosen.iter().enumerate() {
                tcs.push(format!("{}{}{}", pre, (pi + si * 2 + rng.below(3)) % 10, s));
            }
        }
        let bits = mask(&[BIT_DIGIT]) | if rng.chance(1, 3) { mask(&[BIT_VERB]) } else { 0 };
        out.push(Case { tcs, cfg: Cfg::new(bits) });
    }
    out.push(Case { tcs: ["a1xp", "a2yq", "b1yq", "b2xp"].iter().map(|s| s.to_string()).collect(), cfg: Cfg::new(mask(&[BIT_DIGIT])) });
    out
}

pub fn run_c10(ctx: &Ctx, rng: &mut Rng, tier: Tier) -> (Outcome, Vec<Case>) {
    let quick = tier == Tier::Quick;
    let mut pool: Vec<Vec<String>> = gen::subsets(&gen::words(&["a", "b"], 3), if quick { 2 } else { 3 });
    for atoms in [gen::META, gen::CLUSTERS, gen::CASE, gen::CLASSY, gen::WS] {
        for _ in 0..(if quick { 120 } else { 1500 }) {
            pool.push(gen::random_list(rng, atoms));
        }
    }
    let flags = gen::flag_rows(rng, &[0, 1, 2, 3, 4, 5, 6, 7, 8, 9, 10, 11, 12, 13, 14]);
    let mut cases = vec![];
    for (k, t) in pool.iter().enumerate() {
        for j in 0..(if quick { 3 } else { 8 }) {
            let mut cfg = Cfg::new(gen::normalise_flags(flags[(k * 5 + j * 3) % flags.len()]));
            if cfg.has(BIT_REP) {
                cfg.min_rep = 1 + rng.below(3) as u32;
                cfg.min_len = 1 + rng.below(3) as u32;
            }
            cases.push(Case { tcs: t.clone(), cfg });
        }
    }
    // mixed-case families with case-insensitive matching: the stored list is rewritten by build()
    for _ in 0..(if quick { 300 } else { 3000 }) {
        let n = 2 + rng.below(3);
        let len = 1 + rng.below(3);
        let letters = ['a', 'b', 'x', 'y', 'z', 'A', 'B', 'X', 'Y', 'Z', '\u{e9}', '\u{c9}', '\u{3a3}', '\u{3c3}'];
        let tcs: Vec<String> = (0..n).map(|_| (0..len).map(|_| *rng.pick(&letters)).collect::<String>()).collect();
        let extra = [0u32, mask(&[BIT_CAP]), mask(&[BIT_VERB]), mask(&[BIT_NO_START, BIT_NO_END]), mask(&[BIT_WORD])];
        cases.push(Case { tcs, cfg: Cfg::new(mask(&[BIT_CI]) | extra[rng.below(extra.len())]) });
    }
    let family = c10_hash_family(rng, if quick { 60 } else { 600 });
    cases.extend(family.iter().cloned());
    let seed = ctx.seed;
    let judge = move |c: &Case, _b: &Built| -> Vec<Fail> { c10_variants(c, seed ^ (c.tcs.len() as u64 * 7919 + c.cfg.bits as u64)) };
    let mut o = run_cases(ctx, &cases, &judge, false);
    // threads: every thread creates its own hash sets (fresh RandomState per HashSet::new())
    let sample: Vec<Case> = family.iter().take(if quick { 24 } else { 200 }).cloned().collect();
    let reference: Vec<Built> = sample.iter().map(build_impl).collect();
    let per_thread: Vec<Vec<Built>> = par_map(&(0..16).collect::<Vec<_>>(), 16, |_| sample.iter().map(build_impl).collect());
    for t in &per_thread {
        for (i, b) in t.iter().enumerate() {
            o.evaluations += 1;
            if *b != reference[i] {
                o.oracle_fails.push((sample[i].clone(), Fail::new(Kind::Differ, format!("another thread returned {:?}, this thread {:?}", b, reference[i]), None)));
            }
        }
    }
    // processes: fresh per-process hash seeds
    let exe = std::env::current_exe().unwrap();
    let procs = if quick { 6 } else { 24 };
    let take = if quick { 12 } else { 100 };
    let reqs: Vec<String> = sample.iter().take(take).map(|c| model::request('B', c)).collect();
    for p in 0..procs {
        let mut child = Command::new(&exe).arg("serve").stdin(Stdio::piped()).stdout(Stdio::piped()).spawn().expect("spawn self");
        {
            let mut si = child.stdin.take().unwrap();
            for r in &reqs {
                let _ = writeln!(si, "{}", r);
            }
        }
        let out = child.wait_with_output().expect("child");
        let lines: Vec<String> = String::from_utf8_lossy(&out.stdout).lines().map(|s| s.to_string()).collect();
        for (i, l) in lines.iter().enumerate() {
            o.evaluations += 1;
            let expect = model::impl_response(&reference[i]);
            if *l != expect {
                o.oracle_fails.push((sample[i].clone(), Fail::new(Kind::Differ, format!("process #{} returned {}, this process {}", p, l, expect), None)));
            }
        }
        if lines.len() != reqs.len() {
            o.notes.push(format!("process #{} answered {} of {} requests", p, lines.len(), reqs.len()));
        }
    }
    o.bump("thread_builds", 16 * sample.len());
    o.bump("process_builds", procs * reqs.len());
    (o, cases)
}

/// `gv serve`: answers B requests with the implementation (used for the fresh-process runs)
pub fn serve() {
    silence_panics();
    let stdin = std::io::stdin();
    let mut line = String::new();
    while stdin.read_line(&mut line).map(|n| n > 0).unwrap_or(false) {
        let parts: Vec<&str> = line.trim_end().split(' ').collect();
        if parts.len() >= 5 {
            let tcs: Vec<String> = if parts[4] == "!" { vec![] } else { parts[4].split(';').filter_map(unhex).collect() };
            let c = Case { tcs, cfg: Cfg { bits: parts[1].parse().unwrap_or(0), min_rep: parts[2].parse().unwrap_or(1), min_len: parts[3].parse().unwrap_or(1) } };
            println!("{}", model::impl_response(&build_impl(&c)));
        }
        line.clear();
    }
}

// ------------------------------------------------------------------------------------ C12
pub struct CliRun {
    pub code: Option<i32>,
    pub stdout: Vec<u8>,
    pub stderr: Vec<u8>,
}

pub fn run_cli(bin: &str, args: &[String], stdin: Option<&[u8]>) -> CliRun {
    let mut cmd = Command::new(bin);
    cmd.args(args).stdout(Stdio::piped()).stderr(Stdio::piped()).env_remove("RUST_BACKTRACE");
    cmd.stdin(if stdin.is_some() { Stdio::piped() } else { Stdio::null() });
    let mut child = cmd.spawn().expect("spawn grex");
    if let Some(data) = stdin {
        let mut si = child.stdin.take().unwrap();
        let _ = si.write_all(data);
    }
    let out = child.wait_with_output().expect("wait grex");
    CliRun { code: out.status.code(), stdout: out.stdout, stderr: out.stderr }
}

pub fn cli_flags(cfg: Cfg, split_anchors: bool) -> Vec<String> {
    let mut a = vec![];
    let names = [(BIT_DIGIT, "--digits"), (BIT_NON_DIGIT, "--non-digits"), (BIT_SPACE, "--spaces"), (BIT_NON_SPACE, "--non-spaces"),
        (BIT_WORD, "--words"), (BIT_NON_WORD, "--non-words"), (BIT_REP, "--repetitions"), (BIT_CI, "--ignore-case"),
        (BIT_CAP, "--capture-groups"), (BIT_ESC, "--escape"), (BIT_SUR, "--with-surrogates"), (BIT_VERB, "--verbose"), (BIT_COLOR, "--colorize")];
    let shorts = [(BIT_DIGIT, "-d"), (BIT_NON_DIGIT, "-D"), (BIT_SPACE, "-s"), (BIT_NON_SPACE, "-S"), (BIT_WORD, "-w"), (BIT_NON_WORD, "-W"),
        (BIT_REP, "-r"), (BIT_CI, "-i"), (BIT_CAP, "-g"), (BIT_ESC, "-e"), (BIT_VERB, "-x"), (BIT_COLOR, "-c")];
    for (b, n) in names {
        if cfg.has(b) {
            let short = shorts.iter().find(|(sb, _)| *sb == b).map(|(_, s)| *s);
            a.push(if split_anchors && short.is_some() { short.unwrap().to_string() } else { n.to_string() });
        }
    }
    if cfg.has(BIT_NO_START) && cfg.has(BIT_NO_END) && !split_anchors {
        a.push("--no-anchors".into());
    } else {
        if cfg.has(BIT_NO_START) { a.push("--no-start-anchor".into()); }
        if cfg.has(BIT_NO_END) { a.push("--no-end-anchor".into()); }
    }
    if cfg.min_rep != 1 || split_anchors { a.push("--min-repetitions".into()); a.push(cfg.min_rep.to_string()); }
    if cfg.min_len != 1 || split_anchors { a.push("--min-substring-length".into()); a.push(cfg.min_len.to_string()); }
    a
}

pub fn run_c12(ctx: &Ctx, rng: &mut Rng, tier: Tier, bin: &str) -> Outcome {
    let quick = tier == Tier::Quick;
    let mut o = Outcome::default();
    o.rule = "a case is (test cases, settings, channel, line ending, final newline); non-trivial = the CLI printed a pattern with | [ ( ? { or \\".into();
    if !std::path::Path::new(bin).exists() {
        o.notes.push(format!("CLI binary {} missing", bin));
        return o;
    }
    let dir = std::env::temp_dir().join(format!("gv_c12_{}", std::process::id()));
    let _ = std::fs::create_dir_all(&dir);
    let mut pool: Vec<Vec<String>> = vec![];
    let alph: Vec<&str> = vec!["a", "b", "1", " ", ".", "\u{e9}", "\u{1f4a9}", "x y", "\t"];
    for _ in 0..(if quick { 60 } else { 1200 }) {
        let mut l = gen::random_list(rng, &alph);
        // line-safe and argument-safe: no LF/CR, no leading hyphen
        for t in l.iter_mut() {
            *t = t.replace(['\n', '\r'], "");
            if t.starts_with('-') { t.insert(0, 'h'); }
        }
        pool.push(l);
    }
    pool.push(vec!["".into(), "a".into()]);
    pool.push(vec!["a".into(), "".into(), "b".into()]);
    // test cases that look like command-line syntax: behind `--` every argument is a test case, and a hyphen means "read standard
    // input" only when it is the single argument; on the other channels they are ordinary lines
    let hyphen: Vec<Vec<String>> = [vec!["-", "a", "b"], vec!["a", "-"], vec!["-", "-x-", "-x-x-"], vec!["-", "-"], vec!["--"], vec!["--", "a"],
        vec!["-f"], vec!["-f", "-"], vec!["-r", "aa"], vec!["--help"], vec!["-h", "-V"], vec!["--digits", "1"], vec!["-", ""], vec!["a", "-", "b"],
        // a carriage return inside a test case is text (only the one in front of a line feed belongs to the line ending)
        vec!["a\rb", "c"], vec!["\rx"], vec!["p\rq\rr", "p"]]
        .iter().map(|l| l.iter().map(|t| t.to_string()).collect()).collect();
    // … and at the end of a test case when the file has CRLF line endings (`str::lines` drops one carriage return per line)
    let cr_end: Vec<Vec<String>> = [vec!["abc\r", "xyz"], vec!["xyz", "abc\r"], vec!["\r", "a"], vec!["a\r\r", "b"]]
        .iter().map(|l| l.iter().map(|t| t.to_string()).collect()).collect();
    let all_bits: Vec<u32> = (0..15).collect();
    let flags = gen::flag_rows(rng, &all_bits);
    #[derive(Clone)]
    struct Job { case: Case, channel: usize, crlf: bool, final_nl: bool, short: bool }
    let mut jobs = vec![];
    for (k, t) in pool.iter().enumerate() {
        for j in 0..(if quick { 3 } else { 6 }) {
            let mut cfg = Cfg::new(gen::normalise_flags(flags[(k + j * 7) % flags.len()]));
            if cfg.has(BIT_REP) { cfg.min_rep = 1 + rng.below(3) as u32; cfg.min_len = 1 + rng.below(2) as u32; }
            let channel = (k + j) % 4;
            jobs.push(Job { case: Case { tcs: t.clone(), cfg }, channel, crlf: rng.chance(1, 2), final_nl: rng.chance(1, 2), short: rng.chance(1, 2) });
        }
    }
    // outputs that begin or end with white space (the front end must not trim or re-format what the library returns):
    // every test case shares a blank / ideographic space / no-break space at one end and the anchor on that side is off
    let edge: Vec<Vec<String>> = vec![
        vec!["a ".into(), "b ".into()], vec![" a".into(), " b".into()], vec!["y x ".into(), "x ".into()], vec![" ".into()],
        vec!["\u{65e5}\u{3000}".into()], vec!["\u{3000}q".into()], vec!["\u{a0}".into(), "z\u{a0}".into()], vec!["a  ".into()],
        vec!["ab\u{2028}".into()], vec!["\u{85}c".into(), "\u{85}d".into()],
    ];
    let edge_flags = [mask(&[BIT_NO_END]), mask(&[BIT_NO_START]), mask(&[BIT_NO_START, BIT_NO_END]), mask(&[BIT_NO_END, BIT_VERB]),
        mask(&[BIT_NO_START, BIT_NO_END, BIT_CAP]), mask(&[BIT_NO_END, BIT_CI])];
    for (k, t) in edge.iter().enumerate() {
        for (j, fl) in edge_flags.iter().enumerate() {
            for channel in 0..4usize {
                if quick && (k + j + channel) % 2 == 1 {
                    continue;
                }
                jobs.push(Job { case: Case { tcs: t.clone(), cfg: Cfg::new(*fl) }, channel, crlf: (k + j) % 2 == 0, final_nl: (j + channel) % 2 == 0, short: k % 2 == 0 });
            }
        }
    }
    for (k, t) in hyphen.iter().enumerate() {
        for channel in 0..4usize {
            for (j, fl) in [0u32, mask(&[BIT_REP]), mask(&[BIT_DIGIT, BIT_NO_START])].iter().enumerate() {
                jobs.push(Job { case: Case { tcs: t.clone(), cfg: Cfg::new(*fl) }, channel, crlf: (k + j) % 2 == 0, final_nl: (k + channel) % 2 == 0, short: j % 2 == 0 });
                // the argument channel twice: once with nothing on standard input, once with unrelated lines (job index parity)
                if channel == 0 {
                    jobs.push(Job { case: Case { tcs: t.clone(), cfg: Cfg::new(*fl) }, channel, crlf: false, final_nl: true, short: j % 2 == 1 });
                }
            }
        }
    }
    for (k, t) in cr_end.iter().enumerate() {
        for channel in 0..4usize {
            for fl in [0u32, mask(&[BIT_REP])] {
                // arguments carry the test case as it is; through a file or standard input a final carriage return needs CRLF endings
                jobs.push(Job { case: Case { tcs: t.clone(), cfg: Cfg::new(fl) }, channel, crlf: true, final_nl: k % 2 == 0, short: false });
            }
        }
    }
    let dirs = dir.clone();
    let results: Vec<(Vec<Fail>, bool)> = par_map(&(0..jobs.len()).collect::<Vec<_>>(), ctx.threads, |i| {
        let job = &jobs[*i];
        let mut fails = vec![];
        let mut tcs = job.case.tcs.clone();
        // a final empty line cannot be expressed without a final newline; an empty argument list neither
        if job.channel != 0 && !job.final_nl && tcs.last().map(|t| t.is_empty()).unwrap_or(false) {
            tcs.push("z".into());
        }
        if job.channel == 0 && tcs.len() == 1 && tcs[0] == "-" {
            tcs[0] = "h-".into();
        }
        let case = Case { tcs: tcs.clone(), cfg: job.case.cfg };
        let expected = build_public(&case);
        let le = if job.crlf { "\r\n" } else { "\n" };
        let mut content = tcs.join(le);
        if job.final_nl { content.push_str(le); }
        let mut args = cli_flags(case.cfg, job.short);
        let file = dirs.join(format!("in_{}.txt", i));
        let run = match job.channel {
            // standard input carries unrelated lines: with test cases among the arguments it must not be read
            0 => { let mut a = args.clone(); a.push("--".into()); a.extend(tcs.iter().cloned()); run_cli(bin, &a, if *i % 2 == 0 { None } else { Some(b"unrelated\nlines\n") }) }
            1 => { std::fs::write(&file, &content).unwrap(); args.push("-f".into()); args.push(file.to_string_lossy().to_string()); run_cli(bin, &args, None) }
            2 => { args.push("-".into()); run_cli(bin, &args, Some(content.as_bytes())) }
            _ => { std::fs::write(&file, &content).unwrap(); args.push("-f".into()); args.push("-".into()); run_cli(bin, &args, Some(format!("{}\n", file.to_string_lossy()).as_bytes())) }
        };
        let _ = std::fs::remove_file(&file);
        let chan = ["arguments", "-f FILE", "standard input (-)", "file named on standard input (-f -)"][job.channel];
        let nontrivial;
        match &expected {
            Built::Ok(s) => {
                nontrivial = is_nontrivial(s);
                let want = format!("{}\n", s);
                if run.code != Some(0) || run.stdout != want.as_bytes() {
                    fails.push(Fail::new(Kind::Differ, format!(
                        "channel {} ({}, final newline {}): exit {:?}, stdout {:?}, stderr {:?}; the library returns {:?}",
                        chan, if job.crlf { "CRLF" } else { "LF" }, job.final_nl, run.code, String::from_utf8_lossy(&run.stdout),
                        String::from_utf8_lossy(&run.stderr).lines().next().unwrap_or(""), s), None));
                }
            }
            Built::Panic(m) => {
                nontrivial = false;
                fails.push(Fail::new(Kind::Panic, format!("library build panicked: {}", m), None));
            }
        }
        (fails, nontrivial)
    });
    for (i, (f, nt)) in results.into_iter().enumerate() {
        o.evaluations += 1;
        o.bump(&format!("channel={}", jobs[i].channel), 1);
        if nt { o.nontrivial.insert(i as u64); }
        if o.samples.len() < 4 && i % 41 == 0 {
            o.samples.push(format!("{} via channel {} {}", jobs[i].case.describe(), jobs[i].channel, if jobs[i].crlf { "CRLF" } else { "LF" }));
        }
        for x in f { o.oracle_fails.push((jobs[i].case.clone(), x)); }
    }
    // unusable input: non-zero exit, one line on stderr, never a panic
    let missing = dir.join("does_not_exist.txt");
    let empty = dir.join("empty.txt");
    std::fs::write(&empty, b"").unwrap();
    let bad = dir.join("bad_utf8.txt");
    std::fs::write(&bad, [0x61, 0xff, 0xfe, 0x0a]).unwrap();
    let s = |x: &std::path::Path| x.to_string_lossy().to_string();
    let errs: Vec<(&str, Vec<String>, Option<Vec<u8>>)> = vec![
        ("missing file", vec!["-f".into(), s(&missing)], None),
        ("empty file", vec!["-f".into(), s(&empty)], None),
        ("file with invalid UTF-8", vec!["-f".into(), s(&bad)], None),
        ("empty standard input", vec!["-".into()], Some(vec![])),
        ("invalid UTF-8 on standard input", vec!["-".into()], Some(vec![0x61, 0x0a, 0xff, 0x0a])),
        ("missing file named on standard input", vec!["-f".into(), "-".into()], Some(format!("{}\n", s(&missing)).into_bytes())),
        ("empty file named on standard input", vec!["-f".into(), "-".into()], Some(format!("{}\n", s(&empty)).into_bytes())),
        ("zero minimum repetitions", vec!["--min-repetitions".into(), "0".into(), "a".into()], None),
        ("zero minimum substring length", vec!["-r".into(), "--min-substring-length".into(), "0".into(), "a".into()], None),
        ("no input at all", vec![], None),
        ("surrogates without escape", vec!["--with-surrogates".into(), "a".into()], None),
    ];
    for (name, args, input) in errs {
        let run = run_cli(bin, &args, input.as_deref());
        o.evaluations += 1;
        let err = String::from_utf8_lossy(&run.stderr).to_string();
        let first_lines: Vec<&str> = err.lines().filter(|l| !l.trim().is_empty()).collect();
        let is_usage = first_lines.iter().any(|l| l.starts_with("Usage:") || l.contains("--help"));
        let case = Case { tcs: vec![format!("<{}>", name)], cfg: Cfg::new(0) };
        if run.code == Some(0) || run.code.is_none() || run.code == Some(101) || err.contains("panicked") {
            o.oracle_fails.push((case, Fail::new(Kind::Panic, format!("{}: exit {:?}, stderr {:?}", name, run.code, err.lines().take(3).collect::<Vec<_>>().join(" | ")), None)));
        } else if !is_usage && first_lines.len() != 1 {
            o.oracle_fails.push((case, Fail::new(Kind::Differ, format!("{}: error output is not one line: {:?}", name, err), None)));
        } else if !run.stdout.is_empty() {
            o.oracle_fails.push((case, Fail::new(Kind::Differ, format!("{}: printed a pattern although the input is unusable: {:?}", name, String::from_utf8_lossy(&run.stdout)), None)));
        }
        o.bump("error_inputs", 1);
    }
    // library: from_file == from on the file's lines
    for (k, t) in pool.iter().take(if quick { 30 } else { 300 }).enumerate() {
        let mut tcs = t.clone();
        if tcs.last().map(|x| x.is_empty()).unwrap_or(false) { tcs.push("z".into()); }
        let file = dir.join(format!("lib_{}.txt", k));
        let le = if k % 2 == 0 { "\n" } else { "\r\n" };
        let mut content = tcs.join(le);
        if k % 3 == 0 { content.push_str(le); }
        std::fs::write(&file, &content).unwrap();
        let f2 = file.clone();
        let a = quietly(move || grex::RegExpBuilder::from_file(f2).build());
        let b = quietly(|| grex::RegExpBuilder::from(&tcs).build());
        o.evaluations += 1;
        match (a, b) {
            (Ok(x), Ok(y)) if x == y => {}
            (x, y) => o.oracle_fails.push((Case { tcs: tcs.clone(), cfg: Cfg::new(0) }, Fail::new(Kind::Differ, format!("from_file gives {:?}, from gives {:?}", x.ok(), y.ok()), None))),
        }
        let _ = std::fs::remove_file(&file);
    }
    let f2 = empty.clone();
    let a = quietly(move || grex::RegExpBuilder::from_file(f2).build());
    let b = quietly(|| grex::RegExpBuilder::from(&Vec::<String>::new()).build());
    if a.is_ok() != b.is_ok() {
        o.oracle_fails.push((Case { tcs: vec![], cfg: Cfg::new(0) }, Fail::new(Kind::Differ, format!("from_file(empty file) {} but from(&[]) {}", if a.is_ok() { "builds" } else { "panics" }, if b.is_ok() { "builds" } else { "panics" }), None)));
    }
    let _ = std::fs::remove_dir_all(&dir);
    o
}

// ------------------------------------------------------------------------------------ C14
/// The library's pattern in Python escape syntax, read token by token: a backslash starts an escape of the pattern syntax, so
/// an escaped backslash is one token (what follows it is ordinary text: `\\u{2}` is a backslash and `u` twice) and `\u{h…}` is
/// one token that Python writes `\uXXXX` / `\UXXXXXXXX`; every other character is copied.
pub fn py_reference_rewrite(s: &str) -> String {
    let cs: Vec<char> = s.chars().collect();
    let mut out = String::new();
    let mut i = 0;
    while i < cs.len() {
        if cs[i] == '\\' && i + 1 < cs.len() {
            if cs[i + 1] == 'u' && i + 2 < cs.len() && cs[i + 2] == '{' {
                let mut j = i + 3;
                while j < cs.len() && cs[j].is_ascii_hexdigit() { j += 1; }
                if j > i + 3 && j < cs.len() && cs[j] == '}' {
                    let h: String = cs[i + 3..j].iter().collect();
                    let v = u32::from_str_radix(&h, 16).unwrap_or(0);
                    if v <= 0xffff { out.push_str(&format!("\\u{:04x}", v)) } else { out.push_str(&format!("\\U{:08x}", v)) }
                    i = j + 1;
                    continue;
                }
            }
            out.push(cs[i]);
            out.push(cs[i + 1]);
            i += 2;
            continue;
        }
        out.push(cs[i]);
        i += 1;
    }
    out
}

pub fn run_c14(ctx: &Ctx, rng: &mut Rng, tier: Tier, ext_dir: Option<&str>, script: &str) -> Outcome {
    let quick = tier == Tier::Quick;
    let mut o = Outcome::default();
    let Some(ext) = ext_dir else {
        o.notes.push("python extension not available".into());
        return o;
    };
    let mut pool: Vec<Vec<String>> = vec![];
    for atoms in [gen::BOUNDARY, gen::CASE, gen::META, gen::CLUSTERS] {
        for a in atoms { pool.push(vec![a.to_string()]); }
        for _ in 0..(if quick { 80 } else { 1500 }) { pool.push(gen::random_list(rng, atoms)); }
    }
    let flags = gen::flag_rows(rng, &[0, 1, 2, 3, 4, 5, 6, 7, 8, 9, 10, 11, 12, 13]);
    let mut cases = vec![];
    // text of the test cases that looks like an escape once it is printed: a backslash in front of `u` repeated (with -r the
    // quantifier `{n}` follows the `u`), of hex digits, of braces — under -e, where the rewrite is applied
    for n in [2usize, 3, 4, 9, 10, 11, 15, 16, 100] {
        for pre in ["", "a", "\u{e9}", "\\"] {
            for post in ["", "x", "\u{1f600}"] {
                let t = format!("{}\\{}{}", pre, "u".repeat(n), post);
                for extra in [0u32, mask(&[BIT_VERB]), mask(&[BIT_CAP]), mask(&[BIT_NO_START])] {
                    let mut cfg = Cfg::new(gen::normalise_flags(mask(&[BIT_ESC, BIT_REP]) | extra));
                    cfg.min_rep = 1;
                    cases.push(Case { tcs: vec![t.clone()], cfg });
                }
            }
        }
    }
    for t in ["\\u{e9}", "\\\\u{e9}", "\\u{2}", "\\ue9", "\\u{}", "\\u{1234567}", "\\U0001f600", "\\\u{e9}", "\\uu\\uu", "\\uu\\uuu"] {
        for bits in [mask(&[BIT_ESC]), mask(&[BIT_ESC, BIT_REP]), mask(&[BIT_ESC, BIT_SUR]), mask(&[BIT_ESC, BIT_VERB])] {
            let mut cfg = Cfg::new(gen::normalise_flags(bits));
            cfg.min_rep = 1;
            cases.push(Case { tcs: vec![t.to_string()], cfg });
        }
    }
    for (k, t) in pool.iter().enumerate() {
        for j in 0..(if quick { 3 } else { 6 }) {
            let mut bits = gen::normalise_flags(flags[(k + j * 3) % flags.len()]);
            if j == 0 { bits = mask(&[BIT_ESC]) | (bits & mask(&[BIT_VERB, BIT_CAP, BIT_REP])); }
            if j == 1 { bits = mask(&[BIT_ESC, BIT_SUR]) | (bits & mask(&[BIT_NO_START, BIT_CAP])); }
            let mut cfg = Cfg::new(gen::normalise_flags(bits));
            if cfg.has(BIT_REP) { cfg.min_rep = 1 + rng.below(2) as u32; }
            cases.push(Case { tcs: t.clone(), cfg });
        }
    }
    // one interpreter, line protocol: "<bits> <minrep> <minlen> <hex;hex>" -> "O <hex> <compiled 0/1> <fullmatch bits>" | "X <exc>:<msg hex>"
    let mut child = Command::new("python3").arg(script).arg(ext).stdin(Stdio::piped()).stdout(Stdio::piped()).stderr(Stdio::piped()).spawn().expect("python3");
    let mut si = child.stdin.take().unwrap();
    let mut input = String::new();
    for c in &cases {
        input.push_str(&format!("B {} {} {} {}\n", c.cfg.bits, c.cfg.min_rep, c.cfg.min_len, c.tcs.iter().map(|t| hex(t)).collect::<Vec<_>>().join(";")));
    }
    input.push_str("E empty\nE minrep 0\nE minrep -2\nE minlen 0\nE minlen -1\n");
    // write from a second thread: the interpreter answers while it reads, both pipes are bounded
    let writer = std::thread::spawn(move || {
        let _ = si.write_all(input.as_bytes());
        drop(si);
    });
    let out = child.wait_with_output().expect("python wait");
    let _ = writer.join();
    let lines: Vec<String> = String::from_utf8_lossy(&out.stdout).lines().map(|s| s.to_string()).collect();
    if lines.len() != cases.len() + 5 {
        o.notes.push(format!("python answered {} of {} requests; stderr: {}", lines.len(), cases.len() + 5, String::from_utf8_lossy(&out.stderr).lines().last().unwrap_or("")));
        o.oracle_fails.push((Case { tcs: vec![], cfg: Cfg::new(0) }, Fail::new(Kind::Other, "the Python extension could not be driven".into(), None)));
        return o;
    }
    let rust: Vec<Built> = par_map(&cases, ctx.threads, build_public);
    // the model's rewrite of the library's output
    let model_lines: Option<Vec<String>> = if ctx.model.available() {
        let reqs: Vec<String> = rust.iter().map(|b| format!("Y {}", hex(b.ok().unwrap_or("")))).collect();
        ctx.model.run_robust(&reqs).ok()
    } else {
        None
    };
    for (i, c) in cases.iter().enumerate() {
        o.evaluations += 1;
        let parts: Vec<&str> = lines[i].split(' ').collect();
        let Built::Ok(r) = &rust[i] else { continue };
        if is_nontrivial(r) { o.nontrivial.insert(i as u64); }
        if parts[0] != "O" {
            o.oracle_fails.push((c.clone(), Fail::new(Kind::Panic, format!("Python build raised {}", lines[i]), None)));
            continue;
        }
        let got = unhex(parts[1]).unwrap_or_default();
        let expect = if c.cfg.has(BIT_ESC) { py_reference_rewrite(r) } else { r.clone() };
        if got != expect {
            o.oracle_fails.push((c.clone(), Fail::new(Kind::Differ, format!("Python returns {:?}; the library's {:?} in Python escape syntax is {:?}", got, r, expect), None)));
        }
        // (a Rust escape left in the output differs from `expect`, which has none; the text `\\u{2}` behind an escaped backslash
        // is not one)
        if let Some(ml) = &model_lines {
            o.model_compared += 1;
            let m = ml[i].strip_prefix("Y ").and_then(unhex).unwrap_or_default();
            let me = if c.cfg.has(BIT_ESC) { m } else { r.clone() };
            if me != got {
                o.model_diffs.push((c.clone(), format!("O {}", hex(&got)), format!("O {}", hex(&me))));
            }
        }
        if parts[2] != "1" {
            o.oracle_fails.push((c.clone(), Fail::new(Kind::Invalid, format!("Python's re rejects {:?}: {}", got, parts.get(4).and_then(|h| unhex(h)).unwrap_or_default()), None)));
        } else if c.cfg.bits & CLASS_MASK == 0 && !c.cfg.has(BIT_CI) {
            for (k, ch) in parts[3].chars().enumerate() {
                if ch == '0' {
                    o.oracle_fails.push((c.clone(), Fail::new(Kind::Miss, format!("Python pattern {:?} does not fully match test case {:?}", got, c.tcs.get(k)), c.tcs.get(k).cloned())));
                }
            }
        }
        if o.samples.len() < 5 && i % 53 == 0 {
            o.samples.push(format!("{} -> {:?}", c.describe(), got));
        }
    }
    let expect_errs = [
        "X ValueError:No test cases have been provided for regular expression generation",
        "X ValueError:Quantity of minimum repetitions must be greater than zero",
        "X ValueError:Quantity of minimum repetitions must be greater than zero",
        "X ValueError:Minimum substring length must be greater than zero",
        "X ValueError:Minimum substring length must be greater than zero",
    ];
    for (k, e) in expect_errs.iter().enumerate() {
        o.evaluations += 1;
        let got = &lines[cases.len() + k];
        if got != e {
            o.oracle_fails.push((Case { tcs: vec![format!("<error case {}>", k)], cfg: Cfg::new(0) }, Fail::new(Kind::Differ, format!("expected {:?}, Python gives {:?}", e, got), None)));
        }
    }
    o
}

/// known finding D15: surrogate escapes are two code points for Python's re
pub fn d15_guard(case: &Case, fail: &Fail) -> bool {
    case.cfg.has(BIT_ESC) && case.cfg.has(BIT_SUR) && fail.kind == Kind::Miss && fail.witness.as_ref().map(|w| w.chars().any(|c| c as u32 > 0xffff)).unwrap_or(false)
}

// ------------------------------------------------------------------------------------ C14 / C17 generated API
pub fn api_compare(ctx: &Ctx, which: &str, o: &mut Outcome) {
    if !ctx.model.available() {
        o.notes.push("model driver unavailable: generated API not compared".into());
        return;
    }
    match ctx.model.run(&[format!("A {}", which)]) {
        Ok(r) => {
            o.evaluations += 17 * 7 * 2;
            o.model_compared += 1;
            o.samples.push(format!("generated {} setters vs library setters on 17 setters x 7 arguments x 2 start configurations: {}", which, r[0]));
            if r[0] != "A same" {
                // a setter of this front end has another effect than the library's setter of the same name:
                // that is the property failing on the generated semantics; the setter/argument is the replay
                let names = ["with_conversion_of_digits", "with_conversion_of_non_digits", "with_conversion_of_whitespace",
                    "with_conversion_of_non_whitespace", "with_conversion_of_words", "with_conversion_of_non_words",
                    "with_conversion_of_repetitions", "with_case_insensitive_matching", "with_capturing_groups",
                    "with_minimum_repetitions", "with_minimum_substring_length", "with_escaping_of_non_ascii_chars",
                    "with_verbose_mode", "without_start_anchor", "without_end_anchor", "without_anchors", "with_syntax_highlighting"];
                let args = ["()", "(true)", "(false)", "(0)", "(1)", "(2)", "(7)"];
                let first = r[0].trim_start_matches("A ").split(';').next().unwrap_or("");
                let f: Vec<&str> = first.splitn(3, ':').collect();
                let what = if f.len() == 3 {
                    let si: usize = f[0].parse().unwrap_or(0);
                    let ai: usize = f[1].parse().unwrap_or(0);
                    format!("{} front end: {}{} has the effect {} (config bits digit..color/min_rep/min_len; left = this front end, right = the library)",
                        which, names.get(si).unwrap_or(&"?"), args.get(ai).unwrap_or(&"?"), f[2])
                } else {
                    format!("{} front end differs from the library: {}", which, r[0])
                };
                o.oracle_fails.push((Case { tcs: vec![format!("<{} api>", which)], cfg: Cfg::new(0) }, Fail::new(Kind::Differ, what, Some(first.to_string()))));
            }
        }
        Err(e) => o.notes.push(format!("driver: {}", e)),
    }
}
