// Input generators. Every random choice derives from one SplitMix64 state (VERIF_SEED).

use crate::util::*;
use std::collections::HashSet;

pub const META: &[&str] = &[
    "(", ")", "[", "]", "{", "}", "+", "*", "-", ".", "?", "|", "^", "$", "\\", "#", " ", "a",
];
pub const CLUSTERS: &[&str] = &[
    "\\", "\u{ff9e}", "a", ".", "\u{1f44d}\u{1f3fd}", "\u{1f3fd}", "e\u{301}", "\u{301}", "\u{200d}",
    "\u{1f1e9}", "\u{1f1ea}", "\u{1100}", "\u{1161}", "\u{11a8}", "\u{600}", "\u{ac00}", "\u{93f}", "\u{915}",
    "\u{1f468}", "x",
    // Prepend characters of category Lo: they join the next character — also an ASCII one — into one cluster that grex keeps whole
    "\u{d4e}", "\u{111c2}",
];
pub const WS: &[&str] = &[
    "\t", "\n", "\u{b}", "\u{c}", "\r", " ", "\u{85}", "\u{a0}", "\u{1680}", "\u{2000}", "\u{2007}",
    "\u{200a}", "\u{2028}", "\u{2029}", "\u{202f}", "\u{205f}", "\u{3000}", "#", "a", "\u{200b}", "\u{feff}",
];
pub const CASE: &[&str] = &[
    "a", "A", "b", "B", "\u{130}", "i", "I", "\u{131}", "\u{1e9e}", "\u{df}", "\u{3a3}", "\u{3c3}", "\u{3c2}",
    "\u{212a}", "k", "K", "\u{13a0}", "\u{ab70}", "\u{1c4}", "\u{1c5}", "\u{1c6}", "\u{1c89}", "\u{1c8a}",
    "\u{17f}", "s", "S", "\u{e9}", "\u{c9}", "\u{10d50}", "\u{a7cb}", "1", " ",
];
/// letters in both cases next to regex metacharacters (the guard of `convert_for_case_insensitive_matching` compiles the
/// lower-cased test case as a pattern) and letters whose std lower-casing the regex crate does not fold
pub const CASE_META: &[&str] = &[
    "A", "a", "B", "b", "?", "+", "(", ")", "|", ".", "*", "[", "{", "^", "$", "\\", "\u{a7dc}", "\u{130}", "K", "\u{212a}", "\u{1c89}",
];
pub const BOUNDARY: &[&str] = &[
    "a", "\u{7f}", "\u{80}", "\u{e9}", "\u{100}", "\u{7ff}", "\u{800}", "\u{fff}", "\u{1000}", "\u{d7ff}",
    "\u{e000}", "\u{ffff}", "\u{10000}", "\u{1f4a9}", "\u{fffff}", "\u{100000}", "\u{10fffe}", "\u{10ffff}", "-", "[",
];
pub const COLORISH: &[&str] = &["\u{1b}", "[", "m", "0", "1", ";", "3", "(", ")", "$", "^", "a", "|", "?"];
pub const LOOKALIKE: &[&str] = &["\\", "d", "w", "s", "D", "u", "{", "}", "4", "1", "2", ",", "\\d", "a"];
pub const CLASSY: &[&str] = &["a", "1", " ", "_", "\u{663}", "-", "\u{e9}", "\t", "B", "9"];

/// units for repeat-count families: plain, metacharacters, class members, and multi-code-point
/// graphemes whose first code point prints as an escape and whose tail prints raw
pub const REPEAT_UNITS: &[&str] = &[
    "a", "ab", "abc", ".", "a.", "\u{e9}x", "1", " b", ".\u{ff9e}", "+\u{1f3fd}", "7\u{ff9e}", "a\u{ff9e}", "\\", "\\d",
    "\u{1f468}\u{1f3fd}", "(", "\u{1100}\u{1161}", "x\u{e33}", "\u{200a}", "#",
];

pub fn words(atoms: &[&str], maxlen: usize) -> Vec<String> {
    let mut out = vec![String::new()];
    let mut layer = vec![String::new()];
    for _ in 0..maxlen {
        let mut next = vec![];
        for w in &layer {
            for a in atoms {
                next.push(format!("{}{}", w, a));
            }
        }
        out.extend(next.iter().cloned());
        layer = next;
    }
    let mut seen = HashSet::new();
    out.retain(|w| seen.insert(w.clone()));
    out
}

/// All non-empty subsets of `ws` with at most `maxk` elements.
pub fn subsets(ws: &[String], maxk: usize) -> Vec<Vec<String>> {
    fn rec(ws: &[String], start: usize, maxk: usize, cur: &mut Vec<String>, out: &mut Vec<Vec<String>>) {
        if !cur.is_empty() {
            out.push(cur.clone());
        }
        if cur.len() == maxk {
            return;
        }
        for i in start..ws.len() {
            cur.push(ws[i].clone());
            rec(ws, i + 1, maxk, cur, out);
            cur.pop();
        }
    }
    let mut out = vec![];
    rec(ws, 0, maxk, &mut vec![], &mut out);
    out
}

pub fn sample_subsets(rng: &mut Rng, ws: &[String], maxk: usize, n: usize) -> Vec<Vec<String>> {
    let mut out = vec![];
    for _ in 0..n {
        let k = 1 + rng.below(maxk);
        let mut s: Vec<String> = vec![];
        for _ in 0..k {
            let w = rng.pick(ws).clone();
            if !s.contains(&w) {
                s.push(w);
            }
        }
        out.push(s);
    }
    out
}

/// Either the complete enumeration or, if that is larger than `cap`, a seeded sample of `cap`.
pub fn subsets_capped(rng: &mut Rng, ws: &[String], maxk: usize, cap: usize) -> (Vec<Vec<String>>, bool) {
    let mut total: u128 = 0;
    let n = ws.len() as u128;
    let mut c: u128 = 1;
    for k in 1..=maxk as u128 {
        if k > n {
            break;
        }
        c = c * (n - k + 1) / k;
        total += c;
    }
    if total <= cap as u128 {
        (subsets(ws, maxk), true)
    } else {
        (sample_subsets(rng, ws, maxk, cap), false)
    }
}

/// Random list over a small alphabet with forced shared prefixes, suffixes and repeats.
pub fn random_list(rng: &mut Rng, atoms: &[&str]) -> Vec<String> {
    let k = 2 + rng.below(3);
    let alpha: Vec<&str> = (0..k).map(|_| *rng.pick(atoms)).collect();
    let word = |rng: &mut Rng, maxlen: usize| -> String {
        let n = rng.below(maxlen + 1);
        (0..n).map(|_| *rng.pick(&alpha)).collect::<String>()
    };
    let n = 1 + rng.below(6);
    let mut out: Vec<String> = vec![];
    for _ in 0..n {
        let w = match rng.below(6) {
            0 if !out.is_empty() => {
                let base = rng.pick(&out).clone();
                format!("{}{}", base, word(rng, 2))
            }
            1 if !out.is_empty() => {
                let base = rng.pick(&out).clone();
                format!("{}{}", word(rng, 2), base)
            }
            2 => {
                let unit = word(rng, 2);
                let times = 1 + rng.below(4);
                format!("{}{}{}", word(rng, 1), unit.repeat(times), word(rng, 1))
            }
            3 if !out.is_empty() => {
                let base: Vec<char> = rng.pick(&out).chars().collect();
                if base.is_empty() {
                    word(rng, 3)
                } else {
                    let cut = rng.below(base.len() + 1);
                    let mut s: String = base[..cut].iter().collect();
                    s.push_str(&word(rng, 2));
                    s
                }
            }
            _ => word(rng, 4),
        };
        out.push(w);
    }
    if rng.chance(1, 8) {
        let d = rng.pick(&out).clone();
        out.push(d);
    }
    out
}

/// Rows over the given flag bits such that every pair of bits sees all four value combinations.
pub fn pairwise_flags(rng: &mut Rng, bits: &[u32]) -> Vec<u32> {
    let n = bits.len();
    let mut need: HashSet<(usize, usize, bool, bool)> = HashSet::new();
    for i in 0..n {
        for j in i + 1..n {
            for a in [false, true] {
                for b in [false, true] {
                    need.insert((i, j, a, b));
                }
            }
        }
    }
    let mut rows = vec![0u32, bits.iter().fold(0, |m, b| m | (1 << b))];
    let cover = |row: u32, need: &mut HashSet<(usize, usize, bool, bool)>| {
        for i in 0..n {
            for j in i + 1..n {
                need.remove(&(i, j, row & (1 << bits[i]) != 0, row & (1 << bits[j]) != 0));
            }
        }
    };
    for r in rows.clone() {
        cover(r, &mut need);
    }
    while !need.is_empty() {
        let mut best = 0u32;
        let mut best_gain = 0usize;
        for _ in 0..40 {
            let mut row = 0u32;
            for b in bits {
                if rng.chance(1, 2) {
                    row |= 1 << b;
                }
            }
            let gain = need
                .iter()
                .filter(|(i, j, a, b)| (row & (1 << bits[*i]) != 0) == *a && (row & (1 << bits[*j]) != 0) == *b)
                .count();
            if gain > best_gain {
                best_gain = gain;
                best = row;
            }
        }
        if best_gain == 0 {
            let &(i, j, a, b) = need.iter().next().unwrap();
            best = 0;
            if a {
                best |= 1 << bits[i];
            }
            if b {
                best |= 1 << bits[j];
            }
        }
        cover(best, &mut need);
        rows.push(best);
    }
    rows
}

/// Pairwise rows plus the rows a t-way covering array of this size cannot promise: no flag, every
/// single flag, and every flag together with verbose mode.
pub fn flag_rows(rng: &mut Rng, bits: &[u32]) -> Vec<u32> {
    let mut rows = pairwise_flags(rng, bits);
    for b in bits {
        rows.push(1 << b);
        if bits.contains(&crate::util::BIT_VERB) {
            rows.push((1 << b) | (1 << crate::util::BIT_VERB));
        }
    }
    let mut seen = HashSet::new();
    rows.retain(|r| seen.insert(normalise_flags(*r)));
    rows
}

/// Surrogate escaping only makes sense with escaping (the CLI enforces it; the library ignores the flag otherwise).
pub fn normalise_flags(bits: u32) -> u32 {
    if bits & (1 << BIT_ESC) == 0 {
        bits & !(1 << BIT_SUR)
    } else {
        bits
    }
}

/// Sets of single code points that end up in one character class: a base and members at structured distances
/// (neighbours, +2, page/plane-sized steps and their neighbours), so that runs, near-runs and "runs modulo a power
/// of two" all occur; also across the surrogate gap.
pub fn class_sets(rng: &mut Rng, quick: bool) -> Vec<Vec<String>> {
    const BASES: &[u32] = &[0x2c, 0x5a, 0x61, 0x7e, 0xfe, 0x7fe, 0xd7fd, 0xfffd, 0x10061, 0x1f600, 0x10fffb];
    const DELTAS: &[u32] = &[0, 1, 2, 3, 5, 0xff, 0x100, 0x101, 0x102, 0x800, 0x801, 0x802, 0xffff, 0x10000, 0x10001, 0x10002, 0x10003, 0x20001, 0x20002];
    let mut out = vec![];
    let mut push = |cs: Vec<u32>, out: &mut Vec<Vec<String>>| {
        let v: Vec<String> = cs.iter().filter_map(|c| char::from_u32(*c)).map(|c| c.to_string()).collect();
        if v.len() >= 3 {
            out.push(v);
        }
    };
    for &b in BASES {
        for i in 0..DELTAS.len() {
            for j in i + 1..DELTAS.len() {
                for k in j + 1..DELTAS.len() {
                    if quick && rng.below(6) != 0 {
                        continue;
                    }
                    push(vec![b + DELTAS[i], b + DELTAS[j], b + DELTAS[k]], &mut out);
                }
            }
        }
        // longer mixed sets
        for _ in 0..(if quick { 6 } else { 60 }) {
            let n = 4 + rng.below(4);
            let cs: Vec<u32> = (0..n).map(|_| b + DELTAS[rng.below(DELTAS.len())]).collect();
            push(cs, &mut out);
        }
    }
    // the one discontinuity of `CharRange::all()`: every triple of scalar values next to the surrogate gap
    const GAP: &[u32] = &[0xd7fc, 0xd7fd, 0xd7fe, 0xd7ff, 0xe000, 0xe001, 0xe002, 0xe003];
    for i in 0..GAP.len() {
        for j in i + 1..GAP.len() {
            for k in j + 1..GAP.len() {
                push(vec![GAP[i], GAP[j], GAP[k]], &mut out);
            }
        }
    }
    for i in 0..GAP.len() {
        for j in i + 1..GAP.len() {
            for k in j + 1..GAP.len() {
                for l in k + 1..GAP.len() {
                    if (i + j + k + l) % 3 == 0 {
                        push(vec![GAP[i], GAP[j], GAP[k], GAP[l]], &mut out);
                    }
                }
            }
        }
    }
    out
}

/// words with a period nested inside a period (the inner one repeated two to four times), for the thresholds
pub fn nested_periodic_words() -> Vec<String> {
    let mut out = vec![];
    for inner in ["a", "ab", "."] {
        for n in 2..=4usize {
            for tail in ["b", "c", "bc", ""] {
                let unit = format!("{}{}", inner.repeat(n), tail);
                if unit == inner.repeat(n) && tail.is_empty() && inner.len() == 1 {
                    continue;
                }
                for k in 2..=3usize {
                    out.push(unit.repeat(k));
                    out.push(format!("x{}", unit.repeat(k)));
                }
            }
        }
    }
    // three levels
    out.push("aabaabcaabaabc".to_string());
    out.push("ababcababcdababcababcd".to_string());
    out.sort();
    out.dedup();
    out
}

pub fn periodic_words() -> Vec<String> {
    let mut out = vec![];
    for i in 0..=6 {
        out.push("a".repeat(i));
    }
    for unit in ["ab", "abc", "aab", "ba"] {
        for k in 1..=4 {
            out.push(unit.repeat(k));
            out.push(format!("x{}", unit.repeat(k)));
            out.push(format!("{}y", unit.repeat(k)));
        }
    }
    for i in 0..=3 {
        for j in 0..=2 {
            for k in 1..=3 {
                out.push(format!("{}{}", "a".repeat(i), format!("b{}", "a".repeat(j)).repeat(k)));
            }
        }
    }
    let mut seen = HashSet::new();
    out.retain(|w| seen.insert(w.clone()));
    out
}

/// Inputs around a set of given ones (those on which implementation and model differ): each with single settings
/// toggled, pairwise unions of their test-case lists, and small sets of short words over the characters they use.
pub fn around(rng: &mut Rng, diffs: &[Case], budget: usize) -> Vec<Case> {
    let mut seeds: Vec<&Case> = diffs.iter().collect();
    seeds.sort_by_key(|c| c.tcs.iter().map(|t| t.len()).sum::<usize>() + c.tcs.len());
    seeds.truncate(400);
    let mut out: Vec<Case> = vec![];
    let toggles = [BIT_NO_START, BIT_NO_END, BIT_VERB, BIT_CAP, BIT_ESC, BIT_CI, BIT_REP];
    for c in seeds.iter().take(150) {
        for b in toggles {
            let bits = normalise_flags(c.cfg.bits ^ (1 << b));
            out.push(Case { tcs: c.tcs.clone(), cfg: Cfg { bits, ..c.cfg } });
        }
    }
    for _ in 0..(budget / 6) {
        if seeds.len() < 2 { break; }
        let a = seeds[rng.below(seeds.len())];
        let b = seeds[rng.below(seeds.len())];
        let mut t = a.tcs.clone();
        t.extend(b.tcs.iter().cloned());
        t.sort();
        t.dedup();
        if t.len() <= 8 {
            out.push(Case { tcs: t, cfg: a.cfg });
        }
    }
    // the characters the differing inputs are made of, most frequent first
    let mut freq: std::collections::BTreeMap<char, usize> = Default::default();
    for c in &seeds {
        for t in &c.tcs {
            for ch in t.chars() {
                *freq.entry(ch).or_insert(0) += 1;
            }
        }
    }
    let mut chars: Vec<(char, usize)> = freq.into_iter().collect();
    chars.sort_by(|a, b| b.1.cmp(&a.1).then(a.0.cmp(&b.0)));
    let alph: Vec<String> = chars.iter().take(4).map(|(c, _)| c.to_string()).collect();
    let alph_ref: Vec<&str> = alph.iter().map(|s| s.as_str()).collect();
    let mut cfgs: Vec<Cfg> = seeds.iter().map(|c| c.cfg).collect();
    cfgs.sort_by_key(|c| (c.bits, c.min_rep, c.min_len));
    cfgs.dedup();
    if !alph_ref.is_empty() && !cfgs.is_empty() {
        let ws = words(&alph_ref, 3);
        while out.len() < budget {
            let n = 2 + rng.below(4);
            let mut t: Vec<String> = (0..n).map(|_| ws[rng.below(ws.len())].clone()).collect();
            t.sort();
            t.dedup();
            out.push(Case { tcs: t, cfg: cfgs[rng.below(cfgs.len())] });
        }
    }
    out
}

/// Test cases whose repetition structure nests three levels deep — ((XXb){2}a){2} — with a character that needs an
/// escape (metacharacter, line feed / tab, non-ASCII, astral) in the innermost, the middle or the outer level
pub fn deep_nested_words() -> Vec<Vec<String>> {
    let mut out = vec![];
    for x in ["(", "+", ".", "[", "\\", "\n", "\t", " ", "#", "\u{e9}", "\u{1f4a9}", "\u{2028}", "a"] {
        for (b, a) in [("b", "a"), ("|", "a"), ("b", "$"), ("\u{e9}", "\u{1f4a9}")] {
            if x == b || x == a { continue; }
            let inner = format!("{}{}{}", x, x, b);
            let mid = format!("{}{}{}", inner, inner, a);
            let w = format!("{}{}", mid, mid);
            out.push(vec![w.clone()]);
            out.push(vec![w.clone(), "x".to_string()]);
            out.push(vec![format!("q{}", w)]);
        }
    }
    out
}

/// Sets of test cases that share prefixes and differ in the *length of a run* of one character — the shapes on which the
/// trie of `-r` widens edges ({m,n}), keeps several edges with the same characters at one state, and the minimisation has to
/// tell states apart by the counts their edges carry: prefix ∈ {"", x, y, xy} · c^k (k = 1..5) · suffix ∈ {"", p, q, pq, c-run}
pub fn run_sets(rng: &mut Rng, n: usize) -> Vec<Vec<String>> {
    let prefixes = ["", "x", "y", "xy", "z"];
    let suffixes = ["", "p", "q", "pq", "ppp", "qqqq", "pb", "pbb"];
    let mut out: Vec<Vec<String>> = vec![];
    // the systematic part: two prefixes, each with a set of run lengths (subsets of 1..=4), no suffix
    for ka in 1u32..16 {
        for kb in 1u32..16 {
            let mut t = vec![];
            for k in 0..4 {
                if ka & (1 << k) != 0 { t.push(format!("x{}", "c".repeat(k + 1))); }
                if kb & (1 << k) != 0 { t.push(format!("y{}", "c".repeat(k + 1))); }
            }
            out.push(t);
        }
    }
    for _ in 0..n {
        let size = 3 + rng.below(6);
        let c = ["c", "ab", "."][rng.below(3)];
        let np = 1 + rng.below(3);
        let ns = 1 + rng.below(3);
        let mut t: Vec<String> = (0..size).map(|_| {
            format!("{}{}{}", prefixes[rng.below(np + 1)], c.repeat(1 + rng.below(5)), suffixes[rng.below(ns + 1) * (1 + rng.below(2)) % suffixes.len()])
        }).collect();
        t.sort();
        t.dedup();
        out.push(t);
    }
    out
}
